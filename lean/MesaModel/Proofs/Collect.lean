import MesaModel.Model.Collect
/-! Helper definitions and lemmas for the DataCollector model (C12, C13, C18-collect). -/
namespace Mesa.Collect

theorem snoc_induction {P : List α → Prop} (nil : P []) (snoc : ∀ l x, P l → P (l ++ [x])) : ∀ l, P l := by
  intro l
  have : ∀ r : List α, P r.reverse := by
    intro r
    induction r with
    | nil => exact nil
    | cons x xs ih => rw [List.reverse_cons]; exact snoc _ _ ih
  simpa using this l.reverse

/-! ### insertion-ordered dicts -/

theorem lookup_cons' (k k' : Nat) (v : α) (l : List (Nat × α)) :
    ((k', v) :: l).lookup k = if k = k' then some v else l.lookup k := by
  by_cases h : k = k'
  · subst h; simp [List.lookup]
  · have : (k == k') = false := by simp [h]
    simp [List.lookup, this, h]

theorem lookup_setKey_self (k : Nat) (v : α) (l : List (Nat × α)) : (setKey k v l).lookup k = some v := by
  induction l with
  | nil => simp [setKey]
  | cons x xs ih =>
    obtain ⟨k', v'⟩ := x
    simp only [setKey]
    split
    · subst_vars; simp
    · rename_i h
      simp [lookup_cons', ih, Ne.symm h]

theorem lookup_setKey_ne {k k' : Nat} (h : k' ≠ k) (v : α) (l : List (Nat × α)) :
    (setKey k v l).lookup k' = l.lookup k' := by
  induction l with
  | nil => simp [setKey, lookup_cons', h]
  | cons x xs ih =>
    obtain ⟨k'', v'⟩ := x
    simp only [setKey]
    split
    · subst_vars; simp [lookup_cons', h]
    · simp [lookup_cons', ih]

theorem lookup_setKey (k k' : Nat) (v : α) (l : List (Nat × α)) :
    (setKey k v l).lookup k' = if k' = k then some v else l.lookup k' := by
  by_cases h : k' = k
  · subst h; simp [lookup_setKey_self]
  · simp [h, lookup_setKey_ne h]

theorem keys_setKey (k : Nat) (v : α) (l : List (Nat × α)) :
    (setKey k v l).map (·.1) = if k ∈ l.map (·.1) then l.map (·.1) else l.map (·.1) ++ [k] := by
  induction l with
  | nil => simp [setKey]
  | cons x xs ih =>
    obtain ⟨k', v'⟩ := x
    simp only [setKey]
    split
    · subst_vars; simp
    · rename_i h
      simp only [List.map_cons, ih, List.mem_cons]
      have : ¬ k = k' := fun e => h e.symm
      simp only [this, false_or]
      split <;> simp

/-- the last element of a list satisfying `p` -/
def lastWith (p : α → Bool) (l : List α) : Option α := (l.filter p).getLast?

theorem lastWith_nil (p : α → Bool) : lastWith p [] = none := rfl

theorem lastWith_append_singleton (p : α → Bool) (l : List α) (x : α) :
    lastWith p (l ++ [x]) = if p x then some x else lastWith p l := by
  unfold lastWith
  by_cases h : p x <;> simp [List.filter_append, h]

/-- a dict built by successive assignments `d[key x] = val x` -/
def assign (key : α → Nat) (val : α → β) (l : List α) : List (Nat × β) :=
  l.foldl (fun acc x => setKey (key x) (val x) acc) []

theorem assign_snoc (key : α → Nat) (val : α → β) (l : List α) (x : α) :
    assign key val (l ++ [x]) = setKey (key x) (val x) (assign key val l) := by
  simp [assign, List.foldl_append]

/-- reading a dict built by assignments: the last assignment to that key -/
theorem lookup_assign (key : α → Nat) (val : α → β) (l : List α) (k : Nat) :
    (assign key val l).lookup k = (lastWith (fun x => key x == k) l).map val := by
  induction l using snoc_induction with
  | nil => simp [assign, lastWith]
  | snoc l x ih =>
    rw [assign_snoc, lookup_setKey, lastWith_append_singleton, ih]
    by_cases h : k = key x
    · subst h; simp
    · have : ¬ key x = k := fun e => h e.symm
      simp [h, this]

theorem keys_assign_subset (key : α → Nat) (val : α → β) (l : List α) :
    ∀ k ∈ (assign key val l).map (·.1), k ∈ l.map key := by
  induction l using snoc_induction with
  | nil => simp [assign]
  | snoc l x ih =>
    intro k hk
    rw [assign_snoc, keys_setKey] at hk
    split at hk
    · have := ih k hk; simp only [List.map_append, List.mem_append]; exact Or.inl this
    · simp only [List.mem_append, List.mem_singleton] at hk
      rcases hk with hk | hk
      · have := ih k hk; simp only [List.map_append, List.mem_append]; exact Or.inl this
      · simp [hk]

/-- if assignments come with non-decreasing keys, the dict's keys are strictly increasing -/
theorem keys_assign_sorted (key : α → Nat) (val : α → β) (l : List α)
    (h : (l.map key).Pairwise (· ≤ ·)) : ((assign key val l).map (·.1)).Pairwise (· < ·) := by
  induction l using snoc_induction with
  | nil => simp [assign]
  | snoc l x ih =>
    rw [List.map_append, List.pairwise_append] at h
    obtain ⟨h1, _, h3⟩ := h
    rw [assign_snoc, keys_setKey]
    split
    · exact ih h1
    · rename_i hn
      rw [List.pairwise_append]
      refine ⟨ih h1, by simp, ?_⟩
      intro a ha b hb
      simp only [List.mem_singleton] at hb; subst hb
      have hle := h3 a (keys_assign_subset key val l a ha) (key x) (by simp)
      have : a ≠ key x := fun e => hn (e ▸ ha)
      omega


/-! ### what the collects of a history saw -/

/-- a collect stores something unless the validation of the model reporters fails -/
def stores (cfg : Cfg) (s : State) : Bool := cfg.mreps.isEmpty || s.validated || validateOk cfg s

def snapOf (cfg : Cfg) (s : State) : Op → List Snap
  | .collect => if stores cfg s then [s.snap] else []
  | _ => []

/-- the snapshots of the model at the `collect` calls of a history that stored something, oldest first -/
def storedSnaps (cfg : Cfg) : State → List Op → List Snap
  | _, [] => []
  | s, op :: rest => snapOf cfg s op ++ storedSnaps cfg (apply cfg s op).1 rest

/-- one row per registered agent: `(steps, unique_id, reporter values)` -/
def agentRows (cfg : Cfg) (sn : Snap) : List Row := sn.agents.map (mkRow cfg.areps sn)

/-- the agents an agent-type reporter keyed by `T` looks at, as a function of the snapshot alone -/
def classAgents (cfg : Cfg) (sn : Snap) (T : Nat) : Option (List AgentS) :=
  if sn.agents.any (fun a => a.ty == T) then some (sn.agents.filter fun a => a.ty == T)
  else if cfg.isAgentClass T then some (sn.agents.filter fun a => cfg.isSub a.ty T)
  else none

def typeLoopS (cfg : Cfg) (sn : Snap) :
    List (Nat × List ARep) → List (Nat × List Row) → List (Nat × List Row) × Option Err
  | [], acc => (acc, none)
  | (T, reps) :: rest, acc =>
    match classAgents cfg sn T with
    | none => (acc, some .value)
    | some ags => typeLoopS cfg sn rest (setKey T (ags.map (mkRow reps sn)) acc)

/-- `_agenttype_records[steps]` as written by one collect -/
def typeDict (cfg : Cfg) (sn : Snap) : List (Nat × List Row) := (typeLoopS cfg sn cfg.treps []).1

/-- every registered agent's class is in `agent_types` -/
def TypesInv (s : State) : Prop := ∀ a ∈ s.agents, a.ty ∈ s.types

theorem typeAgents_eq {cfg : Cfg} {s : State} (h : TypesInv s) (T : Nat) :
    typeAgents cfg s T = classAgents cfg s.snap T := by
  unfold typeAgents classAgents
  simp only [State.snap]
  by_cases ha : s.agents.any (fun a => a.ty == T) = true
  · have : T ∈ s.types := by
      obtain ⟨a, hm, ht⟩ := List.any_eq_true.mp ha
      have := h a hm
      simp only [beq_iff_eq] at ht
      simpa [ht] using this
    simp [ha, this]
  · simp [ha]

theorem typeLoop_eq {cfg : Cfg} {s : State} (h : TypesInv s) (l : List (Nat × List ARep)) (acc : List (Nat × List Row)) :
    typeLoop cfg s l acc = typeLoopS cfg s.snap l acc := by
  induction l generalizing acc with
  | nil => rfl
  | cons x xs ih =>
    obtain ⟨T, reps⟩ := x
    rw [typeLoop, typeLoopS, typeAgents_eq h]
    cases classAgents cfg s.snap T with
    | none => rfl
    | some ags => exact ih _

/-- what the DataCollector holds is a function of the stored snapshots -/
structure Holds (cfg : Cfg) (snaps : List Snap) (s : State) : Prop where
  types : TypesInv s
  modelVars : s.modelVars = cfg.mreps.map fun r => snaps.map r.eval
  collSteps : s.collSteps = snaps.map (·.steps)
  records : s.records = if cfg.areps.isEmpty then [] else assign (·.steps) (agentRows cfg) snaps
  typeRecords : s.typeRecords = if cfg.treps.isEmpty then [] else assign (·.steps) (typeDict cfg) snaps
  stepsLe : ∀ sn ∈ snaps, sn.steps ≤ s.steps
  sorted : (snaps.map (·.steps)).Pairwise (· ≤ ·)

theorem zipWith_append_eval (l : List MRep) (pre : List Snap) (sn : Snap) :
    List.zipWith (fun col r => col ++ [r.eval sn]) (l.map fun r => pre.map r.eval) l =
      l.map fun r => (pre ++ [sn]).map r.eval := by
  induction l with
  | nil => rfl
  | cons r rs ih => simp [ih]

theorem apply_frame (cfg : Cfg) (s : State) (op : Op) (h : op ≠ .collect) :
    (apply cfg s op).1.modelVars = s.modelVars ∧ (apply cfg s op).1.collSteps = s.collSteps ∧
    (apply cfg s op).1.records = s.records ∧ (apply cfg s op).1.typeRecords = s.typeRecords ∧
    (apply cfg s op).1.validated = s.validated := by
  cases op <;> simp only [apply] <;> try simp
  · split <;> simp
  · split <;> simp
  · exact absurd rfl h
  · unfold addTableRow; split
    · simp
    · split <;> simp

theorem apply_steps_le (cfg : Cfg) (s : State) (op : Op) : s.steps ≤ (apply cfg s op).1.steps := by
  cases op <;> simp only [apply] <;> try simp
  · split <;> simp
  · split <;> simp
  · unfold collect; split
    · simp
    · simp only []
      split <;> split <;> split <;> simp
  · unfold addTableRow; split
    · simp
    · split <;> simp


theorem apply_agents_types (cfg : Cfg) (s : State) (op : Op) (h : TypesInv s) : TypesInv (apply cfg s op).1 := by
  unfold TypesInv at *
  cases op <;> simp only [apply]
  case create ty attrs =>
    intro a ha
    simp only [List.mem_append, List.mem_singleton] at ha
    rcases ha with ha | ha
    · have := h a ha
      split <;> simp [this]
    · subst ha
      simp only [List.contains_iff_mem]
      split
      · assumption
      · simp
  case remove id =>
    intro a ha
    exact h a (List.mem_filter.mp ha).1
  case step => exact h
  case mset => exact h
  case mapp => split <;> exact h
  case mdel => split <;> exact h
  case aset id a v =>
    intro x hx
    simp only [updAgent, List.mem_map] at hx
    obtain ⟨y, hy, rfl⟩ := hx
    have := h y hy
    split <;> simpa using this
  case adel id a =>
    intro x hx
    simp only [updAgent, List.mem_map] at hx
    obtain ⟨y, hy, rfl⟩ := hx
    have := h y hy
    split <;> simpa using this
  case collect =>
    unfold collect
    split
    · exact h
    · simp only []
      split <;> split <;> split <;> exact h
  case row =>
    unfold addTableRow
    split
    · exact h
    · split <;> exact h
  case stopAt => exact h

/-- the validation guard of `collect` -/
theorem collect_guard_false {cfg : Cfg} {s : State} (hs : stores cfg s = true) :
    (!cfg.mreps.isEmpty && !s.validated && !validateOk cfg s) = false := by
  simp only [stores, Bool.or_eq_true] at hs
  rcases hs with (hs | hs) | hs <;> simp [hs]

theorem collect_guard_true {cfg : Cfg} {s : State} (hs : stores cfg s = false) :
    (!cfg.mreps.isEmpty && !s.validated && !validateOk cfg s) = true := by
  simp only [stores, Bool.or_eq_false_iff] at hs
  simp [hs.1.1, hs.1.2, hs.2]

/-- what a collect that gets past validation writes -/
theorem collect_fields {cfg : Cfg} {s : State} (hs : stores cfg s = true) :
    (collect cfg s).1.modelVars =
      (if cfg.mreps.isEmpty then s.modelVars
       else List.zipWith (fun col r => col ++ [r.eval s.snap]) s.modelVars cfg.mreps) ∧
    (collect cfg s).1.collSteps = s.collSteps ++ [s.steps] ∧
    (collect cfg s).1.records =
      (if cfg.areps.isEmpty then s.records else setKey s.steps (s.agents.map (mkRow cfg.areps s.snap)) s.records) ∧
    (collect cfg s).1.typeRecords =
      (if cfg.treps.isEmpty then s.typeRecords
       else setKey s.steps (typeLoop cfg s cfg.treps []).1 s.typeRecords) ∧
    (collect cfg s).1.tables = s.tables ∧ (collect cfg s).1.attrs = s.attrs ∧
    (collect cfg s).1.running = s.running ∧ (collect cfg s).1.nextId = s.nextId := by
  unfold collect
  simp only [collect_guard_false hs, Bool.false_eq_true, if_false]
  split <;> split <;> split <;> simp [*]

theorem collect_fails {cfg : Cfg} {s : State} (hs : stores cfg s = false) :
    collect cfg s = ({ s with validated := true }, some .attr) := by
  unfold collect; simp only [collect_guard_true hs, if_true]

theorem collect_agents (cfg : Cfg) (s : State) :
    (collect cfg s).1.agents = s.agents ∧ (collect cfg s).1.types = s.types ∧ (collect cfg s).1.steps = s.steps := by
  unfold collect
  split
  · simp
  · simp only []
    split <;> split <;> split <;> simp

theorem holds_collect {cfg : Cfg} {snaps : List Snap} {s : State} (h : Holds cfg snaps s) :
    Holds cfg (snaps ++ snapOf cfg s .collect) (collect cfg s).1 := by
  have hty : TypesInv (collect cfg s).1 := apply_agents_types cfg s .collect h.types
  have hst := (collect_agents cfg s).2.2
  by_cases hs : stores cfg s = true
  · obtain ⟨f1, f2, f3, f4, _⟩ := collect_fields hs
    simp only [snapOf, hs, if_true]
    refine ⟨hty, ?_, ?_, ?_, ?_, ?_, ?_⟩
    · rw [f1, h.modelVars]
      by_cases hm : cfg.mreps.isEmpty = true
      · have : cfg.mreps = [] := by simpa using hm
        simp [this]
      · simp only [hm, Bool.false_eq_true, if_false]
        exact zipWith_append_eval _ _ _
    · rw [f2, h.collSteps]; simp [State.snap]
    · rw [f3, h.records]
      by_cases ha : cfg.areps.isEmpty = true
      · simp [ha]
      · simp only [ha, Bool.false_eq_true, if_false, assign_snoc]; rfl
    · rw [f4, h.typeRecords]
      by_cases ht : cfg.treps.isEmpty = true
      · simp [ht]
      · simp only [ht, Bool.false_eq_true, if_false, assign_snoc, typeLoop_eq h.types]; rfl
    · intro sn hsn
      simp only [List.mem_append, List.mem_singleton] at hsn
      rw [hst]
      rcases hsn with hsn | hsn
      · exact h.stepsLe sn hsn
      · subst hsn; simp [State.snap]
    · rw [List.map_append, List.pairwise_append]
      refine ⟨h.sorted, by simp, ?_⟩
      intro a ha b hb
      obtain ⟨sn, hsn, rfl⟩ := List.mem_map.mp ha
      simp only [List.map_cons, List.map_nil, List.mem_singleton] at hb
      subst hb
      exact h.stepsLe sn hsn
  · have hs' : stores cfg s = false := by simpa using hs
    simp only [snapOf, hs', Bool.false_eq_true, if_false, List.append_nil]
    rw [collect_fails hs']
    exact ⟨h.types, h.modelVars, h.collSteps, h.records, h.typeRecords, h.stepsLe, h.sorted⟩

theorem holds_apply {cfg : Cfg} {snaps : List Snap} {s : State} (h : Holds cfg snaps s) (op : Op) :
    Holds cfg (snaps ++ snapOf cfg s op) (apply cfg s op).1 := by
  by_cases hc : op = .collect
  · subst hc; exact holds_collect h
  · have hsn : snapOf cfg s op = [] := by cases op <;> simp_all [snapOf]
    obtain ⟨h1, h2, h3, h4, _⟩ := apply_frame cfg s op hc
    rw [hsn, List.append_nil]
    exact ⟨apply_agents_types cfg s op h.types, h1 ▸ h.modelVars, h2 ▸ h.collSteps, h3 ▸ h.records,
      h4 ▸ h.typeRecords, fun sn hsn => Nat.le_trans (h.stepsLe sn hsn) (apply_steps_le cfg s op), h.sorted⟩

theorem holds_run {cfg : Cfg} {snaps : List Snap} {s : State} (h : Holds cfg snaps s) (ops : List Op) :
    Holds cfg (snaps ++ storedSnaps cfg s ops) (run cfg s ops) := by
  induction ops generalizing snaps s with
  | nil => simpa [storedSnaps, run] using h
  | cons op rest ih =>
    have := ih (holds_apply h op)
    simpa [storedSnaps, run, List.append_assoc] using this

theorem holds_init (cfg : Cfg) (tables : List (Nat × List Nat)) : Holds cfg [] (init cfg tables) := by
  refine ⟨?_, ?_, ?_, ?_, ?_, ?_, ?_⟩ <;> simp [init, TypesInv, assign]


/-! ### frames -/

theorem rect_of_lengths (cols : List (List Val)) (n : Nat) (h : ∀ c ∈ cols, c.length = n) (hne : cols ≠ []) :
    rect cols = some n := by
  cases cols with
  | nil => exact absurd rfl hne
  | cons c rest =>
    have hc := h c (by simp)
    have : rest.all (fun x => x.length == c.length) = true := by
      rw [List.all_eq_true]
      intro x hx
      have := h x (by simp [hx])
      simp [this, hc]
    rw [hc] at this
    simp only [rect, hc, this, if_true]

theorem modelFrame_of_holds {cfg : Cfg} {snaps : List Snap} {s : State} (h : Holds cfg snaps s)
    (hne : cfg.mreps ≠ []) :
    modelFrame cfg s = .ok (snaps.length, cfg.mreps.map fun r => snaps.map r.eval) := by
  unfold modelFrame
  have : cfg.mreps.isEmpty = false := by simpa using hne
  simp only [this, Bool.false_eq_true, if_false, h.modelVars]
  rw [rect_of_lengths _ snaps.length]
  · intro c hc
    obtain ⟨r, _, rfl⟩ := List.mem_map.mp hc
    simp
  · simpa using hne

/-! ### tables -/

theorem mem_setKey {k : Nat} {v : α} {l : List (Nat × α)} {x : Nat × α} (h : x ∈ setKey k v l) :
    x = (k, v) ∨ x ∈ l := by
  induction l with
  | nil => simpa [setKey] using h
  | cons y ys ih =>
    obtain ⟨k', v'⟩ := y
    simp only [setKey] at h
    split at h
    · subst_vars
      rcases List.mem_cons.mp h with h | h
      · exact Or.inl h
      · exact Or.inr (List.mem_cons_of_mem _ h)
    · rcases List.mem_cons.mp h with h | h
      · exact Or.inr (h ▸ List.mem_cons_self)
      · rcases ih h with h | h
        · exact Or.inl h
        · exact Or.inr (List.mem_cons_of_mem _ h)

theorem mem_of_lookup {k : Nat} {v : α} {l : List (Nat × α)} (h : l.lookup k = some v) : (k, v) ∈ l := by
  induction l with
  | nil => simp at h
  | cons y ys ih =>
    obtain ⟨k', v'⟩ := y
    rw [lookup_cons'] at h
    split at h
    · subst_vars; simp at h; subst h; exact List.mem_cons_self
    · exact List.mem_cons_of_mem _ (ih h)

/-- the value a row dict puts into column `c` (`None` when the key is missing) -/
def cell (c : Nat) (r : List (Nat × Val)) : Val := (r.lookup c).getD .none

/-- the rows of a history that `add_table_row` accepted into table `t` -/
def rowOf (s : State) (t : Nat) : Op → List (List (Nat × Val))
  | .row t' r ign => if t' = t ∧ (addTableRow s t' r ign).2 = none then [r] else []
  | _ => []

def acceptedRows (cfg : Cfg) (t : Nat) : State → List Op → List (List (Nat × Val))
  | _, [] => []
  | s, op :: rest => rowOf s t op ++ acceptedRows cfg t (apply cfg s op).1 rest

/-- every column of every table holds exactly the cells of the accepted rows, in order -/
def TabHolds (rows : Nat → List (List (Nat × Val))) (s : State) : Prop :=
  ∀ t tab, s.tables.lookup t = some tab → ∀ cv ∈ tab, cv.2 = (rows t).map (cell cv.1)

theorem apply_tables_frame (cfg : Cfg) (s : State) (op : Op) (h : ∀ t r ign, op ≠ .row t r ign) :
    (apply cfg s op).1.tables = s.tables := by
  cases op <;> simp only [apply] <;> try simp
  · split <;> simp
  · split <;> simp
  · by_cases hs : stores cfg s = true
    · exact (collect_fields hs).2.2.2.2.1
    · have hs' : stores cfg s = false := by simpa using hs
      rw [collect_fails hs']
  · exact absurd rfl (h _ _ _)

theorem tabHolds_apply {cfg : Cfg} {rows : Nat → List (List (Nat × Val))} {s : State} (h : TabHolds rows s) (op : Op) :
    TabHolds (fun t => rows t ++ rowOf s t op) (apply cfg s op).1 := by
  by_cases hr : ∀ t r ign, op ≠ .row t r ign
  · have hro : ∀ t, rowOf s t op = [] := by
      intro t; cases op <;> simp [rowOf]
      exact absurd rfl (hr _ _ _)
    simp only [hro, List.append_nil]
    rw [TabHolds, apply_tables_frame cfg s op hr]
    exact h
  · have : ∃ t r ign, op = .row t r ign := by
      cases op <;> simp_all
    obtain ⟨t, r, ign, rfl⟩ := this
    simp only [apply]
    intro t' tab' hl cv hcv
    show cv.2 = (rows t' ++ rowOf s t' (.row t r ign)).map (cell cv.1)
    simp only [rowOf]
    unfold addTableRow at hl ⊢
    cases hlt : s.tables.lookup t with
    | none =>
      simp only [hlt] at hl ⊢
      simp only [reduceCtorEq, and_false, if_false, List.append_nil]
      exact h t' tab' hl cv hcv
    | some tab =>
      simp only [hlt] at hl ⊢
      split at hl
      · rename_i hmiss
        simp only [hmiss, if_true, reduceCtorEq, and_false, if_false, List.append_nil]
        exact h t' tab' hl cv hcv
      · rename_i hmiss
        simp only [hmiss, Bool.false_eq_true, if_false, and_true]
        simp only [] at hl
        rw [lookup_setKey] at hl
        by_cases htt : t' = t
        · subst htt
          simp only [if_true, Option.some.injEq] at hl
          subst hl
          obtain ⟨⟨c, vs⟩, hm, rfl⟩ := List.mem_map.mp hcv
          have := h t' tab hlt (c, vs) hm
          simp only at this
          simp [this, cell]
        · simp only [htt, if_false] at hl
          have hne : ¬ t = t' := fun e => htt e.symm
          simp only [hne, if_false, List.append_nil]
          exact h t' tab' hl cv hcv

theorem tabHolds_run {cfg : Cfg} {rows : Nat → List (List (Nat × Val))} {s : State} (h : TabHolds rows s)
    (ops : List Op) : TabHolds (fun t => rows t ++ acceptedRows cfg t s ops) (run cfg s ops) := by
  induction ops generalizing rows s with
  | nil => simpa [acceptedRows, run] using h
  | cons op rest ih =>
    have := ih (tabHolds_apply (cfg := cfg) h op)
    simpa [acceptedRows, run, List.append_assoc] using this

theorem initCols_empty (cols : List Nat) (acc : Table) (h : ∀ cv ∈ acc, cv.2 = []) :
    ∀ cv ∈ cols.foldl (fun c k => setKey k [] c) acc, cv.2 = [] := by
  induction cols generalizing acc with
  | nil => simpa using h
  | cons c cs ih =>
    apply ih
    intro cv hcv
    rcases mem_setKey hcv with rfl | hcv
    · rfl
    · exact h cv hcv

theorem initTables_empty (tables : List (Nat × List Nat)) (acc : List (Nat × Table))
    (h : ∀ e ∈ acc, ∀ cv ∈ e.2, cv.2 = []) :
    ∀ e ∈ tables.foldl (fun acc (t, cols) => setKey t (cols.foldl (fun c k => setKey k [] c) []) acc) acc,
      ∀ cv ∈ e.2, cv.2 = [] := by
  induction tables generalizing acc with
  | nil => simpa using h
  | cons x xs ih =>
    obtain ⟨t, cols⟩ := x
    apply ih
    intro e he
    rcases mem_setKey he with rfl | he
    · exact initCols_empty cols [] (by simp)
    · exact h e he

theorem tabHolds_init (cfg : Cfg) (tables : List (Nat × List Nat)) : TabHolds (fun _ => []) (init cfg tables) := by
  intro t tab hl cv hcv
  have := initTables_empty tables [] (by simp) (t, tab) (mem_of_lookup (by simpa [init] using hl)) cv hcv
  simpa using this

theorem tableFrame_of_tabHolds {rows : Nat → List (List (Nat × Val))} {s : State} (h : TabHolds rows s) (t : Nat) :
    tableFrame s t = .error .unknown ∨ ∃ tab, s.tables.lookup t = some tab ∧
      tableFrame s t = .ok ((if tab = [] then 0 else (rows t).length), tab) := by
  unfold tableFrame
  cases hl : s.tables.lookup t with
  | none => exact Or.inl rfl
  | some tab =>
    refine Or.inr ⟨tab, rfl, ?_⟩
    simp only []
    by_cases he : tab = []
    · subst he; simp [rect]
    · rw [rect_of_lengths _ (rows t).length]
      · simp [he]
      · intro c hc
        obtain ⟨cv, hm, rfl⟩ := List.mem_map.mp hc
        rw [h t tab hl cv hm]; simp
      · simpa using he

/-! ### rejected table rows (C18) -/

theorem addTableRow_reject_unchanged (s : State) (t : Nat) (r : List (Nat × Val)) (ign : Bool) (e : Err)
    (h : (addTableRow s t r ign).2 = some e) : (addTableRow s t r ign).1 = s := by
  unfold addTableRow at h ⊢
  split
  · rfl
  · split
    · rfl
    · rename_i hl hm
      simp [hl, hm] at h

def rejectedRow (cfg : Cfg) (s : State) : Op → Bool
  | .row t r ign => ((apply cfg s (.row t r ign)).2).isSome
  | _ => false

/-- the history with the rejected `add_table_row` calls deleted -/
def dropRejectedRows (cfg : Cfg) : State → List Op → List Op
  | _, [] => []
  | s, op :: rest => (if rejectedRow cfg s op then [] else [op]) ++ dropRejectedRows cfg (apply cfg s op).1 rest

theorem run_dropRejectedRows (cfg : Cfg) (s : State) (ops : List Op) :
    run cfg s (dropRejectedRows cfg s ops) = run cfg s ops := by
  induction ops generalizing s with
  | nil => rfl
  | cons op rest ih =>
    simp only [dropRejectedRows]
    by_cases hr : rejectedRow cfg s op = true
    · have : (apply cfg s op).1 = s := by
        cases op <;> simp [rejectedRow] at hr
        rename_i t r ign
        obtain ⟨e, he⟩ := Option.isSome_iff_exists.mp hr
        exact addTableRow_reject_unchanged s t r ign e he
      simp only [hr, if_true, List.nil_append]
      rw [this, ih s]
      simp [run, this]
    · simp only [hr, Bool.false_eq_true, if_false, List.singleton_append]
      simp only [run, List.foldl_cons]
      exact ih _


/-! ### agent-type dictionaries -/

theorem typeLoopS_lookup_notin (cfg : Cfg) (sn : Snap) (l : List (Nat × List ARep)) (acc : List (Nat × List Row))
    (T : Nat) (h : T ∉ l.map (·.1)) : (typeLoopS cfg sn l acc).1.lookup T = acc.lookup T := by
  induction l generalizing acc with
  | nil => rfl
  | cons x xs ih =>
    obtain ⟨T', reps'⟩ := x
    simp only [List.map_cons, List.mem_cons, not_or] at h
    rw [typeLoopS]
    cases classAgents cfg sn T' with
    | none => rfl
    | some ags =>
      simp only []
      rw [ih _ h.2, lookup_setKey_ne h.1]

theorem typeLoopS_ok (cfg : Cfg) (sn : Snap) (l : List (Nat × List ARep)) (acc : List (Nat × List Row))
    (hk : ∀ x ∈ l, classAgents cfg sn x.1 ≠ none) : (typeLoopS cfg sn l acc).2 = none := by
  induction l generalizing acc with
  | nil => rfl
  | cons x xs ih =>
    obtain ⟨T', reps'⟩ := x
    rw [typeLoopS]
    cases hc : classAgents cfg sn T' with
    | none => exact absurd hc (hk (T', reps') List.mem_cons_self)
    | some ags => exact ih _ (fun y hy => hk y (by simp [hy]))

theorem typeLoopS_lookup (cfg : Cfg) (sn : Snap) (l : List (Nat × List ARep)) (acc : List (Nat × List Row))
    (hk : ∀ x ∈ l, classAgents cfg sn x.1 ≠ none) (hnd : (l.map (·.1)).Nodup) (T : Nat) (reps : List ARep)
    (h : l.lookup T = some reps) :
    (typeLoopS cfg sn l acc).1.lookup T = (classAgents cfg sn T).map (·.map (mkRow reps sn)) := by
  induction l generalizing acc with
  | nil => simp at h
  | cons x xs ih =>
    obtain ⟨T', reps'⟩ := x
    rw [lookup_cons'] at h
    simp only [List.map_cons, List.nodup_cons] at hnd
    rw [typeLoopS]
    cases hc : classAgents cfg sn T' with
    | none => exact absurd hc (hk (T', reps') List.mem_cons_self)
    | some ags =>
      simp only []
      by_cases hT : T = T'
      · subst hT
        simp only [if_true, Option.some.injEq] at h
        subst h
        rw [typeLoopS_lookup_notin _ _ _ _ _ hnd.1, lookup_setKey_self, hc]; rfl
      · simp only [hT, if_false] at h
        exact ih _ (fun y hy => hk y (by simp [hy])) hnd.2 h

/-- for the keys C12 quantifies over, `_record_agenttype` looks at exactly the agents of that class -/
theorem classAgents_members (cfg : Cfg) (sn : Snap) (T : Nat) (hA : cfg.isAgentClass T = true)
    (hrefl : ∀ c, cfg.isSub c c = true)
    (hq : (∀ a ∈ sn.agents, cfg.isSub a.ty T = true → a.ty = T) ∨ (∀ a ∈ sn.agents, a.ty ≠ T)) :
    classAgents cfg sn T = some (sn.agents.filter fun a => cfg.isSub a.ty T) := by
  unfold classAgents
  by_cases ha : sn.agents.any (fun a => a.ty == T) = true
  · rcases hq with hq | hq
    · simp only [ha, if_true, Option.some.injEq]
      apply List.filter_congr
      intro a hm
      by_cases hs : cfg.isSub a.ty T = true
      · simp [hq a hm hs, hrefl]
      · have : a.ty ≠ T := fun e => hs (e ▸ hrefl _)
        simp [hs, this]
    · obtain ⟨a, hm, ht⟩ := List.any_eq_true.mp ha
      exact absurd (by simpa using ht) (hq a hm)
  · simp [ha, hA]

theorem storedSnaps_append (cfg : Cfg) (s : State) (ops₁ ops₂ : List Op) :
    storedSnaps cfg s (ops₁ ++ ops₂) = storedSnaps cfg s ops₁ ++ storedSnaps cfg (run cfg s ops₁) ops₂ := by
  induction ops₁ generalizing s with
  | nil => rfl
  | cons op rest ih => simp [storedSnaps, run, ih, List.append_assoc]

end Mesa.Collect
