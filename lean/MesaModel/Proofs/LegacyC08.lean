import MesaModel.Proofs.Legacy
/-! Proofs of the C08 property theorems that are more than a line (statements: `Props/C08.lean`). -/
namespace Mesa.Legacy

theorem c08_pos_is_the_one_cell (g : Grid) (hi : Inv g) (a : Aid) :
    (∀ p, g.pos a = some p → a ∈ g.content p ∧ ∀ q, a ∈ g.content q → q = p) ∧
    (g.pos a = none ↔ ∀ q, a ∉ g.content q) := by
  refine ⟨fun p hp => ⟨(hi.pos_content a p).mp hp, fun q hq => ?_⟩, ?_, ?_⟩
  · have := (hi.pos_content a q).mpr hq; rw [hp] at this; exact (Option.some.inj this).symm
  · intro hn q hq; have := (hi.pos_content a q).mpr hq; rw [hn] at this; cases this
  · intro h
    cases hp : g.pos a with
    | none => rfl
    | some p => exact absurd ((hi.pos_content a p).mp hp) (h p)


theorem c08_emptiness_views (g : Grid) (hi : Inv g) :
    (g.existsEmpty.2 = true ↔ ∃ p, g.inGrid p ∧ g.content p = []) ∧
    (∀ p, g.isCellEmpty p = true ↔ g.content p = []) ∧
    (∀ p, g.inGrid p → (g.mask p = true ↔ g.content p = [])) := by
  refine ⟨?_, fun p => by simp [Grid.isCellEmpty], fun p hp => by rw [hi.mask p hp]; simp⟩
  have hs := readEmpties_spec g hi
  unfold Grid.existsEmpty
  simp only [decide_eq_true_eq]
  constructor
  · intro hl
    cases he : g.readEmpties.2 with
    | nil => rw [he] at hl; simp at hl
    | cons p ps => exact ⟨p, (hs.2 p).mp (by rw [he]; simp)⟩
  · rintro ⟨p, hp⟩
    exact List.length_pos_of_mem ((hs.2 p).mpr hp)


theorem c08_getitem_wraps_or_rejects (g : Grid) (hw : 0 < g.w) (hh : 0 < g.h) (p : Coord) :
    (g.inGrid p → g.getItem p = .ok (g.content p)) ∧
    (¬ g.inGrid p → g.torus = true → g.inGrid (p.1 % g.w, p.2 % g.h) ∧ g.getItem p = .ok (g.content (p.1 % g.w, p.2 % g.h))) ∧
    (¬ g.inGrid p → g.torus = false → g.getItem p = .error .oob) := by
  unfold Grid.getItem
  refine ⟨fun h => by rw [torusAdj_inGrid g p h], fun h ht => ?_, fun h ht => ?_⟩
  · cases hta : g.torusAdj p with
    | error e => have := torusAdj_err g p e hta; rw [ht] at this; simp at this
    | ok q =>
      rcases torusAdj_ok g hw hh p q hta with ⟨hq, ⟨h', _⟩ | ⟨_, _, rfl⟩⟩
      · exact absurd h' h
      · exact ⟨hq, rfl⟩
  · cases hta : g.torusAdj p with
    | error e => rw [(torusAdj_err g p e hta).1]
    | ok q =>
      rcases torusAdj_ok g hw hh p q hta with ⟨_, ⟨h', _⟩ | ⟨_, ht', _⟩⟩
      · exact absurd h' h
      · rw [ht] at ht'; cases ht'


theorem c08_move_wraps_or_rejects (g : Grid) (hw : 0 < g.w) (hh : 0 < g.h) (a : Aid) (p : Coord) :
    (g.inGrid p → (g.move a p).2 = .ok → (g.move a p).1.pos a = some p) ∧
    (¬ g.inGrid p → g.torus = true →
        g.inGrid (p.1 % g.w, p.2 % g.h) ∧ ((g.move a p).2 = .ok → (g.move a p).1.pos a = some (p.1 % g.w, p.2 % g.h))) ∧
    (¬ g.inGrid p → g.torus = false → g.move a p = (g, .err .oob)) ∧
    (∀ b, b ≠ a → (g.move a p).1.pos b = g.pos b) := by
  refine ⟨fun h hok => ?_, fun h ht => ?_, fun h ht => ?_, fun b hb => move_pos_other g a b p hb⟩
  · obtain ⟨q, hq, hp⟩ := move_ok_pos g a p hw hh hok
    rw [torusAdj_inGrid g p h] at hq; cases hq; exact hp
  · have hin : g.inGrid (p.1 % g.w, p.2 % g.h) :=
      ⟨Int.emod_nonneg _ (by omega), Int.emod_lt_of_pos _ hw, Int.emod_nonneg _ (by omega), Int.emod_lt_of_pos _ hh⟩
    refine ⟨hin, fun hok => ?_⟩
    obtain ⟨q, hq, hp⟩ := move_ok_pos g a p hw hh hok
    rcases torusAdj_ok g hw hh p q hq with ⟨_, ⟨h', _⟩ | ⟨_, _, rfl⟩⟩
    · exact absurd h' h
    · exact hp
  · have hta : g.torusAdj p = .error .oob := by
      unfold Grid.torusAdj
      have : g.oob p = true := by
        cases ho : g.oob p with
        | true => rfl
        | false => exact absurd ((oob_iff g p).mp ho) h
      simp [this, ht]
    unfold Grid.move Grid.moveBase
    split <;> rw [hta]


theorem c08_moveToEmpty_full_grid (g : Grid) (hw : 0 < g.w) (hh : 0 < g.h) (hi : Inv g) (a : Aid) (s : Grid.Script) :
    (g.moveToEmpty a s).2 = .err .noEmpty ↔ ∀ p, g.inGrid p → g.content p ≠ [] := by
  constructor
  · intro herr
    rcases moveToEmpty_cases g a s hw hh hi with ⟨_, h⟩ | ⟨h, _⟩ | ⟨q, hq, hc, h⟩
    · exact h
    · rw [h] at herr; cases herr
    · rw [h] at herr
      have := removePlace_err _ a q (readEmpties_inv g hi)
        (Or.inr (Or.inl (by rw [(readEmpties_obs g).2.2.2.2.2.1]; exact hc))) _ herr
      -- an error of the tail can only be `remove_agent`'s TypeError
      exfalso
      unfold removePlace at herr
      rcases hr : g.readEmpties.1.remove a with ⟨g1, r⟩
      rw [hr] at herr
      cases r with
      | err e =>
        simp only [] at herr
        unfold Grid.remove at hr
        split at hr
        · split at hr <;> simp at hr; rw [← hr.2] at herr; cases herr
        · split at hr
          · split at hr
            · simp only [] at hr; split at hr <;> simp at hr
            · simp at hr; rw [← hr.2] at herr; cases herr
          · simp at hr
      | ok =>
        simp only [] at herr
        rw [place_res] at herr
        split at herr <;> cases herr
  · intro hfull
    rcases moveToEmpty_cases g a s hw hh hi with ⟨h, _⟩ | ⟨_, p, hp, hc⟩ | ⟨q, hq, hc, _⟩
    · rw [h]
    · exact absurd hc (hfull p hp)
    · exact absurd hc (hfull q hq)

theorem c08_moveToOneOf_lands_on_offered (g : Grid) (hw : 0 < g.w) (hh : 0 < g.h) (a : Aid) (ps : List Coord)
    (sel : Grid.Selection) (he : Grid.HandleEmpty) (s : Grid.Script) (hne : ps ≠ [])
    (hok : (g.moveToOneOf a ps sel he s).2 = .ok) :
    ∃ q ∈ ps, ∃ q', g.torusAdj q = .ok q' ∧ (g.moveToOneOf a ps sel he s).1.pos a = some q' := by
  unfold Grid.moveToOneOf at hok ⊢
  have : ps.isEmpty = false := by cases ps <;> simp_all
  rw [this] at hok ⊢
  simp only [Bool.false_eq_true, if_false] at hok ⊢
  cases hc : g.chooseOneOf a ps sel s with
  | error e => rw [hc] at hok; cases hok
  | ok q =>
    rw [hc] at hok
    simp only [] at hok ⊢
    obtain ⟨q', hq', hp⟩ := move_ok_pos g a q hw hh hok
    exact ⟨q, (chooseOneOf_spec g a ps sel s q hc).1, q', hq', hp⟩


theorem c08_closest_minimises_distance (g : Grid) (hw : 0 < g.w) (hh : 0 < g.h) (a : Aid) (ps : List Coord)
    (he : Grid.HandleEmpty) (s : Grid.Script) (hne : ps ≠ [])
    (hok : (g.moveToOneOf a ps .closest he s).2 = .ok) :
    ∃ cur, g.pos a = some cur ∧ ∃ q ∈ ps, ∃ q', g.torusAdj q = .ok q' ∧
      (g.moveToOneOf a ps .closest he s).1.pos a = some q' ∧
      g.distSq q' cur = g.distSq q cur ∧ ∀ y ∈ ps, g.distSq q cur ≤ g.distSq y cur := by
  unfold Grid.moveToOneOf at hok ⊢
  have : ps.isEmpty = false := by cases ps <;> simp_all
  rw [this] at hok ⊢
  simp only [Bool.false_eq_true, if_false] at hok ⊢
  cases hc : g.chooseOneOf a ps .closest s with
  | error e => rw [hc] at hok; cases hok
  | ok q =>
    rw [hc] at hok
    simp only [] at hok ⊢
    obtain ⟨q', hq', hp⟩ := move_ok_pos g a q hw hh hok
    obtain ⟨hmem, hcl⟩ := chooseOneOf_spec g a ps .closest s q hc
    obtain ⟨cur, hcur, hmin⟩ := hcl rfl
    refine ⟨cur, hcur, q, hmem, q', hq', hp, ?_, hmin⟩
    rcases torusAdj_ok g hw hh q q' hq' with ⟨_, ⟨_, rfl⟩ | ⟨_, ht, rfl⟩⟩
    · rfl
    · exact distSq_wrap g hw hh ht q cur


theorem c08_empties_exact_built_or_not (g : Grid) (hi : Inv g) :
    SortedSet g.readEmpties.2 ∧ (∀ p, p ∈ g.readEmpties.2 ↔ g.inGrid p ∧ g.content p = []) ∧
    g.readEmpties.2 = g.buildEmpties ∧ ObsEq g g.readEmpties.1 ∧ Inv g.readEmpties.1 := by
  have hs := readEmpties_spec g hi
  refine ⟨hs.1, hs.2, ?_, readEmpties_obs g, readEmpties_inv g hi⟩
  exact SortedSet.ext hs.1 (sorted_buildEmpties g) (fun c => by rw [hs.2 c, mem_buildEmpties])


theorem c08_single_cell_at_most_one (w h : Int) (hw : 1 ≤ w) (hh : 1 ≤ h) (torus : Bool) (cutoff : Nat)
    (ops : List Op) (hok : HistOk (init w h torus false cutoff) ops) (p : Coord) :
    ((run (init w h torus false cutoff) ops).content p).length ≤ 1 := by
  have h1 := run_inv_cfg _ ops (by simp [init]; omega) (by simp [init]; omega) (inv_init w h torus false cutoff) hok
  exact h1.1.single (by rw [h1.2.2.2.2.1]; rfl) p


theorem c08_moveToEmpty_lands_on_empty (g : Grid) (hw : 0 < g.w) (hh : 0 < g.h) (hi : Inv g) (a : Aid) (s : Grid.Script)
    (hok : (g.moveToEmpty a s).2 = .ok) :
    ∃ q, g.inGrid q ∧ g.content q = [] ∧ (g.moveToEmpty a s).1.pos a = some q := by
  rcases moveToEmpty_cases g a s hw hh hi with ⟨h, _⟩ | ⟨h, _⟩ | ⟨q, hq, hc, h⟩
  · rw [h] at hok; cases hok
  · rw [h] at hok; cases hok
  · rw [h] at hok ⊢; exact ⟨q, hq, hc, removePlace_ok_pos _ a q hok⟩


theorem c08_move_single_rejects_occupied (g : Grid) (hs : g.multi = false) (a : Aid) (p q : Coord)
    (hq : g.torusAdj p = .ok q) (hocc : g.content q ≠ [] ∧ g.content q ≠ [a]) :
    g.move a p = (g, .err .full) := by
  unfold Grid.move
  rw [hs, hq]
  simp [Grid.isCellEmpty, hocc.1, hocc.2]


end Mesa.Legacy
