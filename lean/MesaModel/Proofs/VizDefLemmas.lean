import MesaModel.Proofs.Viz
import MesaModel.Proofs.VizLayers
import MesaModel.Proofs.VizKwargs
/-!
Definition-level lemmas about the Viz model: each unfolds one small function of the model (`optArray`, `Agent.location`,
`applyKw`, the level of a range without extent, the `*args` test of `_check_model_params`).  They were listed as property
theorems of C20 in the first rounds; a review classed them as restated definitions, so they are kept here as lemmas and are
not counted among the theorems that decide the property.
-/
namespace Mesa.Viz

/-- The optional arrays `alpha` / `edgecolors` / `linewidths` (`alphas`, `edgecolorss`, `linewidthss` are
    `optArray` of the respective field; fix V7): the array is empty exactly when no agent's portrayal specifies
    the key, and otherwise it has exactly one slot per entry, in the order of the entries, holding the value
    the portrayal returned or `None` — never a shorter array that the masks of `_scatter` would not fit. -/
theorem optArray_spec (f : Entry → Option Val) (es : List Entry) :
    (optArray f es = [] ↔ ∀ e ∈ es, f e = none) ∧
    (optArray f es ≠ [] → optArray f es = es.map f ∧ (optArray f es).length = es.length) := by
  have hall : (es.all fun e => (f e).isNone) = true ↔ ∀ e ∈ es, f e = none := by
    rw [List.all_eq_true]
    exact ⟨fun h e he => by simpa using h e he, fun h e he => by simp [h e he]⟩
  unfold optArray
  split
  · rename_i h
    exact ⟨⟨fun _ => hall.mp h, fun _ => rfl⟩, fun hne => absurd rfl hne⟩
  · rename_i h
    refine ⟨⟨fun hm => ?_, fun hn => absurd (hall.mpr hn) h⟩, fun _ => ⟨rfl, List.length_map _⟩⟩
    rw [List.map_eq_nil_iff] at hm
    subst hm
    simp at h

/-- The location rule: `agent.pos` if it is set, `agent.cell.coordinate` otherwise. -/
theorem location_rule (a : Agent) :
    (∀ p, a.pos = some p → a.location = some p) ∧ (a.pos = none → a.location = a.cell) := by
  unfold Agent.location
  exact ⟨fun p hp => by rw [hp], fun hp => by rw [hp]⟩

/-- What the keywords do to the markers (matplotlib's side, `applyKw`): a keyword given sets that property of every
    marker of every call, the other properties stay as the portrayals gave them; without keywords nothing changes. -/
theorem applyKw_spec (d : KwDrawing) :
    d.drawn.flatten = (d.groups.flatMap (·.drawn)).map (applyKw d.kw) ∧
    (∀ e, (applyKw d.kw e).loc = e.loc ∧ (applyKw d.kw e).s = e.s ∧ (applyKw d.kw e).c = e.c ∧
      (applyKw d.kw e).marker = e.marker ∧ (applyKw d.kw e).zorder = e.zorder) ∧
    (∀ e v, d.kw.lookup "alpha" = some v → (applyKw d.kw e).alpha = some v) ∧
    (∀ e, d.kw.lookup "alpha" = none → (applyKw d.kw e).alpha = e.alpha) ∧
    (d.kw = [] → d.drawn = d.groups.map (·.drawn)) := by
  refine ⟨?_, fun e => ⟨rfl, rfl, rfl, rfl, rfl⟩, fun e v hv => by simp [applyKw, hv], fun e hv => by simp [applyKw, hv],
    fun hk => ?_⟩
  · unfold KwDrawing.drawn
    induction d.groups with
    | nil => rfl
    | cons g gs ih => simp [List.flatMap_cons, ih]
  · unfold KwDrawing.drawn
    rw [hk]
    apply List.map_congr_left
    intro g _
    exact List.map_id'' (fun e => applyKw_nil e) _

/-- V13: over a range without extent (a constant layer under the automatic range, or `vmin = vmax` given) every
    cell is drawn at level 0 — a well-defined picture in all modes, not 0/0. -/
theorem V13_level_zero (alpha : Nat) (v m : Int) :
    normLevel v m m = ⟨0, 1⟩ ∧ orthoShade alpha v m m = ⟨0, 1⟩ ∧ (hexShade alpha v m m).num = 0 ∧
    (hexShade alpha v m m).den = 100 := by
  simp [normLevel, orthoShade, hexShade]

/-- Constructors taking `*args` are refused whatever the parameters are. -/
theorem check_refuses_var_positional (sig : List Param) (keys : List String)
    (h : ∃ p ∈ sig, p.kind = .varPos) : checkModelParams sig keys = .error .varPositional := by
  unfold checkModelParams
  rw [if_pos (hasVarPositional_iff.mpr h)]

end Mesa.Viz
