import MesaModel.Model.CellGeometry
/-!
Helper lemmas for C07: dict-as-list operations, the recursive neighbourhood = "within r hops",
and transparency of the memo tables.  Core Lean only.
-/
namespace Mesa.Cells

section Generic
variable {α : Type} [DecidableEq α]

/-! ### dict-as-list -/

theorem mem_dictAdd {acc : List α} {x y : α} : y ∈ dictAdd acc x ↔ y ∈ acc ∨ y = x := by
  unfold dictAdd
  split
  · constructor
    · exact Or.inl
    · rintro (h | h)
      · exact h
      · exact h ▸ ‹x ∈ acc›
  · simp

theorem nodup_dictAdd {acc : List α} {x : α} (h : acc.Nodup) : (dictAdd acc x).Nodup := by
  unfold dictAdd
  split
  · exact h
  · rename_i hx
    rw [List.nodup_append]
    refine ⟨h, by simp, ?_⟩
    intro a ha b hb
    simp at hb
    rintro rfl
    exact hx (hb ▸ ha)

theorem mem_dictUpdate {acc v : List α} {y : α} : y ∈ dictUpdate acc v ↔ y ∈ acc ∨ y ∈ v := by
  unfold dictUpdate
  induction v generalizing acc with
  | nil => simp
  | cons x v ih =>
    simp only [List.foldl_cons, List.mem_cons]
    rw [ih, mem_dictAdd]
    constructor
    · rintro ((h | h) | h)
      · exact Or.inl h
      · exact Or.inr (Or.inl h)
      · exact Or.inr (Or.inr h)
    · rintro (h | h | h)
      · exact Or.inl (Or.inl h)
      · exact Or.inl (Or.inr h)
      · exact Or.inr h

theorem nodup_dictUpdate {acc v : List α} (h : acc.Nodup) : (dictUpdate acc v).Nodup := by
  unfold dictUpdate
  induction v generalizing acc with
  | nil => simpa
  | cons x v ih => exact ih (nodup_dictAdd h)

/-- the accumulation loop of `_neighborhood` for radius ≥ 2 -/
def unionOver (f : α → List α) (l : List α) (init : List α) : List α :=
  l.foldl (fun acc n => dictUpdate acc (f n)) init

theorem mem_unionOver {f : α → List α} {l init : List α} {y : α} :
    y ∈ unionOver f l init ↔ y ∈ init ∨ ∃ n ∈ l, y ∈ f n := by
  unfold unionOver
  induction l generalizing init with
  | nil => simp
  | cons x l ih =>
    simp only [List.foldl_cons]
    rw [ih, mem_dictUpdate]
    constructor
    · rintro ((h | h) | ⟨n, hn, h⟩)
      · exact Or.inl h
      · exact Or.inr ⟨x, by simp, h⟩
      · exact Or.inr ⟨n, by simp [hn], h⟩
    · rintro (h | ⟨n, hn, h⟩)
      · exact Or.inl (Or.inl h)
      · simp at hn
        rcases hn with rfl | hn
        · exact Or.inl (Or.inr h)
        · exact Or.inr ⟨n, hn, h⟩

theorem nodup_unionOver {f : α → List α} {l init : List α} (h : init.Nodup) :
    (unionOver f l init).Nodup := by
  unfold unionOver
  induction l generalizing init with
  | nil => simpa
  | cons x l ih => exact ih (nodup_dictUpdate h)

/-! ### neighbourhood = within r hops -/

/-- within `k` connection hops (0 hops = the cell itself) -/
def Reach (nb : α → List α) : Nat → α → α → Prop
  | 0, c, c' => c' = c
  | k+1, c, c' => c' = c ∨ ∃ n ∈ nb c, Reach nb k n c'

omit [DecidableEq α] in
theorem reach_self (nb : α → List α) (k : Nat) (c : α) : Reach nb k c c := by
  cases k <;> simp [Reach]

omit [DecidableEq α] in
theorem reach_mono (nb : α → List α) (k : Nat) (c c' : α) :
    Reach nb k c c' → Reach nb (k+1) c c' := by
  induction k generalizing c with
  | zero => intro h; exact Or.inl h
  | succ k ih =>
    intro h
    rcases h with h | ⟨n, hn, h⟩
    · exact Or.inl h
    · exact Or.inr ⟨n, hn, ih n h⟩

theorem nbhd_one (nb : α → List α) (ic : Bool) (c : α) :
    nbhd nb 1 ic c = (if ic then dictAdd (dictUpdate [] (nb c)) c else (dictUpdate [] (nb c)).erase c) := by
  simp [nbhd]

theorem nbhd_succ_succ (nb : α → List α) (r : Nat) (ic : Bool) (c : α) :
    nbhd nb (r+2) ic c =
      (if ic then dictAdd (unionOver (nbhd nb (r+1) true) (nb c) []) c
       else (unionOver (nbhd nb (r+1) true) (nb c) []).erase c) := by
  simp [nbhd, unionOver]

theorem nbhd_nodup (nb : α → List α) (r : Nat) (ic : Bool) (c : α) : (nbhd nb r ic c).Nodup := by
  match r with
  | 0 => simp [nbhd]
  | 1 =>
    rw [nbhd_one]
    split
    · exact nodup_dictAdd (nodup_dictUpdate List.nodup_nil)
    · exact (nodup_dictUpdate List.nodup_nil).erase _
  | r+2 =>
    rw [nbhd_succ_succ]
    split
    · exact nodup_dictAdd (nodup_unionOver List.nodup_nil)
    · exact (nodup_unionOver List.nodup_nil).erase _

theorem nbhd_true_spec (nb : α → List α) (r : Nat) (c c' : α) :
    c' ∈ nbhd nb (r+1) true c ↔ Reach nb (r+1) c c' := by
  induction r generalizing c with
  | zero =>
    rw [nbhd_one]
    simp only [if_true, mem_dictAdd, mem_dictUpdate, Reach, List.not_mem_nil, false_or]
    constructor
    · rintro (h | h)
      · exact Or.inr ⟨c', h, rfl⟩
      · exact Or.inl h
    · rintro (h | ⟨n, hn, h⟩)
      · exact Or.inr h
      · exact Or.inl (h ▸ hn)
  | succ r ih =>
    rw [nbhd_succ_succ]
    simp only [if_true, mem_dictAdd, mem_unionOver, List.not_mem_nil, false_or]
    constructor
    · rintro (⟨n, hn, h⟩ | h)
      · exact Or.inr ⟨n, hn, (ih n).mp h⟩
      · exact Or.inl h
    · intro h
      rcases h with h | ⟨n, hn, h⟩
      · exact Or.inr h
      · exact Or.inl ⟨n, hn, (ih n).mpr h⟩

theorem nbhd_false_spec (nb : α → List α) (r : Nat) (c c' : α) :
    c' ∈ nbhd nb (r+1) false c ↔ c' ≠ c ∧ Reach nb (r+1) c c' := by
  cases r with
  | zero =>
    rw [nbhd_one]
    simp only [Bool.false_eq_true, if_false, Reach]
    rw [(nodup_dictUpdate List.nodup_nil).mem_erase_iff]
    simp only [mem_dictUpdate, List.not_mem_nil, false_or]
    constructor
    · rintro ⟨hne, h⟩; exact ⟨hne, Or.inr ⟨c', h, rfl⟩⟩
    · rintro ⟨hne, h | ⟨n, hn, h⟩⟩
      · exact absurd h hne
      · exact ⟨hne, h ▸ hn⟩
  | succ r =>
    rw [nbhd_succ_succ]
    simp only [Bool.false_eq_true, if_false]
    rw [(nodup_unionOver List.nodup_nil).mem_erase_iff]
    simp only [mem_unionOver, List.not_mem_nil, false_or]
    constructor
    · rintro ⟨hne, n, hn, h⟩
      exact ⟨hne, Or.inr ⟨n, hn, (nbhd_true_spec nb r n c').mp h⟩⟩
    · rintro ⟨hne, h | ⟨n, hn, h⟩⟩
      · exact absurd h hne
      · exact ⟨hne, n, hn, (nbhd_true_spec nb r n c').mpr h⟩



/-! ### "within r hops" as paths -/

/-- `p` is a walk along connections from `c` to `c'` (listing the cells after `c`) -/
def IsPath (nb : α → List α) : α → List α → α → Prop
  | c, [], c' => c' = c
  | c, n :: p, c' => n ∈ nb c ∧ IsPath nb n p c'

omit [DecidableEq α] in
theorem reach_iff_path (nb : α → List α) (r : Nat) (c c' : α) :
    Reach nb r c c' ↔ ∃ p : List α, p.length ≤ r ∧ IsPath nb c p c' := by
  induction r generalizing c with
  | zero =>
    simp only [Reach]
    constructor
    · intro h; exact ⟨[], by simp, h⟩
    · rintro ⟨p, hp, h⟩
      cases p with
      | nil => exact h
      | cons _ _ => simp at hp
  | succ r ih =>
    simp only [Reach]
    constructor
    · rintro (h | ⟨n, hn, h⟩)
      · exact ⟨[], by simp, h⟩
      · obtain ⟨p, hp, hpath⟩ := (ih n).mp h
        exact ⟨n :: p, by simp; omega, hn, hpath⟩
    · rintro ⟨p, hp, h⟩
      cases p with
      | nil => exact Or.inl h
      | cons n p =>
        obtain ⟨hn, hpath⟩ := h
        exact Or.inr ⟨n, hn, (ih n).mpr ⟨p, by simp at hp; omega, hpath⟩⟩

/-! ### the memo tables are transparent -/

theorem assocGet_cons {β : Type} (k : α) (v : β) (m : List (α × β)) (k' : α) :
    assocGet ((k, v) :: m) k' = if k = k' then some v else assocGet m k' := by
  simp [assocGet]

/-- every entry of a memo table is the uncached function at the entry's *full* key -/
def MemoOK (nb : α → List α) (m : Memo α) : Prop :=
  ∀ k v, assocGet m k = some v → v = nbhd nb k.2.1 k.2.2 k.1

theorem memoOK_nil (nb : α → List α) : MemoOK nb ([] : Memo α) := by
  intro k v h; simp [assocGet] at h

theorem memoOK_cons {nb : α → List α} {m : Memo α} (h : MemoOK nb m) (c : α) (r : Nat) (ic : Bool) :
    MemoOK nb (((c, r, ic), nbhd nb r ic c) :: m) := by
  intro k v hk
  rw [assocGet_cons] at hk
  split at hk
  · rename_i heq
    subst heq
    simp at hk
    exact hk.symm
  · exact h k v hk

/-- the accumulation loop of the memoised `_neighborhood` -/
def foldC (nb : α → List α) (r : Nat) (l : List α) (init : List α × Memo α) : List α × Memo α :=
  l.foldl (fun (am : List α × Memo α) n =>
    let vm := nbhdC nb r true n am.2
    (dictUpdate am.1 vm.1, vm.2)) init

theorem foldC_spec (nb : α → List α) (r : Nat)
    (ih : ∀ (c : α) (m : Memo α), MemoOK nb m →
      (nbhdC nb r true c m).1 = nbhd nb r true c ∧ MemoOK nb (nbhdC nb r true c m).2)
    (l : List α) (acc : List α) (m : Memo α) (hm : MemoOK nb m) :
    (foldC nb r l (acc, m)).1 = unionOver (nbhd nb r true) l acc ∧ MemoOK nb (foldC nb r l (acc, m)).2 := by
  induction l generalizing acc m with
  | nil => exact ⟨rfl, hm⟩
  | cons x l ihl =>
    obtain ⟨h1, h2⟩ := ih x m hm
    have := ihl (dictUpdate acc (nbhdC nb r true x m).1) (nbhdC nb r true x m).2 h2
    simp only [foldC, List.foldl_cons, unionOver] at this ⊢
    rw [h1] at this ⊢
    exact this

theorem nbhdC_spec (nb : α → List α) (r : Nat) (ic : Bool) (c : α) (m : Memo α) (hm : MemoOK nb m) :
    (nbhdC nb r ic c m).1 = nbhd nb r ic c ∧ MemoOK nb (nbhdC nb r ic c m).2 := by
  induction r using Nat.strongRecOn generalizing ic c m with
  | _ r ih =>
    match r with
    | 0 => exact ⟨rfl, hm⟩
    | 1 =>
      unfold nbhdC
      split
      · rename_i v hv
        exact ⟨hm _ _ hv, hm⟩
      · refine ⟨by simp [nbhd], ?_⟩
        have := memoOK_cons hm c 1 ic
        simpa [nbhd] using this
    | r+2 =>
      unfold nbhdC
      split
      · rename_i v hv
        exact ⟨hm _ _ hv, hm⟩
      · have hf := foldC_spec nb (r+1) (fun c m hm => ih (r+1) (by omega) true c m hm) (nb c) [] m hm
        simp only [foldC] at hf
        obtain ⟨hf1, hf2⟩ := hf
        refine ⟨?_, ?_⟩
        · simp only [nbhd_succ_succ]
          rw [← hf1]
        · have := memoOK_cons hf2 c (r+2) ic
          rw [nbhd_succ_succ, ← hf1] at this
          exact this


/-- all three memo tables only hold values of the uncached function -/
def CachesOK (nb : α → List α) (cs : Caches α) : Prop :=
  MemoOK nb cs.inner ∧ MemoOK nb cs.outer ∧ ∀ c v, assocGet cs.prop c = some v → v = nbhd nb 1 false c

theorem cachesOK_empty (nb : α → List α) : CachesOK nb ({} : Caches α) :=
  ⟨memoOK_nil nb, memoOK_nil nb, by intro c v h; simp [assocGet] at h⟩

theorem getNbhd_spec (nb : α → List α) (r : Nat) (ic : Bool) (c : α) (cs : Caches α) (h : CachesOK nb cs) :
    (getNbhd nb r ic c cs).1 = nbhd nb r ic c ∧ CachesOK nb (getNbhd nb r ic c cs).2 := by
  obtain ⟨hi, ho, hp⟩ := h
  unfold getNbhd
  split
  · rename_i v hv
    exact ⟨ho _ _ hv, hi, ho, hp⟩
  · obtain ⟨h1, h2⟩ := nbhdC_spec nb r ic c cs.inner hi
    refine ⟨h1, h2, ?_, hp⟩
    simp only [h1]
    exact memoOK_cons ho c r ic

theorem nbProp_spec (nb : α → List α) (c : α) (cs : Caches α) (h : CachesOK nb cs) :
    (nbProp nb c cs).1 = nbhd nb 1 false c ∧ CachesOK nb (nbProp nb c cs).2 := by
  unfold nbProp
  split
  · rename_i v hv
    exact ⟨h.2.2 _ _ hv, h⟩
  · obtain ⟨h1, hi, ho, hp⟩ := getNbhd_spec nb 1 false c cs h
    refine ⟨h1, hi, ho, ?_⟩
    intro c' v hv
    simp only [assocGet_cons] at hv
    split at hv
    · rename_i heq
      subst heq
      simp at hv
      rw [← hv, h1]
    · exact hp c' v hv

/-- a neighbourhood query as the API offers it -/
inductive Query (α : Type) where
  | get (c : α) (r : Nat) (ic : Bool)    -- `c.get_neighborhood(r, ic)`, r ≥ 1
  | prop (c : α)                          -- `c.neighborhood`

/-- the answer without any memo table -/
def Query.answer (nb : α → List α) : Query α → List α
  | .get c r ic => nbhd nb r ic c
  | .prop c => nbhd nb 1 false c

/-- the answer as the code computes it, threading the memo tables -/
def Query.run (nb : α → List α) (cs : Caches α) : Query α → List α × Caches α
  | .get c r ic => getNbhd nb r ic c cs
  | .prop c => nbProp nb c cs

/-- answers to a sequence of queries, the memo tables persisting from one to the next -/
def runQueries (nb : α → List α) : Caches α → List (Query α) → List (List α)
  | _, [] => []
  | cs, q :: qs => (q.run nb cs).1 :: runQueries nb (q.run nb cs).2 qs

theorem runQueries_spec (nb : α → List α) (cs : Caches α) (h : CachesOK nb cs) (qs : List (Query α)) :
    runQueries nb cs qs = qs.map (Query.answer nb) := by
  induction qs generalizing cs with
  | nil => rfl
  | cons q qs ih =>
    have hq : (q.run nb cs).1 = q.answer nb ∧ CachesOK nb (q.run nb cs).2 := by
      cases q with
      | get c r ic => exact getNbhd_spec nb r ic c cs h
      | prop c => exact nbProp_spec nb c cs h
    simp only [runQueries, List.map_cons]
    rw [hq.1, ih _ hq.2]

end Generic
end Mesa.Cells
