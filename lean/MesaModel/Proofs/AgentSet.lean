import MesaModel.Model.AgentSet
import MesaModel.Proofs.ListOps
/-! Helper lemmas for C03 (model: `Model/AgentSet.lean`). -/
namespace Mesa.ASet

/-! ### select -/

theorem selectGo_none {α} (p : α → Bool) (l : List α) (c : Nat) : selectGo p none l c = l.filter p := by
  induction l generalizing c with
  | nil => simp [selectGo]
  | cons a l ih =>
    unfold selectGo
    by_cases hp : p a <;> simp [hp, ih]

theorem selectGo_some {α} (p : α → Bool) (k : Nat) (l : List α) (c : Nat) :
    selectGo p (some k) l c = (l.filter p).take (k - c) := by
  induction l generalizing c with
  | nil => simp [selectGo]
  | cons a l ih =>
    unfold selectGo
    by_cases hk : k ≤ c
    · have : k - c = 0 := by omega
      simp [hk, this]
    · by_cases hp : p a
      · have : k - c = (k - (c + 1)) + 1 := by omega
        simp [hk, hp, ih, this]
      · simp [hk, hp, ih]

/-! ### sort -/

section sort
variable {α : Type} (key : α → Int) (asc : Bool)

def sortLe (a b : α) : Bool := if asc then decide (key a ≤ key b) else decide (key b ≤ key a)

theorem sortL_eq (l : List α) : sortL key asc l = l.mergeSort (sortLe key asc) := rfl

theorem sortLe_trans (a b c : α) : sortLe key asc a b = true → sortLe key asc b c = true → sortLe key asc a c = true := by
  unfold sortLe; cases asc <;> simp <;> omega

theorem sortLe_total (a b : α) : (sortLe key asc a b || sortLe key asc b a) = true := by
  unfold sortLe; cases asc <;> simp <;> omega

theorem sortL_perm (l : List α) : (sortL key asc l).Perm l := List.mergeSort_perm _ _

theorem sortL_sorted (l : List α) : (sortL key asc l).Pairwise (fun a b => sortLe key asc a b = true) :=
  List.pairwise_mergeSort (sortLe_trans key asc) (sortLe_total key asc) l

/-- stability: the members with any given key value keep their original relative order -/
theorem sortL_stable (l : List α) (v : Int) :
    (sortL key asc l).filter (fun a => key a = v) = l.filter (fun a => key a = v) := by
  have hsub : (l.filter (fun a => key a = v)).Sublist (sortL key asc l) := by
    apply List.sublist_mergeSort (sortLe_trans key asc) (sortLe_total key asc)
    · rw [List.pairwise_filter]
      apply List.pairwise_of_forall
      intro a b ha hb
      simp at ha hb
      unfold sortLe; cases asc <;> simp <;> omega
    · exact List.filter_sublist
  have h2 := hsub.filter (fun a => decide (key a = v))
  rw [List.filter_filter] at h2
  simp only [Bool.and_self] at h2
  have hlen : ((sortL key asc l).filter (fun a => decide (key a = v))).length
      = (l.filter (fun a => decide (key a = v))).length :=
    ((sortL_perm key asc l).filter _).length_eq
  exact (h2.eq_of_length hlen.symm).symm

end sort

/-! ### the store -/

def Store.WF (st : Store) : Prop := ∀ s ∈ st.sets, s.Nodup

theorem Store.get_nodup {st : Store} (h : st.WF) (s : Nat) : (st.get s).Nodup := by
  unfold Store.get
  cases hs : st.sets[s]? with
  | none => simp
  | some l => exact h l (List.mem_of_getElem? hs)

theorem Store.put_wf {st : Store} (h : st.WF) (s : Nat) (inplace : Bool) (l : List Nat) (hl : l.Nodup) :
    (st.put s inplace l).1.WF := by
  unfold Store.put
  cases inplace
  · intro x hx
    simp at hx
    rcases hx with hx | rfl
    · exact h x hx
    · exact hl
  · intro x hx
    simp at hx
    rcases List.mem_or_eq_of_mem_set hx with hx | rfl
    · exact h x hx
    · exact hl

theorem selectIds_sublist (st : Store) (l : List Nat) (pred ty am) : (selectIds st l pred ty am).Sublist l := by
  unfold selectIds
  split
  · exact List.Sublist.refl _
  · cases am with
    | inf => simp only [selectGo_none]; exact List.filter_sublist
    | count k => simp only [selectGo_some]; exact (List.take_sublist _ _).trans List.filter_sublist

theorem get_set_self (st : Store) (s : Nat) (l : List Nat) (hs : s < st.sets.length) :
    Store.get { st with sets := st.sets.set s l } s = l := by
  simp [Store.get, hs]

theorem get_set_other (st : Store) (s j : Nat) (l : List Nat) (hj : j ≠ s) :
    Store.get { st with sets := st.sets.set s l } j = st.get j := by
  simp [Store.get, Ne.symm hj]

theorem set_get_self (st : Store) (s : Nat) (hs : s < st.sets.length) : st.sets.set s (st.get s) = st.sets := by
  apply List.ext_getElem?; intro j
  rw [List.getElem?_set]
  split
  · subst_vars; simp [hs, Store.get]
  · rfl

/-- the generator of the store is only ever touched by `shuffle` -/
theorem put_rng (st : Store) (s : Nat) (b : Bool) (l : List Nat) : (st.put s b l).1.rng = st.rng := by
  unfold Store.put; cases b <;> rfl

theorem put_pop (st : Store) (s : Nat) (b : Bool) (l : List Nat) : (st.put s b l).1.pop = st.pop := by
  unfold Store.put; cases b <;> rfl

/-- in-place form: the named set becomes `l`, every other set is untouched -/
theorem put_inplace_sets (st : Store) (s : Nat) (l : List Nat) (j : Nat) :
    (st.put s true l).1.sets[j]? = if s = j then (if s < st.sets.length then some l else none) else st.sets[j]? := by
  simp [Store.put, List.getElem?_set]

/-- copying form: a new last set `l`, every existing set (the source included) is untouched -/
theorem put_copy_sets (st : Store) (s : Nat) (l : List Nat) :
    (st.put s false l).1.sets = st.sets ++ [l] ∧ (st.put s false l).2 = st.sets.length := by
  simp [Store.put]

theorem lookup_filter_ne (ps : List (Nat × Int)) (k k' : Nat) (h : k' ≠ k) :
    List.lookup k' (ps.filter (fun kv => decide (kv.1 ≠ k))) = List.lookup k' ps := by
  induction ps with
  | nil => rfl
  | cons p ps ih =>
    obtain ⟨pk, pv⟩ := p
    by_cases hp : pk = k
    · subst hp
      have hne : (k' == pk) = false := by simpa using h
      rw [List.filter_cons]
      simp only [ne_eq, not_true_eq_false, decide_false, Bool.false_eq_true, if_false, List.lookup, hne]
      exact ih
    · rw [List.filter_cons]
      simp only [ne_eq, hp, not_false_eq_true, decide_true, if_true, List.lookup]
      cases (k' == pk)
      · exact ih
      · rfl

/-- `setattr(agent, k, v)` leaves every other attribute of the agent alone -/
theorem setAttr_attr_other (a : Agent) (k k' : Nat) (v : Int) (h : k' ≠ k) : (a.setAttr k v).attr k' = a.attr k' := by
  have hne : (k' == k) = false := by simpa using h
  simp only [Agent.setAttr, Agent.attr, List.lookup, hne]
  exact lookup_filter_ne a.attrs k k' h

theorem foldl_min_spec (v : Int) (rest : List Int) :
    rest.foldl min v ∈ v :: rest ∧ ∀ x ∈ v :: rest, rest.foldl min v ≤ x := by
  induction rest generalizing v with
  | nil => simp
  | cons y rest ih =>
    simp only [List.foldl_cons]
    obtain ⟨h1, h2⟩ := ih (min v y)
    constructor
    · rcases List.mem_cons.mp h1 with h | h
      · rw [h]
        by_cases hvy : v ≤ y
        · simp [Int.min_eq_left hvy]
        · have : y ≤ v := by omega
          simp [Int.min_eq_right this]
      · exact List.mem_cons_of_mem _ (List.mem_cons_of_mem _ h)
    · intro x hx
      have hm := h2 (min v y) List.mem_cons_self
      rcases List.mem_cons.mp hx with rfl | hx
      · exact Int.le_trans hm (Int.min_le_left _ _)
      · rcases List.mem_cons.mp hx with rfl | hx
        · exact Int.le_trans hm (Int.min_le_right _ _)
        · exact h2 x (List.mem_cons_of_mem _ hx)

theorem foldl_max_spec (v : Int) (rest : List Int) :
    rest.foldl max v ∈ v :: rest ∧ ∀ x ∈ v :: rest, x ≤ rest.foldl max v := by
  induction rest generalizing v with
  | nil => simp
  | cons y rest ih =>
    simp only [List.foldl_cons]
    obtain ⟨h1, h2⟩ := ih (max v y)
    constructor
    · rcases List.mem_cons.mp h1 with h | h
      · rw [h]
        by_cases hvy : v ≤ y
        · simp [Int.max_eq_right hvy]
        · have : y ≤ v := by omega
          simp [Int.max_eq_left this]
      · exact List.mem_cons_of_mem _ (List.mem_cons_of_mem _ h)
    · intro x hx
      have hm := h2 (max v y) List.mem_cons_self
      rcases List.mem_cons.mp hx with rfl | hx
      · exact Int.le_trans (Int.le_max_left _ _) hm
      · rcases List.mem_cons.mp hx with rfl | hx
        · exact Int.le_trans (Int.le_max_right _ _) hm
        · exact h2 x (List.mem_cons_of_mem _ hx)

/-- a successful `mapM` into `Option` keeps the length -/
theorem mapM_some_length {α β} (f : α → Option β) : ∀ (l : List α) (vs : List β), l.mapM f = some vs → vs.length = l.length
  | [], vs, h => by simp at h; simp [← h]
  | a :: l, vs, h => by
    simp only [List.mapM_cons] at h
    cases ha : f a with
    | none => simp [ha] at h
    | some b =>
      cases hl : l.mapM f with
      | none => simp [ha, hl] at h
      | some ws =>
        simp [ha, hl] at h
        subst h
        simp [mapM_some_length f l ws hl]

/-! ### `map` by name: the comprehension `mapE` and the lookup `callByName` -/

/-- a comprehension that does not raise has one element per member -/
theorem mapE_length (f : Nat → Except Err Int) : ∀ (l : List Nat) (vs : List Int), mapE f l = .ok vs → vs.length = l.length
  | [], vs, h => by simp [mapE] at h; simp [← h]
  | i :: l, vs, h => by
    simp only [mapE] at h
    cases hf : f i with
    | error e => simp [hf] at h
    | ok v =>
      cases hl : mapE f l with
      | error e => simp [hf, hl] at h
      | ok ws =>
        simp [hf, hl] at h
        subst h
        simp [mapE_length f l ws hl]

theorem mapE_ok_of_forall (f : Nat → Except Err Int) (g : Nat → Int) (l : List Nat) (h : ∀ i ∈ l, f i = .ok (g i)) :
    mapE f l = .ok (l.map g) := by
  induction l with
  | nil => rfl
  | cons i l ih =>
    have h1 := h i List.mem_cons_self
    have h2 := ih (fun j hj => h j (List.mem_cons_of_mem _ hj))
    simp [mapE, h1, h2]

/-- the element results of a comprehension that did not raise, position by position -/
theorem mapE_getElem (f : Nat → Except Err Int) : ∀ (l : List Nat) (vs : List Int), mapE f l = .ok vs →
    ∀ (j : Nat) (i : Nat), l[j]? = some i → ∃ v, vs[j]? = some v ∧ f i = .ok v
  | [], vs, h, j, i, hj => by simp at hj
  | a :: l, vs, h, j, i, hj => by
    simp only [mapE] at h
    cases hf : f a with
    | error e => simp [hf] at h
    | ok v =>
      cases hl : mapE f l with
      | error e => simp [hf, hl] at h
      | ok ws =>
        simp [hf, hl] at h
        subst h
        cases j with
        | zero => simp at hj; subst hj; exact ⟨v, by simp, hf⟩
        | succ j => simp at hj; simpa using mapE_getElem f l ws hl j i hj

/-- a comprehension raises iff some element does, and then with the exception of the *first* such element -/
theorem mapE_error (f : Nat → Except Err Int) : ∀ (l : List Nat) (e : Err), mapE f l = .error e →
    ∃ pre i post, l = pre ++ i :: post ∧ f i = .error e ∧ ∀ j ∈ pre, ∃ v, f j = .ok v
  | [], e, h => by simp [mapE] at h
  | a :: l, e, h => by
    simp only [mapE] at h
    cases hf : f a with
    | error e' => simp [hf] at h; subst h; exact ⟨[], a, l, rfl, hf, by simp⟩
    | ok v =>
      cases hl : mapE f l with
      | ok ws => simp [hf, hl] at h
      | error e' =>
        simp [hf, hl] at h
        subst h
        obtain ⟨pre, i, post, h1, h2, h3⟩ := mapE_error f l e' hl
        refine ⟨a :: pre, i, post, by simp [h1], h2, fun j hj => ?_⟩
        rcases List.mem_cons.mp hj with rfl | hj
        · exact ⟨v, hf⟩
        · exact h3 j hj

/-- a comprehension over elements that read one optional value -/
theorem mapE_of_option (f : Nat → Except Err Int) (o : Nat → Option Int) (g : Int → Int)
    (hf : ∀ i, f i = match o i with | some v => .ok (g v) | none => .error .attr) (l : List Nat) :
    mapE f l = match l.mapM o with | some vs => .ok (vs.map g) | none => .error .attr := by
  induction l with
  | nil => simp [mapE]
  | cons i l ih =>
    simp only [mapE, List.mapM_cons, hf i, ih]
    cases ho : o i with
    | none => simp
    | some v =>
      cases hl : l.mapM o with
      | none => simp
      | some ws => simp

theorem callByName_plus (st : Store) (k : Nat) (d : Int) (i : Nat) :
    callByName st (.plus k) d i = match (st.agent i).attr k with | some v => .ok (v + d) | none => .error .attr := rfl

theorem callByName_own (st : Store) (k : Nat) (d : Int) (i : Nat) :
    callByName st (.own k) d i = match (st.agent i).attr k with | some v => .ok (3 * v + d) | none => .error .attr := rfl

theorem callByName_base (st : Store) (d : Int) (i : Nat) : callByName st .base d i = .ok (2 * d) := rfl

theorem callByName_rank (st : Store) (d : Int) (i : Nat) : callByName st .rank d i = .ok (((st.agent i).ty : Int) + d) := rfl

theorem callByName_nosuch (st : Store) (d : Int) (i : Nat) : callByName st .nosuch d i = .error .attr := rfl

theorem map_plus_eq (st : Store) (s k : Nat) (d : Int) :
    map st s (.plus k d) = match (st.get s).mapM (fun i => (st.agent i).attr k) with
      | some vs => .ok (vs.map (· + d)) | none => .error .attr :=
  mapE_of_option _ (fun i => (st.agent i).attr k) (· + d) (callByName_plus st k d) _

theorem map_own_eq (st : Store) (s k : Nat) (d : Int) :
    map st s (.own k d) = match (st.get s).mapM (fun i => (st.agent i).attr k) with
      | some vs => .ok (vs.map (3 * · + d)) | none => .error .attr :=
  mapE_of_option _ (fun i => (st.agent i).attr k) (3 * · + d) (callByName_own st k d) _

theorem map_nosuch_eq (st : Store) (s : Nat) : map st s .nosuch = if st.get s = [] then .ok [] else .error .attr := by
  simp only [map]
  cases st.get s with
  | nil => rfl
  | cons i l => simp [mapE, callByName_nosuch]

end Mesa.ASet
