import MesaModel.Model.StepNested
import MesaModel.Proofs.StepCounter
/-! Helper lemmas for nested step calls (`Model/StepNested.lean`, property C05): a nested history is a flat one. -/
namespace Mesa.Steps

theorem run_append (w : List Inst) (a b : List Op) : run w (a ++ b) = run (run w a) b := by
  simp [run, List.foldl_append]

/-- the calls `cs`, made one after the other at top level from `w`, end in `w'`, and every one of them
    recorded exactly what a top-level `step()` records at that moment -/
def Flat (w : List Inst) (cs : List Call) (w' : List Inst) : Prop :=
  w' = run w (cs.map Call.toOp) ∧
  ∀ pre c post, cs = pre ++ c :: post →
    ∃ x, (run w (pre.map Call.toOp))[c.inst]? = some x ∧ (callStep x c.args).2 = (c.entries, c.ok)

theorem Flat.nil (w : List Inst) : Flat w [] w :=
  ⟨rfl, fun pre c post h => by simp at h⟩

theorem Flat.single {w : List Inst} {i : Nat} {x : Inst} (hx : w[i]? = some x) (args : List Int) :
    Flat w [⟨i, args, (callStep x args).2.1, (callStep x args).2.2⟩] (w.set i (callStep x args).1) := by
  refine ⟨by simp [run, Call.toOp, apply, hx], fun pre c post h => ?_⟩
  cases pre with
  | nil =>
    simp only [List.nil_append, List.cons.injEq] at h
    obtain ⟨rfl, _⟩ := h
    exact ⟨x, by simpa [run] using hx, rfl⟩
  | cons p pre => simp at h

theorem Flat.append {w w1 w2 : List Inst} {cs1 cs2 : List Call} (h1 : Flat w cs1 w1) (h2 : Flat w1 cs2 w2) :
    Flat w (cs1 ++ cs2) w2 := by
  refine ⟨by rw [List.map_append, run_append, ← h1.1, h2.1], fun pre c post h => ?_⟩
  rcases List.append_eq_append_iff.mp h with ⟨a', rfl, ha⟩ | ⟨c', hc1, hc2⟩
  · -- the call lies in the second part, after `a'`
    obtain ⟨x, hx1, hx2⟩ := h2.2 a' c post ha
    refine ⟨x, ?_, hx2⟩
    rw [List.map_append, run_append, ← h1.1]
    exact hx1
  · cases c' with
    | nil =>
      -- the call is the first of the second part
      simp only [List.nil_append] at hc2
      simp only [List.append_nil] at hc1
      subst hc1
      obtain ⟨x, hx1, hx2⟩ := h2.2 [] c post hc2.symm
      refine ⟨x, ?_, hx2⟩
      rw [← h1.1]
      simpa [run] using hx1
    | cons d c' =>
      -- the call lies in the first part
      simp only [List.cons_append, List.cons.injEq] at hc2
      obtain ⟨rfl, _⟩ := hc2
      exact h1.2 pre c c' hc1

theorem stepNested_flat (links : List (Option Nat)) (f : Nat) (w : List Inst) (i : Nat) (args : List Int) :
    Flat w (stepNested links f w i args).2 (stepNested links f w i args).1 := by
  induction f generalizing w i args with
  | zero => exact Flat.nil w
  | succ f ih =>
    unfold stepNested
    cases hx : w[i]? with
    | none => exact Flat.nil w
    | some x =>
      simp only
      cases hl : links[i]?.join with
      | none => exact Flat.single hx args
      | some j =>
        simp only
        -- the nested calls after each body, folded from any flat prefix
        have hfold : ∀ (es : List Entry) (w0 : List Inst) (acc : List Inst × List Call), Flat w0 acc.2 acc.1 →
            Flat w0 (es.foldl (fun (acc : List Inst × List Call) _ =>
                let n := stepNested links f acc.1 j []; (n.1, acc.2 ++ n.2)) acc).2
              (es.foldl (fun (acc : List Inst × List Call) _ =>
                let n := stepNested links f acc.1 j []; (n.1, acc.2 ++ n.2)) acc).1 := by
          intro es
          induction es with
          | nil => intro w0 acc h; exact h
          | cons e es ihe =>
            intro w0 acc h
            simp only [List.foldl_cons]
            exact ihe w0 _ (h.append (ih acc.1 j []))
        have h1 := Flat.single hx args
        have h2 := hfold (callStep x args).2.1 (w.set i (callStep x args).1) (w.set i (callStep x args).1, []) (Flat.nil _)
        exact h1.append h2

theorem runNested_flat (links : List (Option Nat)) (f : Nat) (w : List Inst) (i : Nat) (w' : List Inst) (cs : List Call)
    (h : runNested links f w i = some (w', cs)) : Flat w cs w' := by
  induction f generalizing w w' cs with
  | zero => simp [runNested] at h
  | succ f ih =>
    unfold runNested at h
    cases hx : w[i]? with
    | none => simp [hx] at h; obtain ⟨rfl, rfl⟩ := h; exact Flat.nil w
    | some x =>
      simp only [hx] at h
      by_cases hr : x.running
      · simp only [hr, Bool.not_true, Bool.false_eq_true, if_false] at h
        cases hn : runNested links f (stepNested links (w.length + 1) w i []).1 i with
        | none => simp [hn] at h
        | some p =>
          simp only [hn, Option.some.injEq, Prod.mk.injEq] at h
          obtain ⟨rfl, rfl⟩ := h
          exact (stepNested_flat links _ w i []).append (ih _ _ _ hn)
      · simp only [hr, Bool.not_false, if_true, Option.some.injEq, Prod.mk.injEq] at h
        obtain ⟨rfl, rfl⟩ := h
        exact Flat.nil w

end Mesa.Steps

namespace Mesa.Steps

/-! ### the nesting fuel is immaterial when links point forward (review item M17) -/

theorem stepNested_length (links : List (Option Nat)) (f : Nat) (w : List Inst) (i : Nat) (args : List Int) :
    (stepNested links f w i args).1.length = w.length := by
  induction f generalizing w i args with
  | zero => rfl
  | succ f ih =>
    unfold stepNested
    cases hx : w[i]? with
    | none => rfl
    | some x =>
      simp only
      cases hl : links[i]?.join with
      | none => simp
      | some j =>
        simp only
        have hfold : ∀ (es : List Entry) (acc : List Inst × List Call),
            (es.foldl (fun (acc : List Inst × List Call) _ =>
              let n := stepNested links f acc.1 j []; (n.1, acc.2 ++ n.2)) acc).1.length = acc.1.length := by
          intro es
          induction es with
          | nil => intro acc; rfl
          | cons e es ihe => intro acc; simp only [List.foldl_cons]; rw [ihe, ih]
        rw [hfold]; simp

/-- links only point to instances created later -/
def Forward (links : List (Option Nat)) : Prop := ∀ (i j : Nat), links[i]?.join = some j → i < j

theorem stepNested_fuel (links : List (Option Nat)) (hf : Forward links) (f f' : Nat) (w : List Inst) (i : Nat)
    (args : List Int) (h1 : w.length - i ≤ f) (h2 : w.length - i ≤ f') :
    stepNested links f w i args = stepNested links f' w i args := by
  induction f generalizing f' w i args with
  | zero =>
    have hi : w.length ≤ i := by omega
    have hx : w[i]? = none := List.getElem?_eq_none hi
    cases f' with
    | zero => rfl
    | succ f' => simp [stepNested, hx]
  | succ f ih =>
    cases hx : w[i]? with
    | none =>
      cases f' with
      | zero => simp [stepNested, hx]
      | succ f' => simp [stepNested, hx]
    | some x =>
      have hi : i < w.length := (List.getElem?_eq_some_iff.mp hx).1
      cases f' with
      | zero => omega
      | succ f' =>
        unfold stepNested
        simp only [hx]
        cases hl : links[i]?.join with
        | none => rfl
        | some j =>
          simp only
          have hij : i < j := hf i j hl
          have hfold : ∀ (es : List Entry) (acc : List Inst × List Call), acc.1.length = w.length →
              es.foldl (fun (acc : List Inst × List Call) _ =>
                let n := stepNested links f acc.1 j []; (n.1, acc.2 ++ n.2)) acc
              = es.foldl (fun (acc : List Inst × List Call) _ =>
                let n := stepNested links f' acc.1 j []; (n.1, acc.2 ++ n.2)) acc := by
            intro es
            induction es with
            | nil => intro acc _; rfl
            | cons e es ihe =>
              intro acc hlen
              simp only [List.foldl_cons]
              rw [ih f' acc.1 j [] (by rw [hlen]; omega) (by rw [hlen]; omega)]
              apply ihe
              simp only
              rw [stepNested_length, hlen]
          rw [hfold _ _ (by simp)]

end Mesa.Steps

namespace Mesa.Steps

theorem stepNested_calls_pos (links : List (Option Nat)) (f : Nat) (w : List Inst) (i : Nat) (args : List Int)
    (hi : i < w.length) : 1 ≤ (stepNested links (f + 1) w i args).2.length := by
  unfold stepNested
  have hx : w[i]? = some w[i] := List.getElem?_eq_getElem hi
  simp only [hx]
  cases links[i]?.join with
  | none => simp
  | some j => simp

/-- with fuel left, no nested call is dropped: a call on an instance whose bodies step instance `j` contains, besides itself,
    at least one call for every body that ran -/
theorem stepNested_calls_ge (links : List (Option Nat)) (f : Nat) (w : List Inst) (i j : Nat) (args : List Int) (x : Inst)
    (hx : w[i]? = some x) (hl : links[i]?.join = some j) (hj : j < w.length) :
    1 + (callStep x args).2.1.length ≤ (stepNested links (f + 2) w i args).2.length := by
  rw [stepNested]
  simp only [hx, hl]
  have hfold : ∀ (es : List Entry) (acc : List Inst × List Call), acc.1.length = w.length →
      acc.2.length + es.length ≤ (es.foldl (fun (acc : List Inst × List Call) _ =>
        let n := stepNested links (f + 1) acc.1 j []; (n.1, acc.2 ++ n.2)) acc).2.length := by
    intro es
    induction es with
    | nil => intro acc _; simp
    | cons e es ihe =>
      intro acc hlen
      simp only [List.foldl_cons]
      have h1 := stepNested_calls_pos links f acc.1 j [] (by rw [hlen]; exact hj)
      have h2 := ihe (((stepNested links (f + 1) acc.1 j []).1, acc.2 ++ (stepNested links (f + 1) acc.1 j []).2))
        (by simp only; rw [stepNested_length, hlen])
      simp only [List.length_append, List.length_cons] at h2 ⊢
      omega
  have := hfold (callStep x args).2.1 (w.set i (callStep x args).1, []) (by simp)
  simp only [List.length_cons, List.length_nil] at this ⊢
  omega

end Mesa.Steps
