import MesaModel.Proofs.Devs
import MesaModel.Proofs.DevsOrder
import MesaModel.Proofs.DevsLive
/-!
Callables that raise.  `raise x` in a program (or in the step body) sets `Sim.raised`; the rest of the program is skipped;
`runUntil` / `runNext` return at once with `raised` still set (the exception is on its way to the program), the program
catches it (`caught`) and goes on.

* `runUntil_aborted`: what an aborted run leaves — the log ends with the raising event, logged at the clock the run stopped at.
* `runUntilC`: the *uninterrupted* run — every exception is caught inside the loop and the loop carries on (so the raising
  programs stop at their `raise`, nothing else differs).  `resume_runUntilC`: calling `run_until(T)` again after every
  exception until it returns normally ends in exactly the state of the uninterrupted run; `chunkC_pieces`: so does any
  partition into pieces with exceptions caught in between.
-/
namespace Mesa.Devs

/-! ### who sets `raised` -/

theorem caught_of_calm {s : Sim} (h : s.raised = none) : caught s = s := by
  cases s; simp only [caught] at *; subst h; rfl

theorem doCmd_of_raised {s : Sim} {x : Exc} (h : s.raised = some x) (c : Cmd) : doCmd s c = s := by
  simp [doCmd, h]

theorem foldl_doCmd_of_raised {s : Sim} {x : Exc} (h : s.raised = some x) (cs : List Cmd) : cs.foldl doCmd s = s := by
  induction cs with
  | nil => rfl
  | cons c cs ih => simp only [List.foldl_cons, doCmd_of_raised h c]; exact ih

/-- commands other than `raise` leave `raised` alone -/
theorem doCmd1_raised (s : Sim) (c : Cmd) (hc : ∀ x, c ≠ .raise x) : (doCmd1 s c).raised = s.raised := by
  cases c with
  | schedAbs t p a =>
    simp only [doCmd1, schedAbs]
    split
    · rename_i s' hs
      split at hs
      · simp at hs
      · split at hs
        · simp at hs
        · simp only [Except.ok.injEq] at hs; subst hs; rfl
    · rfl
  | schedRel d p a =>
    simp only [doCmd1, schedRel]
    split
    · rename_i s' hs
      split at hs
      · simp at hs
      · split at hs
        · simp at hs
        · simp only [Except.ok.injEq] at hs; subst hs; rfl
    · rfl
  | again k d p =>
    rcases doCmd1_again_cases s k d p with he | ⟨a, _, _, he⟩ <;> rw [he]
    rfl
  | cancel k => rfl
  | drop k => rfl
  | halt => rfl
  | raise x => exact absurd rfl (hc x)

/-- a program ends with `raised = some x` only by executing a `raise x` of its own -/
theorem foldl_doCmd_raised {s : Sim} {x : Exc} (cs : List Cmd) (h0 : s.raised = none)
    (h : (cs.foldl doCmd s).raised = some x) : Cmd.raise x ∈ cs := by
  induction cs generalizing s with
  | nil => simp only [List.foldl_nil] at h; rw [h0] at h; simp at h
  | cons c cs ih =>
    simp only [List.foldl_cons] at h
    by_cases hc : ∃ y, c = .raise y
    · obtain ⟨y, rfl⟩ := hc
      have hy : (doCmd s (.raise y)).raised = some y := by simp [doCmd, h0, doCmd1]
      rw [foldl_doCmd_of_raised hy cs, hy] at h
      simp only [Option.some.injEq] at h
      subst h
      exact List.mem_cons_self
    · have hc' : ∀ y, c ≠ .raise y := fun y hy => hc ⟨y, hy⟩
      have h1 : (doCmd s c).raised = none := by
        simp only [doCmd, h0, Option.isSome_none, Bool.false_eq_true, if_false]
        rw [doCmd1_raised s c hc']; exact h0
      exact List.mem_cons_of_mem _ (ih h1 h)

theorem rearm_raised (s : Sim) : (rearm s).raised = s.raised := by
  unfold rearm; split <;> rfl

/-- an execution ends with an exception only if the event's callable was alive, ran (it is logged), and its program — the step
    body for a step event — contains that `raise` -/
theorem exec_raised {s : Sim} {e : Ev} {x : Exc} (h0 : s.raised = none) (h : (exec s e).raised = some x) :
    e.dead = false ∧
    ((e.isStep = true ∧ Cmd.raise x ∈ s.stepProg) ∨ (e.isStep = false ∧ Cmd.raise x ∈ s.prog e.act)) := by
  unfold exec at h
  split at h
  · rw [h0] at h; simp at h
  · rename_i hd
    refine ⟨by simpa using hd, ?_⟩
    split at h
    · rename_i hs
      exact Or.inl ⟨hs, foldl_doCmd_raised _ (by show (rearm s).raised = none; rw [rearm_raised]; exact h0) h⟩
    · rename_i hs
      exact Or.inr ⟨by simpa using hs, foldl_doCmd_raised (s := { s with log := s.log ++ [.user e.id e.tag s.now] }) _ h0 h⟩

/-- the run of an event that is alive is logged, whether it raises or not -/
theorem entryOf_alive {s : Sim} {e : Ev} (hd : e.dead = false) :
    ∃ ent, entryOf s e = [ent] ∧ ent.id = e.id ∧ ent.clock = s.now := by
  unfold entryOf
  rw [if_neg (by simp [hd])]
  split
  · exact ⟨_, rfl, rfl, rfl⟩
  · exact ⟨_, rfl, rfl, rfl⟩

/-! ### what an aborted run leaves -/

/-- `run_until(T)` cut short by an exception `x`: the last thing it did was to execute the raising event — alive, due, popped
    from the list — whose log entry is the last one, at the clock the run stopped at (`≤ T`); everything it executed before
    is logged before, at clocks `≤ T`; the raising program contains that `raise`. -/
theorem runUntil_aborted {f : Nat} {s s' : Sim} {T : Int} {x : Exc} (h0 : s.raised = none)
    (hr : runUntil f s T = some s') (hx : s'.raised = some x) :
    ∃ pre ent, s'.log = s.log ++ pre ++ [ent] ∧ ent.clock = s'.now ∧ s'.now ≤ T ∧ (∀ y ∈ pre, y.clock ≤ T) ∧
      ((ent.isStep = true ∧ Cmd.raise x ∈ s.stepProg) ∨ (ent.isStep = false ∧ ∃ a, Cmd.raise x ∈ s.prog a)) := by
  induction f generalizing s with
  | zero => simp [runUntil] at hr
  | succ f ih =>
    cases hp : popLive s.pending with
    | none =>
      rw [runUntil_none hp] at hr
      simp only [Option.some.injEq] at hr; subst hr
      rw [show ({ s with now := T, pending := [], gone := s.gone ++ (skipped s.pending).map (·.id) } : Sim).raised = s.raised
        from rfl, h0] at hx
      simp at hx
    | some p =>
      obtain ⟨e, rest⟩ := p
      by_cases hT : e.time ≤ T
      · have hp0 : (popped s e rest).raised = none := h0
        cases hxx : (exec (popped s e rest) e).raised.isSome with
        | true =>
          rw [runUntil_due_raised hp hT hxx] at hr
          simp only [Option.some.injEq] at hr; subst hr
          obtain ⟨hd, hprog⟩ := exec_raised hp0 hx
          obtain ⟨ent, hent, _, hclk⟩ := entryOf_alive (s := popped s e rest) hd
          refine ⟨[], ent, by rw [exec_log, hent]; simp [popped], by rw [exec_now]; exact hclk, by rw [exec_now]; exact hT,
            by simp, ?_⟩
          have hstep : ent.isStep = e.isStep := by
            unfold entryOf at hent
            rw [if_neg (by simp [hd])] at hent
            split at hent
            · rename_i hs; simp only [List.cons.injEq, and_true] at hent; subst hent; simp [LogEntry.isStep, hs]
            · rename_i hs; simp only [List.cons.injEq, and_true] at hent; subst hent; simp [LogEntry.isStep, hs]
          rcases hprog with ⟨hs, hm⟩ | ⟨hs, hm⟩
          · exact Or.inl ⟨by rw [hstep]; exact hs, hm⟩
          · exact Or.inr ⟨by rw [hstep]; exact hs, _, hm⟩
        | false =>
          rw [runUntil_due hp hT hxx] at hr
          have h1 : (exec (popped s e rest) e).raised = none := by
            cases hh : (exec (popped s e rest) e).raised with
            | none => rfl
            | some y => rw [hh] at hxx; simp at hxx
          obtain ⟨pre, ent, hlog, hclk, hle, hpre, hprog⟩ := ih h1 hr
          have hprogs := exec_progs (popped s e rest) e
          refine ⟨entryOf (popped s e rest) e ++ pre, ent, ?_, hclk, hle, ?_, ?_⟩
          · rw [hlog, exec_log]; simp [popped, List.append_assoc]
          · intro y hy
            rcases List.mem_append.mp hy with hy | hy
            · rw [entryOf_clock y hy]; exact hT
            · exact hpre y hy
          · rw [hprogs.1, hprogs.2] at hprog; exact hprog
      · rw [runUntil_late hp hT] at hr
        simp only [Option.some.injEq] at hr; subst hr
        rw [show ({ popped s e rest with now := T, pending := insert e rest } : Sim).raised = s.raised from rfl, h0] at hx
        simp at hx

/-! ### the log only grows -/

theorem runUntil_log_grows {f : Nat} {s s' : Sim} {T : Int} (hr : runUntil f s T = some s') : ∃ new, s'.log = s.log ++ new := by
  obtain ⟨tr, htr⟩ := runUntilT_of_runUntil hr
  exact ⟨_, runUntilT_log htr⟩

theorem runNext_log_grows (s : Sim) : ∃ new, (runNext s).log = s.log ++ new := by
  unfold runNext
  split
  · exact ⟨[], by simp⟩
  · exact ⟨_, by rw [exec_log]⟩

theorem reachableFrom_log_grows {s s' : Sim} (hr : ReachableFrom s s') : ∃ new, s'.log = s.log ++ new := by
  induction hr with
  | refl => exact ⟨[], by simp⟩
  | cmd c _ ih =>
    obtain ⟨new, h⟩ := ih
    exact ⟨new, by rw [(doCmd_frame _ c).2.1, h]⟩
  | «until» _ _ hrun ih =>
    obtain ⟨new, h⟩ := ih
    obtain ⟨new2, h2⟩ := runUntil_log_grows hrun
    exact ⟨new ++ new2, by rw [h2, h, List.append_assoc]⟩
  | next _ ih =>
    obtain ⟨new, h⟩ := ih
    obtain ⟨new2, h2⟩ := runNext_log_grows _
    exact ⟨new ++ new2, by rw [h2, h, List.append_assoc]⟩
  | caught _ ih => exact ih

/-! ### the uninterrupted run -/

/-- `run_until` in which every exception of a callable is caught on the spot and the loop carries on: what the run would be if
    the raising programs simply stopped at their `raise` -/
def runUntilC : Nat → Sim → Int → Option Sim
  | 0, _, _ => none
  | f+1, s, T =>
    match popLive s.pending with
    | none => some { s with now := T, pending := [], gone := s.gone ++ (skipped s.pending).map (·.id) }
    | some (e, rest) =>
      if e.time ≤ T then runUntilC f (caught (exec (popped s e rest) e)) T
      else some { popped s e rest with now := T, pending := insert e rest }

theorem runUntilC_none {f : Nat} {s : Sim} {T : Int} (hp : popLive s.pending = none) :
    runUntilC (f+1) s T = some { s with now := T, pending := [], gone := s.gone ++ (skipped s.pending).map (·.id) } := by
  simp only [runUntilC, hp]

theorem runUntilC_late {f : Nat} {s : Sim} {T : Int} {e : Ev} {rest : List Ev} (hp : popLive s.pending = some (e, rest))
    (hT : ¬ e.time ≤ T) :
    runUntilC (f+1) s T = some { popped s e rest with now := T, pending := insert e rest } := by
  simp only [runUntilC, hp, hT, if_false]

theorem runUntilC_due {f : Nat} {s : Sim} {T : Int} {e : Ev} {rest : List Ev} (hp : popLive s.pending = some (e, rest))
    (hT : e.time ≤ T) : runUntilC (f+1) s T = runUntilC f (caught (exec (popped s e rest) e)) T := by
  simp only [runUntilC, hp, hT, if_true]

theorem raised_none_of_isSome_false {s : Sim} (h : s.raised.isSome = false) : s.raised = none := by
  cases hh : s.raised with
  | none => rfl
  | some y => rw [hh] at h; simp at h

/-- a run that returns normally is the uninterrupted run -/
theorem runUntilC_of_normal {f : Nat} {s s' : Sim} {T : Int} (hr : runUntil f s T = some s') (hn : s'.raised = none) :
    runUntilC f s T = some s' := by
  induction f generalizing s with
  | zero => simp [runUntil] at hr
  | succ f ih =>
    cases hp : popLive s.pending with
    | none => rw [runUntil_none hp] at hr; rw [runUntilC_none hp]; exact hr
    | some p =>
      obtain ⟨e, rest⟩ := p
      by_cases hT : e.time ≤ T
      · cases hxx : (exec (popped s e rest) e).raised.isSome with
        | true =>
          rw [runUntil_due_raised hp hT hxx] at hr
          simp only [Option.some.injEq] at hr; subst hr
          rw [hn] at hxx; simp at hxx
        | false =>
          rw [runUntil_due hp hT hxx] at hr
          rw [runUntilC_due hp hT, caught_of_calm (raised_none_of_isSome_false hxx)]
          exact ih hr
      · rw [runUntil_late hp hT] at hr; rw [runUntilC_late hp hT]; exact hr

theorem caught_wf {s : Sim} (h : WF s) : WF (caught s) := ⟨h.sorted, h.idlt, h.future⟩

/-- a piece `run_until(t₁)` — cut short by an exception or not —, the exception caught, then the uninterrupted run to `t₂ ≥ t₁`:
    the uninterrupted run to `t₂` -/
theorem chunkC_until {f₁ f₂ : Nat} {s s₁ s₂ : Sim} {t₁ t₂ : Int} (ht : t₁ ≤ t₂) (hw : WF s) (h0 : s.raised = none)
    (h₁ : runUntil f₁ s t₁ = some s₁) (h₂ : runUntilC f₂ (caught s₁) t₂ = some s₂) :
    ∃ f, runUntilC f s t₂ = some s₂ := by
  induction f₁ generalizing s with
  | zero => simp [runUntil] at h₁
  | succ f ih =>
    cases hp : popLive s.pending with
    | none =>
      rw [runUntil_none hp] at h₁
      simp only [Option.some.injEq] at h₁; subst h₁
      cases f₂ with
      | zero => simp [runUntilC] at h₂
      | succ f₂ =>
        rw [runUntilC_none (by rfl)] at h₂
        simp only [Option.some.injEq] at h₂
        refine ⟨1, ?_⟩
        rw [runUntilC_none hp, ← h₂]
        simp only [caught, skipped, List.takeWhile_nil, List.map_nil, List.append_nil, h0]
    | some p =>
      obtain ⟨e, rest⟩ := p
      obtain ⟨hlive, hlt, hsr⟩ := popLive_spec hw.sorted hp
      by_cases hT : e.time ≤ t₁
      · have hwe : WF (exec (popped s e rest) e) := exec_wf (popped_wf hw hp) e
        cases hxx : (exec (popped s e rest) e).raised.isSome with
        | true =>
          rw [runUntil_due_raised hp hT hxx] at h₁
          simp only [Option.some.injEq] at h₁; subst h₁
          exact ⟨f₂+1, by rw [runUntilC_due hp (Int.le_trans hT ht)]; exact h₂⟩
        | false =>
          rw [runUntil_due hp hT hxx] at h₁
          have hcalm := raised_none_of_isSome_false hxx
          obtain ⟨f', hf'⟩ := ih hwe hcalm h₁
          exact ⟨f'+1, by rw [runUntilC_due hp (Int.le_trans hT ht), caught_of_calm hcalm]; exact hf'⟩
      · rw [runUntil_late hp hT] at h₁
        simp only [Option.some.injEq] at h₁; subst h₁
        have hpl : popLive (caught { popped s e rest with now := t₁, pending := insert e rest }).pending = some (e, rest) := by
          show popLive (insert e rest) = some (e, rest)
          rw [insert_of_all_lt e rest hlt, popLive_cons_live e rest hlive]
        have hsk : skipped (insert e rest) = [] := by
          rw [insert_of_all_lt e rest hlt]; exact skipped_cons_live hlive
        cases f₂ with
        | zero => simp [runUntilC] at h₂
        | succ f₂ =>
          by_cases hT2 : e.time ≤ t₂
          · rw [runUntilC_due hpl hT2] at h₂
            refine ⟨f₂+1, ?_⟩
            rw [runUntilC_due hp hT2, ← h₂]
            simp only [popped, caught, hsk, List.map_nil, List.append_nil, h0]
          · rw [runUntilC_late hpl hT2] at h₂
            simp only [Option.some.injEq] at h₂
            refine ⟨1, ?_⟩
            rw [runUntilC_late hp hT2, ← h₂]
            simp only [popped, caught, hsk, List.map_nil, List.append_nil, h0]

/-- a `run_next_event` piece, the exception (if any) caught, then the uninterrupted run -/
theorem chunkC_next {f : Nat} {s s₂ : Sim} {T : Int} (h0 : s.raised = none)
    (hT : ∀ e rest, popLive s.pending = some (e, rest) → e.time ≤ T)
    (h : runUntilC f (caught (runNext s)) T = some s₂) : ∃ f', runUntilC f' s T = some s₂ := by
  unfold runNext at h
  split at h
  · rename_i hp
    cases f with
    | zero => simp [runUntilC] at h
    | succ f =>
      rw [runUntilC_none (by rfl)] at h
      simp only [Option.some.injEq] at h
      refine ⟨1, ?_⟩
      rw [runUntilC_none hp, ← h]
      simp only [caught, skipped, List.takeWhile_nil, List.map_nil, List.append_nil, h0]
  · rename_i e rest hp
    exact ⟨f+1, by rw [runUntilC_due hp (hT e rest hp)]; exact h⟩

/-- `run_until(T)`; whenever an exception comes out of it the program catches it and calls `run_until(T)` again (at most `n` calls) -/
def resume (f : Nat) : Nat → Sim → Int → Option Sim
  | 0, _, _ => none
  | n+1, s, T =>
    match runUntil f s T with
    | none => none
    | some s' => if s'.raised.isSome then resume f n (caught s') T else some s'

/-- **interrupted and resumed = uninterrupted** -/
theorem resume_runUntilC {f n : Nat} {s s' : Sim} {T : Int} (hw : WF s) (h0 : s.raised = none)
    (h : resume f n s T = some s') : s'.raised = none ∧ ∃ g, runUntilC g s T = some s' := by
  induction n generalizing s with
  | zero => simp [resume] at h
  | succ n ih =>
    simp only [resume] at h
    split at h
    · simp at h
    · rename_i s₁ h₁
      split at h
      · obtain ⟨hn, g, hg⟩ := ih (caught_wf (runUntil_wf hw h₁)) rfl h
        exact ⟨hn, chunkC_until (Int.le_refl T) hw h0 h₁ hg⟩
      · rename_i hx
        simp only [Option.some.injEq] at h; subst h
        have hn := raised_none_of_isSome_false (Bool.eq_false_iff.mpr hx)
        exact ⟨hn, f, runUntilC_of_normal h₁ hn⟩

/-! ### pieces with exceptions caught in between -/

/-- a piece, after which the program catches whatever exception came out of it -/
def runPieceC (f : Nat) (s : Sim) (p : Piece) : Option Sim := (runPiece f s p).map caught

def runPiecesC (f : Nat) : Sim → List Piece → Option Sim
  | s, [] => some s
  | s, p :: ps => match runPieceC f s p with
    | none => none
    | some s' => runPiecesC f s' ps

def piecesWithinC (f : Nat) (T : Int) : Sim → List Piece → Prop
  | _, [] => True
  | s, p :: ps =>
    (match p with
     | .until t => t ≤ T
     | .for d => s.now + d ≤ T
     | .next => ∀ e rest, popLive s.pending = some (e, rest) → e.time ≤ T) ∧
    ∀ s', runPieceC f s p = some s' → piecesWithinC f T s' ps

theorem chunkC_pieces {f f' : Nat} {s s₁ s₂ : Sim} {T : Int} {ps : List Piece} (hw : WF s) (h0 : s.raised = none)
    (hin : piecesWithinC f T s ps) (h₁ : runPiecesC f s ps = some s₁) (h₂ : runUntilC f' s₁ T = some s₂) :
    ∃ g, runUntilC g s T = some s₂ := by
  induction ps generalizing s with
  | nil => simp only [runPiecesC, Option.some.injEq] at h₁; subst h₁; exact ⟨f', h₂⟩
  | cons p ps ih =>
    simp only [runPiecesC] at h₁
    split at h₁
    · simp at h₁
    · rename_i sm hsm
      obtain ⟨hp, hrest⟩ := hin
      have hin' := hrest sm hsm
      simp only [runPieceC, Option.map_eq_some_iff] at hsm
      obtain ⟨sr, hsr, rfl⟩ := hsm
      obtain ⟨g, hg⟩ := ih (caught_wf (runPiece_wf hw hsr)) rfl hin' h₁
      cases p with
      | «until» t => exact chunkC_until hp hw h0 hsr hg
      | «for» d => exact chunkC_until hp hw h0 hsr hg
      | next =>
        simp only [runPiece, Option.some.injEq] at hsr; subst hsr
        exact chunkC_next h0 hp hg

/-! ### the uninterrupted run is a function of (state, horizon): fuel is a termination device only -/

theorem runUntilC_fuel_succ {f : Nat} {s s' : Sim} {T : Int} (h : runUntilC f s T = some s') :
    runUntilC (f+1) s T = some s' := by
  induction f generalizing s with
  | zero => simp [runUntilC] at h
  | succ f ih =>
    cases hp : popLive s.pending with
    | none => rw [runUntilC_none hp] at h ⊢; exact h
    | some p =>
      obtain ⟨e, rest⟩ := p
      by_cases hT : e.time ≤ T
      · rw [runUntilC_due hp hT] at h ⊢; exact ih h
      · rw [runUntilC_late hp hT] at h ⊢; exact h

theorem runUntilC_fuel_le {f g : Nat} {s s' : Sim} {T : Int} (hfg : f ≤ g) (h : runUntilC f s T = some s') :
    runUntilC g s T = some s' := by
  induction hfg with
  | refl => exact h
  | step _ ih => exact runUntilC_fuel_succ ih

/-- two terminating uninterrupted runs from the same state to the same horizon end in the same state -/
theorem runUntilC_det {f g : Nat} {s a b : Sim} {T : Int} (ha : runUntilC f s T = some a) (hb : runUntilC g s T = some b) :
    a = b := by
  have h1 := runUntilC_fuel_le (Nat.le_max_left f g) ha
  have h2 := runUntilC_fuel_le (Nat.le_max_right f g) hb
  rw [h1] at h2; exact Option.some.inj h2

theorem runUntil_det {f g : Nat} {s a b : Sim} {T : Int} (ha : runUntil f s T = some a) (hb : runUntil g s T = some b) :
    a = b := by
  have h1 := runUntil_fuel_le (Nat.le_max_left f g) ha
  have h2 := runUntil_fuel_le (Nat.le_max_right f g) hb
  rw [h1] at h2; exact Option.some.inj h2

theorem runUntilC_calm {f : Nat} {s s' : Sim} {T : Int} (h0 : s.raised = none) (h : runUntilC f s T = some s') :
    s'.raised = none := by
  induction f generalizing s with
  | zero => simp [runUntilC] at h
  | succ f ih =>
    cases hp : popLive s.pending with
    | none => rw [runUntilC_none hp] at h; simp only [Option.some.injEq] at h; subst h; exact h0
    | some p =>
      obtain ⟨e, rest⟩ := p
      by_cases hT : e.time ≤ T
      · rw [runUntilC_due hp hT] at h; exact ih rfl h
      · rw [runUntilC_late hp hT] at h; simp only [Option.some.injEq] at h; subst h; exact h0

theorem resume_fuel_le {f g n : Nat} {s s' : Sim} {T : Int} (hfg : f ≤ g) (h : resume f n s T = some s') :
    resume g n s T = some s' := by
  induction n generalizing s with
  | zero => simp [resume] at h
  | succ n ih =>
    simp only [resume] at h ⊢
    split at h
    · simp at h
    · rename_i s₁ h₁
      simp only [runUntil_fuel_le hfg h₁]
      split at h
      · rename_i hx; rw [if_pos hx]; exact ih h
      · rename_i hx; rw [if_neg hx]; exact h

theorem resume_calls_le {f n m : Nat} {s s' : Sim} {T : Int} (hnm : n ≤ m) (h : resume f n s T = some s') :
    resume f m s T = some s' := by
  induction n generalizing s m with
  | zero => simp [resume] at h
  | succ n ih =>
    cases m with
    | zero => omega
    | succ m =>
      simp only [resume] at h ⊢
      split at h
      · simp at h
      · rename_i s₁ h₁
        split at h
        · rename_i hx; rw [if_pos hx]; exact ih (Nat.le_of_succ_le_succ hnm) h
        · rename_i hx; rw [if_neg hx]; exact h

/-- one `run_until(T)` call seen from the uninterrupted run: it returns normally with the uninterrupted run's result, or it is
    cut short in a state from which (the exception caught) the uninterrupted run needs strictly less fuel -/
theorem runUntilC_split {g : Nat} {s s' : Sim} {T : Int} (h0 : s.raised = none) (h : runUntilC g s T = some s') :
    (runUntil g s T = some s' ∧ s'.raised = none) ∨
    ∃ s₁ g', g' < g ∧ runUntil g s T = some s₁ ∧ s₁.raised.isSome = true ∧ runUntilC g' (caught s₁) T = some s' := by
  induction g generalizing s with
  | zero => simp [runUntilC] at h
  | succ g ih =>
    cases hp : popLive s.pending with
    | none =>
      rw [runUntilC_none hp] at h
      left; rw [runUntil_none hp]; refine ⟨h, ?_⟩
      simp only [Option.some.injEq] at h; subst h; exact h0
    | some p =>
      obtain ⟨e, rest⟩ := p
      by_cases hT : e.time ≤ T
      · rw [runUntilC_due hp hT] at h
        cases hxx : (exec (popped s e rest) e).raised.isSome with
        | true => exact Or.inr ⟨_, g, Nat.lt_succ_self g, runUntil_due_raised hp hT hxx, hxx, h⟩
        | false =>
          have hcalm := raised_none_of_isSome_false hxx
          rw [caught_of_calm hcalm] at h
          rcases ih hcalm h with ⟨hr, hn⟩ | ⟨s₁, g', hg', hr, hx, hc⟩
          · exact Or.inl ⟨by rw [runUntil_due hp hT hxx]; exact hr, hn⟩
          · exact Or.inr ⟨s₁, g', Nat.lt_succ_of_lt hg', by rw [runUntil_due hp hT hxx]; exact hr, hx, hc⟩
      · rw [runUntilC_late hp hT] at h
        left; rw [runUntil_late hp hT]; refine ⟨h, ?_⟩
        simp only [Option.some.injEq] at h; subst h; exact h0

theorem resume_of_runUntilC_aux (G : Nat) : ∀ g, g ≤ G → ∀ (s s' : Sim) (T : Int), s.raised = none →
    runUntilC g s T = some s' → ∃ n, resume g n s T = some s' := by
  induction G with
  | zero =>
    intro g hg s s' T _ h
    have : g = 0 := by omega
    subst this; simp [runUntilC] at h
  | succ G ih =>
    intro g hg s s' T h0 h
    rcases runUntilC_split h0 h with ⟨hr, hn⟩ | ⟨s₁, g', hg', hr, hx, hc⟩
    · exact ⟨1, by simp [resume, hr, hn]⟩
    · obtain ⟨n, hn⟩ := ih g' (by omega) (caught s₁) s' T rfl hc
      exact ⟨n+1, by simp only [resume, hr, hx, if_true]; exact resume_fuel_le (Nat.le_of_lt hg') hn⟩

/-- **progress**: when the uninterrupted run terminates, so does the program that calls `run_until(T)` again after every
    exception — with the same fuel per call, after finitely many calls — and it ends in the same state -/
theorem resume_of_runUntilC {g : Nat} {s s' : Sim} {T : Int} (h0 : s.raised = none) (h : runUntilC g s T = some s') :
    ∃ n, resume g n s T = some s' := resume_of_runUntilC_aux g g (Nat.le_refl g) s s' T h0 h

theorem runPiecesC_inv {f : Nat} {s s₁ : Sim} {ps : List Piece} (hw : WF s) (h0 : s.raised = none)
    (h : runPiecesC f s ps = some s₁) : WF s₁ ∧ s₁.raised = none := by
  induction ps generalizing s with
  | nil => simp only [runPiecesC, Option.some.injEq] at h; subst h; exact ⟨hw, h0⟩
  | cons p ps ih =>
    simp only [runPiecesC] at h
    split at h
    · simp at h
    · rename_i sm hsm
      simp only [runPieceC, Option.map_eq_some_iff] at hsm
      obtain ⟨sr, hsr, rfl⟩ := hsm
      exact ih (caught_wf (runPiece_wf hw hsr)) rfl h

/-! ### after a normal return nothing at all is left that is due; what the trace of an aborted run ends with -/

/-- after a `run_until(T)` that returns normally EVERY entry left on the list — cancelled ones included — lies after `T`
    (the cancelled entries in front of the first live event beyond `T` were thrown away by the pop) -/
theorem runUntil_nothing_due {f : Nat} {s s' : Sim} {T : Int} (hw : WF s) (hr : runUntil f s T = some s')
    (hn : s'.raised = none) : ∀ y ∈ s'.pending, T < y.time := by
  induction f generalizing s with
  | zero => simp [runUntil] at hr
  | succ f ih =>
    cases hp : popLive s.pending with
    | none => rw [runUntil_none hp] at hr; simp only [Option.some.injEq] at hr; subst hr; simp
    | some p =>
      obtain ⟨e, rest⟩ := p
      obtain ⟨_, hlt, _⟩ := popLive_spec hw.sorted hp
      by_cases hT : e.time ≤ T
      · cases hxx : (exec (popped s e rest) e).raised.isSome with
        | true =>
          rw [runUntil_due_raised hp hT hxx] at hr
          simp only [Option.some.injEq] at hr; subst hr
          rw [hn] at hxx; simp at hxx
        | false =>
          rw [runUntil_due hp hT hxx] at hr
          exact ih (exec_wf (popped_wf hw hp) e) hr
      · rw [runUntil_late hp hT] at hr
        simp only [Option.some.injEq] at hr; subst hr
        intro y hy
        rcases mem_insert.mp hy with rfl | hy
        · show T < y.time; omega
        · have := Ev.time_le_of_lt (hlt y hy); show T < y.time; omega

/-- the trace of a run cut short by an exception `x` ends with the raising event: alive, executed at the clock the run stopped
    at, and it is THAT event's program (the step body for a step event) that contains the `raise x` -/
theorem runUntilT_aborted {f : Nat} {s s' : Sim} {T : Int} {tr : List (Ev × Nat)} {x : Exc} (h0 : s.raised = none)
    (h : runUntilT f s T = some (s', tr)) (hx : s'.raised = some x) :
    ∃ pre e n, tr = pre ++ [(e, n)] ∧ e.dead = false ∧ s'.now = e.time ∧
      ((e.isStep = true ∧ Cmd.raise x ∈ s.stepProg) ∨ (e.isStep = false ∧ Cmd.raise x ∈ s.prog e.act)) := by
  induction f generalizing s tr with
  | zero => simp [runUntilT] at h
  | succ f ih =>
    cases hp : popLive s.pending with
    | none =>
      rw [runUntilT_none hp] at h
      simp only [Option.some.injEq, Prod.mk.injEq] at h
      have : s'.raised = s.raised := by rw [← h.1]
      rw [this, h0] at hx; simp at hx
    | some p =>
      obtain ⟨e, rest⟩ := p
      by_cases hT : e.time ≤ T
      · have hp0 : (popped s e rest).raised = none := h0
        cases hxx : (exec (popped s e rest) e).raised.isSome with
        | true =>
          rw [runUntilT_due_raised hp hT hxx] at h
          simp only [Option.some.injEq, Prod.mk.injEq] at h
          obtain ⟨rfl, rfl⟩ := h
          obtain ⟨hd, hprog⟩ := exec_raised hp0 hx
          exact ⟨[], e, s.nextId, rfl, hd, by rw [exec_now]; rfl, hprog⟩
        | false =>
          rw [runUntilT_due hp hT hxx] at h
          cases h1 : runUntilT f (exec (popped s e rest) e) T with
          | none => simp [h1] at h
          | some q =>
            obtain ⟨s₁, tr1⟩ := q
            simp only [h1, Option.map_some, Option.some.injEq, Prod.mk.injEq] at h
            obtain ⟨rfl, rfl⟩ := h
            obtain ⟨pre, e', n, rfl, hd, hnow, hprog⟩ := ih (raised_none_of_isSome_false hxx) h1
            have hprogs := exec_progs (popped s e rest) e
            rw [hprogs.1, hprogs.2] at hprog
            exact ⟨(e, s.nextId) :: pre, e', n, rfl, hd, hnow, hprog⟩
      · rw [runUntilT_late hp hT] at h
        simp only [Option.some.injEq, Prod.mk.injEq] at h
        have : s'.raised = s.raised := by rw [← h.1]; rfl
        rw [this, h0] at hx; simp at hx

/-! ### progress for pieces: when the uninterrupted run to `T` terminates, so does every piece within `T`, and the rest of the
    uninterrupted run after it (same fuel) -/

theorem runUntilC_piece {g : Nat} {s s₂ : Sim} {t T : Int} (ht : t ≤ T) (hw : WF s) (h0 : s.raised = none)
    (h : runUntilC g s T = some s₂) : ∃ s₁, runUntil g s t = some s₁ ∧ runUntilC g (caught s₁) T = some s₂ := by
  induction g generalizing s with
  | zero => simp [runUntilC] at h
  | succ g ih =>
    cases hp : popLive s.pending with
    | none =>
      rw [runUntilC_none hp] at h
      refine ⟨_, runUntil_none hp, ?_⟩
      rw [runUntilC_none (by rfl), ← h]
      simp only [caught, skipped, List.takeWhile_nil, List.map_nil, List.append_nil, h0]
    | some p =>
      obtain ⟨e, rest⟩ := p
      obtain ⟨hlive, hlt, hsr⟩ := popLive_spec hw.sorted hp
      by_cases hT : e.time ≤ t
      · have hT2 : e.time ≤ T := Int.le_trans hT ht
        rw [runUntilC_due hp hT2] at h
        cases hxx : (exec (popped s e rest) e).raised.isSome with
        | true => exact ⟨_, runUntil_due_raised hp hT hxx, runUntilC_fuel_succ h⟩
        | false =>
          have hcalm := raised_none_of_isSome_false hxx
          rw [caught_of_calm hcalm] at h
          obtain ⟨s₁, h1, h2⟩ := ih (exec_wf (popped_wf hw hp) e) hcalm h
          exact ⟨s₁, by rw [runUntil_due hp hT hxx]; exact h1, runUntilC_fuel_succ h2⟩
      · refine ⟨_, runUntil_late hp hT, ?_⟩
        have hpl : popLive (caught { popped s e rest with now := t, pending := insert e rest }).pending = some (e, rest) := by
          show popLive (insert e rest) = some (e, rest)
          rw [insert_of_all_lt e rest hlt, popLive_cons_live e rest hlive]
        have hsk : skipped (insert e rest) = [] := by
          rw [insert_of_all_lt e rest hlt]; exact skipped_cons_live hlive
        by_cases hT2 : e.time ≤ T
        · rw [runUntilC_due hp hT2] at h
          rw [runUntilC_due hpl hT2, ← h]
          simp only [popped, caught, hsk, List.map_nil, List.append_nil, h0]
        · rw [runUntilC_late hp hT2] at h
          rw [runUntilC_late hpl hT2, ← h]
          simp only [popped, caught, hsk, List.map_nil, List.append_nil, h0]

theorem runUntilC_next_piece {g : Nat} {s s₂ : Sim} {T : Int} (h0 : s.raised = none)
    (hT : ∀ e rest, popLive s.pending = some (e, rest) → e.time ≤ T)
    (h : runUntilC g s T = some s₂) : runUntilC g (caught (runNext s)) T = some s₂ := by
  cases g with
  | zero => simp [runUntilC] at h
  | succ g =>
    cases hp : popLive s.pending with
    | none =>
      rw [runUntilC_none hp] at h
      have hrn : runNext s = { s with pending := [], gone := s.gone ++ (skipped s.pending).map (·.id) } := by
        simp only [runNext, hp]
      rw [hrn, runUntilC_none (by rfl), ← h]
      simp only [caught, skipped, List.takeWhile_nil, List.map_nil, List.append_nil, h0]
    | some p =>
      obtain ⟨e, rest⟩ := p
      rw [runUntilC_due hp (hT e rest hp)] at h
      have hrn : runNext s = exec (popped s e rest) e := by simp only [runNext, hp, popped]
      rw [hrn]
      exact runUntilC_fuel_succ h

/-- **progress for pieces**: if the uninterrupted run to `T` terminates with fuel `g`, then every list of pieces within `T`
    (exceptions caught in between) terminates with that fuel, and the uninterrupted run from where the pieces end reaches the
    same final state -/
theorem pieces_of_runUntilC {g : Nat} {s s₂ : Sim} {T : Int} {ps : List Piece} (hw : WF s) (h0 : s.raised = none)
    (hin : piecesWithinC g T s ps) (h : runUntilC g s T = some s₂) :
    ∃ s₁, runPiecesC g s ps = some s₁ ∧ runUntilC g s₁ T = some s₂ := by
  induction ps generalizing s with
  | nil => exact ⟨s, rfl, h⟩
  | cons p ps ih =>
    obtain ⟨hp, hrest⟩ := hin
    have key : ∃ sm, runPieceC g s p = some sm ∧ WF sm ∧ sm.raised = none ∧ runUntilC g sm T = some s₂ := by
      cases p with
      | «until» t =>
        obtain ⟨s₁, h1, h2⟩ := runUntilC_piece hp hw h0 h
        exact ⟨caught s₁, by simp [runPieceC, runPiece, h1], caught_wf (runUntil_wf hw h1), rfl, h2⟩
      | «for» d =>
        obtain ⟨s₁, h1, h2⟩ := runUntilC_piece hp hw h0 h
        exact ⟨caught s₁, by simp [runPieceC, runPiece, runFor, h1], caught_wf (runUntil_wf hw h1), rfl, h2⟩
      | next =>
        exact ⟨caught (runNext s), by simp [runPieceC, runPiece], caught_wf (runNext_wf hw), rfl, runUntilC_next_piece h0 hp h⟩
    obtain ⟨sm, hsm, hwm, hcm, hum⟩ := key
    obtain ⟨s₁, h1, h2⟩ := ih hwm hcm (hrest sm hsm) hum
    exact ⟨s₁, by simp only [runPiecesC, hsm]; exact h1, h2⟩

end Mesa.Devs
