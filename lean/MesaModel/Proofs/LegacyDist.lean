import MesaModel.Proofs.Legacy
import MesaModel.Proofs.LegacyOrth
/-! "In range" as a distance bound: Chebyshev / Manhattan distance, taken modulo the sizes on a torus. -/
namespace Mesa.Legacy

open Grid

theorem inRange_bounded (d : Dim) (hnt : d.torus = false) (pos : Coord) (moore : Bool) (r : Nat) (c : Coord) :
    InRange d pos moore r c ↔
      iabs (c.1 - pos.1) ≤ r ∧ iabs (c.2 - pos.2) ≤ r ∧ (moore = true ∨ iabs (c.1 - pos.1) + iabs (c.2 - pos.2) ≤ r) := by
  unfold InRange Dim.wrapIf
  simp only [hnt, Bool.false_eq_true, if_false]
  constructor
  · rintro ⟨dx, dy, h1, h2, h3, rfl⟩
    have e1 : pos.1 + dx - pos.1 = dx := by omega
    have e2 : pos.2 + dy - pos.2 = dy := by omega
    simp only [e1, e2]
    exact ⟨h1, h2, h3⟩
  · rintro ⟨h1, h2, h3⟩
    refine ⟨c.1 - pos.1, c.2 - pos.2, h1, h2, h3, ?_⟩
    apply Prod.ext <;> simp <;> omega

theorem axis_torus (w x cx : Int) (hc0 : 0 ≤ cx) (hc1 : cx < w) (m : Int) (hm : IsTorusDist w cx x m) (b : Int) :
    (∃ dx, iabs dx ≤ b ∧ cx = (x + dx) % w) ↔ m ≤ b := by
  constructor
  · rintro ⟨dx, hdx, hcx⟩
    have hdef : (x + dx) % w = x + dx - ((x + dx) / w) * w := by rw [Int.emod_def, Int.mul_comm]
    have := hm.2 ((x + dx) / w)
    have e : cx - x + (x + dx) / w * w = dx := by rw [hcx, hdef]; omega
    rw [e] at this
    omega
  · intro hmb
    obtain ⟨⟨k, hk⟩, _⟩ := hm
    refine ⟨cx - x + k * w, by omega, ?_⟩
    have e : x + (cx - x + k * w) = cx + k * w := by omega
    rw [e, Int.add_mul_emod_self_right, Int.emod_eq_of_lt hc0 hc1]

/-- on a torus: in range iff the per-axis torus distances are bounded (Chebyshev) / their sum is (Manhattan) -/
theorem inRange_torus (d : Dim) (ht : d.torus = true) (pos : Coord) (moore : Bool) (r : Nat)
    (c : Coord) (hc : d.inGrid c) (mx my : Int) (hx : IsTorusDist d.w c.1 pos.1 mx) (hy : IsTorusDist d.h c.2 pos.2 my) :
    InRange d pos moore r c ↔ mx ≤ r ∧ my ≤ r ∧ (moore = true ∨ mx + my ≤ r) := by
  obtain ⟨hc1, hc2, hc3, hc4⟩ := hc
  unfold InRange Dim.wrapIf
  simp only [ht, if_true]
  constructor
  · rintro ⟨dx, dy, h1, h2, h3, he⟩
    have ex : c.1 = (pos.1 + dx) % d.w := congrArg Prod.fst he
    have ey : c.2 = (pos.2 + dy) % d.h := congrArg Prod.snd he
    have bx := (axis_torus d.w pos.1 c.1 hc1 hc2 mx hx (iabs dx)).mp ⟨dx, Int.le_refl _, ex⟩
    have by' := (axis_torus d.h pos.2 c.2 hc3 hc4 my hy (iabs dy)).mp ⟨dy, Int.le_refl _, ey⟩
    refine ⟨by omega, by omega, ?_⟩
    rcases h3 with h3 | h3
    · exact Or.inl h3
    · exact Or.inr (by omega)
  · rintro ⟨h1, h2, h3⟩
    obtain ⟨dx, hdx, ex⟩ := (axis_torus d.w pos.1 c.1 hc1 hc2 mx hx mx).mpr (Int.le_refl _)
    obtain ⟨dy, hdy, ey⟩ := (axis_torus d.h pos.2 c.2 hc3 hc4 my hy my).mpr (Int.le_refl _)
    refine ⟨dx, dy, by omega, by omega, ?_, Prod.ext ex ey⟩
    rcases h3 with h3 | h3
    · exact Or.inl h3
    · exact Or.inr (by omega)

end Mesa.Legacy
