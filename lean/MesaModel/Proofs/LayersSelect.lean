import MesaModel.Model.Layers
/-!
Helper lemmas for C11: the coordinate list, `extremum`, and the stages of the `select_cells` pipeline.
-/
namespace Mesa.Layers

/-! ### `cells` enumerates exactly the in-bounds coordinates -/

theorem mem_cells {dims : List Nat} {c : Coord} : c ∈ cells dims ↔ inBounds dims c = true := by
  induction dims generalizing c with
  | nil => cases c <;> simp [cells, inBounds]
  | cons d ds ih =>
    cases c with
    | nil => simp [cells, inBounds]
    | cons i c' =>
      simp only [cells, List.mem_flatMap, List.mem_range, List.mem_map, inBounds, Bool.and_eq_true,
        decide_eq_true_eq]
      constructor
      · rintro ⟨j, hj, x, hx, hxe⟩
        injection hxe with h1 h2
        subst h1; subst h2
        exact ⟨hj, ih.mp hx⟩
      · rintro ⟨hi, hc⟩
        exact ⟨i, hi, c', ih.mpr hc, rfl⟩

theorem cells_nodup (dims : List Nat) : (cells dims).Nodup := by
  induction dims with
  | nil => simp [cells]
  | cons d ds ih =>
    simp only [cells, List.Nodup]
    rw [List.pairwise_flatMap]
    refine ⟨?_, ?_⟩
    · intro i _
      rw [List.pairwise_map]
      exact List.Pairwise.imp (fun hab h => hab (by injection h)) ih
    · refine List.Pairwise.imp ?_ (List.nodup_range (n := d))
      intro i j hij x hx y hy hxy
      obtain ⟨a, _, rfl⟩ := List.mem_map.mp hx
      obtain ⟨b, _, rfl⟩ := List.mem_map.mp hy
      injection hxy with h1 _
      exact hij h1

/-- the list form is exactly the coordinates at which the mask form is true -/
theorem filter_eq_of_zip_map {α : Type} (l : List α) (m : α → Bool) :
    l.filter m = ((l.zip (l.map m)).filter (·.2)).map (·.1) := by
  induction l with
  | nil => rfl
  | cons x xs ih =>
    cases h : m x <;> simp [List.filter, h, ih]

/-- `np.sum` as the code's left fold -/
theorem foldl_add_eq_sum (l : List Int) (a : Int) : l.foldl (· + ·) a = a + l.sum := by
  induction l generalizing a with
  | nil => simp
  | cons x xs ih => simp [List.foldl, ih]; omega

/-! ### `extremum` -/

theorem extremum_eq_none {hi : Bool} {l : List Int} : extremum hi l = none ↔ l = [] := by
  cases l with
  | nil => simp [extremum]
  | cons x xs =>
    simp only [extremum]
    cases extremum hi xs <;> simp

theorem extremum_mem {hi : Bool} {l : List Int} {t : Int} (h : extremum hi l = some t) : t ∈ l := by
  induction l generalizing t with
  | nil => simp [extremum] at h
  | cons x xs ih =>
    simp only [extremum] at h
    cases hx : extremum hi xs with
    | none => rw [hx] at h; simp at h; simp [h]
    | some y =>
      rw [hx] at h
      simp only [Option.some.injEq] at h
      have := ih hx
      cases hi <;> simp only [Bool.false_eq_true, if_true, if_false] at h <;> split at h <;> subst h <;> simp [this]

/-- `cmp hi x t`: `x` does not beat the extreme value `t` -/
def notBeyond (hi : Bool) (x t : Int) : Prop := if hi then x ≤ t else t ≤ x

theorem extremum_bound {hi : Bool} {l : List Int} {t : Int} (h : extremum hi l = some t) :
    ∀ x ∈ l, notBeyond hi x t := by
  induction l generalizing t with
  | nil => simp
  | cons x xs ih =>
    simp only [extremum] at h
    cases hx : extremum hi xs with
    | none =>
      rw [hx] at h
      simp only [Option.some.injEq] at h
      subst h
      have : xs = [] := extremum_eq_none.mp hx
      subst this
      intro y hy
      simp at hy
      subst hy
      unfold notBeyond
      split <;> omega
    | some y =>
      rw [hx] at h
      simp only [Option.some.injEq] at h
      have hb := ih hx
      intro z hz
      rcases List.mem_cons.mp hz with rfl | hz
      · unfold notBeyond
        cases hi <;> simp only [Bool.false_eq_true, if_true, if_false] at h ⊢ <;> split at h <;> omega
      · have := hb z hz
        unfold notBeyond at this ⊢
        cases hi <;> simp only [Bool.false_eq_true, if_true, if_false] at h this ⊢ <;> split at h <;> omega

/-! ### the stages of `select_cells` -/

theorem applyMasks_spec (ks : List (Coord → Bool)) (m : Coord → Bool) (c : Coord) :
    applyMasks ks m c = true ↔ m c = true ∧ ∀ k ∈ ks, k c = true := by
  induction ks generalizing m with
  | nil => simp [applyMasks]
  | cons k ks ih =>
    simp only [applyMasks, ih, Bool.and_eq_true, List.mem_cons, forall_eq_or_imp]
    constructor
    · rintro ⟨⟨h1, h2⟩, h3⟩; exact ⟨h1, h2, h3⟩
    · rintro ⟨h1, h2, h3⟩; exact ⟨⟨h1, h2⟩, h3⟩

theorem applyConds_spec (s : State) (conds : List (String × (Int → Bool))) (m m' : Coord → Bool)
    (h : applyConds s conds m = .ok m') (c : Coord) :
    m' c = true ↔ m c = true ∧ ∀ np ∈ conds, ∃ a, s.namedArr? np.1 = some a ∧ np.2 (a c) = true := by
  induction conds generalizing m with
  | nil =>
    simp only [applyConds, Except.ok.injEq] at h
    subst h; simp
  | cons np rest ih =>
    obtain ⟨n, p⟩ := np
    simp only [applyConds] at h
    cases ha : s.namedArr? n with
    | none => rw [ha] at h; simp at h
    | some a =>
      rw [ha] at h
      simp only at h
      rw [ih _ h]
      simp only [Bool.and_eq_true, List.mem_cons, forall_eq_or_imp, ha, Option.some.injEq, exists_eq_left']
      constructor
      · rintro ⟨⟨h1, h2⟩, h3⟩; exact ⟨h1, h2, h3⟩
      · rintro ⟨h1, h2, h3⟩; exact ⟨⟨h1, h2⟩, h3⟩

/-- Specification of the `extreme_values` stage, independent of how the code computes it:
    `c` satisfies the incoming predicate `P`, and for each entry in turn its property value is
    extreme (`highest`: no selected cell of the grid has a larger one) among the cells of the grid
    that satisfy `P` and the entries before it. -/
def ExtSpec (s : State) : List (String × Option Bool) → (Coord → Prop) → Coord → Prop
  | [], P, c => P c
  | (n, mode) :: rest, P, c =>
    ∃ a hi, s.namedArr? n = some a ∧ mode = some hi ∧
      ExtSpec s rest (fun c => P c ∧ ∀ c' ∈ cells s.dims, P c' → notBeyond hi (a c') (a c)) c

theorem ExtSpec_base {s : State} {exts : List (String × Option Bool)} {P : Coord → Prop} {c : Coord}
    (h : ExtSpec s exts P c) : P c := by
  induction exts generalizing P with
  | nil => exact h
  | cons e rest ih =>
    obtain ⟨n, mode⟩ := e
    obtain ⟨a, hi, _, _, h⟩ := h
    exact (ih h).1

theorem ExtSpec_congr {s : State} {exts : List (String × Option Bool)} {P Q : Coord → Prop}
    (hPQ : ∀ c ∈ cells s.dims, P c ↔ Q c) {c : Coord} (hc : c ∈ cells s.dims) :
    ExtSpec s exts P c ↔ ExtSpec s exts Q c := by
  induction exts generalizing P Q with
  | nil => exact hPQ c hc
  | cons e rest ih =>
    obtain ⟨n, mode⟩ := e
    simp only [ExtSpec]
    have key : ∀ (a : Arr) (hi : Bool), ∀ c ∈ cells s.dims,
        (P c ∧ ∀ c' ∈ cells s.dims, P c' → notBeyond hi (a c') (a c)) ↔
        (Q c ∧ ∀ c' ∈ cells s.dims, Q c' → notBeyond hi (a c') (a c)) := by
      intro a hi c hc
      constructor
      · rintro ⟨h1, h2⟩
        exact ⟨(hPQ c hc).mp h1, fun c' hc' hq => h2 c' hc' ((hPQ c' hc').mpr hq)⟩
      · rintro ⟨h1, h2⟩
        exact ⟨(hPQ c hc).mpr h1, fun c' hc' hp => h2 c' hc' ((hPQ c' hc').mp hp)⟩
    constructor
    · rintro ⟨a, hi, h1, h2, h3⟩
      exact ⟨a, hi, h1, h2, (ih (key a hi)).mp h3⟩
    · rintro ⟨a, hi, h1, h2, h3⟩
      exact ⟨a, hi, h1, h2, (ih (key a hi)).mpr h3⟩

theorem applyExtremes_spec (s : State) (exts : List (String × Option Bool)) (m m' : Coord → Bool)
    (h : applyExtremes s exts m = .ok m') (c : Coord) (hc : c ∈ cells s.dims) :
    m' c = true ↔ ExtSpec s exts (fun c => m c = true) c := by
  induction exts generalizing m with
  | nil =>
    simp only [applyExtremes, Except.ok.injEq] at h
    subst h; simp [ExtSpec]
  | cons e rest ih =>
    obtain ⟨n, mode⟩ := e
    simp only [applyExtremes] at h
    cases ha : s.namedArr? n with
    | none => rw [ha] at h; simp at h
    | some a =>
      rw [ha] at h
      cases mode with
      | none => simp at h
      | some hi =>
        simp only at h
        simp only [ExtSpec, ha, Option.some.injEq, exists_and_left, exists_eq_left']
        cases hx : extremum hi (((cells s.dims).filter m).map a) with
        | none =>
          rw [hx] at h
          simp only at h
          rw [ih _ h]
          have hnil : (cells s.dims).filter m = [] := by
            simpa using extremum_eq_none.mp hx
          constructor
          · intro hh
            have := ExtSpec_base hh
            simp at this
          · intro hh
            have := (ExtSpec_base hh).1
            have hmem : c ∈ (cells s.dims).filter m := List.mem_filter.mpr ⟨hc, this⟩
            rw [hnil] at hmem
            simp at hmem
        | some t =>
          rw [hx] at h
          simp only at h
          rw [ih _ h]
          have key : ∀ c ∈ cells s.dims,
              ((m c && a c == t) = true) ↔
              (m c = true ∧ ∀ c' ∈ cells s.dims, m c' = true → notBeyond hi (a c') (a c)) := by
            intro c hc
            have hb := extremum_bound hx
            have hm := extremum_mem hx
            simp only [Bool.and_eq_true, beq_iff_eq]
            constructor
            · rintro ⟨h1, h2⟩
              refine ⟨h1, fun c' hc' hm' => ?_⟩
              rw [h2]
              exact hb _ (List.mem_map.mpr ⟨c', List.mem_filter.mpr ⟨hc', hm'⟩, rfl⟩)
            · rintro ⟨h1, h2⟩
              refine ⟨h1, ?_⟩
              obtain ⟨c0, hc0, hc0t⟩ := List.mem_map.mp hm
              obtain ⟨hc0c, hc0m⟩ := List.mem_filter.mp hc0
              have h3 := h2 c0 hc0c hc0m
              have h4 := hb (a c) (List.mem_map.mpr ⟨c, List.mem_filter.mpr ⟨hc, h1⟩, rfl⟩)
              rw [hc0t] at h3
              unfold notBeyond at h3 h4
              cases hi <;> simp only [Bool.false_eq_true, if_true, if_false] at h3 h4 <;> omega
          exact ExtSpec_congr key hc

end Mesa.Layers
