import MesaModel.Base.ListOps
/-! Lemmas about the ordered-dict / ordered-set list functions of `Base/ListOps.lean`. -/
namespace Mesa

theorem snoc_induction {α} {P : List α → Prop} (nil : P [])
    (snoc : ∀ l a, P l → P (l ++ [a])) : ∀ l, P l := by
  have h : ∀ (l pre : List α), P pre → P (pre ++ l) := by
    intro l
    induction l with
    | nil => intro pre hp; simpa using hp
    | cons a l ih =>
      intro pre hp
      have := ih (pre ++ [a]) (snoc pre a hp)
      simpa using this
  intro l
  simpa using h l [] nil

/-- a duplicate-free list splits at an element in one way only -/
theorem nodup_split_unique {α} {a : α} {pre post pre' post' : List α} (hn : (pre ++ a :: post).Nodup)
    (h : pre ++ a :: post = pre' ++ a :: post') : pre' = pre := by
  induction pre generalizing pre' with
  | nil =>
    cases pre' with
    | nil => rfl
    | cons x p =>
      simp only [List.nil_append, List.cons_append, List.cons.injEq] at h
      obtain ⟨rfl, h⟩ := h
      simp only [List.nil_append, List.nodup_cons] at hn
      exact absurd (by rw [h]; simp) hn.1
  | cons x p ih =>
    cases pre' with
    | nil =>
      simp only [List.nil_append, List.cons_append, List.cons.injEq] at h
      obtain ⟨rfl, h⟩ := h
      simp only [List.cons_append, List.nodup_cons] at hn
      exact absurd (by simp) hn.1
    | cons y p' =>
      simp only [List.cons_append, List.cons.injEq] at h
      obtain ⟨rfl, h⟩ := h
      simp only [List.cons_append, List.nodup_cons] at hn
      rw [ih hn.2 h]

section addKey
variable {α : Type} [DecidableEq α]

theorem addKey_of_mem {l : List α} {a : α} (h : a ∈ l) : addKey l a = l := by simp [addKey, h]
theorem addKey_of_not_mem {l : List α} {a : α} (h : a ∉ l) : addKey l a = l ++ [a] := by simp [addKey, h]

theorem mem_addKey {l : List α} {a x : α} : x ∈ addKey l a ↔ x ∈ l ∨ x = a := by
  unfold addKey
  split
  · constructor
    · exact Or.inl
    · rintro (h | rfl) <;> assumption
  · simp

theorem nodup_addKey {l : List α} {a : α} (h : l.Nodup) : (addKey l a).Nodup := by
  unfold addKey
  split
  · exact h
  · rename_i hn
    rw [List.nodup_append]
    refine ⟨h, by simp, ?_⟩
    intro x hx y hy
    simp at hy; subst hy
    intro heq; subst heq; exact hn hx

theorem foldl_addKey_nodup (acc l : List α) (h : acc.Nodup) : (l.foldl addKey acc).Nodup := by
  induction l generalizing acc with
  | nil => exact h
  | cons a l ih => exact ih _ (nodup_addKey h)

theorem mem_foldl_addKey (acc l : List α) (x : α) : x ∈ l.foldl addKey acc ↔ x ∈ acc ∨ x ∈ l := by
  induction l generalizing acc with
  | nil => simp
  | cons a l ih =>
    simp only [List.foldl_cons, ih, mem_addKey, List.mem_cons]
    constructor
    · rintro ((h | h) | h)
      · exact Or.inl h
      · exact Or.inr (Or.inl h)
      · exact Or.inr (Or.inr h)
    · rintro (h | h | h)
      · exact Or.inl (Or.inl h)
      · exact Or.inl (Or.inr h)
      · exact Or.inr h

theorem nodup_dedup (l : List α) : (dedup l).Nodup := foldl_addKey_nodup [] l List.nodup_nil
theorem mem_dedup {l : List α} {x : α} : x ∈ dedup l ↔ x ∈ l := by simp [dedup, mem_foldl_addKey]

theorem dedup_append_singleton (l : List α) (a : α) : dedup (l ++ [a]) = addKey (dedup l) a := by
  simp [dedup, List.foldl_append]

theorem foldl_addKey_of_nodup (acc l : List α) (h : (acc ++ l).Nodup) : l.foldl addKey acc = acc ++ l := by
  induction l generalizing acc with
  | nil => simp
  | cons a l ih =>
    have hn : a ∉ acc := by
      rw [List.nodup_append] at h
      intro ha
      exact h.2.2 a ha a (List.mem_cons_self) rfl
    simp only [List.foldl_cons, addKey_of_not_mem hn]
    have : (acc ++ [a] ++ l).Nodup := by simpa using h
    rw [ih _ this]; simp

/-- a list without duplicates is its own ordered set -/
theorem dedup_of_nodup {l : List α} (h : l.Nodup) : dedup l = l := by
  have := foldl_addKey_of_nodup [] l (by simpa using h)
  simpa [dedup] using this

end addKey

section groupBy
variable {κ α : Type} [DecidableEq κ]

theorem groupBy_append_singleton (key : α → κ) (l : List α) (a : α) :
    groupBy key (l ++ [a]) = groupInsert (groupBy key l) (key a) a := by
  simp [groupBy, List.foldl_append]

/-- inserting into the dict of groups, seen through "key ↦ members with that key" -/
theorem groupInsert_map (key : α → κ) (l : List α) (a : α) (D : List κ) (hD : D.Nodup)
    (hnew : key a ∉ D → l.filter (fun x => key x = key a) = []) :
    groupInsert (D.map fun k => (k, l.filter (fun x => key x = k))) (key a) a
      = (addKey D (key a)).map fun k => (k, (l ++ [a]).filter (fun x => key x = k)) := by
  induction D with
  | nil =>
    have := hnew (by simp)
    simp [groupInsert, addKey, List.filter_append, this]
  | cons k D ih =>
    have hk : k ∉ D := (List.nodup_cons.mp hD).1
    have hD' : D.Nodup := (List.nodup_cons.mp hD).2
    by_cases hka : k = key a
    · subst hka
      have hsame : ∀ k' ∈ D, (l ++ [a]).filter (fun x => key x = k') = l.filter (fun x => key x = k') := by
        intro k' hk'
        have : key a ≠ k' := by intro h; rw [h] at hk; exact hk hk'
        simp [List.filter_append, this]
      simp only [List.map_cons, groupInsert, if_true, addKey_of_mem (List.mem_cons_self)]
      congr 1
      · simp [List.filter_append]
      · apply List.map_congr_left
        intro k' hk'
        rw [hsame k' hk']
    · have hne : key a ≠ k := fun h => hka h.symm
      have ih' := ih hD' (fun hn => hnew (by
        intro hmem
        rcases List.mem_cons.mp hmem with h | h
        · exact hne h
        · exact hn h))
      simp only [List.map_cons, groupInsert, if_neg hka]
      rw [ih']
      by_cases hmem : key a ∈ D
      · rw [addKey_of_mem hmem, addKey_of_mem (List.mem_cons_of_mem _ hmem)]
        simp [List.filter_append, hne]
      · have hmem' : key a ∉ k :: D := by
          intro h; rcases List.mem_cons.mp h with h | h
          · exact hne h
          · exact hmem h
        rw [addKey_of_not_mem hmem, addKey_of_not_mem hmem']
        simp [List.filter_append, hne]

/-- `groupby`: the keys are the distinct key values in first-occurrence order, and the group of
    each key is exactly the members with that key, in order -/
theorem groupBy_eq (key : α → κ) (l : List α) :
    groupBy key l = (dedup (l.map key)).map fun k => (k, l.filter (fun x => key x = k)) := by
  induction l using snoc_induction with
  | nil => simp [groupBy, dedup]
  | snoc l a ih =>
    rw [groupBy_append_singleton, ih, List.map_append, List.map_singleton, dedup_append_singleton]
    apply groupInsert_map key l a _ (nodup_dedup _)
    intro hn
    rw [mem_dedup] at hn
    rw [List.filter_eq_nil_iff]
    intro x hx hkx
    apply hn
    simp at hkx
    exact List.mem_map.mpr ⟨x, hx, hkx⟩

theorem flatten_groupInsert_perm (gs : List (κ × List α)) (k : κ) (a : α) :
    ((groupInsert gs k a).map (·.2)).flatten.Perm ((gs.map (·.2)).flatten ++ [a]) := by
  induction gs with
  | nil => simp [groupInsert]
  | cons g gs ih =>
    obtain ⟨k', g'⟩ := g
    unfold groupInsert
    split
    · simp only [List.map_cons, List.flatten_cons, List.append_assoc]
      exact List.Perm.append_left _ List.perm_append_comm
    · simp only [List.map_cons, List.flatten_cons, List.append_assoc]
      exact List.Perm.append_left _ ih

/-- the groups partition the members: concatenated they are a permutation of the list -/
theorem groupBy_flatten_perm (key : α → κ) (l : List α) :
    ((groupBy key l).map (·.2)).flatten.Perm l := by
  induction l using snoc_induction with
  | nil => simp [groupBy]
  | snoc l a ih =>
    rw [groupBy_append_singleton]
    exact (flatten_groupInsert_perm _ _ _).trans (List.Perm.append_right _ ih)

end groupBy
end Mesa

namespace Mesa

section dedupFirst
variable {α : Type} [DecidableEq α]

theorem foldl_addKey_eq (l acc : List α) :
    l.foldl addKey acc = acc ++ dedup (l.filter (fun x => decide (x ∉ acc))) := by
  generalize hn : l.length = n
  induction n using Nat.strongRecOn generalizing l acc with
  | _ n ih =>
    cases l with
    | nil => simp [dedup]
    | cons x l =>
      subst hn
      by_cases hx : x ∈ acc
      · rw [List.foldl_cons, addKey_of_mem hx, ih l.length (by simp) l acc rfl]
        simp [hx]
      · rw [List.foldl_cons, addKey_of_not_mem hx, ih l.length (by simp) l (acc ++ [x]) rfl]
        simp only [List.filter_cons, hx, not_false_eq_true, decide_true, if_true]
        have h1 : dedup (x :: l.filter (fun y => decide (y ∉ acc))) =
            [x] ++ dedup ((l.filter (fun y => decide (y ∉ acc))).filter (fun y => decide (y ∉ [x]))) := by
          show (x :: l.filter (fun y => decide (y ∉ acc))).foldl addKey [] = _
          rw [List.foldl_cons]
          have : addKey ([] : List α) x = [x] := by simp [addKey]
          rw [this]
          exact ih _ (Nat.lt_succ_of_le (List.length_filter_le _ _)) _ [x] rfl
        rw [h1, List.filter_filter, List.append_assoc]
        have hf : l.filter (fun y => decide (y ∉ acc ++ [x])) = l.filter (fun a => decide (a ∉ [x]) && decide (a ∉ acc)) := by
          apply List.filter_congr
          intro y _
          by_cases h1 : y ∈ acc <;> by_cases h2 : y = x <;> simp [h1, h2]
        rw [hf]

/-- the constructor's de-duplication keeps the **first** occurrence of every agent, in order:
    the head stays, later copies of it are dropped, and so on — `List.eraseDups` -/
theorem dedup_cons (a : α) (l : List α) : dedup (a :: l) = a :: dedup (l.filter (fun b => !b == a)) := by
  show (a :: l).foldl addKey [] = _
  rw [List.foldl_cons]
  have : addKey ([] : List α) a = [a] := by simp [addKey]
  rw [this, foldl_addKey_eq]
  simp only [List.singleton_append, List.cons.injEq, true_and]
  congr 1
  apply List.filter_congr
  intro y _
  by_cases hy : y = a <;> simp [hy]

theorem dedup_eq_eraseDups (l : List α) : dedup l = l.eraseDups := by
  generalize hn : l.length = n
  induction n using Nat.strongRecOn generalizing l with
  | _ n ih =>
    cases l with
    | nil => simp [dedup]
    | cons a l =>
      rw [dedup_cons, List.eraseDups_cons]
      congr 1
      apply ih (l.filter (fun b => !b == a)).length _ _ rfl
      subst hn
      exact Nat.lt_succ_of_le (List.length_filter_le _ _)

end dedupFirst

end Mesa
