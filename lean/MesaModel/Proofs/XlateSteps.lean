import MesaModel.Gen.FnSteps
import MesaModel.Model.StepCounter
/-!
Equivalence of the definition GENERATED from mesa/model.py (`Gen/FnSteps.lean`, rewritten by `harness/py2lean.py` on every
check) with the hand-written model `Model/StepCounter.lean` (C05).  The generated `wrapped_step` returns the list of calls
`self._user_step(*args, **kwargs)` it makes — (value of `self.steps` at the call, args, kwargs) — and the counter afterwards.
-/
namespace Mesa.Steps

/-- what the effect list of the generated `_wrapped_step` means IN THE MODEL: every recorded call
    `self._user_step(*a, **kw)`, made with the counter at `c`, runs the override chain of the instance with exactly these
    positional arguments and this counter value (`runChain`); a call that raised (`false`) ends the list.  The model's
    user steps take no keyword arguments, so `kw` is not interpreted (the equivalence is stated for `kw = []`). -/
def interpCalls (h : Hier) (es : List (Int × List Int × List (Int × Int))) : List Entry × Bool :=
  es.foldl (fun acc e => if acc.2 then (acc.1 ++ (runChain h 0 e.2.1 e.1.toNat).1, (runChain h 0 e.2.1 e.1.toNat).2) else acc)
    ([], true)

/-- `Model._wrapped_step` as generated = the model's `callStep`: interpreting the calls the generated text makes (counter
    value AND forwarded `*args`, both taken from the generated term) in the model gives exactly what `callStep` records and
    returns, and the counter afterwards is `callStep`'s. -/
theorem C05_gen_wrapped_step_eq_model (i : Inst) (args : List Int) :
    interpCalls i.hier (GenFn.wrapped_step ⟨(i.steps : Int)⟩ args []).1 = (callStep i args).2 ∧
    (GenFn.wrapped_step ⟨(i.steps : Int)⟩ args []).2 = (((callStep i args).1.steps : Nat) : Int) := by
  have h : GenFn.wrapped_step ⟨(i.steps : Int)⟩ args [] = ([((i.steps : Int) + 1, args, [])], (i.steps : Int) + 1) := by
    simp only [GenFn.wrapped_step]
    first
      | (simp; done)
      | (simp <;> omega)
  have ht : ((i.steps : Int) + 1).toNat = i.steps + 1 := by omega
  rw [h]
  refine ⟨?_, ?_⟩
  · simp [interpCalls, callStep, ht]
  · simp [callStep]

/-- C05 about the code-derived text: one call of the generated `_wrapped_step` calls the user's step exactly once, with the
    counter already advanced by exactly one, hands it exactly its own positional and keyword arguments, and leaves the
    counter at that value. -/
theorem C05_increment_before_user_code_generated (s : Int) (args : List Int) (kw : List (Int × Int)) :
    GenFn.wrapped_step ⟨s⟩ args kw = ([(s + 1, args, kw)], s + 1) := by
  simp only [GenFn.wrapped_step]
  first
    | (simp; done)
    | (simp <;> omega)
