import MesaModel.Gen.FnSteps
import MesaModel.Model.StepCounter
/-!
Equivalence of the definition GENERATED from mesa/model.py (`Gen/FnSteps.lean`, rewritten by `harness/py2lean.py` on every
check) with the hand-written model `Model/StepCounter.lean` (C05).  The generated `wrapped_step` returns the list of values
of `self.steps` the user's step was called with (one call: `self._user_step(*args, **kwargs)`) and the counter afterwards.
-/
namespace Mesa.Steps

/-- `Model._wrapped_step` as generated = the model's `callStep`: the counter afterwards is `callStep`'s, and the user's step
    (the override chain `runChain`) runs once, with the counter value the generated code calls it with. -/
theorem C05_gen_wrapped_step_eq_model (i : Inst) (args : List Int) :
    GenFn.wrapped_step ⟨(i.steps : Int)⟩ = ([((i.steps + 1 : Nat) : Int)], (((callStep i args).1.steps : Nat) : Int)) ∧
    (callStep i args).2 = runChain i.hier 0 args (i.steps + 1) := by
  refine ⟨?_, rfl⟩
  simp only [GenFn.wrapped_step, callStep]
  first
    | (simp; done)
    | (simp <;> omega)

/-- C05 about the code-derived text: one call of the generated `_wrapped_step` calls the user's step exactly once, with the
    counter already advanced by exactly one, and leaves the counter at that value. -/
theorem C05_increment_before_user_code_generated (s : Int) :
    GenFn.wrapped_step ⟨s⟩ = ([s + 1], s + 1) := by
  simp only [GenFn.wrapped_step]
  first
    | (simp; done)
    | (simp <;> omega)
