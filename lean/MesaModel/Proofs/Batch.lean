import MesaModel.Model.Batch
import MesaModel.Proofs.Collect
/-! Helper lemmas for the batch_run model (C13). -/
namespace Mesa.Batch
open Mesa.Collect

/-! ### the kwargs product -/

def prodLen : List (Nat × List κ) → Nat
  | [] => 1
  | (_, vs) :: rest => vs.length * prodLen rest

theorem length_flatMap_const (vs : List α) (f : α → List β) (n : Nat) (h : ∀ v ∈ vs, (f v).length = n) :
    (vs.flatMap f).length = vs.length * n := by
  induction vs with
  | nil => simp
  | cons v vs ih =>
    rw [List.flatMap_cons, List.length_append, h v (by simp), ih (fun x hx => h x (by simp [hx]))]
    simp [Nat.succ_mul, Nat.add_comm]

theorem product_length (l : List (Nat × List κ)) : (product l).length = prodLen l := by
  induction l with
  | nil => rfl
  | cons x xs ih =>
    obtain ⟨n, vs⟩ := x
    simp only [product, prodLen]
    rw [length_flatMap_const _ _ (prodLen xs)]
    intro v _
    simp [ih]

/-- a kwargs dict chooses, for every parameter in order, one of its values -/
def Chooses : Kwargs κ → List (Nat × List κ) → Prop
  | [], [] => True
  | (n, v) :: kw, (n', vs) :: rest => n = n' ∧ v ∈ vs ∧ Chooses kw rest
  | _, _ => False

theorem mem_product (l : List (Nat × List κ)) (kw : Kwargs κ) : kw ∈ product l ↔ Chooses kw l := by
  induction l generalizing kw with
  | nil => cases kw <;> simp [product, Chooses]
  | cons x xs ih =>
    obtain ⟨n, vs⟩ := x
    simp only [product, List.mem_flatMap, List.mem_map]
    constructor
    · rintro ⟨v, hv, kw', hkw', rfl⟩
      exact ⟨rfl, hv, (ih kw').mp hkw'⟩
    · intro h
      cases kw with
      | nil => exact absurd h (by simp [Chooses])
      | cons e kw' =>
        obtain ⟨n', v⟩ := e
        obtain ⟨rfl, hv, hc⟩ := h
        exact ⟨v, hv, kw', (ih kw').mpr hc, rfl⟩

theorem product_nodup (l : List (Nat × List κ)) (h : ∀ p ∈ l, p.2.Nodup) : (product l).Nodup := by
  induction l with
  | nil => simp [product]
  | cons x xs ih =>
    obtain ⟨n, vs⟩ := x
    have hvs : vs.Nodup := h (n, vs) (by simp)
    have hrest : (product xs).Nodup := ih (fun p hp => h p (by simp [hp]))
    simp only [product]
    clear h ih
    induction vs with
    | nil => simp
    | cons v vs ihv =>
      rw [List.flatMap_cons, List.nodup_append]
      have hv := List.nodup_cons.mp hvs
      refine ⟨?_, ihv hv.2, ?_⟩
      · rw [List.Nodup, List.pairwise_map]
        exact List.Pairwise.imp (fun hne e => hne (by simpa using e)) hrest
      · intro a ha b hb
        obtain ⟨kw, _, rfl⟩ := List.mem_map.mp ha
        obtain ⟨v', hv', hb⟩ := List.mem_flatMap.mp hb
        obtain ⟨kw', _, rfl⟩ := List.mem_map.mp hb
        intro e
        have : v = v' := by simpa using (List.cons.inj e).1
        exact hv.1 (this ▸ hv')

/-! ### the run list -/

theorem number_runIds (i : Nat) (l : List (Nat × Kwargs κ)) :
    (number i l).map (·.runId) = (List.range l.length).map (i + ·) := by
  induction l generalizing i with
  | nil => rfl
  | cons x xs ih =>
    obtain ⟨it, kw⟩ := x
    simp only [number, List.map_cons, List.length_cons, List.range_succ_eq_map, List.map_map, ih (i + 1)]
    simp only [Nat.add_zero, List.cons.injEq, true_and]
    apply List.map_congr_left
    intro a _
    simp only [Function.comp]
    omega

theorem number_pairs (i : Nat) (l : List (Nat × Kwargs κ)) :
    (number i l).map (fun r => (r.iteration, r.kwargs)) = l := by
  induction l generalizing i with
  | nil => rfl
  | cons x xs ih =>
    obtain ⟨it, kw⟩ := x
    simp [number, ih]


/-! ### stepping -/

theorem run_append (cfg : Cfg) (s : State) (a b : List Op) : run cfg s (a ++ b) = run cfg (run cfg s a) b := by
  simp [run, List.foldl_append]

theorem run_steps_le (cfg : Cfg) (s : State) (ops : List Op) : s.steps ≤ (run cfg s ops).steps := by
  induction ops generalizing s with
  | nil => exact Nat.le_refl _
  | cons op rest ih => exact Nat.le_trans (apply_steps_le cfg s op) (ih _)

theorem apply_steps_eq (cfg : Cfg) (s : State) (op : Op) (h : op ≠ .step) : (apply cfg s op).1.steps = s.steps := by
  cases op <;> simp only [apply]
  case step => exact absurd rfl h
  case mapp => split <;> simp
  case mdel => split <;> simp
  case collect => exact (collect_agents cfg s).2.2
  case row =>
    unfold addTableRow; split
    · simp
    · split <;> simp

theorem run_steps_eq (cfg : Cfg) (s : State) (ops : List Op) (h : Op.step ∉ ops) : (run cfg s ops).steps = s.steps := by
  induction ops generalizing s with
  | nil => rfl
  | cons op rest ih =>
    simp only [List.mem_cons, not_or] at h
    show (run cfg (apply cfg s op).1 rest).steps = s.steps
    rw [ih _ h.2, apply_steps_eq cfg s op (fun e => h.1 e.symm)]

theorem stepOnce_eq_run (p : Prog) (s : State) : stepOnce p s = run p.cfg s (.step :: p.body) := rfl

theorem stepOnce_steps_lt (p : Prog) (s : State) : s.steps < (stepOnce p s).steps := by
  have := run_steps_le p.cfg { s with steps := s.steps + 1 } p.body
  simp only [stepOnce]
  simp only at this
  omega

theorem stepOnce_steps_eq (p : Prog) (s : State) (h : Op.step ∉ p.body) : (stepOnce p s).steps = s.steps + 1 := by
  simp only [stepOnce]
  rw [run_steps_eq _ _ _ h]

/-- the history of a model constructed and then stepped `k` times by hand -/
def histOf (p : Prog) (k : Nat) : List Op := p.init ++ (List.replicate k (Op.step :: p.body)).flatten

/-- with enough fuel the loop ends because the model stopped or reached `maxSteps` -/
theorem loop_done (p : Prog) (maxSteps : Nat) (f : Nat) (s : State) (hf : maxSteps - s.steps ≤ f) :
    (loop p maxSteps f s).running = false ∨ maxSteps ≤ (loop p maxSteps f s).steps := by
  induction f generalizing s with
  | zero => right; simp only [loop]; omega
  | succ f ih =>
    simp only [loop]
    by_cases hc : (s.running && decide (s.steps < maxSteps)) = true
    · simp only [hc, if_true]
      apply ih
      have := stepOnce_steps_lt p s
      omega
    · simp only [hc, Bool.false_eq_true, if_false]
      simp only [Bool.and_eq_true, decide_eq_true_eq, not_and] at hc
      by_cases hr : s.running = true
      · right; have := hc hr; omega
      · left; simpa using hr

/-- the loop is: step by hand some number of times, each time only while running and below `maxSteps` -/
theorem loop_eq_run (p : Prog) (maxSteps : Nat) (f : Nat) (s : State) :
    ∃ k ≤ f, loop p maxSteps f s = run p.cfg s (List.replicate k (Op.step :: p.body)).flatten := by
  induction f generalizing s with
  | zero => exact ⟨0, Nat.le_refl _, rfl⟩
  | succ f ih =>
    simp only [loop]
    by_cases hc : (s.running && decide (s.steps < maxSteps)) = true
    · simp only [hc, if_true]
      obtain ⟨k, hk, he⟩ := ih (stepOnce p s)
      refine ⟨k + 1, by omega, ?_⟩
      rw [he, List.replicate_succ, List.flatten_cons, run_append, stepOnce_eq_run]
    · simp only [hc, Bool.false_eq_true, if_false]
      exact ⟨0, by omega, rfl⟩

theorem loop_steps_le (p : Prog) (maxSteps : Nat) (h : Op.step ∉ p.body) (f : Nat) (s : State) :
    (loop p maxSteps f s).steps ≤ max maxSteps s.steps := by
  induction f generalizing s with
  | zero => simp only [loop]; omega
  | succ f ih =>
    simp only [loop]
    by_cases hc : (s.running && decide (s.steps < maxSteps)) = true
    · simp only [hc, if_true]
      have := ih (stepOnce p s)
      rw [stepOnce_steps_eq p s h] at this
      simp only [Bool.and_eq_true, decide_eq_true_eq] at hc
      omega
    · simp only [hc, Bool.false_eq_true, if_false]; omega

/-- the loop condition of `_model_run_func` -/
def goOn (maxSteps : Nat) (s : State) : Bool := s.running && decide (s.steps < maxSteps)

/-- `s` stepped by hand `j` times -/
def handFrom (p : Prog) (s : State) (j : Nat) : State := run p.cfg s (List.replicate j (Op.step :: p.body)).flatten

theorem handFrom_succ (p : Prog) (s : State) (j : Nat) : handFrom p s (j + 1) = handFrom p (stepOnce p s) j := by
  simp only [handFrom, List.replicate_succ, List.flatten_cons, run_append, stepOnce_eq_run]

/-- the loop steps exactly while the loop condition holds: it ends at the *first* hand-stepped state at which the
    model has stopped or reached `maxSteps` (fuel permitting) -/
theorem loop_eq_run_min (p : Prog) (maxSteps : Nat) (f : Nat) (s : State) :
    ∃ k ≤ f, loop p maxSteps f s = handFrom p s k ∧ ∀ j < k, goOn maxSteps (handFrom p s j) = true := by
  induction f generalizing s with
  | zero => exact ⟨0, Nat.le_refl _, rfl, fun j hj => absurd hj (Nat.not_lt_zero _)⟩
  | succ f ih =>
    simp only [loop]
    by_cases hc : (s.running && decide (s.steps < maxSteps)) = true
    · simp only [hc, if_true]
      obtain ⟨k, hk, he, hmin⟩ := ih (stepOnce p s)
      refine ⟨k + 1, by omega, by rw [he, handFrom_succ], ?_⟩
      intro j hj
      cases j with
      | zero => exact hc
      | succ j => rw [handFrom_succ]; exact hmin j (by omega)
    · simp only [hc, Bool.false_eq_true, if_false]
      exact ⟨0, by omega, rfl, fun j hj => absurd hj (Nat.not_lt_zero _)⟩

/-- the model constructed and stepped by hand `j` times -/
def hand (p : Prog) (j : Nat) : State := run p.cfg (Collect.init p.cfg p.tables) (histOf p j)

theorem hand_eq (p : Prog) (j : Nat) : hand p j = handFrom p (construct p) j := by
  rw [hand, histOf, run_append]; rfl

/-- the number of steps `batch_run` takes is pinned: the least `k` at which the hand-stepped model has stopped or
    reached `maxSteps` -/
theorem runModel_eq_run_min (p : Prog) (maxSteps : Nat) :
    ∃ k ≤ maxSteps, runModel p maxSteps = hand p k ∧ (∀ j < k, goOn maxSteps (hand p j) = true) ∧
      goOn maxSteps (hand p k) = false := by
  obtain ⟨k, hk, he, hmin⟩ := loop_eq_run_min p maxSteps maxSteps (construct p)
  refine ⟨k, hk, by rw [runModel, he, hand_eq], fun j hj => by rw [hand_eq]; exact hmin j hj, ?_⟩
  have hd := loop_done p maxSteps maxSteps (construct p) (by omega)
  rw [hand_eq, ← he]
  unfold goOn
  rcases hd with hd | hd
  · simp [hd]
  · have : ¬ (loop p maxSteps maxSteps (construct p)).steps < maxSteps := by omega
    simp [this]

theorem find?_range_first (P : Nat → Bool) (n k : Nat) (hk : k < n) (hP : P k = true) (hmin : ∀ j < k, P j = false) :
    (List.range n).find? P = some k := by
  induction n with
  | zero => omega
  | succ n ih =>
    rw [List.range_succ, List.find?_append]
    by_cases hkn : k < n
    · rw [ih hkn]; rfl
    · have hkn' : k = n := by omega
      subst hkn'
      have : (List.range k).find? P = none := by
        rw [List.find?_eq_none]
        intro j hj
        simp [hmin j (List.mem_range.mp hj)]
      simp [this, hP]

/-- the number of steps `_model_run_func` takes, computed by stepping by hand: the first `j` at which the hand-stepped
    model has stopped or reached `maxSteps` -/
def stepsTaken (p : Prog) (maxSteps : Nat) : Nat :=
  ((List.range (maxSteps + 1)).find? fun j => !goOn maxSteps (hand p j)).getD maxSteps

theorem runModel_eq_hand (p : Prog) (maxSteps : Nat) :
    runModel p maxSteps = hand p (stepsTaken p maxSteps) ∧ stepsTaken p maxSteps ≤ maxSteps := by
  obtain ⟨k, hk, he, hmin, hstop⟩ := runModel_eq_run_min p maxSteps
  have : stepsTaken p maxSteps = k := by
    unfold stepsTaken
    rw [find?_range_first _ _ k (by omega) (by simp [hstop]) (fun j hj => by simp [hmin j hj])]
    rfl
  rw [this]; exact ⟨he, hk⟩

theorem runModel_eq_run (p : Prog) (maxSteps : Nat) :
    ∃ k ≤ maxSteps, runModel p maxSteps = run p.cfg (Collect.init p.cfg p.tables) (histOf p k) := by
  obtain ⟨k, hk, he⟩ := loop_eq_run p maxSteps maxSteps (construct p)
  exact ⟨k, hk, by rw [runModel, he, histOf, run_append]; rfl⟩


/-! ### which collections are reported -/

theorem getLast?_of_sorted_max {l : List Nat} {m : Nat} (hs : l.Pairwise (· < ·)) (hle : ∀ x ∈ l, x ≤ m)
    (hm : m ∈ l) : l.getLast? = some m := by
  induction l with
  | nil => simp at hm
  | cons x xs ih =>
    have hp := List.pairwise_cons.mp hs
    cases xs with
    | nil => simp at hm; simp [hm]
    | cons y ys =>
      rw [List.getLast?_cons_cons]
      apply ih hp.2 (fun z hz => hle z (by simp [hz]))
      rcases List.mem_cons.mp hm with rfl | h
      · have h1 := hp.1 y (by simp)
        have h2 := hle y (by simp)
        omega
      · exact h

theorem picks_spec (n : Nat) (per : Int) (hp : per ≠ 0) :
    ∃ ps, picks n per = .ok ps ∧
      (∀ i, i ∈ ps ↔ i < n ∧ ((0 < per ∧ i % per.toNat = 0) ∨ i = n - 1)) ∧ ps.Pairwise (· < ·) := by
  unfold picks
  simp only [hp, if_false]
  generalize hb : (if per < 0 then [] else (List.range n).filter fun i => i % per.toNat = 0) = base
  have hmem : ∀ i, i ∈ base ↔ i < n ∧ 0 < per ∧ i % per.toNat = 0 := by
    intro i
    subst hb
    by_cases hneg : per < 0
    · simp only [hneg, if_true, List.not_mem_nil, false_iff]
      omega
    · simp only [hneg, if_false, List.mem_filter, List.mem_range, decide_eq_true_eq]
      constructor
      · rintro ⟨h1, h2⟩; exact ⟨h1, by omega, h2⟩
      · rintro ⟨h1, _, h2⟩; exact ⟨h1, h2⟩
  have hsorted : base.Pairwise (· < ·) := by
    subst hb
    split
    · simp
    · exact List.Pairwise.sublist List.filter_sublist List.pairwise_lt_range
  by_cases hc : n ≠ 0 ∧ base.getLast? ≠ some (n - 1)
  · refine ⟨base ++ [n - 1], by rw [if_pos hc], ?_, ?_⟩
    · intro i
      simp only [List.mem_append, List.mem_singleton, hmem]
      constructor
      · rintro (⟨h1, h2⟩ | h)
        · exact ⟨h1, Or.inl h2⟩
        · exact ⟨by omega, Or.inr h⟩
      · rintro ⟨h1, h2 | h2⟩
        · exact Or.inl ⟨h1, h2⟩
        · exact Or.inr h2
    · rw [List.pairwise_append]
      refine ⟨hsorted, by simp, ?_⟩
      intro a ha b hb
      simp only [List.mem_singleton] at hb; subst hb
      have hlt := ((hmem a).mp ha).1
      have : a ≠ n - 1 := by
        intro e
        apply hc.2
        apply getLast?_of_sorted_max hsorted
        · intro x hx; have := ((hmem x).mp hx).1; omega
        · exact e ▸ ha
      omega
  · refine ⟨base, by rw [if_neg hc], ?_, hsorted⟩
    intro i
    rw [hmem]
    constructor
    · rintro ⟨h1, h2⟩; exact ⟨h1, Or.inl h2⟩
    · rintro ⟨h1, h2 | h2⟩
      · exact ⟨h1, h2⟩
      · have hn : n ≠ 0 := by omega
        have hl : base.getLast? = some (n - 1) := by
          by_cases hl : base.getLast? = some (n - 1)
          · exact hl
          · exact absurd ⟨hn, hl⟩ hc
        have := (hmem (n - 1)).mp (List.mem_of_getLast? hl)
        subst h2
        exact this

/-! ### reading one collection -/

theorem mapM_getElem?_columns (l : List MRep) (snaps : List Snap) (i : Nat) (sn : Snap) (h : snaps[i]? = some sn) :
    (l.map fun r => snaps.map r.eval).mapM (·[i]?) = some (l.map fun r => r.eval sn) := by
  induction l with
  | nil => rfl
  | cons r rs ih =>
    simp only [List.map_cons, List.mapM_cons, ih, List.getElem?_map, h, Option.map_some]
    rfl

/-- the rows reported for one collection -/
def rowsOfColl (r : Run κ) (st : Nat) (mv : List Val) (ags : List Row) : List (BRow κ) :=
  if ags.isEmpty then
    [{ runId := r.runId, iteration := r.iteration, step := st, kwargs := r.kwargs, model := mv, agent := none }]
  else ags.map fun row =>
    { runId := r.runId, iteration := r.iteration, step := st, kwargs := r.kwargs, model := mv,
      agent := some (row.id, row.vals) }

/-- what `_collect_data` finds for a stored snapshot: its model values and the agent rows recorded under its step -/
def rowsOfSnap (cfg : Cfg) (snaps : List Snap) (r : Run κ) (sn : Snap) : List (BRow κ) :=
  rowsOfColl r sn.steps (cfg.mreps.map fun m => m.eval sn)
    (if cfg.areps.isEmpty then []
     else ((lastWith (fun x => x.steps == sn.steps) snaps).map (agentRows cfg)).getD [])

theorem rowsOfColl_has_row (r : Run κ) (st : Nat) (mv : List Val) (ags : List Row) :
    ∃ row ∈ rowsOfColl r st mv ags, row.step = st ∧ row.model = mv := by
  unfold rowsOfColl
  cases ags with
  | nil =>
    exact ⟨{ runId := r.runId, iteration := r.iteration, step := st, kwargs := r.kwargs, model := mv, agent := none },
      by simp, rfl, rfl⟩
  | cons a as =>
    exact ⟨{ runId := r.runId, iteration := r.iteration, step := st, kwargs := r.kwargs, model := mv,
             agent := some (a.id, a.vals) }, by simp, rfl, rfl⟩

theorem mem_rowsOfColl {r : Run κ} {st : Nat} {mv : List Val} {ags : List Row} {row : BRow κ}
    (h : row ∈ rowsOfColl r st mv ags) :
    row.runId = r.runId ∧ row.iteration = r.iteration ∧ row.kwargs = r.kwargs ∧ row.step = st ∧ row.model = mv ∧
    (row.agent = none ∨ ∃ a ∈ ags, row.agent = some (a.id, a.vals)) := by
  unfold rowsOfColl at h
  split at h
  · simp only [List.mem_singleton] at h
    subst h
    exact ⟨rfl, rfl, rfl, rfl, rfl, Or.inl rfl⟩
  · obtain ⟨a, ha, rfl⟩ := List.mem_map.mp h
    exact ⟨rfl, rfl, rfl, rfl, rfl, Or.inr ⟨a, ha, rfl⟩⟩

theorem rowsAt_of_holds {cfg : Cfg} {snaps : List Snap} {s : State} (h : Holds cfg snaps s) (r : Run κ)
    (i : Nat) (sn : Snap) (hi : snaps[i]? = some sn) :
    rowsAt r s i = .ok (rowsOfSnap cfg snaps r sn) := by
  have h1 : s.collSteps[i]? = some sn.steps := by rw [h.collSteps]; simp [hi]
  have h2 : s.modelVars.mapM (·[i]?) = some (cfg.mreps.map fun m => m.eval sn) := by
    rw [h.modelVars]; exact mapM_getElem?_columns _ _ _ _ hi
  have h3 : (s.records.lookup sn.steps).getD [] =
      (if cfg.areps.isEmpty then []
       else ((lastWith (fun x => x.steps == sn.steps) snaps).map (agentRows cfg)).getD []) := by
    rw [h.records]
    split
    · simp
    · rw [lookup_assign]
  unfold rowsAt collectData
  simp only [h1, h2, h3]
  rfl

theorem mapME_ok (f : α → Except Err β) (g : α → β) (l : List α) (h : ∀ x ∈ l, f x = .ok (g x)) :
    mapME f l = .ok (l.map g) := by
  induction l with
  | nil => rfl
  | cons x xs ih =>
    simp only [mapME, h x (by simp), ih (fun y hy => h y (by simp [hy])), List.map_cons]

theorem runRows_of_holds (cls : Kwargs κ → Prog) (maxSteps : Nat) (per : Int) (hp : per ≠ 0) (r : Run κ)
    (snaps : List Snap) (h : Holds (cls r.kwargs).cfg snaps (runModel (cls r.kwargs) maxSteps)) :
    ∃ ps, picks snaps.length per = .ok ps ∧
      runRows cls maxSteps per r = .ok (ps.flatMap fun i => match snaps[i]? with
        | some sn => rowsOfSnap (cls r.kwargs).cfg snaps r sn
        | none => []) := by
  obtain ⟨ps, hps, hmem, _⟩ := picks_spec snaps.length per hp
  refine ⟨ps, hps, ?_⟩
  unfold runRows
  have hl : (runModel (cls r.kwargs) maxSteps).collSteps.length = snaps.length := by
    rw [h.collSteps]; simp
  simp only [hl, hps]
  rw [mapME_ok _ (fun i => match snaps[i]? with
        | some sn => rowsOfSnap (cls r.kwargs).cfg snaps r sn
        | none => [])]
  · simp [List.flatMap]
  · intro i hi
    have hlt := ((hmem i).mp hi).1
    have : snaps[i]? = some snaps[i] := List.getElem?_eq_getElem hlt
    rw [this]
    exact rowsAt_of_holds h r i _ this

/-- the rows `_model_run_func` returns for a run, written out: the model is the one stepped by hand `stepsTaken` times;
    of its stored collections `snaps` the positions `picks` selects are reported, each as `rowsOfSnap` -/
def rowsSpec (cls : Kwargs κ → Prog) (maxSteps : Nat) (period : Int) (r : Run κ) : List (BRow κ) :=
  let p := cls r.kwargs
  let snaps := storedSnaps p.cfg (Collect.init p.cfg p.tables) (histOf p (stepsTaken p maxSteps))
  match picks snaps.length period with
  | .ok ps => ps.flatMap fun i => match snaps[i]? with
    | some sn => rowsOfSnap p.cfg snaps r sn
    | none => []
  | .error _ => []

theorem runRows_eq_rowsSpec (cls : Kwargs κ → Prog) (maxSteps : Nat) (per : Int) (hp : per ≠ 0) (r : Run κ)
    (hT : Total (cls r.kwargs).cfg) : runRows cls maxSteps per r = .ok (rowsSpec cls maxSteps per r) := by
  have he := (runModel_eq_hand (cls r.kwargs) maxSteps).1
  have hh := holds_history hT (cls r.kwargs).tables (histOf (cls r.kwargs) (stepsTaken (cls r.kwargs) maxSteps))
  have hh' : Holds (cls r.kwargs).cfg (storedSnaps (cls r.kwargs).cfg (Collect.init (cls r.kwargs).cfg (cls r.kwargs).tables)
      (histOf (cls r.kwargs) (stepsTaken (cls r.kwargs) maxSteps))) (runModel (cls r.kwargs) maxSteps) := by
    rw [he]; exact hh
  obtain ⟨ps, hps, hr⟩ := runRows_of_holds cls maxSteps per hp r _ hh'
  rw [hr]
  simp only [rowsSpec, hps]

theorem lastWith_of_nodup_keys (key : α → Nat) (l : List α) (h : (l.map key).Nodup) (x : α) (hx : x ∈ l) :
    lastWith (fun y => key y == key x) l = some x := by
  have : l.filter (fun y => key y == key x) = [x] := by
    induction l with
    | nil => simp at hx
    | cons y ys ih =>
      simp only [List.map_cons, List.nodup_cons] at h
      rcases List.mem_cons.mp hx with rfl | hx
      · have : ys.filter (fun y => key y == key x) = [] := by
          rw [List.filter_eq_nil_iff]
          intro z hz hk
          exact h.1 (List.mem_map.mpr ⟨z, hz, by simpa using hk⟩)
        simp [this]
      · have hne : ¬ key y = key x := fun e => h.1 (e ▸ List.mem_map.mpr ⟨x, hx, rfl⟩)
        simp [hne, ih h.2 hx]
  simp [lastWith, this]


/-! ### parameter values -/

/-- the values a parameter contributes: a string or a non-iterable is one value, anything else is iterated -/
def PVal.valuesT : PVal κ → List κ
  | .str v => [v]
  | .sized vs => vs
  | .iter vs => vs
  | .scalar v => [v]
  | .once vs => vs

theorem PVal.values_ok (pv : PVal κ) (h : pv ≠ .sized []) : pv.values = .ok pv.valuesT := by
  cases pv with
  | str v => rfl
  | sized vs => cases vs with
    | nil => exact absurd rfl h
    | cons v vs => rfl
  | iter vs => rfl
  | scalar v => rfl
  | once vs => rfl

theorem paramLists_ok (params : List (Nat × PVal κ)) (h : ∀ p ∈ params, p.2 ≠ .sized []) :
    paramLists params = .ok (params.map fun p => (p.1, p.2.valuesT)) := by
  induction params with
  | nil => rfl
  | cons x xs ih =>
    obtain ⟨n, pv⟩ := x
    simp only [paramLists, PVal.values_ok pv (h (n, pv) (by simp)), ih (fun p hp => h p (by simp [hp])), List.map_cons]

theorem paramLists_err (params : List (Nat × PVal κ)) (h : ∃ p ∈ params, p.2 = .sized []) :
    paramLists params = .error .value := by
  induction params with
  | nil => simp at h
  | cons x xs ih =>
    obtain ⟨n, pv⟩ := x
    simp only [paramLists]
    by_cases hx : pv = .sized []
    · subst hx; rfl
    · have : ∃ p ∈ xs, p.2 = .sized [] := by
        obtain ⟨p, hp, he⟩ := h
        rcases List.mem_cons.mp hp with rfl | hp
        · exact absurd he hx
        · exact ⟨p, hp, he⟩
      rw [ih this, PVal.values_ok pv hx]

/-- total version of `runRows` (the rows when it succeeds) -/
def runRowsT (cls : Kwargs κ → Prog) (maxSteps : Nat) (period : Int) (r : Run κ) : List (BRow κ) :=
  match runRows cls maxSteps period r with
  | .ok rows => rows
  | .error _ => []

theorem holds_runModel (p : Prog) (hT : Total p.cfg) (maxSteps : Nat) :
    ∃ k ≤ maxSteps, runModel p maxSteps = run p.cfg (Collect.init p.cfg p.tables) (histOf p k) ∧
      Holds p.cfg (storedSnaps p.cfg (Collect.init p.cfg p.tables) (histOf p k)) (runModel p maxSteps) := by
  obtain ⟨k, hk, he⟩ := runModel_eq_run p maxSteps
  refine ⟨k, hk, he, ?_⟩
  rw [he]; exact holds_history hT p.tables (histOf p k)

/-! ### `batch_run` never fails for a period ≠ 0, whatever the reporters do

A reporter that raises inside a collect the model swallows leaves `model_vars` ragged, but every column stays at
least as long as `_collection_steps`: `_collect_data` finds a value at every reported position. -/

theorem mOk_eq_all (cfg : Cfg) (sn : Snap) : mOk cfg sn = cfg.mreps.all (·.passes sn) := by
  rw [Bool.eq_iff_iff, mOk_iff, List.all_eq_true]

theorem colsOf_length_ge (l : List MRep) (snaps : List Snap) :
    ∀ col ∈ colsOf l snaps, (snaps.filter fun sn => l.all (·.passes sn)).length ≤ col.length := by
  induction l generalizing snaps with
  | nil => simp [colsOf]
  | cons r rs ih =>
    intro col hc
    have hff : (snaps.filter fun sn => (r :: rs).all (·.passes sn)) =
        (snaps.filter r.passes).filter fun sn => rs.all (·.passes sn) := by
      rw [List.filter_filter]
      apply List.filter_congr
      intro sn _
      simp [Bool.and_comm]
    simp only [colsOf, List.mem_cons] at hc
    rcases hc with rfl | hc
    · rw [hff, List.length_map]; exact List.length_filter_le _ _
    · rw [hff]; exact ih _ col hc

theorem colsLong_of_holdsG {cfg : Cfg} {snaps : List Snap} {s : State} (h : HoldsG cfg snaps s) :
    ∀ col ∈ s.modelVars, s.collSteps.length ≤ col.length := by
  intro col hc
  rw [h.modelVars] at hc
  have := colsOf_length_ge cfg.mreps snaps col hc
  rw [h.collSteps, List.length_map]
  have he : snaps.filter (mOk cfg) = snaps.filter fun sn => cfg.mreps.all (·.passes sn) :=
    List.filter_congr (fun sn _ => mOk_eq_all cfg sn)
  rw [he]; exact this

theorem mapM_getElem?_isSome (cols : List (List Val)) (i : Nat) (h : ∀ col ∈ cols, i < col.length) :
    ∃ vs, cols.mapM (·[i]?) = some vs := by
  induction cols with
  | nil => exact ⟨[], rfl⟩
  | cons c cs ih =>
    obtain ⟨vs, hvs⟩ := ih (fun col hc => h col (by simp [hc]))
    have hlt : i < c.length := h c (by simp)
    have hc : c[i]? = some c[i] := List.getElem?_eq_getElem hlt
    exact ⟨c[i] :: vs, by simp [List.mapM_cons, hc, hvs]⟩

theorem mapME_isOk (f : α → Except Err β) (l : List α) (h : ∀ x ∈ l, ∃ y, f x = .ok y) :
    ∃ ys, mapME f l = .ok ys := by
  induction l with
  | nil => exact ⟨[], rfl⟩
  | cons x xs ih =>
    obtain ⟨y, hy⟩ := h x (by simp)
    obtain ⟨ys, hys⟩ := ih (fun z hz => h z (by simp [hz]))
    exact ⟨y :: ys, by simp only [mapME, hy, hys]⟩

theorem runRows_total (cls : Kwargs κ → Prog) (maxSteps : Nat) (per : Int) (hp : per ≠ 0) (r : Run κ) :
    runRows cls maxSteps per r = .ok (runRowsT cls maxSteps per r) := by
  obtain ⟨k, _, he⟩ := runModel_eq_run (cls r.kwargs) maxSteps
  have hG := holdsG_history (cls r.kwargs).cfg (cls r.kwargs).tables (histOf (cls r.kwargs) k)
  rw [← he] at hG
  have hlong := colsLong_of_holdsG hG
  obtain ⟨ps, hps, hmem, _⟩ := picks_spec (runModel (cls r.kwargs) maxSteps).collSteps.length per hp
  have hrows : ∀ i ∈ ps, ∃ rows, rowsAt r (runModel (cls r.kwargs) maxSteps) i = .ok rows := by
    intro i hi
    have hlt := ((hmem i).mp hi).1
    obtain ⟨vs, hvs⟩ := mapM_getElem?_isSome (runModel (cls r.kwargs) maxSteps).modelVars i
      (fun col hc => Nat.lt_of_lt_of_le hlt (hlong col hc))
    have hst : (runModel (cls r.kwargs) maxSteps).collSteps[i]? =
        some (runModel (cls r.kwargs) maxSteps).collSteps[i] := List.getElem?_eq_getElem hlt
    unfold rowsAt collectData
    simp only [hst, hvs]
    exact ⟨_, rfl⟩
  obtain ⟨ys, hys⟩ := mapME_isOk _ ps hrows
  have : runRows cls maxSteps per r = .ok ys.flatten := by
    unfold runRows
    simp only [hps, hys]
  simp only [runRowsT, this]

theorem batchOrder_total (cls : Kwargs κ → Prog) (maxSteps : Nat) (per : Int) (hp : per ≠ 0) (order : List (Run κ)) :
    batchOrder cls maxSteps per order = .ok (order.flatMap (runRowsT cls maxSteps per)) := by
  unfold batchOrder
  rw [mapME_ok _ (runRowsT cls maxSteps per) _ (fun r _ => runRows_total cls maxSteps per hp r)]
  simp [List.flatMap]

/-! ### one call of `_make_model_kwargs` per iteration; one-shot iterators -/

theorem product_empty_factor (l : List (Nat × List κ)) (h : ∃ p ∈ l, p.2 = []) : product l = [] := by
  induction l with
  | nil => simp at h
  | cons x xs ih =>
    obtain ⟨n, vs⟩ := x
    simp only [product]
    by_cases hv : vs = []
    · subst hv; rfl
    · have : product xs = [] := by
        apply ih
        obtain ⟨p, hp, he⟩ := h
        rcases List.mem_cons.mp hp with rfl | hp
        · exact absurd he hv
        · exact ⟨p, hp, he⟩
      simp [this]

theorem no_empty_sized_of_ok {params : List (Nat × PVal κ)} {kws : List (Kwargs κ)} (h : makeKwargs params = .ok kws) :
    ∀ p ∈ params, p.2 ≠ .sized [] := by
  intro p hp he
  have := paramLists_err params ⟨p, hp, he⟩
  simp [makeKwargs, this] at h

theorem makeKwargs_eq_product {params : List (Nat × PVal κ)} (h : ∀ p ∈ params, p.2 ≠ .sized []) :
    makeKwargs params = .ok (product (params.map fun p => (p.1, p.2.valuesT))) := by
  simp only [makeKwargs, paramLists_ok params h]

theorem iterLoop_reiterable (params : List (Nat × PVal κ)) (kws : List (Kwargs κ))
    (hre : ∀ p ∈ params, p.2.spent = p.2) (hk : makeKwargs params = .ok kws) (n it : Nat) :
    iterLoop n it params = .ok ((List.range n).flatMap fun i => kws.map fun kw => (it + i, kw)) := by
  have hmap : (params.map fun p => (p.1, p.2.spent)) = params := by
    conv => rhs; rw [← List.map_id params]
    apply List.map_congr_left
    intro p hp
    rw [hre p hp]; rfl
  induction n generalizing it with
  | zero => rfl
  | succ n ih =>
    simp only [iterLoop, hk, hmap, ih (it + 1)]
    rw [List.range_succ_eq_map, List.flatMap_cons, List.flatMap_map]
    simp only [Nat.add_zero, Except.ok.injEq, List.append_cancel_left_eq]
    congr 1
    funext i
    apply List.map_congr_left
    intro kw _
    simp only [Prod.mk.injEq, and_true]
    omega

theorem spent_spent (pv : PVal κ) : pv.spent.spent = pv.spent := by
  cases pv <;> rfl

/-- once a one-shot iterator among the parameter values is spent, `_make_model_kwargs` yields no configuration -/
theorem makeKwargs_spent {params : List (Nat × PVal κ)} {kws : List (Kwargs κ)} (hk : makeKwargs params = .ok kws)
    (hone : ∃ p ∈ params, ∃ vs, p.2 = .once vs) :
    makeKwargs (params.map fun p => (p.1, p.2.spent)) = .ok [] := by
  have hne := no_empty_sized_of_ok hk
  have hne' : ∀ p ∈ params.map (fun p => (p.1, p.2.spent)), p.2 ≠ .sized [] := by
    intro p hp
    obtain ⟨q, hq, rfl⟩ := List.mem_map.mp hp
    have := hne q hq
    cases hq2 : q.2 <;> simp_all [PVal.spent]
  rw [makeKwargs_eq_product hne', product_empty_factor]
  obtain ⟨p, hp, vs, hv⟩ := hone
  refine ⟨(p.1, (PVal.once ([] : List κ)).valuesT), ?_, rfl⟩
  simp only [List.map_map, List.mem_map]
  exact ⟨p, hp, by simp [Function.comp, hv, PVal.spent]⟩

theorem iterLoop_oneshot (params : List (Nat × PVal κ)) (kws : List (Kwargs κ)) (hk : makeKwargs params = .ok kws)
    (hone : ∃ p ∈ params, ∃ vs, p.2 = .once vs) (n it : Nat) :
    iterLoop (n + 1) it params = .ok (kws.map fun kw => (it, kw)) := by
  have hs := makeKwargs_spent hk hone
  have hrest := iterLoop_reiterable (params.map fun p => (p.1, p.2.spent)) [] (by
      intro p hp
      obtain ⟨q, _, rfl⟩ := List.mem_map.mp hp
      exact spent_spent q.2) hs n (it + 1)
  simp only [iterLoop, hk, hrest]
  simp

/-! ### the rows of one run stay together, in the run's order -/

theorem mapME_mem {f : α → Except Err β} {l : List α} {ys : List β} (h : mapME f l = .ok ys) :
    ∀ y ∈ ys, ∃ x ∈ l, f x = .ok y := by
  induction l generalizing ys with
  | nil => simp [mapME] at h; subst h; simp
  | cons x xs ih =>
    simp only [mapME] at h
    cases hx : f x with
    | error e => simp [hx] at h
    | ok y0 =>
      cases hxs : mapME f xs with
      | error e => simp [hx, hxs] at h
      | ok ys0 =>
        simp only [hx, hxs, Except.ok.injEq] at h
        subst h
        intro y hy
        rcases List.mem_cons.mp hy with rfl | hy
        · exact ⟨x, by simp, hx⟩
        · obtain ⟨x', hx', hf⟩ := ih hxs y hy
          exact ⟨x', by simp [hx'], hf⟩

theorem rowsAt_runId {r : Run κ} {s : State} {i : Nat} {rows : List (BRow κ)} (h : rowsAt r s i = .ok rows) :
    ∀ b ∈ rows, b.runId = r.runId := by
  unfold rowsAt at h
  cases hc : collectData s i with
  | error e => simp [hc] at h
  | ok t =>
    obtain ⟨st, mv, ags⟩ := t
    simp only [hc, Except.ok.injEq] at h
    subst h
    intro b hb
    split at hb
    · simp only [List.mem_singleton] at hb; subst hb; rfl
    · obtain ⟨a, _, rfl⟩ := List.mem_map.mp hb; rfl

theorem runRowsT_runId (cls : Kwargs κ → Prog) (maxSteps : Nat) (per : Int) (r : Run κ) :
    ∀ b ∈ runRowsT cls maxSteps per r, b.runId = r.runId := by
  intro b hb
  unfold runRowsT at hb
  cases hr : runRows cls maxSteps per r with
  | error e => simp [hr] at hb
  | ok rows =>
    simp only [hr] at hb
    unfold runRows at hr
    cases hp : picks (runModel (cls r.kwargs) maxSteps).collSteps.length per with
    | error e => simp [hp] at hr
    | ok ps =>
      simp only [hp] at hr
      cases hm : mapME (rowsAt r (runModel (cls r.kwargs) maxSteps)) ps with
      | error e => simp [hm] at hr
      | ok chunks =>
        simp only [hm, Except.ok.injEq] at hr
        subst hr
        obtain ⟨chunk, hc, hbc⟩ := List.mem_flatten.mp hb
        obtain ⟨i, _, hi⟩ := mapME_mem hm chunk hc
        exact rowsAt_runId hi b hbc

theorem filter_flatMap_key (key : α → Nat) (bkey : β → Nat) (chunk : α → List β)
    (hck : ∀ a, ∀ b ∈ chunk a, bkey b = key a) (l : List α) (hnd : (l.map key).Nodup) (a : α) (ha : a ∈ l) :
    (l.flatMap chunk).filter (fun b => bkey b == key a) = chunk a := by
  induction l with
  | nil => simp at ha
  | cons x xs ih =>
    simp only [List.map_cons, List.nodup_cons] at hnd
    rw [List.flatMap_cons, List.filter_append]
    rcases List.mem_cons.mp ha with rfl | ha
    · have h1 : (chunk a).filter (fun b => bkey b == key a) = chunk a := by
        rw [List.filter_eq_self]; intro b hb; simp [hck a b hb]
      have h2 : (xs.flatMap chunk).filter (fun b => bkey b == key a) = [] := by
        rw [List.filter_eq_nil_iff]
        intro b hb hk
        obtain ⟨y, hy, hby⟩ := List.mem_flatMap.mp hb
        have : key y = key a := by rw [← hck y b hby]; simpa using hk
        exact hnd.1 (List.mem_map.mpr ⟨y, hy, this⟩)
      rw [h1, h2, List.append_nil]
    · have h1 : (chunk x).filter (fun b => bkey b == key a) = [] := by
        rw [List.filter_eq_nil_iff]
        intro b hb hk
        have : key x = key a := by rw [← hck x b hb]; simpa using hk
        exact hnd.1 (this ▸ List.mem_map.mpr ⟨a, ha, rfl⟩)
      rw [h1, List.nil_append, ih hnd.2 ha]

/-! ### degenerate limits -/

theorem filter_mod_range (n p : Nat) (hn : 0 < n) (hp : n ≤ p) : (List.range n).filter (fun i => i % p = 0) = [0] := by
  induction n with
  | zero => omega
  | succ n ih =>
    rw [List.range_succ, List.filter_append]
    by_cases h0 : n = 0
    · subst h0; simp
    · rw [ih (by omega) (by omega)]
      have : n % p ≠ 0 := by rw [Nat.mod_eq_of_lt (by omega)]; exact h0
      simp [this]

end Mesa.Batch
