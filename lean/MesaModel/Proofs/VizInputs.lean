import MesaModel.Model.VizInputs
import MesaModel.Proofs.Viz
/-!
Helper lemmas and spec functions for the `ModelCreator` / `UserInputs` part of C20 (`Model/VizInputs.lean`).
-/
namespace Mesa.Viz

theorem splitParams_perm (ps : List (String × ParamVal)) :
    ((splitParams ps).2 ++ (splitParams ps).1).Perm ps := by
  unfold splitParams
  have := List.filter_append_perm (fun kv : String × ParamVal => isFixed kv.2.toPy) ps
  simpa using this

theorem initialParams_keys (ps : List (String × ParamVal)) :
    (initialParams ps).map (·.1) = (splitParams ps).2.map (·.1) ++ (splitParams ps).1.map (·.1) := by
  simp [initialParams, List.map_append, List.map_map, Function.comp_def]

theorem initialParams_eq (ps : List (String × ParamVal)) :
    initialParams ps = ((splitParams ps).2 ++ (splitParams ps).1).map fun kv => (kv.1, kv.2.initial) := by
  simp [initialParams]

/-- the input `UserInputs` creates for one user-adjustable parameter (`none`: it raises) -/
def widgetOf (name : String) : ParamVal → Option Widget
  | .slider isFloat label value => some ⟨if isFloat then .sliderFloat else .sliderInt, name, label, some value⟩
  | .spec type value label => (widgetKind? type).map fun k => ⟨k, name, label.getD name, value⟩
  | .plainDict => none
  | .plain _ => none

theorem userInputs_ok : ∀ (us : List (String × ParamVal)) (ws : List Widget), userInputs us = .ok ws →
    ws.map (·.name) = us.map (·.1) ∧ us.map (fun kv => widgetOf kv.1 kv.2) = ws.map some
  | [], ws, h => by
    simp only [userInputs] at h
    injection h with h; subst h
    exact ⟨rfl, rfl⟩
  | (name, v) :: rest, ws, h => by
    unfold userInputs at h
    cases v with
    | slider isFloat label value =>
      simp only at h
      cases hr : userInputs rest with
      | error t => rw [hr] at h; cases h
      | ok ws' =>
        rw [hr] at h
        injection h with h; subst h
        obtain ⟨h1, h2⟩ := userInputs_ok rest ws' hr
        exact ⟨by simp [h1], by rw [List.map_cons, h2]; rfl⟩
    | spec type value label =>
      simp only at h
      cases hk : widgetKind? type with
      | none => rw [hk] at h; cases h
      | some k =>
        rw [hk] at h
        simp only at h
        cases hr : userInputs rest with
        | error t => rw [hr] at h; cases h
        | ok ws' =>
          rw [hr] at h
          injection h with h; subst h
          obtain ⟨h1, h2⟩ := userInputs_ok rest ws' hr
          exact ⟨by simp [h1], by rw [List.map_cons, h2]; simp [widgetOf, hk]⟩
    | plainDict => cases h
    | plain x => cases h

theorem userInputs_error : ∀ (us : List (String × ParamVal)) (t : String), userInputs us = .error t →
    ∃ kv ∈ us, widgetOf kv.1 kv.2 = none
  | [], t, h => by simp [userInputs] at h
  | (name, v) :: rest, t, h => by
    unfold userInputs at h
    cases v with
    | slider isFloat label value =>
      simp only at h
      cases hr : userInputs rest with
      | error t' =>
        obtain ⟨kv, hm, hw⟩ := userInputs_error rest t' hr
        exact ⟨kv, List.mem_cons_of_mem _ hm, hw⟩
      | ok ws' => rw [hr] at h; cases h
    | spec type value label =>
      simp only at h
      cases hk : widgetKind? type with
      | none => exact ⟨_, List.mem_cons_self, by simp [widgetOf, hk]⟩
      | some k =>
        rw [hk] at h
        simp only at h
        cases hr : userInputs rest with
        | error t' =>
          obtain ⟨kv, hm, hw⟩ := userInputs_error rest t' hr
          exact ⟨kv, List.mem_cons_of_mem _ hm, hw⟩
        | ok ws' => rw [hr] at h; cases h
    | plainDict => exact ⟨_, List.mem_cons_self, rfl⟩
    | plain x => exact ⟨_, List.mem_cons_self, rfl⟩

theorem onChange_keys (params : List (String × Option Val)) (name : String) (value : Val)
    (h : name ∈ params.map (·.1)) : (onChange params name value).map (·.1) = params.map (·.1) := by
  unfold onChange
  have : params.any (·.1 == name) = true := by
    rw [List.any_eq_true]
    obtain ⟨kv, hm, he⟩ := List.mem_map.mp h
    exact ⟨kv, hm, by simp [he]⟩
  rw [if_pos this, List.map_map]
  apply List.map_congr_left
  intro kv _
  simp only [Function.comp]
  by_cases hk : (kv.1 == name) = true
  · rw [if_pos hk]; exact (beq_iff_eq.mp hk).symm
  · rw [if_neg hk]

/-- a change of an input replaces the value under its name and nothing else -/
theorem onChange_spec (params : List (String × Option Val)) (name : String) (value : Val)
    (h : name ∈ params.map (·.1)) :
    (∀ kv ∈ onChange params name value, kv.1 = name → kv.2 = some value) ∧
    (∀ kv, kv.1 ≠ name → (kv ∈ onChange params name value ↔ kv ∈ params)) := by
  unfold onChange
  have : params.any (·.1 == name) = true := by
    rw [List.any_eq_true]
    obtain ⟨kv, hm, he⟩ := List.mem_map.mp h
    exact ⟨kv, hm, by simp [he]⟩
  rw [if_pos this]
  refine ⟨fun kv hm he => ?_, fun kv hne => ⟨fun hm => ?_, fun hm => ?_⟩⟩
  · obtain ⟨kv', _, e⟩ := List.mem_map.mp hm
    by_cases hk : (kv'.1 == name) = true
    · rw [if_pos hk] at e; rw [← e]
    · rw [if_neg hk] at e
      rw [e] at hk
      exact absurd (by simp [he]) hk
  · obtain ⟨kv', hm', e⟩ := List.mem_map.mp hm
    by_cases hk : (kv'.1 == name) = true
    · rw [if_pos hk] at e
      exact absurd (by rw [← e]) hne
    · rw [if_neg hk] at e
      rw [← e]; exact hm'
  · refine List.mem_map.mpr ⟨kv, hm, ?_⟩
    rw [if_neg (by simpa using hne)]

end Mesa.Viz
