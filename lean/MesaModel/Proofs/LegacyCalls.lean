import MesaModel.Proofs.Legacy
/-!
What the mutating calls of the legacy grids do to the cell lists, call by call (C08): `remove_agent`
(also of an agent that is not on the grid), `place_agent`, `move_agent`, `swap_pos`.  The order inside a
MultiGrid cell list is observable (iteration, `get_cell_list_contents`, `get_neighbors`), so the lists are
specified as lists: a placed / moved agent goes to the end of the target's list.
-/
namespace Mesa.Legacy

open Grid

theorem remove_content_self (g : Grid) (hi : Inv g) (a : Aid) (p : Coord) (hp : g.pos a = some p) :
    (g.remove a).1.content p = (g.content p).erase a := by
  have hap : a ∈ g.content p := (hi.pos_content a p).mp hp
  unfold remove
  rw [hp]
  by_cases hm : g.multi = true
  · simp only [hm, if_true, hap]
    split <;> simp [upd]
  · simp only [Bool.not_eq_true] at hm
    have hl := hi.single hm p
    simp only [hm, Bool.false_eq_true, if_false, upd, if_true]
    match hc : g.content p, hl, hap with
    | [x], _, hx => simp at hx; subst hx; simp
    | [], _, hx => simp at hx
    | _ :: _ :: _, hl', _ => simp at hl'

theorem place_content_self (g : Grid) (a : Aid) (p : Coord) (hpos : g.pos a = none) (hok : (g.place a p).2 = .ok) :
    (g.place a p).1.content p = g.content p ++ [a] := by
  unfold place at hok ⊢
  by_cases hm : g.multi = true
  · simp [hm, hpos, upd]
  · simp only [Bool.not_eq_true] at hm
    simp only [hm, Bool.false_eq_true, if_false] at hok ⊢
    by_cases he : g.isCellEmpty p = true
    · have : g.content p = [] := by simpa [isCellEmpty] using he
      simp [he, upd, this]
    · simp [he] at hok

/-- `remove_agent`: a placed agent leaves its cell's list (nothing else changes); an agent that is not on
    the grid: nothing changes — a SingleGrid returns silently, a MultiGrid raises TypeError (`x, y = None`) -/
theorem c08_remove_spec (g : Grid) (hi : Inv g) (a : Aid) :
    (∀ p, g.pos a = some p → (g.remove a).2 = .ok ∧ (g.remove a).1.pos a = none ∧
      (g.remove a).1.content p = (g.content p).erase a ∧ (∀ q, q ≠ p → (g.remove a).1.content q = g.content q) ∧
      ∀ b, b ≠ a → (g.remove a).1.pos b = g.pos b) ∧
    (g.pos a = none → (g.remove a).1 = g ∧ (g.remove a).2 = if g.multi then .err .type else .ok) := by
  constructor
  · intro p hp
    have hok := remove_ok_of_inv g a hi (Or.inl (by rw [hp]; simp))
    exact ⟨hok, remove_ok_pos g a hok, remove_content_self g hi a p hp,
      fun q hq => remove_content_other g a q (by rw [hp]; intro e; exact hq (Option.some.inj e).symm),
      fun b hb => remove_pos_other g a b hb⟩
  · intro hp
    unfold remove
    rw [hp]
    cases g.multi <;> simp

/-- an agent whose `pos` was written by another space: `pos a = some p` but cell `p` of this grid does not hold it -/
theorem c08_remove_foreign (g : Grid) (a : Aid) (p : Coord) (hp : g.pos a = some p) (hf : a ∉ g.content p) :
    (g.multi = true → g.remove a = (g, .err .value)) ∧
    (g.multi = false → (g.remove a).2 = .ok ∧ (g.remove a).1.content p = [] ∧ (g.remove a).1.pos a = none ∧
      (∀ b, b ≠ a → (g.remove a).1.pos b = g.pos b) ∧
      ∀ b, b ∈ g.content p → g.pos b = some p → ¬ Inv (g.remove a).1) := by
  constructor
  · intro hm; unfold remove; rw [hp]; simp [hm, hf]
  · intro hm
    have hc : (g.remove a).1.content p = [] := remove_single_content g a p hm hp
    have hok : (g.remove a).2 = .ok := by unfold remove; rw [hp]; simp [hm]
    refine ⟨hok, hc, remove_ok_pos g a hok, fun b hb => remove_pos_other g a b hb, ?_⟩
    intro b hb hpb hinv
    have hba : b ≠ a := fun e => hf (e ▸ hb)
    have : (g.remove a).1.pos b = some p := by rw [remove_pos_other g a b hba, hpb]
    have hmem := (hinv.pos_content b p).mp this
    rw [hc] at hmem
    cases hmem

/-- the pair `remove_agent`; `place_agent` that all movers end with -/
theorem removePlace_contents (g : Grid) (hi : Inv g) (a : Aid) (q cur : Coord) (hcur : g.pos a = some cur)
    (hok : (removePlace g a q).2 = .ok) :
    (removePlace g a q).1.content q = (g.content q).erase a ++ [a] ∧
    (cur ≠ q → (removePlace g a q).1.content cur = (g.content cur).erase a) ∧
    ∀ x, x ≠ cur → x ≠ q → (removePlace g a q).1.content x = g.content x := by
  obtain ⟨h1, h2, h3, h4, _⟩ := (c08_remove_spec g hi a).1 cur hcur
  unfold removePlace at hok ⊢
  rcases hr : g.remove a with ⟨g1, r⟩
  rw [hr] at h1 h2 h3 h4 hok
  simp only [] at h1 h2 h3 h4
  subst h1
  simp only [] at hok ⊢
  have hq : g1.content q = (g.content q).erase a := by
    by_cases hcq : q = cur
    · subst hcq; exact h3
    · rw [h4 q hcq]
      have : a ∉ g.content q := fun h => by
        have := (hi.pos_content a q).mpr h
        rw [hcur] at this; exact hcq (Option.some.inj this).symm
      rw [List.erase_of_not_mem this]
  refine ⟨by rw [place_content_self g1 a q h2 hok, hq], fun hne => ?_, fun x hx1 hx2 => ?_⟩
  · rw [place_content_other g1 a q cur hne, h3]
  · rw [place_content_other g1 a q x hx2, h4 x hx1]

/-- a successful `move_agent` is `torus_adj` followed by remove-then-place on the adjusted target -/
theorem move_ok_eq (g : Grid) (hw : 0 < g.w) (hh : 0 < g.h) (a : Aid) (p : Coord) (h : (g.move a p).2 = .ok) :
    ∃ q, g.torusAdj p = .ok q ∧ g.move a p = removePlace g a q := by
  unfold move at h ⊢
  split at h
  · rename_i hm
    rw [if_pos hm]
    rw [moveBase_eq] at h ⊢
    cases ht : g.torusAdj p with
    | error e => rw [ht] at h; cases h
    | ok q => exact ⟨q, rfl, rfl⟩
  · rename_i hm
    rw [if_neg hm]
    cases ht : g.torusAdj p with
    | error e => rw [ht] at h; cases h
    | ok q =>
      rw [ht] at h
      simp only [] at h ⊢
      have hq := (torusAdj_ok g hw hh p q ht).1
      split at h
      · cases h
      · rename_i hb
        rw [if_neg hb]
        rw [moveBase_eq, torusAdj_inGrid g q hq]
        exact ⟨q, rfl, rfl⟩

/-- `move_agent` of a placed agent: the agent leaves its cell's list and is appended to the target's
    (also when both are the same cell: it goes to the end); no other cell is touched -/
theorem c08_move_contents (g : Grid) (hw : 0 < g.w) (hh : 0 < g.h) (hi : Inv g) (a : Aid) (p cur : Coord)
    (hcur : g.pos a = some cur) (hok : (g.move a p).2 = .ok) :
    ∃ q, g.torusAdj p = .ok q ∧ (g.move a p).1.pos a = some q ∧
      (g.move a p).1.content q = (g.content q).erase a ++ [a] ∧
      (cur ≠ q → (g.move a p).1.content cur = (g.content cur).erase a) ∧
      ∀ x, x ≠ cur → x ≠ q → (g.move a p).1.content x = g.content x := by
  obtain ⟨q, hq, heq⟩ := move_ok_eq g hw hh a p hok
  rw [heq] at hok ⊢
  exact ⟨q, hq, removePlace_ok_pos g a q hok, removePlace_contents g hi a q cur hcur hok⟩

/-- `swap_pos` of two placed agents always succeeds and exchanges them: each is appended to the other's
    cell list, each leaves its own, every other cell and agent is untouched (same cell: nothing happens) -/
theorem c08_swap_spec (g : Grid) (hi : Inv g) (a b : Aid) (pa pb : Coord) (hpa : g.pos a = some pa) (hpb : g.pos b = some pb) :
    (g.swap a b).2 = .ok ∧ (g.swap a b).1.pos a = some pb ∧ (g.swap a b).1.pos b = some pa ∧
    (∀ c, c ≠ a → c ≠ b → (g.swap a b).1.pos c = g.pos c) ∧
    (pa = pb → (g.swap a b).1 = g) ∧
    (pa ≠ pb → (g.swap a b).1.content pb = (g.content pb).erase b ++ [a] ∧
               (g.swap a b).1.content pa = (g.content pa).erase a ++ [b]) ∧
    ∀ x, x ≠ pa → x ≠ pb → (g.swap a b).1.content x = g.content x := by
  unfold swap
  rw [hpa, hpb]
  simp only []
  by_cases hne : pa = pb
  · rw [if_pos hne]
    subst hne
    exact ⟨rfl, hpa, hpb, fun _ _ _ => rfl, fun _ => rfl, fun h => absurd rfl h, fun _ _ _ => rfl⟩
  · rw [if_neg hne]
    have hab : a ≠ b := fun e => hne (by subst e; rw [hpa] at hpb; exact Option.some.inj hpb)
    obtain ⟨r1, p1, k1, o1, q1⟩ := (c08_remove_spec g hi a).1 pa hpa
    have i1 := remove_inv g a hi
    have c1 := remove_cfg g a
    rcases hr1 : g.remove a with ⟨g1, x1⟩
    rw [hr1] at r1 p1 k1 o1 q1 i1 c1
    simp only [] at r1 p1 k1 o1 q1; subst r1
    simp only []
    have hpb1 : g1.pos b = some pb := by rw [q1 b (Ne.symm hab), hpb]
    obtain ⟨r2, p2, k2, o2, q2⟩ := (c08_remove_spec g1 i1 b).1 pb hpb1
    have i2 := remove_inv g1 b i1
    have c2 := remove_cfg g1 b
    rcases hr2 : g1.remove b with ⟨g2, x2⟩
    rw [hr2] at r2 p2 k2 o2 q2 i2 c2
    simp only [] at r2 p2 k2 o2 q2; subst r2
    simp only []
    have ha2 : g2.pos a = none := by rw [q2 a hab]; exact p1
    have hm2 : g2.multi = g.multi := (c1.trans c2).2.2.2.1
    -- the cell `pb` of `g2`: what `b` left behind
    have e2 : g2.content pb = (g.content pb).erase b := by rw [k2, o1 pb (Ne.symm hne)]
    have e2a : g2.content pa = (g.content pa).erase a := by rw [o2 pa hne, k1]
    have single_nil : g.multi = false → (g.content pb).erase b = [] ∧ (g.content pa).erase a = [] := by
      intro hm
      have hb := (hi.pos_content b pb).mp hpb
      have ha := (hi.pos_content a pa).mp hpa
      have lb := hi.single hm pb
      have la := hi.single hm pa
      constructor
      · match hc : g.content pb, lb, hb with
        | [x], _, hx => simp at hx; subst hx; simp
        | [], _, hx => simp at hx
        | _ :: _ :: _, hl', _ => simp at hl'
      · match hc : g.content pa, la, ha with
        | [x], _, hx => simp at hx; subst hx; simp
        | [], _, hx => simp at hx
        | _ :: _ :: _, hl', _ => simp at hl'
    have r3 : (g2.place a pb).2 = .ok := by
      rw [place_res, hm2]
      by_cases hm : g.multi = true
      · simp [hm]
      · simp only [Bool.not_eq_true] at hm
        simp [hm, e2, (single_nil hm).1]
    have k3 := place_content_self g2 a pb ha2 r3
    have o3 := place_content_other g2 a pb
    have q3 := fun c => place_pos_other g2 a c pb
    have p3 := place_ok_pos g2 a pb ha2 r3
    have c3 := place_cfg g2 a pb
    rcases hr3 : g2.place a pb with ⟨g3, x3⟩
    rw [hr3] at r3 k3 o3 q3 p3 c3
    simp only [] at r3 k3 o3 q3 p3; subst r3
    simp only []
    have hb3 : g3.pos b = none := by rw [q3 b (Ne.symm hab)]; exact p2
    have r4 : (g3.place b pa).2 = .ok := by
      rw [place_res, c3.2.2.2.1, hm2]
      by_cases hm : g.multi = true
      · simp [hm]
      · simp only [Bool.not_eq_true] at hm
        simp [hm, o3 pa hne, e2a, (single_nil hm).2]
    have k4 := place_content_self g3 b pa hb3 r4
    have o4 := place_content_other g3 b pa
    have q4 := fun c => place_pos_other g3 b c pa
    have p4 := place_ok_pos g3 b pa hb3 r4
    refine ⟨r4, by rw [q4 a hab]; exact p3, p4, fun c hca hcb => ?_, fun h => absurd h hne, fun _ => ⟨?_, ?_⟩, fun x hxa hxb => ?_⟩
    · rw [q4 c hcb, q3 c hca, q2 c hcb, q1 c hca]
    · rw [o4 pb (Ne.symm hne), k3, e2]
    · rw [k4, o3 pa hne, e2a]
    · rw [o4 x hxa, o3 x hxb, o2 x hxb, o1 x hxa]

end Mesa.Legacy
