import MesaModel.Proofs.LegacyDefs
/-! Orthogonal neighbourhoods (C09): fast path = slow path on interior cells, the result is the
    duplicate-free list of in-grid cells in range, and the result cache is transparent. -/
namespace Mesa.Legacy

/-! ### ranges and congruence helpers -/

theorem mem_intRange (x lo : Int) (n : Nat) : x ∈ intRange lo n ↔ lo ≤ x ∧ x < lo + n := by
  unfold intRange
  simp only [List.mem_map, List.mem_range, Int.ofNat_eq_natCast]
  constructor
  · rintro ⟨i, hi, rfl⟩; omega
  · rintro ⟨h1, h2⟩; exact ⟨(x - lo).toNat, by omega, by omega⟩

theorem intRange_shift (a b : Int) (n : Nat) : intRange (a + b) n = (intRange b n).map (fun t => a + t) := by
  unfold intRange
  rw [List.map_map]
  apply List.map_congr_left
  intro i _
  simp only [Function.comp, Int.ofNat_eq_natCast]; omega

theorem flatMap_map_congr {α β γ : Type} (l : List α) (g : α → β) (f : β → List γ) (f' : α → List γ)
    (h : ∀ a ∈ l, f (g a) = f' a) : (l.map g).flatMap f = l.flatMap f' := by
  induction l with
  | nil => rfl
  | cons x xs ih =>
    simp only [List.map_cons, List.flatMap_cons]
    rw [h x (by simp), ih (fun a ha => h a (by simp [ha]))]

theorem filterMap_map_congr {α β γ : Type} (l : List α) (g : α → β) (f : β → Option γ) (f' : α → Option γ)
    (h : ∀ a ∈ l, f (g a) = f' a) : (l.map g).filterMap f = l.filterMap f' := by
  induction l with
  | nil => rfl
  | cons x xs ih =>
    simp only [List.map_cons, List.filterMap_cons]
    rw [h x (by simp), ih (fun a ha => h a (by simp [ha]))]

theorem iabs_le (z : Int) (r : Nat) : Grid.iabs z ≤ (r : Int) ↔ -(r : Int) ≤ z ∧ z ≤ (r : Int) := by
  unfold Grid.iabs; split <;> omega

theorem oob_eq_true (d : Dim) (p : Coord) : d.oob p = true ↔ ¬ d.inGrid p := by
  simp only [Dim.oob, Dim.inGrid, Bool.or_eq_true, decide_eq_true_eq]; omega

theorem oob_eq_false (d : Dim) (p : Coord) : d.oob p = false ↔ d.inGrid p := by
  simp only [Dim.oob, Dim.inGrid, Bool.or_eq_false_iff, decide_eq_false_iff_not]; omega

theorem wrapIf_mk (d : Dim) (a b : Int) :
    d.wrapIf (a, b) = if d.torus then (a % d.w, b % d.h) else (a, b) := rfl

theorem wrapIf_inGrid (d : Dim) (p : Coord) (h : d.inGrid p) : d.wrapIf p = p := by
  obtain ⟨h1, h2, h3, h4⟩ := h
  unfold Dim.wrapIf
  split
  · rw [Int.emod_eq_of_lt h1 h2, Int.emod_eq_of_lt h3 h4]
  · rfl

/-! ### fast path = slow path -/

theorem cell_eq (d : Dim) (pos : Coord) (moore : Bool) (r : Nat) (dx dy : Int)
    (hx0 : 0 ≤ pos.1 + dx) (hx1 : pos.1 + dx < d.w) (hy0 : 0 ≤ pos.2 + dy) (hy1 : pos.2 + dy < d.h) :
    (if !moore && decide (Grid.iabs (pos.1 + dx - pos.1) + Grid.iabs (pos.2 + dy - pos.2) > (r : Int)) then none
      else some ((pos.1 + dx, pos.2 + dy) : Coord)) =
    (if !moore && decide (Grid.iabs dx + Grid.iabs dy > (r : Int)) then none
      else
        let c : Coord := if d.torus then ((pos.1 + dx) % d.w, (pos.2 + dy) % d.h) else (pos.1 + dx, pos.2 + dy)
        if d.oob c then none else some c) := by
  have a1 : pos.1 + dx - pos.1 = dx := by omega
  have a2 : pos.2 + dy - pos.2 = dy := by omega
  have m1 := Int.emod_eq_of_lt hx0 hx1
  have m2 := Int.emod_eq_of_lt hy0 hy1
  have ho : d.oob (pos.1 + dx, pos.2 + dy) = false := (oob_eq_false _ _).mpr ⟨hx0, hx1, hy0, hy1⟩
  rw [a1, a2, m1, m2]
  simp [ho]

theorem fast_eq_slow (d : Dim) (pos : Coord) (moore : Bool) (r : Nat) (hint : interior d pos r = true) :
    fastKeys pos moore r = slowKeys d pos moore r := by
  simp only [interior, Bool.and_eq_true, decide_eq_true_eq] at hint
  obtain ⟨⟨⟨h1, h2⟩, h3⟩, h4⟩ := hint
  unfold fastKeys slowKeys
  have e1 : pos.1 - (r : Int) = pos.1 + (-(r : Int)) := by omega
  have e2 : pos.2 - (r : Int) = pos.2 + (-(r : Int)) := by omega
  rw [e1, e2, intRange_shift, intRange_shift]
  apply flatMap_map_congr
  intro dx hdx
  apply filterMap_map_congr
  intro dy hdy
  rw [mem_intRange] at hdx hdy
  exact cell_eq d pos moore r dx dy (by omega) (by omega) (by omega) (by omega)

/-! ### the dict as an ordered set -/

theorem mem_insertKey (l : List Coord) (c x : Coord) : x ∈ insertKey l c ↔ x ∈ l ∨ x = c := by
  unfold insertKey
  split
  · rename_i h
    constructor
    · exact Or.inl
    · rintro (h' | rfl)
      · exact h'
      · exact h
  · simp

theorem nodup_insertKey (l : List Coord) (c : Coord) (h : l.Nodup) : (insertKey l c).Nodup := by
  unfold insertKey
  split
  · exact h
  · rename_i hc
    rw [List.nodup_append]
    refine ⟨h, by simp, ?_⟩
    intro a ha b hb
    simp only [List.mem_singleton] at hb
    subst hb
    intro e; subst e; exact hc ha

theorem mem_foldl_insertKey (cs : List Coord) : ∀ (acc : List Coord) (x : Coord),
    x ∈ cs.foldl insertKey acc ↔ x ∈ acc ∨ x ∈ cs := by
  induction cs with
  | nil => intro acc x; simp
  | cons c cs ih =>
    intro acc x
    simp only [List.foldl_cons, ih, mem_insertKey, List.mem_cons]
    constructor
    · rintro ((h | h) | h)
      · exact Or.inl h
      · exact Or.inr (Or.inl h)
      · exact Or.inr (Or.inr h)
    · rintro (h | h | h)
      · exact Or.inl (Or.inl h)
      · exact Or.inl (Or.inr h)
      · exact Or.inr h

theorem nodup_foldl_insertKey (cs : List Coord) : ∀ (acc : List Coord), acc.Nodup → (cs.foldl insertKey acc).Nodup := by
  induction cs with
  | nil => intro acc h; exact h
  | cons c cs ih => intro acc h; exact ih _ (nodup_insertKey acc c h)

theorem mem_dictKeys (cs : List Coord) (x : Coord) : x ∈ dictKeys cs ↔ x ∈ cs := by
  unfold dictKeys; rw [mem_foldl_insertKey]; simp

theorem nodup_dictKeys (cs : List Coord) : (dictKeys cs).Nodup :=
  nodup_foldl_insertKey cs [] List.nodup_nil

/-! ### membership in the slow path -/

theorem mem_slowKeys (d : Dim) (pos : Coord) (moore : Bool) (r : Nat) (c : Coord) :
    c ∈ slowKeys d pos moore r ↔
      ∃ dx dy : Int, (-(r : Int) ≤ dx ∧ dx ≤ (r : Int)) ∧ (-(r : Int) ≤ dy ∧ dy ≤ (r : Int)) ∧
        (moore = true ∨ Grid.iabs dx + Grid.iabs dy ≤ (r : Int)) ∧
        c = d.wrapIf (pos.1 + dx, pos.2 + dy) ∧ d.oob c = false := by
  unfold slowKeys
  simp only [List.mem_flatMap, List.mem_filterMap, mem_intRange, wrapIf_mk]
  constructor
  · rintro ⟨dx, hdx, dy, hdy, h⟩
    refine ⟨dx, dy, by omega, by omega, ?_⟩
    revert h
    generalize (if d.torus = true then ((pos.1 + dx) % d.w, (pos.2 + dy) % d.h) else (pos.1 + dx, pos.2 + dy) : Coord) = c'
    intro h
    split at h
    · cases h
    · rename_i hc
      split at h
      · cases h
      · rename_i ho
        cases h
        refine ⟨?_, rfl, by simpa using ho⟩
        cases moore
        · right; simpa using hc
        · left; rfl
  · rintro ⟨dx, dy, hdx, hdy, hm, hc, ho⟩
    refine ⟨dx, by omega, dy, by omega, ?_⟩
    have hcond : (!moore && decide (Grid.iabs dx + Grid.iabs dy > (r : Int))) = false := by
      rcases hm with hm | hm
      · simp [hm]
      · simp; intro _; omega
    rw [hcond]
    rw [← hc, ho]
    simp

/-! ### `get_neighborhood` -/

theorem nbhdCompute_oob (d : Dim) (k : NKey) : nbhdCompute d k = .error .oob ↔ ¬ d.inGrid k.pos := by
  rw [← oob_eq_true]
  unfold nbhdCompute
  cases d.oob k.pos <;> simp

theorem nbhdCompute_ok (d : Dim) (k : NKey) (h : d.inGrid k.pos) : ∃ l, nbhdCompute d k = .ok l := by
  have ho := (oob_eq_false d k.pos).mpr h
  unfold nbhdCompute
  rw [ho]
  exact ⟨_, rfl⟩

theorem keys_eq_slow (d : Dim) (k : NKey) :
    (if interior d k.pos k.r then fastKeys k.pos k.moore k.r else slowKeys d k.pos k.moore k.r)
      = slowKeys d k.pos k.moore k.r := by
  split
  · rename_i h; exact fast_eq_slow d k.pos k.moore k.r h
  · rfl

theorem mem_keys (d : Dim) (pos : Coord) (moore : Bool) (r : Nat) (c : Coord) :
    c ∈ dictKeys (slowKeys d pos moore r) ↔ d.inGrid c ∧ InRange d pos moore r c := by
  rw [mem_dictKeys, mem_slowKeys]
  unfold InRange
  constructor
  · rintro ⟨dx, dy, hdx, hdy, hm, hc, ho⟩
    exact ⟨(oob_eq_false d c).mp ho, dx, dy, (iabs_le dx r).mpr hdx, (iabs_le dy r).mpr hdy, hm, hc⟩
  · rintro ⟨hg, dx, dy, hdx, hdy, hm, hc⟩
    exact ⟨dx, dy, (iabs_le dx r).mp hdx, (iabs_le dy r).mp hdy, hm, hc, (oob_eq_false d c).mpr hg⟩

theorem centre_inRange (d : Dim) (pos : Coord) (moore : Bool) (r : Nat) (h : d.inGrid pos) :
    InRange d pos moore r pos := by
  refine ⟨0, 0, ?_, ?_, ?_, ?_⟩
  · simp [Grid.iabs]
  · simp [Grid.iabs]
  · right; simp [Grid.iabs]
  · simp only [Int.add_zero]
    exact (wrapIf_inGrid d pos h).symm

-- `hw`, `hh` are part of the stated interface but not needed: in-grid-ness of `k.pos` (implied by
-- `h`) already forces both to be positive.
set_option linter.unusedVariables false in
theorem orth_spec (d : Dim) (hw : 0 < d.w) (hh : 0 < d.h) (k : NKey) (l : List Coord) (h : nbhdCompute d k = .ok l) :
    l.Nodup ∧ ∀ c, c ∈ l ↔ d.inGrid c ∧ (c = k.pos → k.ic = true) ∧ (c ≠ k.pos → InRange d k.pos k.moore k.r c) := by
  have hg : d.inGrid k.pos := by
    apply Classical.byContradiction
    intro hn
    rw [(nbhdCompute_oob d k).mpr hn] at h
    cases h
  have ho := (oob_eq_false d k.pos).mpr hg
  unfold nbhdCompute at h
  rw [ho, keys_eq_slow] at h
  simp only [Bool.false_eq_true, if_false, Except.ok.injEq] at h
  subst h
  have hcentre := centre_inRange d k.pos k.moore k.r hg
  cases hic : k.ic
  · simp only [Bool.false_eq_true, if_false]
    refine ⟨(nodup_dictKeys _).filter _, ?_⟩
    intro c
    rw [List.mem_filter, mem_keys]
    simp only [bne_iff_ne, ne_eq, imp_false]
    constructor
    · rintro ⟨⟨h1, h2⟩, h3⟩
      exact ⟨h1, h3, fun _ => h2⟩
    · rintro ⟨h1, h2, h3⟩
      exact ⟨⟨h1, h3 h2⟩, h2⟩
  · simp only [if_true]
    refine ⟨nodup_dictKeys _, ?_⟩
    intro c
    rw [mem_keys]
    constructor
    · rintro ⟨h1, h2⟩
      exact ⟨h1, fun _ => trivial, fun _ => h2⟩
    · rintro ⟨h1, _, h3⟩
      refine ⟨h1, ?_⟩
      by_cases e : c = k.pos
      · subst e; exact hcentre
      · exact h3 e

/-! ### the caches are transparent -/

theorem askAll_inv (d : Dim) (qs : List NKey) : ∀ cache : NCache,
    (∀ k v, cache.lookup k = some v → nbhdCompute d k = .ok v) → askAll d cache qs = qs.map (nbhdCompute d) := by
  induction qs with
  | nil => intro _ _; rfl
  | cons k ks ih =>
    intro cache hc
    simp only [askAll, List.map_cons]
    unfold getNbhd
    cases hl : cache.lookup k with
    | some v =>
      simp only []
      rw [ih cache hc, hc k v hl]
    | none =>
      cases hn : nbhdCompute d k with
      | error e =>
        simp only []
        rw [ih cache hc]
      | ok v =>
        simp only []
        rw [ih]
        intro k' v' h'
        rw [List.lookup_cons] at h'
        by_cases e : k' = k
        · subst e
          simp only [beq_self_eq_true] at h'
          cases h'
          exact hn
        · have : (k' == k) = false := by simpa using e
          rw [this] at h'
          exact hc k' v' h'

theorem askAll_transparent (d : Dim) (qs : List NKey) : askAll d [] qs = qs.map (nbhdCompute d) :=
  askAll_inv d qs [] (by intro k v h; simp at h)

theorem askAllHex_inv (d : Dim) (qs : List HKey) : ∀ cache : HCache,
    (∀ k v, cache.lookup k = some v → hexCompute d k.pos k.ic k.r = v) →
      askAllHex d cache qs = qs.map (fun k => hexCompute d k.pos k.ic k.r) := by
  induction qs with
  | nil => intro _ _; rfl
  | cons k ks ih =>
    intro cache hc
    simp only [askAllHex, List.map_cons]
    unfold getHexNbhd
    cases hl : cache.lookup k with
    | some v =>
      simp only []
      rw [ih cache hc, hc k v hl]
    | none =>
      simp only []
      rw [ih]
      intro k' v' h'
      rw [List.lookup_cons] at h'
      by_cases e : k' = k
      · subst e
        simp only [beq_self_eq_true] at h'
        cases h'
        rfl
      · have : (k' == k) = false := by simpa using e
        rw [this] at h'
        exact hc k' v' h'

theorem askAllHex_transparent (d : Dim) (qs : List HKey) :
    askAllHex d [] qs = qs.map (fun k => hexCompute d k.pos k.ic k.r) :=
  askAllHex_inv d qs [] (by intro k v h; simp at h)

end Mesa.Legacy
