import MesaModel.Proofs.Devs
/-!
Once its callable has been garbage-collected, an event is never executed (the twin of "once cancelled, never executed").
`Doomed i s`: id `i` sits on the list with its callable dead, or was already discarded.
-/
namespace Mesa.Devs

def Doomed (i : Nat) (s : Sim) : Prop := (∃ e ∈ s.pending, e.id = i ∧ e.dead = true) ∨ i ∈ s.gone

theorem doomed_mono {i : Nat} {s s' : Sim} (h : Doomed i s)
    (hp : ∀ e ∈ s.pending, e.dead = true → ∃ e' ∈ s'.pending, e'.id = e.id ∧ e'.dead = true)
    (hg : ∀ j ∈ s.gone, j ∈ s'.gone) : Doomed i s' := by
  rcases h with ⟨e, he, hi, hc⟩ | h
  · obtain ⟨e', he', hi', hc'⟩ := hp e he hc
    exact Or.inl ⟨e', he', by rw [hi', hi], hc'⟩
  · exact Or.inr (hg i h)

theorem pushUser_doomed {i : Nat} {s : Sim} (h : Doomed i s) (t : Int) (p a : Nat) (c : Option Nat := none) :
    Doomed i (pushUser s t p a c) :=
  doomed_mono h (fun e he hc => ⟨e, mem_insert.mpr (Or.inr he), rfl, hc⟩) (fun _ hj => hj)

theorem pushStep_doomed {i : Nat} {s : Sim} (h : Doomed i s) : Doomed i (pushStep s) :=
  doomed_mono h (fun e he hc => ⟨e, mem_insert.mpr (Or.inr he), rfl, hc⟩) (fun _ hj => hj)

theorem mapFlags_doomed {i : Nat} {s : Sim} (h : Doomed i s) (g : Ev → Ev)
    (hg : ∀ e, (g e).id = e.id ∧ (e.dead = true → (g e).dead = true)) :
    Doomed i { s with pending := s.pending.map g } :=
  doomed_mono h (fun e he hc => ⟨g e, List.mem_map.mpr ⟨e, he, rfl⟩, (hg e).1, (hg e).2 hc⟩) (fun _ hj => hj)

theorem doCmd1_doomed {i : Nat} {s : Sim} (h : Doomed i s) (c : Cmd) : Doomed i (doCmd1 s c) := by
  cases c with
  | schedAbs t p a =>
    simp only [doCmd1, schedAbs]
    split
    · rename_i s' hs
      split at hs
      · simp at hs
      · split at hs
        · simp at hs
        · simp only [Except.ok.injEq] at hs; subst hs; exact pushUser_doomed h _ _ _
    · exact h
  | schedRel d p a =>
    simp only [doCmd1, schedRel]
    split
    · rename_i s' hs
      split at hs
      · simp at hs
      · split at hs
        · simp at hs
        · simp only [Except.ok.injEq] at hs; subst hs; exact pushUser_doomed h _ _ _
    · exact h
  | again k d p =>
    rcases doCmd1_again_cases s k d p with he | ⟨a, _, _, he⟩ <;> rw [he]
    · exact h
    · exact pushUser_doomed h _ _ _ _
  | cancel k => exact mapFlags_doomed h _ (fun e => by split <;> simp)
  | drop k =>
    exact doomed_mono
      (mapFlags_doomed h (fun e => if !e.isStep && e.fn == k then { e with dead := true } else e) (fun e => by split <;> simp))
      (fun e he hc => ⟨e, he, rfl, hc⟩) (fun _ hj => hj)
  | halt => exact h
  | raise x => exact h

theorem doCmd_doomed {i : Nat} {s : Sim} (h : Doomed i s) (c : Cmd) : Doomed i (doCmd s c) := by
  unfold doCmd; split
  · exact h
  · exact doCmd1_doomed h c

theorem foldl_doCmd_doomed {i : Nat} {s : Sim} (h : Doomed i s) (cs : List Cmd) : Doomed i (cs.foldl doCmd s) := by
  induction cs generalizing s with
  | nil => exact h
  | cons c cs ih => exact ih (doCmd_doomed h c)

/-- one pop-and-execute step: a doomed id stays doomed (if it is the popped event itself, `execute` finds the callable
    dead and discards it) -/
theorem popExec_doomed {i : Nat} {s : Sim} (h : Doomed i s) {e₀ : Ev} {rest : List Ev}
    (hp : popLive s.pending = some (e₀, rest)) : Doomed i (exec (popped s e₀ rest) e₀) := by
  obtain ⟨hd, _⟩ := popLive_decomp hp
  have hcase : (e₀.id = i ∧ e₀.dead = true) ∨ Doomed i (popped s e₀ rest) := by
    rcases h with ⟨e, he, hi, hc⟩ | h
    · rw [hd] at he
      rcases List.mem_append.mp he with he | he
      · exact Or.inr (Or.inr (List.mem_append.mpr (Or.inr (List.mem_map.mpr ⟨e, he, hi⟩))))
      · rcases List.mem_cons.mp he with rfl | he
        · exact Or.inl ⟨hi, hc⟩
        · exact Or.inr (Or.inl ⟨e, he, hi, hc⟩)
    · exact Or.inr (Or.inr (List.mem_append.mpr (Or.inl h)))
  rcases hcase with ⟨hi, hdead⟩ | hdoom
  · right
    unfold exec
    rw [if_pos hdead]
    exact List.mem_append.mpr (Or.inr (by simp [hi]))
  · unfold exec
    split
    · exact doomed_mono hdoom (fun e he hc => ⟨e, he, rfl, hc⟩) (fun j hj => List.mem_append.mpr (Or.inl hj))
    · split
      · apply foldl_doCmd_doomed
        have h1 : Doomed i (rearm (popped s e₀ rest)) := by
          unfold rearm; split
          · exact pushStep_doomed hdoom
          · exact hdoom
        exact doomed_mono h1 (fun e he hc => ⟨e, he, rfl, hc⟩) (fun _ hj => hj)
      · apply foldl_doCmd_doomed
        exact doomed_mono hdoom (fun e he hc => ⟨e, he, rfl, hc⟩) (fun _ hj => hj)

theorem runUntil_doomed {i : Nat} {f : Nat} {s s' : Sim} {T : Int} (h : Doomed i s)
    (hr : runUntil f s T = some s') : Doomed i s' := by
  induction f generalizing s with
  | zero => simp [runUntil] at hr
  | succ f ih =>
    simp only [runUntil] at hr
    split at hr
    · rename_i hp
      simp only [Option.some.injEq] at hr; subst hr
      rcases h with ⟨e, he, hi, _⟩ | h
      · rw [← popLive_none hp] at he
        exact Or.inr (List.mem_append.mpr (Or.inr (List.mem_map.mpr ⟨e, he, hi⟩)))
      · exact Or.inr (List.mem_append.mpr (Or.inl h))
    · rename_i e₀ rest hp
      split at hr
      · split at hr
        · simp only [Option.some.injEq] at hr; subst hr; exact popExec_doomed h hp
        · exact ih (popExec_doomed h hp) hr
      · simp only [Option.some.injEq] at hr; subst hr
        obtain ⟨hd, _⟩ := popLive_decomp hp
        rcases h with ⟨e, he, hi, hc⟩ | h
        · rw [hd] at he
          rcases List.mem_append.mp he with he | he
          · exact Or.inr (List.mem_append.mpr (Or.inr (List.mem_map.mpr ⟨e, he, hi⟩)))
          · refine Or.inl ⟨e, mem_insert.mpr ?_, hi, hc⟩
            rcases List.mem_cons.mp he with rfl | he
            · exact Or.inl rfl
            · exact Or.inr he
        · exact Or.inr (List.mem_append.mpr (Or.inl h))

theorem runNext_doomed {i : Nat} {s : Sim} (h : Doomed i s) : Doomed i (runNext s) := by
  unfold runNext
  split
  · rename_i hp
    rcases h with ⟨e, he, hi, _⟩ | h
    · rw [← popLive_none hp] at he
      exact Or.inr (List.mem_append.mpr (Or.inr (List.mem_map.mpr ⟨e, he, hi⟩)))
    · exact Or.inr (List.mem_append.mpr (Or.inl h))
  · rename_i e₀ rest hp
    exact popExec_doomed h hp

theorem doomed_stays {i : Nat} {s s' : Sim} (h : Doomed i s) (hr : ReachableFrom s s') : Doomed i s' := by
  induction hr with
  | refl => exact h
  | cmd c _ ih => exact doCmd_doomed ih c
  | «until» _ _ hrun ih => exact runUntil_doomed ih hrun
  | next _ ih => exact runNext_doomed ih
  | caught _ ih => exact ih

theorem doomed_not_logged {i : Nat} {s : Sim} (ha : Acc s) (h : Doomed i s) : i ∉ logIds s.log := by
  intro hl
  have hc := ha i
  have h1 : 0 < (logIds s.log).count i := List.count_pos_iff.mpr hl
  have h2 : 0 < (ids s.pending).count i + s.gone.count i := by
    rcases h with ⟨e, he, hi, _⟩ | h
    · have : 0 < (ids s.pending).count i := List.count_pos_iff.mpr (List.mem_map.mpr ⟨e, he, hi⟩)
      omega
    · have : 0 < s.gone.count i := List.count_pos_iff.mpr h
      omega
  simp only [List.count_nil, Nat.add_zero] at hc
  split at hc <;> omega

end Mesa.Devs
