import MesaModel.Proofs.Legacy
import MesaModel.Proofs.LegacyOrth
/-! Mutating calls interleaved with cached `get_neighbors` queries on one grid instance (C09, round 3, review item L11):
the cache never goes stale, because its entries depend on the grid's shape only and no call changes the shape. -/
namespace Mesa.Legacy

open Grid

/-- a call of an interleaved history: a mutating call / read of `empties`, or `get_neighbors(pos, moore, include_center, radius)` -/
inductive GQ where
  | op (o : Op)
  | nbrs (k : NKey)

/-- the answers of the `get_neighbors` calls of an interleaved history, computed as the code does: through the cache -/
def runQ : Grid → NCache → List GQ → List (Except Err (List Aid))
  | _, _, [] => []
  | g, c, .op o :: rest => runQ (step g o).1 c rest
  | g, c, .nbrs k :: rest => ((getNbhd g.dim c k).2.map (cellsContents g)) :: runQ g (getNbhd g.dim c k).1 rest

/-- the same with a fresh neighbourhood computation for every query, on the grid as it is at that moment -/
def freshQ : Grid → List GQ → List (Except Err (List Aid))
  | _, [] => []
  | g, .op o :: rest => freshQ (step g o).1 rest
  | g, .nbrs k :: rest => ((nbhdCompute g.dim k).map (cellsContents g)) :: freshQ g rest

/-- the quantifier's precondition on the mutating calls of an interleaved history -/
def HistOkQ : Grid → List GQ → Prop
  | _, [] => True
  | g, .op o :: rest => OpOk g o ∧ HistOkQ (step g o).1 rest
  | g, .nbrs _ :: rest => HistOkQ g rest

theorem getNbhd_sound (d : Dim) (c : NCache) (k : NKey)
    (hc : ∀ k v, c.lookup k = some v → nbhdCompute d k = .ok v) :
    (getNbhd d c k).2 = nbhdCompute d k ∧ ∀ k' v, (getNbhd d c k).1.lookup k' = some v → nbhdCompute d k' = .ok v := by
  unfold getNbhd
  cases hl : c.lookup k with
  | some v => exact ⟨(hc k v hl).symm, hc⟩
  | none =>
    cases hn : nbhdCompute d k with
    | error e => exact ⟨rfl, hc⟩
    | ok v =>
      refine ⟨rfl, fun k' v' h' => ?_⟩
      simp only [] at h'
      rw [List.lookup_cons] at h'
      by_cases hk : k' = k
      · subst hk; simp at h'; subst h'; exact hn
      · have : (k' == k) = false := by simpa using hk
        rw [this] at h'; exact hc k' v' h'

theorem runQ_eq_freshQ (hist : List GQ) : ∀ (g : Grid) (c : NCache), 0 < g.w → 0 < g.h → Inv g →
    (∀ k v, c.lookup k = some v → nbhdCompute g.dim k = .ok v) → HistOkQ g hist → runQ g c hist = freshQ g hist := by
  induction hist with
  | nil => intro g c _ _ _ _ _; rfl
  | cons x rest ih =>
    intro g c hw hh hi hc hok
    cases x with
    | op o =>
      obtain ⟨hok1, hok2⟩ := hok
      obtain ⟨i1, c1⟩ := step_inv_cfg g o hw hh hi hok1
      have hdim : (step g o).1.dim = g.dim := by simp only [Grid.dim, c1.1, c1.2.1, c1.2.2.1]
      simp only [runQ, freshQ]
      exact ih (step g o).1 c (by rw [c1.1]; exact hw) (by rw [c1.2.1]; exact hh) i1 (by rw [hdim]; exact hc) hok2
    | nbrs k =>
      obtain ⟨h1, h2⟩ := getNbhd_sound g.dim c k hc
      simp only [runQ, freshQ, h1]
      rw [ih g (getNbhd g.dim c k).1 hw hh hi h2 hok]

end Mesa.Legacy
