import MesaModel.Gen.FnCells
import MesaModel.Proofs.CellConnect
/-!
Equivalence of the definitions GENERATED from mesa/discrete_space/grid.py (`Gen/FnCells.lean`, rewritten by
`harness/py2lean.py` on every check) with the hand-written model `Model/CellGeometry.lean` (C07).

The proofs never mention the syntactic shape of the generated loop body: the generated `List.foldl` is matched by the
generic lemma `foldl_emit` (any step function that appends at most one element), and the step is then compared with
the model by `simp` / `omega` / case analysis.  Renamed locals, reordered independent statements or an equivalent
restructuring of the Python therefore still check; a changed comparison or a dropped wrap does not.
-/
namespace Mesa.Cells

/-- closes a leaf after case splitting: by simplification with the hypotheses, else by linear arithmetic over them -/
macro "xl_close" : tactic => `(tactic| first | (simp_all; done) | ((try simp_all) <;> omega))

/-- a loop that appends at most one element per iteration is a `filterMap` -/
theorem foldl_emit {α β : Type} (g : List β → α → List β) (f : α → Option β)
    (hg : ∀ acc x, g acc x = acc ++ (f x).toList) (acc : List β) (l : List α) :
    l.foldl g acc = acc ++ l.filterMap f := by
  induction l generalizing acc with
  | nil => simp
  | cons x xs ih =>
    rw [List.foldl_cons, ih, hg, List.filterMap_cons]
    cases f x <;> simp

/-- `Grid._connect_single_cell_2d` as generated from the source = the model's `connect2d` over the offsets
    (`height, width = self.dimensions` positive, as `Grid._validate_parameters` guarantees). -/
theorem C07_gen_connect_single_cell_2d_eq_model (h w : Nat) (hh : 0 < h) (hw : 0 < w) (torus : Bool) (i j : Int)
    (offsets : List (Int × Int)) :
    GenFn.connect_single_cell_2d ⟨((h : Int), (w : Int)), torus⟩ ⟨(i, j)⟩ offsets =
      offsets.filterMap fun (di, dj) => (connect2d h w torus i j di dj).map fun (ni, nj) => ((ni, nj), (di, dj)) := by
  have h0 : (0 : Int) ≤ h := by omega
  have w0 : (0 : Int) ≤ w := by omega
  unfold GenFn.connect_single_cell_2d
  simp only []
  rw [foldl_emit (f := fun (di, dj) => (connect2d h w torus i j di dj).map fun (ni, nj) => ((ni, nj), (di, dj)))]
  · simp
  · rintro acc ⟨di, dj⟩
    cases torus <;>
      simp [connect2d, Int.fmod_eq_emod_of_nonneg, h0, w0] <;> (repeat' split) <;> xl_close

/-! ### the n-D path -/

theorem map_zip_eq_zipWith {α β γ : Type} (f : α × β → γ) (a : List α) (b : List β) :
    (List.zip a b).map f = List.zipWith (fun x y => f (x, y)) a b := by
  induction a generalizing b with
  | nil => simp
  | cons x xs ih => cases b <;> simp [ih]

theorem all_zip_eq_zipWith {α β : Type} (f : α × β → Bool) (a : List α) (b : List β) :
    (List.zip a b).all f = (List.zipWith (fun x y => f (x, y)) a b).all id := by
  induction a generalizing b with
  | nil => simp
  | cons x xs ih => cases b <;> simp [ih]

/-- `Grid._connect_single_cell_nd` as generated from the source = the model's `connectNd` over the offsets. -/
theorem C07_gen_connect_single_cell_nd_eq_model (dims : List Nat) (_hpos : ∀ w ∈ dims, 0 < w) (torus : Bool)
    (c : List Int) (offsets : List (List Int)) :
    GenFn.connect_single_cell_nd ⟨dims.map fun (w : Nat) => (w : Int), torus⟩ ⟨c⟩ offsets =
      offsets.filterMap fun d => (connectNd dims torus c d).map fun n => (n, d) := by
  unfold GenFn.connect_single_cell_nd
  simp only []
  rw [foldl_emit (f := fun d => (connectNd dims torus c d).map fun n => (n, d))]
  · simp
  · intro acc d
    cases torus <;>
      simp [connectNd, addv, wrapv, inb, map_zip_eq_zipWith, all_zip_eq_zipWith, List.zipWith_map_right,
        Int.fmod_eq_emod_of_nonneg] <;> (repeat' split) <;> xl_close

/-! ### the n-D offset tables (`_connect_cells_nd` of the Moore and von Neumann grids) -/

/-- a loop that appends a list per iteration is a `flatMap` -/
theorem foldl_emit_many {α β : Type} (g : List β → α → List β) (f : α → List β)
    (hg : ∀ acc x, g acc x = acc ++ f x) (acc : List β) (l : List α) :
    l.foldl g acc = acc ++ l.flatMap f := by
  induction l generalizing acc with
  | nil => simp
  | cons x xs ih => rw [List.foldl_cons, ih, hg, List.flatMap_cons, List.append_assoc]

theorem pyRange_zero (n : Nat) : Py.range 0 (n : Int) = (List.range n).map fun (i : Nat) => (i : Int) := by
  simp [Py.range]

theorem productRepeat_eq_prod3 (n : Nat) : Py.productRepeat [(-1 : Int), 0, 1] n = prod3 n := by
  induction n with
  | zero => rfl
  | succ n ih => simp [Py.productRepeat, prod3, ih]

/-- `OrthogonalMooreGrid._connect_cells_nd` as generated: every cell is connected with the model's `mooreOffsets n`. -/
theorem C07_gen_moore_connect_cells_nd_eq_model (dims : List Int) (cells : List GenFn.CellNd) :
    GenFn.moore_connect_cells_nd ⟨dims, cells⟩ = cells.map fun c => (c, mooreOffsets dims.length) := by
  unfold GenFn.moore_connect_cells_nd
  simp only []
  rw [foldl_emit (f := fun c => some (c, mooreOffsets dims.length))]
  · simp
  · intro acc c
    simp [mooreOffsets, zeroVec, productRepeat_eq_prod3]

/-- `OrthogonalVonNeumannGrid._connect_cells_nd` as generated: every cell is connected with the model's `vnOffsets n`. -/
theorem C07_gen_vn_connect_cells_nd_eq_model (dims : List Int) (cells : List GenFn.CellNd) :
    GenFn.vn_connect_cells_nd ⟨dims, cells⟩ = cells.map fun c => (c, vnOffsets dims.length) := by
  unfold GenFn.vn_connect_cells_nd
  simp only []
  rw [foldl_emit_many (f := fun (dim : Int) => [unitVec dims.length dim.toNat (-1), unitVec dims.length dim.toNat 1])]
  · rw [foldl_emit (f := fun c => some (c, vnOffsets dims.length))]
    · simp
    · intro acc c
      simp [vnOffsets, pyRange_zero, List.flatMap_map]
  · intro acc dim
    simp [unitVec, zeroVec]

/-! ### property statements of C07 directly over the generated (code-derived) definitions -/

/-- C07 connection clause about the code-derived text: the `connect` calls `Grid._connect_single_cell_nd` makes for the
    cell `c` are exactly `(c', key)` with `key` one of the offsets and `c' = c + key` (wrapped component-wise on a
    torus) in bounds. -/
theorem C07_connect_spec_generated {dims : List Nat} (hpos : ∀ w ∈ dims, 0 < w) {torus : Bool} {c : List Int}
    (hc : c.length = dims.length) (offsets : List (List Int)) (hoff : ∀ d ∈ offsets, d.length = dims.length)
    (key c' : List Int) :
    (c', key) ∈ GenFn.connect_single_cell_nd ⟨dims.map fun (w : Nat) => (w : Int), torus⟩ ⟨c⟩ offsets ↔
      key ∈ offsets ∧ c' = (if torus then wrapv (addv c key) dims else addv c key) ∧ InB c' dims := by
  rw [C07_gen_connect_single_cell_nd_eq_model dims hpos, List.mem_filterMap]
  constructor
  · rintro ⟨d, hd, h⟩
    cases hcn : connectNd dims torus c d with
    | none => simp [hcn] at h
    | some n =>
      simp only [hcn, Option.map_some, Option.some.injEq, Prod.mk.injEq] at h
      obtain ⟨rfl, rfl⟩ := h
      exact ⟨hd, (connectNd_spec hc (hoff _ hd)).mp hcn⟩
  · rintro ⟨hk, h⟩
    exact ⟨key, hk, by rw [(connectNd_spec hc (hoff _ hk)).mpr h]; rfl⟩

/-- C07 offsets clause about the code-derived text: the table `OrthogonalMooreGrid._connect_cells_nd` hands to every
    cell is exactly the set of vectors of Chebyshev norm 1, each once; the von Neumann one is the vectors of Manhattan
    norm 1. -/
theorem C07_offsets_spec_generated (dims : List Int) (cells : List GenFn.CellNd) (c : GenFn.CellNd) (offs : List (List Int))
    (d : List Int) :
    ((c, offs) ∈ GenFn.moore_connect_cells_nd ⟨dims, cells⟩ →
      (d ∈ offs ↔ d.length = dims.length ∧ chebNorm d = 1) ∧ offs.Nodup) ∧
    ((c, offs) ∈ GenFn.vn_connect_cells_nd ⟨dims, cells⟩ →
      (d ∈ offs ↔ d.length = dims.length ∧ manhNorm d = 1)) := by
  rw [C07_gen_moore_connect_cells_nd_eq_model, C07_gen_vn_connect_cells_nd_eq_model]
  simp only [List.mem_map, Prod.mk.injEq]
  constructor
  · rintro ⟨_, _, _, rfl⟩
    exact ⟨mem_mooreOffsets_norm _ d, mooreOffsets_nodup _⟩
  · rintro ⟨_, _, _, rfl⟩
    exact mem_vnOffsets_norm _ d

/-! ### the 2-D paths (`_connect_cells_2d` of the three grid classes) and the whole connection structure -/

/-- `_connect_cells_2d` of the Moore / von Neumann / hex grid as generated: every cell gets the model's `offsets2d` table
    (hex: by the parity of `coordinate[1]`). -/
theorem C07_gen_connect_cells_2d_eq_model (cells : List GenFn.Cell2d) :
    GenFn.moore_connect_cells_2d ⟨cells⟩ = cells.map (fun c => (c, offsets2d .moore c.coordinate.2)) ∧
    GenFn.vn_connect_cells_2d ⟨cells⟩ = cells.map (fun c => (c, offsets2d .vn c.coordinate.2)) ∧
    GenFn.hex_connect_cells_2d ⟨cells⟩ = cells.map (fun c => (c, offsets2d .hex c.coordinate.2)) := by
  refine ⟨?_, ?_, ?_⟩
  · unfold GenFn.moore_connect_cells_2d
    simp only []
    rw [foldl_emit (f := fun c => some (c, offsets2d .moore c.coordinate.2))]
    · simp
    · intro acc c; simp [offsets2d, Gen.moore2d]
  · unfold GenFn.vn_connect_cells_2d
    simp only []
    rw [foldl_emit (f := fun c => some (c, offsets2d .vn c.coordinate.2))]
    · simp
    · intro acc c; simp [offsets2d, Gen.vn2d]
  · unfold GenFn.hex_connect_cells_2d
    simp only []
    rw [foldl_emit (f := fun c => some (c, offsets2d .hex c.coordinate.2))]
    · simp
    · intro acc c
      have h2 : Int.fmod c.coordinate.2 2 = c.coordinate.2 % 2 := Int.fmod_eq_emod_of_nonneg _ (by omega)
      simp only [offsets2d, hexTable, Gen.hexWhenOdd, Gen.hexWhenEven, h2, Option.toList]
      (repeat' split) <;> xl_close

/-- the `connect` calls of one cell, as the model lists a cell's `connections` (key ↦ cell) -/
def asConn2 (l : List ((Int × Int) × (Int × Int))) : List (Key × Coord) := l.map fun (n, d) => ([d.1, d.2], [n.1, n.2])

/-- `Grid._connect_cells` as generated (the dispatch): the 2-D path (tag 2) exactly for two axes, else the n-D path (tag 0) -/
theorem C07_gen_connect_cells_eq_model (n : Int) :
    GenFn.connect_cells ⟨n⟩ = [if n = 2 then 2 else 0] := by
  unfold GenFn.connect_cells
  by_cases h : n = 2
  · subst h; simp
  · have h' : ¬ (2 = n) := fun e => h e.symm
    simp [h, h']

/-- the whole of `Grid._connect_cells()` RUN FROM THE GENERATED PIECES for a grid of class `k` over `cells` (`all_cells`):
    the generated dispatch `_connect_cells` says which path is taken (tag 2 / 0, nothing assumed about it); on that path
    the class's generated `_connect_cells_2d` / `_connect_cells_nd` hands every cell its offsets; for every `(cell,
    offsets)` handed on, the generated `_connect_single_cell_2d` / `_nd` makes the `connect` calls.  Result: per cell, in
    `all_cells` order, its coordinate and its connections (key ↦ neighbour).  `HexGrid._connect_cells_nd` raises
    `NotImplementedError` (not translated): no cell is connected, `[]`; the theorem below is for two-axis hex grids. -/
def runConnectCells (k : GridKind) (dims : List Nat) (torus : Bool) (cells : List Coord) : List (Coord × List (Key × Coord)) :=
  (GenFn.connect_cells ⟨(dims.length : Int)⟩).flatMap fun tag =>
    if tag = 2 then
      let g2 : GenFn.Grid2d := ⟨(((dims.getD 0 0 : Nat) : Int), ((dims.getD 1 0 : Nat) : Int)), torus⟩
      let cs : List GenFn.Cell2d := cells.map fun c => ⟨(c.getD 0 0, c.getD 1 0)⟩
      (match k with
        | .moore => GenFn.moore_connect_cells_2d ⟨cs⟩
        | .vn => GenFn.vn_connect_cells_2d ⟨cs⟩
        | .hex => GenFn.hex_connect_cells_2d ⟨cs⟩).map fun (p : GenFn.Cell2d × List (Int × Int)) =>
          ([p.1.coordinate.1, p.1.coordinate.2], asConn2 (GenFn.connect_single_cell_2d g2 p.1 p.2))
    else
      let di : List Int := dims.map fun (w : Nat) => (w : Int)
      let cs : List GenFn.CellNd := cells.map fun c => ⟨c⟩
      (match k with
        | .moore => GenFn.moore_connect_cells_nd ⟨di, cs⟩
        | .vn => GenFn.vn_connect_cells_nd ⟨di, cs⟩
        | .hex => []).map fun (p : GenFn.CellNd × List (List Int)) =>
          (p.1.coordinate, (GenFn.connect_single_cell_nd ⟨di, torus⟩ p.1 p.2).map fun (n, d) => (d, n))

theorem conn2_key (h w : Nat) (hh : 0 < h) (hw : 0 < w) (torus : Bool) (i j : Int) (offs : List (Int × Int)) :
    asConn2 (GenFn.connect_single_cell_2d ⟨((h : Int), (w : Int)), torus⟩ ⟨(i, j)⟩ offs) =
      offs.filterMap fun (di, dj) => (connect2d h w torus i j di dj).map fun (ni, nj) => ([di, dj], [ni, nj]) := by
  rw [C07_gen_connect_single_cell_2d_eq_model h w hh hw, asConn2, List.map_filterMap]
  congr 1
  funext ⟨di, dj⟩
  cases hcn : connect2d h w torus i j di dj <;> simp [hcn]

theorem connNd_key (dims : List Nat) (hpos : ∀ w ∈ dims, 0 < w) (torus : Bool) (c : List Int) (offs : List (List Int)) :
    ((GenFn.connect_single_cell_nd ⟨dims.map fun (w : Nat) => (w : Int), torus⟩ ⟨c⟩ offs).map fun (n, d) => (d, n)) =
      offs.filterMap fun d => (connectNd dims torus c d).map fun n => (d, n) := by
  rw [C07_gen_connect_single_cell_nd_eq_model dims hpos, List.map_filterMap]
  congr 1
  funext d
  cases hcn : connectNd dims torus c d <;> simp [hcn]

/-- **C07 about the code-derived text, end to end** (dispatch included, every cell list): running the generated
    `_connect_cells` → `_connect_cells_2d/_nd` of the grid class → `_connect_single_cell_2d/_nd` over ANY list of cells of
    the grid's arity gives every cell exactly the model's `gridConn` — the object of `C07_grid_connections`,
    `C07_grid_symmetric`, `C07_nbhd_spec`.  (`HexGrid` exists for two axes only.) -/
theorem C07_grid_connections_generated (k : GridKind) (dims : List Nat) (hpos : ∀ w ∈ dims, 0 < w)
    (hk : k = .hex → dims.length = 2) (torus : Bool) (cells : List Coord) (hc : ∀ c ∈ cells, c.length = dims.length) :
    runConnectCells k dims torus cells = cells.map fun c => (c, gridConn k dims torus c) := by
  unfold runConnectCells
  rw [C07_gen_connect_cells_eq_model]
  by_cases h2 : dims.length = 2
  · match dims, h2 with
    | [h, w], _ =>
      have hh : 0 < h := hpos h (by simp)
      have hw : 0 < w := hpos w (by simp)
      obtain ⟨h1, h2', h3⟩ := C07_gen_connect_cells_2d_eq_model (cells.map fun c => (⟨(c.getD 0 0, c.getD 1 0)⟩ : GenFn.Cell2d))
      have hcell : ∀ c ∈ cells, ∃ i j, c = [i, j] := by
        intro c hm
        have := hc c hm
        match c, this with
        | [i, j], _ => exact ⟨i, j, rfl⟩
      cases k <;> simp only [h1, h2', h3, List.length_cons, List.length_nil, Nat.zero_add, Nat.reduceAdd, Int.cast_ofNat_Int,
          if_true, List.flatMap_cons, List.flatMap_nil, List.append_nil, List.map_map, List.getD_cons_zero,
          List.getD_cons_succ] <;>
        (apply List.map_congr_left
         intro c hm
         obtain ⟨i, j, rfl⟩ := hcell c hm
         simp [conn2_key h w hh hw, gridConn])
  · have hn : ((dims.length : Nat) : Int) ≠ 2 := by omega
    have hg : ∀ k c, gridConn k dims torus c =
        (offsetsNd k dims.length).filterMap fun d => (connectNd dims torus c d).map fun n => (d, n) := by
      intro k c
      unfold gridConn
      split
      · simp at h2
      · rfl
    cases k with
    | hex => exact absurd (hk rfl) h2
    | moore =>
      simp only [hn, if_false, List.flatMap_cons, List.flatMap_nil, List.append_nil,
        C07_gen_moore_connect_cells_nd_eq_model, List.map_map]
      apply List.map_congr_left
      intro c _
      simp [connNd_key dims hpos, hg, offsetsNd]
    | vn =>
      simp only [hn, if_false, List.flatMap_cons, List.flatMap_nil, List.append_nil,
        C07_gen_vn_connect_cells_nd_eq_model, List.map_map]
      apply List.map_congr_left
      intro c _
      simp [connNd_key dims hpos, hg, offsetsNd]

/-- … in particular over the grid's own cells `product(*(range(d) for d in dimensions))` (`allCoords`), in that order -/
theorem C07_grid_connections_generated_all (k : GridKind) (dims : List Nat) (hpos : ∀ w ∈ dims, 0 < w)
    (hk : k = .hex → dims.length = 2) (torus : Bool) :
    runConnectCells k dims torus (allCoords dims) = (allCoords dims).map fun c => (c, gridConn k dims torus c) :=
  C07_grid_connections_generated k dims hpos hk torus (allCoords dims)
    (fun c h => ((mem_allCoords dims c).mp h).length_eq)

end Mesa.Cells
