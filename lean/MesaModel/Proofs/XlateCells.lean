import MesaModel.Gen.FnCells
import MesaModel.Model.CellGeometry
/-!
Equivalence of the definitions GENERATED from mesa/discrete_space/grid.py (`Gen/FnCells.lean`, rewritten by
`harness/py2lean.py` on every check) with the hand-written model `Model/CellGeometry.lean` (C07).

The proofs never mention the syntactic shape of the generated loop body: the generated `List.foldl` is matched by the
generic lemma `foldl_emit` (any step function that appends at most one element), and the step is then compared with
the model by `simp` / `omega` / case analysis.  Renamed locals, reordered independent statements or an equivalent
restructuring of the Python therefore still check; a changed comparison or a dropped wrap does not.
-/
namespace Mesa.Cells

/-- a loop that appends at most one element per iteration is a `filterMap` -/
theorem foldl_emit {α β : Type} (g : List β → α → List β) (f : α → Option β)
    (hg : ∀ acc x, g acc x = acc ++ (f x).toList) (acc : List β) (l : List α) :
    l.foldl g acc = acc ++ l.filterMap f := by
  induction l generalizing acc with
  | nil => simp
  | cons x xs ih =>
    rw [List.foldl_cons, ih, hg, List.filterMap_cons]
    cases f x <;> simp

/-- `Grid._connect_single_cell_2d` as generated from the source = the model's `connect2d` over the offsets
    (`height, width = self.dimensions` positive, as `Grid._validate_parameters` guarantees). -/
theorem C07_gen_connect_single_cell_2d_eq_model (h w : Nat) (hh : 0 < h) (hw : 0 < w) (torus : Bool) (i j : Int)
    (offsets : List (Int × Int)) :
    GenFn.connect_single_cell_2d ⟨((h : Int), (w : Int)), torus⟩ ⟨(i, j)⟩ offsets =
      offsets.filterMap fun (di, dj) => (connect2d h w torus i j di dj).map fun (ni, nj) => ((ni, nj), (di, dj)) := by
  have h0 : (0 : Int) ≤ h := by omega
  have w0 : (0 : Int) ≤ w := by omega
  unfold GenFn.connect_single_cell_2d
  simp only []
  rw [foldl_emit (f := fun (di, dj) => (connect2d h w torus i j di dj).map fun (ni, nj) => ((ni, nj), (di, dj)))]
  · simp
  · rintro acc ⟨di, dj⟩
    cases torus <;>
      simp [connect2d, Int.fmod_eq_emod_of_nonneg, h0, w0] <;> split <;> simp_all

/-! ### the n-D path -/

theorem map_zip_eq_zipWith {α β γ : Type} (f : α × β → γ) (a : List α) (b : List β) :
    (List.zip a b).map f = List.zipWith (fun x y => f (x, y)) a b := by
  induction a generalizing b with
  | nil => simp
  | cons x xs ih => cases b <;> simp [ih]

theorem all_zip_eq_zipWith {α β : Type} (f : α × β → Bool) (a : List α) (b : List β) :
    (List.zip a b).all f = (List.zipWith (fun x y => f (x, y)) a b).all id := by
  induction a generalizing b with
  | nil => simp
  | cons x xs ih => cases b <;> simp [ih]

/-- `Grid._connect_single_cell_nd` as generated from the source = the model's `connectNd` over the offsets. -/
theorem C07_gen_connect_single_cell_nd_eq_model (dims : List Nat) (_hpos : ∀ w ∈ dims, 0 < w) (torus : Bool)
    (c : List Int) (offsets : List (List Int)) :
    GenFn.connect_single_cell_nd ⟨dims.map fun (w : Nat) => (w : Int), torus⟩ ⟨c⟩ offsets =
      offsets.filterMap fun d => (connectNd dims torus c d).map fun n => (n, d) := by
  unfold GenFn.connect_single_cell_nd
  simp only []
  rw [foldl_emit (f := fun d => (connectNd dims torus c d).map fun n => (n, d))]
  · simp
  · intro acc d
    cases torus <;>
      simp [connectNd, addv, wrapv, inb, map_zip_eq_zipWith, all_zip_eq_zipWith, List.zipWith_map_right,
        Int.fmod_eq_emod_of_nonneg] <;> split <;> simp_all
