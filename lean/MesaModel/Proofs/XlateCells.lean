import MesaModel.Gen.FnCells
import MesaModel.Proofs.CellConnect
/-!
Equivalence of the definitions GENERATED from mesa/discrete_space/grid.py (`Gen/FnCells.lean`, rewritten by
`harness/py2lean.py` on every check) with the hand-written model `Model/CellGeometry.lean` (C07).

The proofs never mention the syntactic shape of the generated loop body: the generated `List.foldl` is matched by the
generic lemma `foldl_emit` (any step function that appends at most one element), and the step is then compared with
the model by `simp` / `omega` / case analysis.  Renamed locals, reordered independent statements or an equivalent
restructuring of the Python therefore still check; a changed comparison or a dropped wrap does not.
-/
namespace Mesa.Cells

/-- closes a leaf after case splitting: by simplification with the hypotheses, else by linear arithmetic over them -/
macro "xl_close" : tactic => `(tactic| first | (simp_all; done) | ((try simp_all) <;> omega))

/-- a loop that appends at most one element per iteration is a `filterMap` -/
theorem foldl_emit {α β : Type} (g : List β → α → List β) (f : α → Option β)
    (hg : ∀ acc x, g acc x = acc ++ (f x).toList) (acc : List β) (l : List α) :
    l.foldl g acc = acc ++ l.filterMap f := by
  induction l generalizing acc with
  | nil => simp
  | cons x xs ih =>
    rw [List.foldl_cons, ih, hg, List.filterMap_cons]
    cases f x <;> simp

/-- `Grid._connect_single_cell_2d` as generated from the source = the model's `connect2d` over the offsets
    (`height, width = self.dimensions` positive, as `Grid._validate_parameters` guarantees). -/
theorem C07_gen_connect_single_cell_2d_eq_model (h w : Nat) (hh : 0 < h) (hw : 0 < w) (torus : Bool) (i j : Int)
    (offsets : List (Int × Int)) :
    GenFn.connect_single_cell_2d ⟨((h : Int), (w : Int)), torus⟩ ⟨(i, j)⟩ offsets =
      offsets.filterMap fun (di, dj) => (connect2d h w torus i j di dj).map fun (ni, nj) => ((ni, nj), (di, dj)) := by
  have h0 : (0 : Int) ≤ h := by omega
  have w0 : (0 : Int) ≤ w := by omega
  unfold GenFn.connect_single_cell_2d
  simp only []
  rw [foldl_emit (f := fun (di, dj) => (connect2d h w torus i j di dj).map fun (ni, nj) => ((ni, nj), (di, dj)))]
  · simp
  · rintro acc ⟨di, dj⟩
    cases torus <;>
      simp [connect2d, Int.fmod_eq_emod_of_nonneg, h0, w0] <;> (repeat' split) <;> xl_close

/-! ### the n-D path -/

theorem map_zip_eq_zipWith {α β γ : Type} (f : α × β → γ) (a : List α) (b : List β) :
    (List.zip a b).map f = List.zipWith (fun x y => f (x, y)) a b := by
  induction a generalizing b with
  | nil => simp
  | cons x xs ih => cases b <;> simp [ih]

theorem all_zip_eq_zipWith {α β : Type} (f : α × β → Bool) (a : List α) (b : List β) :
    (List.zip a b).all f = (List.zipWith (fun x y => f (x, y)) a b).all id := by
  induction a generalizing b with
  | nil => simp
  | cons x xs ih => cases b <;> simp [ih]

/-- `Grid._connect_single_cell_nd` as generated from the source = the model's `connectNd` over the offsets. -/
theorem C07_gen_connect_single_cell_nd_eq_model (dims : List Nat) (_hpos : ∀ w ∈ dims, 0 < w) (torus : Bool)
    (c : List Int) (offsets : List (List Int)) :
    GenFn.connect_single_cell_nd ⟨dims.map fun (w : Nat) => (w : Int), torus⟩ ⟨c⟩ offsets =
      offsets.filterMap fun d => (connectNd dims torus c d).map fun n => (n, d) := by
  unfold GenFn.connect_single_cell_nd
  simp only []
  rw [foldl_emit (f := fun d => (connectNd dims torus c d).map fun n => (n, d))]
  · simp
  · intro acc d
    cases torus <;>
      simp [connectNd, addv, wrapv, inb, map_zip_eq_zipWith, all_zip_eq_zipWith, List.zipWith_map_right,
        Int.fmod_eq_emod_of_nonneg] <;> (repeat' split) <;> xl_close

/-! ### the n-D offset tables (`_connect_cells_nd` of the Moore and von Neumann grids) -/

/-- a loop that appends a list per iteration is a `flatMap` -/
theorem foldl_emit_many {α β : Type} (g : List β → α → List β) (f : α → List β)
    (hg : ∀ acc x, g acc x = acc ++ f x) (acc : List β) (l : List α) :
    l.foldl g acc = acc ++ l.flatMap f := by
  induction l generalizing acc with
  | nil => simp
  | cons x xs ih => rw [List.foldl_cons, ih, hg, List.flatMap_cons, List.append_assoc]

theorem pyRange_zero (n : Nat) : Py.range 0 (n : Int) = (List.range n).map fun (i : Nat) => (i : Int) := by
  simp [Py.range]

theorem productRepeat_eq_prod3 (n : Nat) : Py.productRepeat [(-1 : Int), 0, 1] n = prod3 n := by
  induction n with
  | zero => rfl
  | succ n ih => simp [Py.productRepeat, prod3, ih]

/-- `OrthogonalMooreGrid._connect_cells_nd` as generated: every cell is connected with the model's `mooreOffsets n`. -/
theorem C07_gen_moore_connect_cells_nd_eq_model (dims : List Int) (cells : List GenFn.CellNd) :
    GenFn.moore_connect_cells_nd ⟨dims, cells⟩ = cells.map fun c => (c, mooreOffsets dims.length) := by
  unfold GenFn.moore_connect_cells_nd
  simp only []
  rw [foldl_emit (f := fun c => some (c, mooreOffsets dims.length))]
  · simp
  · intro acc c
    simp [mooreOffsets, zeroVec, productRepeat_eq_prod3]

/-- `OrthogonalVonNeumannGrid._connect_cells_nd` as generated: every cell is connected with the model's `vnOffsets n`. -/
theorem C07_gen_vn_connect_cells_nd_eq_model (dims : List Int) (cells : List GenFn.CellNd) :
    GenFn.vn_connect_cells_nd ⟨dims, cells⟩ = cells.map fun c => (c, vnOffsets dims.length) := by
  unfold GenFn.vn_connect_cells_nd
  simp only []
  rw [foldl_emit_many (f := fun (dim : Int) => [unitVec dims.length dim.toNat (-1), unitVec dims.length dim.toNat 1])]
  · rw [foldl_emit (f := fun c => some (c, vnOffsets dims.length))]
    · simp
    · intro acc c
      simp [vnOffsets, pyRange_zero, List.flatMap_map]
  · intro acc dim
    simp [unitVec, zeroVec]

/-! ### property statements of C07 directly over the generated (code-derived) definitions -/

/-- C07 connection clause about the code-derived text: the `connect` calls `Grid._connect_single_cell_nd` makes for the
    cell `c` are exactly `(c', key)` with `key` one of the offsets and `c' = c + key` (wrapped component-wise on a
    torus) in bounds. -/
theorem C07_connect_spec_generated {dims : List Nat} (hpos : ∀ w ∈ dims, 0 < w) {torus : Bool} {c : List Int}
    (hc : c.length = dims.length) (offsets : List (List Int)) (hoff : ∀ d ∈ offsets, d.length = dims.length)
    (key c' : List Int) :
    (c', key) ∈ GenFn.connect_single_cell_nd ⟨dims.map fun (w : Nat) => (w : Int), torus⟩ ⟨c⟩ offsets ↔
      key ∈ offsets ∧ c' = (if torus then wrapv (addv c key) dims else addv c key) ∧ InB c' dims := by
  rw [C07_gen_connect_single_cell_nd_eq_model dims hpos, List.mem_filterMap]
  constructor
  · rintro ⟨d, hd, h⟩
    cases hcn : connectNd dims torus c d with
    | none => simp [hcn] at h
    | some n =>
      simp only [hcn, Option.map_some, Option.some.injEq, Prod.mk.injEq] at h
      obtain ⟨rfl, rfl⟩ := h
      exact ⟨hd, (connectNd_spec hc (hoff _ hd)).mp hcn⟩
  · rintro ⟨hk, h⟩
    exact ⟨key, hk, by rw [(connectNd_spec hc (hoff _ hk)).mpr h]; rfl⟩

/-- C07 offsets clause about the code-derived text: the table `OrthogonalMooreGrid._connect_cells_nd` hands to every
    cell is exactly the set of vectors of Chebyshev norm 1, each once; the von Neumann one is the vectors of Manhattan
    norm 1. -/
theorem C07_offsets_spec_generated (dims : List Int) (cells : List GenFn.CellNd) (c : GenFn.CellNd) (offs : List (List Int))
    (d : List Int) :
    ((c, offs) ∈ GenFn.moore_connect_cells_nd ⟨dims, cells⟩ →
      (d ∈ offs ↔ d.length = dims.length ∧ chebNorm d = 1) ∧ offs.Nodup) ∧
    ((c, offs) ∈ GenFn.vn_connect_cells_nd ⟨dims, cells⟩ →
      (d ∈ offs ↔ d.length = dims.length ∧ manhNorm d = 1)) := by
  rw [C07_gen_moore_connect_cells_nd_eq_model, C07_gen_vn_connect_cells_nd_eq_model]
  simp only [List.mem_map, Prod.mk.injEq]
  constructor
  · rintro ⟨_, _, _, rfl⟩
    exact ⟨mem_mooreOffsets_norm _ d, mooreOffsets_nodup _⟩
  · rintro ⟨_, _, _, rfl⟩
    exact mem_vnOffsets_norm _ d

/-! ### the 2-D paths (`_connect_cells_2d` of the three grid classes) and the whole connection structure -/

/-- `_connect_cells_2d` of the Moore / von Neumann / hex grid as generated: every cell gets the model's `offsets2d` table
    (hex: by the parity of `coordinate[1]`). -/
theorem C07_gen_connect_cells_2d_eq_model (cells : List GenFn.Cell2d) :
    GenFn.moore_connect_cells_2d ⟨cells⟩ = cells.map (fun c => (c, offsets2d .moore c.coordinate.2)) ∧
    GenFn.vn_connect_cells_2d ⟨cells⟩ = cells.map (fun c => (c, offsets2d .vn c.coordinate.2)) ∧
    GenFn.hex_connect_cells_2d ⟨cells⟩ = cells.map (fun c => (c, offsets2d .hex c.coordinate.2)) := by
  refine ⟨?_, ?_, ?_⟩
  · unfold GenFn.moore_connect_cells_2d
    simp only []
    rw [foldl_emit (f := fun c => some (c, offsets2d .moore c.coordinate.2))]
    · simp
    · intro acc c; simp [offsets2d, Gen.moore2d]
  · unfold GenFn.vn_connect_cells_2d
    simp only []
    rw [foldl_emit (f := fun c => some (c, offsets2d .vn c.coordinate.2))]
    · simp
    · intro acc c; simp [offsets2d, Gen.vn2d]
  · unfold GenFn.hex_connect_cells_2d
    simp only []
    rw [foldl_emit (f := fun c => some (c, offsets2d .hex c.coordinate.2))]
    · simp
    · intro acc c
      have h2 : Int.fmod c.coordinate.2 2 = c.coordinate.2 % 2 := Int.fmod_eq_emod_of_nonneg _ (by omega)
      simp only [offsets2d, hexTable, Gen.hexWhenOdd, Gen.hexWhenEven, h2, Option.toList]
      (repeat' split) <;> xl_close

/-- the `connect` calls of one cell, as the model lists a cell's `connections` (key ↦ cell) -/
def asConn2 (l : List ((Int × Int) × (Int × Int))) : List (Key × Coord) := l.map fun (n, d) => ([d.1, d.2], [n.1, n.2])

/-- **C07 about the code-derived text, 2-D grids**: running the generated `_connect_cells_2d` of the grid class and, for
    every `(cell, offsets)` it hands on, the generated `_connect_single_cell_2d`, yields for the cell `(i, j)` exactly the
    model's `gridConn` — the object of `C07_grid_connections`, `C07_grid_symmetric`, `C07_nbhd_spec`. -/
theorem C07_grid_connections_generated_2d (h w : Nat) (hh : 0 < h) (hw : 0 < w) (torus : Bool) (i j : Int) :
    (∀ k : GridKind, ∀ calls,
      calls = (match k with
        | .moore => GenFn.moore_connect_cells_2d ⟨[⟨(i, j)⟩]⟩
        | .vn => GenFn.vn_connect_cells_2d ⟨[⟨(i, j)⟩]⟩
        | .hex => GenFn.hex_connect_cells_2d ⟨[⟨(i, j)⟩]⟩) →
      calls.flatMap (fun p => asConn2 (GenFn.connect_single_cell_2d ⟨((h : Int), (w : Int)), torus⟩ p.1 p.2)) =
        gridConn k [h, w] torus [i, j]) := by
  intro k calls hc
  obtain ⟨h1, h2, h3⟩ := C07_gen_connect_cells_2d_eq_model [⟨(i, j)⟩]
  have key : ∀ offs : List (Int × Int),
      asConn2 (GenFn.connect_single_cell_2d ⟨((h : Int), (w : Int)), torus⟩ ⟨(i, j)⟩ offs) =
        offs.filterMap fun (di, dj) => (connect2d h w torus i j di dj).map fun (ni, nj) => ([di, dj], [ni, nj]) := by
    intro offs
    rw [C07_gen_connect_single_cell_2d_eq_model h w hh hw, asConn2, List.map_filterMap]
    congr 1
    funext ⟨di, dj⟩
    cases hcn : connect2d h w torus i j di dj <;> simp [hcn]
  cases k <;> simp only [h1, h2, h3] at hc <;> subst hc <;> simp [key, gridConn]

/-- **the same for n-D grids** (any number of axes other than 2, where `Grid._connect_cells` takes the n-D path). -/
theorem C07_grid_connections_generated_nd (dims : List Nat) (hpos : ∀ w ∈ dims, 0 < w) (h2 : dims.length ≠ 2)
    (torus : Bool) (c : List Int) :
    ((GenFn.moore_connect_cells_nd ⟨dims.map fun (w : Nat) => (w : Int), [⟨c⟩]⟩).flatMap fun p =>
        (GenFn.connect_single_cell_nd ⟨dims.map fun (w : Nat) => (w : Int), torus⟩ p.1 p.2).map fun (n, d) => (d, n)) =
      gridConn .moore dims torus c ∧
    ((GenFn.vn_connect_cells_nd ⟨dims.map fun (w : Nat) => (w : Int), [⟨c⟩]⟩).flatMap fun p =>
        (GenFn.connect_single_cell_nd ⟨dims.map fun (w : Nat) => (w : Int), torus⟩ p.1 p.2).map fun (n, d) => (d, n)) =
      gridConn .vn dims torus c := by
  have key : ∀ offs : List (List Int),
      ((GenFn.connect_single_cell_nd ⟨dims.map fun (w : Nat) => (w : Int), torus⟩ ⟨c⟩ offs).map fun (n, d) => (d, n)) =
        offs.filterMap fun d => (connectNd dims torus c d).map fun n => (d, n) := by
    intro offs
    rw [C07_gen_connect_single_cell_nd_eq_model dims hpos, List.map_filterMap]
    congr 1
    funext d
    cases hcn : connectNd dims torus c d <;> simp [hcn]
  have hg : ∀ k, gridConn k dims torus c =
      (offsetsNd k dims.length).filterMap fun d => (connectNd dims torus c d).map fun n => (d, n) := by
    intro k
    unfold gridConn
    split
    · simp at h2
    · rfl
  rw [C07_gen_moore_connect_cells_nd_eq_model, C07_gen_vn_connect_cells_nd_eq_model]
  simp [key, hg, offsetsNd]
