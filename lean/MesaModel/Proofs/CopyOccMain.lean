import MesaModel.Proofs.CopyOcc
/-! The copy lemmas of `Model/CopyOcc.lean`: the records of the copied world, the view of the copy, its dependencies. -/
namespace Mesa.CopyOcc

variable {w : World}

section
variable (s : Nat) (sr : SpaceRec)

theorem copyWorld_next : (copyWorld w s sr).next = w.next + w.next := rfl

theorem copyWorld_cells_shift (c : Nat) : (copyWorld w s sr).cells (c + w.next) =
    if sr.cells.contains c then (w.cells c).map (shiftCell w.next) else none := by
  simp [copyWorld]

theorem copyWorld_agents_shift (a : Nat) : (copyWorld w s sr).agents (a + w.next) =
    if sr.reg.contains a then (w.agents a).map (shiftAgent w.next) else none := by
  simp [copyWorld]

theorem copyWorld_cells_old {i : Nat} (h : i < w.next) : (copyWorld w s sr).cells i = w.cells i := by
  have : ¬ w.next ≤ i := by omega
  simp [copyWorld, this]

theorem copyWorld_agents_old {i : Nat} (h : i < w.next) : (copyWorld w s sr).agents i = w.agents i := by
  have : ¬ w.next ≤ i := by omega
  simp [copyWorld, this]

theorem copyWorld_spaces_new : (copyWorld w s sr).spaces (s + w.next) =
    some { cells := sr.cells.map (· + w.next), reg := sr.reg.map (· + w.next) } := by
  simp [copyWorld]

theorem copyWorld_spaces_ne {i : Nat} (h : i ≠ s + w.next) : (copyWorld w s sr).spaces i = w.spaces i := by
  simp only [copyWorld]
  exact upd_ne _ _ h

/-- a cell record of the copied world is an old one or the shift of a cell of the copied space -/
theorem copyWorld_cells_cases {i : Nat} {cr' : CellRec} (h : (copyWorld w s sr).cells i = some cr') :
    (i < w.next ∧ w.cells i = some cr') ∨
    (∃ c cr, i = c + w.next ∧ c ∈ sr.cells ∧ w.cells c = some cr ∧ cr' = shiftCell w.next cr) := by
  by_cases hi : i < w.next
  · left; exact ⟨hi, by rw [← copyWorld_cells_old s sr hi]; exact h⟩
  · right
    have hi' : i = (i - w.next) + w.next := by omega
    rw [hi', copyWorld_cells_shift] at h
    split at h
    · rename_i hc
      cases hcr : w.cells (i - w.next) with
      | none => simp [hcr] at h
      | some cr =>
        simp only [hcr, Option.map_some, Option.some.injEq] at h
        exact ⟨i - w.next, cr, hi', by simpa using hc, hcr, h.symm⟩
    · simp at h

theorem copyWorld_agents_cases {i : Nat} {ar' : AgentRec} (h : (copyWorld w s sr).agents i = some ar') :
    (i < w.next ∧ w.agents i = some ar') ∨
    (∃ a ar, i = a + w.next ∧ a ∈ sr.reg ∧ w.agents a = some ar ∧ ar' = shiftAgent w.next ar) := by
  by_cases hi : i < w.next
  · left; exact ⟨hi, by rw [← copyWorld_agents_old s sr hi]; exact h⟩
  · right
    have hi' : i = (i - w.next) + w.next := by omega
    rw [hi', copyWorld_agents_shift] at h
    split at h
    · rename_i hc
      cases har : w.agents (i - w.next) with
      | none => simp [har] at h
      | some ar =>
        simp only [har, Option.map_some, Option.some.injEq] at h
        exact ⟨i - w.next, ar, hi', by simpa using hc, har, h.symm⟩
    · simp at h

theorem copyWorld_spaces_cases {i : Nat} {sr' : SpaceRec} (h : (copyWorld w s sr).spaces i = some sr') :
    (i ≠ s + w.next ∧ w.spaces i = some sr') ∨
    (i = s + w.next ∧ sr' = { cells := sr.cells.map (· + w.next), reg := sr.reg.map (· + w.next) }) := by
  simp only [copyWorld] at h
  rcases upd_cases h with ⟨h1, h2⟩ | ⟨h1, h2⟩
  · right; exact ⟨h1, h2⟩
  · left; exact ⟨h1, h2⟩
end

/-- the identity shift of what a space shows -/
def shiftCellView (B : Nat) : Nat × Nat × Option Nat × List Nat × List Nat × Nat × Option Nat →
    Nat × Nat × Option Nat × List Nat × List Nat × Nat × Option Nat
  | (c, i, cap, ags, conn, rnd, kl) => (c + B, i, cap, ags.map (· + B), conn.map (· + B), rnd + B, kl.map (· + B))

def shiftAgentView (B : Nat) : Nat × Nat × Option Nat → Nat × Nat × Option Nat
  | (a, u, c) => (a + B, u, c.map (· + B))

theorem copy_view (s : Nat) {w' : World} {s' : Nat} (hc : copySpace w s = some (w', s')) :
    ∃ cv av, view w s = some (cv, av) ∧ s' = s + w.next ∧
      view w' s' = some (cv.map (shiftCellView w.next), av.map (shiftAgentView w.next)) := by
  unfold copySpace at hc
  split at hc
  · simp at hc
  rename_i sr hsr
  simp only [Option.some.injEq, Prod.mk.injEq] at hc
  obtain ⟨rfl, rfl⟩ := hc
  refine ⟨sr.cells.filterMap (cellView w), sr.reg.filterMap (agentView w), by simp [view, hsr], rfl, ?_⟩
  simp only [view, copyWorld_spaces_new, List.filterMap_map, List.map_filterMap]
  congr 2
  · apply filterMap_congr'
    intro c hc
    have hc' : sr.cells.contains c = true := by simpa using hc
    simp only [Function.comp, cellView, copyWorld_cells_shift, hc', if_true]
    cases w.cells c <;> simp [shiftCellView, shiftCell]
  · apply filterMap_congr'
    intro a ha
    have ha' : sr.reg.contains a = true := by simpa using ha
    simp only [Function.comp, agentView, copyWorld_agents_shift, ha', if_true]
    cases w.agents a <;> simp [shiftAgentView, shiftAgent]

/-- everything the copy's view depends on is fresh -/
theorem copy_deps_fresh (s : Nat) {w' : World} {s' : Nat} (hc : copySpace w s = some (w', s')) :
    ∀ x ∈ deps w' s', w.next ≤ x := by
  unfold copySpace at hc
  split at hc
  · simp at hc
  rename_i sr hsr
  simp only [Option.some.injEq, Prod.mk.injEq] at hc
  obtain ⟨rfl, rfl⟩ := hc
  intro x hx
  simp only [deps, copyWorld_spaces_new, List.mem_cons, List.mem_append, List.mem_map] at hx
  rcases hx with rfl | ⟨c, _, rfl⟩ | ⟨a, _, rfl⟩ <;> omega

/-- a copy writes fresh identities only: every space that existed shows what it showed -/
theorem agree_copy (hw : WF w) {s0 : Nat} (hs : s0 < w.next) (s : Nat) {w' : World} {s' : Nat}
    (hc : copySpace w s = some (w', s')) : Agree w w' s0 := by
  have := agree_step hw hs (.copy s) (by simp [writes])
  simpa [step, hc] using this

end Mesa.CopyOcc
