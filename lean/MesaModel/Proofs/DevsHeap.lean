import MesaModel.Proofs.Devs
import MesaModel.Proofs.Heap
/-! The sorted-list event queue of the Devs model is a sound abstraction of the `heapq` array `EventList` really keeps. -/
namespace Mesa.Devs
open Mesa.Heap

theorem ev_swo : SWO Ev.lt :=
  ⟨fun _ _ h => Ev.lt_asymm h, fun a b c h1 h2 => by
    have n1 : ¬ (a.lt b = true) := by simp [h1]
    have n2 : ¬ (b.lt c = true) := by simp [h2]
    cases h : a.lt c
    · rfl
    · rw [Ev.lt_iff] at n1 n2 h; omega⟩

/-- the concrete heap array `hp` and the model's sorted list `s` hold the same events -/
structure Refines (hp s : List Ev) : Prop where
  heap : IsHeap Ev.lt hp
  perm : hp.Perm s
  sorted : Sorted s

theorem refines_nil : Refines [] [] := ⟨fun _ _ _ _ h => by simp at h, List.Perm.refl _, by simp [Sorted]⟩

/-- `heappush` on the array corresponds to sorted insertion in the model -/
theorem refines_push {hp s : List Ev} (r : Refines hp s) (e : Ev) (hid : ∀ x ∈ s, x.id ≠ e.id) :
    Refines (heappush Ev.lt hp e) (insert e s) :=
  ⟨heappush_heap ev_swo r.heap e,
   ((heappush_perm Ev.lt hp e).trans (List.Perm.cons e r.perm)).trans (insert_perm e s).symm,
   insert_sorted r.sorted hid⟩

/-- `heappop` on the array hands out exactly the head of the model's sorted list, and the remainders correspond -/
theorem refines_pop {hp s hp' : List Ev} {m : Ev} (r : Refines hp s) (hpop : heappop Ev.lt hp = some (m, hp')) :
    ∃ s', s = m :: s' ∧ Refines hp' s' := by
  obtain ⟨hperm, hheap, hmin, _⟩ := heappop_spec ev_swo r.heap hpop
  have hm : m ∈ s := r.perm.subset (hperm.symm.subset List.mem_cons_self)
  cases s with
  | nil => cases hm
  | cons x xs =>
    have hs := List.pairwise_cons.mp r.sorted
    have hxm : x = m := by
      rcases List.mem_cons.mp hm with rfl | hmem
      · rfl
      · -- x precedes m strictly, but m is a minimum of the heap, which contains x
        have hlt := hs.1 m hmem
        have hx : x ∈ hp := r.perm.symm.subset List.mem_cons_self
        rcases List.mem_cons.mp (hperm.subset hx) with rfl | hx'
        · rfl
        · have := hmin x hx'; rw [hlt] at this; cases this
    subst hxm
    refine ⟨xs, rfl, hheap, ?_, hs.2⟩
    exact (List.perm_cons x).mp (hperm.symm.trans r.perm)

theorem refines_pop_none {hp s : List Ev} (r : Refines hp s) (hpop : heappop Ev.lt hp = none) : s = [] := by
  unfold heappop at hpop
  split at hpop
  · rename_i hl
    have : hp = [] := by
      cases hp with
      | nil => rfl
      | cons a as => simp [List.getLast?_cons] at hl
    subst this
    exact List.eq_nil_of_length_eq_zero (by have := r.perm.length_eq; simpa using this.symm)
  · split at hpop <;> cases hpop

/-- `EventList.pop_event` on the array: `heappop` until a live event comes out -/
def heapPopLive : Nat → List Ev → Option (Ev × List Ev)
  | 0, _ => none
  | f+1, hp => match heappop Ev.lt hp with
    | none => none
    | some (e, hp') => if e.cancelled then heapPopLive f hp' else some (e, hp')

/-- … corresponds to the model's `popLive`: same event, corresponding remainders -/
theorem refines_popLive {hp s : List Ev} (r : Refines hp s) :
    match popLive s with
    | some (e, rest) => ∃ hp', heapPopLive (s.length + 1) hp = some (e, hp') ∧ Refines hp' rest
    | none => heapPopLive (s.length + 1) hp = none := by
  induction s generalizing hp with
  | nil =>
    have : hp = [] := List.eq_nil_of_length_eq_zero (by have := r.perm.length_eq; simpa using this)
    subst this
    simp [popLive, heapPopLive, heappop]
  | cons x xs ih =>
    cases hpop : heappop Ev.lt hp with
    | none => have := refines_pop_none r hpop; cases this
    | some res =>
      obtain ⟨m, hp'⟩ := res
      obtain ⟨s', hs', r'⟩ := refines_pop r hpop
      simp only [List.cons.injEq] at hs'
      obtain ⟨rfl, rfl⟩ := hs'
      simp only [popLive, List.length_cons, heapPopLive, hpop]
      by_cases hc : x.cancelled = true
      · simp only [hc, if_true]
        exact ih r'
      · have hc' : x.cancelled = false := by simpa using hc
        simp only [hc', Bool.false_eq_true, if_false]
        exact ⟨hp', rfl, r'⟩

end Mesa.Devs
