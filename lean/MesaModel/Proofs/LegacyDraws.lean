import MesaModel.Proofs.LegacyC08
import MesaModel.Proofs.LegacyHist
/-! Which draws the random movers of the legacy grids consume, and over which list (C08, round 3):
`shuffle` takes `len - 1` draws, `choice` one; the tie list of `closest` is the minimal-distance sub-list of the shuffled offers
in shuffled order; `move_to_empty` takes one draw below the cutoff and two per attempt above it. -/
namespace Mesa.Legacy

open Grid

theorem below_nil (n : Nat) : below [] n = none := rfl
theorem below_cons (x : Nat) (xs : Script) (n : Nat) : below (x :: xs) n = some (x % n, xs) := rfl

/-- the Fisher–Yates loop over `i` positions consumes exactly `i` draws -/
theorem shuffleAux_draws {α : Type} (i : Nat) (a : Array α) (s : Script) :
    (s.length < i → shuffleAux i a s = none) ∧ (i ≤ s.length → ∃ a', shuffleAux i a s = some (a', s.drop i)) := by
  induction i generalizing a s with
  | zero => exact ⟨fun h => by omega, fun _ => ⟨a, by simp [shuffleAux]⟩⟩
  | succ i ih =>
    cases s with
    | nil => exact ⟨fun _ => by simp [shuffleAux, below], fun h => by simp at h⟩
    | cons x xs =>
      simp only [shuffleAux, below, List.length_cons, List.drop_succ_cons]
      obtain ⟨h1, h2⟩ := ih (a.swapIfInBounds (i + 1) (x % (i + 2))) xs
      exact ⟨fun h => h1 (by omega), fun h => h2 (by omega)⟩

/-- `random.shuffle(l)` consumes exactly `len(l) - 1` draws (raises on a shorter script) and permutes -/
theorem shuffle_draws {α : Type} (l : List α) (s : Script) :
    (s.length < l.length - 1 → shuffle l s = none) ∧
    (l.length - 1 ≤ s.length → ∃ l', shuffle l s = some (l', s.drop (l.length - 1)) ∧ l'.Perm l) := by
  obtain ⟨h1, h2⟩ := shuffleAux_draws (l.length - 1) l.toArray s
  refine ⟨fun h => by simp [shuffle, h1 h], fun h => ?_⟩
  obtain ⟨a', ha⟩ := h2 h
  have hs : shuffle l s = some (a'.toList, s.drop (l.length - 1)) := by simp [shuffle, ha]
  exact ⟨a'.toList, hs, shuffle_perm l s _ _ hs⟩

/-- `random.choice(l)` of a non-empty list consumes one draw `x` and returns `l[x % len(l)]` -/
theorem choice_draws {α : Type} (l : List α) (hl : l ≠ []) :
    choice l [] = none ∧ ∀ x xs, ∃ v, l[x % l.length]? = some v ∧ choice l (x :: xs) = some (v, xs) := by
  refine ⟨by simp [choice, below], fun x xs => ?_⟩
  have hpos : 0 < l.length := List.length_pos_iff.mpr hl
  have hlt : x % l.length < l.length := Nat.mod_lt _ hpos
  exact ⟨l[x % l.length], by simp [hlt], by simp [choice, below, hlt]⟩

/-! ### the tie list of `closest` -/

/-- an offered position at minimal distance from `cur` -/
def Grid.isClosest (g : Grid) (cur : Coord) (ps : List Coord) (p : Coord) : Bool :=
  decide (∀ y ∈ ps, g.distSq p cur ≤ g.distSq y cur)

theorem filter_closest_cons_min (g : Grid) (cur p : Coord) (ps : List Coord)
    (h : ∀ y ∈ ps, g.distSq p cur ≤ g.distSq y cur) :
    (p :: ps).filter (g.isClosest cur (p :: ps)) = p :: ps.filter (fun q => decide (g.distSq q cur = g.distSq p cur)) := by
  have hp : g.isClosest cur (p :: ps) p = true := by
    simp only [isClosest, decide_eq_true_eq, List.mem_cons]
    rintro y (rfl | hy)
    · exact Int.le_refl _
    · exact h y hy
  rw [List.filter_cons_of_pos hp]
  congr 1
  apply List.filter_congr
  intro q hq
  simp only [isClosest, List.mem_cons, forall_eq_or_imp]
  have := h q hq
  by_cases hd : g.distSq q cur = g.distSq p cur
  · simp only [hd, Int.le_refl, true_and, decide_true, decide_eq_true_eq]; exact h
  · have : ¬ g.distSq q cur ≤ g.distSq p cur := by omega
    simp [hd, this]

theorem filter_closest_cons_not_min (g : Grid) (cur p : Coord) (ps : List Coord)
    (h : ∃ y ∈ ps, g.distSq y cur < g.distSq p cur) :
    (p :: ps).filter (g.isClosest cur (p :: ps)) = ps.filter (g.isClosest cur ps) := by
  obtain ⟨y, hy, hlt⟩ := h
  have hp : ¬ g.isClosest cur (p :: ps) p = true := by
    simp only [isClosest, decide_eq_true_eq, List.mem_cons]
    intro hall
    have := hall y (Or.inr hy); omega
  rw [List.filter_cons_of_neg hp]
  apply List.filter_congr
  intro q _
  have : (g.distSq q cur ≤ g.distSq p cur ∧ ∀ z ∈ ps, g.distSq q cur ≤ g.distSq z cur) ↔
      ∀ z ∈ ps, g.distSq q cur ≤ g.distSq z cur :=
    ⟨fun h => h.2, fun h => ⟨by have := h y hy; omega, h⟩⟩
  simp only [isClosest, List.mem_cons, forall_eq_or_imp, this]

theorem exists_lt_of_not_all (ps : List Coord) (f : Coord → Int) (d : Int) (h : ¬ ∀ y ∈ ps, d ≤ f y) : ∃ y ∈ ps, f y < d :=
  Classical.byContradiction fun hc => h fun y hy => Classical.byContradiction fun hlt => hc ⟨y, hy, by omega⟩

theorem closestScan_some (g : Grid) (cur : Coord) (ps : List Coord) (md : Int) (acc : List Coord) :
    g.closestScan cur ps (some md) acc =
      if ∀ y ∈ ps, md ≤ g.distSq y cur then acc ++ ps.filter (fun q => decide (g.distSq q cur = md))
      else ps.filter (g.isClosest cur ps) := by
  induction ps generalizing md acc with
  | nil => simp [closestScan]
  | cons p ps ih =>
    simp only [closestScan]
    by_cases h1 : g.distSq p cur < md
    · -- a new minimum: the tie list restarts with `p`
      rw [if_pos h1, ih]
      have hno : ¬ ∀ y ∈ p :: ps, md ≤ g.distSq y cur := fun h => by have := h p (by simp); omega
      rw [if_neg hno]
      by_cases h2 : ∀ y ∈ ps, g.distSq p cur ≤ g.distSq y cur
      · rw [if_pos h2, filter_closest_cons_min g cur p ps h2]; rfl
      · rw [if_neg h2, filter_closest_cons_not_min g cur p ps (by
          obtain ⟨y, hy, hlt⟩ := exists_lt_of_not_all ps (fun y => g.distSq y cur) _ h2
          exact ⟨y, hy, hlt⟩)]
    · rw [if_neg h1]
      by_cases h3 : g.distSq p cur = md
      · -- a tie: appended
        rw [if_pos h3, ih]
        by_cases h2 : ∀ y ∈ ps, md ≤ g.distSq y cur
        · have hall : ∀ y ∈ p :: ps, md ≤ g.distSq y cur := by
            intro y hy
            rcases List.mem_cons.mp hy with rfl | hy
            · omega
            · exact h2 y hy
          rw [if_pos h2, if_pos hall, List.filter_cons_of_pos (by simp [h3])]
          simp
        · have hall : ¬ ∀ y ∈ p :: ps, md ≤ g.distSq y cur := fun h => h2 fun y hy => h y (List.mem_cons_of_mem _ hy)
          rw [if_neg h2, if_neg hall, filter_closest_cons_not_min g cur p ps (by
            obtain ⟨y, hy, hlt⟩ := exists_lt_of_not_all ps (fun y => g.distSq y cur) _ h2
            have hlt' : g.distSq y cur < md := hlt
            exact ⟨y, hy, by omega⟩)]
      · -- farther than the minimum so far: skipped
        rw [if_neg h3, ih]
        by_cases h2 : ∀ y ∈ ps, md ≤ g.distSq y cur
        · have hall : ∀ y ∈ p :: ps, md ≤ g.distSq y cur := by
            intro y hy
            rcases List.mem_cons.mp hy with rfl | hy
            · omega
            · exact h2 y hy
          rw [if_pos h2, if_pos hall, List.filter_cons_of_neg (by simp [h3])]
        · have hall : ¬ ∀ y ∈ p :: ps, md ≤ g.distSq y cur := fun h => h2 fun y hy => h y (List.mem_cons_of_mem _ hy)
          rw [if_neg h2, if_neg hall, filter_closest_cons_not_min g cur p ps (by
            obtain ⟨y, hy, hlt⟩ := exists_lt_of_not_all ps (fun y => g.distSq y cur) _ h2
            have hlt' : g.distSq y cur < md := hlt
            exact ⟨y, hy, by omega⟩)]

/-- **the tie list**: the scan of `closest` collects exactly the offers at minimal distance, in the order scanned -/
theorem closestScan_filter (g : Grid) (cur : Coord) (ps : List Coord) :
    g.closestScan cur ps none [] = ps.filter (g.isClosest cur ps) := by
  cases ps with
  | nil => simp [closestScan]
  | cons p ps =>
    simp only [closestScan]
    rw [closestScan_some]
    by_cases h2 : ∀ y ∈ ps, g.distSq p cur ≤ g.distSq y cur
    · rw [if_pos h2, filter_closest_cons_min g cur p ps h2]; rfl
    · rw [if_neg h2, filter_closest_cons_not_min g cur p ps (by
        obtain ⟨y, hy, hlt⟩ := exists_lt_of_not_all ps (fun y => g.distSq y cur) _ h2
        exact ⟨y, hy, hlt⟩)]

/-- a non-empty list of offers has a closest one -/
theorem exists_closest (g : Grid) (cur : Coord) (ps : List Coord) (hne : ps ≠ []) :
    ps.filter (g.isClosest cur ps) ≠ [] := by
  have key : ∀ l : List Coord, l ≠ [] → ∃ x ∈ l, ∀ y ∈ l, g.distSq x cur ≤ g.distSq y cur := by
    intro l
    induction l with
    | nil => intro h; exact absurd rfl h
    | cons p l ih =>
      intro _
      by_cases hl : l = []
      · subst hl; exact ⟨p, by simp, by simp⟩
      · obtain ⟨x, hx, hmin⟩ := ih hl
        by_cases hpx : g.distSq p cur ≤ g.distSq x cur
        · refine ⟨p, by simp, fun y hy => ?_⟩
          rcases List.mem_cons.mp hy with rfl | hy
          · exact Int.le_refl _
          · have := hmin y hy; omega
        · refine ⟨x, List.mem_cons_of_mem _ hx, fun y hy => ?_⟩
          rcases List.mem_cons.mp hy with rfl | hy
          · omega
          · exact hmin y hy
  obtain ⟨x, hx, hmin⟩ := key ps hne
  exact List.ne_nil_of_mem (List.mem_filter.mpr ⟨hx, by simpa [isClosest] using hmin⟩)

/-! ### `move_agent_to_one_of`: which draws, which list -/

/-- `selection="random"`: one draw `x`, the offer `ps[x % len]` -/
theorem chooseOneOf_random (g : Grid) (a : Aid) (ps : List Coord) (hne : ps ≠ []) :
    g.chooseOneOf a ps .random [] = .error .script ∧
    ∀ x xs, ∃ q, ps[x % ps.length]? = some q ∧ g.chooseOneOf a ps .random (x :: xs) = .ok q := by
  obtain ⟨h0, h1⟩ := choice_draws ps hne
  refine ⟨by simp [chooseOneOf, h0], fun x xs => ?_⟩
  obtain ⟨q, hq, hc⟩ := h1 x xs
  exact ⟨q, hq, by simp [chooseOneOf, hc]⟩

/-- `selection="closest"` for a placed agent: `len - 1` draws shuffle the offers, one more picks from the tie list -/
theorem chooseOneOf_closest (g : Grid) (a : Aid) (cur : Coord) (hcur : g.pos a = some cur) (ps : List Coord) (hne : ps ≠ [])
    (s : Script) :
    (s.length < ps.length → g.chooseOneOf a ps .closest s = .error .script) ∧
    (ps.length ≤ s.length → ∃ ps' x q, shuffle ps s = some (ps', s.drop (ps.length - 1)) ∧ ps'.Perm ps ∧
      s[ps.length - 1]? = some x ∧
      (ps'.filter (g.isClosest cur ps'))[x % (ps'.filter (g.isClosest cur ps')).length]? = some q ∧
      g.chooseOneOf a ps .closest s = .ok q) := by
  have hpos : 0 < ps.length := List.length_pos_iff.mpr hne
  obtain ⟨hs1, hs2⟩ := shuffle_draws ps s
  constructor
  · intro hlt
    by_cases hsh : s.length < ps.length - 1
    · simp [chooseOneOf, hs1 hsh]
    · obtain ⟨ps', hsp, hperm⟩ := hs2 (by omega)
      have hdrop : s.drop (ps.length - 1) = [] := List.drop_eq_nil_of_le (by omega)
      have hne' : ps' ≠ [] := fun h => hne (by rw [h] at hperm; exact List.Perm.nil_eq hperm |>.symm ▸ rfl)
      have := (choice_draws _ (exists_closest g cur ps' hne')).1
      simp only [chooseOneOf, hsp, hcur, closestScan_filter, hdrop, this]
  · intro hle
    obtain ⟨ps', hsp, hperm⟩ := hs2 (by omega)
    have hne' : ps' ≠ [] := fun h => hne (by rw [h] at hperm; exact List.Perm.nil_eq hperm |>.symm ▸ rfl)
    have hlt : ps.length - 1 < s.length := by omega
    have hdrop : s.drop (ps.length - 1) = s[ps.length - 1] :: s.drop (ps.length - 1 + 1) := List.drop_eq_getElem_cons hlt
    obtain ⟨q, hq, hc⟩ := (choice_draws _ (exists_closest g cur ps' hne')).2 (s[ps.length - 1]) (s.drop (ps.length - 1 + 1))
    refine ⟨ps', s[ps.length - 1], q, hsp, hperm, by simp [hlt], hq, ?_⟩
    simp only [chooseOneOf, hsp, hcur, closestScan_filter, hdrop, hc]

/-! ### `move_to_empty`: which draws -/

/-- the sampling loop draws pairs `(x, y)` — `x` first — and stops at the first pair whose cell `(x % w, y % h)` is empty:
    the cell found is the one of attempt `k`, every earlier attempt hit an occupied cell -/
theorem pickLoop_draws (g : Grid) (s : Script) (q : Coord) (h : g.pickLoop s = some q) :
    ∃ (k x y : Nat), s[2 * k]? = some x ∧ s[2 * k + 1]? = some y ∧ q = ((x : Int) % g.w, (y : Int) % g.h) ∧ g.isCellEmpty q = true ∧
      ∀ j, j < k → ∃ (x' y' : Nat), s[2 * j]? = some x' ∧ s[2 * j + 1]? = some y' ∧
        g.isCellEmpty ((x' : Int) % g.w, (y' : Int) % g.h) = false := by
  induction s using pickLoop.induct g with
  | case1 x y rest p hp =>
    rw [pickLoop, if_pos hp] at h
    cases h
    exact ⟨0, x, y, by simp, by simp, rfl, hp, fun j hj => by omega⟩
  | case2 x y rest p hp ih =>
    rw [pickLoop, if_neg hp] at h
    obtain ⟨k, x', y', h1, h2, h3, h4, h5⟩ := ih h
    refine ⟨k + 1, x', y', ?_, ?_, h3, h4, fun j hj => ?_⟩
    · rw [show 2 * (k + 1) = 2 * k + 1 + 1 by omega]; simpa using h1
    · rw [show 2 * (k + 1) + 1 = 2 * k + 1 + 1 + 1 by omega]; simpa using h2
    · cases j with
      | zero => exact ⟨x, y, by simp, by simp, by simpa using hp⟩
      | succ j =>
        obtain ⟨x'', y'', g1, g2, g3⟩ := h5 j (by omega)
        refine ⟨x'', y'', ?_, ?_, g3⟩
        · rw [show 2 * (j + 1) = 2 * j + 1 + 1 by omega]; simpa using g1
        · rw [show 2 * (j + 1) + 1 = 2 * j + 1 + 1 + 1 by omega]; simpa using g2
  | case3 s hs =>
    unfold pickLoop at h
    split at h
    · exact absurd rfl (hs _ _ _)
    · cases h

/-- the script runs out before an empty cell is hit -/
theorem pickLoop_none (g : Grid) (s : Script) (h : g.pickLoop s = none) :
    ∀ j, 2 * j + 1 < s.length → ∃ (x' y' : Nat), s[2 * j]? = some x' ∧ s[2 * j + 1]? = some y' ∧
      g.isCellEmpty ((x' : Int) % g.w, (y' : Int) % g.h) = false := by
  induction s using pickLoop.induct g with
  | case1 x y rest p hp => rw [pickLoop, if_pos hp] at h; cases h
  | case2 x y rest p hp ih =>
    rw [pickLoop, if_neg hp] at h
    intro j hj
    cases j with
    | zero => exact ⟨x, y, by simp, by simp, by simpa using hp⟩
    | succ j =>
      obtain ⟨x'', y'', g1, g2, g3⟩ := ih h j (by simp only [List.length_cons] at hj; omega)
      refine ⟨x'', y'', ?_, ?_, g3⟩
      · rw [show 2 * (j + 1) = 2 * j + 1 + 1 by omega]; simpa using g1
      · rw [show 2 * (j + 1) + 1 = 2 * j + 1 + 1 + 1 by omega]; simpa using g2
  | case3 s hs =>
    intro j hj
    match s, hs with
    | [], _ => simp at hj
    | [_], _ => simp at hj
    | x :: y :: rest, hs => exact absurd rfl (hs x y rest)

/-- `move_to_empty` with the lazily built set read off: the branch by the cutoff, the target taken from the script -/
theorem moveToEmpty_unfold (g : Grid) (hi : Inv g) (a : Aid) (s : Script) :
    g.moveToEmpty a s =
      if g.buildEmpties.length = 0 then (g.readEmpties.1, .err .noEmpty)
      else
        match (if g.buildEmpties.length > g.cutoff then g.pickLoop s
               else match below s g.buildEmpties.length with
                 | none => none
                 | some (i, _) => g.buildEmpties[i]?) with
        | none => (g.readEmpties.1, .err .script)
        | some q => removePlace g.readEmpties.1 a q := by
  have hre : g.readEmpties.2 = g.buildEmpties := (c08_empties_exact_built_or_not g hi).2.2.1
  have hcut : g.readEmpties.1.cutoff = g.cutoff := (readEmpties_obs g).2.2.2.2.1
  have hpick : ∀ s, g.readEmpties.1.pickLoop s = g.pickLoop s := fun s => pickLoop_forget (forget_readEmpties g) s
  have hpair : g.readEmpties = (g.readEmpties.1, g.buildEmpties) := by rw [← hre]
  unfold moveToEmpty
  rw [hpair]
  simp only [hcut, hpick, removePlace]
  rfl

/-- `move_to_empty`: full grid / one draw below the cutoff (`sorted(empties)[x % n]`) / the sampling loop above it -/
theorem moveToEmpty_draws (g : Grid) (hi : Inv g) (a : Aid) (s : Script) :
    (g.buildEmpties = [] → g.moveToEmpty a s = (g.readEmpties.1, .err .noEmpty)) ∧
    (g.buildEmpties ≠ [] → g.buildEmpties.length ≤ g.cutoff →
      (s = [] → g.moveToEmpty a s = (g.readEmpties.1, .err .script)) ∧
      ∀ x xs, s = x :: xs → ∃ q, g.buildEmpties[x % g.buildEmpties.length]? = some q ∧
        g.moveToEmpty a s = removePlace g.readEmpties.1 a q) ∧
    (g.buildEmpties ≠ [] → g.cutoff < g.buildEmpties.length →
      (g.pickLoop s = none → g.moveToEmpty a s = (g.readEmpties.1, .err .script)) ∧
      ∀ q, g.pickLoop s = some q → g.moveToEmpty a s = removePlace g.readEmpties.1 a q) := by
  rw [moveToEmpty_unfold g hi a s]
  refine ⟨fun hnil => by simp [hnil], fun hne hle => ⟨fun hs => ?_, fun x xs hs => ?_⟩, fun hne hgt => ⟨fun hp => ?_, fun q hp => ?_⟩⟩
  · have hlen : g.buildEmpties.length ≠ 0 := fun h => hne (List.eq_nil_of_length_eq_zero h)
    have hng : ¬ g.buildEmpties.length > g.cutoff := by omega
    simp [hlen, hng, hs, below]
  · have hlen : g.buildEmpties.length ≠ 0 := fun h => hne (List.eq_nil_of_length_eq_zero h)
    have hng : ¬ g.buildEmpties.length > g.cutoff := by omega
    have hlt : x % g.buildEmpties.length < g.buildEmpties.length := Nat.mod_lt _ (by omega)
    refine ⟨g.buildEmpties[x % g.buildEmpties.length], by simp [hlt], ?_⟩
    simp [hlen, hng, hs, below, hlt]
  · have hlen : g.buildEmpties.length ≠ 0 := fun h => hne (List.eq_nil_of_length_eq_zero h)
    simp [hlen, hgt, hp]
  · have hlen : g.buildEmpties.length ≠ 0 := fun h => hne (List.eq_nil_of_length_eq_zero h)
    simp [hlen, hgt, hp]

end Mesa.Legacy
