import MesaModel.Proofs.LayersViews
/-!
Helper lemmas for C11: the value of a layer changes only by an op that writes to *that* layer
(through the layer, through the cell attribute of a name attached to it, through a reference that
aliases its current array, or — for the built-in `empty` layer — by the grid when agents move).
-/
namespace Mesa.Layers

/-- ops that may change a value of layer `l` in state `s` -/
def Op.mayWrite (s : State) (l : Nat) : Op → Prop
  | .layerSet l' _ _ => l' = l
  | .setCells l' _ _ => l' = l
  | .setFrom l' _ _ => l' = l
  | .modifyCells l' _ _ _ => l' = l
  | .modifyT l' _ _ _ => l' = l
  | .modifyU l' _ _ _ _ => l' = l
  | .modifyCell l' _ _ => l' = l
  | .modifyCellU l' _ _ _ => l' = l
  | .cellSet n _ _ => s.named? n = some l
  | .cellSet2 l' _ _ => l' = l
  | .hset h _ _ => ∃ d, s.handles.lookup h = some ((s.layers l).data, d)
  | .place _ _ => s.impl = .new ∧ s.named? "empty" = some l
  | .move _ _ => s.impl = .new ∧ s.named? "empty" = some l
  | .remove _ => s.impl = .new ∧ s.named? "empty" = some l
  | _ => False

/-- writing array `a` leaves the value of a layer that does not own `a` alone -/
theorem value_heap_upd_other (s : State) (a : Nat) (x : Arr) (l : Nat) (c : Coord)
    (h : (s.layers l).data ≠ a) :
    ({ s with heap := upd s.heap a x } : State).value l c = s.value l c := by
  unfold State.value
  show upd s.heap a x (s.layers l).data c = _
  rw [upd_other _ _ _ _ h]

theorem value_cellAttrWrite {s : State} (hw : WF s) (hi : s.impl = .new) {l : Nat} (hl : l < s.nLayers) (n : String)
    (hn : s.named? n ≠ some l) (c : Coord) (v : Int) (c' : Coord) :
    (cellAttrWrite s n c v).value l c' = s.value l c' := by
  unfold cellAttrWrite
  split
  · next lid hlid =>
    rw [hw.descr_eq hi n] at hlid
    apply value_heap_upd_other
    intro he
    have := hw.data_inj l lid hl (hw.att_lt n lid hlid) he
    subst this
    exact hn hlid
  · rfl

theorem value_writeEmpty {s : State} (hw : WF s) {l : Nat} (hl : l < s.nLayers)
    (hn : ¬ (s.impl = .new ∧ s.named? "empty" = some l)) (c : Coord) (v : Int) (c' : Coord) :
    (writeEmpty s c v).value l c' = s.value l c' := by
  unfold writeEmpty
  split
  · next hi => exact value_cellAttrWrite hw hi hl "empty" (fun h => hn ⟨hi, h⟩) c v c'
  · next hi =>
    apply value_heap_upd_other
    exact hw.legacy_data hi l hl

theorem value_afterLeave {s : State} (hw : WF s) {l : Nat} (hl : l < s.nLayers)
    (hn : ¬ (s.impl = .new ∧ s.named? "empty" = some l)) (c : Coord) (c' : Coord) :
    (afterLeave s c).value l c' = s.value l c' := by
  unfold afterLeave
  split
  · exact value_writeEmpty hw hl hn ..
  · exact value_writeEmpty hw hl hn ..
  · split
    · exact value_writeEmpty hw hl hn ..
    · rfl

/-- changing only the agents changes no layer value and none of the tables -/
theorem withAgents_wf {s : State} (hw : WF s) (ag : List (Nat × Coord)) : WF { s with agents := ag } :=
  hw.of_sameShape ⟨rfl, rfl, rfl, rfl, rfl, rfl, rfl, rfl, rfl, rfl⟩

theorem value_setCells {s : State} (hw : WF s) {l : Nat} (hl : l < s.nLayers) (l' : Nat) (v : Int)
    (cond : Option (Int → Bool)) (hne : l' ≠ l) (c : Coord) : (setCells s l' v cond).1.value l c = s.value l c := by
  unfold setCells
  split
  · rfl
  · next L hL =>
    obtain ⟨hl', rfl⟩ := layer?_some hL
    rw [value_upd hw hl' hl, if_neg (fun e => hne e.symm)]

theorem value_modifyCellsT {s : State} (hw : WF s) {l : Nat} (hl : l < s.nLayers) (l' : Nat)
    (f : Option (Int → Int)) (cond : Option (Int → Bool)) (rd : DType) (hne : l' ≠ l) (c : Coord) :
    (modifyCellsT s l' f cond rd).1.value l c = s.value l c := by
  have hlt := hw.data_lt l hl
  unfold modifyCellsT
  split
  · rfl
  · next L hL =>
    obtain ⟨hl', rfl⟩ := layer?_some hL
    split
    · rfl
    · have h1 : l ≠ l' := fun e => hne e.symm
      have h2 : (s.layers l).data ≠ s.next := by omega
      simp [State.value, upd, h1, h2]

theorem value_modifyCell {s : State} (hw : WF s) {l : Nat} (hl : l < s.nLayers) (l' : Nat) (c' : Coord)
    (f : Option (Int → Int)) (hne : l' ≠ l) (c : Coord) : (modifyCell s l' c' f).1.value l c = s.value l c := by
  unfold modifyCell
  split
  · rfl
  · split
    · rfl
    · next L hL =>
      obtain ⟨hl', rfl⟩ := layer?_some hL
      split
      · rfl
      · split
        · rfl
        · rw [value_upd hw hl' hl, if_neg (fun e => hne e.symm)]

theorem value_stable {s : State} (hw : WF s) {l : Nat} (hl : l < s.nLayers) (op : Op)
    (hno : ¬ op.mayWrite s l) (c : Coord) : (step s op).1.value l c = s.value l c := by
  have hlt := hw.data_lt l hl
  cases op with
  | create n dt d =>
    simp only [step]; unfold create
    split
    · rfl
    · have h1 : l ≠ s.nLayers := by omega
      have h2 : (s.layers l).data ≠ s.next := by omega
      simp [State.value, upd, h1, h2]
  | newLayer n dims dt d =>
    simp only [step]; unfold newLayer
    split
    · rfl
    · have h1 : l ≠ s.nLayers := by omega
      have h2 : (s.layers l).data ≠ s.next := by omega
      simp [State.value, upd, h1, h2]
  | attach l' =>
    simp only [step]; unfold attach
    split
    · rfl
    · split <;> rfl
  | detach n =>
    simp only [step]; unfold detach
    split <;> rfl
  | layerSet l' c' v =>
    simp only [step]; unfold layerSet
    split
    · rfl
    · next L hL =>
      obtain ⟨hl', rfl⟩ := layer?_some hL
      split
      · rfl
      · have hne : l' ≠ l := hno
        rw [value_upd hw hl' hl, if_neg (fun e => hne e.symm)]
  | layerGet l' c' => rfl
  | cellSet n c' v =>
    simp only [step]; unfold cellSet
    have hn : s.named? n ≠ some l := hno
    split
    · next hi =>
      split
      · rfl
      · split
        · rfl
        · exact value_cellAttrWrite hw hi hl n hn c' _ c
    · split
      · rfl
      · next lid hlid =>
        simp only
        split
        · rfl
        · apply value_heap_upd_other
          intro he
          have := hw.data_inj l lid hl (hw.att_lt n lid hlid) he
          subst this
          exact hn hlid
  | cellGet n c' => rfl
  | cellSet2 l' c' w =>
    simp only [step]; unfold cellSet2
    split
    · rfl
    · unfold layerSet
      split
      · rfl
      · next L hL =>
        obtain ⟨hl', rfl⟩ := layer?_some hL
        split
        · rfl
        · have hne : l' ≠ l := hno
          rw [value_upd hw hl' hl, if_neg (fun e => hne e.symm)]
  | cellGet2 l' c' => rfl
  | setCells l' w cond =>
    have hne : l' ≠ l := hno
    cases w with
    | raw v => exact vecGuard_fst (P := fun t => t.value l c = s.value l c) _ _ _ _ (value_setCells hw hl l' v cond hne c) rfl
    | py x =>
      simp only [step]
      refine vecGuard_fst (P := fun t => t.value l c = s.value l c) _ _ _ _ ?_ rfl
      unfold setCellsV
      split
      · rfl
      · split
        · rfl
        · exact value_setCells hw hl l' _ cond hne c
  | modifyCells l' vec f cond =>
    simp only [step]
    refine vecGuard_fst (P := fun t => t.value l c = s.value l c) _ _ _ _ ?_ rfl
    unfold modifyCells
    split
    · rfl
    · next L hL =>
      obtain ⟨hl', rfl⟩ := layer?_some hL
      split
      · rfl
      · have hne : l' ≠ l := hno
        have h1 : l ≠ l' := fun e => hne e.symm
        have h2 : (s.layers l).data ≠ s.next := by omega
        simp [State.value, upd, h1, h2]
  | setFrom l' hd cond =>
    simp only [step]; unfold setFrom
    split
    · rfl
    · next L hL =>
      obtain ⟨hl', rfl⟩ := layer?_some hL
      split
      · rfl
      · split
        · rfl
        · split
          · rfl
          · split
            · rfl
            · have hne : l' ≠ l := hno
              rw [value_upd hw hl' hl, if_neg (fun e => hne e.symm)]
  | modifyT l' f cond rd =>
    exact vecGuard_fst (P := fun t => t.value l c = s.value l c) _ _ _ _ (value_modifyCellsT hw hl l' f cond rd hno c) rfl
  | modifyU l' vec op x cond =>
    simp only [step]
    refine vecGuard_fst (P := fun t => t.value l c = s.value l c) _ _ _ _ ?_ rfl
    unfold modifyU
    split
    · rfl
    · split
      · rfl
      · exact value_modifyCellsT hw hl l' _ cond _ hno c
  | modifyCell l' c' f =>
    simp only [step]; unfold modifyCell
    split
    · rfl
    · split
      · rfl
      · next L hL =>
        obtain ⟨hl', rfl⟩ := layer?_some hL
        split
        · rfl
        · split
          · rfl
          · have hne : l' ≠ l := hno
            rw [value_upd hw hl' hl, if_neg (fun e => hne e.symm)]
  | modifyCellU l' c' op x =>
    simp only [step]; unfold modifyCellU
    split
    · rfl
    · split
      · rfl
      · split
        · rfl
        · split
          · rfl
          · exact value_modifyCell hw hl l' c' _ hno c
  | fromData n hd =>
    simp only [step]; unfold fromData
    split
    · rfl
    · split
      · rfl
      · split
        · rfl
        · have h1 : l ≠ s.nLayers := by omega
          have h2 : (s.layers l).data ≠ s.next := by omega
          simp [State.value, upd, h1, h2]
  | grab hd l' =>
    simp only [step]; unfold grab
    split <;> rfl
  | grabMask hd =>
    simp only [step]; unfold grabMask
    split <;> rfl
  | hget hd c' => rfl
  | hset hd c' v =>
    simp only [step]; unfold hset
    split
    · rfl
    · next a d hlk =>
      split
      · rfl
      · apply value_heap_upd_other
        intro he
        exact hno ⟨d, by rw [hlk, he]⟩
  | hdump hd => rfl
  | dump l' => rfl
  | dumpName n => rfl
  | dtype l' => rfl
  | layerSelect l' p => rfl
  | aggregate l' k => rfl
  | place a c' =>
    simp only [step]; unfold place
    split
    · rfl
    · split
      · rfl
      · split
        · rfl
        · exact value_writeEmpty (s := { s with agents := s.agents ++ [(a, c')] }) (withAgents_wf hw _) hl hno c' 0 c
  | remove a =>
    simp only [step]; unfold remove
    split
    · rfl
    · next c0 _ =>
      exact value_afterLeave (s := { s with agents := s.agents.filter (·.1 ≠ a) }) (withAgents_wf hw _) hl hno c0 c
  | move a c' =>
    simp only [step]; unfold move
    split
    · rfl
    · next c0 _ =>
      split
      · rfl
      · split
        · rfl
        · have hw0 : WF ({ s with agents := s.agents.filter (·.1 ≠ a) } : State) := withAgents_wf hw _
          have hsh := sameShape_afterLeave ({ s with agents := s.agents.filter (·.1 ≠ a) } : State) c0
          have hw1 := hw0.of_sameShape hsh
          have hno1 : ¬ ((afterLeave { s with agents := s.agents.filter (·.1 ≠ a) } c0).impl = .new ∧
              (afterLeave { s with agents := s.agents.filter (·.1 ≠ a) } c0).named? "empty" = some l) := by
            unfold State.named?
            rw [hsh.impl, hsh.attached]
            exact hno
          have hl1 : l < (afterLeave { s with agents := s.agents.filter (·.1 ≠ a) } c0).nLayers := by
            rw [hsh.nLayers]; exact hl
          have e1 := value_writeEmpty
            (s := { afterLeave { s with agents := s.agents.filter (·.1 ≠ a) } c0 with
                    agents := (afterLeave { s with agents := s.agents.filter (·.1 ≠ a) } c0).agents ++ [(a, c')] })
            (withAgents_wf hw1 _) hl1 hno1 c' 0 c
          rw [e1]
          exact value_afterLeave (s := { s with agents := s.agents.filter (·.1 ≠ a) }) hw0 hl hno c0 c
  | empties => rfl
  | gridSet n =>
    simp only [step]; unfold gridSet
    split
    · rfl
    · split <;> rfl
  | nbhdMask k geom torus c' ic r =>
    simp only [step]; unfold nbhdMask
    split
    · rfl
    · split
      · rfl
      · split <;> rfl
  | select ms oe conds exts save =>
    simp only [step]
    split
    · rfl
    · split
      · rfl
      · split <;> rfl

/-- a promoting `modify_cells` changes neither the number of layers, nor the grid's shape, nor the shape of
    any layer -/
theorem shape_modifyCellsT (s : State) (l : Nat) (f : Option (Int → Int)) (cond : Option (Int → Bool))
    (rd : DType) : (modifyCellsT s l f cond rd).1.nLayers = s.nLayers ∧ (modifyCellsT s l f cond rd).1.dims = s.dims ∧
    ∀ k, ((modifyCellsT s l f cond rd).1.layers k).dims = (s.layers k).dims := by
  unfold modifyCellsT
  split
  · exact ⟨rfl, rfl, fun _ => rfl⟩
  · next L hL =>
    obtain ⟨_, rfl⟩ := layer?_some hL
    split
    · exact ⟨rfl, rfl, fun _ => rfl⟩
    · refine ⟨rfl, rfl, fun k => ?_⟩
      simp only [upd]
      split
      · next e => subst e; rfl
      · rfl

theorem nLayers_step (s : State) (op : Op) : s.nLayers ≤ (step s op).1.nLayers := by
  cases op with
  | create n dt d => simp only [step]; unfold create; split <;> simp
  | newLayer n dims dt d => simp only [step]; unfold newLayer; split <;> simp
  | attach l =>
    simp only [step]; unfold attach
    split
    · exact Nat.le_refl _
    · split <;> exact Nat.le_refl _
  | detach n => simp only [step]; unfold detach; split <;> exact Nat.le_refl _
  | layerSet l c v => exact Nat.le_of_eq (sameShape_layerSet ..).nLayers.symm
  | layerGet l c => exact Nat.le_refl _
  | cellSet n c v => exact Nat.le_of_eq (sameShape_cellSet ..).nLayers.symm
  | cellGet n c => exact Nat.le_refl _
  | cellSet2 l c w => exact Nat.le_of_eq (sameShape_cellSet2 ..).nLayers.symm
  | cellGet2 l c => exact Nat.le_refl _
  | setCells l w cond =>
    cases w with
    | raw v => exact vecGuard_fst (P := fun t => s.nLayers ≤ t.nLayers) _ _ _ _ (Nat.le_of_eq (sameShape_setCells ..).nLayers.symm) (Nat.le_refl _)
    | py x => exact vecGuard_fst (P := fun t => s.nLayers ≤ t.nLayers) _ _ _ _ (Nat.le_of_eq (sameShape_setCellsV ..).nLayers.symm) (Nat.le_refl _)
  | modifyCells l vec f cond =>
    simp only [step]
    refine vecGuard_fst (P := fun t => s.nLayers ≤ t.nLayers) _ _ _ _ ?_ (Nat.le_refl _)
    unfold modifyCells
    split
    · exact Nat.le_refl _
    · split <;> exact Nat.le_refl _
  | setFrom l hd cond => exact Nat.le_of_eq (sameShape_setFrom ..).nLayers.symm
  | modifyT l f cond rd =>
    exact vecGuard_fst (P := fun t => s.nLayers ≤ t.nLayers) _ _ _ _ (Nat.le_of_eq (shape_modifyCellsT s l f cond rd).1.symm) (Nat.le_refl _)
  | modifyU l vec op x cond =>
    simp only [step]
    refine vecGuard_fst (P := fun t => s.nLayers ≤ t.nLayers) _ _ _ _ ?_ (Nat.le_refl _)
    unfold modifyU
    split
    · exact Nat.le_refl _
    · split
      · exact Nat.le_refl _
      · exact Nat.le_of_eq (shape_modifyCellsT ..).1.symm
  | modifyCell l c f => exact Nat.le_of_eq (sameShape_modifyCell ..).nLayers.symm
  | modifyCellU l c op x => exact Nat.le_of_eq (sameShape_modifyCellU ..).nLayers.symm
  | fromData n hd =>
    simp only [step]; unfold fromData
    split
    · exact Nat.le_refl _
    · split
      · exact Nat.le_refl _
      · split <;> simp
  | grab hd l => simp only [step]; unfold grab; split <;> exact Nat.le_refl _
  | grabMask hd => simp only [step]; unfold grabMask; split <;> exact Nat.le_refl _
  | hget hd c => exact Nat.le_refl _
  | hset hd c v => exact Nat.le_of_eq (sameShape_hset ..).nLayers.symm
  | hdump hd => exact Nat.le_refl _
  | dump l => exact Nat.le_refl _
  | dumpName n => exact Nat.le_refl _
  | dtype l => exact Nat.le_refl _
  | layerSelect l p => exact Nat.le_refl _
  | aggregate l k => exact Nat.le_refl _
  | place a c => exact Nat.le_of_eq (sameShape_place ..).nLayers.symm
  | move a c => exact Nat.le_of_eq (sameShape_move ..).nLayers.symm
  | remove a => exact Nat.le_of_eq (sameShape_remove ..).nLayers.symm
  | empties => exact Nat.le_refl _
  | nbhdMask k geom torus c ic r => exact Nat.le_of_eq (sameShape_nbhdMask ..).nLayers.symm
  | gridSet n => exact Nat.le_of_eq (sameShape_gridSet ..).nLayers.symm
  | select ms oe conds exts save =>
    simp only [step]
    split
    · exact Nat.le_refl _
    · split
      · exact Nat.le_refl _
      · split <;> exact Nat.le_refl _

/-- a history none of whose ops may write layer `l` (judged at the state each op is issued in) -/
def noWrite (l : Nat) : State → List Op → Prop
  | _, [] => True
  | s, op :: ops => ¬ op.mayWrite s l ∧ noWrite l (step s op).1 ops

theorem value_stable_run {s : State} (hw : WF s) {l : Nat} (hl : l < s.nLayers) (ops : List Op)
    (hn : noWrite l s ops) (c : Coord) :
    (run s ops).1.value l c = s.value l c ∧ l < (run s ops).1.nLayers := by
  induction ops generalizing s with
  | nil => exact ⟨rfl, hl⟩
  | cons op ops ih =>
    simp only [run]
    obtain ⟨h1, h2⟩ := hn
    have hl' : l < (step s op).1.nLayers := Nat.lt_of_lt_of_le hl (nLayers_step s op)
    obtain ⟨e, hl''⟩ := ih (WF_step hw op) hl' h2
    exact ⟨e.trans (value_stable hw hl op h1 c), hl''⟩

/-- the grid's shape and the shape of every existing layer object never change -/
theorem shapes_run (t : State) (os : List Op) : (run t os).1.dims = t.dims ∧
    ∀ k, k < t.nLayers → ((run t os).1.layers k).dims = (t.layers k).dims := by
  induction os generalizing t with
  | nil => exact ⟨rfl, fun _ _ => rfl⟩
  | cons op os ih =>
    simp only [run]
    obtain ⟨a, b⟩ := ih (step t op).1
    have hstep : (step t op).1.dims = t.dims ∧ ∀ k, k < t.nLayers → ((step t op).1.layers k).dims = (t.layers k).dims := by
      cases op with
      | create n dt d =>
        simp only [step]; unfold create
        split
        · exact ⟨rfl, fun _ _ => rfl⟩
        · exact ⟨rfl, fun k hk => by simp [upd, Nat.ne_of_lt hk]⟩
      | newLayer n dims dt d =>
        simp only [step]; unfold newLayer
        split
        · exact ⟨rfl, fun _ _ => rfl⟩
        · exact ⟨rfl, fun k hk => by simp [upd, Nat.ne_of_lt hk]⟩
      | attach l =>
        simp only [step]; unfold attach
        split
        · exact ⟨rfl, fun _ _ => rfl⟩
        · split <;> exact ⟨rfl, fun _ _ => rfl⟩
      | detach n => simp only [step]; unfold detach; split <;> exact ⟨rfl, fun _ _ => rfl⟩
      | layerSet l c v => exact ⟨(sameShape_layerSet ..).dims, fun k _ => congrArg (fun f => (f k).dims) (sameShape_layerSet ..).layers⟩
      | layerGet l c => exact ⟨rfl, fun _ _ => rfl⟩
      | cellSet n c v => exact ⟨(sameShape_cellSet ..).dims, fun k _ => congrArg (fun f => (f k).dims) (sameShape_cellSet ..).layers⟩
      | cellGet n c => exact ⟨rfl, fun _ _ => rfl⟩
      | cellSet2 l c w => exact ⟨(sameShape_cellSet2 ..).dims, fun k _ => congrArg (fun f => (f k).dims) (sameShape_cellSet2 ..).layers⟩
      | cellGet2 l c => exact ⟨rfl, fun _ _ => rfl⟩
      | setCells l w cond =>
        cases w with
        | raw v => exact vecGuard_fst (P := fun u => u.dims = t.dims ∧ ∀ k, k < t.nLayers → (u.layers k).dims = (t.layers k).dims) _ _ _ _ ⟨(sameShape_setCells ..).dims, fun k _ => congrArg (fun f => (f k).dims) (sameShape_setCells ..).layers⟩ ⟨rfl, fun _ _ => rfl⟩
        | py x => exact vecGuard_fst (P := fun u => u.dims = t.dims ∧ ∀ k, k < t.nLayers → (u.layers k).dims = (t.layers k).dims) _ _ _ _ ⟨(sameShape_setCellsV ..).dims, fun k _ => congrArg (fun f => (f k).dims) (sameShape_setCellsV ..).layers⟩ ⟨rfl, fun _ _ => rfl⟩
      | setFrom l hd cond => exact ⟨(sameShape_setFrom ..).dims, fun k _ => congrArg (fun f => (f k).dims) (sameShape_setFrom ..).layers⟩
      | modifyT l f cond rd =>
        exact vecGuard_fst (P := fun u => u.dims = t.dims ∧ ∀ k, k < t.nLayers → (u.layers k).dims = (t.layers k).dims) _ _ _ _ ⟨(shape_modifyCellsT t l f cond rd).2.1, fun k _ => (shape_modifyCellsT t l f cond rd).2.2 k⟩ ⟨rfl, fun _ _ => rfl⟩
      | modifyU l vec op x cond =>
        simp only [step]
        refine vecGuard_fst (P := fun u => u.dims = t.dims ∧ ∀ k, k < t.nLayers → (u.layers k).dims = (t.layers k).dims) _ _ _ _ ?_ ⟨rfl, fun _ _ => rfl⟩
        unfold modifyU
        split
        · exact ⟨rfl, fun _ _ => rfl⟩
        · split
          · exact ⟨rfl, fun _ _ => rfl⟩
          · exact ⟨(shape_modifyCellsT ..).2.1, fun k _ => (shape_modifyCellsT ..).2.2 k⟩
      | modifyCells l vec f cond =>
        simp only [step]
        refine vecGuard_fst (P := fun u => u.dims = t.dims ∧ ∀ k, k < t.nLayers → (u.layers k).dims = (t.layers k).dims) _ _ _ _ ?_ ⟨rfl, fun _ _ => rfl⟩
        unfold modifyCells
        split
        · exact ⟨rfl, fun _ _ => rfl⟩
        · next L hL =>
          obtain ⟨_, rfl⟩ := layer?_some hL
          split
          · exact ⟨rfl, fun _ _ => rfl⟩
          · refine ⟨rfl, fun k _ => ?_⟩
            simp only [upd]
            split
            · next e => subst e; rfl
            · rfl
      | modifyCell l c f => exact ⟨(sameShape_modifyCell ..).dims, fun k _ => congrArg (fun f => (f k).dims) (sameShape_modifyCell ..).layers⟩
      | modifyCellU l c op x => exact ⟨(sameShape_modifyCellU ..).dims, fun k _ => congrArg (fun f => (f k).dims) (sameShape_modifyCellU ..).layers⟩
      | fromData n hd =>
        simp only [step]; unfold fromData
        split
        · exact ⟨rfl, fun _ _ => rfl⟩
        · split
          · exact ⟨rfl, fun _ _ => rfl⟩
          · split
            · exact ⟨rfl, fun _ _ => rfl⟩
            · exact ⟨rfl, fun k hk => by simp [upd, Nat.ne_of_lt hk]⟩
      | grab hd l => simp only [step]; unfold grab; split <;> exact ⟨rfl, fun _ _ => rfl⟩
      | grabMask hd => simp only [step]; unfold grabMask; split <;> exact ⟨rfl, fun _ _ => rfl⟩
      | hget hd c => exact ⟨rfl, fun _ _ => rfl⟩
      | hset hd c v => exact ⟨(sameShape_hset ..).dims, fun k _ => congrArg (fun f => (f k).dims) (sameShape_hset ..).layers⟩
      | hdump hd => exact ⟨rfl, fun _ _ => rfl⟩
      | dump l => exact ⟨rfl, fun _ _ => rfl⟩
      | dumpName n => exact ⟨rfl, fun _ _ => rfl⟩
      | dtype l => exact ⟨rfl, fun _ _ => rfl⟩
      | layerSelect l p => exact ⟨rfl, fun _ _ => rfl⟩
      | aggregate l k => exact ⟨rfl, fun _ _ => rfl⟩
      | place a c => exact ⟨(sameShape_place ..).dims, fun k _ => congrArg (fun f => (f k).dims) (sameShape_place ..).layers⟩
      | move a c => exact ⟨(sameShape_move ..).dims, fun k _ => congrArg (fun f => (f k).dims) (sameShape_move ..).layers⟩
      | remove a => exact ⟨(sameShape_remove ..).dims, fun k _ => congrArg (fun f => (f k).dims) (sameShape_remove ..).layers⟩
      | empties => exact ⟨rfl, fun _ _ => rfl⟩
      | nbhdMask k geom torus c ic r => exact ⟨(sameShape_nbhdMask ..).dims, fun k' _ => congrArg (fun f => (f k').dims) (sameShape_nbhdMask ..).layers⟩
      | gridSet n => exact ⟨(sameShape_gridSet ..).dims, fun k' _ => congrArg (fun f => (f k').dims) (sameShape_gridSet ..).layers⟩
      | select ms oe conds exts save =>
        simp only [step]
        split
        · exact ⟨rfl, fun _ _ => rfl⟩
        · split
          · exact ⟨rfl, fun _ _ => rfl⟩
          · split <;> exact ⟨rfl, fun _ _ => rfl⟩
    refine ⟨a.trans hstep.1, fun k hk => ?_⟩
    rw [b k (Nat.lt_of_lt_of_le hk (nLayers_step t op)), hstep.2 k hk]

/-! ### the grid object's own attributes change only by `grid.<name> = x` -/

theorem writeEmpty_gattrs (s : State) (c : Coord) (v : Int) : (writeEmpty s c v).gattrs = s.gattrs := by
  unfold writeEmpty
  split
  · unfold cellAttrWrite; repeat' split
    all_goals rfl
  · rfl

theorem afterLeave_gattrs (s : State) (c : Coord) : (afterLeave s c).gattrs = s.gattrs := by
  unfold afterLeave
  repeat' split
  all_goals first | rfl | exact writeEmpty_gattrs ..

theorem cellAttrWrite_gattrs (s : State) (n : String) (c : Coord) (v : Int) :
    (cellAttrWrite s n c v).gattrs = s.gattrs := by
  unfold cellAttrWrite; split <;> rfl

theorem layerSet_gattrs (s : State) (l : Nat) (c : Coord) (v : Int) : (layerSet s l c v).1.gattrs = s.gattrs := by
  unfold layerSet; repeat' split
  all_goals rfl

theorem modifyCell_gattrs (s : State) (l : Nat) (c : Coord) (f : Option (Int → Int)) :
    (modifyCell s l c f).1.gattrs = s.gattrs := by
  unfold modifyCell; repeat' split
  all_goals rfl

theorem cellSet_gattrs (s : State) (n : String) (c : Coord) (v : Int) : (cellSet s n c v).1.gattrs = s.gattrs := by
  unfold cellSet
  split
  · split
    · rfl
    · split
      · rfl
      · exact cellAttrWrite_gattrs ..
  · split
    · rfl
    · dsimp only
      split <;> rfl

theorem setCells_gattrs (s : State) (l : Nat) (v : Int) (cond : Option (Int → Bool)) :
    (setCells s l v cond).1.gattrs = s.gattrs := by
  unfold setCells; repeat' split
  all_goals rfl

theorem setCellsV_gattrs (s : State) (l : Nat) (x : Val) (cond : Option (Int → Bool)) :
    (setCellsV s l x cond).1.gattrs = s.gattrs := by
  unfold setCellsV; repeat' split
  all_goals first | rfl | exact setCells_gattrs ..

/-- only `grid.<name> = x` changes the grid object's own attributes -/
theorem step_gattrs (s : State) (op : Op) :
    (step s op).1.gattrs = s.gattrs ∨
    ∃ m, op = .gridSet m ∧ s.named? m = none ∧ (step s op).1.gattrs = m :: s.gattrs := by
  cases op
  case cellSet n c w => exact Or.inl (cellSet_gattrs ..)
  case setCells l w cond =>
    cases w <;> simp only [step] <;> left <;>
      first
      | exact vecGuard_fst (P := fun t => t.gattrs = s.gattrs) _ _ _ _ (setCells_gattrs ..) rfl
      | exact vecGuard_fst (P := fun t => t.gattrs = s.gattrs) _ _ _ _ (setCellsV_gattrs ..) rfl
  case modifyCells l vec f cond =>
    left; simp only [step]
    refine vecGuard_fst (P := fun t => t.gattrs = s.gattrs) _ _ _ _ ?_ rfl
    (unfold modifyCells; repeat' split) <;> rfl
  case modifyT l f cond rd =>
    left; simp only [step]
    refine vecGuard_fst (P := fun t => t.gattrs = s.gattrs) _ _ _ _ ?_ rfl
    (unfold modifyCellsT; repeat' split) <;> rfl
  case modifyU l vec op x cond =>
    left; simp only [step]
    refine vecGuard_fst (P := fun t => t.gattrs = s.gattrs) _ _ _ _ ?_ rfl
    (unfold modifyU modifyCellsT; repeat' split) <;> rfl
  case gridSet m =>
    simp only [step]; unfold gridSet
    split
    · exact Or.inl rfl
    · split
      · exact Or.inl rfl
      · next _ hn =>
        right
        refine ⟨m, rfl, ?_, rfl⟩
        cases hx : s.named? m <;> simp_all
  all_goals left
  all_goals simp only [step]
  all_goals try rfl
  all_goals
    first
    | (unfold create; repeat' split) <;> rfl
    | (unfold newLayer; repeat' split) <;> rfl
    | (unfold attach; repeat' split) <;> rfl
    | (unfold detach; repeat' split) <;> rfl
    | (unfold layerSet; repeat' split) <;> rfl
    | (unfold cellSet; repeat' split) <;> first | rfl | exact cellAttrWrite_gattrs ..
    | (unfold cellSet2; repeat' split) <;> first | rfl | exact layerSet_gattrs ..
    | (unfold setCells; repeat' split) <;> rfl
    | (unfold setCellsV; repeat' split) <;> rfl
    | (unfold setFrom; repeat' split) <;> rfl
    | (unfold modifyCells; repeat' split) <;> rfl
    | (unfold modifyCellsT; repeat' split) <;> rfl
    | (unfold modifyU modifyCellsT; repeat' split) <;> rfl
    | (unfold modifyCell; repeat' split) <;> rfl
    | (unfold modifyCellU; repeat' split) <;> first | rfl | exact modifyCell_gattrs ..
    | (unfold grab; repeat' split) <;> rfl
    | (unfold grabMask; repeat' split) <;> rfl
    | (unfold fromData; repeat' split) <;> rfl
    | (unfold hset; repeat' split) <;> rfl
    | (unfold nbhdMask; repeat' split) <;> rfl
    | (unfold place; repeat' split) <;> first | rfl | exact writeEmpty_gattrs ..
    | (unfold remove; repeat' split) <;> first | rfl | exact afterLeave_gattrs ..
    | (unfold move; repeat' split) <;> first | rfl | exact (writeEmpty_gattrs ..).trans (afterLeave_gattrs ..)
    | (repeat' split) <;> rfl
    | skip

theorem run_cons_fst (s : State) (op : Op) (ops : List Op) : (run s (op :: ops)).1 = (run (step s op).1 ops).1 := rfl

end Mesa.Layers
