import MesaModel.Model.Activation
import MesaModel.Proofs.ListOps
/-! Helper lemmas for C04 (model: `Model/Registry.lean`, `Model/Activation.lean`). -/
namespace Mesa.Agents

theorem registered_iff {w : World} {a : Aid} :
    registered w a = true ↔ ∃ i r, w.info[a]? = some i ∧ w.regs[i.model]? = some r ∧ a ∈ r.hard := by
  unfold registered
  cases hi : w.info[a]? with
  | none => simp
  | some i =>
    cases hr : w.regs[i.model]? with
    | none => simp [hr]
    | some r => simp [hr]

theorem alive_iff {w : World} {a : Aid} :
    alive w a = true ↔ a < w.info.length ∧ (registered w a = true ∨ a ∈ w.held) := by
  simp [alive]

theorem alive_lt {w : World} {a : Aid} (h : alive w a = true) : a < w.info.length := (alive_iff.mp h).1

/-- `w'` is a later world: the agents of `w` are still there, and none that was dead came back -/
structure Le (w w' : World) : Prop where
  ext : ∃ e, w'.info = w.info ++ e
  dead : ∀ a, a < w.info.length → alive w' a = true → alive w a = true

theorem Le.refl (w : World) : Le w w := ⟨⟨[], by simp⟩, fun _ _ h => h⟩

theorem Le.len {w w' : World} (h : Le w w') : w.info.length ≤ w'.info.length := by
  obtain ⟨e, he⟩ := h.ext; rw [he]; simp

theorem Le.trans {a b c : World} (h1 : Le a b) (h2 : Le b c) : Le a c := by
  refine ⟨?_, fun x hx hc => h1.dead x hx (h2.dead x (Nat.lt_of_lt_of_le hx h1.len) hc)⟩
  obtain ⟨e1, he1⟩ := h1.ext
  obtain ⟨e2, he2⟩ := h2.ext
  exact ⟨e1 ++ e2, by rw [he2, he1, List.append_assoc]⟩

theorem Le.info_get {w w' : World} (h : Le w w') {a : Aid} (ha : a < w.info.length) : w'.info[a]? = w.info[a]? := by
  obtain ⟨e, he⟩ := h.ext
  rw [he, List.getElem?_append_left ha]

theorem deregister_hard (r : Reg) (b : Aid) (ty : Ty) :
    (r.deregister b ty).hard = if b ∈ r.hard then r.hard.erase b else r.hard := by
  unfold Reg.deregister
  by_cases hb : b ∈ r.hard
  · simp only [hb, if_true]
    cases r.byType.lookup ty with
    | none => rfl
    | some s =>
      simp only
      by_cases hs : b ∈ s
      · simp only [hs, if_true]; split <;> rfl
      · simp only [hs, if_false]
  · simp only [hb, if_false]

theorem deregister_hard_subset (r : Reg) (b : Aid) (ty : Ty) : ∀ a, a ∈ (r.deregister b ty).hard → a ∈ r.hard := by
  intro a h
  rw [deregister_hard] at h
  split at h
  · exact List.mem_of_mem_erase h
  · exact h

theorem removeAgent_none {w : World} {b : Aid} (h : w.info[b]? = none) : removeAgent w b = w := by
  simp [removeAgent, h]

theorem removeAgent_noreg {w : World} {b : Aid} {i : Info} (hi : w.info[b]? = some i)
    (hr : w.regs[i.model]? = none) : removeAgent w b = w := by
  simp [removeAgent, hi, hr]

theorem removeAgent_some {w : World} {b : Aid} {i : Info} {r : Reg} (hi : w.info[b]? = some i)
    (hr : w.regs[i.model]? = some r) :
    removeAgent w b = { w with regs := w.regs.set i.model (r.deregister b i.ty), removedLog := w.removedLog ++ [b] } := by
  simp [removeAgent, hi, hr]

theorem le_removeAgent (w : World) (b : Aid) : Le w (removeAgent w b) := by
  cases hi : w.info[b]? with
  | none => rw [removeAgent_none hi]; exact Le.refl w
  | some i =>
    cases hr : w.regs[i.model]? with
    | none => rw [removeAgent_noreg hi hr]; exact Le.refl w
    | some r =>
      rw [removeAgent_some hi hr]
      refine ⟨⟨[], by simp⟩, fun a ha h => ?_⟩
      rw [alive_iff] at h ⊢
      refine ⟨ha, ?_⟩
      rcases h.2 with h | h
      · left
        rw [registered_iff] at h ⊢
        obtain ⟨ia, ra, h1, h2, h3⟩ := h
        simp only at h1 h2
        rw [List.getElem?_set] at h2
        split at h2
        · rename_i heq
          split at h2
          · simp at h2; subst h2
            exact ⟨ia, r, h1, by rw [← heq]; exact hr, deregister_hard_subset _ _ _ _ h3⟩
          · simp at h2
        · exact ⟨ia, ra, h1, h2, h3⟩
      · right; exact h

theorem le_createAgent (w : World) (m : Nat) (ty : Ty) (hold : Bool) (x : Payload) : Le w (createAgent w m ty hold x) := by
  unfold createAgent
  cases hr : w.regs[m]? with
  | none => exact Le.refl w
  | some r =>
    refine ⟨⟨_, rfl⟩, fun a ha h => ?_⟩
    rw [alive_iff] at h ⊢
    refine ⟨ha, ?_⟩
    have hne : a ≠ w.info.length := Nat.ne_of_lt ha
    rcases h.2 with h | h
    · left
      rw [registered_iff] at h ⊢
      obtain ⟨ia, ra, h1, h2, h3⟩ := h
      simp only at h1 h2
      rw [List.getElem?_append_left ha] at h1
      rw [List.getElem?_set] at h2
      split at h2
      · rename_i heq
        split at h2
        · simp at h2; subst h2
          simp only [Reg.register] at h3
          rcases mem_addKey.mp h3 with h3 | h3
          · exact ⟨ia, r, h1, by rw [← heq]; exact hr, h3⟩
          · exact absurd h3 hne
        · simp at h2
      · exact ⟨ia, ra, h1, h2, h3⟩
    · right
      simp only at h
      split at h
      · rcases List.mem_append.mp h with h | h
        · exact h
        · simp at h; exact absurd h hne
      · exact h

theorem le_createN (w : World) (m : Nat) (ty : Ty) (hold : Bool) (xs : List Payload) : Le w (createN w m ty hold xs) := by
  unfold createN
  induction xs generalizing w with
  | nil => exact Le.refl w
  | cons x xs ih => exact (le_createAgent w m ty hold x).trans (ih _)

theorem le_unhold (w : World) (b : Aid) : Le w (unhold w b) := by
  refine ⟨⟨[], by simp [unhold]⟩, fun a ha h => ?_⟩
  rw [alive_iff] at h ⊢
  refine ⟨ha, ?_⟩
  rcases h.2 with h | h
  · left; simpa [registered, unhold] using h
  · right; simp [unhold] at h; exact h.1

/-- editing a program-made set changes nothing but `sets` -/
theorem setAdd_frame (w : World) (k : Nat) (b : Aid) :
    (setAdd w k b).info = w.info ∧ (setAdd w k b).regs = w.regs ∧ (setAdd w k b).held = w.held ∧
    (setAdd w k b).log = w.log ∧ (setAdd w k b).removedLog = w.removedLog := by
  unfold setAdd
  split
  · split <;> simp
  · simp

theorem setDiscard_frame (w : World) (k : Nat) (b : Aid) :
    (setDiscard w k b).info = w.info ∧ (setDiscard w k b).regs = w.regs ∧ (setDiscard w k b).held = w.held ∧
    (setDiscard w k b).log = w.log ∧ (setDiscard w k b).removedLog = w.removedLog := by
  unfold setDiscard
  split <;> simp

theorem alive_congr {w w' : World} (h1 : w'.info = w.info) (h2 : w'.regs = w.regs) (h3 : w'.held = w.held) (a : Aid) :
    alive w' a = alive w a := by
  simp [alive, registered, h1, h2, h3]

theorem setAdd_alive (w : World) (k : Nat) (b a : Aid) : alive (setAdd w k b) a = alive w a :=
  alive_congr (setAdd_frame w k b).1 (setAdd_frame w k b).2.1 (setAdd_frame w k b).2.2.1 a

theorem setDiscard_alive (w : World) (k : Nat) (b a : Aid) : alive (setDiscard w k b) a = alive w a :=
  alive_congr (setDiscard_frame w k b).1 (setDiscard_frame w k b).2.1 (setDiscard_frame w k b).2.2.1 a

theorem le_setAdd (w : World) (k : Nat) (b : Aid) : Le w (setAdd w k b) :=
  ⟨⟨[], by simp [(setAdd_frame w k b).1]⟩, fun a _ h => by rw [setAdd_alive] at h; exact h⟩

theorem le_setDiscard (w : World) (k : Nat) (b : Aid) : Le w (setDiscard w k b) :=
  ⟨⟨[], by simp [(setDiscard_frame w k b).1]⟩, fun a _ h => by rw [setDiscard_alive] at h; exact h⟩

theorem le_runAction (self : Aid) (w : World) (act : Action) : Le w (runAction self w act) := by
  cases act with
  | rmSelf => exact le_removeAgent w self
  | rm b => exact le_removeAgent w b
  | create m ty n hold => exact le_createN w m ty hold _
  | unhold b => exact le_unhold w b
  | addTo k b => exact le_setAdd w k b
  | discardFrom k b => exact le_setDiscard w k b

theorem le_foldl_runAction (self : Aid) (w : World) (acts : List Action) : Le w (acts.foldl (runAction self) w) := by
  induction acts generalizing w with
  | nil => exact Le.refl w
  | cons act acts ih => exact (le_runAction self w act).trans (ih _)

theorem le_withLog (w : World) (l : List (Aid × Nat)) : Le w { w with log := l } :=
  ⟨⟨[], by simp⟩, fun _ _ h => by simpa [alive, registered] using h⟩

theorem le_invoke (script : Aid → List Action) (arg : Nat) (w : World) (a : Aid) : Le w (invoke script arg w a) :=
  (le_withLog w _).trans (le_foldl_runAction a _ _)

theorem le_turn (script : Aid → List Action) (arg : Nat) (w : World) (a : Aid) : Le w (turn script arg w a) := by
  unfold turn; split
  · exact le_invoke script arg w a
  · exact Le.refl w

theorem le_walk (script : Aid → List Action) (arg : Nat) (w : World) (refs : List Aid) : Le w (walk script arg w refs) := by
  unfold walk
  induction refs generalizing w with
  | nil => exact Le.refl w
  | cons a refs ih => exact (le_turn script arg w a).trans (ih _)

/-! ### the log -/

theorem removeAgent_log (w : World) (b : Aid) : (removeAgent w b).log = w.log := by
  cases hi : w.info[b]? with
  | none => rw [removeAgent_none hi]
  | some i =>
    cases hr : w.regs[i.model]? with
    | none => rw [removeAgent_noreg hi hr]
    | some r => rw [removeAgent_some hi hr]

theorem createAgent_log (w : World) (m ty hold x) : (createAgent w m ty hold x).log = w.log := by
  unfold createAgent; split <;> rfl

theorem createN_log (w : World) (m ty hold) (xs : List Payload) : (createN w m ty hold xs).log = w.log := by
  unfold createN
  induction xs generalizing w with
  | nil => rfl
  | cons x xs ih => simp only [List.foldl_cons]; rw [ih, createAgent_log]

theorem runAction_log (self : Aid) (w : World) (act : Action) : (runAction self w act).log = w.log := by
  cases act with
  | rmSelf => exact removeAgent_log w self
  | rm b => exact removeAgent_log w b
  | create m ty n hold => exact createN_log w m ty hold _
  | unhold b => rfl
  | addTo k b => exact (setAdd_frame w k b).2.2.2.1
  | discardFrom k b => exact (setDiscard_frame w k b).2.2.2.1

theorem foldl_runAction_log (self : Aid) (w : World) (acts : List Action) :
    (acts.foldl (runAction self) w).log = w.log := by
  induction acts generalizing w with
  | nil => rfl
  | cons act acts ih => simp only [List.foldl_cons]; rw [ih, runAction_log]

theorem invoke_log (script : Aid → List Action) (arg : Nat) (w : World) (a : Aid) :
    (invoke script arg w a).log = w.log ++ [(a, arg)] := by
  unfold invoke; rw [foldl_runAction_log]

/-- the agents a walk invokes, in invocation order -/
def visited (script : Aid → List Action) (arg : Nat) : World → List Aid → List Aid
  | _, [] => []
  | w, a :: rest =>
    if alive w a then a :: visited script arg (invoke script arg w a) rest else visited script arg w rest

theorem walk_cons (script : Aid → List Action) (arg : Nat) (w : World) (a : Aid) (rest : List Aid) :
    walk script arg w (a :: rest) = walk script arg (turn script arg w a) rest := rfl

theorem walk_append (script : Aid → List Action) (arg : Nat) (w : World) (l1 l2 : List Aid) :
    walk script arg w (l1 ++ l2) = walk script arg (walk script arg w l1) l2 := by
  simp [walk, List.foldl_append]

theorem visited_alive {script : Aid → List Action} {arg : Nat} {w : World} {a : Aid} (rest : List Aid)
    (h : alive w a = true) :
    visited script arg w (a :: rest) = a :: visited script arg (invoke script arg w a) rest := by
  simp [visited, h]

theorem visited_dead {script : Aid → List Action} {arg : Nat} {w : World} {a : Aid} (rest : List Aid)
    (h : ¬ alive w a = true) : visited script arg w (a :: rest) = visited script arg w rest := by
  simp [visited, h]

theorem turn_alive {script : Aid → List Action} {arg : Nat} {w : World} {a : Aid} (h : alive w a = true) :
    turn script arg w a = invoke script arg w a := by simp [turn, h]

theorem turn_dead {script : Aid → List Action} {arg : Nat} {w : World} {a : Aid} (h : ¬ alive w a = true) :
    turn script arg w a = w := by simp [turn, h]

theorem walk_log (script : Aid → List Action) (arg : Nat) (w : World) (refs : List Aid) :
    (walk script arg w refs).log = w.log ++ (visited script arg w refs).map (fun a => (a, arg)) := by
  induction refs generalizing w with
  | nil => simp [walk, visited]
  | cons a refs ih =>
    rw [walk_cons, ih]
    by_cases hal : alive w a = true
    · rw [turn_alive hal, visited_alive _ hal, invoke_log]; simp
    · rw [turn_dead hal, visited_dead _ hal]

theorem visited_sublist (script : Aid → List Action) (arg : Nat) (w : World) (refs : List Aid) :
    (visited script arg w refs).Sublist refs := by
  induction refs generalizing w with
  | nil => simp [visited]
  | cons a refs ih =>
    by_cases hal : alive w a = true
    · rw [visited_alive _ hal]; exact (ih _).cons_cons a
    · rw [visited_dead _ hal]; exact (ih _).cons a

/-- a member that is alive when the call ends was invoked -/
theorem visited_of_alive_end (script : Aid → List Action) (arg : Nat) (w : World) (refs : List Aid)
    (hex : ∀ x ∈ refs, x < w.info.length) (a : Aid) (ha : a ∈ refs)
    (hend : alive (walk script arg w refs) a = true) : a ∈ visited script arg w refs := by
  induction refs generalizing w with
  | nil => simp at ha
  | cons x refs ih =>
    rw [walk_cons] at hend
    have hle := le_turn script arg w x
    have hex' : ∀ y ∈ refs, y < (turn script arg w x).info.length :=
      fun y hy => Nat.lt_of_lt_of_le (hex y (List.mem_cons_of_mem _ hy)) hle.len
    by_cases hal : alive w x = true
    · rw [visited_alive _ hal]
      rcases List.mem_cons.mp ha with rfl | ha
      · exact List.mem_cons_self
      · rw [turn_alive hal] at hend hex'
        exact List.mem_cons_of_mem _ (ih _ hex' ha hend)
    · rw [visited_dead _ hal]
      rw [turn_dead hal] at hend hex'
      rcases List.mem_cons.mp ha with rfl | ha
      · exact absurd ((le_walk script arg w refs).dead a (hex a (List.mem_cons_self)) hend) hal
      · exact ih _ hex' ha hend

/-- invoked iff alive at its own turn (members are distinct) -/
theorem mem_visited_iff (script : Aid → List Action) (arg : Nat) (w : World) (refs : List Aid) (hn : refs.Nodup)
    (a : Aid) :
    a ∈ visited script arg w refs ↔
      ∃ pre post, refs = pre ++ a :: post ∧ alive (walk script arg w pre) a = true := by
  induction refs generalizing w with
  | nil => simp [visited]
  | cons x refs ih =>
    have hx : x ∉ refs := (List.nodup_cons.mp hn).1
    have hn' := (List.nodup_cons.mp hn).2
    constructor
    · intro h
      by_cases hal : alive w x = true
      · rw [visited_alive _ hal] at h
        rcases List.mem_cons.mp h with rfl | h
        · exact ⟨[], refs, rfl, by simpa [walk] using hal⟩
        · obtain ⟨pre, post, h1, h2⟩ := (ih _ hn').mp h
          refine ⟨x :: pre, post, by rw [h1]; rfl, ?_⟩
          rw [walk_cons, turn_alive hal]; exact h2
      · rw [visited_dead _ hal] at h
        obtain ⟨pre, post, h1, h2⟩ := (ih _ hn').mp h
        refine ⟨x :: pre, post, by rw [h1]; rfl, ?_⟩
        rw [walk_cons, turn_dead hal]; exact h2
    · rintro ⟨pre, post, h1, h2⟩
      cases pre with
      | nil =>
        simp only [List.nil_append, List.cons.injEq] at h1
        obtain ⟨rfl, rfl⟩ := h1
        have hal : alive w x = true := by simpa [walk] using h2
        rw [visited_alive _ hal]; exact List.mem_cons_self
      | cons p pre =>
        simp only [List.cons_append, List.cons.injEq] at h1
        obtain ⟨rfl, h1⟩ := h1
        rw [walk_cons] at h2
        by_cases hal : alive w x = true
        · rw [visited_alive _ hal]
          rw [turn_alive hal] at h2
          exact List.mem_cons_of_mem _ ((ih _ hn').mpr ⟨pre, post, h1, h2⟩)
        · rw [visited_dead _ hal]
          rw [turn_dead hal] at h2
          exact (ih _ hn').mpr ⟨pre, post, h1, h2⟩

theorem walkMap_spec (script : Aid → List Action) (arg : Nat) (ret : Aid → Nat → Nat) (w : World) (refs : List Aid) :
    (walkMap script arg ret w refs).1 = walk script arg w refs ∧
    (walkMap script arg ret w refs).2 = (visited script arg w refs).map (fun a => ret a arg) := by
  induction refs generalizing w with
  | nil => simp [walkMap, walk, visited]
  | cons a refs ih =>
    rw [walk_cons]
    by_cases hal : alive w a = true
    · rw [turn_alive hal, visited_alive _ hal]
      simp only [walkMap, hal, if_true, List.map_cons]
      exact ⟨(ih _).1, by rw [(ih _).2]⟩
    · rw [turn_dead hal, visited_dead _ hal]
      simp only [walkMap, hal]
      exact ih _

theorem members_lt (w : World) (t : Target) : ∀ a ∈ members w t, a < w.info.length := by
  intro a ha
  simp only [members, List.mem_filter] at ha
  exact alive_lt ha.2

theorem members_sublist (w : World) (t : Target) : (members w t).Sublist (rawMembers w t) := List.filter_sublist

end Mesa.Agents

namespace Mesa.Agents

/-! ### shuffle_do: the shuffle step -/

theorem setRng_info (w : World) (m : Nat) (g : Rng) : (setRng w m g).info = w.info := by
  unfold setRng; split <;> rfl

theorem setRng_held (w : World) (m : Nat) (g : Rng) : (setRng w m g).held = w.held := by
  unfold setRng; split <;> rfl

theorem setRng_sets (w : World) (m : Nat) (g : Rng) : (setRng w m g).sets = w.sets := by
  unfold setRng; split <;> rfl

theorem setRng_log (w : World) (m : Nat) (g : Rng) : (setRng w m g).log = w.log := by
  unfold setRng; split <;> rfl

/-- re-seating the generator of model `m` changes nothing else in any registry -/
theorem setRng_regs (w : World) (m : Nat) (g : Rng) (j : Nat) :
    (setRng w m g).regs[j]? = (w.regs[j]?).map fun r => if j = m then { r with rng := g } else r := by
  unfold setRng
  cases hm : w.regs[m]? with
  | none =>
    simp only
    cases hj : w.regs[j]? with
    | none => rfl
    | some r =>
      have : j ≠ m := by intro h; rw [h, hm] at hj; simp at hj
      simp [this]
  | some r =>
    simp only [List.getElem?_set]
    by_cases hjm : m = j
    · subst hjm
      have : m < w.regs.length := (List.getElem?_eq_some_iff.mp hm).1
      rw [hm]; simp [this]
    · have : j ≠ m := fun h => hjm h.symm
      simp only [hjm, if_false]
      cases w.regs[j]? <;> simp [this]

theorem setRng_registered (w : World) (m : Nat) (g : Rng) (a : Aid) : registered (setRng w m g) a = registered w a := by
  unfold registered
  rw [setRng_info]
  cases w.info[a]? with
  | none => rfl
  | some i =>
    simp only [setRng_regs]
    cases w.regs[i.model]? with
    | none => rfl
    | some r => simp only [Option.map_some]; split <;> rfl

theorem setRng_alive (w : World) (m : Nat) (g : Rng) (a : Aid) : alive (setRng w m g) a = alive w a := by
  simp [alive, setRng_info, setRng_held, setRng_registered]

theorem setRng_rawMembers (w : World) (m : Nat) (g : Rng) (t : Target) :
    rawMembers (setRng w m g) t = rawMembers w t := by
  cases t with
  | all j =>
    simp only [rawMembers, setRng_regs]
    cases w.regs[j]? with
    | none => rfl
    | some r => simp only [Option.map_some]; split <;> rfl
  | byType j ty =>
    simp only [rawMembers, setRng_regs]
    cases w.regs[j]? with
    | none => rfl
    | some r => simp only [Option.map_some]; split <;> rfl
  | set k => simp only [rawMembers, setRng_sets]

theorem setRng_members (w : World) (m : Nat) (g : Rng) (t : Target) : members (setRng w m g) t = members w t := by
  unfold members
  rw [setRng_rawMembers]
  apply List.filter_congr
  intro a _
  exact setRng_alive w m g a

theorem lookup_byTypeSet (bt : List (Ty × List Aid)) (ty : Ty) (l : List Aid) (h : (bt.lookup ty).isSome) :
    (byTypeSet bt ty l).lookup ty = some l := by
  induction bt with
  | nil => simp [List.lookup] at h
  | cons p bt ih =>
    obtain ⟨t, s⟩ := p
    unfold byTypeSet
    by_cases hts : t = ty
    · subst hts; simp
    · have hne : (ty == t) = false := by simp; exact fun h => hts h.symm
      simp only [hts, if_false, List.lookup, hne]
      apply ih
      simpa [List.lookup, hne] using h

/-- `shuffle(inplace=True)` from the same generator state: the set's keys become exactly the shuffled
    reference list, and the generator ends in the same state -/
theorem shuffleInPlace_spec (w : World) (t : Target) (h : t.exists? w = true) :
    rawMembers (shuffleInPlace w t) t = (Rng.shuffle (members w t) (rngOf w t)).1 ∧
    rngOf (shuffleInPlace w t) t = (Rng.shuffle (members w t) (rngOf w t)).2 := by
  cases t with
  | all m =>
    simp only [Target.exists?, decide_eq_true_eq] at h
    obtain ⟨r, hr⟩ : ∃ r, w.regs[m]? = some r := ⟨w.regs[m], List.getElem?_eq_getElem h⟩
    simp only [shuffleInPlace, Target.model, setRaw, hr, rngOf, setRng, rawMembers,
      List.getElem?_set, h, if_true]
    simp [h]
  | byType m ty =>
    simp only [Target.exists?] at h
    cases hr : w.regs[m]? with
    | none => simp [hr] at h
    | some r =>
      simp only [hr] at h
      have hm : m < w.regs.length := (List.getElem?_eq_some_iff.mp hr).1
      simp only [shuffleInPlace, Target.model, setRaw, hr, rngOf, setRng, rawMembers,
        List.getElem?_set, hm, if_true]
      simp [hm, lookup_byTypeSet _ _ _ h]
  | set k =>
    simp only [Target.exists?] at h
    cases hs : w.sets[k]? with
    | none => simp [hs] at h
    | some p =>
      obtain ⟨m, l⟩ := p
      simp only [hs, decide_eq_true_eq] at h
      have hk : k < w.sets.length := (List.getElem?_eq_some_iff.mp hs).1
      obtain ⟨r, hr⟩ : ∃ r, w.regs[m]? = some r := ⟨w.regs[m], List.getElem?_eq_getElem h⟩
      simp only [shuffleInPlace, Target.model, setRaw, hs, rngOf, setRng, rawMembers, hr,
        List.getElem?_set, hk, h, if_true]
      simp

/-! ### GroupBy.do = do over the members regrouped by key -/

theorem visited_append (script : Aid → List Action) (arg : Nat) (w : World) (l1 l2 : List Aid) :
    visited script arg w (l1 ++ l2) = visited script arg w l1 ++ visited script arg (walk script arg w l1) l2 := by
  induction l1 generalizing w with
  | nil => simp [visited, walk]
  | cons a l1 ih =>
    rw [List.cons_append, walk_cons]
    by_cases hal : alive w a = true
    · rw [visited_alive _ hal, visited_alive _ hal, turn_alive hal, ih]; rfl
    · rw [visited_dead _ hal, visited_dead _ hal, turn_dead hal, ih]

/-- taking the snapshot of a group when its turn comes (dropping members that died meanwhile) changes
    nothing: the walk checks liveness again at every turn, and the dead stay dead -/
theorem walk_filter_alive (script : Aid → List Action) (arg : Nat) (w0 w : World) (h0 : Le w0 w) (g : List Aid)
    (hg : ∀ a ∈ g, a < w0.info.length) :
    walk script arg w (g.filter (alive w0)) = walk script arg w g ∧
    visited script arg w (g.filter (alive w0)) = visited script arg w g := by
  induction g generalizing w with
  | nil => simp
  | cons a g ih =>
    have hg' : ∀ x ∈ g, x < w0.info.length := fun x hx => hg x (List.mem_cons_of_mem _ hx)
    by_cases ha0 : alive w0 a = true
    · simp only [List.filter_cons, ha0, if_true, walk_cons]
      have := ih (turn script arg w a) (h0.trans (le_turn script arg w a)) hg'
      refine ⟨this.1, ?_⟩
      by_cases hal : alive w a = true
      · rw [visited_alive _ hal, visited_alive _ hal]
        rw [turn_alive hal] at this; rw [this.2]
      · rw [visited_dead _ hal, visited_dead _ hal]
        rw [turn_dead hal] at this; exact this.2
    · have hal : ¬ alive w a = true := fun h => ha0 (h0.dead a (hg a (List.mem_cons_self)) h)
      simp only [List.filter_cons, ha0, walk_cons, turn_dead hal, visited_dead _ hal]
      exact ih w h0 hg'

theorem groupWalk_eq (script : Aid → List Action) (arg : Nat) (w : World) (gs : List (Nat × List Aid))
    (hg : ∀ g ∈ gs, ∀ a ∈ g.2, a < w.info.length) :
    gs.foldl (fun w g => walk script arg w (g.2.filter (alive w))) w
      = walk script arg w (gs.map (·.2)).flatten := by
  induction gs generalizing w with
  | nil => simp [walk]
  | cons g gs ih =>
    simp only [List.foldl_cons, List.map_cons, List.flatten_cons, walk_append]
    have h1 := (walk_filter_alive script arg w w (Le.refl w) g.2 (hg g (List.mem_cons_self))).1
    rw [h1]
    apply ih
    intro g' hg' a ha
    exact Nat.lt_of_lt_of_le (hg g' (List.mem_cons_of_mem _ hg') a ha) (le_walk script arg w g.2).len

end Mesa.Agents

namespace Mesa.Agents

/-! ### callbacks that raise: the call ends at the raiser -/

/-- what an activation with raising callbacks does is an ordinary walk over a prefix of the reference list: the
    prefix that ends with the first member that is alive at its turn and whose callback raises (the whole list if
    there is none) -/
theorem walkX_spec (script : Aid → List Action) (raises : Aid → Bool) (arg : Nat) (w : World) (refs : List Aid) :
    ∃ pre post, refs = pre ++ post ∧
      (walkX script raises arg w refs).1 = walk script arg w pre ∧
      ((walkX script raises arg w refs).2 = true →
        ∃ pre' a, pre = pre' ++ [a] ∧ alive (walk script arg w pre') a = true ∧ raises a = true ∧
          ∀ b ∈ visited script arg w pre', raises b = false) ∧
      ((walkX script raises arg w refs).2 = false → post = [] ∧ ∀ b ∈ visited script arg w refs, raises b = false) := by
  induction refs generalizing w with
  | nil => exact ⟨[], [], rfl, rfl, by simp [walkX], by simp [walkX, visited]⟩
  | cons x refs ih =>
    by_cases hal : alive w x = true
    · by_cases hr : raises x = true
      · refine ⟨[x], refs, rfl, ?_, ?_, ?_⟩
        · simp [walkX, hal, hr, walk, turn]
        · intro _
          exact ⟨[], x, rfl, by simpa [walk] using hal, hr, by simp [visited]⟩
        · simp [walkX, hal, hr]
      · have hr' : raises x = false := by simpa using hr
        obtain ⟨pre, post, h1, h2, h3, h4⟩ := ih (invoke script arg w x)
        have hw : walkX script raises arg w (x :: refs) = walkX script raises arg (invoke script arg w x) refs := by
          simp [walkX, hal, hr']
        refine ⟨x :: pre, post, by rw [h1]; rfl, ?_, ?_, ?_⟩
        · rw [hw, h2, walk_cons, turn_alive hal]
        · intro hx
          rw [hw] at hx
          obtain ⟨pre', a, e1, e2, e3, e4⟩ := h3 hx
          refine ⟨x :: pre', a, by rw [e1]; rfl, by rw [walk_cons, turn_alive hal]; exact e2, e3, ?_⟩
          intro b hb
          rw [visited_alive _ hal] at hb
          rcases List.mem_cons.mp hb with rfl | hb
          · exact hr'
          · exact e4 b hb
        · intro hx
          rw [hw] at hx
          refine ⟨(h4 hx).1, ?_⟩
          intro b hb
          rw [visited_alive _ hal] at hb
          rcases List.mem_cons.mp hb with rfl | hb
          · exact hr'
          · exact (h4 hx).2 b hb
    · obtain ⟨pre, post, h1, h2, h3, h4⟩ := ih w
      have hw : walkX script raises arg w (x :: refs) = walkX script raises arg w refs := by
        simp [walkX, hal]
      refine ⟨x :: pre, post, by rw [h1]; rfl, ?_, ?_, ?_⟩
      · rw [hw, h2, walk_cons, turn_dead hal]
      · intro hx
        rw [hw] at hx
        obtain ⟨pre', a, e1, e2, e3, e4⟩ := h3 hx
        refine ⟨x :: pre', a, by rw [e1]; rfl, by rw [walk_cons, turn_dead hal]; exact e2, e3, ?_⟩
        intro b hb
        rw [visited_dead _ hal] at hb
        exact e4 b hb
      · intro hx
        rw [hw] at hx
        refine ⟨(h4 hx).1, ?_⟩
        intro b hb
        rw [visited_dead _ hal] at hb
        exact (h4 hx).2 b hb

theorem walkX_fst_walk (script : Aid → List Action) (raises : Aid → Bool) (arg : Nat) (w : World) (refs : List Aid) :
    ∃ pre, pre <+: refs ∧ (walkX script raises arg w refs).1 = walk script arg w pre := by
  obtain ⟨pre, post, h1, h2, _, _⟩ := walkX_spec script raises arg w refs
  exact ⟨pre, ⟨post, h1.symm⟩, h2⟩

theorem le_walkX (script : Aid → List Action) (raises : Aid → Bool) (arg : Nat) (w : World) (refs : List Aid) :
    Le w (walkX script raises arg w refs).1 := by
  obtain ⟨pre, _, h⟩ := walkX_fst_walk script raises arg w refs
  rw [h]; exact le_walk script arg w pre

/-- callbacks that never raise: the ordinary walk -/
theorem walkX_never (script : Aid → List Action) (arg : Nat) (w : World) (refs : List Aid) :
    walkX script (fun _ => false) arg w refs = (walk script arg w refs, false) := by
  induction refs generalizing w with
  | nil => rfl
  | cons x refs ih =>
    by_cases hal : alive w x = true
    · simp only [walkX, hal, if_true, walk_cons, turn_alive hal]
      simpa using ih _
    · simp only [walkX, hal, walk_cons, turn_dead hal]
      simpa using ih _

theorem walkX_append (script : Aid → List Action) (raises : Aid → Bool) (arg : Nat) (w : World) (l1 l2 : List Aid) :
    walkX script raises arg w (l1 ++ l2) =
      if (walkX script raises arg w l1).2 then ((walkX script raises arg w l1).1, true)
      else walkX script raises arg (walkX script raises arg w l1).1 l2 := by
  induction l1 generalizing w with
  | nil => simp [walkX]
  | cons a l1 ih =>
    by_cases hal : alive w a = true
    · by_cases hr : raises a = true
      · simp [walkX, hal, hr]
      · simp only [List.cons_append, walkX, hal, hr, if_true]
        exact ih _
    · simp only [List.cons_append, walkX, hal]
      exact ih _

theorem walkX_filter_alive (script : Aid → List Action) (raises : Aid → Bool) (arg : Nat) (w0 w : World) (h0 : Le w0 w)
    (g : List Aid) (hg : ∀ a ∈ g, a < w0.info.length) :
    walkX script raises arg w (g.filter (alive w0)) = walkX script raises arg w g := by
  induction g generalizing w with
  | nil => simp
  | cons a g ih =>
    have hg' : ∀ x ∈ g, x < w0.info.length := fun x hx => hg x (List.mem_cons_of_mem _ hx)
    by_cases ha0 : alive w0 a = true
    · simp only [List.filter_cons, ha0, if_true]
      by_cases hal : alive w a = true
      · by_cases hr : raises a = true
        · simp [walkX, hal, hr]
        · simp only [walkX, hal, hr, if_true]
          exact ih _ (h0.trans (le_invoke script arg w a)) hg'
      · simp only [walkX, hal]
        exact ih w h0 hg'
    · have hal : ¬ alive w a = true := fun h => ha0 (h0.dead a (hg a (List.mem_cons_self)) h)
      simp only [List.filter_cons, ha0, walkX, hal]
      exact ih w h0 hg'

theorem groupsX_eq (script : Aid → List Action) (raises : Aid → Bool) (arg : Nat) (w : World) (gs : List (Nat × List Aid))
    (hg : ∀ g ∈ gs, ∀ a ∈ g.2, a < w.info.length) :
    groupsX script raises arg w gs = walkX script raises arg w (gs.map (·.2)).flatten := by
  induction gs generalizing w with
  | nil => rfl
  | cons g gs ih =>
    simp only [groupsX, List.map_cons, List.flatten_cons, walkX_append]
    rw [walkX_filter_alive script raises arg w w (Le.refl w) g.2 (hg g (List.mem_cons_self))]
    cases hr : (walkX script raises arg w g.2).2 with
    | true => simp
    | false =>
      simp only [Bool.false_eq_true, if_false]
      apply ih
      intro g' hg' a ha
      exact Nat.lt_of_lt_of_le (hg g' (List.mem_cons_of_mem _ hg') a ha) (le_walkX script raises arg w g.2).len

theorem groupDoX_eq (script : Aid → List Action) (raises : Aid → Bool) (arg : Nat) (key : Aid → Nat) (w : World) (t : Target) :
    groupDoX script raises arg key w t =
      walkX script raises arg w ((groupBy key (members w t)).map (·.2)).flatten := by
  unfold groupDoX
  apply groupsX_eq
  intro g hg a ha
  apply members_lt w t
  apply (groupBy_flatten_perm key (members w t)).subset
  exact List.mem_flatten.mpr ⟨g.2, List.mem_map.mpr ⟨g, hg, rfl⟩, ha⟩

/-- `map` with raising callbacks: the state change of `do`; no result list iff an exception left the call; otherwise
    the results of the invoked agents in order -/
theorem walkMapX_spec (script : Aid → List Action) (raises : Aid → Bool) (arg : Nat) (ret : Aid → Nat → Nat) (w : World)
    (refs : List Aid) :
    (walkMapX script raises arg ret w refs).1 = (walkX script raises arg w refs).1 ∧
    ((walkMapX script raises arg ret w refs).2 = none ↔ (walkX script raises arg w refs).2 = true) ∧
    (∀ rs, (walkMapX script raises arg ret w refs).2 = some rs →
      rs = (visited script arg w refs).map (fun a => ret a arg)) := by
  induction refs generalizing w with
  | nil => simp [walkMapX, walkX, visited]
  | cons a refs ih =>
    by_cases hal : alive w a = true
    · by_cases hr : raises a = true
      · simp [walkMapX, walkX, hal, hr]
      · have hr' : raises a = false := by simpa using hr
        obtain ⟨i1, i2, i3⟩ := ih (invoke script arg w a)
        simp only [walkMapX, walkX, hal, hr', if_true, Bool.false_eq_true, if_false, visited_alive _ hal, List.map_cons]
        refine ⟨i1, ?_, ?_⟩
        · rw [← i2]; simp
        · intro rs hrs
          cases h2 : (walkMapX script raises arg ret (invoke script arg w a) refs).2 with
          | none => rw [h2] at hrs; simp at hrs
          | some rs' =>
            rw [h2] at hrs
            simp only [Option.map_some, Option.some.injEq] at hrs
            rw [← hrs, i3 rs' h2]
    · simp only [walkMapX, walkX, hal, visited_dead _ hal]
      exact ih w

theorem groupsMapX_spec (script : Aid → List Action) (raises : Aid → Bool) (arg : Nat) (ret : Aid → Nat → Nat) (w : World)
    (gs : List (Nat × List Aid)) :
    (groupsMapX script raises arg ret w gs).1 = (groupsX script raises arg w gs).1 ∧
    ((groupsMapX script raises arg ret w gs).2 = none ↔ (groupsX script raises arg w gs).2 = true) := by
  induction gs generalizing w with
  | nil => simp [groupsMapX, groupsX]
  | cons g gs ih =>
    obtain ⟨s1, s2, _⟩ := walkMapX_spec script raises arg ret w (g.2.filter (alive w))
    simp only [groupsMapX, groupsX]
    cases hm : walkMapX script raises arg ret w (g.2.filter (alive w)) with
    | mk w' o =>
      rw [hm] at s1 s2
      simp only at s1 s2
      cases o with
      | none =>
        have hx : (walkX script raises arg w (g.2.filter (alive w))).2 = true := s2.mp rfl
        simp [hx, s1]
      | some rs =>
        have hx : (walkX script raises arg w (g.2.filter (alive w))).2 = false := by
          cases h : (walkX script raises arg w (g.2.filter (alive w))).2 with
          | false => rfl
          | true => have := s2.mpr h; simp at this
        simp only [hx]
        obtain ⟨j1, j2⟩ := ih w'
        rw [← s1]
        refine ⟨j1, ?_⟩
        simp only [Bool.false_eq_true, if_false]
        rw [← j2]; simp

end Mesa.Agents

namespace Mesa.Agents

/-! ### callbacks that edit program-made sets (possibly the activated one): invisible to the walk -/

def Action.isSetEdit : Action → Bool
  | .addTo _ _ | .discardFrom _ _ => true
  | _ => false

/-- the same callbacks without their `add` / `discard` calls on program-made sets -/
def stripEdits (script : Aid → List Action) : Aid → List Action := fun a => (script a).filter (fun act => !act.isSetEdit)

/-- `w` with other program-made sets -/
def withSets (w : World) (s : List (Nat × List Aid)) : World := { w with sets := s }

theorem withSets_self (w : World) : withSets w w.sets = w := rfl

theorem withSets_withSets (w : World) (s s' : List (Nat × List Aid)) : withSets (withSets w s) s' = withSets w s' := rfl

theorem alive_withSets (w : World) (s : List (Nat × List Aid)) (a : Aid) : alive (withSets w s) a = alive w a :=
  alive_congr rfl rfl rfl a

theorem removeAgent_withSets (w : World) (s : List (Nat × List Aid)) (b : Aid) :
    removeAgent (withSets w s) b = withSets (removeAgent w b) s := by
  simp only [removeAgent, withSets]
  cases w.info[b]? with
  | none => rfl
  | some i =>
    simp only
    cases w.regs[i.model]? with
    | none => rfl
    | some r => rfl

theorem createAgent_withSets (w : World) (s : List (Nat × List Aid)) (m : Nat) (ty : Ty) (hold : Bool) (x : Payload) :
    createAgent (withSets w s) m ty hold x = withSets (createAgent w m ty hold x) s := by
  simp only [createAgent, withSets]
  cases w.regs[m]? with
  | none => rfl
  | some r => rfl

theorem createN_withSets (w : World) (s : List (Nat × List Aid)) (m : Nat) (ty : Ty) (hold : Bool) (xs : List Payload) :
    createN (withSets w s) m ty hold xs = withSets (createN w m ty hold xs) s := by
  unfold createN
  induction xs generalizing w with
  | nil => rfl
  | cons x xs ih => simp only [List.foldl_cons, createAgent_withSets, ih]

theorem setAdd_eq_withSets (w : World) (k : Nat) (b : Aid) : ∃ s', setAdd w k b = withSets w s' := by
  unfold setAdd
  split
  · split
    · exact ⟨_, rfl⟩
    · exact ⟨w.sets, rfl⟩
  · exact ⟨w.sets, rfl⟩

theorem setDiscard_eq_withSets (w : World) (k : Nat) (b : Aid) : ∃ s', setDiscard w k b = withSets w s' := by
  unfold setDiscard
  split
  · exact ⟨_, rfl⟩
  · exact ⟨w.sets, rfl⟩

theorem runAction_withSets (self : Aid) (w : World) (s : List (Nat × List Aid)) (act : Action) :
    ∃ s', runAction self (withSets w s) act = withSets (if act.isSetEdit then w else runAction self w act) s' := by
  cases act with
  | rmSelf => exact ⟨s, removeAgent_withSets w s self⟩
  | rm b => exact ⟨s, removeAgent_withSets w s b⟩
  | create m ty n hold => exact ⟨s, createN_withSets w s m ty hold _⟩
  | unhold b => exact ⟨s, rfl⟩
  | addTo k b =>
    obtain ⟨s', h⟩ := setAdd_eq_withSets (withSets w s) k b
    exact ⟨s', by simp only [runAction, h, Action.isSetEdit, if_true, withSets_withSets]⟩
  | discardFrom k b =>
    obtain ⟨s', h⟩ := setDiscard_eq_withSets (withSets w s) k b
    exact ⟨s', by simp only [runAction, h, Action.isSetEdit, if_true, withSets_withSets]⟩

theorem foldl_runAction_withSets (self : Aid) (acts : List Action) (w : World) (s : List (Nat × List Aid)) :
    ∃ s', acts.foldl (runAction self) (withSets w s)
      = withSets ((acts.filter (fun act => !act.isSetEdit)).foldl (runAction self) w) s' := by
  induction acts generalizing w s with
  | nil => exact ⟨s, rfl⟩
  | cons act acts ih =>
    obtain ⟨s1, h1⟩ := runAction_withSets self w s act
    simp only [List.foldl_cons, h1]
    cases he : act.isSetEdit with
    | true => simpa [List.filter_cons, he] using ih w s1
    | false => simpa [List.filter_cons, he] using ih (runAction self w act) s1

theorem invoke_withSets (script : Aid → List Action) (arg : Nat) (w : World) (s : List (Nat × List Aid)) (a : Aid) :
    ∃ s', invoke script arg (withSets w s) a = withSets (invoke (stripEdits script) arg w a) s' := by
  unfold invoke stripEdits
  exact foldl_runAction_withSets a (script a) { w with log := w.log ++ [(a, arg)] } s

/-- the walk with set-editing callbacks and the walk without the edits visit the same agents and end in worlds
    that differ in nothing but the program-made sets -/
theorem walk_withSets (script : Aid → List Action) (arg : Nat) (refs : List Aid) (w : World) (s : List (Nat × List Aid)) :
    (∃ s', walk script arg (withSets w s) refs = withSets (walk (stripEdits script) arg w refs) s') ∧
    visited script arg (withSets w s) refs = visited (stripEdits script) arg w refs := by
  induction refs generalizing w s with
  | nil => exact ⟨⟨s, rfl⟩, rfl⟩
  | cons a refs ih =>
    by_cases hal : alive w a = true
    · have hal' : alive (withSets w s) a = true := by rw [alive_withSets]; exact hal
      obtain ⟨s1, h1⟩ := invoke_withSets script arg w s a
      rw [walk_cons, walk_cons, turn_alive hal, turn_alive hal', visited_alive _ hal, visited_alive _ hal', h1]
      exact ⟨(ih _ s1).1, by rw [(ih _ s1).2]⟩
    · have hal' : ¬ alive (withSets w s) a = true := by rw [alive_withSets]; exact hal
      rw [walk_cons, walk_cons, turn_dead hal, turn_dead hal', visited_dead _ hal, visited_dead _ hal']
      exact ih w s

/-- callbacks that only edit sets: every reference that is alive when the call starts is invoked, in order -/
theorem visited_of_no_churn (script : Aid → List Action) (arg : Nat) (w : World) (refs : List Aid)
    (hs : ∀ a, stripEdits script a = []) (hal : ∀ a ∈ refs, alive w a = true) :
    visited script arg w refs = refs := by
  have h := (walk_withSets script arg refs w w.sets).2
  rw [withSets_self] at h
  rw [h]
  clear h
  induction refs generalizing w with
  | nil => rfl
  | cons a refs ih =>
    rw [visited_alive _ (hal a List.mem_cons_self)]
    have hinv : ∀ x, alive (invoke (stripEdits script) arg w a) x = alive w x := by
      intro x
      simp only [invoke, hs a, List.foldl_nil]
      exact alive_congr rfl rfl rfl x
    rw [ih _ (fun x hx => by rw [hinv]; exact hal x (List.mem_cons_of_mem _ hx))]

/-! ### activations whose callbacks make no set edits leave every program-made set as it is -/

theorem removeAgent_sets (w : World) (b : Aid) : (removeAgent w b).sets = w.sets := by
  cases hi : w.info[b]? with
  | none => rw [removeAgent_none hi]
  | some i =>
    cases hr : w.regs[i.model]? with
    | none => rw [removeAgent_noreg hi hr]
    | some r => rw [removeAgent_some hi hr]

theorem createAgent_sets (w : World) (m ty hold x) : (createAgent w m ty hold x).sets = w.sets := by
  unfold createAgent; split <;> rfl

theorem createN_sets (w : World) (m ty hold) (xs : List Payload) : (createN w m ty hold xs).sets = w.sets := by
  unfold createN
  induction xs generalizing w with
  | nil => rfl
  | cons x xs ih => simp only [List.foldl_cons]; rw [ih, createAgent_sets]

theorem runAction_sets (self : Aid) (w : World) (act : Action) (h : act.isSetEdit = false) :
    (runAction self w act).sets = w.sets := by
  cases act with
  | rmSelf => exact removeAgent_sets w self
  | rm b => exact removeAgent_sets w b
  | create m ty n hold => exact createN_sets w m ty hold _
  | unhold b => rfl
  | addTo k b => simp [Action.isSetEdit] at h
  | discardFrom k b => simp [Action.isSetEdit] at h

theorem walk_sets (script : Aid → List Action) (hne : ∀ a, ∀ act ∈ script a, act.isSetEdit = false) (arg : Nat) (w : World)
    (refs : List Aid) : (walk script arg w refs).sets = w.sets := by
  induction refs generalizing w with
  | nil => rfl
  | cons a refs ih =>
    rw [walk_cons, ih]
    unfold turn
    split
    · unfold invoke
      have hsa := hne a
      generalize script a = acts at hsa
      have : ({ w with log := w.log ++ [(a, arg)] } : World).sets = w.sets := rfl
      rw [← this]
      generalize ({ w with log := w.log ++ [(a, arg)] } : World) = w'
      induction acts generalizing w' with
      | nil => rfl
      | cons act acts ih2 =>
        rw [List.foldl_cons, ih2 (fun x hx => hsa x (List.mem_cons_of_mem _ hx)),
          runAction_sets a w' act (hsa act List.mem_cons_self)]
    · rfl

end Mesa.Agents
