import MesaModel.Proofs.Devs
/-!
At-least-once: a scheduled event (tag `k`, callable object `c`) that no command ever cancels and whose callable no command
ever drops stays *served* — waiting on the list (neither cancelled nor dead) or executed at exactly the time it was scheduled
for — through every further history.  Events that share the callable `c` are otherwise independent: cancelling THEM is allowed.
-/
namespace Mesa.Devs

/-- the user event with tag `k`, callable `c`, event id `i` and time `t` is waiting (neither cancelled nor dead) or has been
    executed — that very event, `LogEntry.user i k t` — with the clock at `t` -/
def Served (k c i : Nat) (t : Int) (s : Sim) : Prop :=
  (∃ e ∈ s.pending, e.isStep = false ∧ e.tag = k ∧ e.fn = c ∧ e.id = i ∧ e.time = t ∧ e.cancelled = false ∧ e.dead = false) ∨
  LogEntry.user i k t ∈ s.log

/-- no command of the list cancels the event with tag `k` or drops the callable `c` -/
def Spares (k c : Nat) (cs : List Cmd) : Prop := Cmd.cancel k ∉ cs ∧ Cmd.drop c ∉ cs

/-- none of the callables (event programs, the step body) cancels tag `k` or drops callable `c`.  The condition is syntactic and
    ranges over ALL programs of the table, also those no event ever runs: it is sufficient for the event to be spared, not
    necessary (a program that names `k` but is never scheduled, or whose `cancel k` comes after a `raise`, would be harmless). -/
def ProgsSpare (k c : Nat) (s : Sim) : Prop := (∀ a, Spares k c (s.prog a)) ∧ Spares k c s.stepProg

theorem served_mono {k c i : Nat} {t : Int} {s s' : Sim} (h : Served k c i t s)
    (hp : ∀ e ∈ s.pending, e.isStep = false → e.tag = k → e.fn = c → e.cancelled = false → e.dead = false → e ∈ s'.pending)
    (hl : ∀ x ∈ s.log, x ∈ s'.log) : Served k c i t s' := by
  rcases h with ⟨e, he, h1, h2, hc, hid, h3, h4, h5⟩ | hi
  · exact Or.inl ⟨e, hp e he h1 h2 hc h4 h5, h1, h2, hc, hid, h3, h4, h5⟩
  · exact Or.inr (hl _ hi)

theorem pushUser_served {k c i : Nat} {t : Int} {s : Sim} (h : Served k c i t s) (t' : Int) (p a : Nat)
    (c' : Option Nat := none) : Served k c i t (pushUser s t' p a c') :=
  served_mono h (fun _ he _ _ _ _ _ => mem_insert.mpr (Or.inr he)) (fun _ hx => hx)

theorem pushStep_served {k c i : Nat} {t : Int} {s : Sim} (h : Served k c i t s) : Served k c i t (pushStep s) :=
  served_mono h (fun _ he _ _ _ _ _ => mem_insert.mpr (Or.inr he)) (fun _ hx => hx)

theorem rearm_served {k c i : Nat} {t : Int} {s : Sim} (h : Served k c i t s) : Served k c i t (rearm s) := by
  unfold rearm; split
  · exact pushStep_served h
  · exact h

theorem cancelTag_served {k c i k' : Nat} {t : Int} {s : Sim} (h : Served k c i t s) (hk : k' ≠ k) :
    Served k c i t (cancelTag s k') := by
  apply served_mono h
  · intro e he h1 h2 _ _ _
    refine List.mem_map.mpr ⟨e, he, ?_⟩
    have : (e.tag == k') = false := by simp [h2, Ne.symm hk]
    simp [this]
  · exact fun _ hx => hx

/-- dropping ANOTHER callable does not touch the event -/
theorem dropFn_served {k c i k' : Nat} {t : Int} {s : Sim} (h : Served k c i t s) (hk : k' ≠ c) :
    Served k c i t (dropFn s k') := by
  apply served_mono h
  · intro e he h1 _ h2 _ _
    refine List.mem_map.mpr ⟨e, he, ?_⟩
    have : (e.fn == k') = false := by simp [h2, Ne.symm hk]
    simp [this]
  · exact fun _ hx => hx

theorem doCmd1_served {k c i : Nat} {t : Int} {s : Sim} (h : Served k c i t s) (cm : Cmd)
    (h1 : cm ≠ .cancel k) (h2 : cm ≠ .drop c) : Served k c i t (doCmd1 s cm) := by
  cases cm with
  | schedAbs t' p a =>
    simp only [doCmd1, schedAbs]
    split
    · rename_i s' hs
      split at hs
      · simp at hs
      · split at hs
        · simp at hs
        · simp only [Except.ok.injEq] at hs; subst hs; exact pushUser_served h _ _ _
    · exact h
  | schedRel d p a =>
    simp only [doCmd1, schedRel]
    split
    · rename_i s' hs
      split at hs
      · simp at hs
      · split at hs
        · simp at hs
        · simp only [Except.ok.injEq] at hs; subst hs; exact pushUser_served h _ _ _
    · exact h
  | again k' d p =>
    rcases doCmd1_again_cases s k' d p with he | ⟨a, _, _, he⟩ <;> rw [he]
    · exact h
    · exact pushUser_served h _ _ _ _
  | cancel k' => exact cancelTag_served h (fun hk => h1 (by rw [hk]))
  | drop k' => exact dropFn_served h (fun hk => h2 (by rw [hk]))
  | halt => exact h
  | raise x => exact h

theorem doCmd_served {k c i : Nat} {t : Int} {s : Sim} (h : Served k c i t s) (cm : Cmd)
    (h1 : cm ≠ .cancel k) (h2 : cm ≠ .drop c) : Served k c i t (doCmd s cm) := by
  unfold doCmd; split
  · exact h
  · exact doCmd1_served h cm h1 h2

theorem foldl_doCmd_served {k c i : Nat} {t : Int} {s : Sim} (h : Served k c i t s) (cs : List Cmd) (hs : Spares k c cs) :
    Served k c i t (cs.foldl doCmd s) := by
  induction cs generalizing s with
  | nil => exact h
  | cons cm cs ih =>
    have hc1 : cm ≠ .cancel k := fun hc => hs.1 (hc ▸ List.mem_cons_self ..)
    have hc2 : cm ≠ .drop c := fun hc => hs.2 (hc ▸ List.mem_cons_self ..)
    exact ih (doCmd_served h cm hc1 hc2)
      ⟨fun hm => hs.1 (List.mem_cons_of_mem _ hm), fun hm => hs.2 (List.mem_cons_of_mem _ hm)⟩

/-! the programs never change -/

theorem exec_progs (s : Sim) (e : Ev) : (exec s e).prog = s.prog ∧ (exec s e).stepProg = s.stepProg := by
  unfold exec
  split
  · exact ⟨rfl, rfl⟩
  · split
    · have h := foldl_doCmd_frame { rearm s with steps := s.steps + 1, log := s.log ++ [.step e.id s.now] } s.stepProg
      have hr := rearm_frame s
      exact ⟨by rw [h.2.2.2.2.1]; exact hr.2.2.2.2.1, by rw [h.2.2.2.2.2.1]; exact hr.2.2.2.2.2.1⟩
    · have h := foldl_doCmd_frame { s with log := s.log ++ [.user e.id e.tag s.now] } (s.prog e.act)
      exact ⟨by rw [h.2.2.2.2.1], by rw [h.2.2.2.2.2.1]⟩

theorem exec_progsSpare {k c : Nat} {s : Sim} (h : ProgsSpare k c s) (e : Ev) : ProgsSpare k c (exec s e) := by
  obtain ⟨h1, h2⟩ := exec_progs s e
  unfold ProgsSpare
  rw [h1, h2]
  exact h

theorem runUntil_progsSpare {k c f : Nat} {s s' : Sim} {T : Int} (h : ProgsSpare k c s)
    (hr : runUntil f s T = some s') : ProgsSpare k c s' := by
  induction f generalizing s with
  | zero => simp [runUntil] at hr
  | succ f ih =>
    simp only [runUntil] at hr
    split at hr
    · simp only [Option.some.injEq] at hr; subst hr; exact h
    · rename_i e rest hp
      split at hr
      · split at hr
        · simp only [Option.some.injEq] at hr; subst hr; exact exec_progsSpare (k := k) (c := c) (s := popped s e rest) h e
        · exact ih (exec_progsSpare (k := k) (c := c) (s := popped s e rest) h e) hr
      · simp only [Option.some.injEq] at hr; subst hr; exact h

theorem runNext_progsSpare {k c : Nat} {s : Sim} (h : ProgsSpare k c s) : ProgsSpare k c (runNext s) := by
  unfold runNext
  split
  · exact h
  · rename_i e rest hp
    exact exec_progsSpare (k := k) (c := c) (s := popped s e rest) h e

theorem doCmd_progsSpare {k c : Nat} {s : Sim} (h : ProgsSpare k c s) (cm : Cmd) : ProgsSpare k c (doCmd s cm) := by
  have hf := doCmd_frame s cm
  unfold ProgsSpare
  rw [hf.2.2.2.2.1, hf.2.2.2.2.2.1]
  exact h

/-! one pop-and-execute step -/

theorem popExec_served {k c i : Nat} {t : Int} {s : Sim} (h : Served k c i t s) (hps : ProgsSpare k c s) {e₀ : Ev} {rest : List Ev}
    (hp : popLive s.pending = some (e₀, rest)) : Served k c i t (exec (popped s e₀ rest) e₀) := by
  obtain ⟨hd, hl⟩ := popLive_decomp hp
  -- either the event is executed now, or it (or its log entry) is still there after the pop
  have hcase : (e₀.isStep = false ∧ e₀.tag = k ∧ e₀.id = i ∧ e₀.time = t ∧ e₀.dead = false) ∨
      Served k c i t (popped s e₀ rest) := by
    rcases h with ⟨e, he, h1, h2, hc, hid, h3, h4, h5⟩ | hi
    · rw [hd] at he
      rcases List.mem_append.mp he with he | he
      · have := skipped_cancelled e he
        rw [h4] at this; simp at this
      · rcases List.mem_cons.mp he with rfl | he
        · exact Or.inl ⟨h1, h2, hid, h3, h5⟩
        · exact Or.inr (Or.inl ⟨e, he, h1, h2, hc, hid, h3, h4, h5⟩)
    · exact Or.inr (Or.inr hi)
  rcases hcase with ⟨h1, h2, hid, h3, h5⟩ | hserved
  · -- executed now: the log entry carries the id, tag k and the clock e₀.time = t
    right
    rw [exec_log]
    apply List.mem_append.mpr
    right
    simp [entryOf, h5, h1, h2, popped, h3, hid]
  · unfold exec
    split
    · exact served_mono hserved (fun e he _ _ _ _ _ => he) (fun _ hx => hx)
    · split
      · apply foldl_doCmd_served _ _ hps.2
        exact served_mono (rearm_served hserved) (fun e he _ _ _ _ _ => he)
          (fun x hx => List.mem_append.mpr (Or.inl (by
            have := (rearm_frame (popped s e₀ rest)).2.1
            rw [this] at hx; exact hx)))
      · apply foldl_doCmd_served _ _ (hps.1 _)
        exact served_mono hserved (fun e he _ _ _ _ _ => he) (fun x hx => List.mem_append.mpr (Or.inl hx))

theorem runUntil_served {k c i : Nat} {t : Int} {f : Nat} {s s' : Sim} {T : Int} (h : Served k c i t s) (hps : ProgsSpare k c s)
    (hr : runUntil f s T = some s') : Served k c i t s' := by
  induction f generalizing s with
  | zero => simp [runUntil] at hr
  | succ f ih =>
    simp only [runUntil] at hr
    split at hr
    · rename_i hp
      simp only [Option.some.injEq] at hr; subst hr
      rcases h with ⟨e, he, _, _, _, _, _, h4, _⟩ | hi
      · have := popLive_none_all_cancelled hp e he
        rw [h4] at this; simp at this
      · exact Or.inr hi
    · rename_i e₀ rest hp
      split at hr
      · split at hr
        · simp only [Option.some.injEq] at hr; subst hr; exact popExec_served h hps hp
        · exact ih (popExec_served h hps hp) (exec_progsSpare (s := popped s e₀ rest) hps e₀) hr
      · simp only [Option.some.injEq] at hr; subst hr
        obtain ⟨hd, hl⟩ := popLive_decomp hp
        rcases h with ⟨e, he, h1, h2, hc, hid, h3, h4, h5⟩ | hi
        · rw [hd] at he
          rcases List.mem_append.mp he with he | he
          · have := skipped_cancelled e he
            rw [h4] at this; simp at this
          · refine Or.inl ⟨e, mem_insert.mpr ?_, h1, h2, hc, hid, h3, h4, h5⟩
            rcases List.mem_cons.mp he with rfl | he
            · exact Or.inl rfl
            · exact Or.inr he
        · exact Or.inr hi

theorem runNext_served {k c i : Nat} {t : Int} {s : Sim} (h : Served k c i t s) (hps : ProgsSpare k c s) :
    Served k c i t (runNext s) := by
  unfold runNext
  split
  · rename_i hp
    rcases h with ⟨e, he, _, _, _, _, _, h4, _⟩ | hi
    · have := popLive_none_all_cancelled hp e he
      rw [h4] at this; simp at this
    · exact Or.inr hi
  · rename_i e₀ rest hp
    exact popExec_served h hps hp

/-- `s'` is reached from `s` by further operations none of which cancels or drops tag `k` at top level -/
inductive ReachableSparing (k c : Nat) (s : Sim) : Sim → Prop where
  | refl : ReachableSparing k c s s
  | cmd {s' : Sim} (cm : Cmd) : ReachableSparing k c s s' → cm ≠ .cancel k → cm ≠ .drop c → ReachableSparing k c s (doCmd s' cm)
  | until {s' s'' : Sim} {f : Nat} {T : Int} : ReachableSparing k c s s' → s'.now ≤ T → runUntil f s' T = some s'' →
      ReachableSparing k c s s''
  | next {s' : Sim} : ReachableSparing k c s s' → ReachableSparing k c s (runNext s')
  | caught {s' : Sim} : ReachableSparing k c s s' → ReachableSparing k c s (caught s')

theorem reachableSparing_from {k c : Nat} {s s' : Sim} (h : ReachableSparing k c s s') : ReachableFrom s s' := by
  induction h with
  | refl => exact .refl
  | cmd c _ _ _ ih => exact .cmd c ih
  | «until» _ hT hr ih => exact .until ih hT hr
  | next _ ih => exact .next ih
  | caught _ ih => exact .caught ih

theorem served_stays {k c i : Nat} {t : Int} {s s' : Sim} (h : Served k c i t s) (hps : ProgsSpare k c s)
    (hr : ReachableSparing k c s s') : Served k c i t s' ∧ ProgsSpare k c s' := by
  induction hr with
  | refl => exact ⟨h, hps⟩
  | cmd c _ h1 h2 ih => exact ⟨doCmd_served ih.1 c h1 h2, doCmd_progsSpare ih.2 c⟩
  | «until» _ _ hrun ih => exact ⟨runUntil_served ih.1 ih.2 hrun, runUntil_progsSpare ih.2 hrun⟩
  | next _ ih => exact ⟨runNext_served ih.1 ih.2, runNext_progsSpare ih.2⟩
  | caught _ ih => exact ⟨ih.1, ih.2⟩

/-- a freshly scheduled user event is served -/
theorem pushUser_serves (s : Sim) (t : Int) (p a : Nat) (c : Option Nat := none) :
    Served s.nextTag (c.getD s.nextTag) s.nextId t (pushUser s t p a c) := by
  left
  refine ⟨{ time := t, prio := p, id := s.nextId, tag := s.nextTag, isStep := false, cancelled := false,
            dead := false, act := a, fn := c.getD s.nextTag }, ?_, rfl, rfl, rfl, rfl, rfl, rfl, rfl⟩
  simp only [pushUser]
  exact mem_insert.mpr (Or.inl rfl)

end Mesa.Devs
