import MesaModel.Model.LegacyTruth
import MesaModel.Proofs.LegacyCompose
/-! Agents with a truth value (C09, round 4, mutation C09-3): histories in which agents are made falsy / truthy between mutating
calls and cached `get_neighbors` queries.  The queries never consult the truth value; `grid.agents` does. -/
namespace Mesa.Legacy

open Grid

/-- a call of an interleaved history: a call of `GQ` (mutating call or `get_neighbors`), or the agent `a` changes its
    truth value (its `__bool__` / `__len__` answers differently from now on) -/
inductive TQ where
  | q (x : GQ)
  | truth (a : Aid) (truthy : Bool)

/-- the calls of the grid in a history (an agent changing its truth value is no call of the grid) -/
def eraseTruth : List TQ → List GQ
  | [] => []
  | .q x :: rest => x :: eraseTruth rest
  | .truth _ _ :: rest => eraseTruth rest

/-- the answers of the `get_neighbors` calls, as the driver computes them: grid, cache and the set of falsy agents are carried along -/
def runT : Grid → NCache → Falsy → List TQ → List (Except Err (List Aid))
  | _, _, _, [] => []
  | g, c, fz, .truth a b :: rest => runT g c (setTruth fz a b) rest
  | g, c, fz, .q (.op o) :: rest => runT (step g o).1 c fz rest
  | g, c, fz, .q (.nbrs k) :: rest => ((getNbhd g.dim c k).2.map (cellsContents g)) :: runT g (getNbhd g.dim c k).1 fz rest

/-- the set of falsy agents at the end of a history -/
def falsyAfter : Falsy → List TQ → Falsy
  | fz, [] => fz
  | fz, .truth a b :: rest => falsyAfter (setTruth fz a b) rest
  | fz, .q _ :: rest => falsyAfter fz rest

theorem runT_eq_runQ (hist : List TQ) : ∀ (g : Grid) (c : NCache) (fz : Falsy), runT g c fz hist = runQ g c (eraseTruth hist) := by
  induction hist with
  | nil => intro g c fz; rfl
  | cons x rest ih =>
    intro g c fz
    cases x with
    | truth a b => simp only [runT, eraseTruth]; exact ih g c _
    | q y =>
      cases y with
      | op o => simp only [runT, eraseTruth, runQ]; exact ih _ c fz
      | nbrs k => simp only [runT, eraseTruth, runQ]; rw [ih]

theorem mem_setTruth (fz : Falsy) (a : Aid) (b : Bool) (x : Aid) :
    x ∈ setTruth fz a b ↔ (x = a ∧ b = false) ∨ (x ≠ a ∧ x ∈ fz) := by
  unfold setTruth
  cases b with
  | true =>
    simp only [if_true, List.mem_filter, bne_iff_ne, ne_eq, Bool.true_eq_false, and_false, false_or]
    exact ⟨fun h => ⟨h.2, h.1⟩, fun h => ⟨h.2, h.1⟩⟩
  | false =>
    simp only [Bool.false_eq_true, if_false, and_true]
    by_cases hm : a ∈ fz
    · rw [if_pos hm]
      constructor
      · intro hx; by_cases hxa : x = a
        · exact Or.inl hxa
        · exact Or.inr ⟨hxa, hx⟩
      · rintro (h | h)
        · rw [h]; exact hm
        · exact h.2
    · rw [if_neg hm, List.mem_cons]
      constructor
      · rintro (h | h)
        · exact Or.inl h
        · exact Or.inr ⟨fun hxa => hm (hxa ▸ h), h⟩
      · rintro (h | h)
        · exact Or.inl h
        · exact Or.inr h.2

/-- with no falsy agent `grid.agents` is the plain flattening -/
theorem agentsListT_nil (g : Grid) : g.agentsListT [] = g.agentsList := by
  unfold Grid.agentsListT Grid.agentsList
  split
  · rfl
  · congr 1
    apply List.filter_eq_self.mpr
    intro a _; rfl

/-- on a single-occupancy grid `grid.agents` never lists a falsy agent -/
theorem agentsListT_drops_falsy (g : Grid) (hm : g.multi = false) (fz : Falsy) (a : Aid) (ha : a ∈ fz) :
    a ∉ g.agentsListT fz := by
  unfold Grid.agentsListT
  rw [hm]
  simp only [Bool.false_eq_true, if_false]
  intro hmem
  have hsub : ∀ (l acc : List Aid) (x : Aid),
      x ∈ l.foldl (fun acc x => if x ∈ acc then acc else acc ++ [x]) acc → x ∈ acc ∨ x ∈ l := by
    intro l
    induction l with
    | nil => intro acc x h; exact Or.inl h
    | cons y ys ih =>
      intro acc x h
      simp only [List.foldl_cons] at h
      rcases ih _ x h with h1 | h1
      · by_cases hy : y ∈ acc
        · rw [if_pos hy] at h1; exact Or.inl h1
        · rw [if_neg hy] at h1
          rcases List.mem_append.mp h1 with h2 | h2
          · exact Or.inl h2
          · right; rw [List.mem_singleton.mp h2]; exact List.mem_cons_self
      · exact Or.inr (List.mem_cons_of_mem _ h1)
  rcases hsub _ [] a hmem with h | h
  · cases h
  · have := (List.mem_filter.mp h).2
    simp only [Bool.not_eq_true', List.contains_eq_mem, decide_eq_false_iff_not] at this
    exact this ha

end Mesa.Legacy
