import MesaModel.Model.LegacyTruth
import MesaModel.Proofs.LegacyCompose
/-! Agents with a truth value (C09, round 4, mutation C09-3): histories in which agents are made falsy / truthy between mutating
calls and cached `get_neighbors` queries.  The readers take the emptiness test the generated table names (Model/LegacyTruth.lean). -/
namespace Mesa.Legacy

open Grid

/-- a call of an interleaved history: a call of `GQ` (mutating call or `get_neighbors`), or the agent `a` changes its
    truth value (its `__bool__` / `__len__` answers differently from now on) -/
inductive TQ where
  | q (x : GQ)
  | truth (a : Aid) (truthy : Bool)

/-- the calls of the grid in a history (an agent changing its truth value is no call of the grid) -/
def eraseTruth : List TQ → List GQ
  | [] => []
  | .q x :: rest => x :: eraseTruth rest
  | .truth _ _ :: rest => eraseTruth rest

/-- the answers of the `get_neighbors` calls, as the driver computes them: grid, cache and the set of falsy agents are carried along;
    the contents are read with the emptiness test of the code (`cellsContentsT`: it is handed the falsy set) -/
def runT : Grid → NCache → Falsy → List TQ → List (Except Err (List Aid))
  | _, _, _, [] => []
  | g, c, fz, .truth a b :: rest => runT g c (setTruth fz a b) rest
  | g, c, fz, .q (.op o) :: rest => runT (step g o).1 c fz rest
  | g, c, fz, .q (.nbrs k) :: rest => ((getNbhd g.dim c k).2.map (cellsContentsT fz g)) :: runT g (getNbhd g.dim c k).1 fz rest

/-- the set of falsy agents at the end of a history -/
def falsyAfter : Falsy → List TQ → Falsy
  | fz, [] => fz
  | fz, .truth a b :: rest => falsyAfter (setTruth fz a b) rest
  | fz, .q _ :: rest => falsyAfter fz rest

theorem mem_setTruth (fz : Falsy) (a : Aid) (b : Bool) (x : Aid) :
    x ∈ setTruth fz a b ↔ (x = a ∧ b = false) ∨ (x ≠ a ∧ x ∈ fz) := by
  unfold setTruth
  cases b with
  | true =>
    simp only [if_true, List.mem_filter, bne_iff_ne, ne_eq, Bool.true_eq_false, and_false, false_or]
    exact ⟨fun h => ⟨h.2, h.1⟩, fun h => ⟨h.2, h.1⟩⟩
  | false =>
    simp only [Bool.false_eq_true, if_false, and_true]
    by_cases hm : a ∈ fz
    · rw [if_pos hm]
      constructor
      · intro hx; by_cases hxa : x = a
        · exact Or.inl hxa
        · exact Or.inr ⟨hxa, hx⟩
      · rintro (h | h)
        · rw [h]; exact hm
        · exact h.2
    · rw [if_neg hm, List.mem_cons]
      constructor
      · rintro (h | h)
        · exact Or.inl h
        · exact Or.inr ⟨fun hxa => hm (hxa ▸ h), h⟩
      · rintro (h | h)
        · exact Or.inl h
        · exact Or.inr h.2

/-! ### the emptiness test of the readers -/

/-- the `!= default_val()` instance of the parametrised reader is `cellsContents` -/
theorem cellsContentsBy_eqDefault (fz : Falsy) (g : Grid) (cells : List Coord) :
    cellsContentsBy .eqDefault fz g cells = cellsContents g cells := by
  unfold cellsContentsBy cellsContents
  cases g.multi
  · simp only [Bool.false_eq_true, if_false, cellEmptyBy]
    congr 1
    funext c
    cases g.content c <;> simp
  · simp only [if_true, cellEmptyBy, Grid.isCellEmpty]

/-- on a MultiGrid the stored value is the cell's list: both tests agree -/
theorem cellsContentsBy_truthy_multi (fz : Falsy) (g : Grid) (hm : g.multi = true) (cells : List Coord) :
    cellsContentsBy .truthy fz g cells = cellsContents g cells := by
  unfold cellsContentsBy cellsContents
  simp only [hm, if_true, cellEmptyBy, Grid.isCellEmpty]

/-- on a single-occupancy grid the truthiness test returns the occupants that are not falsy -/
theorem mem_cellsContentsBy_truthy_single (fz : Falsy) (g : Grid) (hm : g.multi = false) (cells : List Coord) (a : Aid) :
    a ∈ cellsContentsBy .truthy fz g cells ↔ a ∈ cellsContents g cells ∧ a ∉ fz := by
  unfold cellsContentsBy cellsContents
  simp only [hm, Bool.false_eq_true, if_false, cellEmptyBy, List.mem_filterMap]
  constructor
  · rintro ⟨c, hc, h⟩
    cases hh : (g.content c).head? with
    | none => rw [hh] at h; simp at h
    | some b =>
      rw [hh] at h
      by_cases hb : b ∈ fz
      · simp [hb] at h
      · simp [hb] at h
        subst h
        exact ⟨⟨c, hc, hh⟩, hb⟩
  · rintro ⟨⟨c, hc, h⟩, hn⟩
    refine ⟨c, hc, ?_⟩
    rw [h]
    simp [hn]

/-- the `is None` instance of `grid.agents` is the plain flattening -/
theorem agentsBy_eqDefault (fz : Falsy) (g : Grid) : g.agentsBy .eqDefault fz = g.agentsList := by
  unfold Grid.agentsBy Grid.agentsList
  simp only [cellEmptyBy]
  rw [flatMap_filter_nonempty]

/-- the tests the code uses (generated from mesa/space.py): comparison with the empty value, in both places -/
theorem contentsTest_eq : contentsTest = .eqDefault := by decide
theorem agentsTest_eq : agentsTest = .eqDefault := by decide

theorem cellsContentsT_eq (fz : Falsy) (g : Grid) (cells : List Coord) : cellsContentsT fz g cells = cellsContents g cells := by
  unfold cellsContentsT; rw [contentsTest_eq]; exact cellsContentsBy_eqDefault fz g cells

theorem hexNeighborsT_eq (fz : Falsy) (g : Grid) (cells : List Coord) : hexNeighborsT fz g cells = hexNeighbors g cells := by
  unfold hexNeighborsT hexNeighbors
  cases g.rawCells cells with
  | error e => rfl
  | ok cs => simp only [cellsContentsT_eq]

theorem agentsListT_eq (g : Grid) (fz : Falsy) : g.agentsListT fz = g.agentsList := by
  unfold Grid.agentsListT; rw [agentsTest_eq]; exact agentsBy_eqDefault fz g

theorem runT_eq_runQ (hist : List TQ) : ∀ (g : Grid) (c : NCache) (fz : Falsy), runT g c fz hist = runQ g c (eraseTruth hist) := by
  induction hist with
  | nil => intro g c fz; rfl
  | cons x rest ih =>
    intro g c fz
    cases x with
    | truth a b => simp only [runT, eraseTruth]; exact ih g c _
    | q y =>
      cases y with
      | op o => simp only [runT, eraseTruth, runQ]; exact ih _ c fz
      | nbrs k =>
        simp only [runT, eraseTruth, runQ]; rw [ih]
        have : cellsContentsT fz g = cellsContents g := funext (cellsContentsT_eq fz g)
        rw [this]

end Mesa.Legacy
