import MesaModel.Model.Devs
/-! Helper lemmas for the Devs model (C14, C15). -/
namespace Mesa.Devs

/-! ### the event order -/

theorem Ev.lt_iff (a b : Ev) :
    a.lt b = true ↔ a.time < b.time ∨ (a.time = b.time ∧ (a.prio < b.prio ∨ (a.prio = b.prio ∧ a.id < b.id))) := by
  simp [Ev.lt]

theorem Ev.lt_irrefl (a : Ev) : a.lt a = false := by
  cases h : a.lt a
  · rfl
  · rw [Ev.lt_iff] at h; omega

theorem Ev.lt_trans {a b c : Ev} (h₁ : a.lt b = true) (h₂ : b.lt c = true) : a.lt c = true := by
  rw [Ev.lt_iff] at *; omega

theorem Ev.lt_asymm {a b : Ev} (h : a.lt b = true) : b.lt a = false := by
  cases h' : b.lt a
  · rfl
  · rw [Ev.lt_iff] at *; omega

/-- the order is total on events with different ids -/
theorem Ev.lt_total {a b : Ev} (h : a.id ≠ b.id) (hn : a.lt b = false) : b.lt a = true := by
  have hn' : ¬ (a.lt b = true) := by simp [hn]
  rw [Ev.lt_iff] at hn'; rw [Ev.lt_iff]; omega

theorem Ev.time_le_of_lt {a b : Ev} (h : a.lt b = true) : a.time ≤ b.time := by
  rw [Ev.lt_iff] at h; omega

/-- `lt` only looks at (time, prio, id) -/
theorem Ev.lt_congr {a a' b b' : Ev} (h₁ : a'.time = a.time ∧ a'.prio = a.prio ∧ a'.id = a.id)
    (h₂ : b'.time = b.time ∧ b'.prio = b.prio ∧ b'.id = b.id) : a'.lt b' = a.lt b := by
  simp [Ev.lt, h₁, h₂]

/-! ### sorted lists -/

/-- strictly increasing keys -/
def Sorted (l : List Ev) : Prop := l.Pairwise (fun a b => a.lt b = true)

theorem mem_insert {e y : Ev} {l : List Ev} : y ∈ insert e l ↔ y = e ∨ y ∈ l := by
  induction l with
  | nil => simp [insert]
  | cons x xs ih =>
    simp only [insert]
    split
    · simp
    · simp only [List.mem_cons, ih]
      constructor
      · rintro (h | h | h) <;> simp [h]
      · rintro (h | h | h) <;> simp [h]

theorem insert_sorted {e : Ev} {l : List Ev} (hs : Sorted l) (hid : ∀ x ∈ l, x.id ≠ e.id) :
    Sorted (insert e l) := by
  induction l with
  | nil => simp [insert, Sorted]
  | cons x xs ih =>
    simp only [insert]
    have hs' := List.pairwise_cons.mp hs
    split
    · rename_i hlt
      refine List.pairwise_cons.mpr ⟨?_, hs⟩
      intro y hy
      rcases List.mem_cons.mp hy with rfl | hy
      · exact hlt
      · exact Ev.lt_trans hlt (hs'.1 y hy)
    · rename_i hnlt
      refine List.pairwise_cons.mpr ⟨?_, ih hs'.2 (fun y hy => hid y (List.mem_cons_of_mem _ hy))⟩
      intro y hy
      rcases mem_insert.mp hy with rfl | hy
      · exact Ev.lt_total (Ne.symm (hid x (List.mem_cons_self))) (by simpa using hnlt)
      · exact hs'.1 y hy

theorem insert_of_all_lt (e : Ev) (l : List Ev) (h : ∀ x ∈ l, e.lt x = true) : insert e l = e :: l := by
  cases l with
  | nil => rfl
  | cons x xs => simp [insert, h x (by simp)]

theorem insert_perm (e : Ev) (l : List Ev) : (insert e l).Perm (e :: l) := by
  induction l with
  | nil => simp [insert]
  | cons x xs ih =>
    simp only [insert]
    split
    · exact List.Perm.refl _
    · exact (List.Perm.cons x ih).trans (List.Perm.swap e x xs)

/-- a map that only touches flags keeps the list sorted -/
theorem map_sorted {l : List Ev} (g : Ev → Ev)
    (hg : ∀ e, (g e).time = e.time ∧ (g e).prio = e.prio ∧ (g e).id = e.id) (hs : Sorted l) :
    Sorted (l.map g) := by
  unfold Sorted at *
  rw [List.pairwise_map]
  exact hs.imp (fun {a b} h => by rw [Ev.lt_congr (hg a) (hg b)]; exact h)

/-! ### pop -/

theorem popLive_decomp {l : List Ev} {e : Ev} {rest : List Ev} (h : popLive l = some (e, rest)) :
    l = skipped l ++ e :: rest ∧ e.cancelled = false := by
  induction l with
  | nil => simp [popLive] at h
  | cons x xs ih =>
    simp only [popLive] at h
    split at h
    · rename_i hx
      obtain ⟨h1, h2⟩ := ih h
      refine ⟨?_, h2⟩
      simp only [skipped, List.takeWhile_cons, hx, if_true, List.cons_append]
      congr 1
    · rename_i hx
      simp only [Option.some.injEq, Prod.mk.injEq] at h
      obtain ⟨rfl, rfl⟩ := h
      simp [skipped, hx]

theorem popLive_none {l : List Ev} (h : popLive l = none) : skipped l = l := by
  induction l with
  | nil => simp [skipped]
  | cons x xs ih =>
    simp only [popLive] at h
    split at h
    · rename_i hx
      simp only [skipped, List.takeWhile_cons, hx, if_true]
      congr 1
      exact ih h
    · simp at h

theorem skipped_cancelled {l : List Ev} : ∀ x ∈ skipped l, x.cancelled = true := by
  induction l with
  | nil => simp [skipped]
  | cons a as ih =>
    intro x hx
    simp only [skipped, List.takeWhile_cons] at hx
    split at hx
    · rename_i ha
      rcases List.mem_cons.mp hx with rfl | hx
      · simpa using ha
      · exact ih x hx
    · simp at hx

theorem popLive_mem {l : List Ev} {e : Ev} {rest : List Ev} (h : popLive l = some (e, rest)) :
    e ∈ l ∧ ∀ y ∈ rest, y ∈ l := by
  obtain ⟨hd, _⟩ := popLive_decomp h
  constructor
  · rw [hd]; simp
  · intro y hy; rw [hd]; simp [hy]

/-- what `pop_event` returns from a sorted list: a live event that precedes everything left -/
theorem popLive_spec {l : List Ev} {e : Ev} {rest : List Ev} (hs : Sorted l)
    (h : popLive l = some (e, rest)) :
    e.cancelled = false ∧ (∀ y ∈ rest, e.lt y = true) ∧ Sorted rest := by
  obtain ⟨hd, hc⟩ := popLive_decomp h
  rw [hd] at hs
  have h2 := (List.pairwise_append.mp hs).2.1
  exact ⟨hc, (List.pairwise_cons.mp h2).1, (List.pairwise_cons.mp h2).2⟩

/-- every live event of the list is either the popped one or still in the rest -/
theorem popLive_live_mem {l : List Ev} {e : Ev} {rest : List Ev} (h : popLive l = some (e, rest))
    {y : Ev} (hy : y ∈ l) (hl : y.cancelled = false) : y = e ∨ y ∈ rest := by
  obtain ⟨hd, _⟩ := popLive_decomp h
  rw [hd] at hy
  rcases List.mem_append.mp hy with hy | hy
  · have := skipped_cancelled y hy; simp [hl] at this
  · simpa using hy

theorem popLive_none_all_cancelled {l : List Ev} (h : popLive l = none) : ∀ y ∈ l, y.cancelled = true := by
  intro y hy
  rw [← popLive_none h] at hy
  exact skipped_cancelled y hy

/-- `peak_ahead n` is exactly what `n` successive `pop_event` calls would hand out -/
def popSeq : Nat → List Ev → List Ev
  | 0, _ => []
  | n+1, l => match popLive l with
    | none => []
    | some (e, rest) => e :: popSeq n rest

theorem popSeq_eq (n : Nat) (l : List Ev) : popSeq n l = (l.filter Ev.live).take n := by
  induction l generalizing n with
  | nil => cases n <;> simp [popSeq, popLive]
  | cons x xs ih =>
    cases n with
    | zero => simp [popSeq]
    | succ n =>
      by_cases hx : x.cancelled = true
      · have : popLive (x :: xs) = popLive xs := by simp [popLive, hx]
        have h2 := ih (n+1)
        simp only [popSeq] at h2 ⊢
        rw [this, h2]
        simp [Ev.live, hx]
      · have hx' : x.cancelled = false := by simpa using hx
        simp only [popSeq, popLive, hx', Bool.false_eq_true, if_false]
        rw [ih n]
        simp [Ev.live, hx']

/-! ### well-formedness of a simulator state -/

structure WF (s : Sim) : Prop where
  sorted : Sorted s.pending
  idlt : ∀ e ∈ s.pending, e.id < s.nextId
  future : ∀ e ∈ s.pending, s.now ≤ e.time

theorem U_pos : (0 : Int) < U := by decide

theorem init_wf (k : Kind) (p : Nat → List Cmd) (sp : List Cmd) : WF (init k p sp) :=
  ⟨by simp [init, Sorted], by simp [init], by simp [init]⟩

theorem pushUser_wf {s : Sim} (h : WF s) {t : Int} (ht : s.now ≤ t) (p a : Nat) (c : Option Nat := none) :
    WF (pushUser s t p a c) := by
  refine ⟨?_, ?_, ?_⟩
  · exact insert_sorted h.sorted (fun x hx => by have := h.idlt x hx; simp; omega)
  · intro e he
    rcases mem_insert.mp he with rfl | he
    · simp [pushUser]
    · have := h.idlt e he; simp [pushUser]; omega
  · intro e he
    rcases mem_insert.mp he with rfl | he
    · simpa [pushUser] using ht
    · exact h.future e he

theorem pushStep_wf {s : Sim} (h : WF s) : WF (pushStep s) := by
  refine ⟨?_, ?_, ?_⟩
  · exact insert_sorted h.sorted (fun x hx => by have := h.idlt x hx; simp; omega)
  · intro e he
    rcases mem_insert.mp he with rfl | he
    · simp [pushStep]
    · have := h.idlt e he; simp [pushStep]; omega
  · intro e he
    rcases mem_insert.mp he with rfl | he
    · have := U_pos; simp [pushStep]; omega
    · exact h.future e he

theorem schedAbs_wf {s s' : Sim} (h : WF s) {t : Int} {p a : Nat} {c : Option Nat} (hs : schedAbs s t p a c = .ok s') :
    WF s' := by
  unfold schedAbs at hs
  split at hs
  · simp at hs
  · split at hs
    · simp at hs
    · simp only [Except.ok.injEq] at hs
      subst hs
      exact pushUser_wf h (by omega) p a c

theorem schedRel_wf {s s' : Sim} (h : WF s) {d : Int} {p a : Nat} {c : Option Nat} (hs : schedRel s d p a c = .ok s') :
    WF s' := by
  unfold schedRel at hs
  split at hs
  · simp at hs
  · split at hs
    · simp at hs
    · simp only [Except.ok.injEq] at hs
      subst hs
      exact pushUser_wf h (by omega) p a c

theorem mapFlags_wf {s : Sim} (h : WF s) (g : Ev → Ev)
    (hg : ∀ e, (g e).time = e.time ∧ (g e).prio = e.prio ∧ (g e).id = e.id) :
    WF { s with pending := s.pending.map g } := by
  refine ⟨map_sorted g hg h.sorted, ?_, ?_⟩
  · intro e he
    obtain ⟨e₀, he₀, rfl⟩ := List.mem_map.mp he
    rw [(hg e₀).2.2]; exact h.idlt e₀ he₀
  · intro e he
    obtain ⟨e₀, he₀, rfl⟩ := List.mem_map.mp he
    rw [(hg e₀).1]; exact h.future e₀ he₀

theorem cancelTag_wf {s : Sim} (h : WF s) (k : Nat) : WF (cancelTag s k) :=
  mapFlags_wf h _ (fun e => by split <;> simp)

theorem dropFn_wf {s : Sim} (h : WF s) (k : Nat) : WF (dropFn s k) :=
  let w := mapFlags_wf h (fun e => if !e.isStep && e.fn == k then { e with dead := true } else e) (fun e => by split <;> simp)
  ⟨w.sorted, w.idlt, w.future⟩

/-- `again`: nothing happens (the program no longer holds the callable, or the call is rejected), or one more event with
    the held callable `k` is pushed -/
theorem doCmd1_again_cases (s : Sim) (k : Nat) (d : Int) (p : Nat) :
    doCmd1 s (.again k d p) = s ∨
    ∃ a, s.fns.lookup k = some a ∧ 0 ≤ d ∧ doCmd1 s (.again k d p) = pushUser s (s.now + d) p a (some k) := by
  cases hl : s.fns.lookup k with
  | none => left; simp [doCmd1, again, hl]
  | some a =>
    by_cases h1 : d < 0
    · left; simp [doCmd1, again, hl, schedRel, h1]
    · by_cases h2 : okUnit s.kind (s.now + d) = true
      · right; exact ⟨a, rfl, by omega, by simp [doCmd1, again, hl, schedRel, h1, h2]⟩
      · left; simp [doCmd1, again, hl, schedRel, h1, h2]

theorem doCmd1_wf {s : Sim} (h : WF s) (c : Cmd) : WF (doCmd1 s c) := by
  cases c with
  | schedAbs t p a =>
    simp only [doCmd1]
    split
    · rename_i s' hs; exact schedAbs_wf h hs
    · exact h
  | schedRel d p a =>
    simp only [doCmd1]
    split
    · rename_i s' hs; exact schedRel_wf h hs
    · exact h
  | again k d p =>
    rcases doCmd1_again_cases s k d p with he | ⟨a, _, hd, he⟩ <;> rw [he]
    · exact h
    · exact pushUser_wf h (by omega) p a _
  | cancel k => exact cancelTag_wf h k
  | drop k => exact dropFn_wf h k
  | halt => exact h
  | raise x => exact ⟨h.sorted, h.idlt, h.future⟩

theorem doCmd_wf {s : Sim} (h : WF s) (c : Cmd) : WF (doCmd s c) := by
  unfold doCmd; split
  · exact h
  · exact doCmd1_wf h c

theorem foldl_doCmd_wf {s : Sim} (h : WF s) (cs : List Cmd) : WF (cs.foldl doCmd s) := by
  induction cs generalizing s with
  | nil => exact h
  | cons c cs ih => exact ih (doCmd_wf h c)

/-- the state in which a popped event executes -/
def popped (s : Sim) (e : Ev) (rest : List Ev) : Sim :=
  { s with now := e.time, pending := rest, gone := s.gone ++ (skipped s.pending).map (·.id) }

theorem popped_wf {s : Sim} (h : WF s) {e : Ev} {rest : List Ev} (hp : popLive s.pending = some (e, rest)) :
    WF (popped s e rest) := by
  obtain ⟨_, hlt, hs⟩ := popLive_spec h.sorted hp
  refine ⟨hs, fun y hy => h.idlt y ((popLive_mem hp).2 y hy), fun y hy => Ev.time_le_of_lt (hlt y hy)⟩

/-! the four cases of one iteration of `run_until` -/

theorem runUntil_none {f : Nat} {s : Sim} {T : Int} (hp : popLive s.pending = none) :
    runUntil (f+1) s T = some { s with now := T, pending := [], gone := s.gone ++ (skipped s.pending).map (·.id) } := by
  simp only [runUntil, hp]

theorem runUntil_late {f : Nat} {s : Sim} {T : Int} {e : Ev} {rest : List Ev} (hp : popLive s.pending = some (e, rest))
    (hT : ¬ e.time ≤ T) :
    runUntil (f+1) s T = some { popped s e rest with now := T, pending := insert e rest } := by
  simp only [runUntil, hp, hT, if_false, popped]

/-- the executed event raised: the run ends there -/
theorem runUntil_due_raised {f : Nat} {s : Sim} {T : Int} {e : Ev} {rest : List Ev} (hp : popLive s.pending = some (e, rest))
    (hT : e.time ≤ T) (hx : (exec (popped s e rest) e).raised.isSome = true) :
    runUntil (f+1) s T = some (exec (popped s e rest) e) := by
  simp only [popped] at hx
  simp only [runUntil, hp, hT, if_true, popped, hx]

theorem runUntil_due {f : Nat} {s : Sim} {T : Int} {e : Ev} {rest : List Ev} (hp : popLive s.pending = some (e, rest))
    (hT : e.time ≤ T) (hx : (exec (popped s e rest) e).raised.isSome = false) :
    runUntil (f+1) s T = runUntil f (exec (popped s e rest) e) T := by
  simp only [popped] at hx
  simp only [runUntil, hp, hT, if_true, popped, hx, Bool.false_eq_true, if_false]

theorem rearm_wf {s : Sim} (h : WF s) : WF (rearm s) := by
  unfold rearm; split
  · exact pushStep_wf h
  · exact h

theorem exec_wf {s : Sim} (h : WF s) (e : Ev) : WF (exec s e) := by
  unfold exec
  split
  · exact ⟨h.sorted, h.idlt, h.future⟩
  · split
    · apply foldl_doCmd_wf
      have := rearm_wf h
      refine ⟨this.sorted, this.idlt, ?_⟩
      intro y hy
      have h2 := this.future y hy
      have : (rearm s).now = s.now := by unfold rearm; split <;> rfl
      simpa [this] using h2
    · apply foldl_doCmd_wf
      exact ⟨h.sorted, h.idlt, h.future⟩

theorem runUntil_wf {f : Nat} {s s' : Sim} {T : Int} (h : WF s) (hr : runUntil f s T = some s') : WF s' := by
  induction f generalizing s with
  | zero => simp [runUntil] at hr
  | succ f ih =>
    simp only [runUntil] at hr
    split at hr
    · simp only [Option.some.injEq] at hr; subst hr
      exact ⟨by simp [Sorted], by simp, by simp⟩
    · rename_i e rest hp
      have hpw := popped_wf h hp
      obtain ⟨_, hlt, hs⟩ := popLive_spec h.sorted hp
      split at hr
      · split at hr
        · simp only [Option.some.injEq] at hr; subst hr; exact exec_wf hpw e
        · exact ih (exec_wf hpw e) hr
      · rename_i hgt
        simp only [Option.some.injEq] at hr; subst hr
        refine ⟨?_, ?_, ?_⟩
        · show Sorted (insert e rest)
          rw [insert_of_all_lt e rest hlt]
          exact List.pairwise_cons.mpr ⟨hlt, hs⟩
        · intro y hy
          rcases mem_insert.mp hy with rfl | hy
          · exact h.idlt _ (popLive_mem hp).1
          · exact h.idlt y ((popLive_mem hp).2 y hy)
        · intro y hy
          show T ≤ y.time
          rcases mem_insert.mp hy with rfl | hy
          · omega
          · have := Ev.time_le_of_lt (hlt y hy); omega

theorem runNext_wf {s : Sim} (h : WF s) : WF (runNext s) := by
  unfold runNext
  split
  · exact ⟨by simp [Sorted], by simp, by simp⟩
  · rename_i e rest hp
    exact exec_wf (popped_wf h hp) e

theorem setup_wf {s : Sim} (h : WF s) : WF (setup s) := rearm_wf h

/-! ### accounting: every id below `nextId` is in exactly one place, exactly once -/

def ids (l : List Ev) : List Nat := l.map (·.id)
def logIds (l : List LogEntry) : List Nat := l.map (·.id)

/-- `hole` = ids of events that have been popped and are about to be logged or discarded -/
def AccH (hole : List Nat) (s : Sim) : Prop :=
  ∀ i, (ids s.pending).count i + (logIds s.log).count i + s.gone.count i + hole.count i
        = if i < s.nextId then 1 else 0

def Acc (s : Sim) : Prop := AccH [] s

theorem ids_insert_count (e : Ev) (l : List Ev) (i : Nat) :
    (ids (insert e l)).count i = (if e.id = i then 1 else 0) + (ids l).count i := by
  have := ((insert_perm e l).map (·.id)).count_eq i
  simp only [ids]
  rw [this, List.map_cons, List.count_cons]
  simp only [beq_iff_eq]
  omega

theorem ids_map_flags (l : List Ev) (g : Ev → Ev) (hg : ∀ e, (g e).id = e.id) : ids (l.map g) = ids l := by
  simp [ids, List.map_map, Function.comp_def, hg]

theorem init_acc (k : Kind) (p : Nat → List Cmd) (sp : List Cmd) : Acc (init k p sp) := by
  intro i; simp [init, ids, logIds]

theorem pushUser_accH {h : List Nat} {s : Sim} (ha : AccH h s) (t : Int) (p a : Nat) (c : Option Nat := none) :
    AccH h (pushUser s t p a c) := by
  intro i
  have := ha i
  simp only [pushUser, ids_insert_count]
  grind

theorem pushStep_accH {h : List Nat} {s : Sim} (ha : AccH h s) : AccH h (pushStep s) := by
  intro i
  have := ha i
  simp only [pushStep, ids_insert_count]
  grind

theorem doCmd1_accH {h : List Nat} {s : Sim} (ha : AccH h s) (c : Cmd) : AccH h (doCmd1 s c) := by
  cases c with
  | schedAbs t p a =>
    simp only [doCmd1, schedAbs]
    split
    · rename_i s' hs
      split at hs
      · simp at hs
      · split at hs
        · simp at hs
        · simp only [Except.ok.injEq] at hs; subst hs; exact pushUser_accH ha _ _ _
    · exact ha
  | schedRel d p a =>
    simp only [doCmd1, schedRel]
    split
    · rename_i s' hs
      split at hs
      · simp at hs
      · split at hs
        · simp at hs
        · simp only [Except.ok.injEq] at hs; subst hs; exact pushUser_accH ha _ _ _
    · exact ha
  | cancel k =>
    intro i
    have := ha i
    simp only [doCmd1, cancelTag]
    rw [ids_map_flags _ _ (fun e => by split <;> rfl)]
    exact this
  | again k d p =>
    rcases doCmd1_again_cases s k d p with he | ⟨a, _, _, he⟩ <;> rw [he]
    · exact ha
    · exact pushUser_accH ha _ _ _ _
  | drop k =>
    intro i
    have := ha i
    simp only [doCmd1, dropFn]
    rw [ids_map_flags _ _ (fun e => by split <;> rfl)]
    exact this
  | halt => exact ha
  | raise x => exact ha

theorem doCmd_accH {h : List Nat} {s : Sim} (ha : AccH h s) (c : Cmd) : AccH h (doCmd s c) := by
  unfold doCmd; split
  · exact ha
  · exact doCmd1_accH ha c

theorem foldl_doCmd_accH {h : List Nat} {s : Sim} (ha : AccH h s) (cs : List Cmd) : AccH h (cs.foldl doCmd s) := by
  induction cs generalizing s with
  | nil => exact ha
  | cons c cs ih => exact ih (doCmd_accH ha c)

theorem popped_accH {s : Sim} (ha : Acc s) {e : Ev} {rest : List Ev}
    (hp : popLive s.pending = some (e, rest)) : AccH [e.id] (popped s e rest) := by
  intro i
  have := ha i
  obtain ⟨hd, _⟩ := popLive_decomp hp
  have hcount : (ids s.pending).count i
      = ((skipped s.pending).map (·.id)).count i + ((if e.id = i then 1 else 0) + (ids rest).count i) := by
    conv => lhs; rw [hd]
    simp only [ids, List.map_append, List.map_cons, List.count_append, List.count_cons, beq_iff_eq]
    omega
  simp only [List.count_nil, Nat.add_zero] at this
  simp only [popped, List.count_append, List.count_cons, List.count_nil, beq_iff_eq]
  grind

theorem exec_acc {s : Sim} {e : Ev} (ha : AccH [e.id] s) : Acc (exec s e) := by
  unfold exec
  split
  · intro i
    have := ha i
    simp only [List.count_append] at this ⊢
    simpa [Nat.add_assoc] using this
  · split
    · apply foldl_doCmd_accH
      have h1 : AccH [e.id] (rearm s) := by
        unfold rearm; split
        · exact pushStep_accH ha
        · exact ha
      have hl : (rearm s).log = s.log := by unfold rearm; split <;> rfl
      intro i
      have := h1 i
      rw [hl] at this
      simp only [logIds, List.map_append, List.count_append, List.map_cons, List.map_nil, LogEntry.id,
        List.count_nil, Nat.add_zero] at this ⊢
      grind
    · apply foldl_doCmd_accH
      intro i
      have := ha i
      simp only [logIds, List.map_append, List.count_append, List.map_cons, List.map_nil, LogEntry.id,
        List.count_nil, Nat.add_zero] at this ⊢
      grind

theorem runUntil_acc {f : Nat} {s s' : Sim} {T : Int} (ha : Acc s) (hr : runUntil f s T = some s') : Acc s' := by
  induction f generalizing s with
  | zero => simp [runUntil] at hr
  | succ f ih =>
    simp only [runUntil] at hr
    split at hr
    · rename_i hp
      simp only [Option.some.injEq] at hr; subst hr
      intro i
      have := ha i
      simp only [ids, List.count_append, List.map_nil, List.count_nil, Nat.zero_add, popLive_none hp,
        Nat.add_zero] at this ⊢
      grind
    · rename_i e rest hp
      split at hr
      · split at hr
        · simp only [Option.some.injEq] at hr; subst hr; exact exec_acc (popped_accH ha hp)
        · exact ih (exec_acc (popped_accH ha hp)) hr
      · simp only [Option.some.injEq] at hr; subst hr
        intro i
        have := popped_accH ha hp i
        simp only [popped, ids_insert_count, List.count_cons, List.count_nil, beq_iff_eq] at this ⊢
        grind

theorem runNext_acc {s : Sim} (ha : Acc s) : Acc (runNext s) := by
  unfold runNext
  split
  · rename_i hp
    intro i
    have := ha i
    simp only [ids, List.count_append, List.map_nil, List.count_nil, Nat.zero_add, popLive_none hp,
      Nat.add_zero] at this ⊢
    grind
  · rename_i e rest hp
    exact exec_acc (popped_accH ha hp)

/-! ### frame lemmas: commands never touch clock, log, counters, programs -/

theorem doCmd1_frame (s : Sim) (c : Cmd) :
    (doCmd1 s c).now = s.now ∧ (doCmd1 s c).log = s.log ∧ (doCmd1 s c).steps = s.steps ∧
    (doCmd1 s c).kind = s.kind ∧ (doCmd1 s c).prog = s.prog ∧ (doCmd1 s c).stepProg = s.stepProg ∧
    (doCmd1 s c).gone = s.gone := by
  cases c with
  | schedAbs t p a =>
    simp only [doCmd1, schedAbs]
    split
    · rename_i s' hs
      split at hs
      · simp at hs
      · split at hs
        · simp at hs
        · simp only [Except.ok.injEq] at hs; subst hs; simp [pushUser]
    · simp
  | schedRel d p a =>
    simp only [doCmd1, schedRel]
    split
    · rename_i s' hs
      split at hs
      · simp at hs
      · split at hs
        · simp at hs
        · simp only [Except.ok.injEq] at hs; subst hs; simp [pushUser]
    · simp
  | again k d p =>
    rcases doCmd1_again_cases s k d p with he | ⟨a, _, _, he⟩ <;> rw [he] <;> simp [pushUser]
  | cancel k => simp [doCmd1, cancelTag]
  | drop k => simp [doCmd1, dropFn]
  | halt => simp [doCmd1]
  | raise x => simp [doCmd1]

theorem doCmd_frame (s : Sim) (c : Cmd) :
    (doCmd s c).now = s.now ∧ (doCmd s c).log = s.log ∧ (doCmd s c).steps = s.steps ∧
    (doCmd s c).kind = s.kind ∧ (doCmd s c).prog = s.prog ∧ (doCmd s c).stepProg = s.stepProg ∧
    (doCmd s c).gone = s.gone := by
  unfold doCmd; split
  · simp
  · exact doCmd1_frame s c

theorem foldl_doCmd_frame (s : Sim) (cs : List Cmd) :
    (cs.foldl doCmd s).now = s.now ∧ (cs.foldl doCmd s).log = s.log ∧ (cs.foldl doCmd s).steps = s.steps ∧
    (cs.foldl doCmd s).kind = s.kind ∧ (cs.foldl doCmd s).prog = s.prog ∧
    (cs.foldl doCmd s).stepProg = s.stepProg ∧ (cs.foldl doCmd s).gone = s.gone := by
  induction cs generalizing s with
  | nil => simp
  | cons c cs ih =>
    have h1 := doCmd_frame s c
    have h2 := ih (doCmd s c)
    simp only [List.foldl_cons]
    refine ⟨by rw [h2.1, h1.1], by rw [h2.2.1, h1.2.1], by rw [h2.2.2.1, h1.2.2.1], by rw [h2.2.2.2.1, h1.2.2.2.1],
      by rw [h2.2.2.2.2.1, h1.2.2.2.2.1], by rw [h2.2.2.2.2.2.1, h1.2.2.2.2.2.1], by rw [h2.2.2.2.2.2.2, h1.2.2.2.2.2.2]⟩

theorem rearm_frame (s : Sim) :
    (rearm s).now = s.now ∧ (rearm s).log = s.log ∧ (rearm s).steps = s.steps ∧ (rearm s).kind = s.kind ∧
    (rearm s).prog = s.prog ∧ (rearm s).stepProg = s.stepProg ∧ (rearm s).gone = s.gone := by
  unfold rearm; split <;> simp [pushStep]

/-- what one execution appends to the log -/
def entryOf (s : Sim) (e : Ev) : List LogEntry :=
  if e.dead then [] else if e.isStep then [.step e.id s.now] else [.user e.id e.tag s.now]

theorem exec_now (s : Sim) (e : Ev) : (exec s e).now = s.now := by
  unfold exec
  split
  · rfl
  · split
    · rw [(foldl_doCmd_frame _ _).1]; exact (rearm_frame s).1
    · rw [(foldl_doCmd_frame _ _).1]

theorem exec_log (s : Sim) (e : Ev) : (exec s e).log = s.log ++ entryOf s e := by
  unfold exec entryOf
  split
  · simp
  · split
    · rw [(foldl_doCmd_frame _ _).2.1]
    · rw [(foldl_doCmd_frame _ _).2.1]

theorem exec_kind (s : Sim) (e : Ev) : (exec s e).kind = s.kind := by
  unfold exec
  split
  · rfl
  · split
    · rw [(foldl_doCmd_frame _ _).2.2.2.1]; exact (rearm_frame s).2.2.2.1
    · rw [(foldl_doCmd_frame _ _).2.2.2.1]

theorem entryOf_clock {s : Sim} {e : Ev} : ∀ x ∈ entryOf s e, x.clock = s.now := by
  intro x hx
  unfold entryOf at hx
  split at hx
  · simp at hx
  · split at hx <;> simp at hx <;> subst hx <;> rfl

/-! ### the clock never moves backwards -/

def clocks (l : List LogEntry) : List Int := l.map (·.clock)

structure ClockInv (s : Sim) : Prop where
  mono : (clocks s.log).Pairwise (· ≤ ·)
  le_now : ∀ c ∈ clocks s.log, c ≤ s.now

theorem init_clockInv (k : Kind) (p : Nat → List Cmd) (sp : List Cmd) : ClockInv (init k p sp) :=
  ⟨by simp [init, clocks], by simp [init, clocks]⟩

theorem exec_clockInv {s : Sim} (h : ClockInv s) (e : Ev) : ClockInv (exec s e) := by
  refine ⟨?_, ?_⟩
  · rw [exec_log]
    simp only [clocks, List.map_append]
    refine List.pairwise_append.mpr ⟨h.mono, ?_, ?_⟩
    · unfold entryOf; split
      · simp
      · split <;> simp
    · intro a ha b hb
      obtain ⟨x, hx, rfl⟩ := List.mem_map.mp hb
      rw [entryOf_clock x hx]
      exact h.le_now a ha
  · intro c hc
    rw [exec_log] at hc
    rw [exec_now]
    simp only [clocks, List.map_append, List.mem_append] at hc
    rcases hc with hc | hc
    · exact h.le_now c hc
    · obtain ⟨x, hx, rfl⟩ := List.mem_map.mp hc
      rw [entryOf_clock x hx]; exact Int.le_refl _

theorem popped_clockInv {s : Sim} (h : ClockInv s) {e : Ev} {rest : List Ev} (hle : s.now ≤ e.time) :
    ClockInv (popped s e rest) :=
  ⟨h.mono, fun c hc => Int.le_trans (h.le_now c hc) hle⟩

theorem runUntil_clockInv {f : Nat} {s s' : Sim} {T : Int} (hw : WF s) (h : ClockInv s) (hT : s.now ≤ T)
    (hr : runUntil f s T = some s') : ClockInv s' := by
  induction f generalizing s with
  | zero => simp [runUntil] at hr
  | succ f ih =>
    simp only [runUntil] at hr
    split at hr
    · simp only [Option.some.injEq] at hr; subst hr
      exact ⟨h.mono, fun c hc => Int.le_trans (h.le_now c hc) hT⟩
    · rename_i e rest hp
      have hle := hw.future e (popLive_mem hp).1
      split at hr
      · rename_i heT
        split at hr
        · simp only [Option.some.injEq] at hr; subst hr; exact exec_clockInv (popped_clockInv h hle) e
        · refine ih (exec_wf (popped_wf hw hp) e) (exec_clockInv (popped_clockInv h hle) e) ?_ hr
          rw [exec_now]; exact heT
      · simp only [Option.some.injEq] at hr; subst hr
        exact ⟨h.mono, fun c hc => Int.le_trans (h.le_now c hc) hT⟩

theorem runNext_clockInv {s : Sim} (hw : WF s) (h : ClockInv s) : ClockInv (runNext s) := by
  unfold runNext
  split
  · exact ⟨h.mono, h.le_now⟩
  · rename_i e rest hp
    exact exec_clockInv (popped_clockInv h (hw.future e (popLive_mem hp).1)) e

/-! ### post-condition of `run_until` -/

theorem runUntil_post {f : Nat} {s s' : Sim} {T : Int} (hw : WF s) (hr : runUntil f s T = some s')
    (hn : s'.raised = none) :
    s'.now = T ∧ (∀ y ∈ s'.pending, y.cancelled = false → T < y.time) ∧
    ∃ new, s'.log = s.log ++ new ∧ ∀ x ∈ new, x.clock ≤ T := by
  induction f generalizing s with
  | zero => simp [runUntil] at hr
  | succ f ih =>
    simp only [runUntil] at hr
    split at hr
    · simp only [Option.some.injEq] at hr; subst hr
      exact ⟨rfl, by simp, [], by simp, by simp⟩
    · rename_i e rest hp
      obtain ⟨_, hlt, _⟩ := popLive_spec hw.sorted hp
      split at hr
      · rename_i heT
        split at hr
        · rename_i hx
          simp only [Option.some.injEq] at hr; subst hr
          rw [hn] at hx; simp at hx
        obtain ⟨h1, h2, new, h3, h4⟩ := ih (exec_wf (popped_wf hw hp) e) hr
        refine ⟨h1, h2, entryOf (popped s e rest) e ++ new, ?_, ?_⟩
        · rw [h3, exec_log]; simp [popped]
        · intro x hx
          rcases List.mem_append.mp hx with hx | hx
          · rw [entryOf_clock x hx]; exact heT
          · exact h4 x hx
      · rename_i hgt
        simp only [Option.some.injEq] at hr; subst hr
        refine ⟨rfl, ?_, [], by simp, by simp⟩
        intro y hy _
        rcases mem_insert.mp hy with rfl | hy
        · show T < y.time; omega
        · have := Ev.time_le_of_lt (hlt y hy); show T < y.time; omega

/-! ### chunking: advancing in pieces = advancing in one piece -/

theorem skipped_cons_live {e : Ev} {l : List Ev} (h : e.cancelled = false) : skipped (e :: l) = [] := by
  simp [skipped, h]

theorem popLive_cons_live (e : Ev) (l : List Ev) (h : e.cancelled = false) : popLive (e :: l) = some (e, l) := by
  simp [popLive, h]

theorem runUntil_fuel_succ {f : Nat} {s s' : Sim} {T : Int} (h : runUntil f s T = some s') :
    runUntil (f+1) s T = some s' := by
  induction f generalizing s with
  | zero => simp [runUntil] at h
  | succ f ih =>
    cases hp : popLive s.pending with
    | none => rw [runUntil_none hp] at h ⊢; exact h
    | some p =>
      obtain ⟨e, rest⟩ := p
      by_cases hT : e.time ≤ T
      · cases hx : (exec (popped s e rest) e).raised.isSome with
        | true => rw [runUntil_due_raised hp hT hx] at h ⊢; exact h
        | false => rw [runUntil_due hp hT hx] at h ⊢; exact ih h
      · rw [runUntil_late hp hT] at h ⊢; exact h

theorem runUntil_fuel_le {f g : Nat} {s s' : Sim} {T : Int} (hfg : f ≤ g) (h : runUntil f s T = some s') :
    runUntil g s T = some s' := by
  induction hfg with
  | refl => exact h
  | step _ ih => exact runUntil_fuel_succ ih

/-- two consecutive `run_until` pieces can be replayed as one piece, with the same final state
    (clock, pending events, counters, complete execution log) -/
theorem chunk_until {f₁ f₂ : Nat} {s s₁ s₂ : Sim} {t₁ t₂ : Int} (ht : t₁ ≤ t₂) (hw : WF s)
    (h₁ : runUntil f₁ s t₁ = some s₁) (hn : s₁.raised = none) (h₂ : runUntil f₂ s₁ t₂ = some s₂) :
    ∃ f, runUntil f s t₂ = some s₂ := by
  induction f₁ generalizing s with
  | zero => simp [runUntil] at h₁
  | succ f ih =>
    simp only [runUntil] at h₁
    split at h₁
    · rename_i hp
      simp only [Option.some.injEq] at h₁; subst h₁
      cases f₂ with
      | zero => simp [runUntil] at h₂
      | succ f₂ =>
        simp only [runUntil, popLive, skipped, List.takeWhile_nil, List.map_nil, List.append_nil,
          Option.some.injEq] at h₂
        exact ⟨1, by simp only [runUntil, hp]; rw [← h₂]; rfl⟩
    · rename_i e rest hp
      obtain ⟨hlive, hlt, hsr⟩ := popLive_spec hw.sorted hp
      split at h₁
      · rename_i hle
        split at h₁
        · rename_i hx
          simp only [Option.some.injEq] at h₁; subst h₁
          rw [hn] at hx; simp at hx
        · rename_i hx
          obtain ⟨f', hf'⟩ := ih (exec_wf (popped_wf hw hp) e) h₁
          exact ⟨f'+1, by rw [runUntil_due hp (Int.le_trans hle ht) (Bool.eq_false_iff.mpr hx)]; exact hf'⟩
      · rename_i hgt
        simp only [Option.some.injEq] at h₁; subst h₁
        cases f₂ with
        | zero => simp [runUntil] at h₂
        | succ f₂ =>
          simp only [runUntil] at h₂
          rw [insert_of_all_lt e rest hlt, popLive_cons_live e rest hlive] at h₂
          simp only [skipped_cons_live hlive, List.map_nil, List.append_nil] at h₂
          split at h₂
          · rename_i hle2
            exact ⟨f₂+1, by simp only [runUntil, hp]; rw [if_pos hle2]; exact h₂⟩
          · rename_i hgt2
            simp only [Option.some.injEq] at h₂
            exact ⟨1, by
              simp only [runUntil, hp]; rw [if_neg hgt2, ← h₂, insert_of_all_lt e rest hlt]⟩

/-- a `run_next_event` piece followed by `run_until T` equals `run_until T`, provided the event it
    executes is not beyond `T` -/
theorem chunk_next {f : Nat} {s s₂ : Sim} {T : Int}
    (hT : ∀ e rest, popLive s.pending = some (e, rest) → e.time ≤ T) (hn : (runNext s).raised = none)
    (h : runUntil f (runNext s) T = some s₂) : ∃ f', runUntil f' s T = some s₂ := by
  unfold runNext at h hn
  split at h
  · rename_i hp
    cases f with
    | zero => simp [runUntil] at h
    | succ f =>
      simp only [runUntil, popLive, skipped, List.takeWhile_nil, List.map_nil, List.append_nil,
        Option.some.injEq] at h
      exact ⟨1, by simp only [runUntil, hp]; rw [← h]; rfl⟩
  · rename_i e rest hp
    simp only [hp] at hn
    have hx : (exec (popped s e rest) e).raised.isSome = false := by
      simp only [popped]; rw [hn]; rfl
    exact ⟨f+1, by rw [runUntil_due hp (hT e rest hp) hx]; exact h⟩

inductive Piece where
  | until (t : Int)
  | for (d : Int)
  | next
deriving Repr

def runPiece (f : Nat) (s : Sim) : Piece → Option Sim
  | .until t => runUntil f s t
  | .for d => runFor f s d
  | .next => some (runNext s)

def runPieces (f : Nat) : Sim → List Piece → Option Sim
  | s, [] => some s
  | s, p :: ps => match runPiece f s p with
    | none => none
    | some s' => runPieces f s' ps

/-- every piece stays within the horizon `T` -/
def piecesWithin (f : Nat) (T : Int) : Sim → List Piece → Prop
  | _, [] => True
  | s, p :: ps =>
    (match p with
     | .until t => t ≤ T
     | .for d => s.now + d ≤ T
     | .next => ∀ e rest, popLive s.pending = some (e, rest) → e.time ≤ T) ∧
    ∀ s', runPiece f s p = some s' → piecesWithin f T s' ps

/-- every piece returns normally (no exception reaches the program) -/
def piecesNormal (f : Nat) : Sim → List Piece → Prop
  | _, [] => True
  | s, p :: ps => ∀ s', runPiece f s p = some s' → s'.raised = none ∧ piecesNormal f s' ps

theorem runPiece_wf {f : Nat} {s s' : Sim} {p : Piece} (hw : WF s) (h : runPiece f s p = some s') : WF s' := by
  cases p with
  | «until» t => exact runUntil_wf hw h
  | «for» d => exact runUntil_wf hw h
  | next => simp only [runPiece, Option.some.injEq] at h; subst h; exact runNext_wf hw

theorem chunk_pieces {f f' : Nat} {s s₁ s₂ : Sim} {T : Int} {ps : List Piece} (hw : WF s)
    (hin : piecesWithin f T s ps) (hnorm : piecesNormal f s ps) (h₁ : runPieces f s ps = some s₁) (h₂ : runUntil f' s₁ T = some s₂) :
    ∃ g, runUntil g s T = some s₂ := by
  induction ps generalizing s with
  | nil => simp only [runPieces, Option.some.injEq] at h₁; subst h₁; exact ⟨f', h₂⟩
  | cons p ps ih =>
    simp only [runPieces] at h₁
    split at h₁
    · simp at h₁
    · rename_i sm hsm
      obtain ⟨hp, hrest⟩ := hin
      obtain ⟨hnm, hnrest⟩ := hnorm sm hsm
      obtain ⟨g, hg⟩ := ih (runPiece_wf hw hsm) (hrest sm hsm) hnrest h₁
      cases p with
      | «until» t => exact chunk_until hp hw hsm hnm hg
      | «for» d => exact chunk_until hp hw hsm hnm hg
      | next =>
        simp only [runPiece, Option.some.injEq] at hsm; subst hsm
        exact chunk_next hp hnm hg

/-! ### reachable states -/

/-- every state a program can bring a simulator into: any interleaving of scheduling / cancelling /
    dropping commands (rejected ones leave the state as it is), `setup`, `run_until` / `run_for` with a
    horizon not before the clock, and `run_next_event` -/
inductive Reachable : Sim → Prop where
  | init (k : Kind) (p : Nat → List Cmd) (sp : List Cmd) : Reachable (init k p sp)
  | cmd {s : Sim} (c : Cmd) : Reachable s → Reachable (doCmd s c)
  | setup {s : Sim} : Reachable s → Reachable (setup s)
  | until {s s' : Sim} {f : Nat} {T : Int} : Reachable s → s.now ≤ T → runUntil f s T = some s' → Reachable s'
  | next {s : Sim} : Reachable s → Reachable (runNext s)
  | caught {s : Sim} : Reachable s → Reachable (caught s)   -- the program catches the exception of a callable

theorem doCmd_clockInv {s : Sim} (h : ClockInv s) (c : Cmd) : ClockInv (doCmd s c) := by
  have hf := doCmd_frame s c
  exact ⟨by rw [hf.2.1]; exact h.mono, by rw [hf.2.1, hf.1]; exact h.le_now⟩

theorem rearm_acc {s : Sim} (h : Acc s) : Acc (rearm s) := by
  unfold rearm; split
  · exact pushStep_accH h
  · exact h

theorem reachable_inv {s : Sim} (h : Reachable s) : WF s ∧ Acc s ∧ ClockInv s := by
  induction h with
  | init k p sp => exact ⟨init_wf k p sp, init_acc k p sp, init_clockInv k p sp⟩
  | cmd c _ ih => exact ⟨doCmd_wf ih.1 c, doCmd_accH ih.2.1 c, doCmd_clockInv ih.2.2 c⟩
  | @setup s₀ _ ih =>
    refine ⟨setup_wf ih.1, rearm_acc ih.2.1, ?_⟩
    have hf := rearm_frame s₀
    exact ⟨by rw [setup, hf.2.1]; exact ih.2.2.mono, by rw [setup, hf.2.1, hf.1]; exact ih.2.2.le_now⟩
  | «until» _ hT hr ih => exact ⟨runUntil_wf ih.1 hr, runUntil_acc ih.2.1 hr, runUntil_clockInv ih.1 ih.2.2 hT hr⟩
  | next _ ih => exact ⟨runNext_wf ih.1, runNext_acc ih.2.1, runNext_clockInv ih.1 ih.2.2⟩
  | caught _ ih => exact ⟨⟨ih.1.sorted, ih.1.idlt, ih.1.future⟩, ih.2.1, ⟨ih.2.2.mono, ih.2.2.le_now⟩⟩

/-! ### once cancelled, never executed -/

/-- id `i` can no longer run: it sits cancelled in the list, or was already discarded -/
def Dead (i : Nat) (s : Sim) : Prop := (∃ e ∈ s.pending, e.id = i ∧ e.cancelled = true) ∨ i ∈ s.gone

theorem dead_of_pending_superset {i : Nat} {s s' : Sim} (h : Dead i s)
    (hp : ∀ e ∈ s.pending, e.cancelled = true → ∃ e' ∈ s'.pending, e'.id = e.id ∧ e'.cancelled = true)
    (hg : ∀ j ∈ s.gone, j ∈ s'.gone) : Dead i s' := by
  rcases h with ⟨e, he, hi, hc⟩ | h
  · obtain ⟨e', he', hi', hc'⟩ := hp e he hc
    exact Or.inl ⟨e', he', by rw [hi', hi], hc'⟩
  · exact Or.inr (hg i h)

theorem pushUser_dead {i : Nat} {s : Sim} (h : Dead i s) (t : Int) (p a : Nat) (c : Option Nat := none) :
    Dead i (pushUser s t p a c) :=
  dead_of_pending_superset h (fun e he hc => ⟨e, mem_insert.mpr (Or.inr he), rfl, hc⟩) (fun _ hj => hj)

theorem pushStep_dead {i : Nat} {s : Sim} (h : Dead i s) : Dead i (pushStep s) :=
  dead_of_pending_superset h (fun e he hc => ⟨e, mem_insert.mpr (Or.inr he), rfl, hc⟩) (fun _ hj => hj)

theorem mapFlags_dead {i : Nat} {s : Sim} (h : Dead i s) (g : Ev → Ev)
    (hg : ∀ e, (g e).id = e.id ∧ (e.cancelled = true → (g e).cancelled = true)) :
    Dead i { s with pending := s.pending.map g } :=
  dead_of_pending_superset h
    (fun e he hc => ⟨g e, List.mem_map.mpr ⟨e, he, rfl⟩, (hg e).1, (hg e).2 hc⟩) (fun _ hj => hj)

theorem doCmd1_dead {i : Nat} {s : Sim} (h : Dead i s) (c : Cmd) : Dead i (doCmd1 s c) := by
  cases c with
  | schedAbs t p a =>
    simp only [doCmd1, schedAbs]
    split
    · rename_i s' hs
      split at hs
      · simp at hs
      · split at hs
        · simp at hs
        · simp only [Except.ok.injEq] at hs; subst hs; exact pushUser_dead h _ _ _
    · exact h
  | schedRel d p a =>
    simp only [doCmd1, schedRel]
    split
    · rename_i s' hs
      split at hs
      · simp at hs
      · split at hs
        · simp at hs
        · simp only [Except.ok.injEq] at hs; subst hs; exact pushUser_dead h _ _ _
    · exact h
  | again k d p =>
    rcases doCmd1_again_cases s k d p with he | ⟨a, _, _, he⟩ <;> rw [he]
    · exact h
    · exact pushUser_dead h _ _ _ _
  | cancel k => exact mapFlags_dead h _ (fun e => by split <;> simp)
  | drop k =>
    exact dead_of_pending_superset
      (mapFlags_dead h (fun e => if !e.isStep && e.fn == k then { e with dead := true } else e) (fun e => by split <;> simp))
      (fun e he hc => ⟨e, he, rfl, hc⟩) (fun _ hj => hj)
  | halt => exact h
  | raise x => exact h

theorem doCmd_dead {i : Nat} {s : Sim} (h : Dead i s) (c : Cmd) : Dead i (doCmd s c) := by
  unfold doCmd; split
  · exact h
  · exact doCmd1_dead h c

theorem foldl_doCmd_dead {i : Nat} {s : Sim} (h : Dead i s) (cs : List Cmd) : Dead i (cs.foldl doCmd s) := by
  induction cs generalizing s with
  | nil => exact h
  | cons c cs ih => exact ih (doCmd_dead h c)

theorem popped_dead {i : Nat} {s : Sim} (h : Dead i s) {e₀ : Ev} {rest : List Ev}
    (hp : popLive s.pending = some (e₀, rest)) : Dead i (popped s e₀ rest) := by
  obtain ⟨hd, hl⟩ := popLive_decomp hp
  rcases h with ⟨e, he, hi, hc⟩ | h
  · rw [hd] at he
    rcases List.mem_append.mp he with he | he
    · exact Or.inr (List.mem_append.mpr (Or.inr (List.mem_map.mpr ⟨e, he, hi⟩)))
    · rcases List.mem_cons.mp he with rfl | he
      · rw [hl] at hc; simp at hc
      · exact Or.inl ⟨e, he, hi, hc⟩
  · exact Or.inr (List.mem_append.mpr (Or.inl h))

theorem exec_dead {i : Nat} {s : Sim} (h : Dead i s) (e : Ev) : Dead i (exec s e) := by
  unfold exec
  split
  · exact dead_of_pending_superset h (fun e he hc => ⟨e, he, rfl, hc⟩) (fun j hj => List.mem_append.mpr (Or.inl hj))
  · split
    · apply foldl_doCmd_dead
      have h1 : Dead i (rearm s) := by
        unfold rearm; split
        · exact pushStep_dead h
        · exact h
      exact dead_of_pending_superset h1 (fun e he hc => ⟨e, he, rfl, hc⟩) (fun _ hj => hj)
    · apply foldl_doCmd_dead
      exact dead_of_pending_superset h (fun e he hc => ⟨e, he, rfl, hc⟩) (fun _ hj => hj)

theorem runUntil_dead {i : Nat} {f : Nat} {s s' : Sim} {T : Int} (h : Dead i s)
    (hr : runUntil f s T = some s') : Dead i s' := by
  induction f generalizing s with
  | zero => simp [runUntil] at hr
  | succ f ih =>
    simp only [runUntil] at hr
    split at hr
    · rename_i hp
      simp only [Option.some.injEq] at hr; subst hr
      rcases h with ⟨e, he, hi, hc⟩ | h
      · rw [← popLive_none hp] at he
        exact Or.inr (List.mem_append.mpr (Or.inr (List.mem_map.mpr ⟨e, he, hi⟩)))
      · exact Or.inr (List.mem_append.mpr (Or.inl h))
    · rename_i e₀ rest hp
      have hpd := popped_dead h hp
      split at hr
      · split at hr
        · simp only [Option.some.injEq] at hr; subst hr; exact exec_dead hpd e₀
        · exact ih (exec_dead hpd e₀) hr
      · simp only [Option.some.injEq] at hr; subst hr
        exact dead_of_pending_superset hpd
          (fun e he hc => ⟨e, mem_insert.mpr (Or.inr he), rfl, hc⟩) (fun _ hj => hj)

theorem runNext_dead {i : Nat} {s : Sim} (h : Dead i s) : Dead i (runNext s) := by
  unfold runNext
  split
  · rename_i hp
    rcases h with ⟨e, he, hi, hc⟩ | h
    · rw [← popLive_none hp] at he
      exact Or.inr (List.mem_append.mpr (Or.inr (List.mem_map.mpr ⟨e, he, hi⟩)))
    · exact Or.inr (List.mem_append.mpr (Or.inl h))
  · rename_i e₀ rest hp
    exact exec_dead (popped_dead h hp) e₀

/-- `s'` is reachable from `s` by further operations -/
inductive ReachableFrom (s : Sim) : Sim → Prop where
  | refl : ReachableFrom s s
  | cmd {s' : Sim} (c : Cmd) : ReachableFrom s s' → ReachableFrom s (doCmd s' c)
  | until {s' s'' : Sim} {f : Nat} {T : Int} : ReachableFrom s s' → s'.now ≤ T → runUntil f s' T = some s'' →
      ReachableFrom s s''
  | next {s' : Sim} : ReachableFrom s s' → ReachableFrom s (runNext s')
  | caught {s' : Sim} : ReachableFrom s s' → ReachableFrom s (caught s')

theorem reachableFrom_reachable {s s' : Sim} (h : Reachable s) (hr : ReachableFrom s s') : Reachable s' := by
  induction hr with
  | refl => exact h
  | cmd c _ ih => exact .cmd c ih
  | «until» _ hT hrun ih => exact .until ih hT hrun
  | next _ ih => exact .next ih
  | caught _ ih => exact .caught ih

theorem reachableFrom_wf {s s' : Sim} (h : WF s) (hr : ReachableFrom s s') : WF s' := by
  induction hr with
  | refl => exact h
  | cmd c _ ih => exact doCmd_wf ih c
  | «until» _ _ hrun ih => exact runUntil_wf ih hrun
  | next _ ih => exact runNext_wf ih
  | caught _ ih => exact ⟨ih.sorted, ih.idlt, ih.future⟩

theorem reachableFrom_acc {s s' : Sim} (h : Acc s) (hr : ReachableFrom s s') : Acc s' := by
  induction hr with
  | refl => exact h
  | cmd c _ ih => exact doCmd_accH ih c
  | «until» _ _ hrun ih => exact runUntil_acc ih hrun
  | next _ ih => exact runNext_acc ih
  | caught _ ih => exact ih

theorem dead_stays {i : Nat} {s s' : Sim} (h : Dead i s) (hr : ReachableFrom s s') : Dead i s' := by
  induction hr with
  | refl => exact h
  | cmd c _ ih => exact doCmd_dead ih c
  | «until» _ _ hrun ih => exact runUntil_dead ih hrun
  | next _ ih => exact runNext_dead ih
  | caught _ ih => exact ih

theorem dead_not_logged {i : Nat} {s : Sim} (ha : Acc s) (h : Dead i s) : i ∉ logIds s.log := by
  intro hl
  have hc := ha i
  have h1 : 0 < (logIds s.log).count i := List.count_pos_iff.mpr hl
  have h2 : 0 < (ids s.pending).count i + s.gone.count i := by
    rcases h with ⟨e, he, hi, _⟩ | h
    · have : 0 < (ids s.pending).count i := List.count_pos_iff.mpr (List.mem_map.mpr ⟨e, he, hi⟩)
      omega
    · have : 0 < s.gone.count i := List.count_pos_iff.mpr h
      omega
  simp only [List.count_nil, Nat.add_zero] at hc
  split at hc <;> omega

/-! ### events scheduled up front run in sorted order -/

/-- no callable schedules, cancels or drops anything, and `model.step` is not on the list: the events on the
    list are all there is -/
structure Quiet (s : Sim) : Prop where
  progs : ∀ a, s.prog a = []
  nosteps : ∀ e ∈ s.pending, e.isStep = false
  calm : s.raised = none

/-- what executing the live event `e` logs at its own time -/
def logged (e : Ev) : Option LogEntry := if e.dead then none else some (.user e.id e.tag e.time)

/-- the live events due by `T`, in list order -/
def due (T : Int) (l : List Ev) : List Ev := (l.filter Ev.live).takeWhile (fun e => decide (e.time ≤ T))

theorem filter_live_of_cancelled {l : List Ev} (h : ∀ x ∈ l, x.cancelled = true) : l.filter Ev.live = [] := by
  apply List.filter_eq_nil_iff.mpr
  intro x hx
  simp [Ev.live, h x hx]

theorem filter_live_pop {l : List Ev} {e : Ev} {rest : List Ev} (hp : popLive l = some (e, rest)) :
    l.filter Ev.live = e :: rest.filter Ev.live := by
  obtain ⟨hd, hl⟩ := popLive_decomp hp
  conv => lhs; rw [hd]
  rw [List.filter_append, filter_live_of_cancelled skipped_cancelled, List.nil_append, List.filter_cons]
  simp [Ev.live, hl]

theorem exec_quiet {s : Sim} (e : Ev) (hq : Quiet s) (he : e.isStep = false) :
    exec s e = if e.dead then { s with gone := s.gone ++ [e.id] }
               else { s with log := s.log ++ [.user e.id e.tag s.now] } := by
  unfold exec
  split
  · rfl
  · rw [if_neg (by simp [he]), hq.progs]; rfl

theorem runUntil_quiet_log {f : Nat} {s s' : Sim} {T : Int} (hq : Quiet s)
    (hr : runUntil f s T = some s') : s'.log = s.log ++ (due T s.pending).filterMap logged := by
  induction f generalizing s with
  | zero => simp [runUntil] at hr
  | succ f ih =>
    simp only [runUntil] at hr
    split at hr
    · rename_i hp
      simp only [Option.some.injEq] at hr; subst hr
      simp [due, filter_live_of_cancelled (popLive_none_all_cancelled hp)]
    · rename_i e rest hp
      have hfl := filter_live_pop hp
      have hes : e.isStep = false := hq.nosteps e (popLive_mem hp).1
      split at hr
      · rename_i hle
        have hqp : Quiet (popped s e rest) :=
          ⟨hq.progs, fun y hy => hq.nosteps y ((popLive_mem hp).2 y hy), hq.calm⟩
        have hex := exec_quiet e hqp hes
        have hq' : Quiet (exec (popped s e rest) e) := by
          rw [hex]
          split
          · exact ⟨hqp.progs, hqp.nosteps, hqp.calm⟩
          · exact ⟨hqp.progs, hqp.nosteps, hqp.calm⟩
        split at hr
        · rename_i hx
          have := hq'.calm
          simp only [popped] at this
          rw [this] at hx; simp at hx
        have h1 := ih hq' hr
        rw [h1, hex]
        simp only [due, hfl, List.takeWhile_cons, hle, decide_true, if_true, List.filterMap_cons, logged]
        split <;> simp_all [popped]
      · rename_i hgt
        simp only [Option.some.injEq] at hr; subst hr
        simp [due, hfl, hgt]

end Mesa.Devs
