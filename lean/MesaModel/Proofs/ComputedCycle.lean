import MesaModel.Proofs.Computed
/-!
Helper lemmas for the cycle clause of C17: the evaluation context (`CURRENT_COMPUTED`, `EVALUATION_DEPTH`,
`PROCESSING_SIGNALS`) across arbitrary calls — reads of Computables with their pre-checks and nested evaluations,
assignments with their notification cascades and user handlers.  No well-formedness of the state is assumed.
-/
namespace Mesa.Computed
open Mesa.Signals

/-- what a call that returns (normally or by raising) does to the evaluation context: `CURRENT_COMPUTED` and
    `EVALUATION_DEPTH` are restored; while some function is running nothing is dropped from the record of what was
    read; outside any evaluation the record stays empty -/
structure Frame (s s' : St) : Prop where
  cur : s'.cur = s.cur
  depth : s'.depth = s.depth
  proc : 0 < s.depth → ∀ k, k ∈ s.proc → k ∈ s'.proc
  idle : s.depth = 0 → s.cur = none → s.proc = [] → s'.proc = []

theorem Frame.of_eq {s s' : St} (hc : s'.cur = s.cur) (hd : s'.depth = s.depth) (hp : s'.proc = s.proc) : Frame s s' :=
  ⟨hc, hd, fun _ k hk => by rw [hp]; exact hk, fun _ _ h => by rw [hp]; exact h⟩

theorem Frame.refl (s : St) : Frame s s := Frame.of_eq rfl rfl rfl

theorem Frame.trans {s s' s'' : St} (a : Frame s s') (b : Frame s' s'') : Frame s s'' :=
  ⟨b.cur.trans a.cur, b.depth.trans a.depth,
    fun h k hk => b.proc (by rw [a.depth]; exact h) k (a.proc h k hk),
    fun hd hc hp => b.idle (by rw [a.depth]; exact hd) (by rw [a.cur]; exact hc) (a.idle hd hc hp)⟩

/-- every recursive call respects the evaluation context -/
def FrameRec (rec : Rec) : Prop := ∀ t s s' r, rec t s = some (s', r) → Frame s s'

theorem addParent_ctx {s s' : St} {p : Nat} {r : PRef} {v : V} {res : R} (h : addParent s p r v = (s', res)) :
    s'.cur = s.cur ∧ s'.depth = s.depth ∧ s'.proc = s.proc := by
  unfold addParent at h
  split at h
  · split at h
    · cases h; exact ⟨rfl, rfl, rfl⟩
    · injection h with h _; subst h; exact ⟨rfl, rfl, rfl⟩
  · cases h; exact ⟨rfl, rfl, rfl⟩

theorem removeFold_ctx (c : Nat) (L : List Nat) (s : St) :
    let s' := L.foldl (fun s o =>
      match (s.regs o).unobserve s.alive .all .all (Sub.dirty c) with
      | .ok reg => s.setReg o reg
      | .error _ => s) s
    s'.cur = s.cur ∧ s'.depth = s.depth ∧ s'.proc = s.proc := by
  induction L generalizing s with
  | nil => simp
  | cons o L ih =>
    simp only [List.foldl_cons]
    cases (s.regs o).unobserve s.alive .all .all (Sub.dirty c) with
    | ok reg => exact ih (s.setReg o reg)
    | error e => exact ih s

theorem removeParents_ctx (s : St) (c : Nat) :
    (removeParents s c).cur = s.cur ∧ (removeParents s c).depth = s.depth ∧ (removeParents s c).proc = s.proc := by
  unfold removeParents
  split
  · exact ⟨rfl, rfl, rfl⟩
  · rename_i x _
    exact removeFold_ctx c (parentOwners s x.parents) s

theorem markFailed_ctx (s : St) (c : Nat) :
    (markFailed s c).cur = s.cur ∧ (markFailed s c).depth = s.depth ∧ (markFailed s c).proc = s.proc := by
  unfold markFailed
  split <;> exact ⟨rfl, rfl, rfl⟩

/-- leaving an evaluation that was entered from a state with the context of `s` -/
theorem Frame.of_leave {s s4 : St} (hd : s4.depth = s.depth + 1)
    (hp : ∀ k, k ∈ s.proc → k ∈ s4.proc) : Frame s (leave s.cur s4) := by
  refine ⟨rfl, by simp [hd], fun h k hk => ?_, fun h _ _ => ?_⟩
  · have : ¬ (s4.depth - 1 = 0) := by omega
    simp only [Mesa.Computed.leave, this, if_false]
    exact hp k hk
  · have : s4.depth - 1 = 0 := by omega
    simp [Mesa.Computed.leave, this]

theorem evalTree_frame {rec : Rec} (hrec : FrameRec rec) : ∀ (t : Tree) (s s' : St) (r : R),
    evalTree rec t s = some (s', r) → Frame s s' := by
  intro t
  induction t with
  | ret v =>
    intro s s' r h
    simp only [evalTree] at h
    injection h with h; injection h with h1 _; subst h1
    exact Frame.refl _
  | read k cont ih =>
    intro s s' r h
    simp only [evalTree] at h
    cases hcur : s.cur with
    | none =>
      rw [hcur] at h
      exact ih _ s s' r h
    | some p =>
      rw [hcur] at h
      simp only at h
      cases ha : addParent s p (.obs k) (s.store k) with | mk s1 r1 =>
      rw [ha] at h
      obtain ⟨c1, d1, p1⟩ := addParent_ctx ha
      cases r1 with
      | err e =>
        simp only at h
        injection h with h; injection h with h1 _; subst h1
        exact Frame.of_eq c1 d1 p1
      | ok u =>
        simp only at h
        have f1 : Frame s { s1 with proc := k :: s1.proc } :=
          ⟨c1, d1, fun _ k' hk' => by
              show k' ∈ k :: s1.proc
              rw [p1]; exact List.mem_cons_of_mem _ hk',
            fun _ hc _ => by rw [hcur] at hc; cases hc⟩
        exact f1.trans (ih _ _ s' r h)
  | readC c cont ih =>
    intro s s' r h
    simp only [evalTree] at h
    cases hg : rec (.readC c) s with
    | none => simp [hg] at h
    | some res =>
      obtain ⟨s1, r1⟩ := res
      rw [hg] at h
      have f1 := hrec _ _ _ _ hg
      cases r1 with
      | err e =>
        simp only at h
        injection h with h; injection h with h1 _; subst h1
        exact f1
      | ok v =>
        simp only at h
        exact f1.trans (ih _ _ s' r h)
  | write k v next ih =>
    intro s s' r h
    simp only [evalTree] at h
    cases hg : rec (.assign k v) s with
    | none => simp [hg] at h
    | some res =>
      obtain ⟨s1, r1⟩ := res
      rw [hg] at h
      have f1 := hrec _ _ _ _ hg
      cases r1 with
      | err e =>
        simp only at h
        injection h with h; injection h with h1 _; subst h1
        exact f1
      | ok u =>
        simp only at h
        exact f1.trans (ih _ s' r h)
  | fail =>
    intro s s' r h
    simp only [evalTree] at h
    injection h with h; injection h with h1 _; subst h1
    exact Frame.refl _

theorem precheck_frame {rec : Rec} (hrec : FrameRec rec) : ∀ (ps : List (PRef × V)) (s s' : St) (r : Except Err Bool),
    precheck rec ps s = some (s', r) → Frame s s' := by
  intro ps
  induction ps with
  | nil =>
    intro s s' r h
    simp only [precheck] at h
    injection h with h; injection h with h1 _; subst h1
    exact Frame.refl _
  | cons e rest ih =>
    intro s s' r h
    obtain ⟨p, v⟩ := e
    cases p with
    | obs k =>
      simp only [precheck] at h
      split at h
      · injection h with h; injection h with h1 _; subst h1
        exact Frame.refl _
      · exact ih s s' r h
    | comp c =>
      simp only [precheck] at h
      cases hg : rec (.readC c) s with
      | none => simp [hg] at h
      | some res =>
        obtain ⟨s1, r1⟩ := res
        rw [hg] at h
        have f1 := hrec _ _ _ _ hg
        cases r1 with
        | err e =>
          cases e <;>
          · simp only at h
            injection h with h; injection h with h1 _; subst h1
            exact f1
        | ok v' =>
          simp only at h
          split at h
          · injection h with h; injection h with h1 _; subst h1
            exact f1
          · exact f1.trans (ih s1 s' r h)

theorem readAll_frame {rec : Rec} (hrec : FrameRec rec) : ∀ (cs : List Nat) (s s' : St) (r : R),
    readAll rec cs s = some (s', r) → Frame s s' := by
  intro cs
  induction cs with
  | nil =>
    intro s s' r h
    simp only [readAll] at h
    injection h with h; injection h with h1 _; subst h1
    exact Frame.refl _
  | cons c cs ih =>
    intro s s' r h
    simp only [readAll] at h
    cases hg : rec (.readC c) s with
    | none => simp [hg] at h
    | some res =>
      obtain ⟨s1, r1⟩ := res
      rw [hg] at h
      have f1 := hrec _ _ _ _ hg
      cases r1 with
      | ok v =>
        simp only at h
        exact f1.trans (ih s1 s' r h)
      | err e =>
        simp only at h
        injection h with h; injection h with h1 _; subst h1
        exact f1

theorem notifyLoop_frame {rec : Rec} (hrec : FrameRec rec) (k : Key) (old new : V) :
    ∀ (xs : List Sub) (s s' : St) (r : Except Err Unit),
    notifyLoop rec k old new xs s = some (s', r) → Frame s s' := by
  intro xs
  induction xs with
  | nil =>
    intro s s' r h
    simp only [notifyLoop] at h
    injection h with h; injection h with h1 _; subst h1
    exact Frame.refl _
  | cons x xs ih =>
    intro s s' r h
    simp only [notifyLoop] at h
    split at h
    · exact ih s s' r h
    · cases x with
      | dirty c =>
        simp only at h
        cases hc : s.comps c with
        | none =>
          rw [hc] at h
          simp only at h
          injection h with h; injection h with h1 _; subst h1
          exact Frame.refl _
        | some cx =>
          rw [hc] at h
          simp only at h
          split at h
          · exact ih s s' r h
          · cases hg : rec (.notify (cx.owner, cx.name) cx.value.join none) (s.setComp c { cx with dirty := true }) with
            | none => simp [hg] at h
            | some res =>
              obtain ⟨s1, r1⟩ := res
              rw [hg] at h
              have f0 : Frame s (s.setComp c { cx with dirty := true }) := Frame.of_eq rfl rfl rfl
              have f1 := f0.trans (hrec _ _ _ _ hg)
              cases r1 with
              | err e =>
                simp only at h
                injection h with h; injection h with h1 _; subst h1
                exact f1
              | ok u =>
                simp only at h
                exact f1.trans (ih s1 s' r h)
      | user hh =>
        simp only at h
        cases hg : readAll rec (s.progs hh) { s with log := s.log ++ [⟨hh, k.1, k.2, old, new⟩] } with
        | none => simp [hg] at h
        | some res =>
          obtain ⟨s1, r1⟩ := res
          rw [hg] at h
          have f0 : Frame s { s with log := s.log ++ [⟨hh, k.1, k.2, old, new⟩] } := Frame.of_eq rfl rfl rfl
          have f1 := f0.trans (readAll_frame hrec _ _ _ _ hg)
          cases r1 with
          | err e =>
            simp only at h
            injection h with h; injection h with h1 _; subst h1
            exact f1
          | ok u =>
            simp only at h
            exact f1.trans (ih s1 s' r h)

theorem notifyT_frame {rec : Rec} (hrec : FrameRec rec) {k : Key} {old new : V} {s s' : St} {r : R}
    (h : notifyT rec k old new s = some (s', r)) : Frame s s' := by
  unfold notifyT at h
  simp only at h
  cases hg : notifyLoop rec k old new (((s.regs k.1).subs k.2 .change).filter Sub.isDep) s with
  | none => simp [hg] at h
  | some res =>
    obtain ⟨s1, r1⟩ := res
    rw [hg] at h
    have f1 := notifyLoop_frame hrec k old new _ _ _ _ hg
    cases r1 with
    | error e =>
      simp only at h
      injection h with h; injection h with h1 _; subst h1
      exact f1
    | ok act =>
      simp only at h
      cases hg2 : notifyLoop rec k old new (((s.regs k.1).subs k.2 .change).filter fun x => !x.isDep) s1 with
      | none => simp [hg2] at h
      | some res2 =>
        obtain ⟨s2, r2⟩ := res2
        rw [hg2] at h
        have f2 := f1.trans (notifyLoop_frame hrec k old new _ _ _ _ hg2)
        cases r2 with
        | error e =>
          simp only at h
          injection h with h; injection h with h1 _; subst h1
          exact f2
        | ok act2 =>
          simp only at h
          injection h with h; injection h with h1 _; subst h1
          exact f2.trans (Frame.of_eq rfl rfl rfl)

/-- G10 repaired: an assignment (rejected, raising in a handler, or completed) leaves the record alone -/
theorem assignT_frame {rec : Rec} (hrec : FrameRec rec) {k : Key} {v : V} {s s' : St} {r : R}
    (h : assignT rec k v s = some (s', r)) : Frame s s' := by
  unfold assignT at h
  split at h
  · injection h with h; injection h with h1 _; subst h1
    exact Frame.refl _
  · cases hg : rec (.notify k (s.store k) v) { s with store := fun k' => if k' = k then v else s.store k' } with
    | none => simp [hg] at h
    | some res =>
      obtain ⟨s1, r1⟩ := res
      rw [hg] at h
      have f0 : Frame s { s with store := fun k' => if k' = k then v else s.store k' } := Frame.of_eq rfl rfl rfl
      have f1 := f0.trans (hrec _ _ _ _ hg)
      cases r1 with
      | err e =>
        simp only at h
        injection h with h; injection h with h1 _; subst h1
        exact f1
      | ok u =>
        simp only at h
        injection h with h; injection h with h1 _; subst h1
        exact f1

/-- an evaluation entered from a state `s1` that has the context of `s0` (`saved` = its `CURRENT_COMPUTED`) -/
theorem evalBody_frame {rec : Rec} (hrec : FrameRec rec) {c : Nat} {tree : Tree} {s0 s1 s' : St} {r : R}
    (hc : s1.cur = s0.cur) (hd : s1.depth = s0.depth) (hp : s1.proc = s0.proc)
    (h : evalBody rec c tree s0.cur s1 = some (s', r)) : Frame s0 s' := by
  unfold evalBody at h
  obtain ⟨c2, d2, p2⟩ := removeParents_ctx s1 c
  cases hx2 : (removeParents s1 c).comps c with
  | none =>
    simp only [hx2] at h
    injection h with h; injection h with h1 _; subst h1
    exact Frame.of_eq (c2.trans hc) (d2.trans hd) (p2.trans hp)
  | some x2 =>
    simp only [hx2] at h
    generalize hs3 : ({ ((removeParents s1 c).setComp c { x2 with evals := x2.evals + 1 }) with
      cur := some c, depth := (removeParents s1 c).depth + 1 } : St) = s3 at h
    have d3 : s3.depth = s0.depth + 1 := by
      subst hs3; show (removeParents s1 c).depth + 1 = _; rw [d2, hd]
    have p3 : s3.proc = s0.proc := by
      subst hs3; show (removeParents s1 c).proc = _; rw [p2, hp]
    cases he : evalTree rec tree s3 with
    | none => simp [he] at h
    | some res =>
      obtain ⟨s4, r4⟩ := res
      rw [he] at h
      have f4 := evalTree_frame hrec _ _ _ _ he
      have d4 : s4.depth = s0.depth + 1 := f4.depth.trans d3
      have p4 : ∀ k, k ∈ s0.proc → k ∈ s4.proc := fun k hk => f4.proc (by omega) k (by rw [p3]; exact hk)
      cases r4 with
      | err e =>
        simp only at h
        injection h with h; injection h with h1 _; subst h1
        obtain ⟨_, dm, pm⟩ := markFailed_ctx s4 c
        exact Frame.of_leave (s4 := markFailed s4 c) (dm.trans d4) (fun k hk => by rw [pm]; exact p4 k hk)
      | ok v =>
        simp only at h
        cases hx4 : s4.comps c with
        | none =>
          rw [hx4] at h
          simp only at h
          injection h with h; injection h with h1 _; subst h1
          exact Frame.of_leave d4 p4
        | some x4 =>
          rw [hx4] at h
          simp only at h
          injection h with h; injection h with h1 _; subst h1
          exact Frame.of_leave (s4 := s4.setComp c { x4 with value := some v, dirty := false }) d4 p4

theorem callC_frame {rec : Rec} (hrec : FrameRec rec) {c : Nat} {x : Comp} {s s' : St} {r : R}
    (h : callC rec c x s = some (s', r)) : Frame s s' := by
  unfold callC at h
  split at h
  · injection h with h; injection h with h1 _; subst h1
    exact Frame.refl _
  · simp only at h
    split at h
    · exact evalBody_frame hrec (s0 := s) (s1 := s.setComp c { x with first := false }) rfl rfl rfl h
    · have key : ∀ s1 : St, Frame ({ (s.setComp c { x with first := false }) with cur := none } : St) s1 →
          Frame s { s1 with cur := s.cur } :=
        fun s1 f1 => ⟨rfl, f1.depth, f1.proc, fun hd _ hq => f1.idle hd rfl hq⟩
      split at h
      next => cases h
      next s1 e hp =>
        injection h with h; injection h with h1 _; subst h1
        exact key s1 (precheck_frame hrec _ _ _ _ hp)
      next s1 hp =>
        exact (key s1 (precheck_frame hrec _ _ _ _ hp)).trans
          (evalBody_frame hrec (s0 := { s1 with cur := s.cur }) (s1 := { s1 with cur := s.cur }) rfl rfl rfl h)
      next s1 hp =>
        have fa := key s1 (precheck_frame hrec _ _ _ _ hp)
        split at h
        · injection h with h; injection h with h1 _; subst h1
          exact fa
        · injection h with h; injection h with h1 _; subst h1
          exact fa.trans (Frame.of_eq rfl rfl rfl)

theorem getC_frame {rec : Rec} (hrec : FrameRec rec) {c : Nat} {s s' : St} {r : R}
    (h : getC rec c s = some (s', r)) : Frame s s' := by
  unfold getC at h
  cases hx : s.comps c with
  | none =>
    rw [hx] at h
    simp only at h
    injection h with h; injection h with h1 _; subst h1
    exact Frame.refl _
  | some x =>
    rw [hx] at h
    simp only at h
    cases hc : callC rec c x s with
    | none => simp [hc] at h
    | some res =>
      obtain ⟨s1, r1⟩ := res
      rw [hc] at h
      have f1 := callC_frame hrec hc
      cases r1 with
      | err e =>
        simp only at h
        injection h with h; injection h with h1 _; subst h1
        exact f1
      | ok new =>
        simp only at h
        -- the value is remembered by the evaluating Computed, if any
        have key : ∀ s2 : St, Frame s1 s2 →
            (if new ≠ x.value.join then
              match rec (.notify (x.owner, x.name) x.value.join new) s2 with
              | none => none
              | some (s3, .err e) => some (s3, .err e)
              | some (s3, .ok _) => some (s3, .ok new)
            else some (s2, R.ok new)) = some (s', r) → Frame s s' := by
          intro s2 f2 h2
          split at h2
          · cases hn : rec (.notify (x.owner, x.name) x.value.join new) s2 with
            | none => simp [hn] at h2
            | some res =>
              obtain ⟨s3, r3⟩ := res
              rw [hn] at h2
              have f3 := hrec _ _ _ _ hn
              cases r3 with
              | err e =>
                simp only at h2
                injection h2 with h2; injection h2 with h1 _; subst h1
                exact (f1.trans f2).trans f3
              | ok u =>
                simp only at h2
                injection h2 with h2; injection h2 with h1 _; subst h1
                exact (f1.trans f2).trans f3
          · injection h2 with h2; injection h2 with h1 _; subst h1
            exact f1.trans f2
        cases hcur1 : s1.cur with
        | none =>
          rw [hcur1] at h
          simp only at h
          exact key s1 (Frame.refl _) h
        | some p =>
          rw [hcur1] at h
          simp only at h
          cases ha : addParent s1 p (.comp c) new with | mk s2 r2 =>
          rw [ha] at h
          obtain ⟨c2, d2, p2⟩ := addParent_ctx ha
          cases r2 with
          | err e =>
            simp only at h
            injection h with h; injection h with h1 _; subst h1
            exact f1.trans (Frame.of_eq c2 d2 p2)
          | ok u =>
            simp only at h
            -- G15: the record grows by what `c` depends on
            refine key { s2 with proc := sourcesOf s2 (c + 1) c ++ s2.proc }
              ⟨c2, d2, fun _ k hk => ?_, fun _ hcn _ => ?_⟩ h
            · show k ∈ sourcesOf s2 (c + 1) c ++ s2.proc
              rw [p2]; exact List.mem_append_right _ hk
            · rw [hcur1] at hcn; cases hcn

/-- **every call respects the evaluation context**, whatever the state and however deep the recursion -/
theorem exec_frame : ∀ f, FrameRec (exec f) := by
  intro f
  induction f with
  | zero => intro t s s' r h; simp [exec] at h
  | succ f ih =>
    intro t s s' r h
    simp only [exec] at h
    cases t with
    | notify k old new => exact notifyT_frame ih h
    | assign k v => exact assignT_frame ih h
    | readC c => exact getC_frame ih h

/-- … and so does every top-level operation -/
theorem step_frame (fuel : Nat) {s s' : St} {op : Op} {r : R} (h : step fuel s op = some (s', r)) : Frame s s' := by
  cases op with
  | define c o n t =>
    exact (Frame.of_eq (s := s) (s' := s.setComp c { owner := o, name := n, tree := t }) rfl rfl rfl).trans (exec_frame fuel _ _ _ _ h)
  | assign k v => exact exec_frame fuel _ _ _ _ h
  | read c => exact exec_frame fuel _ _ _ _ h
  | observe k hh =>
    simp only [step] at h
    split at h <;>
    · injection h with h; injection h with h1 _; subst h1
      exact Frame.of_eq rfl rfl rfl
  | unobserve k hh =>
    simp only [step] at h
    split at h <;>
    · injection h with h; injection h with h1 _; subst h1
      exact Frame.of_eq rfl rfl rfl
  | drop hh =>
    simp only [step] at h
    injection h with h; injection h with h1 _; subst h1
    exact Frame.of_eq rfl rfl rfl

/-! ### the path a function body takes -/

/-- one node of a function body, executed with the recursive calls `rec`: what `evalTree` does before it goes
    on with the rest of the function (`t, s` ⟶ `t', s'`); no step = the node raised, ran out of fuel, or is `ret` -/
inductive TStep (rec : Rec) : Tree → St → Tree → St → Prop
  | read {s s1 : St} {p : Nat} {u : V} (k : Key) (cont : V → Tree) (hcur : s.cur = some p)
      (h : addParent s p (.obs k) (s.store k) = (s1, .ok u)) :
      TStep rec (.read k cont) s (cont (s.store k)) { s1 with proc := k :: s1.proc }
  | readTop {s : St} (k : Key) (cont : V → Tree) (hcur : s.cur = none) :
      TStep rec (.read k cont) s (cont (s.store k)) s
  | readC {s s1 : St} {v : V} (c : Nat) (cont : V → Tree) (h : rec (.readC c) s = some (s1, .ok v)) :
      TStep rec (.readC c cont) s (cont v) s1
  | write {s s1 : St} {u : V} (k : Key) (v : V) (next : Tree) (h : rec (.assign k v) s = some (s1, .ok u)) :
      TStep rec (.write k v next) s next s1

/-- any number of such steps -/
inductive TSteps (rec : Rec) : Tree → St → Tree → St → Prop
  | refl (t : Tree) (s : St) : TSteps rec t s t s
  | head {t t1 t2 : Tree} {s s1 s2 : St} (h : TStep rec t s t1 s1) (hs : TSteps rec t1 s1 t2 s2) : TSteps rec t s t2 s2

/-- the steps are the evaluator's: evaluating the function is evaluating what is left of it -/
theorem evalTree_tstep {rec : Rec} {t t' : Tree} {s s' : St} (h : TStep rec t s t' s') :
    evalTree rec t s = evalTree rec t' s' := by
  cases h with
  | read k cont hcur h => simp only [evalTree, hcur, h]
  | readTop k cont hcur => simp only [evalTree, hcur]
  | readC c cont h => simp only [evalTree, h]
  | write k v next h => simp only [evalTree, h]

theorem evalTree_tsteps {rec : Rec} {t t' : Tree} {s s' : St} (h : TSteps rec t s t' s') :
    evalTree rec t s = evalTree rec t' s' := by
  induction h with
  | refl => rfl
  | head h _ ih => rw [evalTree_tstep h, ih]

/-- inside an evaluation on behalf of Computed `p`, with `k` on record as read -/
structure Inside (p : Nat) (k : Key) (s : St) : Prop where
  cur : s.cur = some p
  depth : 0 < s.depth
  mem : k ∈ s.proc

theorem Inside.of_frame {p : Nat} {k : Key} {s s' : St} (i : Inside p k s) (f : Frame s s') : Inside p k s' :=
  ⟨f.cur.trans i.cur, by rw [f.depth]; exact i.depth, f.proc i.depth k i.mem⟩

theorem TStep.frame {rec : Rec} (hrec : FrameRec rec) {t t' : Tree} {s s' : St} (h : TStep rec t s t' s') :
    Frame s s' := by
  cases h with
  | read k cont hcur h =>
    obtain ⟨c1, d1, p1⟩ := addParent_ctx h
    exact ⟨c1, d1, fun _ k' hk' => by
        show k' ∈ k :: _
        rw [p1]; exact List.mem_cons_of_mem _ hk',
      fun _ hc _ => by rw [hcur] at hc; cases hc⟩
  | readTop k cont hcur => exact Frame.refl _
  | readC c cont h => exact hrec _ _ _ _ h
  | write k v next h => exact hrec _ _ _ _ h

theorem TSteps.frame {rec : Rec} (hrec : FrameRec rec) {t t' : Tree} {s s' : St} (h : TSteps rec t s t' s') :
    Frame s s' := by
  induction h with
  | refl => exact Frame.refl _
  | head h _ ih => exact (h.frame hrec).trans ih

/-! ### dependencies through Computables (finding G15) -/

/-- Computed `c` depends on the Observable `k`: it remembers `k` itself, or a Computable that depends on `k` -/
inductive DependsOn (s : St) : Nat → Key → Prop
  | obs {c : Nat} {x : Comp} {k : Key} {v : V} (hx : s.comps c = some x) (hm : (PRef.obs k, v) ∈ x.parents) :
      DependsOn s c k
  | comp {c c' : Nat} {x : Comp} {k : Key} {v : V} (hx : s.comps c = some x) (hm : (PRef.comp c', v) ∈ x.parents)
      (h : DependsOn s c' k) : DependsOn s c k

/-- a Computed remembers only Computables defined before it -/
def RankedParents (s : St) : Prop :=
  ∀ c x, s.comps c = some x → ∀ c' v, (PRef.comp c', v) ∈ x.parents → c' < c

theorem sourcesOf_congr {s s' : St} (h : s'.comps = s.comps) : ∀ f c, sourcesOf s' f c = sourcesOf s f c := by
  intro f
  induction f with
  | zero => intro c; rfl
  | succ f ih =>
    intro c
    simp only [sourcesOf, h]
    cases s.comps c with
    | none => rfl
    | some x =>
      simp only
      congr 1
      funext e
      cases e.1 with
      | obs k => rfl
      | comp c' => exact ih c'

/-- the walk of `Computed._sources` finds every dependency (with parents ranked, `c + 1` levels suffice) -/
theorem sourcesOf_of_dependsOn {s : St} (hr : RankedParents s) {c : Nat} {k : Key} (h : DependsOn s c k) :
    ∀ f, c < f → k ∈ sourcesOf s f c := by
  induction h with
  | obs hx hm =>
    intro f hf
    cases f with
    | zero => omega
    | succ f =>
      simp only [sourcesOf, hx, List.mem_flatMap]
      exact ⟨_, hm, by simp⟩
  | comp hx hm _ ih =>
    intro f hf
    cases f with
    | zero => omega
    | succ f =>
      simp only [sourcesOf, hx, List.mem_flatMap]
      exact ⟨_, hm, ih f (by have := hr _ _ hx _ _ hm; omega)⟩

/-- … and nothing else -/
theorem dependsOn_of_sourcesOf {s : St} : ∀ (f c : Nat) (k : Key), k ∈ sourcesOf s f c → DependsOn s c k := by
  intro f
  induction f with
  | zero => intro c k h; simp [sourcesOf] at h
  | succ f ih =>
    intro c k h
    simp only [sourcesOf] at h
    cases hx : s.comps c with
    | none => simp [hx] at h
    | some x =>
      simp only [hx, List.mem_flatMap] at h
      obtain ⟨⟨r, v⟩, hm, hk⟩ := h
      cases r with
      | obs k' =>
        simp only [List.mem_singleton] at hk
        subst hk
        exact .obs hx hm
      | comp c' => exact .comp hx hm (ih c' k hk)

/-- G15 repaired: a read of Computable `c` inside an evaluation that hands out the value `c` held before — served
    from the cache, re-validated, or recomputed to the same value — leaves everything `c` depends on on record -/
theorem getC_records {rec : Rec} (hrec : FrameRec rec) {c p : Nat} {x : Comp} {s s' : St} {a : V}
    (hcur : s.cur = some p) (hx : s.comps c = some x) (h : getC rec c s = some (s', .ok a))
    (hsame : a = x.value.join) : ∀ k, k ∈ sourcesOf s' (c + 1) c → k ∈ s'.proc := by
  unfold getC at h
  rw [hx] at h
  simp only at h
  cases hc : callC rec c x s with
  | none => simp [hc] at h
  | some res =>
    obtain ⟨s1, r1⟩ := res
    rw [hc] at h
    have f1 := callC_frame hrec hc
    cases r1 with
    | err e => simp only at h; injection h with h; injection h with _ h2; cases h2
    | ok new =>
      simp only at h
      have hcur1 : s1.cur = some p := f1.cur.trans hcur
      rw [hcur1] at h
      simp only at h
      cases ha : addParent s1 p (.comp c) new with | mk s2 r2 =>
      rw [ha] at h
      cases r2 with
      | err e => simp only at h; injection h with h; injection h with _ h2; cases h2
      | ok u =>
        simp only at h
        by_cases hn : new ≠ x.value.join
        · rw [if_pos hn] at h
          exfalso
          cases hg : rec (.notify (x.owner, x.name) x.value.join new)
              { s2 with proc := sourcesOf s2 (c + 1) c ++ s2.proc } with
          | none => simp [hg] at h
          | some res3 =>
            obtain ⟨s3, r3⟩ := res3
            rw [hg] at h
            cases r3 with
            | err e => simp only at h; injection h with h; injection h with _ h2; cases h2
            | ok u3 =>
              simp only at h
              injection h with h; injection h with _ h2
              injection h2 with h2
              exact hn (h2.trans hsame)
        · rw [if_neg hn] at h
          injection h with h; injection h with h1 _; subst h1
          intro k hk
          have he := sourcesOf_congr (s := s2) (s' := { s2 with proc := sourcesOf s2 (c + 1) c ++ s2.proc }) rfl (c + 1) c
          rw [he] at hk
          exact List.mem_append_left _ hk

/-- the assignment to a key on record raises -/
theorem write_inside {p : Nat} {k : Key} {s : St} (i : Inside p k s) (f : Nat) (v : V) (next : Tree) :
    evalTree (exec (f + 1)) (.write k v next) s = some (s, .err .value) := by
  have hmem : k ∈ s.proc := i.mem
  simp [evalTree, exec, stepF, assignT, i.cur, hmem]

end Mesa.Computed
