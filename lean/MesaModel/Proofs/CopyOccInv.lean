import MesaModel.Proofs.CopyOccMain
/-!
The occupancy invariant of `Model/CopyOcc.lean` and its preservation by every operation, copies included:
the mirror between `agent.cell` and the cells' agent lists, capacities, closure of every space under its pointers,
no object in two spaces.
-/
namespace Mesa.CopyOcc

structure Inv (w : World) : Prop where
  cellsLt : ∀ c cr, w.cells c = some cr → c < w.next
  agentsLt : ∀ a ar, w.agents a = some ar → a < w.next
  /-- a cell lists no agent twice -/
  nodup : ∀ c cr, w.cells c = some cr → cr.agents.Nodup
  /-- the cell an agent points to lists it -/
  mirror1 : ∀ a ar c, w.agents a = some ar → ar.cell = some c → ∃ cr, w.cells c = some cr ∧ a ∈ cr.agents
  /-- an agent listed by a cell points to it -/
  mirror2 : ∀ c cr a, w.cells c = some cr → a ∈ cr.agents → ∃ ar, w.agents a = some ar ∧ ar.cell = some c
  capOk : ∀ c cr k, w.cells c = some cr → cr.cap = some k → cr.agents.length ≤ k
  /-- no cell belongs to two spaces -/
  disj : ∀ s s' sr sr' c, w.spaces s = some sr → w.spaces s' = some sr' → c ∈ sr.cells → c ∈ sr'.cells → s = s'
  /-- the cells of a space exist, are connected to cells of that space only, use its generator and (grids) its cell class -/
  connIn : ∀ s sr c, w.spaces s = some sr → c ∈ sr.cells →
    ∃ cr, w.cells c = some cr ∧ (∀ d ∈ cr.conn, d ∈ sr.cells) ∧ cr.rnd = s ∧ ∀ k, cr.klass = some k → k = s
  /-- the agents registered in a space's model exist, know it as their model, and point to cells of that space only -/
  regIn : ∀ s sr a, w.spaces s = some sr → a ∈ sr.reg →
    ∃ ar, w.agents a = some ar ∧ ar.home = s ∧ ∀ c, ar.cell = some c → c ∈ sr.cells
  /-- every agent is registered in its model -/
  homeReg : ∀ a ar, w.agents a = some ar → ∃ sr, w.spaces ar.home = some sr ∧ a ∈ sr.reg
  regNodup : ∀ s sr, w.spaces s = some sr → sr.reg.Nodup

theorem Inv.init : Inv Mesa.CopyOcc.init := by
  constructor <;> intros <;> simp_all [Mesa.CopyOcc.init]

variable {w : World}

/-! ### `agent.cell = None` -/

theorem Inv.unplaceRec (hi : Inv w) {a : Nat} {ar : AgentRec} (har : w.agents a = some ar) : Inv (unplaceRec w a ar) := by
  unfold Mesa.CopyOcc.unplaceRec
  split
  · exact hi
  rename_i o ho
  obtain ⟨cr0, hcr0, ha0⟩ := hi.mirror1 a ar o har ho
  have hleave : leave w a o = upd w.cells o { cr0 with agents := cr0.agents.erase a } := by
    simp [leave, hcr0]
  simp only [hleave]
  have hnd0 := hi.nodup o cr0 hcr0
  constructor
  · intro c cr h
    rcases upd_cases h with ⟨rfl, _⟩ | ⟨_, h⟩
    · exact hi.cellsLt _ _ hcr0
    · exact hi.cellsLt _ _ h
  · intro x xr h
    rcases upd_cases h with ⟨rfl, _⟩ | ⟨_, h⟩
    · exact hi.agentsLt _ _ har
    · exact hi.agentsLt _ _ h
  · intro c cr h
    rcases upd_cases h with ⟨rfl, rfl⟩ | ⟨_, h⟩
    · exact hnd0.erase a
    · exact hi.nodup _ _ h
  · intro x xr c h hc
    rcases upd_cases h with ⟨rfl, rfl⟩ | ⟨hne, h⟩
    · simp at hc
    · obtain ⟨cr, hcr, hx⟩ := hi.mirror1 x xr c h hc
      by_cases hco : c = o
      · subst hco
        rw [hcr0] at hcr
        cases hcr
        exact ⟨_, upd_same _ _ _, (List.mem_erase_of_ne hne).mpr hx⟩
      · exact ⟨cr, (upd_ne _ _ hco).trans hcr, hx⟩
  · intro c cr x h hx
    rcases upd_cases h with ⟨rfl, rfl⟩ | ⟨hne, h⟩
    · have hx' := (hnd0.mem_erase_iff).mp hx
      obtain ⟨xr, hxr, hxc⟩ := hi.mirror2 _ cr0 x hcr0 hx'.2
      exact ⟨xr, (upd_ne _ _ hx'.1).trans hxr, hxc⟩
    · obtain ⟨xr, hxr, hxc⟩ := hi.mirror2 c cr x h hx
      have hxa : x ≠ a := by
        rintro rfl
        rw [har] at hxr
        cases hxr
        rw [ho] at hxc
        exact hne (Option.some.inj hxc).symm
      exact ⟨xr, (upd_ne _ _ hxa).trans hxr, hxc⟩
  · intro c cr k h hk
    rcases upd_cases h with ⟨rfl, rfl⟩ | ⟨_, h⟩
    · have := hi.capOk _ cr0 k hcr0 hk
      have := List.length_erase_le (a := a) (l := cr0.agents)
      simp only
      omega
    · exact hi.capOk _ _ _ h hk
  · exact hi.disj
  · intro s sr c hs hc
    obtain ⟨cr, hcr, hconn⟩ := hi.connIn s sr c hs hc
    by_cases hco : c = o
    · subst hco
      rw [hcr0] at hcr
      cases hcr
      exact ⟨_, upd_same _ _ _, hconn⟩
    · exact ⟨cr, (upd_ne _ _ hco).trans hcr, hconn⟩
  · intro s sr x hs hx
    obtain ⟨xr, hxr, hh, hcell⟩ := hi.regIn s sr x hs hx
    by_cases hxa : x = a
    · subst hxa
      rw [har] at hxr
      cases hxr
      exact ⟨_, upd_same _ _ _, hh, by simp⟩
    · exact ⟨xr, (upd_ne _ _ hxa).trans hxr, hh, hcell⟩
  · intro x xr h
    rcases upd_cases h with ⟨rfl, rfl⟩ | ⟨_, h⟩
    · exact hi.homeReg _ ar har
    · exact hi.homeReg _ _ h
  · exact hi.regNodup

theorem Inv.unplace (hi : Inv w) (a : Nat) : Inv (unplace w a) := by
  unfold Mesa.CopyOcc.unplace
  split
  · exact hi
  · rename_i ar har
    exact hi.unplaceRec har

/-- after `unplace` the agent exists with the same `unique_id` and model and points nowhere; the other agents are as before -/
theorem unplace_agent {a : Nat} {ar : AgentRec} (har : w.agents a = some ar) :
    (unplace w a).agents a = some { ar with cell := none } := by
  simp only [unplace, har, unplaceRec]
  split
  · rename_i h
    cases ar
    simp_all
  · simp

/-- `unplace` keeps every other cell; the cell the agent was in keeps its capacity and loses one agent at most -/
theorem unplace_cell (a c : Nat) {cr : CellRec} (hcr : w.cells c = some cr) :
    ∃ cr', (unplace w a).cells c = some cr' ∧ cr'.cap = cr.cap ∧ cr'.agents.length ≤ cr.agents.length ∧
      (cellOf w a ≠ [c] → cr' = cr) := by
  cases har : w.agents a with
  | none => exact ⟨cr, by simp [unplace, har, hcr], rfl, Nat.le_refl _, fun _ => rfl⟩
  | some ar =>
    cases ho : ar.cell with
    | none => exact ⟨cr, by simp [unplace, har, unplaceRec, ho, hcr], rfl, Nat.le_refl _, fun _ => rfl⟩
    | some o =>
      by_cases hco : c = o
      · subst hco
        refine ⟨{ cr with agents := cr.agents.erase a }, by simp [unplace, har, unplaceRec, ho, leave, hcr], rfl,
          List.length_erase_le, fun h => ?_⟩
        simp [cellOf, har, ho] at h
      · exact ⟨cr, by simp [unplace, har, unplaceRec, ho, leave_ne w a o hco, hcr], rfl, Nat.le_refl _, fun _ => rfl⟩

/-! ### an unplaced agent enters a cell of its space that has room -/

theorem inSpace_iff {s c : Nat} : inSpace w s c = true ↔ ∃ sr, w.spaces s = some sr ∧ c ∈ sr.cells := by
  unfold inSpace
  cases w.spaces s <;> simp

theorem Inv.place (hi : Inv w) {a c : Nat} {ar : AgentRec} {cr : CellRec} (har : w.agents a = some ar)
    (hnone : ar.cell = none) (hcr : w.cells c = some cr) (hroom : full cr = false)
    (hin : inSpace w ar.home c = true) : Inv (place w a c) := by
  simp only [Mesa.CopyOcc.place, har, hcr]
  have hnot : a ∉ cr.agents := by
    intro h
    obtain ⟨xr, hxr, hxc⟩ := hi.mirror2 c cr a hcr h
    rw [har] at hxr
    cases hxr
    rw [hnone] at hxc
    cases hxc
  constructor
  · intro c' cr' h
    rcases upd_cases h with ⟨rfl, _⟩ | ⟨_, h⟩
    · exact hi.cellsLt _ _ hcr
    · exact hi.cellsLt _ _ h
  · intro x xr h
    rcases upd_cases h with ⟨rfl, _⟩ | ⟨_, h⟩
    · exact hi.agentsLt _ _ har
    · exact hi.agentsLt _ _ h
  · intro c' cr' h
    rcases upd_cases h with ⟨rfl, rfl⟩ | ⟨_, h⟩
    · simp only
      rw [List.nodup_append]
      refine ⟨hi.nodup _ _ hcr, by simp, ?_⟩
      intro x hx y hy
      simp only [List.mem_singleton] at hy
      subst hy
      rintro rfl
      exact hnot hx
    · exact hi.nodup _ _ h
  · intro x xr c' h hc
    rcases upd_cases h with ⟨rfl, rfl⟩ | ⟨hne, h⟩
    · simp only [Option.some.injEq] at hc
      subst hc
      exact ⟨_, upd_same _ _ _, by simp⟩
    · obtain ⟨cr', hcr', hx⟩ := hi.mirror1 x xr c' h hc
      by_cases hcc : c' = c
      · subst hcc
        rw [hcr] at hcr'
        cases hcr'
        exact ⟨_, upd_same _ _ _, by simp [hx]⟩
      · exact ⟨cr', (upd_ne _ _ hcc).trans hcr', hx⟩
  · intro c' cr' x h hx
    have hold : ∀ cr0, w.cells c' = some cr0 → x ∈ cr0.agents →
        ∃ xr, (upd w.agents a { ar with cell := some c }) x = some xr ∧ xr.cell = some c' := by
      intro cr0 h0 hx0
      obtain ⟨xr, hxr, hxc⟩ := hi.mirror2 c' cr0 x h0 hx0
      have hxa : x ≠ a := by
        rintro rfl
        rw [har] at hxr
        cases hxr
        rw [hnone] at hxc
        cases hxc
      exact ⟨xr, (upd_ne _ _ hxa).trans hxr, hxc⟩
    rcases upd_cases h with ⟨rfl, rfl⟩ | ⟨hne, h⟩
    · simp only [List.mem_append, List.mem_singleton] at hx
      rcases hx with hx | rfl
      · exact hold cr hcr hx
      · exact ⟨_, upd_same _ _ _, rfl⟩
    · exact hold cr' h hx
  · intro c' cr' k h hk
    rcases upd_cases h with ⟨rfl, rfl⟩ | ⟨_, h⟩
    · simp only at hk
      simp only [full, capFull, hk, decide_eq_false_iff_not] at hroom
      simp only [List.length_append, List.length_singleton]
      omega
    · exact hi.capOk _ _ _ h hk
  · exact hi.disj
  · intro s sr c' hs hc
    obtain ⟨cr', hcr', hconn⟩ := hi.connIn s sr c' hs hc
    by_cases hcc : c' = c
    · subst hcc
      rw [hcr] at hcr'
      cases hcr'
      exact ⟨_, upd_same _ _ _, hconn⟩
    · exact ⟨cr', (upd_ne _ _ hcc).trans hcr', hconn⟩
  · intro s sr x hs hx
    obtain ⟨xr, hxr, hh, hcell⟩ := hi.regIn s sr x hs hx
    by_cases hxa : x = a
    · subst hxa
      rw [har] at hxr
      cases hxr
      refine ⟨_, upd_same _ _ _, hh, ?_⟩
      intro c' hc'
      simp only [Option.some.injEq] at hc'
      subst hc'
      rw [hh] at hin
      obtain ⟨sr0, hsr0, hc0⟩ := inSpace_iff.mp hin
      rw [hs] at hsr0
      cases hsr0
      exact hc0
    · exact ⟨xr, (upd_ne _ _ hxa).trans hxr, hh, hcell⟩
  · intro x xr h
    rcases upd_cases h with ⟨rfl, rfl⟩ | ⟨_, h⟩
    · exact hi.homeReg _ ar har
    · exact hi.homeReg _ _ h
  · exact hi.regNodup

/-! ### `agent.remove()` of an unplaced agent -/

theorem Inv.dereg (hi : Inv w) {a : Nat} {ar : AgentRec} (har : w.agents a = some ar) (hnone : ar.cell = none) :
    Inv (dereg w a ar.home) := by
  obtain ⟨sr, hsr, hreg⟩ := hi.homeReg a ar har
  simp only [Mesa.CopyOcc.dereg, hsr]
  have hag : ∀ x xr, (if x = a then none else w.agents x) = some xr → x ≠ a ∧ w.agents x = some xr := by
    intro x xr h
    split at h
    · simp at h
    · exact ⟨by assumption, h⟩
  -- every space of the new world is an old one with the same cells and a sublist of its agents
  have hsp : ∀ i sr', upd w.spaces ar.home { sr with reg := sr.reg.erase a } i = some sr' →
      ∃ sr0, w.spaces i = some sr0 ∧ sr'.cells = sr0.cells ∧ (∀ x, x ∈ sr'.reg → x ∈ sr0.reg ∧ x ≠ a) ∧
        (∀ x, x ∈ sr0.reg → x ≠ a → x ∈ sr'.reg) ∧ sr'.reg.Nodup := by
    intro i sr' h
    rcases upd_cases h with ⟨rfl, rfl⟩ | ⟨hne, _⟩
    · have hnd := hi.regNodup _ _ hsr
      refine ⟨sr, hsr, rfl, fun x hx => ?_, fun x hx hxa => (List.mem_erase_of_ne hxa).mpr hx, hnd.erase a⟩
      have := (hnd.mem_erase_iff).mp hx
      exact ⟨this.2, this.1⟩
    · rename_i h0
      refine ⟨sr', h0, rfl, fun x hx => ⟨hx, ?_⟩, fun x hx _ => hx, hi.regNodup _ _ h0⟩
      intro hxa
      obtain ⟨xr, hxr, hh, _⟩ := hi.regIn i sr' x h0 hx
      rw [hxa] at hxr
      rw [har] at hxr
      cases hxr
      exact hne hh.symm
  constructor
  · exact hi.cellsLt
  · intro x xr h
    exact hi.agentsLt _ _ (hag x xr h).2
  · exact hi.nodup
  · intro x xr c h hc
    exact hi.mirror1 x xr c (hag x xr h).2 hc
  · intro c cr x h hx
    obtain ⟨xr, hxr, hxc⟩ := hi.mirror2 c cr x h hx
    have hxa : x ≠ a := by
      rintro rfl
      rw [har] at hxr
      cases hxr
      rw [hnone] at hxc
      cases hxc
    exact ⟨xr, by simp [hxa, hxr], hxc⟩
  · exact hi.capOk
  · intro s s' sr1 sr2 c h1 h2 hc1 hc2
    obtain ⟨sr1', h1', e1, _⟩ := hsp s sr1 h1
    obtain ⟨sr2', h2', e2, _⟩ := hsp s' sr2 h2
    exact hi.disj s s' sr1' sr2' c h1' h2' (e1 ▸ hc1) (e2 ▸ hc2)
  · intro s sr1 c h1 hc
    obtain ⟨sr1', h1', e1, _⟩ := hsp s sr1 h1
    obtain ⟨cr, hcr, hconn, hrest⟩ := hi.connIn s sr1' c h1' (e1 ▸ hc)
    exact ⟨cr, hcr, fun d hd => e1 ▸ hconn d hd, hrest⟩
  · intro s sr1 x h1 hx
    obtain ⟨sr1', h1', e1, hsub, _⟩ := hsp s sr1 h1
    obtain ⟨xr, hxr, hh, hcell⟩ := hi.regIn s sr1' x h1' (hsub x hx).1
    exact ⟨xr, by simp [(hsub x hx).2, hxr], hh, fun c hc => e1 ▸ hcell c hc⟩
  · intro x xr h
    obtain ⟨hxa, hxr⟩ := hag x xr h
    obtain ⟨sr0, hsr0, hx0⟩ := hi.homeReg x xr hxr
    by_cases hh : xr.home = ar.home
    · rw [hh] at hsr0 ⊢
      rw [hsr] at hsr0
      cases hsr0
      exact ⟨_, upd_same _ _ _, (List.mem_erase_of_ne hxa).mpr hx0⟩
    · exact ⟨sr0, (upd_ne _ _ hh).trans hsr0, hx0⟩
  · intro s sr1 h1
    exact (hsp s sr1 h1).choose_spec.2.2.2.2

/-! ### a new agent -/

theorem Inv.newAgent (hi : Inv w) (hw : WF w) {s : Nat} {sr : SpaceRec} (hsr : w.spaces s = some sr) (uid : Nat) :
    Inv { w with next := w.next + 1, agents := upd w.agents w.next { cell := none, uid := uid, home := s },
                 spaces := upd w.spaces s { sr with reg := sr.reg ++ [w.next] }, ids := upd w.ids s uid } := by
  obtain ⟨hs0, hs1, hs2⟩ := hw.spacesLt s sr hsr
  have hsp : ∀ i sr', upd w.spaces s { sr with reg := sr.reg ++ [w.next] } i = some sr' →
      ∃ sr0, w.spaces i = some sr0 ∧ sr'.cells = sr0.cells ∧
        (∀ x, x ∈ sr'.reg → (x ∈ sr0.reg) ∨ (x = w.next ∧ i = s)) := by
    intro i sr' h
    rcases upd_cases h with ⟨rfl, rfl⟩ | ⟨hne, h⟩
    · refine ⟨sr, hsr, rfl, fun x hx => ?_⟩
      simp only [List.mem_append, List.mem_singleton] at hx
      rcases hx with hx | hx
      · exact Or.inl hx
      · exact Or.inr ⟨hx, rfl⟩
    · exact ⟨sr', h, rfl, fun x hx => Or.inl hx⟩
  constructor
  · intro c cr h
    have := hi.cellsLt c cr h
    simp only
    omega
  · intro x xr h
    rcases upd_cases h with ⟨rfl, _⟩ | ⟨_, h⟩
    · simp
    · have := hi.agentsLt _ _ h
      simp only
      omega
  · exact hi.nodup
  · intro x xr c h hc
    rcases upd_cases h with ⟨rfl, rfl⟩ | ⟨_, h⟩
    · simp at hc
    · exact hi.mirror1 x xr c h hc
  · intro c cr x h hx
    obtain ⟨xr, hxr, hxc⟩ := hi.mirror2 c cr x h hx
    have hxa : x ≠ w.next := Nat.ne_of_lt (hi.agentsLt _ _ hxr)
    exact ⟨xr, (upd_ne _ _ hxa).trans hxr, hxc⟩
  · exact hi.capOk
  · intro s1 s2 sr1 sr2 c h1 h2 hc1 hc2
    obtain ⟨sr1', h1', e1, _⟩ := hsp s1 sr1 h1
    obtain ⟨sr2', h2', e2, _⟩ := hsp s2 sr2 h2
    exact hi.disj s1 s2 sr1' sr2' c h1' h2' (e1 ▸ hc1) (e2 ▸ hc2)
  · intro s1 sr1 c h1 hc
    obtain ⟨sr1', h1', e1, _⟩ := hsp s1 sr1 h1
    obtain ⟨cr, hcr, hconn, hrest⟩ := hi.connIn s1 sr1' c h1' (e1 ▸ hc)
    exact ⟨cr, hcr, fun d hd => e1 ▸ hconn d hd, hrest⟩
  · intro s1 sr1 x h1 hx
    obtain ⟨sr1', h1', e1, hsub⟩ := hsp s1 sr1 h1
    rcases hsub x hx with hx0 | ⟨rfl, rfl⟩
    · obtain ⟨xr, hxr, hh, hcell⟩ := hi.regIn s1 sr1' x h1' hx0
      have hxa : x ≠ w.next := Nat.ne_of_lt (hi.agentsLt _ _ hxr)
      exact ⟨xr, (upd_ne _ _ hxa).trans hxr, hh, fun c hc => e1 ▸ hcell c hc⟩
    · exact ⟨_, upd_same _ _ _, rfl, by simp⟩
  · intro x xr h
    rcases upd_cases h with ⟨rfl, rfl⟩ | ⟨_, h⟩
    · exact ⟨_, upd_same _ _ _, by simp⟩
    · obtain ⟨sr0, hsr0, hx0⟩ := hi.homeReg x xr h
      by_cases hh : xr.home = s
      · rw [hh] at hsr0 ⊢
        rw [hsr] at hsr0
        cases hsr0
        exact ⟨_, upd_same _ _ _, by simp [hx0]⟩
      · exact ⟨sr0, (upd_ne _ _ hh).trans hsr0, hx0⟩
  · intro s1 sr1 h1
    rcases upd_cases h1 with ⟨rfl, rfl⟩ | ⟨_, h1⟩
    · simp only
      rw [List.nodup_append]
      refine ⟨hi.regNodup _ _ hsr, by simp, ?_⟩
      intro x hx y hy
      simp only [List.mem_singleton] at hy
      subst hy
      exact Nat.ne_of_lt (hs2 x hx)
    · exact hi.regNodup _ _ h1

/-! ### a new space -/

theorem mem_connOf {base k : Nat} {pairs : List (Nat × Nat)} {i d : Nat} (h : d ∈ connOf base k pairs i) :
    ∃ j, j < k ∧ d = j + base := by
  simp only [connOf, List.mem_map, List.mem_filter, Bool.and_eq_true, decide_eq_true_eq] at h
  obtain ⟨p, ⟨_, hp⟩, rfl⟩ := h
  exact ⟨p.2, hp.2, rfl⟩

theorem Inv.newSpace (hi : Inv w) (hw : WF w) (k : Nat) (cap : Option Nat) (grid : Bool) (pairs : List (Nat × Nat)) :
    Inv (newSpace w k cap grid pairs).1 := by
  simp only [Mesa.CopyOcc.newSpace]
  have hcell : ∀ c cr, (if w.next + 1 ≤ c ∧ c < w.next + 1 + k then
        some ({ idx := c - (w.next + 1), agents := [], conn := connOf (w.next + 1) k pairs (c - (w.next + 1)), cap := cap, rnd := w.next, klass := if grid then some w.next else none } : CellRec)
      else w.cells c) = some cr →
      (w.next + 1 ≤ c ∧ c < w.next + 1 + k ∧
        cr = { idx := c - (w.next + 1), agents := [], conn := connOf (w.next + 1) k pairs (c - (w.next + 1)), cap := cap, rnd := w.next, klass := if grid then some w.next else none }) ∨
      (c < w.next ∧ w.cells c = some cr) := by
    intro c cr h
    split at h
    · rename_i hr
      left; exact ⟨hr.1, hr.2, by simpa using h.symm⟩
    · right; exact ⟨hi.cellsLt _ _ h, h⟩
  have hold : ∀ c cr, w.cells c = some cr → (if w.next + 1 ≤ c ∧ c < w.next + 1 + k then
        some ({ idx := c - (w.next + 1), agents := [], conn := connOf (w.next + 1) k pairs (c - (w.next + 1)), cap := cap, rnd := w.next, klass := if grid then some w.next else none } : CellRec)
      else w.cells c) = some cr := by
    intro c cr h
    have := hi.cellsLt c cr h
    have hn : ¬ (w.next + 1 ≤ c ∧ c < w.next + 1 + k) := by omega
    simp only [hn, if_false, h]
  constructor
  · intro c cr h
    show c < w.next + 1 + k
    rcases hcell c cr h with ⟨_, h2, _⟩ | ⟨h1, _⟩ <;> omega
  · intro x xr h
    have := hi.agentsLt x xr h
    simp only
    omega
  · intro c cr h
    rcases hcell c cr h with ⟨_, _, rfl⟩ | ⟨_, h⟩
    · simp
    · exact hi.nodup _ _ h
  · intro x xr c h hc
    obtain ⟨cr, hcr, hx⟩ := hi.mirror1 x xr c h hc
    exact ⟨cr, hold c cr hcr, hx⟩
  · intro c cr x h hx
    rcases hcell c cr h with ⟨_, _, rfl⟩ | ⟨_, h⟩
    · simp at hx
    · exact hi.mirror2 c cr x h hx
  · intro c cr k' h hk
    rcases hcell c cr h with ⟨_, _, rfl⟩ | ⟨_, h⟩
    · simp
    · exact hi.capOk _ _ _ h hk
  · intro s1 s2 sr1 sr2 c h1 h2 hc1 hc2
    rcases upd_cases h1 with ⟨rfl, rfl⟩ | ⟨hne1, h1⟩ <;> rcases upd_cases h2 with ⟨rfl, rfl⟩ | ⟨hne2, h2⟩
    · rfl
    · exfalso
      simp only [List.mem_map, List.mem_range] at hc1
      obtain ⟨j, _, rfl⟩ := hc1
      have := (hw.spacesLt _ _ h2).2.1 _ hc2
      omega
    · exfalso
      simp only [List.mem_map, List.mem_range] at hc2
      obtain ⟨j, _, rfl⟩ := hc2
      have := (hw.spacesLt _ _ h1).2.1 _ hc1
      omega
    · exact hi.disj _ _ _ _ c h1 h2 hc1 hc2
  · intro s1 sr1 c h1 hc
    rcases upd_cases h1 with ⟨rfl, rfl⟩ | ⟨hne1, h1⟩
    · simp only [List.mem_map, List.mem_range] at hc
      obtain ⟨j, hj, rfl⟩ := hc
      have hr : w.next + 1 ≤ j + (w.next + 1) ∧ j + (w.next + 1) < w.next + 1 + k := by omega
      refine ⟨_, if_pos hr, ?_, rfl, ?_⟩
      · intro d hd
        obtain ⟨j', hj', rfl⟩ := mem_connOf hd
        simp only [List.mem_map, List.mem_range]
        exact ⟨j', hj', rfl⟩
      · intro k' hk'
        simp only at hk'
        split at hk'
        · exact (Option.some.inj hk').symm
        · cases hk'
    · obtain ⟨cr, hcr, hconn⟩ := hi.connIn s1 sr1 c h1 hc
      exact ⟨cr, hold c cr hcr, hconn⟩
  · intro s1 sr1 x h1 hx
    rcases upd_cases h1 with ⟨rfl, rfl⟩ | ⟨hne1, h1⟩
    · simp at hx
    · exact hi.regIn s1 sr1 x h1 hx
  · intro x xr h
    obtain ⟨sr0, hsr0, hx0⟩ := hi.homeReg x xr h
    have hne : xr.home ≠ w.next := Nat.ne_of_lt (hw.spacesLt _ _ hsr0).1
    exact ⟨sr0, (upd_ne _ _ hne).trans hsr0, hx0⟩
  · intro s1 sr1 h1
    rcases upd_cases h1 with ⟨rfl, rfl⟩ | ⟨hne1, h1⟩
    · simp
    · exact hi.regNodup _ _ h1

/-! ### the copy -/

theorem nodup_map_add {l : List Nat} (h : l.Nodup) (B : Nat) : (l.map (· + B)).Nodup := by
  rw [List.nodup_iff_pairwise_ne] at h ⊢
  exact h.map _ (fun a b hab => by omega)

/-- in a good world the agents listed by a cell of a space are registered in that space's model -/
theorem Inv.listed_reg (hi : Inv w) {s : Nat} {sr : SpaceRec} (hsr : w.spaces s = some sr) {c : Nat} (hc : c ∈ sr.cells)
    {cr : CellRec} (hcr : w.cells c = some cr) {x : Nat} (hx : x ∈ cr.agents) : x ∈ sr.reg := by
  obtain ⟨xr, hxr, hxc⟩ := hi.mirror2 c cr x hcr hx
  obtain ⟨sr0, hsr0, hx0⟩ := hi.homeReg x xr hxr
  obtain ⟨xr', hxr', _, hcell⟩ := hi.regIn _ sr0 x hsr0 hx0
  rw [hxr] at hxr'
  cases hxr'
  have := hi.disj s xr.home sr sr0 c hsr hsr0 hc (hcell c hxc)
  subst this
  rw [hsr] at hsr0
  cases hsr0
  exact hx0

theorem Inv.copyWorld (hi : Inv w) (hw : WF w) {s : Nat} {sr : SpaceRec} (hsr : w.spaces s = some sr) :
    Inv (copyWorld w s sr) := by
  obtain ⟨hs0, hs1, hs2⟩ := hw.spacesLt s sr hsr
  constructor
  · intro c cr h
    rw [copyWorld_next]
    rcases copyWorld_cells_cases s sr h with ⟨h1, _⟩ | ⟨c0, cr0, rfl, hc0, _, _⟩
    · omega
    · have := hs1 c0 hc0; omega
  · intro x xr h
    rw [copyWorld_next]
    rcases copyWorld_agents_cases s sr h with ⟨h1, _⟩ | ⟨x0, xr0, rfl, hx0, _, _⟩
    · omega
    · have := hs2 x0 hx0; omega
  · intro c cr h
    rcases copyWorld_cells_cases s sr h with ⟨_, h⟩ | ⟨c0, cr0, rfl, _, hcr0, rfl⟩
    · exact hi.nodup _ _ h
    · exact nodup_map_add (hi.nodup _ _ hcr0) _
  · intro x xr c h hc
    rcases copyWorld_agents_cases s sr h with ⟨_, h⟩ | ⟨x0, xr0, rfl, hx0, hxr0, rfl⟩
    · obtain ⟨cr, hcr, hx⟩ := hi.mirror1 x xr c h hc
      exact ⟨cr, (copyWorld_cells_old s sr (hi.cellsLt _ _ hcr)).trans hcr, hx⟩
    · cases hc0 : xr0.cell with
      | none => simp [shiftAgent, hc0] at hc
      | some c0 =>
        simp only [shiftAgent, hc0, Option.map_some, Option.some.injEq] at hc
        subst hc
        obtain ⟨cr0, hcr0, hx⟩ := hi.mirror1 x0 xr0 c0 hxr0 hc0
        obtain ⟨xr', hxr', _, hcell⟩ := hi.regIn s sr x0 hsr hx0
        rw [hxr0] at hxr'
        cases hxr'
        have hin : sr.cells.contains c0 = true := by simpa using hcell c0 hc0
        refine ⟨shiftCell w.next cr0, by rw [copyWorld_cells_shift, hin, if_pos rfl, hcr0]; rfl, ?_⟩
        simp only [shiftCell, List.mem_map]
        exact ⟨x0, hx, rfl⟩
  · intro c cr x h hx
    rcases copyWorld_cells_cases s sr h with ⟨_, h⟩ | ⟨c0, cr0, rfl, hc0, hcr0, rfl⟩
    · obtain ⟨xr, hxr, hxc⟩ := hi.mirror2 c cr x h hx
      exact ⟨xr, (copyWorld_agents_old s sr (hi.agentsLt _ _ hxr)).trans hxr, hxc⟩
    · simp only [shiftCell, List.mem_map] at hx
      obtain ⟨x0, hx0, rfl⟩ := hx
      obtain ⟨xr0, hxr0, hxc0⟩ := hi.mirror2 c0 cr0 x0 hcr0 hx0
      have hreg : sr.reg.contains x0 = true := by simpa using hi.listed_reg hsr hc0 hcr0 hx0
      refine ⟨shiftAgent w.next xr0, by rw [copyWorld_agents_shift, hreg, if_pos rfl, hxr0]; rfl, ?_⟩
      simp [shiftAgent, hxc0]
  · intro c cr k h hk
    rcases copyWorld_cells_cases s sr h with ⟨_, h⟩ | ⟨c0, cr0, rfl, _, hcr0, rfl⟩
    · exact hi.capOk _ _ _ h hk
    · simp only [shiftCell, List.length_map] at hk ⊢
      exact hi.capOk _ _ _ hcr0 hk
  · intro s1 s2 sr1 sr2 c h1 h2 hc1 hc2
    rcases copyWorld_spaces_cases s sr h1 with ⟨_, h1⟩ | ⟨rfl, rfl⟩ <;>
      rcases copyWorld_spaces_cases s sr h2 with ⟨_, h2⟩ | ⟨rfl, rfl⟩
    · exact hi.disj _ _ _ _ c h1 h2 hc1 hc2
    · exfalso
      simp only [List.mem_map] at hc2
      obtain ⟨c0, _, rfl⟩ := hc2
      have := (hw.spacesLt _ _ h1).2.1 _ hc1
      omega
    · exfalso
      simp only [List.mem_map] at hc1
      obtain ⟨c0, _, rfl⟩ := hc1
      have := (hw.spacesLt _ _ h2).2.1 _ hc2
      omega
    · rfl
  · intro s1 sr1 c h1 hc
    rcases copyWorld_spaces_cases s sr h1 with ⟨_, h1⟩ | ⟨rfl, rfl⟩
    · obtain ⟨cr, hcr, hconn⟩ := hi.connIn s1 sr1 c h1 hc
      exact ⟨cr, (copyWorld_cells_old s sr (hi.cellsLt _ _ hcr)).trans hcr, hconn⟩
    · simp only [List.mem_map] at hc
      obtain ⟨c0, hc0, rfl⟩ := hc
      obtain ⟨cr0, hcr0, hconn, hrnd, hkl⟩ := hi.connIn s sr c0 hsr hc0
      have hin : sr.cells.contains c0 = true := by simpa using hc0
      refine ⟨shiftCell w.next cr0, by rw [copyWorld_cells_shift, hin, if_pos rfl, hcr0]; rfl, ?_, by simp [shiftCell, hrnd], ?_⟩
      · intro d hd
        simp only [shiftCell, List.mem_map] at hd ⊢
        obtain ⟨d0, hd0, rfl⟩ := hd
        exact ⟨d0, hconn d0 hd0, rfl⟩
      · intro k' hk'
        cases hk0 : cr0.klass with
        | none => simp [shiftCell, hk0] at hk'
        | some k0 =>
          simp only [shiftCell, hk0, Option.map_some, Option.some.injEq] at hk'
          have := hkl k0 hk0
          omega
  · intro s1 sr1 x h1 hx
    rcases copyWorld_spaces_cases s sr h1 with ⟨_, h1⟩ | ⟨rfl, rfl⟩
    · obtain ⟨xr, hxr, hh, hcell⟩ := hi.regIn s1 sr1 x h1 hx
      exact ⟨xr, (copyWorld_agents_old s sr (hi.agentsLt _ _ hxr)).trans hxr, hh, hcell⟩
    · simp only [List.mem_map] at hx
      obtain ⟨x0, hx0, rfl⟩ := hx
      obtain ⟨xr0, hxr0, hh, hcell⟩ := hi.regIn s sr x0 hsr hx0
      have hreg : sr.reg.contains x0 = true := by simpa using hx0
      refine ⟨shiftAgent w.next xr0, by rw [copyWorld_agents_shift, hreg, if_pos rfl, hxr0]; rfl, by simp [shiftAgent, hh], ?_⟩
      intro c hc
      cases hc0 : xr0.cell with
      | none => simp [shiftAgent, hc0] at hc
      | some c0 =>
        simp only [shiftAgent, hc0, Option.map_some, Option.some.injEq] at hc
        subst hc
        simp only [List.mem_map]
        exact ⟨c0, hcell c0 hc0, rfl⟩
  · intro x xr h
    rcases copyWorld_agents_cases s sr h with ⟨_, h⟩ | ⟨x0, xr0, rfl, hx0, hxr0, rfl⟩
    · obtain ⟨sr0, hsr0, hx0⟩ := hi.homeReg x xr h
      have hne : xr.home ≠ s + w.next := by
        have := (hw.spacesLt _ _ hsr0).1
        omega
      exact ⟨sr0, (copyWorld_spaces_ne s sr hne).trans hsr0, hx0⟩
    · obtain ⟨xr', hxr', hh, _⟩ := hi.regIn s sr x0 hsr hx0
      rw [hxr0] at hxr'
      cases hxr'
      refine ⟨_, by simp only [shiftAgent, hh]; exact copyWorld_spaces_new s sr, ?_⟩
      simp only [List.mem_map]
      exact ⟨x0, hx0, rfl⟩
  · intro s1 sr1 h1
    rcases copyWorld_spaces_cases s sr h1 with ⟨_, h1⟩ | ⟨rfl, rfl⟩
    · exact hi.regNodup _ _ h1
    · exact nodup_map_add (hi.regNodup _ _ hsr) _

/-! ### every operation -/

theorem capFull_mono {cap : Option Nat} {n m : Nat} (h : capFull cap m = false) (hnm : n ≤ m) : capFull cap n = false := by
  unfold capFull at h ⊢
  cases cap with
  | none => rfl
  | some k =>
    simp only [decide_eq_false_iff_not] at h ⊢
    omega

theorem Inv.setCell (hi : Inv w) (a c : Nat) : Inv (setCell w a c).1 := by
  unfold Mesa.CopyOcc.setCell
  split
  · exact hi
  rename_i ar har
  split
  · exact hi
  rename_i cr hcr
  split
  · exact hi
  rename_i hin
  split
  · exact hi
  rename_i hfull
  simp only [Bool.not_eq_eq_eq_not, Bool.not_true, Bool.not_eq_false] at hin
  have hi1 := hi.unplace a
  have ha1 := unplace_agent har
  have hin1 : inSpace (Mesa.CopyOcc.unplace w a) ar.home c = true := by
    simpa [inSpace, unplace_spaces] using hin
  obtain ⟨cr', hcr', hcap, hlen, hsame⟩ := unplace_cell a c hcr
  have hroom : full cr' = false := by
    by_cases hre : ar.cell = some c
    · -- re-entering: the agent has just left this cell
      obtain ⟨cr0, hcr0, ha0⟩ := hi.mirror1 a ar c har hre
      rw [hcr] at hcr0
      cases hcr0
      have hc1 : (Mesa.CopyOcc.unplace w a).cells c = some { cr with agents := cr.agents.erase a } := by
        simp [Mesa.CopyOcc.unplace, har, Mesa.CopyOcc.unplaceRec, hre, leave, hcr]
      rw [hcr'] at hc1
      cases hc1
      simp only [full, capFull]
      cases hk : cr.cap with
      | none => rfl
      | some k =>
        simp only [decide_eq_false_iff_not]
        have := hi.capOk c cr k hcr hk
        have := List.length_erase_of_mem ha0
        have : 0 < cr.agents.length := List.length_pos_of_mem ha0
        omega
    · have hf : full cr = false := by
        have : (ar.cell != some c) = true := by simpa using hre
        simpa [this] using hfull
      unfold full at hf ⊢
      rw [hcap]
      exact capFull_mono hf hlen
  exact hi1.place ha1 rfl hcr' hroom hin1

theorem Inv.step (hi : Inv w) (hw : WF w) (op : Op) : Inv (step w op) := by
  cases op with
  | newSpace k cap grid pairs => exact hi.newSpace hw k cap grid pairs
  | newAgent s =>
    simp only [Mesa.CopyOcc.step]
    cases hsr : w.spaces s with
    | none => simpa [Mesa.CopyOcc.newAgent, hsr] using hi
    | some sr =>
      simp only [Mesa.CopyOcc.newAgent, hsr]
      exact hi.newAgent hw hsr _
  | set a c => exact hi.setCell a c
  | unset a =>
    simp only [Mesa.CopyOcc.step]
    cases har : w.agents a with
    | none => simpa [unsetCell, har] using hi
    | some ar =>
      simp only [unsetCell, har, Option.getD_some]
      exact hi.unplaceRec har
  | remove a =>
    simp only [Mesa.CopyOcc.step]
    cases har : w.agents a with
    | none => simpa [Mesa.CopyOcc.remove, har] using hi
    | some ar =>
      simp only [Mesa.CopyOcc.remove, har, Option.getD_some]
      exact (hi.unplace a).dereg (ar := { ar with cell := none }) (unplace_agent har) rfl
  | copy s =>
    simp only [Mesa.CopyOcc.step]
    cases hsr : w.spaces s with
    | none => simpa [copySpace, hsr] using hi
    | some sr =>
      simp only [copySpace, hsr]
      exact hi.copyWorld hw hsr

/-- every world reached by a history is well-formed and satisfies the occupancy invariant -/
theorem reachable (ops : List Op) : WF (run init ops) ∧ Inv (run init ops) := by
  suffices h : ∀ w, WF w → Inv w → WF (run w ops) ∧ Inv (run w ops) from h _ WF.init Inv.init
  induction ops with
  | nil => exact fun w hw hi => ⟨hw, hi⟩
  | cons op ops ih => exact fun w hw hi => ih _ (hw.step op) (hi.step hw op)

end Mesa.CopyOcc
