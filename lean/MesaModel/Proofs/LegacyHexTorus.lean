import MesaModel.Proofs.LegacyHex
/-! Touching is symmetric on hexagonal tori of even width — and not on odd widths (C09, round 3: why the property's quantifier
asks for an even width). -/
namespace Mesa.Legacy

/-- shifting a hexagon by an even number of columns (and any number of rows) shifts its six neighbours along -/
theorem hexAdjacent_translate (m x : Coord) (t1 t2 : Int) (ht : t1 % 2 = 0) :
    x ∈ hexAdjacent m ↔ ((x.1 - t1, x.2 - t2) : Coord) ∈ hexAdjacent (m.1 - t1, m.2 - t2) := by
  have hpar : (m.1 - t1) % 2 = m.1 % 2 := by omega
  unfold hexAdjacent
  simp only [hpar, List.mem_map]
  constructor
  · rintro ⟨o, ho, rfl⟩
    exact ⟨o, ho, Prod.ext (by simp only []; omega) (by simp only []; omega)⟩
  · rintro ⟨o, ho, h⟩
    refine ⟨o, ho, ?_⟩
    have h1 := congrArg Prod.fst h
    have h2 := congrArg Prod.snd h
    simp only [] at h1 h2
    exact Prod.ext (by simp only []; omega) (by simp only []; omega)

theorem hexNbrs_torus_mem (d : Dim) (ht : d.torus = true) (c n : Coord) :
    n ∈ hexNbrs d c ↔ ∃ m ∈ hexAdjacent c, ((m.1 % d.w, m.2 % d.h) : Coord) = n := by
  simp [hexNbrs, ht]

theorem hexNbrs_symm_aux (d : Dim) (ht : d.torus = true) (hev : d.w % 2 = 0)
    (c n : Coord) (hc : d.inGrid c) (h : n ∈ hexNbrs d c) : c ∈ hexNbrs d n := by
  rw [hexNbrs_torus_mem d ht] at h ⊢
  obtain ⟨m, hm, rfl⟩ := h
  have hcm : c ∈ hexAdjacent m := (hexAdjacent_symm c m).mp hm
  have hpar : (d.w * (m.1 / d.w)) % 2 = 0 := by
    rw [Int.mul_emod, hev]; simp
  have htr := (hexAdjacent_translate m c (d.w * (m.1 / d.w)) (d.h * (m.2 / d.h)) hpar).mp hcm
  have e1 : m.1 - d.w * (m.1 / d.w) = m.1 % d.w := by rw [Int.emod_def]
  have e2 : m.2 - d.h * (m.2 / d.h) = m.2 % d.h := by rw [Int.emod_def]
  rw [e1, e2] at htr
  refine ⟨_, htr, ?_⟩
  obtain ⟨c1, c2, c3, c4⟩ := hc
  refine Prod.ext ?_ ?_
  · simp only []
    rw [Int.sub_mul_emod_self_left]; exact Int.emod_eq_of_lt c1 c2
  · simp only []
    rw [Int.sub_mul_emod_self_left]; exact Int.emod_eq_of_lt c3 c4

/-- **on a torus of even width touching is symmetric** (the wrapped offset tables describe a hexagonal tiling) -/
theorem hexNbrs_symm_even_torus (d : Dim) (ht : d.torus = true) (hev : d.w % 2 = 0)
    (c n : Coord) (hc : d.inGrid c) (hn : d.inGrid n) : n ∈ hexNbrs d c ↔ c ∈ hexNbrs d n :=
  ⟨hexNbrs_symm_aux d ht hev c n hc, hexNbrs_symm_aux d ht hev n c hn⟩

/-- bounded grids: symmetric for every size -/
theorem hexNbrs_symm_bounded (d : Dim) (ht : d.torus = false) (c n : Coord) (hc : d.inGrid c) (hn : d.inGrid n) :
    n ∈ hexNbrs d c ↔ c ∈ hexNbrs d n := by
  have hoc : d.oob c = false := by
    obtain ⟨h1, h2, h3, h4⟩ := hc
    simp only [Dim.oob, Bool.or_eq_false_iff, decide_eq_false_iff_not]; omega
  have hon : d.oob n = false := by
    obtain ⟨h1, h2, h3, h4⟩ := hn
    simp only [Dim.oob, Bool.or_eq_false_iff, decide_eq_false_iff_not]; omega
  simp only [hexNbrs, ht, Bool.false_eq_true, if_false, List.mem_filter, hoc, hon, Bool.not_false, and_true]
  exact hexAdjacent_symm c n

end Mesa.Legacy
