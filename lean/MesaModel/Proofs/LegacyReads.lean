import MesaModel.Proofs.LegacyHist
import MesaModel.Proofs.LegacyIndex
/-! Observably equal grids answer every read alike (C18: "every later operation behaves as if the rejected call
had never been made" — for the reads). -/
namespace Mesa.Legacy

open Grid

theorem rawCells_forget (g : Grid) (cs : List Coord) : (forget g).rawCells cs = g.rawCells cs := by
  induction cs with
  | nil => rfl
  | cons p ps ih =>
    unfold rawCells
    rw [ih]
    rfl

theorem adjAll_forget (g : Grid) (ps : List Coord) : (forget g).adjAll ps = g.adjAll ps := by
  induction ps with
  | nil => rfl
  | cons p ps ih =>
    unfold adjAll
    rw [ih]
    rfl

/-- every read of the grid — emptiness views, `empties`, agents, iteration / indexing in all forms, cell lists,
    neighbours — gives the same answer on two grids whose views agree and that are observably equal (they may
    differ only in whether the private `_empties` set has been built) -/
theorem reads_cong (g g' : Grid) (hi : Inv g) (hi' : Inv g') (h : ObsEq g g') :
    g'.readEmpties.2 = g.readEmpties.2 ∧ g'.existsEmpty.2 = g.existsEmpty.2 ∧
    (∀ p, g'.isCellEmptyRaw p = g.isCellEmptyRaw p) ∧ g'.mask = g.mask ∧ g'.agentsList = g.agentsList ∧
    (∀ p, g'.getItem p = g.getItem p) ∧
    (∀ ix iy, g'.getItem2 ix iy = g.getItem2 ix iy) ∧ (∀ i, g'.getColumn i = g.getColumn i) ∧
    (∀ ps, g'.getMany ps = g.getMany ps) ∧ g'.content = g.content ∧ g'.pos = g.pos ∧
    (∀ cells, g'.rawCells cells = g.rawCells cells) ∧ (∀ cells, cellsContents g' cells = cellsContents g cells) ∧
    g'.dim = g.dim := by
  have hf : forget g' = forget g := (obsEq_iff_forget g g').mp h
  have he : g'.readEmpties.2 = g.readEmpties.2 := by
    rw [readEmpties_eq_build g' hi', readEmpties_eq_build g hi, buildEmpties_forget hf]
  refine ⟨he, ?_, ?_, h.2.2.2.2.2.2.2, ?_, ?_, ?_, ?_, ?_, h.2.2.2.2.2.1, h.2.2.2.2.2.2.1, ?_, ?_, ?_⟩
  · unfold existsEmpty; simp only []; rw [he]
  · intro p
    show (forget g').isCellEmptyRaw p = (forget g).isCellEmptyRaw p
    rw [hf]
  · show (forget g').agentsList = (forget g).agentsList
    rw [hf]
  · intro p
    show (forget g').getItem p = (forget g).getItem p
    rw [hf]
  · intro ix iy
    show (forget g').getItem2 ix iy = (forget g).getItem2 ix iy
    rw [hf]
  · intro i
    show (forget g').getColumn i = (forget g).getColumn i
    rw [hf]
  · intro ps
    have e1 : g'.getMany ps = (forget g').getMany ps := by unfold getMany; rw [adjAll_forget]
    have e2 : g.getMany ps = (forget g).getMany ps := by unfold getMany; rw [adjAll_forget]
    rw [e1, e2, hf]
  · intro cells
    rw [← rawCells_forget g', ← rawCells_forget g, hf]
  · intro cells
    show cellsContents (forget g') cells = cellsContents (forget g) cells
    rw [hf]
  · show (forget g').dim = (forget g).dim
    rw [hf]

end Mesa.Legacy
