import MesaModel.Model.Cont
/-! Arithmetic facts about the per-axis functions of the continuous-space model (core Lean only). -/
namespace Mesa.Cont

theorem iabs_nonneg (x : Int) : 0 ≤ iabs x := by unfold iabs; split <;> omega

theorem iabs_sub_comm (a b : Int) : iabs (a - b) = iabs (b - a) := by unfold iabs; split <;> split <;> omega

theorem sq_neg (x : Int) : sq (-x) = sq x := by simp [sq, Int.neg_mul_neg]

theorem sq_nonneg (x : Int) : 0 ≤ sq x := by
  unfold sq
  rcases Int.le_total 0 x with h | h
  · exact Int.mul_nonneg h h
  · have := Int.mul_nonneg (Int.neg_nonneg_of_nonpos h) (Int.neg_nonneg_of_nonpos h)
    rwa [Int.neg_mul_neg] at this

theorem sq_iabs (x : Int) : sq (iabs x) = sq x := by
  unfold iabs; split
  · exact sq_neg x
  · rfl

theorem iabs_neg (x : Int) : iabs (-x) = iabs x := by unfold iabs; split <;> split <;> omega

theorem axisDist_comm (t : Bool) (s a b : Int) : axisDist t s a b = axisDist t s b a := by
  unfold axisDist; rw [iabs_sub_comm]

theorem axisDist_self (t : Bool) (s a : Int) (hs : 0 ≤ s) : axisDist t s a a = 0 := by
  have h : iabs (a - a) = 0 := by unfold iabs; split <;> omega
  unfold axisDist; rw [h]
  cases t <;> simp <;> omega

/-- the torus part of `axisDist` in terms of the remainder `m` of `|a - b|` -/
theorem axisDist_torus_def (s a b : Int) :
    axisDist true s a b = min (iabs (a - b) % s) (s - iabs (a - b) % s) := by simp [axisDist]

theorem axisDist_nonneg (t : Bool) (s a b : Int) (hs : 0 < s) : 0 ≤ axisDist t s a b := by
  cases t
  · simp only [axisDist, Bool.false_eq_true, if_false]; exact iabs_nonneg _
  · rw [axisDist_torus_def]
    have h0 := Int.emod_nonneg (iabs (a - b)) (show s ≠ 0 by omega)
    have h1 := Int.emod_lt_of_pos (iabs (a - b)) hs
    omega

/-- `fmod` in terms of the remainder of the absolute value -/
theorem fmodI_eq (x s : Int) : fmodI x s = if x < 0 then -(iabs x % s) else iabs x % s := by
  unfold fmodI iabs; split <;> rfl

/-- the heading along one axis is plus or minus the separation along that axis -/
theorem axisHeading_eq_or_neg (t : Bool) (s a b : Int) (hs : 0 < s) :
    axisHeading t s a b = axisDist t s a b ∨ axisHeading t s a b = -axisDist t s a b := by
  cases t
  · simp only [axisHeading, axisDist, Bool.false_eq_true, if_false]; unfold iabs; split <;> omega
  · rw [axisDist_torus_def, iabs_sub_comm a b]
    simp only [axisHeading, if_true, fmodI_eq]
    have h0 := Int.emod_nonneg (iabs (b - a)) (show s ≠ 0 by omega)
    have h1 := Int.emod_lt_of_pos (iabs (b - a)) hs
    generalize iabs (b - a) % s = m at *
    unfold sgn
    split
    · split
      · rw [show (-1 : Int) * s = -s by omega]; unfold iabs; split <;> split <;> split <;> omega
      · split
        · rw [show (0 : Int) * s = 0 by omega]; unfold iabs; split <;> split <;> omega
        · omega
    · split
      · omega
      · split
        · rw [show (0 : Int) * s = 0 by omega]; unfold iabs; split <;> split <;> omega
        · rw [show (1 : Int) * s = s by omega]; unfold iabs; split <;> split <;> split <;> omega

theorem axisHeading_sq (t : Bool) (s a b : Int) (hs : 0 < s) :
    sq (axisHeading t s a b) = sq (axisDist t s a b) := by
  rcases axisHeading_eq_or_neg t s a b hs with h | h <;> rw [h]
  exact sq_neg _

theorem sgn_mul (x s : Int) : sgn x * s = if x < 0 then -s else if x = 0 then 0 else s := by
  unfold sgn; split
  · omega
  · split <;> omega

/-- for coordinates less than one circumference apart `fmod` changes nothing … -/
theorem fmodI_small (x s : Int) (h : iabs x < s) : fmodI x s = x := by
  have h0 := iabs_nonneg x
  rw [fmodI_eq, Int.emod_eq_of_lt h0 h]; unfold iabs; split <;> omega

/-- … and exactly one circumference apart it gives 0 -/
theorem fmodI_full (x s : Int) (h : iabs x = s) : fmodI x s = 0 := by
  rw [fmodI_eq, h, Int.emod_self]; split <;> rfl

/-- the heading along one axis of a torus, case by case, for coordinates at most one circumference apart: the direct
    difference while it is shorter than half the circumference, the image through the edge when it is longer — and on
    the tie `|b - a| = s/2` (`abs(h) < abs(inv)` is false) also the image through the edge, which is `a - b` -/
theorem axisHeading_torus_cases (s a b : Int) (hs : 0 < s) (hd : iabs (b - a) ≤ s) :
    (2 * iabs (b - a) < s → axisHeading true s a b = b - a) ∧
    (2 * iabs (b - a) = s → axisHeading true s a b = a - b) ∧
    (s < 2 * iabs (b - a) → axisHeading true s a b = b - a - sgn (b - a) * s) := by
  by_cases hlt : iabs (b - a) < s
  · simp only [axisHeading, if_true, fmodI_small _ _ hlt, sgn_mul]
    refine ⟨fun h => ?_, fun h => ?_, fun h => ?_⟩
    all_goals
      unfold iabs at *
      split <;> split <;> (try split) <;> (try split) <;> omega
  · have he : iabs (b - a) = s := by omega
    simp only [axisHeading, if_true, fmodI_full _ _ he, sgn_mul]
    refine ⟨fun h => ?_, fun h => ?_, fun h => ?_⟩
    all_goals
      unfold iabs at *
      (try split) <;> (try split) <;> (try split) <;> (try split) <;> omega

/-- `fmod` moves a coordinate by a whole number of circumferences -/
theorem fmodI_congr (x s : Int) : ∃ q : Int, fmodI x s = x + q * s := by
  unfold fmodI
  split
  · refine ⟨(-x) / s, ?_⟩
    rw [Int.emod_def, Int.mul_comm ((-x) / s) s]; omega
  · refine ⟨-(x / s), ?_⟩
    rw [Int.emod_def, Int.neg_mul, Int.mul_comm (x / s) s]; omega

/-- following the heading from `a` arrives at `b` or at one of its periodic images -/
theorem axisHeading_reaches (s a b : Int) : ∃ k : Int, a + axisHeading true s a b = b + k * s := by
  obtain ⟨q, hq⟩ := fmodI_congr (b - a) s
  simp only [axisHeading, if_true, sgn_mul]
  generalize fmodI (b - a) s = h at *
  have e1 : (q + 1) * s = q * s + s := by rw [Int.add_mul]; omega
  have e2 : (q - 1) * s = q * s - s := by rw [Int.sub_mul]; omega
  repeat' split
  all_goals first | exact ⟨q, by omega⟩ | exact ⟨q + 1, by omega⟩ | exact ⟨q - 1, by omega⟩

theorem axisHeading_flat (s a b : Int) : axisHeading false s a b = b - a := by simp [axisHeading]

theorem sq_eq_zero {x : Int} (h : sq x = 0) : x = 0 := by
  unfold sq at h
  rcases Int.mul_eq_zero.mp h with h | h <;> exact h

/-- `0 ≤ x ≤ |y|` implies `x² ≤ y²` -/
theorem sq_le_sq_of_le_iabs {x y : Int} (h0 : 0 ≤ x) (h : x ≤ iabs y) : sq x ≤ sq y := by
  rw [← sq_iabs y]; unfold sq
  exact Int.mul_le_mul h h h0 (iabs_nonneg y)

/-- the separation along one axis is 0 for equal coordinates and, on a torus, for coordinates a whole number of
    circumferences apart — and for nothing else -/
theorem axisDist_eq_zero_iff (t : Bool) (s a b : Int) (hs : 0 < s) :
    axisDist t s a b = 0 ↔ a = b ∨ (t = true ∧ iabs (a - b) % s = 0) := by
  cases t
  · simp [axisDist]; unfold iabs; split <;> omega
  · rw [axisDist_torus_def]
    have h0 := Int.emod_nonneg (iabs (a - b)) (show s ≠ 0 by omega)
    have h1 := Int.emod_lt_of_pos (iabs (a - b)) hs
    simp only [true_and]
    constructor
    · intro h; right; omega
    · rintro (h | h)
      · subst h
        have : iabs (a - a) = 0 := by unfold iabs; split <;> omega
        rw [this]; simp; omega
      · omega

/-- a remainder 0 of `|a - b|` means: a whole number of circumferences apart -/
theorem iabs_emod_eq_zero_iff (s a b : Int) : iabs (a - b) % s = 0 ↔ ∃ k : Int, a - b = k * s := by
  constructor
  · intro h
    have hd := Int.emod_def (iabs (a - b)) s
    rw [h] at hd
    by_cases hab : a - b < 0
    · refine ⟨-(iabs (a - b) / s), ?_⟩
      rw [Int.neg_mul, Int.mul_comm (iabs (a - b) / s) s]
      have : iabs (a - b) = -(a - b) := by unfold iabs; rw [if_pos hab]
      omega
    · refine ⟨iabs (a - b) / s, ?_⟩
      rw [Int.mul_comm (iabs (a - b) / s) s]
      have : iabs (a - b) = a - b := by unfold iabs; rw [if_neg hab]
      omega
  · rintro ⟨k, hk⟩
    rw [hk]
    unfold iabs; split
    · rw [← Int.neg_mul]; exact Int.mul_emod_left _ _
    · exact Int.mul_emod_left _ _

/-- without a torus the separation is `|a - b|` -/
theorem axisDist_flat (s a b : Int) : axisDist false s a b = iabs (a - b) := by simp [axisDist]

/-- a remainder `m` of `[0, s)`: no `m + j*s` is nearer to 0 than `min m (s - m)` -/
theorem near_image_le (s m j : Int) (hs : 0 < s) (h0 : 0 ≤ m) (h1 : m < s) : min m (s - m) ≤ iabs (m + j * s) := by
  by_cases hj : j < 0
  · have h2 : 0 ≤ (-j - 1) * s := Int.mul_nonneg (by omega) (by omega)
    have h3 : (-j - 1) * s = -(j * s) - s := by rw [Int.sub_mul, Int.neg_mul]; omega
    unfold iabs; split <;> omega
  · have h2 : 0 ≤ j * s := Int.mul_nonneg (by omega) (by omega)
    unfold iabs; split <;> omega

/-- on a torus of circumference `s` the separation of ANY two coordinates is the least `|a - b + k*s|` over all
    integers `k` (the distance to the nearest periodic image) … -/
theorem axisDist_torus_le_image (s a b : Int) (hs : 0 < s) (k : Int) :
    axisDist true s a b ≤ iabs (a - b + k * s) := by
  rw [axisDist_torus_def]
  have hd := Int.emod_def (iabs (a - b)) s
  have h0 := Int.emod_nonneg (iabs (a - b)) (show s ≠ 0 by omega)
  have h1 := Int.emod_lt_of_pos (iabs (a - b)) hs
  generalize iabs (a - b) / s = q at hd
  by_cases hab : a - b < 0
  · have e : iabs (a - b) = -(a - b) := by unfold iabs; rw [if_pos hab]
    generalize iabs (a - b) % s = m at *
    rw [e] at hd
    have hk := near_image_le s m (q - k) hs h0 h1
    have h4 : (q - k) * s = s * q - k * s := by rw [Int.sub_mul, Int.mul_comm q s]
    have h5 : a - b + k * s = -(m + (q - k) * s) := by omega
    rw [h5, iabs_neg]; exact hk
  · have e : iabs (a - b) = a - b := by unfold iabs; rw [if_neg hab]
    generalize iabs (a - b) % s = m at *
    rw [e] at hd
    have hk := near_image_le s m (q + k) hs h0 h1
    have h4 : (q + k) * s = s * q + k * s := by rw [Int.add_mul, Int.mul_comm q s]
    have h5 : a - b + k * s = m + (q + k) * s := by omega
    rw [h5]; exact hk

/-- … and it is attained by one of the images -/
theorem axisDist_torus_attained (s a b : Int) (hs : 0 < s) :
    ∃ k : Int, axisDist true s a b = iabs (a - b + k * s) := by
  rw [axisDist_torus_def]
  have hd := Int.emod_def (iabs (a - b)) s
  have h0 := Int.emod_nonneg (iabs (a - b)) (show s ≠ 0 by omega)
  have h1 := Int.emod_lt_of_pos (iabs (a - b)) hs
  generalize iabs (a - b) / s = q at hd
  by_cases hab : a - b < 0
  · have e : iabs (a - b) = -(a - b) := by unfold iabs; rw [if_pos hab]
    generalize iabs (a - b) % s = m at *
    rw [e] at hd
    by_cases hm : m ≤ s - m
    · refine ⟨q, ?_⟩
      rw [Int.mul_comm q s]; unfold iabs; split <;> omega
    · refine ⟨q + 1, ?_⟩
      rw [Int.add_mul, Int.mul_comm q s]; unfold iabs; split <;> omega
  · have e : iabs (a - b) = a - b := by unfold iabs; rw [if_neg hab]
    generalize iabs (a - b) % s = m at *
    rw [e] at hd
    by_cases hm : m ≤ s - m
    · refine ⟨-q, ?_⟩
      rw [Int.neg_mul, Int.mul_comm q s]; unfold iabs; split <;> omega
    · refine ⟨-(q + 1), ?_⟩
      rw [Int.neg_mul, Int.add_mul, Int.mul_comm q s]; unfold iabs; split <;> omega

/-- for two coordinates less than one circumference apart (two points of the space) nothing is reduced: the separation
    is `min(|a - b|, s - |a - b|)`, the value the code computed before repair CS3 -/
theorem axisDist_torus_small (s a b : Int) (h : iabs (a - b) < s) :
    axisDist true s a b = min (iabs (a - b)) (s - iabs (a - b)) := by
  rw [axisDist_torus_def, Int.emod_eq_of_lt (iabs_nonneg _) h]

/-- wrapping one coordinate into `[lo, lo + w)` -/
theorem wrap_bounds (lo w x : Int) (hw : 0 < w) :
    lo ≤ lo + (x - lo) % w ∧ lo + (x - lo) % w < lo + w := by
  have h1 := Int.emod_nonneg (x - lo) (show w ≠ 0 by omega)
  have h2 := Int.emod_lt_of_pos (x - lo) hw
  omega

/-- the wrapped coordinate is a periodic image of the original one -/
theorem wrap_congr (lo w x : Int) : ∃ k : Int, lo + (x - lo) % w = x + k * w := by
  refine ⟨-((x - lo) / w), ?_⟩
  have := Int.emod_def (x - lo) w
  rw [this, Int.neg_mul, Int.mul_comm ((x - lo) / w) w]; omega

/-- a coordinate already in `[lo, lo + w)` is its own wrap -/
theorem wrap_id (lo w x : Int) (h1 : lo ≤ x) (h2 : x < lo + w) : lo + (x - lo) % w = x := by
  rw [Int.emod_eq_of_lt (by omega) (by omega)]; omega

theorem growBy_pos (n : Nat) : 1 ≤ growBy n := by unfold growBy; omega

/-- `round(0.2 * n)`: `n/5` is never half-way between two integers, so rounding half-up and
    Python's rounding half-to-even agree -/
theorem growBy_no_tie (n : Nat) : (2 * n + 5) % 10 ≠ 0 := by omega

end Mesa.Cont
