import MesaModel.Model.Cont
/-! Arithmetic facts about the per-axis functions of the continuous-space model (core Lean only). -/
namespace Mesa.Cont

theorem iabs_nonneg (x : Int) : 0 ≤ iabs x := by unfold iabs; split <;> omega

theorem iabs_sub_comm (a b : Int) : iabs (a - b) = iabs (b - a) := by unfold iabs; split <;> split <;> omega

theorem sq_neg (x : Int) : sq (-x) = sq x := by simp [sq, Int.neg_mul_neg]

theorem sq_nonneg (x : Int) : 0 ≤ sq x := by
  unfold sq
  rcases Int.le_total 0 x with h | h
  · exact Int.mul_nonneg h h
  · have := Int.mul_nonneg (Int.neg_nonneg_of_nonpos h) (Int.neg_nonneg_of_nonpos h)
    rwa [Int.neg_mul_neg] at this

theorem sq_iabs (x : Int) : sq (iabs x) = sq x := by
  unfold iabs; split
  · exact sq_neg x
  · rfl

theorem axisDist_comm (t : Bool) (s a b : Int) : axisDist t s a b = axisDist t s b a := by
  unfold axisDist; rw [iabs_sub_comm]

theorem axisDist_self (t : Bool) (s a : Int) (hs : 0 ≤ s) : axisDist t s a a = 0 := by
  unfold axisDist iabs; cases t <;> simp <;> omega

/-- the heading along one axis is plus or minus the separation along that axis -/
theorem axisHeading_eq_or_neg (t : Bool) (s a b : Int) (hs : 0 ≤ s) :
    axisHeading t s a b = axisDist t s a b ∨ axisHeading t s a b = -axisDist t s a b := by
  unfold axisHeading axisDist
  cases t
  · simp only [Bool.false_eq_true, if_false]; unfold iabs; split <;> omega
  · simp only [if_true]
    unfold sgn
    split
    · rw [show (-1 : Int) * s = -s by omega]; unfold iabs; omega
    · split
      · rw [show (0 : Int) * s = 0 by omega]; unfold iabs; omega
      · rw [show (1 : Int) * s = s by omega]; unfold iabs; omega

theorem axisHeading_sq (t : Bool) (s a b : Int) (hs : 0 ≤ s) :
    sq (axisHeading t s a b) = sq (axisDist t s a b) := by
  rcases axisHeading_eq_or_neg t s a b hs with h | h <;> rw [h]
  exact sq_neg _

theorem sgn_mul (x s : Int) : sgn x * s = if x < 0 then -s else if x = 0 then 0 else s := by
  unfold sgn; split
  · omega
  · split <;> omega

/-- the heading along one axis of a torus, case by case: the direct difference while it is shorter than half
    the circumference, the image through the edge when it is longer — and on the tie `|b - a| = s/2`
    (`abs(h) < abs(inv)` is false) also the image through the edge, which is `a - b` -/
theorem axisHeading_torus_cases (s a b : Int) (hd : iabs (b - a) ≤ s) :
    (2 * iabs (b - a) < s → axisHeading true s a b = b - a) ∧
    (2 * iabs (b - a) = s → axisHeading true s a b = a - b) ∧
    (s < 2 * iabs (b - a) → axisHeading true s a b = b - a - sgn (b - a) * s) := by
  simp only [axisHeading, if_true, sgn_mul]
  refine ⟨fun h => ?_, fun h => ?_, fun h => ?_⟩
  all_goals
    unfold iabs at *
    split <;> split <;> (try split) <;> (try split) <;> omega

/-- following the heading from `a` arrives at `b` or at one of its two neighbouring periodic images -/
theorem axisHeading_reaches (s a b : Int) :
    a + axisHeading true s a b = b ∨ a + axisHeading true s a b = b + s ∨ a + axisHeading true s a b = b - s := by
  simp only [axisHeading, if_true, sgn_mul]
  split <;> split <;> (try split) <;> omega

theorem axisHeading_flat (s a b : Int) : axisHeading false s a b = b - a := by simp [axisHeading]

theorem sq_eq_zero {x : Int} (h : sq x = 0) : x = 0 := by
  unfold sq at h
  rcases Int.mul_eq_zero.mp h with h | h <;> exact h

/-- the separation along one axis is 0 for equal coordinates and, on a torus, for coordinates exactly one
    circumference apart (the two edges) — and for nothing else -/
theorem axisDist_eq_zero_iff (t : Bool) (s a b : Int) (hs : 0 < s) :
    axisDist t s a b = 0 ↔ a = b ∨ (t = true ∧ iabs (a - b) = s) := by
  unfold axisDist
  cases t
  · simp; unfold iabs; split <;> omega
  · simp only [if_true, true_and]; unfold iabs; split <;> omega

/-- without a torus the separation is `|a - b|` -/
theorem axisDist_flat (s a b : Int) : axisDist false s a b = iabs (a - b) := by simp [axisDist]

/-- on a torus of circumference `s`, for two coordinates at most `s` apart, the separation is the
    least `|a - b + k*s|` over all integers `k` (the distance to the nearest periodic image) … -/
theorem axisDist_torus_le_image (s a b : Int) (hs : 0 < s) (hd : iabs (a - b) ≤ s) (k : Int) :
    axisDist true s a b ≤ iabs (a - b + k * s) := by
  simp only [axisDist, if_true]
  rcases Int.lt_trichotomy k 0 with hk | hk | hk
  · have h1 : 0 ≤ (-k - 1) * s := Int.mul_nonneg (by omega) (by omega)
    have h2 : (-k - 1) * s = -(k * s) - s := by rw [Int.sub_mul, Int.neg_mul]; omega
    unfold iabs at *; omega
  · subst hk; simp; omega
  · have h1 : 0 ≤ (k - 1) * s := Int.mul_nonneg (by omega) (by omega)
    have h2 : (k - 1) * s = k * s - s := by rw [Int.sub_mul]; omega
    unfold iabs at *; omega

/-- … and it is attained by one of the images `k ∈ {-1, 0, 1}` -/
theorem axisDist_torus_attained (s a b : Int) (hd : iabs (a - b) ≤ s) :
    axisDist true s a b = iabs (a - b) ∨ axisDist true s a b = iabs (a - b + 1 * s) ∨
    axisDist true s a b = iabs (a - b + (-1) * s) := by
  simp only [axisDist, if_true]
  rw [show (1 : Int) * s = s by omega, show (-1 : Int) * s = -s by omega]
  unfold iabs at *; omega

/-- wrapping one coordinate into `[lo, lo + w)` -/
theorem wrap_bounds (lo w x : Int) (hw : 0 < w) :
    lo ≤ lo + (x - lo) % w ∧ lo + (x - lo) % w < lo + w := by
  have h1 := Int.emod_nonneg (x - lo) (show w ≠ 0 by omega)
  have h2 := Int.emod_lt_of_pos (x - lo) hw
  omega

/-- the wrapped coordinate is a periodic image of the original one -/
theorem wrap_congr (lo w x : Int) : ∃ k : Int, lo + (x - lo) % w = x + k * w := by
  refine ⟨-((x - lo) / w), ?_⟩
  have := Int.emod_def (x - lo) w
  rw [this, Int.neg_mul, Int.mul_comm ((x - lo) / w) w]; omega

/-- a coordinate already in `[lo, lo + w)` is its own wrap -/
theorem wrap_id (lo w x : Int) (h1 : lo ≤ x) (h2 : x < lo + w) : lo + (x - lo) % w = x := by
  rw [Int.emod_eq_of_lt (by omega) (by omega)]; omega

theorem growBy_pos (n : Nat) : 1 ≤ growBy n := by unfold growBy; omega

/-- `round(0.2 * n)`: `n/5` is never half-way between two integers, so rounding half-up and
    Python's rounding half-to-even agree -/
theorem growBy_no_tie (n : Nat) : (2 * n + 5) % 10 ≠ 0 := by omega

end Mesa.Cont
