import MesaModel.Model.Legacy
import MesaModel.Model.LegacyNbhd
/-!
Specification vocabulary for the legacy-grid theorems (C08, C09, C18-legacy): the representation
invariant, "in range", "within k steps", query histories.  Definitions only.
-/
namespace Mesa.Legacy

/-! ### grids (C08) -/

def Grid.inGrid (g : Grid) (p : Coord) : Prop := 0 ≤ p.1 ∧ p.1 < g.w ∧ 0 ≤ p.2 ∧ p.2 < g.h

instance (g : Grid) (p : Coord) : Decidable (g.inGrid p) := by unfold Grid.inGrid; infer_instance

/-- strictly increasing in Python tuple order: a set of coordinates has one such list -/
def SortedSet (l : List Coord) : Prop := l.Pairwise (fun a b => clt a b = true)

/-- The redundant views agree.  `pos_content` says that an agent's `pos` is the one cell whose content
    includes it (`pos` is a function, so there is at most one such cell) and that `pos = None` exactly
    when it is in no cell. -/
structure Inv (g : Grid) : Prop where
  pos_content : ∀ a p, g.pos a = some p ↔ a ∈ g.content p
  in_grid : ∀ p, g.content p ≠ [] → g.inGrid p
  nodup : ∀ p, (g.content p).Nodup
  single : g.multi = false → ∀ p, (g.content p).length ≤ 1
  mask : ∀ p, g.inGrid p → g.mask p = (g.content p).isEmpty
  empties : ∀ e, g.empties = some e → SortedSet e ∧ ∀ p, p ∈ e ↔ g.inGrid p ∧ g.content p = []

/-- the quantifier's precondition on calls: `place_agent` of an unplaced agent at in-grid coordinates;
    every other call is unrestricted (arbitrary integer coordinates, placed or unplaced agents) -/
def OpOk (g : Grid) : Op → Prop
  | .place a p => g.pos a = none ∧ g.inGrid p
  | _ => True

/-- a history all of whose calls satisfy the precondition in the state they are made in -/
def HistOk (g : Grid) : List Op → Prop
  | [] => True
  | op :: ops => OpOk g op ∧ HistOk (step g op).1 ops

/-- what a caller can observe of a grid without building `empties` -/
def ObsEq (g g' : Grid) : Prop :=
  g'.w = g.w ∧ g'.h = g.h ∧ g'.torus = g.torus ∧ g'.multi = g.multi ∧ g'.cutoff = g.cutoff ∧
  g'.content = g.content ∧ g'.pos = g.pos ∧ g'.mask = g.mask

/-- the least distance between the residue classes of `a` and `b` modulo `w` is `m` -/
def IsTorusDist (w a b m : Int) : Prop := (∃ k : Int, m = Grid.iabs (a - b + k * w)) ∧ ∀ k : Int, m ≤ Grid.iabs (a - b + k * w)

/-! ### NetworkGrid as a space (C08-style agreement of `pos` and the node lists) -/

/-- `agent.pos` is the one node whose list holds the agent (`None` exactly when no list does); only nodes of
    the graph hold agents; no list holds an agent twice -/
structure NetInv (t : Net) : Prop where
  pos_content : ∀ a v, t.pos a = some v ↔ a ∈ t.content v
  in_net : ∀ v, t.content v ≠ [] → v < t.n
  nodup : ∀ v, (t.content v).Nodup

/-- precondition on calls (as for the grids): `place_agent` of an unplaced agent — on any node id, also one
    that does not exist; `move_agent` / `remove_agent` unrestricted -/
def NOpOk (t : Net) : NOp → Prop
  | .place a _ => t.pos a = none
  | _ => True

def NHistOk (t : Net) : List NOp → Prop
  | [] => True
  | op :: ops => NOpOk t op ∧ NHistOk (nstep t op).1 ops

/-- the calls of a history that did not raise, in order -/
def naccepted (t : Net) : List NOp → List NOp
  | [] => []
  | op :: ops => match (nstep t op).2 with
    | .ok => op :: naccepted (nstep t op).1 ops
    | .err _ => naccepted (nstep t op).1 ops

/-! ### neighbourhoods (C09) -/

def Dim.inGrid (d : Dim) (c : Coord) : Prop := 0 ≤ c.1 ∧ c.1 < d.w ∧ 0 ≤ c.2 ∧ c.2 < d.h

/-- coordinates are taken modulo width and height on a torus -/
def Dim.wrapIf (d : Dim) (c : Coord) : Coord := if d.torus then (c.1 % d.w, c.2 % d.h) else c

/-- `c` is `pos` displaced by an offset of Chebyshev (moore) / Manhattan (von Neumann) norm ≤ r -/
def InRange (d : Dim) (pos : Coord) (moore : Bool) (r : Nat) (c : Coord) : Prop :=
  ∃ dx dy : Int, Grid.iabs dx ≤ r ∧ Grid.iabs dy ≤ r ∧ (moore = true ∨ Grid.iabs dx + Grid.iabs dy ≤ r) ∧
    c = d.wrapIf (pos.1 + dx, pos.2 + dy)

/-- within `k` steps of the step relation `nb` (0 steps: the start itself) -/
def Reach {α : Type} (nb : α → List α) : Nat → α → α → Prop
  | 0, a, c => c = a
  | k+1, a, c => Reach nb k a c ∨ ∃ m, Reach nb k a m ∧ c ∈ nb m

/-- the hexagons of the grid that touch hexagon `c` (wrapped on a torus) -/
def hexNbrs (d : Dim) (c : Coord) : List Coord :=
  if d.torus then (hexAdjacent c).map fun n => ((n.1 % d.w, n.2 % d.h) : Coord)
  else (hexAdjacent c).filter fun n => !d.oob n

/-- a history of orthogonal neighbourhood queries on one grid instance: the answers, in order -/
def askAll (d : Dim) : NCache → List NKey → List (Except Err (List Coord))
  | _, [] => []
  | cache, k :: ks => let r := getNbhd d cache k; r.2 :: askAll d r.1 ks

def askAllHex (d : Dim) : HCache → List HKey → List (List Coord)
  | _, [] => []
  | cache, k :: ks => let r := getHexNbhd d cache k; r.2 :: askAllHex d r.1 ks

/-- axial coordinates of an offset coordinate of mesa's hex layout (straight columns; odd columns
    shifted half a cell towards smaller y) -/
def axial (c : Coord) : Coord := (c.1, c.2 - (c.1 + c.1 % 2) / 2)

/-- the six unit steps of a hexagonal lattice in axial coordinates -/
def axialDirs : List Coord := [(1, 0), (-1, 0), (0, 1), (0, -1), (1, -1), (-1, 1)]

end Mesa.Legacy
