import MesaModel.Model.CollectHeap
import MesaModel.Proofs.Collect
namespace Mesa.CollectHeap
open Mesa.Collect

/-- references point into the heap; an object referenced by a stored entry is referenced by no attribute -/
structure Inv (s : HSt) : Prop where
  attrsLt : ∀ kv ∈ s.attrs, ∀ r, kv.2 = .ref r → r < s.heap.length
  colLt : ∀ v ∈ s.col, ∀ r, v = .ref r → r < s.heap.length
  priv : ∀ v ∈ s.col, ∀ r, v = .ref r → ∀ kv ∈ s.attrs, kv.2 ≠ .ref r

def seenOp (s : HSt) : HOp → List Val
  | .collect a => [resolve s.heap (getH s.attrs a)]
  | _ => []

theorem getH_mem (attrs : List (Nat × HVal)) (a : Nat) : getH attrs a = .none ∨ (a, getH attrs a) ∈ attrs := by
  unfold getH
  cases h : attrs.lookup a with
  | none => left; rfl
  | some v => right; exact mem_of_lookup h

theorem resolve_append (heap : List (List Int)) (x : List Int) (v : HVal) (h : ∀ r, v = .ref r → r < heap.length) :
    resolve (heap ++ [x]) v = resolve heap v := by
  cases v with
  | none => rfl
  | int i => rfl
  | ref r => simp [resolve, List.getElem?_append_left (h r rfl)]

theorem resolve_set (heap : List (List Int)) (r' : Nat) (x : List Int) (v : HVal) (h : v ≠ .ref r') :
    resolve (heap.set r' x) v = resolve heap v := by
  cases v with
  | none => rfl
  | int i => rfl
  | ref r =>
    have : r' ≠ r := fun e => h (e ▸ rfl)
    simp [resolve, List.getElem?_set_ne this]

theorem map_resolve_congr {h1 h2 : List (List Int)} {l : List HVal} (h : ∀ v ∈ l, resolve h1 v = resolve h2 v) :
    l.map (resolve h1) = l.map (resolve h2) := List.map_congr_left h

/-- one step with `deepcopy`: the invariant is kept and what the stored entries show is what they showed before,
    plus — for a collect — what the reporter shows now -/
theorem step_deep (s : HSt) (op : HOp) (h : Inv s) :
    Inv (applyH true s op) ∧
    (applyH true s op).col.map (resolve (applyH true s op).heap) = s.col.map (resolve s.heap) ++ seenOp s op := by
  obtain ⟨hA, hC, hP⟩ := h
  cases op with
  | setInt a i =>
    refine ⟨⟨?_, hC, ?_⟩, by simp [applyH, seenOp]⟩
    · intro kv hkv r hr
      rcases mem_setKey hkv with rfl | hkv
      · cases hr
      · exact hA kv hkv r hr
    · intro v hv r hr kv hkv
      rcases mem_setKey hkv with rfl | hkv
      · simp
      · exact hP v hv r hr kv hkv
  | setNew a xs =>
    refine ⟨⟨?_, ?_, ?_⟩, ?_⟩
    · intro kv hkv r hr
      simp only [applyH, List.length_append, List.length_singleton] at *
      rcases mem_setKey hkv with rfl | hkv
      · cases hr; omega
      · have := hA kv hkv r hr; omega
    · intro v hv r hr
      simp only [applyH, List.length_append, List.length_singleton] at *
      have := hC v hv r hr; omega
    · intro v hv r hr kv hkv
      simp only [applyH] at *
      rcases mem_setKey hkv with rfl | hkv
      · have := hC v hv r hr
        intro e; cases e; omega
      · exact hP v hv r hr kv hkv
    · simp only [applyH, seenOp, List.append_nil]
      exact map_resolve_congr fun v hv => resolve_append _ _ _ (hC v hv)
  | alias a b =>
    refine ⟨⟨?_, hC, ?_⟩, by simp [applyH, seenOp]⟩
    · intro kv hkv r hr
      rcases mem_setKey hkv with rfl | hkv
      · rcases getH_mem s.attrs b with hn | hm
        · simp only at hr; rw [hn] at hr; cases hr
        · exact hA _ hm r hr
      · exact hA kv hkv r hr
    · intro v hv r hr kv hkv
      rcases mem_setKey hkv with rfl | hkv
      · rcases getH_mem s.attrs b with hn | hm
        · simp only; rw [hn]; simp
        · exact hP v hv r hr (b, getH s.attrs b) hm
      · exact hP v hv r hr kv hkv
  | app a x =>
    simp only [applyH]
    cases hg : getH s.attrs a with
    | none => exact ⟨⟨hA, hC, hP⟩, by simp [seenOp]⟩
    | int i => exact ⟨⟨hA, hC, hP⟩, by simp [seenOp]⟩
    | ref r' =>
      have hm : (a, HVal.ref r') ∈ s.attrs := by
        rcases getH_mem s.attrs a with hn | hm
        · rw [hg] at hn; cases hn
        · rw [hg] at hm; exact hm
      refine ⟨⟨?_, ?_, hP⟩, ?_⟩
      · intro kv hkv r hr; simp only [List.length_set]; exact hA kv hkv r hr
      · intro v hv r hr; simp only [List.length_set]; exact hC v hv r hr
      · simp only [seenOp, List.append_nil]
        apply map_resolve_congr
        intro v hv
        apply resolve_set
        intro e
        exact hP v hv r' e _ hm rfl
  | collect a =>
    have hgl : ∀ r, getH s.attrs a = .ref r → r < s.heap.length := by
      intro r hr
      rcases getH_mem s.attrs a with hn | hm
      · rw [hn] at hr; cases hr
      · exact hA _ hm r hr
    cases hg : getH s.attrs a with
    | none =>
      refine ⟨⟨?_, ?_, ?_⟩, ?_⟩ <;> simp only [applyH, copyVal, hg, seenOp]
      · exact hA
      · intro v hv r hr
        rcases List.mem_append.mp hv with hv | hv
        · exact hC v hv r hr
        · simp at hv; subst hv; cases hr
      · intro v hv r hr
        rcases List.mem_append.mp hv with hv | hv
        · exact hP v hv r hr
        · simp at hv; subst hv; cases hr
      · simp
    | int i =>
      refine ⟨⟨?_, ?_, ?_⟩, ?_⟩ <;> simp only [applyH, copyVal, hg, seenOp]
      · exact hA
      · intro v hv r hr
        rcases List.mem_append.mp hv with hv | hv
        · exact hC v hv r hr
        · simp at hv; subst hv; cases hr
      · intro v hv r hr
        rcases List.mem_append.mp hv with hv | hv
        · exact hP v hv r hr
        · simp at hv; subst hv; cases hr
      · simp
    | ref r' =>
      have hr' := hgl r' hg
      refine ⟨⟨?_, ?_, ?_⟩, ?_⟩ <;> simp only [applyH, copyVal, hg, seenOp]
      · intro kv hkv r hr
        simp only [List.length_append, List.length_singleton]
        have := hA kv hkv r hr; omega
      · intro v hv r hr
        simp only [List.length_append, List.length_singleton]
        rcases List.mem_append.mp hv with hv | hv
        · have := hC v hv r hr; omega
        · simp at hv; subst hv; cases hr; omega
      · intro v hv r hr kv hkv
        rcases List.mem_append.mp hv with hv | hv
        · exact hP v hv r hr kv hkv
        · simp at hv; subst hv; cases hr
          intro e
          have := hA kv hkv _ e
          omega
      · simp only [List.map_append, List.map_cons, List.map_nil]
        congr 1
        · exact map_resolve_congr fun v hv => resolve_append _ _ _ (hC v hv)
        · simp [resolve, List.getElem?_eq_getElem hr']

theorem seen_eq (deep : Bool) (s : HSt) (op : HOp) (ops : List HOp) :
    seen deep s (op :: ops) = seenOp s op ++ seen deep (applyH deep s op) ops := by
  cases op <;> rfl

theorem run_deep (s : HSt) (ops : List HOp) (h : Inv s) :
    (runH true s ops).col.map (resolve (runH true s ops).heap) = s.col.map (resolve s.heap) ++ seen true s ops := by
  induction ops generalizing s with
  | nil => simp [runH, seen]
  | cons op ops ih =>
    obtain ⟨hi, hc⟩ := step_deep s op h
    have := ih (applyH true s op) hi
    simp only [runH, List.foldl_cons] at this ⊢
    rw [this, hc, seen_eq, List.append_assoc]

theorem inv_empty : Inv empty := ⟨by simp [empty], by simp [empty], by simp [empty]⟩

end Mesa.CollectHeap
