import MesaModel.Model.CollectHeap
import MesaModel.Proofs.Collect
namespace Mesa.CollectHeap
open Mesa.Collect

/-- `F` = the frozen identities (the objects made by a `deepcopy`).  A live value names no frozen object. -/
def Live (F : Nat → Prop) (n : Nat) (v : HVal) : Prop := ∀ r, v = .ref r → r < n ∧ ¬ F r
def Froz (F : Nat → Prop) (n : Nat) (v : HVal) : Prop := ∀ r, v = .ref r → r < n ∧ F r

/-- references point into the heap; attributes and live objects name live objects only, stored entries and frozen
    objects name frozen objects only -/
structure Inv (F : Nat → Prop) (s : HSt) : Prop where
  liveObj : ∀ r o, s.heap[r]? = some o → ¬ F r → ∀ it ∈ o, Live F s.heap.length it
  frozObj : ∀ r o, s.heap[r]? = some o → F r → ∀ it ∈ o, Froz F s.heap.length it
  attrs : ∀ kv ∈ s.attrs, Live F s.heap.length kv.2
  col : ∀ v ∈ s.col, Froz F s.heap.length v
  fresh : ∀ r, s.heap.length ≤ r → ¬ F r      -- an identity not yet allocated is not frozen

def seenOp (d : Nat) (s : HSt) : HOp → List Tree
  | .collect a => [read d s.heap (getH s.attrs a)]
  | _ => []

theorem getH_mem (attrs : List (Nat × HVal)) (a : Nat) : getH attrs a = .none ∨ (a, getH attrs a) ∈ attrs := by
  unfold getH
  cases h : attrs.lookup a with
  | none => left; rfl
  | some v => right; exact mem_of_lookup h

theorem live_none (F : Nat → Prop) (n : Nat) : Live F n .none := by intro r e; cases e
theorem live_int (F : Nat → Prop) (n : Nat) (i : Int) : Live F n (.int i) := by intro r e; cases e

theorem getH_live {F : Nat → Prop} {s : HSt} (h : Inv F s) (a : Nat) : Live F s.heap.length (getH s.attrs a) := by
  rcases getH_mem s.attrs a with hn | hm
  · rw [hn]; exact live_none _ _
  · exact h.attrs _ hm

theorem closed_of_inv {F : Nat → Prop} {s : HSt} (h : Inv F s) :
    ∀ (r : Nat) (o : Obj), s.heap[r]? = some o → ∀ it ∈ o, ∀ r', it = HVal.ref r' → r' < s.heap.length := by
  intro r o ho it hit r' e
  by_cases hF : F r
  · exact (h.frozObj r o ho hF it hit r' e).1
  · exact (h.liveObj r o ho hF it hit r' e).1

/-- reading a frozen value touches frozen objects only: two heaps that agree on them show the same tree -/
theorem read_congr {F : Nat → Prop} {h1 h2 : Heap} (hsame : ∀ r, F r → r < h1.length → h2[r]? = h1[r]?)
    (hfz : ∀ r o, h1[r]? = some o → F r → ∀ it ∈ o, Froz F h1.length it) :
    ∀ d v, Froz F h1.length v → read d h2 v = read d h1 v := by
  intro d
  induction d with
  | zero => intro v _; cases v <;> rfl
  | succ d ih =>
    intro v hv
    cases v with
    | none => rfl
    | int i => rfl
    | ref r =>
      obtain ⟨hlt, hF⟩ := hv r rfl
      have hg : h1[r]? = some h1[r] := List.getElem?_eq_getElem hlt
      simp only [read]
      rw [hsame r hF hlt, hg]
      simp only [Option.getD_some]
      congr 1
      apply List.map_congr_left
      intro it hit
      exact ih it (hfz r _ hg hF it hit)

/-- the duplicate of the heap shows, from the shifted reference and to every depth, what the original shows -/
theorem read_shift (heap : Heap)
    (hc : ∀ (r : Nat) (o : Obj), heap[r]? = some o → ∀ it ∈ o, ∀ r', it = HVal.ref r' → r' < heap.length) :
    ∀ d v, (∀ r, v = .ref r → r < heap.length) →
      read d (heap ++ heap.map (·.map (shiftVal heap.length))) (shiftVal heap.length v) = read d heap v := by
  intro d
  induction d with
  | zero => intro v _; cases v <;> rfl
  | succ d ih =>
    intro v hv
    cases v with
    | none => rfl
    | int i => rfl
    | ref r =>
      have hr := hv r rfl
      have hg : heap[r]? = some heap[r] := List.getElem?_eq_getElem hr
      simp only [shiftVal, read]
      rw [List.getElem?_append_right (by omega)]
      simp only [Nat.add_sub_cancel, List.getElem?_map, hg, Option.map_some, Option.getD_some, List.map_map]
      congr 1
      apply List.map_congr_left
      intro it hit
      simpa using ih it (hc r _ hg it hit)

theorem follow_live {F : Nat → Prop} {s : HSt} (h : Inv F s) :
    ∀ (p : List Nat) (v w : HVal), Live F s.heap.length v → follow s.heap v p = some w → Live F s.heap.length w := by
  intro p
  induction p with
  | nil => intro v w hv hf; simp only [follow, Option.some.injEq] at hf; exact hf ▸ hv
  | cons i p ih =>
    intro v w hv hf
    cases v with
    | none => simp [follow] at hf
    | int i => simp [follow] at hf
    | ref r =>
      obtain ⟨hlt, hF⟩ := hv r rfl
      have hg : s.heap[r]? = some s.heap[r] := List.getElem?_eq_getElem hlt
      simp only [follow, hg, Option.getD_some] at hf
      cases hit : (s.heap[r])[i]? with
      | none => simp [hit] at hf
      | some it =>
        simp only [hit] at hf
        exact ih it w (h.liveObj r _ hg hF it (List.mem_of_getElem? hit)) hf

theorem target_live {F : Nat → Prop} {s : HSt} (h : Inv F s) {a : Nat} {pa : List Nat} {r : Nat}
    (ht : target s a pa = some r) : r < s.heap.length ∧ ¬ F r := by
  unfold target at ht
  cases hf : follow s.heap (getH s.attrs a) pa with
  | none => simp [hf] at ht
  | some w =>
    cases w with
    | none => simp [hf] at ht
    | int i => simp [hf] at ht
    | ref r' =>
      simp only [hf, Option.some.injEq] at ht
      subst ht
      exact follow_live h pa _ _ (getH_live h a) hf r' rfl

/-- any in-place change of a live object that leaves it with live items keeps the invariant and is invisible from
    the stored entries, to every depth -/
theorem inv_set {F : Nat → Prop} {s : HSt} (h : Inv F s) (r : Nat) (o' : Obj) (hF : ¬ F r)
    (ho : ∀ it ∈ o', Live F s.heap.length it) :
    Inv F { s with heap := s.heap.set r o' } ∧
    ∀ d, s.col.map (read d (s.heap.set r o')) = s.col.map (read d s.heap) := by
  refine ⟨⟨?_, ?_, ?_, ?_, ?_⟩, ?_⟩
  · intro r1 o1 h1 hF1
    simp only [List.length_set]
    simp only [List.getElem?_set] at h1
    split at h1
    · split at h1
      · simp only [Option.some.injEq] at h1; subst h1; exact ho
      · cases h1
    · exact h.liveObj r1 o1 h1 hF1
  · intro r1 o1 h1 hF1
    simp only [List.length_set]
    simp only [List.getElem?_set] at h1
    split at h1
    · next e => subst e; exact absurd hF1 hF
    · exact h.frozObj r1 o1 h1 hF1
  · simpa only [List.length_set] using h.attrs
  · simpa only [List.length_set] using h.col
  · simpa only [List.length_set] using h.fresh
  · intro d
    apply List.map_congr_left
    intro v hv
    apply read_congr (F := F) _ h.frozObj d v (h.col v hv)
    intro r1 hF1 _
    have : r ≠ r1 := fun e => hF (e ▸ hF1)
    simp [this]

theorem live_mono {F : Nat → Prop} {n m : Nat} {v : HVal} (h : Live F n v) (hnm : n ≤ m) : Live F m v :=
  fun r e => ⟨Nat.lt_of_lt_of_le (h r e).1 hnm, (h r e).2⟩
theorem froz_mono {F : Nat → Prop} {n m : Nat} {v : HVal} (h : Froz F n v) (hnm : n ≤ m) : Froz F m v :=
  fun r e => ⟨Nat.lt_of_lt_of_le (h r e).1 hnm, (h r e).2⟩

/-- one step with `deepcopy`: the invariant is kept (the frozen set grows at a collect) and what the stored entries
    show, to every depth, is what they showed before, plus — for a collect — what the reporter shows now -/
theorem step_deep (F : Nat → Prop) (s : HSt) (op : HOp) (h : Inv F s) :
    ∃ F', Inv F' (applyH .deep s op) ∧
      ∀ d, (applyH .deep s op).col.map (read d (applyH .deep s op).heap) = s.col.map (read d s.heap) ++ seenOp d s op := by
  cases op with
  | setInt a i =>
    refine ⟨F, ⟨h.liveObj, h.frozObj, ?_, h.col, h.fresh⟩, by simp [applyH, seenOp]⟩
    intro kv hkv
    rcases mem_setKey hkv with rfl | hkv
    · exact live_int _ _ _
    · exact h.attrs kv hkv
  | setNew a xs =>
    have hsame : ∀ (r : Nat) (o : Obj), (s.heap ++ [xs.map HVal.int])[r]? = some o → s.heap[r]? = some o ∨ o = xs.map HVal.int := by
      intro r o ho
      by_cases hr : r < s.heap.length
      · left; rwa [List.getElem?_append_left hr] at ho
      · right
        rw [List.getElem?_append_right (by omega)] at ho
        have := List.mem_of_getElem? ho
        simpa using this
    have hnew : ∀ G : Nat → Prop, ∀ it ∈ xs.map HVal.int, ∀ r, it = .ref r → G r := by
      intro G it hit r e
      obtain ⟨x, _, rfl⟩ := List.mem_map.mp hit
      cases e
    refine ⟨F, ⟨?_, ?_, ?_, ?_, ?_⟩, ?_⟩
    · intro r o ho hF it hit
      rcases hsame r o ho with ho | rfl
      · exact live_mono (h.liveObj r o ho hF it hit) (by simp [applyH])
      · intro r' e; exact (hnew (fun _ => False) it hit r' e).elim
    · intro r o ho hF it hit
      rcases hsame r o ho with ho | rfl
      · exact froz_mono (h.frozObj r o ho hF it hit) (by simp [applyH])
      · intro r' e; exact (hnew (fun _ => False) it hit r' e).elim
    · intro kv hkv
      rcases mem_setKey hkv with rfl | hkv
      · intro r e
        simp only [HVal.ref.injEq] at e
        subst e
        refine ⟨by simp [applyH], fun hF => ?_⟩
        exact absurd hF (h.fresh _ (Nat.le_refl _))
      · exact live_mono (h.attrs kv hkv) (by simp [applyH])
    · intro v hv
      exact froz_mono (h.col v hv) (by simp [applyH])
    · intro r hr
      exact h.fresh r (by simp [applyH] at hr; omega)
    · intro d
      simp only [applyH, seenOp, List.append_nil]
      apply List.map_congr_left
      intro v hv
      apply read_congr (F := F) _ h.frozObj d v (h.col v hv)
      intro r _ hr
      exact List.getElem?_append_left hr
  | bind a b pb =>
    simp only [applyH]
    cases hf : follow s.heap (getH s.attrs b) pb with
    | none => exact ⟨F, h, by simp [seenOp]⟩
    | some v =>
      refine ⟨F, ⟨h.liveObj, h.frozObj, ?_, h.col, h.fresh⟩, by simp [seenOp]⟩
      intro kv hkv
      rcases mem_setKey hkv with rfl | hkv
      · exact follow_live h pb _ _ (getH_live h b) hf
      · exact h.attrs kv hkv
  | app a pa x =>
    simp only [applyH]
    cases ht : target s a pa with
    | none => exact ⟨F, h, by simp [seenOp]⟩
    | some r =>
      obtain ⟨hlt, hF⟩ := target_live h ht
      have hg : s.heap[r]? = some s.heap[r] := List.getElem?_eq_getElem hlt
      obtain ⟨hi, hc⟩ := inv_set h r (s.heap[r]?.getD [] ++ [.int x]) hF (by
        intro it hit
        simp only [hg, Option.getD_some, List.mem_append, List.mem_singleton] at hit
        rcases hit with hit | rfl
        · exact h.liveObj r _ hg hF it hit
        · exact live_int _ _ _)
      exact ⟨F, hi, fun d => by simpa [seenOp] using hc d⟩
  | appRef a pa b pb =>
    simp only [applyH]
    cases ht : target s a pa with
    | none => exact ⟨F, h, by simp [seenOp]⟩
    | some r =>
      cases hf : follow s.heap (getH s.attrs b) pb with
      | none => exact ⟨F, h, by simp [seenOp]⟩
      | some v =>
        obtain ⟨hlt, hF⟩ := target_live h ht
        have hg : s.heap[r]? = some s.heap[r] := List.getElem?_eq_getElem hlt
        obtain ⟨hi, hc⟩ := inv_set h r (s.heap[r]?.getD [] ++ [v]) hF (by
          intro it hit
          simp only [hg, Option.getD_some, List.mem_append, List.mem_singleton] at hit
          rcases hit with hit | rfl
          · exact h.liveObj r _ hg hF it hit
          · exact follow_live h pb _ _ (getH_live h b) hf)
        exact ⟨F, hi, fun d => by simpa [seenOp] using hc d⟩
  | pop a pa =>
    simp only [applyH]
    cases ht : target s a pa with
    | none => exact ⟨F, h, by simp [seenOp]⟩
    | some r =>
      obtain ⟨hlt, hF⟩ := target_live h ht
      have hg : s.heap[r]? = some s.heap[r] := List.getElem?_eq_getElem hlt
      obtain ⟨hi, hc⟩ := inv_set h r (s.heap[r]?.getD []).dropLast hF (by
        intro it hit
        simp only [hg, Option.getD_some] at hit
        exact h.liveObj r _ hg hF it (List.dropLast_subset _ hit))
      exact ⟨F, hi, fun d => by simpa [seenOp] using hc d⟩
  | collect a =>
    have hl := getH_live h a
    cases hg : getH s.attrs a with
    | none =>
      have e : applyH .deep s (.collect a) = { s with col := s.col ++ [.none] } := by simp [applyH, copyVal, hg]
      rw [e]
      refine ⟨F, ⟨h.liveObj, h.frozObj, h.attrs, ?_, h.fresh⟩, by simp [hg, seenOp, read]⟩
      intro v hv
      simp only [List.mem_append, List.mem_singleton] at hv
      rcases hv with hv | rfl
      · exact h.col v hv
      · intro r e; cases e
    | int i =>
      have e : applyH .deep s (.collect a) = { s with col := s.col ++ [.int i] } := by simp [applyH, copyVal, hg]
      rw [e]
      refine ⟨F, ⟨h.liveObj, h.frozObj, h.attrs, ?_, h.fresh⟩, by simp [hg, seenOp, read]⟩
      intro v hv
      simp only [List.mem_append, List.mem_singleton] at hv
      rcases hv with hv | rfl
      · exact h.col v hv
      · intro r e; cases e
    | ref r0 =>
      rw [hg] at hl
      obtain ⟨hlt0, hF0⟩ := hl r0 rfl
      have hcl := closed_of_inv h
      -- the new heap, and what it holds at each address
      have hlow : ∀ r, r < s.heap.length →
          (s.heap ++ s.heap.map (·.map (shiftVal s.heap.length)))[r]? = s.heap[r]? :=
        fun r hr => List.getElem?_append_left hr
      have hhigh : ∀ r o, s.heap.length ≤ r →
          (s.heap ++ s.heap.map (·.map (shiftVal s.heap.length)))[r]? = some o →
          ∃ o0, s.heap[r - s.heap.length]? = some o0 ∧ o = o0.map (shiftVal s.heap.length) := by
        intro r o hr ho
        rw [List.getElem?_append_right hr, List.getElem?_map] at ho
        cases ho0 : s.heap[r - s.heap.length]? with
        | none => simp [ho0] at ho
        | some o0 => exact ⟨o0, rfl, by simpa [ho0] using ho.symm⟩
      refine ⟨fun r => F r ∨ (s.heap.length ≤ r ∧ r < s.heap.length + s.heap.length), ⟨?_, ?_, ?_, ?_, ?_⟩, ?_⟩
      · intro r o ho hF it hit r' e
        simp only [applyH, copyVal, hg, List.length_append, List.length_map] at ho ⊢
        have hr : r < s.heap.length := by
          have := (List.getElem?_eq_some_iff.mp ho).1
          simp only [List.length_append, List.length_map] at this
          omega
        rw [hlow r hr] at ho
        have := h.liveObj r o ho (fun x => hF (Or.inl x)) it hit r' e
        exact ⟨by omega, fun x => x.elim this.2 (by omega)⟩
      · intro r o ho hF it hit r' e
        simp only [applyH, copyVal, hg, List.length_append, List.length_map] at ho ⊢
        by_cases hr : r < s.heap.length
        · rw [hlow r hr] at ho
          have hF' : F r := hF.elim id (by omega)
          have := h.frozObj r o ho hF' it hit r' e
          exact ⟨by omega, Or.inl this.2⟩
        · obtain ⟨o0, ho0, rfl⟩ := hhigh r o (by omega) ho
          obtain ⟨it0, hit0, rfl⟩ := List.mem_map.mp hit
          cases it0 with
          | none => cases e
          | int i => cases e
          | ref r0' =>
            simp only [shiftVal, HVal.ref.injEq] at e
            subst e
            have := hcl _ o0 ho0 _ hit0 r0' rfl
            exact ⟨by omega, Or.inr ⟨by omega, by omega⟩⟩
      · intro kv hkv r e
        simp only [applyH, copyVal, hg, List.length_append, List.length_map]
        have := h.attrs kv hkv r e
        exact ⟨by omega, fun x => x.elim this.2 (by omega)⟩
      · intro v hv r e
        simp only [applyH, copyVal, hg, List.length_append, List.length_map, List.mem_append, List.mem_singleton] at hv ⊢
        rcases hv with hv | rfl
        · have := h.col v hv r e
          exact ⟨by omega, Or.inl this.2⟩
        · simp only [HVal.ref.injEq] at e
          subst e
          exact ⟨by omega, Or.inr ⟨by omega, by omega⟩⟩
      · intro r hr x
        simp only [applyH, copyVal, hg, List.length_append, List.length_map] at hr
        exact x.elim (h.fresh r (by omega)) (by omega)
      · intro d
        simp only [applyH, copyVal, hg, seenOp, List.map_append, List.map_cons, List.map_nil]
        congr 1
        · apply List.map_congr_left
          intro v hv
          exact read_congr (F := F) (fun r _ hr => hlow r hr) h.frozObj d v (h.col v hv)
        · have := read_shift s.heap hcl d (.ref r0) (by intro r e; cases e; exact hlt0)
          simpa [shiftVal] using this

theorem seen_eq (c : Copy) (d : Nat) (s : HSt) (op : HOp) (ops : List HOp) :
    seen c d s (op :: ops) = seenOp d s op ++ seen c d (applyH c s op) ops := by
  cases op <;> rfl

theorem run_deep (F : Nat → Prop) (s : HSt) (ops : List HOp) (h : Inv F s) (d : Nat) :
    (runH .deep s ops).col.map (read d (runH .deep s ops).heap) = s.col.map (read d s.heap) ++ seen .deep d s ops := by
  induction ops generalizing s F with
  | nil => simp [runH, seen]
  | cons op ops ih =>
    obtain ⟨F', hi, hc⟩ := step_deep F s op h
    have := ih F' (applyH .deep s op) hi
    simp only [runH, List.foldl_cons] at this ⊢
    rw [this, hc d, seen_eq, List.append_assoc]

theorem inv_empty : Inv (fun _ => False) empty :=
  ⟨by simp [empty], by simp [empty], by simp [empty], by simp [empty], by simp⟩

end Mesa.CollectHeap
