import MesaModel.Proofs.ContArith
/-! Helper lemmas for the legacy `ContinuousSpace` model (cache coherence, refinement to the spec). -/
namespace Mesa.Cont

/-! ### `collect` -/

theorem collect_map_some {α : Type} (l : List α) : collect (l.map some) = some l := by
  induction l with
  | nil => rfl
  | cons x xs ih => simp [collect, ih]

theorem collect_eq_some {α : Type} {l : List (Option α)} {r : List α} (h : collect l = some r) :
    l = r.map some := by
  induction l generalizing r with
  | nil => simp [collect] at h; subst h; rfl
  | cons x xs ih =>
    cases x with
    | none => simp [collect] at h
    | some x =>
      simp only [collect, Option.map_eq_some_iff] at h
      obtain ⟨r', hr', rfl⟩ := h
      simp [ih hr']

theorem collect_eq_none {α : Type} {l : List (Option α)} (h : collect l = none) : none ∈ l := by
  induction l with
  | nil => simp [collect] at h
  | cons x xs ih =>
    cases x with
    | none => simp
    | some x =>
      simp only [collect, Option.map_eq_none_iff] at h
      simp [ih h]

/-! ### the dict -/

theorem Dict.keys_set (d : Dict) (a : Aid) (v : Option Nat) :
    (d.set a v).keys = if a ∈ d.keys then d.keys else d.keys ++ [a] := by
  unfold Dict.set
  by_cases h : a ∈ d.keys
  · simp only [List.contains_eq_mem, h, decide_true, if_true]
    unfold Dict.keys
    rw [List.map_map]
    apply List.map_congr_left
    intro kv _
    by_cases hk : kv.1 = a <;> simp [hk]
  · simp only [List.contains_eq_mem, h, decide_false, if_false]
    simp [Dict.keys]

theorem Dict.keys_del (d : Dict) (a : Aid) : (d.del a).keys = d.keys.filter (fun k => k ≠ a) := by
  unfold Dict.del Dict.keys
  rw [List.filter_map]; rfl

/-- the enumeration `_build_agent_cache` writes into `_agent_to_index` -/
def enumDict (ks : List Aid) (k0 : Nat) : Dict := (ks.zipIdx k0).map (fun ai => (ai.1, some ai.2))

theorem enumDict_keys (ks : List Aid) (k0 : Nat) : (enumDict ks k0).keys = ks := by
  induction ks generalizing k0 with
  | nil => rfl
  | cons k ks ih =>
    have := ih (k0 + 1)
    simp only [enumDict, Dict.keys, List.zipIdx_cons, List.map_cons] at this ⊢
    rw [this]

theorem enumDict_get (ks : List Aid) (k0 : Nat) (a : Aid) :
    (a ∉ ks ∧ (enumDict ks k0).get? a = none) ∨
    (∃ j, ks[j]? = some a ∧ (enumDict ks k0).get? a = some (some (k0 + j))) := by
  induction ks generalizing k0 with
  | nil => left; simp [enumDict, Dict.get?]
  | cons k ks ih =>
    by_cases h : a = k
    · right; refine ⟨0, by simp [h], ?_⟩
      simp [enumDict, Dict.get?, List.zipIdx_cons, h]
    · have hb : (a == k) = false := by simp [h]
      rcases ih (k0 + 1) with ⟨h1, h2⟩ | ⟨j, h1, h2⟩
      · left; refine ⟨by simp [h, h1], ?_⟩
        simp only [enumDict, Dict.get?, List.zipIdx_cons, List.map_cons, List.lookup_cons, hb] at h2 ⊢
        exact h2
      · right; refine ⟨j + 1, by simpa using h1, ?_⟩
        simp only [enumDict, Dict.get?, List.zipIdx_cons, List.map_cons, List.lookup_cons, hb] at h2 ⊢
        rw [h2]; congr 2; omega

/-! ### the invariant: index maps and position cache agree with `agent.pos` -/

structure LInv (s : LSpace) : Prop where
  nodup : s.a2i.keys.Nodup
  haspos : ∀ a ∈ s.a2i.keys, ∃ p, s.pos a = some p
  cache : ∀ pts, s.pts = some pts →
    s.i2a = s.a2i.keys ∧ s.a2i = enumDict s.a2i.keys 0 ∧ s.a2i.keys.map s.pos = pts.map some

theorem linv_init (c : LCfg) : LInv (linit c) :=
  ⟨by simp [linit, Dict.keys], by simp [linit, Dict.keys], by simp [linit]⟩

theorem place_ok {s s' : LSpace} {a : Aid} {p : P2} (h : place s a p = .ok s') :
    ∃ p', torusAdj s.cfg p = .ok p' ∧ s'.cfg = s.cfg ∧ s'.pts = none ∧
      s'.a2i.keys = (if a ∈ s.a2i.keys then s.a2i.keys else s.a2i.keys ++ [a]) ∧
      s'.pos = upd s.pos a (some p') := by
  unfold place at h
  split at h
  · simp at h
  · rename_i p' hp
    simp only [Except.ok.injEq] at h
    subst h
    exact ⟨p', hp, rfl, rfl, by simp [invalidate, Dict.keys_set], rfl⟩

theorem linv_place {s s' : LSpace} {a : Aid} {p : P2} (hi : LInv s) (h : place s a p = .ok s') :
    LInv s' := by
  obtain ⟨p', _, _, hpts, hk, hpos⟩ := place_ok h
  refine ⟨?_, ?_, ?_⟩
  · rw [hk]; split
    · exact hi.nodup
    · rename_i hn
      exact List.nodup_append.mpr ⟨hi.nodup, by simp, by simpa using fun x hx => by rintro rfl; exact hn hx⟩
  · intro b hb
    rw [hpos]; unfold upd
    by_cases hba : b = a
    · simp [hba]
    · simp only [hba, if_false]
      apply hi.haspos
      rw [hk] at hb; split at hb
      · exact hb
      · simpa [hba] using hb
  · intro pts hp; rw [hpts] at hp; cases hp

theorem remove_ok {s s' : LSpace} {a : Aid} (h : remove s a = .ok s') :
    a ∈ s.a2i.keys ∧ s'.cfg = s.cfg ∧ s'.pts = none ∧
      s'.a2i.keys = s.a2i.keys.filter (fun k => k ≠ a) ∧ s'.pos = upd s.pos a none := by
  unfold remove at h
  split at h
  · simp at h
  · rename_i hc
    simp only [Except.ok.injEq] at h
    subst h
    exact ⟨by simpa using hc, rfl, rfl, by simp [invalidate, Dict.keys_del], rfl⟩

theorem linv_remove {s s' : LSpace} {a : Aid} (hi : LInv s) (h : remove s a = .ok s') : LInv s' := by
  obtain ⟨_, _, hpts, hk, hpos⟩ := remove_ok h
  refine ⟨?_, ?_, ?_⟩
  · rw [hk]; exact hi.nodup.filter _
  · intro b hb
    rw [hk] at hb
    have ⟨hb1, hb2⟩ := List.mem_filter.mp hb
    have hba : b ≠ a := by simpa using hb2
    rw [hpos]; simp only [upd, hba, if_false]
    exact hi.haspos b hb1
  · intro pts hp; rw [hpts] at hp; cases hp

theorem nodup_idx_inj {α : Type} {l : List α} (h : l.Nodup) {i j : Nat} {a : α}
    (h1 : l[i]? = some a) (h2 : l[j]? = some a) : i = j := by
  obtain ⟨hi, e1⟩ := List.getElem?_eq_some_iff.mp h1
  obtain ⟨hj, e2⟩ := List.getElem?_eq_some_iff.mp h2
  exact (List.getElem_inj h).mp (e1.trans e2.symm)

theorem map_upd_of_not_mem {β : Type} (ks : List Aid) (f : Nat → β) (a : Aid) (v : β) (h : a ∉ ks) :
    ks.map (upd f a v) = ks.map f := by
  apply List.map_congr_left
  intro b hb
  have : b ≠ a := by rintro rfl; exact h hb
  simp [upd, this]

theorem map_upd_set (ks : List Aid) (f : Nat → Option P2) (pts : List P2) (a : Aid) (j : Nat) (v : P2)
    (hn : ks.Nodup) (hj : ks[j]? = some a) (hm : ks.map f = pts.map some) :
    ks.map (upd f a (some v)) = (pts.set j v).map some := by
  have hlen : ks.length = pts.length := by simpa using congrArg List.length hm
  apply List.ext_getElem?
  intro i
  have hi := congrArg (fun l => l[i]?) hm
  simp only [List.getElem?_map] at hi
  simp only [List.getElem?_map, List.getElem?_set]
  by_cases hij : j = i
  · subst hij
    have hjl : j < ks.length := by
      rcases Nat.lt_or_ge j ks.length with h | h
      · exact h
      · rw [List.getElem?_eq_none h] at hj; cases hj
    simp [hj, upd, hlen ▸ hjl]
  · simp only [hij, if_false]
    rw [← hi]
    cases hk : ks[i]? with
    | none => rfl
    | some b =>
      have hba : b ≠ a := by
        rintro rfl
        exact hij (nodup_idx_inj hn hj hk)
      simp [upd, hba]

/-- what `move_agent` does on a coherent state -/
theorem move_spec {s : LSpace} (hi : LInv s) (a : Aid) (p : P2) :
    (∃ e, torusAdj s.cfg p = .error e ∧ move s a p = (s, .error e)) ∨
    (∃ p', torusAdj s.cfg p = .ok p' ∧ (move s a p).1.cfg = s.cfg ∧
      (move s a p).1.pos = upd s.pos a (some p') ∧ (move s a p).1.a2i = s.a2i ∧ LInv (move s a p).1 ∧
      ((move s a p).2 = .ok () ∨ ((move s a p).2 = .error .key ∧ a ∉ s.a2i.keys))) := by
  cases hp : torusAdj s.cfg p with
  | error e => left; exact ⟨e, rfl, by simp [move, hp]⟩
  | ok p' =>
    right
    refine ⟨p', rfl, ?_⟩
    cases hpts : s.pts with
    | none =>
      have hm : move s a p = ({ s with pos := upd s.pos a (some p') }, .ok ()) := by
        simp [move, hp, hpts]
      rw [hm]
      refine ⟨rfl, rfl, rfl, ⟨hi.nodup, ?_, ?_⟩, Or.inl rfl⟩
      · intro b hb
        by_cases hba : b = a
        · simp [upd, hba]
        · simpa [upd, hba] using hi.haspos b hb
      · intro pts hq; simp [hpts] at hq
    | some pts =>
      obtain ⟨h1, h2, h3⟩ := hi.cache pts hpts
      have hlen : s.a2i.keys.length = pts.length := by simpa using congrArg List.length h3
      have hhas : ∀ b ∈ s.a2i.keys, ∃ q, upd s.pos a (some p') b = some q := by
        intro b hb
        by_cases hba : b = a
        · simp [upd, hba]
        · simpa [upd, hba] using hi.haspos b hb
      rcases enumDict_get s.a2i.keys 0 a with ⟨hna, hg⟩ | ⟨j, hj, hg⟩
      · rw [← h2] at hg
        have hm : move s a p = ({ s with pos := upd s.pos a (some p') }, .error .key) := by
          simp [move, hp, hpts, hg]
        rw [hm]
        refine ⟨rfl, rfl, rfl, ⟨hi.nodup, hhas, ?_⟩, Or.inr ⟨rfl, hna⟩⟩
        intro q hq
        have hq' : pts = q := by simpa [hpts] using hq
        subst hq'
        exact ⟨h1, h2, by rw [map_upd_of_not_mem _ _ _ _ hna]; exact h3⟩
      · rw [← h2] at hg
        have hjl : j < pts.length := by
          rw [← hlen]; exact (List.getElem?_eq_some_iff.mp hj).1
        have hm : move s a p =
            ({ s with pos := upd s.pos a (some p'), pts := some (pts.set j p') }, .ok ()) := by
          simp [move, hp, hpts, hg, hjl]
        rw [hm]
        refine ⟨rfl, rfl, rfl, ⟨hi.nodup, hhas, ?_⟩, Or.inl rfl⟩
        intro q hq
        have hq' : pts.set j p' = q := by simpa using hq
        subst hq'
        exact ⟨h1, h2, map_upd_set _ _ _ _ _ _ hi.nodup hj h3⟩

theorem enumDict_get_none (ks : List Aid) (a : Aid) (h : a ∉ ks) : (enumDict ks 0).get? a = none := by
  rcases enumDict_get ks 0 a with ⟨_, h2⟩ | ⟨j, h1, _⟩
  · exact h2
  · exact absurd (List.mem_of_getElem? h1) h

/-- `move_agent` of an agent that is not in the space: nothing of the space is touched, the agent object's
    `pos` is written, and the call raises `KeyError` exactly when the position cache exists -/
theorem move_foreign {s : LSpace} (hi : LInv s) (a : Aid) (p : P2) (ha : a ∉ s.agents) :
    (∀ e, torusAdj s.cfg p = .error e → move s a p = (s, .error e)) ∧
    (∀ p', torusAdj s.cfg p = .ok p' →
      move s a p = ({ s with pos := upd s.pos a (some p') },
        if s.pts.isSome then .error .key else .ok ())) := by
  refine ⟨fun e he => by simp [move, he], fun p' hp => ?_⟩
  cases hpts : s.pts with
  | none => simp [move, hp, hpts]
  | some pts =>
    obtain ⟨_, h2, _⟩ := hi.cache pts hpts
    have hg : s.a2i.get? a = none := by rw [h2]; exact enumDict_get_none _ _ ha
    simp [move, hp, hpts, hg]

/-! ### the cache and `get_neighbors` -/

theorem collect_map_of_all_some {α β : Type} (l : List α) (f : α → Option β)
    (h : ∀ x ∈ l, ∃ y, f x = some y) : ∃ r, collect (l.map f) = some r ∧ l.map f = r.map some := by
  induction l with
  | nil => exact ⟨[], rfl, rfl⟩
  | cons x xs ih =>
    obtain ⟨y, hy⟩ := h x (by simp)
    obtain ⟨r, h1, h2⟩ := ih (fun z hz => h z (by simp [hz]))
    exact ⟨y :: r, by simp [collect, hy, h1], by simp [hy, h2]⟩

theorem ensureCache_spec {s : LSpace} (hi : LInv s) :
    ∃ s1 pts, ensureCache s = .ok (s1, pts) ∧ s1.pts = some pts ∧ s1.cfg = s.cfg ∧ s1.pos = s.pos ∧
      s1.a2i.keys = s.a2i.keys ∧ LInv s1 ∧ s1.i2a = s.a2i.keys ∧ s.a2i.keys.map s.pos = pts.map some := by
  cases hpts : s.pts with
  | some pts =>
    obtain ⟨h1, _, h3⟩ := hi.cache pts hpts
    exact ⟨s, pts, by simp [ensureCache, hpts], hpts, rfl, rfl, rfl, hi, h1, h3⟩
  | none =>
    obtain ⟨pts, hc, hm⟩ := collect_map_of_all_some s.a2i.keys s.pos hi.haspos
    have hk : (enumDict s.a2i.keys 0).keys = s.a2i.keys := enumDict_keys _ _
    refine ⟨{ s with a2i := enumDict s.a2i.keys 0, i2a := s.a2i.keys, pts := some pts }, pts,
      by simp [ensureCache, hpts, hc, enumDict], rfl, rfl, rfl, hk, ⟨?_, ?_, ?_⟩, rfl, hm⟩
    · show (enumDict s.a2i.keys 0).keys.Nodup
      rw [hk]; exact hi.nodup
    · show ∀ a ∈ (enumDict s.a2i.keys 0).keys, _
      rw [hk]; exact hi.haspos
    · intro q hq
      have hq' : pts = q := by simpa using hq
      subst hq'
      show s.a2i.keys = (enumDict s.a2i.keys 0).keys ∧ enumDict s.a2i.keys 0 = enumDict (enumDict s.a2i.keys 0).keys 0 ∧
        (enumDict s.a2i.keys 0).keys.map s.pos = pts.map some
      rw [hk]; exact ⟨rfl, rfl, hm⟩

theorem hits_collect (d : List Int) (g : Int → Bool) (i2a pre : List Aid) (hlen : d.length = i2a.length) :
    collect (((d.zipIdx pre.length).filter (fun di => g di.1)).map (fun di => (pre ++ i2a)[di.2]?)) =
      some (((i2a.zip d).filter (fun ad => g ad.2)).map (·.1)) := by
  induction d generalizing i2a pre with
  | nil => simp [collect]
  | cons x d ih =>
    cases i2a with
    | nil => simp at hlen
    | cons a i2a =>
      have hl : d.length = i2a.length := by simpa using hlen
      have ih' := ih i2a (pre ++ [a]) hl
      simp only [List.length_append, List.length_cons, List.length_nil, Nat.zero_add,
        List.append_assoc, List.cons_append, List.nil_append] at ih'
      simp only [List.zipIdx_cons, List.zip_cons_cons, List.filter_cons]
      by_cases hg : g x = true
      · simp only [hg, if_true, List.map_cons]
        have : (pre ++ a :: i2a)[pre.length]? = some a := by simp
        rw [this]
        simp only [collect, ih', Option.map_some]
      · simp only [hg, Bool.false_eq_true, if_false]
        exact ih'

/-- the agents `get_neighbors` must return, written with `agent.pos` directly -/
def nbrSpec (c : LCfg) (ks : List Aid) (pos : Aid → Option P2) (p : P2) (r : Int) (incl : Bool) : List Aid :=
  ks.filter (fun a => match pos a with
    | some q => decide (ldist2 c q p ≤ r * r) && (incl || decide (ldist2 c q p > 0))
    | none => false)

theorem zip_filter_spec (ks : List Aid) (pos : Aid → Option P2) (pts : List P2) (f : P2 → Int) (g : Int → Bool)
    (hm : ks.map pos = pts.map some) :
    ((ks.zip (pts.map f)).filter (fun ad => g ad.2)).map (·.1) =
      ks.filter (fun a => match pos a with | some q => g (f q) | none => false) := by
  induction ks generalizing pts with
  | nil => simp
  | cons k ks ih =>
    cases pts with
    | nil => simp at hm
    | cons q pts =>
      simp only [List.map_cons, List.cons.injEq] at hm
      obtain ⟨h1, h2⟩ := hm
      simp only [List.map_cons, List.zip_cons_cons, List.filter_cons, h1]
      by_cases hg : g (f q) = true
      · simp [hg, ih pts h2]
      · simp [hg, ih pts h2]

theorem getNeighbors_spec {s : LSpace} (hi : LInv s) (p : P2) (r : Int) (incl : Bool) :
    ∃ s1, getNeighbors s p r incl = (s1, .ok (nbrSpec s.cfg s.a2i.keys s.pos p r incl)) ∧ LInv s1 ∧
      s1.cfg = s.cfg ∧ s1.pos = s.pos ∧ s1.a2i.keys = s.a2i.keys := by
  obtain ⟨s1, pts, he, _, hc, hpos, hk, hi1, hi2a, hm⟩ := ensureCache_spec hi
  refine ⟨s1, ?_, hi1, hc, hpos, hk⟩
  have hlen : (pts.map (fun q => ldist2 s.cfg q p)).length = s.a2i.keys.length := by
    have := congrArg List.length hm; simp at this; simp [this]
  have hh := hits_collect (pts.map (fun q => ldist2 s.cfg q p))
    (fun d => decide (d ≤ r * r) && (incl || decide (d > 0))) s.a2i.keys [] hlen
  simp only [List.length_nil, List.nil_append] at hh
  have hz := zip_filter_spec s.a2i.keys s.pos pts (fun q => ldist2 s.cfg q p)
    (fun d => decide (d ≤ r * r) && (incl || decide (d > 0))) hm
  simp only [getNeighbors, he, hi2a]
  rw [hh, hz]; rfl

/-! ### histories: the model refines the property's own description -/

/-- The property's description of one call: who is in the space (in order of first placement) and
    the position last assigned to every agent object.  No cache, no index maps. -/
def lspecStep (c : LCfg) (st : List Aid × (Aid → Option P2)) : LOp → List Aid × (Aid → Option P2)
  | .place a p =>
    match torusAdj c p with
    | .ok p' => (if a ∈ st.1 then st.1 else st.1 ++ [a], upd st.2 a (some p'))
    | .error _ => st
  | .move a p =>
    match torusAdj c p with
    | .ok p' => (st.1, upd st.2 a (some p'))
    | .error _ => st
  | .remove a => if a ∈ st.1 then (st.1.filter (fun k => k ≠ a), upd st.2 a none) else st
  | .nbrs _ _ _ => st

def lspec (c : LCfg) (ops : List LOp) : List Aid × (Aid → Option P2) :=
  ops.foldl (lspecStep c) ([], fun _ => none)

structure LRef (c : LCfg) (s : LSpace) (st : List Aid × (Aid → Option P2)) : Prop where
  inv : LInv s
  cfg : s.cfg = c
  keys : s.a2i.keys = st.1
  pos : s.pos = st.2

theorem lstep_refines {c : LCfg} {s : LSpace} {st : List Aid × (Aid → Option P2)} (h : LRef c s st)
    (op : LOp) : LRef c (lstep s op) (lspecStep c st op) := by
  obtain ⟨hi, hc, hk, hp⟩ := h
  cases op with
  | place a p =>
    simp only [lstep, lspecStep]
    cases hpl : place s a p with
    | error e =>
      have : torusAdj c p = .error e := by
        unfold place at hpl; rw [hc] at hpl
        split at hpl
        · rename_i e' he; simp at hpl; rw [he, hpl]
        · simp at hpl
      simp only [this]
      exact ⟨hi, hc, hk, hp⟩
    | ok s' =>
      obtain ⟨p', h1, h2, _, h4, h5⟩ := place_ok hpl
      rw [hc] at h1
      simp only [h1]
      exact ⟨linv_place hi hpl, h2.trans hc, by rw [h4, hk], by rw [h5, hp]⟩
  | move a p =>
    simp only [lstep, lspecStep]
    rcases move_spec hi a p with ⟨e, h1, h2⟩ | ⟨p', h1, h2, h3, h4, h5, _⟩
    · rw [hc] at h1; simp only [h1, h2]; exact ⟨hi, hc, hk, hp⟩
    · rw [hc] at h1; simp only [h1]
      exact ⟨h5, h2.trans hc, by rw [h4, hk], by rw [h3, hp]⟩
  | remove a =>
    simp only [lstep, lspecStep]
    cases hr : remove s a with
    | error e =>
      have : a ∉ st.1 := by
        rw [← hk]
        unfold remove at hr
        split at hr
        · rename_i hh; simpa using hh
        · simp at hr
      simp only [this, if_false]
      exact ⟨hi, hc, hk, hp⟩
    | ok s' =>
      obtain ⟨h1, h2, _, h4, h5⟩ := remove_ok hr
      rw [hk] at h1
      simp only [h1, if_true]
      exact ⟨linv_remove hi hr, h2.trans hc, by rw [h4, hk], by rw [h5, hp]⟩
  | nbrs p r incl =>
    simp only [lstep, lspecStep]
    obtain ⟨s1, h1, h2, h3, h4, h5⟩ := getNeighbors_spec hi p r incl
    rw [h1]
    exact ⟨h2, h3.trans hc, h5.trans hk, h4.trans hp⟩

theorem lfold_refines {c : LCfg} (ops : List LOp) {s : LSpace} {st : List Aid × (Aid → Option P2)}
    (h : LRef c s st) : LRef c (ops.foldl lstep s) (ops.foldl (lspecStep c) st) := by
  induction ops generalizing s st with
  | nil => exact h
  | cons op ops ih => exact ih (lstep_refines h op)

theorem lrun_refines (c : LCfg) (ops : List LOp) : LRef c (lrun c ops) (lspec c ops) :=
  lfold_refines ops ⟨linv_init c, rfl, rfl, rfl⟩

/-! ### bounds -/

def LCfg.WF (c : LCfg) : Prop := c.xmin < c.xmax ∧ c.ymin < c.ymax

theorem torusAdj_inside (c : LCfg) (p : P2) (h : oob c p = false) : torusAdj c p = .ok p := by
  simp [torusAdj, h]

theorem torusAdj_reject (c : LCfg) (p : P2) (h : oob c p = true) (ht : c.torus = false) :
    torusAdj c p = .error .oob := by
  simp [torusAdj, h, ht]

theorem torusAdj_wrap (c : LCfg) (hw : c.WF) (p : P2) (h : oob c p = true) (ht : c.torus = true) :
    ∃ p', torusAdj c p = .ok p' ∧ oob c p' = false ∧
      ∃ kx ky : Int, p' = (p.1 + kx * c.width, p.2 + ky * c.height) := by
  refine ⟨_, by simp [torusAdj, h, ht]; rfl, ?_, ?_⟩
  · have hx := wrap_bounds c.xmin c.width p.1 (by unfold LCfg.width; have := hw.1; omega)
    have hy := wrap_bounds c.ymin c.height p.2 (by unfold LCfg.height; have := hw.2; omega)
    simp only [oob, Bool.or_eq_false_iff, decide_eq_false_iff_not]
    unfold LCfg.width at hx; unfold LCfg.height at hy
    refine ⟨⟨⟨?_, ?_⟩, ?_⟩, ?_⟩ <;> simp only [LCfg.width, LCfg.height] <;> omega
  · obtain ⟨kx, hx⟩ := wrap_congr c.xmin c.width p.1
    obtain ⟨ky, hy⟩ := wrap_congr c.ymin c.height p.2
    exact ⟨kx, ky, by rw [hx, hy]⟩

theorem torusAdj_ok_inside (c : LCfg) (hw : c.WF) {p p' : P2} (h : torusAdj c p = .ok p') : oob c p' = false := by
  cases ho : oob c p with
  | false => rw [torusAdj_inside c p ho] at h; cases h; exact ho
  | true =>
    cases ht : c.torus with
    | false => rw [torusAdj_reject c p ho ht] at h; cases h
    | true =>
      obtain ⟨q, h1, h2, _⟩ := torusAdj_wrap c hw p ho ht
      rw [h1] at h; cases h; exact h2

/-- every agent in the space has a position, and it lies in the space -/
theorem lspec_inside (c : LCfg) (hw : c.WF) (ops : List LOp) :
    ∀ a ∈ (lspec c ops).1, ∃ p, (lspec c ops).2 a = some p ∧ oob c p = false := by
  suffices H : ∀ (ops : List LOp) (st : List Aid × (Aid → Option P2)),
      (∀ a ∈ st.1, ∃ p, st.2 a = some p ∧ oob c p = false) →
      ∀ a ∈ (ops.foldl (lspecStep c) st).1, ∃ p, (ops.foldl (lspecStep c) st).2 a = some p ∧ oob c p = false from
    H ops _ (by simp)
  intro ops
  induction ops with
  | nil => intro st h; exact h
  | cons op ops ih =>
    intro st h
    apply ih
    cases op with
    | place a p =>
      simp only [lspecStep]
      cases hp : torusAdj c p with
      | error e => exact h
      | ok p' =>
        intro b hb
        by_cases hba : b = a
        · exact ⟨p', by simp [upd, hba], torusAdj_ok_inside c hw hp⟩
        · simp only [upd, hba, if_false]
          apply h
          simp only at hb
          split at hb
          · exact hb
          · simpa [hba] using hb
    | move a p =>
      simp only [lspecStep]
      cases hp : torusAdj c p with
      | error e => exact h
      | ok p' =>
        intro b hb
        by_cases hba : b = a
        · exact ⟨p', by simp [upd, hba], torusAdj_ok_inside c hw hp⟩
        · simp only [upd, hba, if_false]; exact h b hb
    | remove a =>
      simp only [lspecStep]
      split
      · intro b hb
        have ⟨hb1, hb2⟩ := List.mem_filter.mp hb
        have hba : b ≠ a := by simpa using hb2
        simp only [upd, hba, if_false]; exact h b hb1
      · exact h
    | nbrs p r incl => exact h

/-- two points of the space `[min, max)` are at distance 0 iff they are the same point (torus or not) -/
theorem ldist2_eq_zero_iff (c : LCfg) (hw : c.WF) (p q : P2) (hp : oob c p = false) (hq : oob c q = false) :
    ldist2 c p q = 0 ↔ p = q := by
  simp only [oob, Bool.or_eq_false_iff, decide_eq_false_iff_not] at hp hq
  have hx := axisDist_eq_zero_iff c.torus c.width p.1 q.1 (by have := hw.1; unfold LCfg.width; omega)
  have hy := axisDist_eq_zero_iff c.torus c.height p.2 q.2 (by have := hw.2; unfold LCfg.height; omega)
  have nx := sq_nonneg (axisDist c.torus c.width p.1 q.1)
  have ny := sq_nonneg (axisDist c.torus c.height p.2 q.2)
  unfold ldist2
  constructor
  · intro h
    have h1 : axisDist c.torus c.width p.1 q.1 = 0 := sq_eq_zero (by omega)
    have h2 : axisDist c.torus c.height p.2 q.2 = 0 := sq_eq_zero (by omega)
    have e1 : p.1 = q.1 := by
      rcases hx.mp h1 with e | ⟨_, e⟩
      · exact e
      · have hlt : iabs (p.1 - q.1) < c.width := by unfold iabs LCfg.width; split <;> omega
        rw [Int.emod_eq_of_lt (iabs_nonneg _) hlt] at e
        unfold iabs at e; split at e <;> omega
    have e2 : p.2 = q.2 := by
      rcases hy.mp h2 with e | ⟨_, e⟩
      · exact e
      · have hlt : iabs (p.2 - q.2) < c.height := by unfold iabs LCfg.height; split <;> omega
        rw [Int.emod_eq_of_lt (iabs_nonneg _) hlt] at e
        unfold iabs at e; split at e <;> omega
    exact Prod.ext e1 e2
  · rintro rfl
    rw [hx.mpr (Or.inl rfl), hy.mpr (Or.inl rfl)]; rfl

end Mesa.Cont
