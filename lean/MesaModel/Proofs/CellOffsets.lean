import MesaModel.Model.CellGeometry
/-!
Helper lemmas for C07: the n-dimensional offset tables are exactly the vectors of Chebyshev /
Manhattan norm 1.  Core Lean only.
-/
namespace Mesa.Cells

/-- Chebyshev norm `max |x_i|` -/
def chebNorm (d : List Int) : Nat := (d.map Int.natAbs).foldr max 0

/-- Manhattan norm `Σ |x_i|` -/
def manhNorm (d : List Int) : Nat := (d.map Int.natAbs).sum

theorem mem_prod3 (n : Nat) (d : List Int) :
    d ∈ prod3 n ↔ d.length = n ∧ ∀ x ∈ d, x = -1 ∨ x = 0 ∨ x = 1 := by
  induction n generalizing d with
  | zero =>
    simp [prod3]
    rintro rfl; simp
  | succ n ih =>
    simp only [prod3, List.mem_flatMap, List.mem_map]
    constructor
    · rintro ⟨x, hx, t, ht, rfl⟩
      obtain ⟨hl, hall⟩ := (ih t).mp ht
      refine ⟨by simp [hl], ?_⟩
      intro y hy
      simp at hy hx
      rcases hy with rfl | hy
      · exact hx
      · exact hall y hy
    · rintro ⟨hl, hall⟩
      cases d with
      | nil => simp at hl
      | cons x t =>
        refine ⟨x, ?_, t, (ih t).mpr ⟨by simpa using hl, fun y hy => hall y (by simp [hy])⟩, rfl⟩
        have := hall x (by simp)
        simpa using this

theorem prod3_nodup (n : Nat) : (prod3 n).Nodup := by
  induction n with
  | zero => simp [prod3]
  | succ n ih =>
    simp only [prod3]
    have hm : ∀ x : Int, ((prod3 n).map (x :: ·)).Nodup := by
      intro x
      unfold List.Nodup
      rw [List.pairwise_map]
      exact List.Pairwise.imp (fun h => by simpa using h) ih
    simp only [List.flatMap_cons, List.flatMap_nil, List.append_nil]
    rw [List.nodup_append, List.nodup_append]
    refine ⟨hm _, ⟨hm _, hm _, ?_⟩, ?_⟩
    · intro a ha b hb
      simp only [List.mem_map] at ha hb
      obtain ⟨_, _, rfl⟩ := ha
      obtain ⟨_, _, rfl⟩ := hb
      simp
    · intro a ha b hb
      simp only [List.mem_map, List.mem_append] at ha hb
      obtain ⟨_, _, rfl⟩ := ha
      rcases hb with ⟨_, _, rfl⟩ | ⟨_, _, rfl⟩ <;> simp

theorem zeroVec_length (n : Nat) : (zeroVec n).length = n := by simp [zeroVec]

theorem mem_zeroVec {n : Nat} {x : Int} (h : x ∈ zeroVec n) : x = 0 := by
  simp [zeroVec] at h; exact h.2

theorem zeroVec_mem_prod3 (n : Nat) : zeroVec n ∈ prod3 n := by
  rw [mem_prod3]
  exact ⟨zeroVec_length n, fun x hx => Or.inr (Or.inl (mem_zeroVec hx))⟩

theorem eq_zeroVec_iff (d : List Int) : d = zeroVec d.length ↔ ∀ x ∈ d, x = 0 := by
  induction d with
  | nil => simp [zeroVec]
  | cons x t ih =>
    simp only [zeroVec, List.length_cons, List.replicate_succ, List.cons.injEq, List.mem_cons, forall_eq_or_imp]
    simp only [zeroVec] at ih
    rw [ih]

theorem chebNorm_le_one (d : List Int) : chebNorm d ≤ 1 ↔ ∀ x ∈ d, -1 ≤ x ∧ x ≤ 1 := by
  induction d with
  | nil => simp [chebNorm]
  | cons x t ih =>
    simp only [chebNorm, List.map_cons, List.foldr_cons, List.mem_cons, forall_eq_or_imp] at ih ⊢
    rw [← ih]
    omega

theorem chebNorm_eq_zero (d : List Int) : chebNorm d = 0 ↔ ∀ x ∈ d, x = 0 := by
  induction d with
  | nil => simp [chebNorm]
  | cons x t ih =>
    simp only [chebNorm, List.map_cons, List.foldr_cons, List.mem_cons, forall_eq_or_imp] at ih ⊢
    rw [← ih]
    omega

theorem mem_mooreOffsets (n : Nat) (d : List Int) :
    d ∈ mooreOffsets n ↔ d.length = n ∧ (∀ x ∈ d, -1 ≤ x ∧ x ≤ 1) ∧ d ≠ zeroVec n := by
  unfold mooreOffsets
  rw [(prod3_nodup n).mem_erase_iff, mem_prod3]
  constructor
  · rintro ⟨hne, hl, hall⟩
    exact ⟨hl, fun x hx => by have := hall x hx; omega, hne⟩
  · rintro ⟨hl, hall, hne⟩
    exact ⟨hne, hl, fun x hx => by have := hall x hx; omega⟩

/-- the n-D Moore table is exactly the set of vectors of Chebyshev norm 1 -/
theorem mem_mooreOffsets_norm (n : Nat) (d : List Int) :
    d ∈ mooreOffsets n ↔ d.length = n ∧ chebNorm d = 1 := by
  rw [mem_mooreOffsets]
  constructor
  · rintro ⟨hl, hall, hne⟩
    refine ⟨hl, ?_⟩
    have h1 := (chebNorm_le_one d).mpr hall
    have h0 : chebNorm d ≠ 0 := by
      intro h0
      apply hne
      rw [← hl, eq_zeroVec_iff]
      exact (chebNorm_eq_zero d).mp h0
    omega
  · rintro ⟨hl, h1⟩
    refine ⟨hl, (chebNorm_le_one d).mp (by omega), ?_⟩
    intro h
    have : chebNorm d = 0 := by
      rw [chebNorm_eq_zero]
      rw [← hl] at h
      exact (eq_zeroVec_iff d).mp h
    omega

theorem mooreOffsets_nodup (n : Nat) : (mooreOffsets n).Nodup := (prod3_nodup n).erase _

/-! ### von Neumann -/

theorem unitVec_length (n i : Nat) (δ : Int) : (unitVec n i δ).length = n := by simp [unitVec, zeroVec]

theorem mem_vnOffsets (n : Nat) (d : List Int) :
    d ∈ vnOffsets n ↔ ∃ i, i < n ∧ (d = unitVec n i (-1) ∨ d = unitVec n i 1) := by
  simp [vnOffsets]

theorem unitVec_zero (n : Nat) (δ : Int) : unitVec (n+1) 0 δ = δ :: zeroVec n := by
  simp [unitVec, zeroVec, List.replicate_succ]

theorem unitVec_succ (n i : Nat) (δ : Int) : unitVec (n+1) (i+1) δ = 0 :: unitVec n i δ := by
  simp [unitVec, zeroVec, List.replicate_succ]

theorem manhNorm_cons (x : Int) (t : List Int) : manhNorm (x :: t) = x.natAbs + manhNorm t := by
  simp [manhNorm]

theorem manhNorm_zeroVec (n : Nat) : manhNorm (zeroVec n) = 0 := by
  induction n with
  | zero => simp [manhNorm, zeroVec]
  | succ n ih => simp only [zeroVec, List.replicate_succ] at ih ⊢; rw [manhNorm_cons, ih]; simp

theorem manhNorm_unitVec (n i : Nat) (δ : Int) (h : i < n) : manhNorm (unitVec n i δ) = δ.natAbs := by
  induction n generalizing i with
  | zero => omega
  | succ n ih =>
    cases i with
    | zero => rw [unitVec_zero, manhNorm_cons, manhNorm_zeroVec]; simp
    | succ i => rw [unitVec_succ, manhNorm_cons, ih i (by omega)]; simp

theorem manhNorm_eq_zero (d : List Int) : manhNorm d = 0 ↔ d = zeroVec d.length := by
  induction d with
  | nil => simp [manhNorm, zeroVec]
  | cons x t ih =>
    rw [manhNorm_cons]
    simp only [zeroVec, List.length_cons, List.replicate_succ, List.cons.injEq]
    simp only [zeroVec] at ih
    rw [← ih]
    omega

/-- the n-D von Neumann table is exactly the set of vectors of Manhattan norm 1 -/
theorem mem_vnOffsets_norm (n : Nat) (d : List Int) :
    d ∈ vnOffsets n ↔ d.length = n ∧ manhNorm d = 1 := by
  rw [mem_vnOffsets]
  constructor
  · rintro ⟨i, hi, rfl | rfl⟩
    · exact ⟨unitVec_length _ _ _, by rw [manhNorm_unitVec _ _ _ hi]; rfl⟩
    · exact ⟨unitVec_length _ _ _, by rw [manhNorm_unitVec _ _ _ hi]; rfl⟩
  · rintro ⟨hl, h1⟩
    induction d generalizing n with
    | nil => simp [manhNorm] at h1
    | cons x t ih =>
      cases n with
      | zero => simp at hl
      | succ n =>
        have hl' : t.length = n := by simpa using hl
        rw [manhNorm_cons] at h1
        by_cases hx : x = 0
        · subst hx
          obtain ⟨i, hi, h⟩ := ih n hl' (by simpa using h1)
          refine ⟨i+1, by omega, ?_⟩
          rw [unitVec_succ, unitVec_succ]
          rcases h with h | h
          · exact Or.inl (by rw [h])
          · exact Or.inr (by rw [h])
        · have ht : manhNorm t = 0 := by omega
          have ht' := (manhNorm_eq_zero t).mp ht
          rw [hl'] at ht'
          refine ⟨0, by omega, ?_⟩
          rw [unitVec_zero, unitVec_zero, ← ht']
          have : x = -1 ∨ x = 1 := by omega
          rcases this with rfl | rfl
          · exact Or.inl rfl
          · exact Or.inr rfl

/-- negation of an offset -/
def negv (d : List Int) : List Int := d.map (- ·)

theorem negv_length (d : List Int) : (negv d).length = d.length := by simp [negv]

theorem chebNorm_negv (d : List Int) : chebNorm (negv d) = chebNorm d := by
  induction d with
  | nil => rfl
  | cons x t ih =>
    simp only [chebNorm, negv, List.map_cons, List.foldr_cons] at ih ⊢
    rw [ih]; simp

theorem manhNorm_negv (d : List Int) : manhNorm (negv d) = manhNorm d := by
  induction d with
  | nil => rfl
  | cons x t ih =>
    simp only [negv, List.map_cons] at ih ⊢
    rw [manhNorm_cons, manhNorm_cons, ih]; simp

end Mesa.Cells
