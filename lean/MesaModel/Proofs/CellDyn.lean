import MesaModel.Proofs.CellSpaces
import MesaModel.Proofs.CellEdit
/-!
Helper lemmas for C06: histories that edit connections (`Cell.connect` / `Cell.disconnect` after construction) or
write capacities (`cell.capacity = k`) between the agent operations.  A connection edit touches `Space.conn` only, a
capacity write `Space.cap` at one cell only; well-formedness of the space and the occupancy invariant survive both; the
capacity bound survives a capacity write iff the new capacity is not below the cell's occupancy.
-/
namespace Mesa.Cells

theorem editSp_cells (sp : Space) (e : DOp) : (editSp sp e).1.cells = sp.cells := by
  cases e with
  | op o => rfl
  | connect c c2 key =>
    simp only [editSp]
    split
    · split <;> rfl
    · rfl
  | disconnect c c2 => simp only [editSp]; split <;> rfl
  | setCap c k => simp only [editSp]; split <;> rfl

/-- a capacity write (`DOp.setCap`) -/
def DOp.isSetCap : DOp → Bool
  | .setCap _ _ => true
  | _ => false

theorem editSp_cap (sp : Space) (e : DOp) (he : e.isSetCap = false) : (editSp sp e).1.cap = sp.cap := by
  cases e with
  | op o => rfl
  | connect c c2 key =>
    simp only [editSp]
    split
    · split <;> rfl
    · rfl
  | disconnect c c2 => simp only [editSp]; split <;> rfl
  | setCap c k => simp [DOp.isSetCap] at he

theorem editSp_conn_setCap (sp : Space) (c : Cid) (k : Option Nat) : (editSp sp (.setCap c k)).1.conn = sp.conn := by
  simp only [editSp]; split <;> rfl

theorem editSp_isGrid (sp : Space) (e : DOp) : (editSp sp e).1.isGrid = sp.isGrid := by
  cases e with
  | op o => rfl
  | connect c c2 key =>
    simp only [editSp]
    split
    · split <;> rfl
    · rfl
  | disconnect c c2 => simp only [editSp]; split <;> rfl
  | setCap c k => simp only [editSp]; split <;> rfl

/-- the occupancy invariant does not look at the connections -/
theorem InvB.transfer {sp sp' : Space} {B : Cid → Nat} {s : State} (h : InvB sp B s) (hc : sp'.cells = sp.cells)
    (hcap : sp'.cap = sp.cap) (hg : sp'.isGrid = sp.isGrid) : InvB sp' B s :=
  ⟨h.mem_cell, h.cell_mem, h.nodup, fun c k hk => h.cap c k (hcap ▸ hk), fun c => by rw [hg]; exact h.flag c,
   h.known, h.reg_lt, h.reg_nodup, fun a c hm => hc ▸ h.occ_cells a c hm⟩

/-- … nor (with the occupancy itself as the bound) at the capacities -/
theorem Inv.transfer {sp sp' : Space} {s : State} (h : Inv sp s) (hc : sp'.cells = sp.cells)
    (hg : sp'.isGrid = sp.isGrid) : Inv sp' s :=
  ⟨h.mem_cell, h.cell_mem, h.nodup, fun _ _ _ => Or.inr (Nat.le_refl _), fun c => by rw [hg]; exact h.flag c,
   h.known, h.reg_lt, h.reg_nodup, fun a c hm => hc ▸ h.occ_cells a c hm⟩

theorem mem_dictSet_imp {α β : Type} [DecidableEq α] {m : List (α × β)} {k k' : α} {v v' : β}
    (h : (k', v') ∈ dictSet m k v) : (k', v') = (k, v) ∨ (k', v') ∈ m := by
  induction m with
  | nil => simp only [dictSet, List.mem_singleton] at h; exact Or.inl h
  | cons p m ih =>
    obtain ⟨k0, v0⟩ := p
    simp only [dictSet] at h
    split at h
    · simp only [List.mem_cons] at h
      rcases h with h | h
      · exact Or.inl h
      · exact Or.inr (List.mem_cons_of_mem _ h)
    · simp only [List.mem_cons] at h
      rcases h with h | h
      · exact Or.inr (h ▸ List.mem_cons_self)
      · rcases ih h with h1 | h1
        · exact Or.inl h1
        · exact Or.inr (List.mem_cons_of_mem _ h1)

/-- connection edits between cells of the space keep the space well-formed -/
theorem editSp_ok {sp : Space} (hsp : SpaceOK sp) (e : DOp) : SpaceOK (editSp sp e).1 := by
  refine ⟨?_, by rw [editSp_cells]; exact hsp.nodup⟩
  cases e with
  | op o => exact hsp.closed
  | connect c c2 key =>
    simp only [editSp]
    split
    · rename_i hcc
      split
      · rename_i k _
        intro x hx kk c' hm
        simp only [connectSp, connectConn] at hx hm ⊢
        split at hm
        · rcases mem_dictSet_imp hm with h1 | h1
          · simp only [Prod.mk.injEq] at h1; exact h1.2 ▸ hcc.2
          · exact hsp.closed c hcc.1 kk c' h1
        · exact hsp.closed x hx kk c' hm
      · exact hsp.closed
    · exact hsp.closed
  | disconnect c c2 =>
    simp only [editSp]
    split
    · rename_i hcc
      intro x hx kk c' hm
      simp only [disconnectSp, disconnectConn] at hx hm ⊢
      split at hm
      · exact hsp.closed c hcc.1 kk c' ((mem_dictDropValue _ _ _).mp hm).1
      · exact hsp.closed x hx kk c' hm
    · exact hsp.closed
  | setCap c k =>
    simp only [editSp]
    split <;> exact hsp.closed

theorem dstep_ok {sp : Space} (hsp : SpaceOK sp) (s : State) (o : DOp) : SpaceOK (dstep sp s o).1.1 := by
  cases o with
  | op o => exact hsp
  | connect c c2 key => exact editSp_ok hsp _
  | disconnect c c2 => exact editSp_ok hsp _
  | setCap c k => exact editSp_ok hsp _

theorem dstep_inv {sp : Space} (hsp : SpaceOK sp) {s : State} (h : Inv sp s) (o : DOp) :
    Inv (dstep sp s o).1.1 (dstep sp s o).1.2 := by
  cases o with
  | op o => exact step_inv hsp.closed h o
  | connect c c2 key => exact h.transfer (editSp_cells sp _) (editSp_isGrid sp _)
  | disconnect c c2 => exact h.transfer (editSp_cells sp _) (editSp_isGrid sp _)
  | setCap c k => exact h.transfer (editSp_cells sp _) (editSp_isGrid sp _)

theorem dstep_same {sp : Space} (s : State) (o : DOp) :
    (dstep sp s o).1.1.cells = sp.cells ∧ (dstep sp s o).1.1.isGrid = sp.isGrid ∧
    (o.isSetCap = false → (dstep sp s o).1.1.cap = sp.cap) := by
  cases o with
  | op o => exact ⟨rfl, rfl, fun _ => rfl⟩
  | connect c c2 key => exact ⟨editSp_cells sp _, editSp_isGrid sp _, editSp_cap sp _⟩
  | disconnect c c2 => exact ⟨editSp_cells sp _, editSp_isGrid sp _, editSp_cap sp _⟩
  | setCap c k => exact ⟨editSp_cells sp _, editSp_isGrid sp _, editSp_cap sp _⟩

/-- after any history with connection edits and capacity writes: the space is still well-formed, has the cells and kind it
    was built with — and its capacities, if the history writes none —, and the occupancy invariant holds -/
theorem drun_inv {sp : Space} (hsp : SpaceOK sp) {s : State} (h : Inv sp s) (ops : List DOp) :
    SpaceOK (drun sp s ops).1 ∧ Inv (drun sp s ops).1 (drun sp s ops).2 ∧
    (drun sp s ops).1.cells = sp.cells ∧ (drun sp s ops).1.isGrid = sp.isGrid ∧
    ((∀ o ∈ ops, o.isSetCap = false) → (drun sp s ops).1.cap = sp.cap) := by
  induction ops generalizing sp s with
  | nil => exact ⟨hsp, h, rfl, rfl, fun _ => rfl⟩
  | cons o ops ih =>
    obtain ⟨h1, h2, h3, h4, h5⟩ := ih (dstep_ok hsp s o) (dstep_inv hsp h o)
    obtain ⟨e1, e2, e3⟩ := dstep_same (sp := sp) s o
    exact ⟨h1, h2, h3.trans e1, h4.trans e2, fun hno =>
      (h5 fun o' ho' => hno o' (List.mem_cons_of_mem _ ho')).trans (e3 (hno o List.mem_cons_self))⟩

/-- an operation that is not a capacity write going under the occupancy the cell has now -/
def DOp.respects (s : State) : DOp → Bool
  | .setCap c (some k) => decide ((s.occ c).length ≤ k)
  | _ => true

/-- a history never lowers a capacity under the occupancy of the cell at that moment (raising it, lifting it — `None` —
    and lowering it down to the number of occupants are all allowed) -/
def CapRespecting (sp : Space) (s : State) : List DOp → Bool
  | [] => true
  | o :: os => o.respects s && CapRespecting (dstep sp s o).1.1 (dstep sp s o).1.2 os

/-- the plain capacity bound (`B = 0`) survives every operation, every connection edit and every capacity write that
    does not go under the occupancy -/
theorem dstep_inv0 {sp : Space} (hsp : SpaceOK sp) {s : State} (h : InvB sp (fun _ => 0) s) (o : DOp)
    (hr : o.respects s = true) : InvB (dstep sp s o).1.1 (fun _ => 0) (dstep sp s o).1.2 := by
  cases o with
  | op o => exact step_invB hsp.closed h o
  | connect c c2 key => exact h.transfer (editSp_cells sp _) (editSp_cap sp _ rfl) (editSp_isGrid sp _)
  | disconnect c c2 => exact h.transfer (editSp_cells sp _) (editSp_cap sp _ rfl) (editSp_isGrid sp _)
  | setCap c k =>
    show InvB (editSp sp (.setCap c k)).1 (fun _ => 0) s
    simp only [editSp]
    split
    · refine ⟨h.mem_cell, h.cell_mem, h.nodup, ?_, h.flag, h.known, h.reg_lt, h.reg_nodup, h.occ_cells⟩
      intro x k' hk'
      simp only [setCapSp] at hk'
      by_cases hx : x = c
      · subst hx
        rw [upd_same] at hk'
        subst hk'
        simp only [DOp.respects, decide_eq_true_eq] at hr
        exact Or.inl hr
      · rw [upd_other _ _ _ hx] at hk'
        exact h.cap x k' hk'
    · exact h

theorem drun_inv0 {sp : Space} (hsp : SpaceOK sp) {s : State} (h : InvB sp (fun _ => 0) s) (ops : List DOp)
    (hr : CapRespecting sp s ops = true) : InvB (drun sp s ops).1 (fun _ => 0) (drun sp s ops).2 := by
  induction ops generalizing sp s with
  | nil => exact h
  | cons o ops ih =>
    simp only [CapRespecting, Bool.and_eq_true] at hr
    exact ih (dstep_ok hsp s o) (dstep_inv0 hsp h o hr.1) hr.2

/-- a history without edits is a history -/
theorem drun_ops (sp : Space) (s : State) (ops : List Op) : drun sp s (ops.map .op) = (sp, run sp s ops) := by
  induction ops generalizing s with
  | nil => rfl
  | cons o ops ih => simp only [List.map_cons, drun, dstep, run]; exact ih _

theorem drun_append (sp : Space) (s : State) (l : List DOp) (o : DOp) :
    drun sp s (l ++ [o]) = (dstep (drun sp s l).1 (drun sp s l).2 o).1 := by
  induction l generalizing sp s with
  | nil => rfl
  | cons x l ih => simp only [List.cons_append, drun]; exact ih _ _

end Mesa.Cells
