import MesaModel.Proofs.CellSpaces
import MesaModel.Proofs.CellEdit
/-!
Helper lemmas for C06: histories that edit connections between the agent operations (`Cell.connect` /
`Cell.disconnect` after construction).  An edit touches `Space.conn` only; well-formedness of the space and
the occupancy invariant survive it.
-/
namespace Mesa.Cells

theorem editSp_cells (sp : Space) (e : DOp) : (editSp sp e).1.cells = sp.cells := by
  cases e with
  | op o => rfl
  | connect c c2 key =>
    simp only [editSp]
    split
    · split <;> rfl
    · rfl
  | disconnect c c2 => simp only [editSp]; split <;> rfl

theorem editSp_cap (sp : Space) (e : DOp) : (editSp sp e).1.cap = sp.cap := by
  cases e with
  | op o => rfl
  | connect c c2 key =>
    simp only [editSp]
    split
    · split <;> rfl
    · rfl
  | disconnect c c2 => simp only [editSp]; split <;> rfl

theorem editSp_isGrid (sp : Space) (e : DOp) : (editSp sp e).1.isGrid = sp.isGrid := by
  cases e with
  | op o => rfl
  | connect c c2 key =>
    simp only [editSp]
    split
    · split <;> rfl
    · rfl
  | disconnect c c2 => simp only [editSp]; split <;> rfl

/-- the occupancy invariant does not look at the connections -/
theorem Inv.transfer {sp sp' : Space} {s : State} (h : Inv sp s) (hc : sp'.cells = sp.cells)
    (hcap : sp'.cap = sp.cap) (hg : sp'.isGrid = sp.isGrid) : Inv sp' s :=
  ⟨h.mem_cell, h.cell_mem, h.nodup, fun c k hk => h.cap c k (hcap ▸ hk), fun c => by rw [hg]; exact h.flag c,
   h.known, h.reg_lt, h.reg_nodup, fun a c hm => hc ▸ h.occ_cells a c hm⟩

theorem mem_dictSet_imp {α β : Type} [DecidableEq α] {m : List (α × β)} {k k' : α} {v v' : β}
    (h : (k', v') ∈ dictSet m k v) : (k', v') = (k, v) ∨ (k', v') ∈ m := by
  induction m with
  | nil => simp only [dictSet, List.mem_singleton] at h; exact Or.inl h
  | cons p m ih =>
    obtain ⟨k0, v0⟩ := p
    simp only [dictSet] at h
    split at h
    · simp only [List.mem_cons] at h
      rcases h with h | h
      · exact Or.inl h
      · exact Or.inr (List.mem_cons_of_mem _ h)
    · simp only [List.mem_cons] at h
      rcases h with h | h
      · exact Or.inr (h ▸ List.mem_cons_self)
      · rcases ih h with h1 | h1
        · exact Or.inl h1
        · exact Or.inr (List.mem_cons_of_mem _ h1)

/-- connection edits between cells of the space keep the space well-formed -/
theorem editSp_ok {sp : Space} (hsp : SpaceOK sp) (e : DOp) : SpaceOK (editSp sp e).1 := by
  refine ⟨?_, by rw [editSp_cells]; exact hsp.nodup⟩
  cases e with
  | op o => exact hsp.closed
  | connect c c2 key =>
    simp only [editSp]
    split
    · rename_i hcc
      split
      · rename_i k _
        intro x hx kk c' hm
        simp only [connectSp, connectConn] at hx hm ⊢
        split at hm
        · rcases mem_dictSet_imp hm with h1 | h1
          · simp only [Prod.mk.injEq] at h1; exact h1.2 ▸ hcc.2
          · exact hsp.closed c hcc.1 kk c' h1
        · exact hsp.closed x hx kk c' hm
      · exact hsp.closed
    · exact hsp.closed
  | disconnect c c2 =>
    simp only [editSp]
    split
    · rename_i hcc
      intro x hx kk c' hm
      simp only [disconnectSp, disconnectConn] at hx hm ⊢
      split at hm
      · exact hsp.closed c hcc.1 kk c' ((mem_dictDropValue _ _ _).mp hm).1
      · exact hsp.closed x hx kk c' hm
    · exact hsp.closed

theorem dstep_ok {sp : Space} (hsp : SpaceOK sp) (s : State) (o : DOp) : SpaceOK (dstep sp s o).1.1 := by
  cases o with
  | op o => exact hsp
  | connect c c2 key => exact editSp_ok hsp _
  | disconnect c c2 => exact editSp_ok hsp _

theorem dstep_inv {sp : Space} (hsp : SpaceOK sp) {s : State} (h : Inv sp s) (o : DOp) :
    Inv (dstep sp s o).1.1 (dstep sp s o).1.2 := by
  cases o with
  | op o => exact step_inv hsp.closed h o
  | connect c c2 key => exact h.transfer (editSp_cells sp _) (editSp_cap sp _) (editSp_isGrid sp _)
  | disconnect c c2 => exact h.transfer (editSp_cells sp _) (editSp_cap sp _) (editSp_isGrid sp _)

theorem dstep_same {sp : Space} (s : State) (o : DOp) :
    (dstep sp s o).1.1.cells = sp.cells ∧ (dstep sp s o).1.1.cap = sp.cap ∧ (dstep sp s o).1.1.isGrid = sp.isGrid := by
  cases o with
  | op o => exact ⟨rfl, rfl, rfl⟩
  | connect c c2 key => exact ⟨editSp_cells sp _, editSp_cap sp _, editSp_isGrid sp _⟩
  | disconnect c c2 => exact ⟨editSp_cells sp _, editSp_cap sp _, editSp_isGrid sp _⟩

/-- after any history with connection edits: the space is still well-formed, has the cells, capacities and
    kind it was built with, and the occupancy invariant holds -/
theorem drun_inv {sp : Space} (hsp : SpaceOK sp) {s : State} (h : Inv sp s) (ops : List DOp) :
    SpaceOK (drun sp s ops).1 ∧ Inv (drun sp s ops).1 (drun sp s ops).2 ∧
    (drun sp s ops).1.cells = sp.cells ∧ (drun sp s ops).1.cap = sp.cap ∧ (drun sp s ops).1.isGrid = sp.isGrid := by
  induction ops generalizing sp s with
  | nil => exact ⟨hsp, h, rfl, rfl, rfl⟩
  | cons o ops ih =>
    obtain ⟨h1, h2, h3, h4, h5⟩ := ih (dstep_ok hsp s o) (dstep_inv hsp h o)
    obtain ⟨e1, e2, e3⟩ := dstep_same (sp := sp) s o
    exact ⟨h1, h2, h3.trans e1, h4.trans e2, h5.trans e3⟩

/-- a history without edits is a history -/
theorem drun_ops (sp : Space) (s : State) (ops : List Op) : drun sp s (ops.map .op) = (sp, run sp s ops) := by
  induction ops generalizing s with
  | nil => rfl
  | cons o ops ih => simp only [List.map_cons, drun, dstep, run]; exact ih _

theorem drun_append (sp : Space) (s : State) (l : List DOp) (o : DOp) :
    drun sp s (l ++ [o]) = (dstep (drun sp s l).1 (drun sp s l).2 o).1 := by
  induction l generalizing sp s with
  | nil => rfl
  | cons x l ih => simp only [List.cons_append, drun]; exact ih _ _

end Mesa.Cells
