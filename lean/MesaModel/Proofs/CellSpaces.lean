import MesaModel.Proofs.CellSpace
import MesaModel.Proofs.CellSymm
/-!
Helper lemmas for C06: the concrete spaces of the model (grids, Network, Voronoi) are well-formed —
their cell list has no duplicates and connections lead to cells of the space.
-/
namespace Mesa.Cells

/-- well-formed space -/
structure SpaceOK (sp : Space) : Prop where
  closed : ConnClosed sp
  nodup : sp.cells.Nodup

theorem allCoords_nodup (dims : List Nat) : (allCoords dims).Nodup := by
  induction dims with
  | nil => simp [allCoords]
  | cons d ds ih =>
    simp only [allCoords]
    unfold List.Nodup at ih ⊢
    rw [List.pairwise_flatMap]
    refine ⟨fun x _ => ?_, ?_⟩
    · rw [List.pairwise_map]
      exact List.Pairwise.imp (fun h => by simpa using h) ih
    · refine List.Pairwise.imp ?_ (List.nodup_range (n := d))
      intro a b hab x hx y hy
      simp only [List.mem_map] at hx hy
      obtain ⟨_, _, rfl⟩ := hx
      obtain ⟨_, _, rfl⟩ := hy
      intro h
      simp only [List.cons.injEq] at h
      exact hab (by omega)

theorem rangeCoords_nodup (n : Nat) : (rangeCoords n).Nodup := by
  unfold rangeCoords List.Nodup
  rw [List.pairwise_map]
  refine List.Pairwise.imp ?_ (List.nodup_range (n := n))
  intro a b hab h
  simp only [List.cons.injEq, and_true] at h
  exact hab (by omega)

theorem mem_rangeCoords (n : Nat) (c : Cid) : c ∈ rangeCoords n ↔ ∃ i : Nat, i < n ∧ c = [(i : Int)] := by
  simp [rangeCoords]
  constructor
  · rintro ⟨i, hi, rfl⟩; exact ⟨i, hi, rfl⟩
  · rintro ⟨i, hi, rfl⟩; exact ⟨i, hi, rfl⟩

theorem gridSpace_ok (k : GridKind) (dims : List Nat) (torus : Bool) (cap : Option Nat)
    (hk : k = .hex → dims.length = 2) : SpaceOK (gridSpace k dims torus cap) := by
  refine ⟨?_, allCoords_nodup dims⟩
  intro c hc key c' h
  simp only [gridSpace] at hc h ⊢
  rw [mem_allCoords] at hc ⊢
  exact gridConn_InB k dims torus c hc hk key c' h

theorem netSpace_ok (directed : Bool) (n : Nat) (edges : List (Nat × Nat)) (cap : Option Nat)
    (he : ∀ e ∈ edges, e.1 < n ∧ e.2 < n) : SpaceOK (netSpace directed n edges cap) := by
  refine ⟨?_, rangeCoords_nodup n⟩
  intro c hc key c' h
  simp only [netSpace] at hc h ⊢
  obtain ⟨u, _, rfl⟩ := (mem_rangeCoords n c).mp hc
  obtain ⟨v, _, rfl, hv⟩ := (mem_netConn directed edges u key c').mp h
  rw [mem_rangeCoords]
  refine ⟨v, ?_, rfl⟩
  rcases (mem_netAdj directed edges u v).mp hv with h1 | ⟨_, h1⟩
  · exact (he _ h1).2
  · exact (he _ h1).1

theorem mem_triPairs_lt {t : Nat × Nat × Nat} {n i j : Nat} (ht : t.1 < n ∧ t.2.1 < n ∧ t.2.2 < n)
    (h : (i, j) ∈ triPairs t) : j < n := by
  obtain ⟨a, b, c⟩ := t
  simp only [triPairs, List.mem_cons, Prod.mk.injEq, List.not_mem_nil, or_false] at h
  simp only at ht
  omega

theorem vorSpace_ok (n : Nat) (tris : List (Nat × Nat × Nat)) (cap : Option Nat)
    (ht : ∀ t ∈ tris, t.1 < n ∧ t.2.1 < n ∧ t.2.2 < n) : SpaceOK (vorSpace n tris cap) := by
  refine ⟨?_, rangeCoords_nodup n⟩
  intro c hc key c' h
  simp only [vorSpace] at hc h ⊢
  obtain ⟨i, _, rfl⟩ := (mem_rangeCoords n c).mp hc
  obtain ⟨j, _, rfl, hj⟩ := (mem_vorConn tris i key c').mp h
  rw [mem_rangeCoords]
  obtain ⟨t, htm, hp⟩ := (mem_vorAdj tris i j).mp hj
  exact ⟨j, mem_triPairs_lt (ht t htm) hp, rfl⟩

theorem vorSpaceAreas_ok (n : Nat) (tris : List (Nat × Nat × Nat)) (areas : List (Nat × Nat))
    (ht : ∀ t ∈ tris, t.1 < n ∧ t.2.1 < n ∧ t.2.2 < n) : SpaceOK (vorSpaceAreas n tris areas) :=
  ⟨(vorSpace_ok n tris none ht).closed, rangeCoords_nodup n⟩

/-- `int(area * 500)` on the exact area `num/den`: the integer `k` with `k ≤ 500 · num/den < k + 1` -/
theorem roundFloat_spec (num den : Nat) (hd : 0 < den) :
    roundFloat num den * den ≤ 500 * num ∧ 500 * num < (roundFloat num den + 1) * den := by
  unfold roundFloat
  have h1 := Nat.div_mul_le_self (num * 500) den
  have h2 := Nat.lt_div_mul_add (a := num * 500) hd
  constructor
  · omega
  · rw [Nat.add_mul]; omega

/-! ### views -/

theorem dictUpdate_of_nodup {α : Type} [DecidableEq α] (acc l : List α) (h : (acc ++ l).Nodup) :
    dictUpdate acc l = acc ++ l := by
  unfold dictUpdate
  induction l generalizing acc with
  | nil => simp
  | cons x l ih =>
    have hx : x ∉ acc := by
      intro hm
      rw [List.nodup_append] at h
      exact h.2.2 x hm x (by simp) rfl
    simp only [List.foldl_cons, dictAdd, if_neg hx]
    rw [ih (acc ++ [x]) (by simpa using h)]
    simp

/-- the chained cell lists of a state satisfying the invariant have no duplicates -/
theorem flatMap_occ_nodup {sp : Space} {s : State} (hsp : SpaceOK sp) (h : Inv sp s) :
    (sp.cells.flatMap s.occ).Nodup := by
  unfold List.Nodup
  rw [List.pairwise_flatMap]
  refine ⟨fun c _ => h.nodup c, ?_⟩
  refine List.Pairwise.imp ?_ hsp.nodup
  intro c c' hcc x hx y hy hxy
  subst hxy
  have h1 := h.mem_cell x c hx
  have h2 := h.mem_cell x c' hy
  rw [h1] at h2
  simp at h2
  exact hcc h2

theorem spaceAgents_eq {sp : Space} {s : State} (hsp : SpaceOK sp) (h : Inv sp s) :
    spaceAgents sp s = sp.cells.flatMap s.occ := by
  unfold spaceAgents
  rw [dictUpdate_of_nodup [] _ (by simpa using flatMap_occ_nodup hsp h)]
  simp

end Mesa.Cells
