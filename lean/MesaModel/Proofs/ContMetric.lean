import MesaModel.Proofs.ContExp
/-! The (toroidal) Euclidean metric, stated without the model's distance functions, and the lemmas that tie `edist2` /
`ldist2` to it; vectors of the right length (`WfOps`), the closed form of "last assigned".  Core Lean only. -/
namespace Mesa.Cont

/-! ### the metric of the property -/

/-- squared Euclidean distance of two points -/
def euclid2 : Pos → Pos → Int
  | a :: as, b :: bs => sq (a - b) + euclid2 as bs
  | _, _ => 0

/-- squared Euclidean distance from `p` to the periodic image of `q` that lies `ks[i]` circumferences further along
    axis `i` (`ds` = the (min, max) rows of the space) -/
def imgDist2 : List (Int × Int) → List Int → Pos → Pos → Int
  | d :: ds, k :: ks, a :: as, b :: bs => sq (a - b + k * (d.2 - d.1)) + imgDist2 ds ks as bs
  | _, _, _, _ => 0

/-- `d` is the squared distance of the property between the points `p` and `q` of an `n`-dimensional space with bounds
    `ds`: the squared Euclidean distance if the space is bounded, and on a torus the least squared Euclidean distance
    from `p` to a periodic image of `q` (no image is nearer, one image is exactly that far).  Nothing of the model
    occurs in this definition. -/
def MetricDist2 (ds : List (Int × Int)) (torus : Bool) (p q : Pos) (d : Int) : Prop :=
  (torus = false → d = euclid2 p q) ∧
  (torus = true → (∀ ks : List Int, ks.length = ds.length → d ≤ imgDist2 ds ks p q) ∧
    ∃ ks : List Int, ks.length = ds.length ∧ d = imgDist2 ds ks p q)

theorem dist2Aux_flat (ds : List (Int × Int)) (p q : Pos) (hp : p.length = ds.length) (hq : q.length = ds.length) :
    dist2Aux false ds p q = euclid2 p q := by
  induction ds generalizing p q with
  | nil =>
    cases p with
    | nil => simp [dist2Aux, euclid2]
    | cons _ _ => simp at hp
  | cons d ds ih =>
    cases p with
    | nil => simp at hp
    | cons a p =>
      cases q with
      | nil => simp at hq
      | cons b q =>
        simp only [List.length_cons, Nat.add_right_cancel_iff] at hp hq
        simp only [dist2Aux, euclid2, axisDist_flat, sq_iabs, ih p q hp hq]

theorem dist2Aux_le_img (ds : List (Int × Int)) (hw : ∀ d ∈ ds, d.1 < d.2) (ks : List Int) (p q : Pos)
    (hk : ks.length = ds.length) (hp : p.length = ds.length) (hq : q.length = ds.length) :
    dist2Aux true ds p q ≤ imgDist2 ds ks p q := by
  induction ds generalizing ks p q with
  | nil => simp [dist2Aux, imgDist2]
  | cons d ds ih =>
    cases p with
    | nil => simp at hp
    | cons a p =>
      cases q with
      | nil => simp at hq
      | cons b q =>
        cases ks with
        | nil => simp at hk
        | cons k ks =>
          simp only [List.length_cons, Nat.add_right_cancel_iff] at hp hq hk
          have hs : 0 < d.2 - d.1 := by have := hw d (by simp); omega
          have h1 := sq_le_sq_of_le_iabs (axisDist_nonneg true _ a b hs) (axisDist_torus_le_image _ a b hs k)
          have h2 := ih (fun d' hd' => hw d' (by simp [hd'])) ks p q hk hp hq
          simp only [dist2Aux, imgDist2]
          omega

theorem dist2Aux_img_attained (ds : List (Int × Int)) (hw : ∀ d ∈ ds, d.1 < d.2) (p q : Pos)
    (hp : p.length = ds.length) (hq : q.length = ds.length) :
    ∃ ks : List Int, ks.length = ds.length ∧ dist2Aux true ds p q = imgDist2 ds ks p q := by
  induction ds generalizing p q with
  | nil => exact ⟨[], rfl, by simp [dist2Aux, imgDist2]⟩
  | cons d ds ih =>
    cases p with
    | nil => simp at hp
    | cons a p =>
      cases q with
      | nil => simp at hq
      | cons b q =>
        simp only [List.length_cons, Nat.add_right_cancel_iff] at hp hq
        have hs : 0 < d.2 - d.1 := by have := hw d (by simp); omega
        obtain ⟨k, hk⟩ := axisDist_torus_attained _ a b hs
        obtain ⟨ks, hl, he⟩ := ih (fun d' hd' => hw d' (by simp [hd'])) p q hp hq
        refine ⟨k :: ks, by simp [hl], ?_⟩
        simp only [dist2Aux, imgDist2, hk, sq_iabs, he]

/-- the number the distance computation of either space produces is the distance of the property, and nothing else is -/
theorem dist2Aux_metric (ds : List (Int × Int)) (hw : ∀ d ∈ ds, d.1 < d.2) (t : Bool) (p q : Pos)
    (hp : p.length = ds.length) (hq : q.length = ds.length) (d : Int) :
    MetricDist2 ds t p q d ↔ d = dist2Aux t ds p q := by
  cases t
  · simp [MetricDist2, dist2Aux_flat ds p q hp hq]
  · simp only [MetricDist2, Bool.true_eq_false, false_imp_iff, true_and, true_imp_iff]
    constructor
    · rintro ⟨hle, ks, hl, he⟩
      obtain ⟨ks', hl', he'⟩ := dist2Aux_img_attained ds hw p q hp hq
      have h1 := hle ks' hl'
      have h2 := dist2Aux_le_img ds hw ks p q hl hp hq
      omega
    · rintro rfl
      exact ⟨fun ks hl => dist2Aux_le_img ds hw ks p q hl hp hq, dist2Aux_img_attained ds hw p q hp hq⟩

/-- coordinate by coordinate: following the difference vector from `p` arrives at `q` (bounded space) or at `q` shifted by a
    whole number of sizes (torus).  The sign convention is the code's: `positions - point`, from the point to the agent. -/
theorem diffAux_reaches (t : Bool) (ds : List (Int × Int)) (p q : Pos) (hp : p.length = ds.length)
    (hq : q.length = ds.length) :
    (diffAux t ds p q).length = ds.length ∧
    ∀ i, i < ds.length → ∃ x y h d, p[i]? = some x ∧ q[i]? = some y ∧ (diffAux t ds p q)[i]? = some h ∧ ds[i]? = some d ∧
      (t = false → x + h = y) ∧ (t = true → ∃ k : Int, x + h = y + k * (d.2 - d.1)) := by
  induction ds generalizing p q with
  | nil => exact ⟨by cases p <;> cases q <;> simp [diffAux], fun i hi => by simp at hi⟩
  | cons d ds ih =>
    cases p with
    | nil => simp at hp
    | cons a p =>
      cases q with
      | nil => simp at hq
      | cons b q =>
        simp only [List.length_cons, Nat.add_right_cancel_iff] at hp hq
        obtain ⟨h1, h2⟩ := ih p q hp hq
        refine ⟨by simp [diffAux, h1], fun i hi => ?_⟩
        cases i with
        | zero =>
          refine ⟨a, b, axisHeading t (d.2 - d.1) a b, d, by simp, by simp, by simp [diffAux], by simp, ?_, ?_⟩
          · rintro rfl; rw [axisHeading_flat]; omega
          · rintro rfl; exact axisHeading_reaches _ a b
        | succ i =>
          obtain ⟨x, y, h, d', e1, e2, e3, e4, e5⟩ := h2 i (by simpa using hi)
          exact ⟨x, y, h, d', by simpa using e1, by simpa using e2, by simpa [diffAux] using e3, by simpa using e4, e5⟩

/-- the squared distance vanishes exactly when every coordinate pair is equal or, on a torus, a whole number of sizes apart -/
theorem dist2Aux_eq_zero_iff (t : Bool) (ds : List (Int × Int)) (hw : ∀ d ∈ ds, d.1 < d.2) (p q : Pos)
    (hp : p.length = ds.length) (hq : q.length = ds.length) :
    dist2Aux t ds p q = 0 ↔
      ∀ (i : Nat) (x y : Int) (d : Int × Int), p[i]? = some x → q[i]? = some y → ds[i]? = some d →
        x = y ∨ (t = true ∧ ∃ k : Int, x - y = k * (d.2 - d.1)) := by
  induction ds generalizing p q with
  | nil => simp [dist2Aux]
  | cons d ds ih =>
    cases p with
    | nil => simp at hp
    | cons a p =>
      cases q with
      | nil => simp at hq
      | cons b q =>
        simp only [List.length_cons, Nat.add_right_cancel_iff] at hp hq
        have hs : 0 < d.2 - d.1 := by have := hw d (by simp); omega
        have hw' : ∀ d' ∈ ds, d'.1 < d'.2 := fun d' hd' => hw d' (by simp [hd'])
        have n1 := sq_nonneg (axisDist t (d.2 - d.1) a b)
        have n2 : 0 ≤ dist2Aux t ds p q := by
          rw [← diffAux_norm2 t ds p q hw']
          generalize diffAux t ds p q = l
          induction l with
          | nil => simp [norm2]
          | cons x l ihl => have := sq_nonneg x; simp only [norm2]; omega
        simp only [dist2Aux]
        constructor
        · intro h0
          have z1 : sq (axisDist t (d.2 - d.1) a b) = 0 := by omega
          have z2 : dist2Aux t ds p q = 0 := by omega
          intro i x y d' e1 e2 e3
          cases i with
          | zero =>
            simp only [List.getElem?_cons_zero, Option.some.injEq] at e1 e2 e3
            subst e1 e2 e3
            have := (axisDist_eq_zero_iff t _ a b hs).mp (sq_eq_zero z1)
            rwa [iabs_emod_eq_zero_iff] at this
          | succ i =>
            simp only [List.getElem?_cons_succ] at e1 e2 e3
            exact (ih hw' p q hp hq).mp z2 i x y d' e1 e2 e3
        · intro h
          have z1 : axisDist t (d.2 - d.1) a b = 0 := by
            rw [axisDist_eq_zero_iff t _ a b hs, iabs_emod_eq_zero_iff]
            exact h 0 a b d (by simp) (by simp) (by simp)
          have z2 : dist2Aux t ds p q = 0 :=
            (ih hw' p q hp hq).mpr (fun i x y d' e1 e2 e3 => h (i + 1) x y d' (by simpa using e1) (by simpa using e2) (by simpa using e3))
          rw [z1, z2]; simp [sq]

/-- the legacy space as a 2-row `dimensions` array -/
def LCfg.dims (c : LCfg) : List (Int × Int) := [(c.xmin, c.xmax), (c.ymin, c.ymax)]

theorem ldist2_eq_dist2Aux (c : LCfg) (p q : P2) :
    ldist2 c p q = dist2Aux c.torus c.dims [p.1, p.2] [q.1, q.2] := by
  simp [ldist2, dist2Aux, LCfg.dims, LCfg.width, LCfg.height]

/-! ### vectors of the right length -/

/-- the vector a call carries, if any -/
def EOp.vec : EOp → Option Pos
  | .set _ p => some p
  | .iadd _ v => some v
  | .raw _ p => some p
  | _ => none

/-- every vector of the history has as many coordinates as the space has axes -/
def WfOps (c : ECfg) (ops : List EOp) : Prop := ∀ op ∈ ops, ∀ v, op.vec = some v → v.length = c.dims.length

theorem torusCorrect_length (ds : List (Int × Int)) (p : Pos) (h : p.length = ds.length) :
    (torusCorrect ds p).length = ds.length := by
  induction ds generalizing p with
  | nil => cases p <;> simp [torusCorrect]
  | cons d ds ih =>
    cases p with
    | nil => simp at h
    | cons x p =>
      simp only [List.length_cons, Nat.add_right_cancel_iff] at h
      simp [torusCorrect, ih p h]

theorem eassign_length (c : ECfg) {p p' : Pos} (h : eassign c p = some p') (hl : p.length = c.dims.length) :
    p'.length = c.dims.length := by
  unfold eassign at h
  split at h
  · cases h; exact hl
  · split at h
    · cases h; exact torusCorrect_length _ _ hl
    · cases h

theorem vadd_length (p v : Pos) (h : v.length = p.length) : (vadd p v).length = p.length := by
  induction p generalizing v with
  | nil => cases v <;> simp [vadd]
  | cons x p ih =>
    cases v with
    | nil => simp at h
    | cons y v =>
      simp only [List.length_cons, Nat.add_right_cancel_iff] at h
      simp [vadd, ih v h]

/-- every coordinate of the torus correction is the given one moved by a whole number of sizes, and lies in `[min, max)` -/
theorem torusCorrect_getElem (ds : List (Int × Int)) (hw : ∀ d ∈ ds, d.1 < d.2) (p : Pos) (h : p.length = ds.length)
    (i : Nat) (h1 : i < ds.length) (h2 : i < p.length) (h3 : i < (torusCorrect ds p).length) :
    ds[i].1 ≤ (torusCorrect ds p)[i] ∧ (torusCorrect ds p)[i] < ds[i].2 ∧
    ∃ k : Int, (torusCorrect ds p)[i] = p[i] + k * (ds[i].2 - ds[i].1) := by
  induction ds generalizing p i with
  | nil => simp at h1
  | cons d ds ih =>
    cases p with
    | nil => simp at h2
    | cons x p =>
      simp only [List.length_cons, Nat.add_right_cancel_iff] at h
      cases i with
      | zero =>
        simp only [torusCorrect, List.getElem_cons_zero]
        have hb := wrap_bounds d.1 (d.2 - d.1) x (by have := hw d (by simp); omega)
        exact ⟨hb.1, by omega, wrap_congr _ _ _⟩
      | succ i =>
        simp only [torusCorrect, List.getElem_cons_succ]
        exact ih (fun d' hd' => hw d' (by simp [hd'])) p h i (by simpa using h1) (by simpa using h2)
          (by simpa [torusCorrect] using h3)

/-- `in_bounds`, coordinate by coordinate -/
theorem inBounds_getElem (ds : List (Int × Int)) (p : Pos) (h : inBounds ds p = true)
    (i : Nat) (h1 : i < ds.length) (h2 : i < p.length) : ds[i].1 ≤ p[i] ∧ p[i] ≤ ds[i].2 := by
  induction ds generalizing p i with
  | nil => simp at h1
  | cons d ds ih =>
    cases p with
    | nil => simp at h2
    | cons x p =>
      simp only [inBounds, Bool.and_eq_true, decide_eq_true_eq] at h
      cases i with
      | zero => simpa using h.1
      | succ i =>
        simp only [List.getElem_cons_succ]
        exact ih p h.2 i (by simpa using h1) (by simpa using h2)

/-- an invariant of every recorded position: it holds of what an assignment stores, of what `+=` stores given that it
    held of the old position, and of what is written through the view -/
theorem espec_pos_invariant (c : ECfg) (P : Pos → Prop) (ops : List EOp)
    (hset : ∀ a p, EOp.set a p ∈ ops → ∀ p', eassign c p = some p' → P p')
    (hiadd : ∀ a v q, EOp.iadd a v ∈ ops → P q → ∀ p', eassign c (vadd q v) = some p' → P p')
    (hraw : ∀ i p, EOp.raw i p ∈ ops → P p) :
    ∀ a p, (espec c ops).pos a = some p → P p := by
  suffices H : ∀ (ops' : List EOp) (st : ESpec), (∀ op ∈ ops', op ∈ ops) →
      (∀ a p, st.pos a = some p → P p) →
      ∀ a p, (ops'.foldl (especStep c) st).pos a = some p → P p from
    H ops _ (fun _ h => h) (by simp)
  intro ops'
  induction ops' with
  | nil => intro st _ h; exact h
  | cons op ops' ih =>
    intro st hsub h
    apply ih _ (fun o ho => hsub o (List.mem_cons_of_mem _ ho))
    have hop : op ∈ ops := hsub op (List.mem_cons_self ..)
    have hupd : ∀ (a : Aid) (p' : Pos), P p' → ∀ b q, (upd st.pos a (some p')) b = some q → P q := by
      intro a p' hp' b q hb
      by_cases hba : b = a
      · simp only [upd, hba, if_true, Option.some.injEq] at hb; subst hb; exact hp'
      · simp only [upd, hba, if_false] at hb; exact h b q hb
    have hnone : ∀ (a : Aid) b q, (upd st.pos a none) b = some q → P q := by
      intro a b q hb
      by_cases hba : b = a
      · simp [upd, hba] at hb
      · simp only [upd, hba, if_false] at hb; exact h b q hb
    cases op with
    | new a =>
      simp only [especStep]; split
      · exact h
      · exact hnone a
    | set a p =>
      simp only [especStep]; split
      · split
        · rename_i p' hp; exact hupd a p' (hset a p hop p' hp)
        · exact h
      · exact h
    | remove a =>
      simp only [especStep]; split
      · exact hnone a
      · exact h
    | iadd a v =>
      simp only [especStep]; split
      · split
        · rename_i q hq
          split
          · rename_i p' hp; exact hupd a p' (hiadd a v q hop (h a q hq) p' hp)
          · exact h
        · exact h
      · exact h
    | raw i p =>
      simp only [especStep]; split
      · rename_i a _; exact hupd a p (hraw i p hop)
      · exact h

/-! ### the closed form of "last assigned": calls about other agents change neither membership nor position -/

theorem especStep_members_frame (c : ECfg) (st : ESpec) (op : EOp) (a : Aid) (ha : a ∈ st.members)
    (hne : op ≠ .remove a) : a ∈ (especStep c st op).members := by
  cases op with
  | new b => simp only [especStep]; split <;> simp [ha]
  | set b p => simp only [especStep]; repeat' split
               all_goals exact ha
  | remove b =>
    simp only [especStep]; split
    · have : a ≠ b := fun e => hne (by rw [e])
      simp [List.mem_filter, ha, this]
    · exact ha
  | iadd b v => simp only [especStep]; repeat' split
                all_goals exact ha
  | raw i p => simp only [especStep]; split <;> exact ha

theorem erun_frame_fold (c : ECfg) (cap : Nat) (a : Aid) (post : List EOp) :
    ∀ ops0 : List EOp, a ∈ (erun c cap ops0).active →
    (∀ k (hk : k < post.length), (post[k]).target (erun c cap (ops0 ++ post.take k)) ≠ some a) →
    a ∈ (erun c cap (ops0 ++ post)).active ∧ getPos (erun c cap (ops0 ++ post)) a = getPos (erun c cap ops0) a := by
  induction post with
  | nil => intro ops0 ha _; simp [ha]
  | cons op rest ih =>
    intro ops0 ha h
    have h0 : op.target (erun c cap ops0) ≠ some a := by
      have := h 0 (by simp)
      simpa only [List.getElem_cons_zero, List.take_zero, List.append_nil] using this
    have hstep : erun c cap (ops0 ++ [op]) = estep (erun c cap ops0) op := by simp [erun, List.foldl_append]
    have hmem : a ∈ (erun c cap (ops0 ++ [op])).active := by
      rw [(erun_refines c cap (ops0 ++ [op])).active]
      have : espec c (ops0 ++ [op]) = especStep c (espec c ops0) op := by simp [espec, List.foldl_append]
      rw [this]
      apply especStep_members_frame
      · rw [← (erun_refines c cap ops0).active]; exact ha
      · rintro rfl; exact h0 rfl
    have hpos : getPos (erun c cap (ops0 ++ [op])) a = getPos (erun c cap ops0) a := by
      rw [hstep]; exact getPos_estep_frame (erun_refines c cap ops0).inv op ha h0
    have h' := ih (ops0 ++ [op]) hmem (fun k hk => by
      have := h (k + 1) (by simp; omega)
      simpa [List.append_assoc] using this)
    rw [List.append_assoc] at h'
    simp only [List.cons_append, List.nil_append] at h'
    exact ⟨h'.1, by rw [h'.2, hpos]⟩

theorem lspec_fold_frame (c : LCfg) (a : Aid) (p' : P2) (post : List LOp)
    (hpost : ∀ op ∈ post, ∀ b q, (op = .place b q ∨ op = .move b q ∨ op = .remove b) → b ≠ a) :
    ∀ st : List Aid × (Aid → Option P2), a ∈ st.1 → st.2 a = some p' →
      a ∈ (post.foldl (lspecStep c) st).1 ∧ (post.foldl (lspecStep c) st).2 a = some p' := by
  induction post with
  | nil => intro st h1 h2; exact ⟨h1, h2⟩
  | cons op rest ih =>
    intro st h1 h2
    have hrest := ih (fun o ho => hpost o (List.mem_cons_of_mem _ ho))
    have hop := hpost op (List.mem_cons_self ..)
    simp only [List.foldl_cons]
    cases op with
    | place b q =>
      have hb : a ≠ b := Ne.symm (hop b q (Or.inl rfl))
      simp only [lspecStep]; split
      · apply hrest
        · simp only; split
          · exact h1
          · simp [h1]
        · simp [upd, hb, h2]
      · exact hrest st h1 h2
    | move b q =>
      have hb : a ≠ b := Ne.symm (hop b q (Or.inr (Or.inl rfl)))
      simp only [lspecStep]; split
      · exact hrest _ h1 (by simp [upd, hb, h2])
      · exact hrest st h1 h2
    | remove b =>
      have hb : a ≠ b := Ne.symm (hop b (0, 0) (Or.inr (Or.inr rfl)))
      simp only [lspecStep]; split
      · exact hrest _ (by simp [List.mem_filter, h1, hb]) (by simp [upd, hb, h2])
      · exact hrest st h1 h2
    | nbrs q r incl => exact hrest st h1 h2

/-! ### no call changes the bounds -/

theorem setPos_cfg {s s' : ESpace} {a : Aid} {p : Pos} (h : setPos s a p = .ok s') : s'.cfg = s.cfg := by
  simp only [setPos] at h
  repeat' split at h
  all_goals first | (cases h; rfl) | cases h

theorem removeAgent_cfg {s s' : ESpace} {a : Aid} (h : removeAgent s a = .ok s') : s'.cfg = s.cfg := by
  simp only [removeAgent] at h
  repeat' split at h
  all_goals first | (cases h; rfl) | cases h

theorem estep_cfg (s : ESpace) (op : EOp) : (estep s op).cfg = s.cfg := by
  cases op with
  | new a => simp only [estep]; split <;> rfl
  | set a p =>
    simp only [estep]
    cases h : agentSet s a p with
    | error e => rfl
    | ok s' =>
      simp only [agentSet] at h
      split at h
      · cases h
      · exact setPos_cfg h
  | remove a =>
    simp only [estep, agentRemove]
    by_cases hg : s.gone a = true
    · simp [hg]
    · simp only [hg, Bool.false_eq_true, if_false]
      cases hr : removeAgent s a with
      | error e => rfl
      | ok s'' => show s''.cfg = s.cfg; exact removeAgent_cfg hr
  | iadd a v =>
    simp only [estep]
    cases h : agentIadd s a v with
    | error e => rfl
    | ok s' =>
      simp only [agentIadd] at h
      split at h
      · cases h
      · simp only [agentSet] at h
        split at h
        · cases h
        · exact setPos_cfg h
  | raw i p =>
    simp only [estep, rawWrite]
    by_cases hlt : i < s.view <;> simp [hlt]

end Mesa.Cont
