import MesaModel.Proofs.LegacySet
/-!
`_HexGrid.get_neighborhood` (C09, hexagonal part): the generated offset tables are the six unit steps
of a hexagonal lattice, and the breadth-first expansion returns exactly the cells within `r` steps
(centre by flag), as a strictly sorted list, inside the grid.
-/
namespace Mesa.Legacy

/-! ### the offset tables -/

/-- the generated offset tables are the six unit steps of a hexagonal lattice -/
theorem hexAdjacent_axial (c n : Coord) :
    n ∈ hexAdjacent c ↔ ∃ dd ∈ axialDirs, axial n = ((axial c).1 + dd.1, (axial c).2 + dd.2) := by
  obtain ⟨cx, cy⟩ := c
  obtain ⟨nx, ny⟩ := n
  simp only [hexAdjacent, axial, axialDirs]
  split
  · simp only [Gen.hexEven, List.map_cons, List.map_nil, List.mem_cons, List.not_mem_nil, or_false,
      Prod.mk.injEq, exists_eq_or_imp, exists_eq_left]
    constructor
    · rintro (⟨rfl, rfl⟩ | ⟨rfl, rfl⟩ | ⟨rfl, rfl⟩ | ⟨rfl, rfl⟩ | ⟨rfl, rfl⟩ | ⟨rfl, rfl⟩) <;> omega
    · rintro (⟨rfl, h⟩ | ⟨rfl, h⟩ | ⟨rfl, h⟩ | ⟨rfl, h⟩ | ⟨rfl, h⟩ | ⟨rfl, h⟩) <;> omega
  · simp only [Gen.hexOdd, List.map_cons, List.map_nil, List.mem_cons, List.not_mem_nil, or_false,
      Prod.mk.injEq, exists_eq_or_imp, exists_eq_left]
    constructor
    · rintro (⟨rfl, rfl⟩ | ⟨rfl, rfl⟩ | ⟨rfl, rfl⟩ | ⟨rfl, rfl⟩ | ⟨rfl, rfl⟩ | ⟨rfl, rfl⟩) <;> omega
    · rintro (⟨rfl, h⟩ | ⟨rfl, h⟩ | ⟨rfl, h⟩ | ⟨rfl, h⟩ | ⟨rfl, h⟩ | ⟨rfl, h⟩) <;> omega

theorem hexAdjacent_symm (c n : Coord) : n ∈ hexAdjacent c ↔ c ∈ hexAdjacent n := by
  rw [hexAdjacent_axial, hexAdjacent_axial]
  generalize axial c = a
  generalize axial n = b
  obtain ⟨a1, a2⟩ := a
  obtain ⟨b1, b2⟩ := b
  simp only [axialDirs, List.mem_cons, List.not_mem_nil, or_false, Prod.mk.injEq, exists_eq_or_imp,
    exists_eq_left]
  constructor
  · rintro (⟨rfl, rfl⟩ | ⟨rfl, rfl⟩ | ⟨rfl, rfl⟩ | ⟨rfl, rfl⟩ | ⟨rfl, rfl⟩ | ⟨rfl, rfl⟩) <;> omega
  · rintro (⟨rfl, rfl⟩ | ⟨rfl, rfl⟩ | ⟨rfl, rfl⟩ | ⟨rfl, rfl⟩ | ⟨rfl, rfl⟩ | ⟨rfl, rfl⟩) <;> omega

theorem hexAdjacent_six (c : Coord) : (hexAdjacent c).length = 6 ∧ (hexAdjacent c).Nodup ∧ c ∉ hexAdjacent c := by
  obtain ⟨cx, cy⟩ := c
  simp only [hexAdjacent]
  split
  · simp [Gen.hexEven]
    omega
  · simp [Gen.hexOdd]
    omega

/-! ### `Reach` -/

theorem Reach.succ {α : Type} {nb : α → List α} {k : Nat} {a c : α} (h : Reach nb k a c) : Reach nb (k + 1) a c :=
  Or.inl h

theorem Reach.self {α : Type} (nb : α → List α) (k : Nat) (a : α) : Reach nb k a a := by
  induction k with
  | zero => rfl
  | succ k ih => exact Or.inl ih

theorem Reach.eq_or_step {α : Type} {nb : α → List α} {k : Nat} {a c : α} (h : Reach nb k a c) :
    c = a ∨ ∃ m, c ∈ nb m := by
  induction k with
  | zero => exact Or.inl h
  | succ k ih =>
    rcases h with h | ⟨m, _, h⟩
    · exact ih h
    · exact Or.inr ⟨m, h⟩

/-! ### one item, one level -/

theorem mem_hexFilter (d : Dim) (vis : List Coord) (x n : Coord) :
    n ∈ hexFilter d vis (hexAdjacent x) ↔ n ∈ hexNbrs d x ∧ n ∉ vis := by
  unfold hexFilter hexNbrs
  split
  · simp only [List.mem_filter, decide_eq_true_eq]
  · simp only [List.mem_filter, Bool.and_eq_true, decide_eq_true_eq]
    constructor
    · rintro ⟨h1, h2, h3⟩
      exact ⟨⟨h1, h2⟩, h3⟩
    · rintro ⟨⟨h1, h2⟩, h3⟩
      exact ⟨h1, h2, h3⟩

theorem mem_foldl_sadd (adj vis : List Coord) (c : Coord) :
    c ∈ adj.foldl (fun v c => sadd c v) vis ↔ c ∈ vis ∨ c ∈ adj := by
  induction adj generalizing vis with
  | nil => simp
  | cons x xs ih =>
    simp only [List.foldl_cons, ih, mem_sadd, List.mem_cons]
    constructor
    · rintro ((h | h) | h)
      · exact Or.inr (Or.inl h)
      · exact Or.inl h
      · exact Or.inr (Or.inr h)
    · rintro (h | h | h)
      · exact Or.inl (Or.inr h)
      · exact Or.inl (Or.inl h)
      · exact Or.inr h

theorem sorted_foldl_sadd (adj vis : List Coord) (h : SortedSet vis) :
    SortedSet (adj.foldl (fun v c => sadd c v) vis) := by
  induction adj generalizing vis with
  | nil => simpa using h
  | cons x xs ih =>
    simp only [List.foldl_cons]
    exact ih _ (sorted_sadd x vis h)

theorem mem_hexStep_visited (d : Dim) (more : Bool) (st : List Coord × List Coord) (x c : Coord) :
    c ∈ (hexStep d more st x).2 ↔ c ∈ st.2 ∨ c ∈ hexNbrs d x := by
  simp only [hexStep, mem_foldl_sadd, mem_hexFilter]
  constructor
  · rintro (h | ⟨h, _⟩)
    · exact Or.inl h
    · exact Or.inr h
  · rintro (h | h)
    · exact Or.inl h
    · by_cases hc : c ∈ st.2
      · exact Or.inl hc
      · exact Or.inr ⟨h, hc⟩

theorem mem_hexStep_queue (d : Dim) (st : List Coord × List Coord) (x c : Coord) :
    c ∈ (hexStep d true st x).1 ↔ c ∈ st.1 ∨ (c ∈ (hexStep d true st x).2 ∧ c ∉ st.2) := by
  rw [mem_hexStep_visited]
  simp only [hexStep, if_true, List.mem_append, mem_hexFilter]
  constructor
  · rintro (h | ⟨h1, h2⟩)
    · exact Or.inl h
    · exact Or.inr ⟨Or.inr h1, h2⟩
  · rintro (h | ⟨h1 | h1, h2⟩)
    · exact Or.inl h
    · exact absurd h1 h2
    · exact Or.inr ⟨h1, h2⟩

/-- a level: the visited set grows by the neighbours of the items -/
theorem mem_level_visited (d : Dim) (more : Bool) (items : List Coord) (st : List Coord × List Coord) (c : Coord) :
    c ∈ (items.foldl (hexStep d more) st).2 ↔ c ∈ st.2 ∨ ∃ x ∈ items, c ∈ hexNbrs d x := by
  induction items generalizing st with
  | nil => simp
  | cons y ys ih =>
    simp only [List.foldl_cons, ih, mem_hexStep_visited, List.mem_cons]
    constructor
    · rintro ((h | h) | ⟨x, hx, h⟩)
      · exact Or.inl h
      · exact Or.inr ⟨y, Or.inl rfl, h⟩
      · exact Or.inr ⟨x, Or.inr hx, h⟩
    · rintro (h | ⟨x, rfl | hx, h⟩)
      · exact Or.inl (Or.inl h)
      · exact Or.inl (Or.inr h)
      · exact Or.inr ⟨x, hx, h⟩

/-- a level that queues: the new queue gains exactly the cells that became visited -/
theorem mem_level_queue (d : Dim) (items : List Coord) (st : List Coord × List Coord) (c : Coord) :
    c ∈ (items.foldl (hexStep d true) st).1 ↔
      c ∈ st.1 ∨ (c ∈ (items.foldl (hexStep d true) st).2 ∧ c ∉ st.2) := by
  induction items generalizing st with
  | nil => simp
  | cons y ys ih =>
    simp only [List.foldl_cons]
    rw [ih, mem_hexStep_queue]
    have hsub : c ∈ (hexStep d true st y).2 → c ∈ (ys.foldl (hexStep d true) (hexStep d true st y)).2 := by
      intro h
      rw [mem_level_visited]
      exact Or.inl h
    have hsub0 : c ∈ st.2 → c ∈ (hexStep d true st y).2 := by
      intro h
      rw [mem_hexStep_visited]
      exact Or.inl h
    constructor
    · rintro ((h | ⟨h1, h2⟩) | ⟨h1, h2⟩)
      · exact Or.inl h
      · exact Or.inr ⟨hsub h1, h2⟩
      · exact Or.inr ⟨h1, fun h => h2 (hsub0 h)⟩
    · rintro (h | ⟨h1, h2⟩)
      · exact Or.inl (Or.inl h)
      · by_cases hc : c ∈ (hexStep d true st y).2
        · exact Or.inl (Or.inr ⟨hc, h2⟩)
        · exact Or.inr ⟨h1, hc⟩

theorem sorted_level (d : Dim) (more : Bool) (items : List Coord) (st : List Coord × List Coord)
    (h : SortedSet st.2) : SortedSet (items.foldl (hexStep d more) st).2 := by
  induction items generalizing st with
  | nil => simpa using h
  | cons y ys ih =>
    simp only [List.foldl_cons]
    apply ih
    simp only [hexStep]
    exact sorted_foldl_sadd _ _ h

/-! ### the breadth-first invariant -/

/-- after `k` levels: the visited set is (up to the centre) the set of cells within `k` steps, queued
    cells are within `k` steps, and every cell within `k` steps that is not queued has been expanded -/
structure HexInv (d : Dim) (pos : Coord) (k : Nat) (q v : List Coord) : Prop where
  vis : ∀ c, c ≠ pos → (c ∈ v ↔ Reach (hexNbrs d) k pos c)
  queue : ∀ x ∈ q, Reach (hexNbrs d) k pos x
  done : ∀ c, Reach (hexNbrs d) k pos c → c ∉ q → ∀ n ∈ hexNbrs d c, n ∈ v

theorem HexInv.init (d : Dim) (pos : Coord) : HexInv d pos 0 [pos] [] := by
  refine ⟨?_, ?_, ?_⟩
  · intro c hc
    simp only [Reach, List.not_mem_nil, false_iff]
    exact hc
  · intro x hx
    simp only [List.mem_singleton] at hx
    exact hx
  · intro c hc hq
    simp only [Reach] at hc
    simp only [List.mem_singleton] at hq
    exact absurd hc hq

/-- any level establishes the visited-set clause for one more step -/
theorem HexInv.level_vis {d : Dim} {pos : Coord} {k : Nat} {q v v' : List Coord} (P : HexInv d pos k q v)
    (h1 : ∀ c, c ∈ v' ↔ c ∈ v ∨ ∃ x ∈ q, c ∈ hexNbrs d x) :
    ∀ c, c ≠ pos → (c ∈ v' ↔ Reach (hexNbrs d) (k + 1) pos c) := by
  intro c hc
  rw [h1]
  constructor
  · rintro (h | ⟨x, hx, h⟩)
    · exact Or.inl ((P.vis c hc).mp h)
    · exact Or.inr ⟨x, P.queue x hx, h⟩
  · rintro (h | ⟨m, hm, h⟩)
    · exact Or.inl ((P.vis c hc).mpr h)
    · by_cases hq : m ∈ q
      · exact Or.inr ⟨m, hq, h⟩
      · exact Or.inl (P.done m hm hq c h)

/-- a queueing level re-establishes the invariant -/
theorem HexInv.level {d : Dim} {pos : Coord} {k : Nat} {q v q' v' : List Coord} (P : HexInv d pos k q v)
    (h1 : ∀ c, c ∈ v' ↔ c ∈ v ∨ ∃ x ∈ q, c ∈ hexNbrs d x)
    (h2 : ∀ c, c ∈ q' ↔ c ∈ v' ∧ c ∉ v) : HexInv d pos (k + 1) q' v' := by
  have hv := P.level_vis h1
  refine ⟨hv, ?_, ?_⟩
  · intro x hx
    obtain ⟨hx1, hx2⟩ := (h2 x).mp hx
    rcases (h1 x).mp hx1 with h | ⟨y, hy, h⟩
    · exact absurd h hx2
    · exact Or.inr ⟨y, P.queue y hy, h⟩
  · intro c hc hq n hn
    by_cases hk : Reach (hexNbrs d) k pos c
    · by_cases hcq : c ∈ q
      · exact (h1 n).mpr (Or.inr ⟨c, hcq, hn⟩)
      · exact (h1 n).mpr (Or.inl (P.done c hk hcq n hn))
    · have hne : c ≠ pos := by
        intro e
        subst e
        exact hk (Reach.self _ k c)
      have hnv : c ∉ v := fun h => hk ((P.vis c hne).mp h)
      have hv' : c ∈ v' := (hv c hne).mpr hc
      exact absurd ((h2 c).mpr ⟨hv', hnv⟩) hq

theorem mem_hexLevels (d : Dim) (pos : Coord) (r : Nat) : ∀ (k : Nat) (q v : List Coord), HexInv d pos k q v →
    ∀ c, c ≠ pos → (c ∈ hexLevels d r q v ↔ Reach (hexNbrs d) (k + r) pos c) := by
  induction r with
  | zero =>
    intro k q v P c hc
    simp only [hexLevels, Nat.add_zero]
    exact P.vis c hc
  | succ r ih =>
    intro k q v P c hc
    simp only [hexLevels]
    by_cases hr : r = 0
    · subst hr
      simp only [hexLevels]
      exact P.level_vis (fun c => mem_level_visited d _ q ([], v) c) c hc
    · have hpos : decide (r > 0) = true := by
        simp only [decide_eq_true_eq]
        omega
      rw [hpos]
      have P' : HexInv d pos (k + 1) (q.foldl (hexStep d true) ([], v)).1 (q.foldl (hexStep d true) ([], v)).2 := by
        apply P.level (fun c => mem_level_visited d _ q ([], v) c)
        intro c
        rw [mem_level_queue]
        simp
      have := ih (k + 1) _ _ P' c hc
      rw [this]
      have e : k + 1 + r = k + (r + 1) := by omega
      rw [e]

theorem sorted_hexLevels (d : Dim) (r : Nat) : ∀ (q v : List Coord), SortedSet v → SortedSet (hexLevels d r q v) := by
  induction r with
  | zero =>
    intro q v h
    simpa only [hexLevels] using h
  | succ r ih =>
    intro q v h
    simp only [hexLevels]
    exact ih _ _ (sorted_level d _ q ([], v) h)

/-! ### the specification -/

/-- the breadth-first expansion returns exactly the cells within r steps -/
theorem hex_spec (d : Dim) (pos : Coord) (ic : Bool) (r : Nat) :
    SortedSet (hexCompute d pos ic r) ∧
    ∀ c, c ∈ hexCompute d pos ic r ↔ (c = pos → ic = true) ∧ (c ≠ pos → Reach (hexNbrs d) r pos c) := by
  have hs : SortedSet (hexLevels d r [pos] []) := sorted_hexLevels d r [pos] [] List.Pairwise.nil
  have hm : ∀ c, c ≠ pos → (c ∈ hexLevels d r [pos] [] ↔ Reach (hexNbrs d) r pos c) := by
    intro c hc
    have := mem_hexLevels d pos r 0 [pos] [] (HexInv.init d pos) c hc
    rw [Nat.zero_add] at this
    exact this
  unfold hexCompute
  cases ic with
  | true =>
    simp only [if_true]
    refine ⟨sorted_sadd _ _ hs, ?_⟩
    intro c
    rw [mem_sadd]
    by_cases e : c = pos
    · simp [e]
    · simp only [e, false_or, false_imp_iff, true_and, not_false_eq_true, true_imp_iff, ne_eq]
      exact hm c e
  | false =>
    simp only [Bool.false_eq_true, if_false]
    refine ⟨sorted_sdiscard _ _ hs, ?_⟩
    intro c
    rw [mem_sdiscard]
    by_cases e : c = pos
    · simp [e]
    · simp only [e, ne_eq, not_false_eq_true, and_true, false_imp_iff, true_and, true_imp_iff]
      exact hm c e

theorem hexNbrs_inGrid (d : Dim) (hw : 0 < d.w) (hh : 0 < d.h) (x n : Coord) (h : n ∈ hexNbrs d x) : d.inGrid n := by
  unfold hexNbrs at h
  unfold Dim.inGrid
  split at h
  · simp only [List.mem_map] at h
    obtain ⟨m, _, rfl⟩ := h
    exact ⟨Int.emod_nonneg _ (by omega), Int.emod_lt_of_pos _ hw, Int.emod_nonneg _ (by omega), Int.emod_lt_of_pos _ hh⟩
  · simp only [List.mem_filter, Dim.oob, Bool.not_eq_true', Bool.or_eq_false_iff, decide_eq_false_iff_not] at h
    omega

theorem hex_inGrid (d : Dim) (hw : 0 < d.w) (hh : 0 < d.h) (pos : Coord) (hpos : d.inGrid pos) (ic : Bool) (r : Nat) :
    ∀ c ∈ hexCompute d pos ic r, d.inGrid c := by
  intro c hc
  have h := ((hex_spec d pos ic r).2 c).mp hc
  by_cases e : c = pos
  · rw [e]
    exact hpos
  · rcases (h.2 e).eq_or_step with h' | ⟨m, h'⟩
    · exact absurd h' e
    · exact hexNbrs_inGrid d hw hh m c h'

end Mesa.Legacy
