import MesaModel.Base.Rng
/-! How many draws a shuffle consumes and which draws it looks at (used by `Props/C01Agents.lean`). -/
namespace Mesa.Rng

theorem below_script (r : Rng) (n : Nat) : (r.below n).2.script = r.script.drop 1 := by
  unfold below next
  cases h : r.script <;> simp [h]

theorem shuffleAux_script {α} (i : Nat) (a : Array α) (r : Rng) : (shuffleAux i a r).2.script = r.script.drop i := by
  induction i generalizing a r with
  | zero => simp [shuffleAux]
  | succ i ih =>
    simp only [shuffleAux]
    rw [ih, below_script, List.drop_drop]
    congr 1
    omega

/-- a shuffle of `n` members consumes exactly `n - 1` draws (none for `n ≤ 1`), whatever the draws are -/
theorem shuffle_script {α} (l : List α) (r : Rng) : (shuffle l r).2.script = r.script.drop (l.length - 1) := by
  simp only [shuffle, List.size_toArray]
  exact shuffleAux_script _ _ _

theorem below_fst_of_take (r r' : Rng) (n : Nat) (h : r.script.take 1 = r'.script.take 1) :
    (r.below n).1 = (r'.below n).1 := by
  unfold below next
  cases h1 : r.script <;> cases h2 : r'.script <;> simp_all

theorem shuffleAux_of_take {α} (i : Nat) (a : Array α) (r r' : Rng) (h : r.script.take i = r'.script.take i) :
    (shuffleAux i a r).1 = (shuffleAux i a r').1 := by
  induction i generalizing a r r' with
  | zero => simp [shuffleAux]
  | succ i ih =>
    simp only [shuffleAux]
    have h1 : r.script.take 1 = r'.script.take 1 := by
      have := congrArg (List.take 1) h
      simpa [List.take_take] using this
    rw [below_fst_of_take r r' (i + 2) h1]
    apply ih
    rw [below_script, below_script]
    have := congrArg (List.drop 1) h
    simpa [List.drop_take] using this

/-- the result of a shuffle of `n` members depends on the first `n - 1` draws only -/
theorem shuffle_of_take {α} (l : List α) (r r' : Rng)
    (h : r.script.take (l.length - 1) = r'.script.take (l.length - 1)) : (shuffle l r).1 = (shuffle l r').1 := by
  simp only [shuffle, List.size_toArray]
  rw [shuffleAux_of_take _ _ r r' h]

end Mesa.Rng
