import MesaModel.Model.VizAltair
import MesaModel.Proofs.Viz
/-!
Helper lemmas for the Altair chart part of C20 (`Model/VizAltair.lean`).
-/
namespace Mesa.Viz

theorem hasKey_eq_contains (d : Dict) (k : Key) : Dict.hasKey d k = (Dict.keys d).contains k := by
  unfold Dict.hasKey Dict.keys
  induction d with
  | nil => rfl
  | cons kv d ih =>
    simp only [List.any_cons, List.map_cons, List.contains_cons, ih]
    congr 1
    exact Bool.beq_comm

theorem keys_map_set (k : Key) (v : Val) : ∀ (d : Dict),
    Dict.keys (d.map fun kv => if kv.1 == k then (k, v) else kv) = Dict.keys d
  | [] => rfl
  | kv :: d => by
    have ih := keys_map_set k v d
    unfold Dict.keys at ih ⊢
    simp only [List.map_cons, ih, List.cons.injEq, and_true]
    by_cases h : (kv.1 == k) = true
    · rw [if_pos h]; exact (beq_iff_eq.mp h).symm
    · rw [if_neg h]

/-- `d[k] = v`: an existing key keeps its place, a new one is appended -/
theorem keys_set (d : Dict) (k : Key) (v : Val) :
    Dict.keys (Dict.set d k v) = if Dict.hasKey d k then Dict.keys d else Dict.keys d ++ [k] := by
  unfold Dict.set
  split
  · exact keys_map_set k v d
  · unfold Dict.keys; simp

/-- the keys of an Altair row other than `x` / `y` are the portrayal's, in its order -/
theorem keys_altairRow_filter (d : Dict) (l : Loc) (q : Key → Bool) (hx : q "x" = false) (hy : q "y" = false) :
    (Dict.keys (altairRow d l)).filter q = (Dict.keys d).filter q := by
  unfold altairRow
  rw [keys_set]
  split
  · rw [keys_set]
    split
    · rfl
    · rw [List.filter_append]; simp [hx]
  · rw [List.filter_append, keys_set]
    split
    · simp [hy]
    · rw [List.filter_append]; simp [hx, hy]

theorem hasKey_altairRow (d : Dict) (l : Loc) {k : Key} (hx : k ≠ "x") (hy : k ≠ "y") :
    Dict.hasKey (altairRow d l) k = Dict.hasKey d k := by
  have h := keys_altairRow_filter d l (fun k' => k' == k) (by simpa using fun e => hx e.symm) (by simpa using fun e => hy e.symm)
  rw [hasKey_eq_contains, hasKey_eq_contains]
  have hc : ∀ ks : List Key, ks.contains k = !(ks.filter fun k' => k' == k).isEmpty := by
    intro ks
    induction ks with
    | nil => rfl
    | cons a ks ih =>
      rw [List.contains_cons, List.filter_cons]
      by_cases hak : (a == k) = true
      · have : (k == a) = true := by rw [Bool.beq_comm]; exact hak
        simp [hak, this]
      · have : (k == a) = false := by rw [Bool.beq_comm]; simpa using hak
        rw [this, Bool.false_or, ih]
        simp [hak]
  rw [hc, hc, h]

/-- the chart of a supported space: the rows, and the facts read off the first of them -/
theorem altairChart_eq {sp : Space} {heap : Heap} {p : Portrayal} {rows : List Dict}
    (h : altairRows sp heap p = .ok rows) (hpos : min sp.w sp.h ≠ 0) :
    altairChart sp heap p = .ok
      { rows, xyType := if sp.fam = .cs then "nominal" else "ordinal",
        tooltip := (Dict.keys (firstRow rows)).filter fun k => !invalidTooltips.contains k,
        color := Dict.hasKey (firstRow rows) "color", size := Dict.hasKey (firstRow rows) "size",
        markSize := if Dict.hasKey (firstRow rows) "size" then none
          else some ⟨30000, (min sp.w sp.h) * (min sp.w sp.h)⟩ } := by
  unfold altairChart
  rw [h]
  simp [hpos]

/-- a supported space of width or height 0 (it holds no agent, so no size comes from the rows): ZeroDivisionError -/
theorem altairChart_zero {sp : Space} {heap : Heap} {p : Portrayal}
    (h : altairRows sp heap p = .ok []) (hz : min sp.w sp.h = 0) :
    altairChart sp heap p = .error .zeroDivision := by
  unfold altairChart
  rw [h]
  simp [firstRow, Dict.hasKey, hz]

/-- the first row of the rows of a list of located agents is the row of the first agent -/
theorem firstRow_filterMap (heap : Heap) (p : Portrayal) (a : Agent) (rest : List Agent) {l : Loc}
    (hl : a.location = some l) :
    firstRow ((a :: rest).filterMap (rowOf heap p)) = altairRow (portrayed heap p a.id) l := by
  simp [firstRow, rowOf, hl]

end Mesa.Viz
