import MesaModel.Model.StepMro
import MesaModel.Proofs.StepCounter
/-! Helper lemmas about the C3 linearisation of `Model/StepMro.lean` (property C05, multiple inheritance). -/
namespace Mesa.Steps

/-! ### one round of the merge -/

theorem c3Pick_spec {seqs : List (List Nat)} {h : Nat} (hp : c3Pick seqs = some h) :
    (∃ s ∈ seqs, s.head? = some h) ∧ ∀ s ∈ seqs, h ∉ s.tail := by
  unfold c3Pick at hp
  have hmem := List.mem_of_find?_eq_some hp
  have hprop := List.find?_some hp
  refine ⟨?_, ?_⟩
  · obtain ⟨s, hs, hh⟩ := List.mem_filterMap.mp hmem
    exact ⟨s, hs, hh⟩
  · intro s hs hin
    have := (List.all_eq_true.mp hprop) s hs
    simp [hin] at this

theorem mem_c3Remove {h : Nat} {seqs : List (List Nat)} {t : List Nat} :
    t ∈ c3Remove h seqs ↔ t ≠ [] ∧ ∃ s ∈ seqs, t = if s.head? = some h then s.tail else s := by
  unfold c3Remove
  simp only [List.mem_filter, List.mem_map, Bool.not_eq_eq_eq_not, Bool.not_true, List.isEmpty_eq_false_iff]
  constructor
  · rintro ⟨⟨s, hs, rfl⟩, hne⟩
    exact ⟨hne, s, hs, rfl⟩
  · rintro ⟨hne, s, hs, rfl⟩
    exact ⟨⟨s, hs, rfl⟩, hne⟩

/-- what a successful merge returns: exactly the elements of the sequences, nobody twice, and every
    sequence keeps its order inside the result -/
theorem c3Merge_spec (f : Nat) (seqs : List (List Nat)) (out : List Nat) (hm : c3Merge f seqs = some out) :
    (∀ x, x ∈ out ↔ ∃ s ∈ seqs, x ∈ s) ∧ out.Nodup ∧ ∀ s ∈ seqs, s.Sublist out := by
  induction f generalizing seqs out with
  | zero =>
    cases seqs with
    | nil =>
      simp only [c3Merge, Option.some.injEq] at hm; subst hm
      exact ⟨by simp, List.nodup_nil, by simp⟩
    | cons s rest => simp [c3Merge] at hm
  | succ f ih =>
    cases seqs with
    | nil =>
      simp only [c3Merge, Option.some.injEq] at hm; subst hm
      exact ⟨by simp, List.nodup_nil, by simp⟩
    | cons s0 rest =>
      simp only [c3Merge] at hm
      cases hp : c3Pick (s0 :: rest) with
      | none => simp [hp] at hm
      | some h =>
        simp only [hp] at hm
        cases hr : c3Merge f (c3Remove h (s0 :: rest)) with
        | none => simp [hr] at hm
        | some out' =>
          simp only [hr, Option.map_some, Option.some.injEq] at hm
          subst hm
          obtain ⟨ha, hb, hc⟩ := ih _ _ hr
          obtain ⟨⟨sh, hsh, hhead⟩, htail⟩ := c3Pick_spec hp
          -- membership
          have hmem : ∀ x, x ∈ h :: out' ↔ ∃ s ∈ s0 :: rest, x ∈ s := by
            intro x
            rw [List.mem_cons, ha]
            constructor
            · rintro (rfl | ⟨t, ht, hx⟩)
              · exact ⟨sh, hsh, List.mem_of_mem_head? hhead⟩
              · obtain ⟨_, s, hs, rfl⟩ := mem_c3Remove.mp ht
                refine ⟨s, hs, ?_⟩
                split at hx
                · exact List.mem_of_mem_tail hx
                · exact hx
            · rintro ⟨s, hs, hx⟩
              by_cases hsh' : s.head? = some h
              · cases s with
                | nil => simp at hx
                | cons a tl =>
                  simp only [List.head?_cons, Option.some.injEq] at hsh'
                  subst hsh'
                  rcases List.mem_cons.mp hx with rfl | hx
                  · exact Or.inl rfl
                  · refine Or.inr ⟨tl, mem_c3Remove.mpr ⟨List.ne_nil_of_mem hx, a :: tl, hs, by simp⟩, hx⟩
              · exact Or.inr ⟨s, mem_c3Remove.mpr ⟨List.ne_nil_of_mem hx, s, hs, by simp [hsh']⟩, hx⟩
          refine ⟨hmem, ?_, ?_⟩
          · -- h is gone from every remaining sequence
            refine List.nodup_cons.mpr ⟨?_, hb⟩
            intro hin
            obtain ⟨t, ht, hx⟩ := (ha h).mp hin
            obtain ⟨_, s, hs, rfl⟩ := mem_c3Remove.mp ht
            split at hx
            · exact htail s hs hx
            · rename_i hne
              cases s with
              | nil => simp at hx
              | cons a tl =>
                rcases List.mem_cons.mp hx with rfl | hx
                · simp at hne
                · exact htail _ hs hx
          · intro s hs
            by_cases hsh' : s.head? = some h
            · cases s with
              | nil => simp
              | cons a tl =>
                simp only [List.head?_cons, Option.some.injEq] at hsh'
                subst hsh'
                by_cases htl : tl = []
                · subst htl; simp
                · exact (hc tl (mem_c3Remove.mpr ⟨htl, a :: tl, hs, by simp⟩)).cons_cons a
            · by_cases hnil : s = []
              · subst hnil; simp
              · exact (hc s (mem_c3Remove.mpr ⟨hnil, s, hs, by simp [hsh']⟩)).cons h

/-- a single duplicate-free sequence merges to itself -/
theorem c3Merge_single (s : List Nat) (hn : s.Nodup) (f : Nat) (hf : s.length ≤ f) (hne : s ≠ []) :
    c3Merge f [s] = some s := by
  induction s generalizing f with
  | nil => exact absurd rfl hne
  | cons a tl ih =>
    cases f with
    | zero => simp at hf
    | succ f =>
      have hnd := List.nodup_cons.mp hn
      have hp : c3Pick [a :: tl] = some a := by
        simp [c3Pick, hnd.1]
      simp only [c3Merge, hp]
      by_cases htl : tl = []
      · subst htl; simp [c3Remove, c3Merge]
      · have hr : c3Remove a [a :: tl] = [tl] := by simp [c3Remove, htl]
        rw [hr, ih hnd.2 f (by simpa using hf) htl]
        rfl

/-! ### the class table -/

/-- every recorded MRO starts with its own class, mentions only classes defined no later, nobody twice -/
def TInv (T : Table) : Prop :=
  ∀ (k : Nat) (m : List Nat), T[k]? = some m → m.head? = some k ∧ (∀ x ∈ m, x ≤ k) ∧ m.Nodup

theorem TInv_init : TInv Table.init := by
  intro k m h
  cases k with
  | zero => simp [Table.init] at h; subst h; simp
  | succ k => simp [Table.init] at h

theorem Table.mro_of_lt {T : Table} {c : Nat} (h : c < T.length) : T[c]? = some (T.mro c) := by
  simp [Table.mro, List.getElem?_eq_getElem h]

theorem Table.mro_le {T : Table} (hT : TInv T) {c x : Nat} (hx : x ∈ T.mro c) : x ≤ c := by
  unfold Table.mro at hx
  cases h : T[c]? with
  | none => simp [h] at hx
  | some m => simp only [h, Option.getD_some] at hx; exact (hT c m h).2.1 x hx

/-- all facts about a successful class definition at once -/
theorem Table.linearise_spec {T : Table} (hT : TInv T) {bases m : List Nat} (h : T.linearise bases = some m) :
    m.head? = some T.length ∧ m.Nodup ∧ (∀ x ∈ m, x ≤ T.length) ∧
    (∀ b ∈ bases, (T.mro b).Sublist m) ∧ bases.Sublist m ∧
    (∀ x ∈ m, x = T.length ∨ x ∈ bases ∨ ∃ b ∈ bases, x ∈ T.mro b) ∧
    (∀ b ∈ bases, b < T.length) ∧ bases.Nodup := by
  unfold Table.linearise at h
  split at h
  · rename_i hc
    simp only [Bool.and_eq_true, List.all_eq_true, decide_eq_true_eq] at hc
    obtain ⟨hlt, hnd⟩ := hc
    obtain ⟨out, hm, rfl⟩ := Option.map_eq_some_iff.mp h
    · clear h
      obtain ⟨ha, hb, hc⟩ := c3Merge_spec _ _ _ hm
      have hsmall : ∀ x ∈ out, x < T.length := by
        intro x hx
        obtain ⟨s, hs, hxs⟩ := (ha x).mp hx
        simp only [List.mem_filter, List.mem_append, List.mem_map, List.mem_singleton] at hs
        rcases hs.1 with ⟨b, hb', rfl⟩ | rfl
        · exact Nat.lt_of_le_of_lt (Table.mro_le hT hxs) (by simpa using hlt b hb')
        · simpa using hlt x hxs
      have hsub : ∀ s, s ∈ bases.map T.mro ++ [bases] → s.Sublist out := by
        intro s hs
        by_cases hnil : s = []
        · subst hnil; simp
        · apply hc
          simp only [List.mem_filter, Bool.not_eq_eq_eq_not, Bool.not_true, List.isEmpty_eq_false_iff]
          exact ⟨hs, hnil⟩
      refine ⟨rfl, ?_, ?_, ?_, ?_, ?_, fun b hb' => by simpa using hlt b hb', hnd⟩
      · exact List.nodup_cons.mpr ⟨fun hin => Nat.lt_irrefl _ (hsmall _ hin), hb⟩
      · intro x hx
        rcases List.mem_cons.mp hx with rfl | hx
        · exact Nat.le_refl _
        · exact Nat.le_of_lt (hsmall x hx)
      · intro b hb'
        exact (hsub _ (by simp only [List.mem_append, List.mem_map]; exact Or.inl ⟨b, hb', rfl⟩)).cons _
      · exact (hsub _ (by simp)).cons _
      · intro x hx
        rcases List.mem_cons.mp hx with rfl | hx
        · exact Or.inl rfl
        · obtain ⟨s, hs, hxs⟩ := (ha x).mp hx
          simp only [List.mem_filter, List.mem_append, List.mem_map, List.mem_singleton] at hs
          rcases hs.1 with ⟨b, hb', rfl⟩ | rfl
          · exact Or.inr (Or.inr ⟨b, hb', hxs⟩)
          · exact Or.inr (Or.inl hxs)
  · simp at h

theorem TInv_define {T T' : Table} (hT : TInv T) {bases : List Nat} (h : T.define bases = some T') : TInv T' := by
  unfold Table.define at h
  cases hl : T.linearise bases with
  | none => simp [hl] at h
  | some m =>
    simp only [hl, Option.map_some, Option.some.injEq] at h
    subst h
    obtain ⟨h1, h2, h3, _⟩ := Table.linearise_spec hT hl
    intro k m' hk
    by_cases hlt : k < T.length
    · rw [List.getElem?_append_left hlt] at hk
      exact hT k m' hk
    · have hge : T.length ≤ k := Nat.le_of_not_lt hlt
      rw [List.getElem?_append_right hge] at hk
      have hk0 : k - T.length = 0 := by
        cases hd : k - T.length with
        | zero => rfl
        | succ j => simp [hd] at hk
      simp only [hk0, List.getElem?_cons_zero, Option.some.injEq] at hk
      subst hk
      have : k = T.length := by omega
      subst this
      exact ⟨h1, h3, h2⟩

/-- single inheritance: the MRO of `class K(B)` is `K` followed by the MRO of `B` -/
theorem Table.linearise_single {T : Table} (hT : TInv T) {b : Nat} (hb : b < T.length) :
    T.linearise [b] = some (T.length :: T.mro b) := by
  obtain ⟨hh, _, hn⟩ := hT b (T.mro b) (Table.mro_of_lt hb)
  cases hm : T.mro b with
  | nil => simp [hm] at hh
  | cons a rest =>
    simp only [hm, List.head?_cons, Option.some.injEq] at hh
    subst hh
    rw [hm] at hn
    have hnd := List.nodup_cons.mp hn
    unfold Table.linearise
    have hc : ([a].all (· < T.length) && decide [a].Nodup) = true := by simp [hb]
    rw [if_pos hc]
    have hseqs : (([a].map T.mro ++ [[a]]).filter (fun s => !s.isEmpty)) = [a :: rest, [a]] := by simp [hm]
    simp only [hseqs]
    have hp : c3Pick [a :: rest, [a]] = some a := by simp [c3Pick, hnd.1]
    have hfuel : (List.map List.length [a :: rest, [a]]).sum + 1 = (rest.length + 2) + 1 := by simp
    rw [hfuel]
    simp only [c3Merge, hp]
    by_cases hr : rest = []
    · subst hr; simp [c3Remove, c3Merge]
    · have hrm : c3Remove a [a :: rest, [a]] = [rest] := by simp [c3Remove, hr]
      rw [hrm, c3Merge_single rest hnd.2 _ (by omega) hr]
      rfl

/-! ### from positions in the MRO to classes -/

/-- picking the entries of a list at strictly increasing positions gives a sublist -/
theorem filterMap_getElem?_sublist {α : Type} (l : List α) (ds : List Nat) (hd : ds.Pairwise (· < ·)) :
    (ds.filterMap (l[·]?)).Sublist l := by
  induction l generalizing ds with
  | nil => simp
  | cons a l ih =>
    have shift : ∀ (es : List Nat), (∀ x ∈ es, 1 ≤ x) →
        es.filterMap ((a :: l)[·]?) = (es.map (· - 1)).filterMap (l[·]?) := by
      intro es hes
      induction es with
      | nil => rfl
      | cons x es ihe =>
        have hx := hes x List.mem_cons_self
        obtain ⟨y, rfl⟩ : ∃ y, x = y + 1 := ⟨x - 1, by omega⟩
        simp only [List.filterMap_cons, List.map_cons, List.getElem?_cons_succ, Nat.add_sub_cancel]
        rw [ihe (fun z hz => hes z (List.mem_cons_of_mem _ hz))]
    have mono : ∀ (es : List Nat), es.Pairwise (· < ·) → (∀ x ∈ es, 1 ≤ x) → (es.map (· - 1)).Pairwise (· < ·) := by
      intro es hp hes
      rw [List.pairwise_map]
      exact hp.imp_of_mem (fun {x y} hx hy hxy => by have := hes x hx; have := hes y hy; omega)
    cases ds with
    | nil => simp
    | cons d ds =>
      have hp := List.pairwise_cons.mp hd
      cases d with
      | zero =>
        have hes : ∀ x ∈ ds, 1 ≤ x := fun x hx => hp.1 x hx
        simp only [List.filterMap_cons, List.getElem?_cons_zero]
        rw [shift ds hes]
        exact (ih _ (mono ds hp.2 hes)).cons_cons a
      | succ d =>
        have hes : ∀ x ∈ (d + 1) :: ds, 1 ≤ x := by
          intro x hx
          rcases List.mem_cons.mp hx with rfl | hx
          · omega
          · have := hp.1 x hx; omega
        rw [shift _ hes]
        exact (ih _ (mono _ hd hes)).cons a

theorem overriding_lt (h : Hier) (d : Nat) : ∀ x ∈ overriding h d, x < d + h.length := by
  induction h generalizing d with
  | nil => simp [overriding]
  | cons L rest ih =>
    intro x hx
    unfold overriding at hx
    split at hx
    · rcases List.mem_cons.mp hx with rfl | hx
      · simp
      · have := ih (d + 1) x hx; simp; omega
    · have := ih (d + 1) x hx; simp; omega

theorem mem_overriding (h : Hier) (d : Nat) : ∀ x ∈ overriding h d, ∃ L, h[x - d]? = some L ∧ L.overrides = true := by
  induction h generalizing d with
  | nil => simp [overriding]
  | cons L rest ih =>
    intro x hx
    unfold overriding at hx
    have step : x ∈ overriding rest (d + 1) → ∃ L', (L :: rest)[x - d]? = some L' ∧ L'.overrides = true := by
      intro hx'
      obtain ⟨L', h1, h2⟩ := ih (d + 1) x hx'
      have hge := overriding_ge rest (d + 1) x hx'
      obtain ⟨y, hy⟩ : ∃ y, x - d = y + 1 := ⟨x - d - 1, by omega⟩
      have : x - (d + 1) = y := by omega
      rw [this] at h1
      exact ⟨L', by rw [hy]; simpa using h1, h2⟩
    split at hx
    · rename_i hL
      rcases List.mem_cons.mp hx with rfl | hx
      · exact ⟨L, by simp, hL⟩
      · exact step hx
    · exact step hx

theorem of_mem_takeWhile {α : Type} {p : α → Bool} {l : List α} {x : α} (h : x ∈ l.takeWhile p) : p x = true := by
  induction l with
  | nil => simp at h
  | cons a l ih =>
    rw [List.takeWhile_cons] at h
    split at h
    · rename_i hp
      rcases List.mem_cons.mp h with rfl | h
      · exact hp
      · exact ih h
    · simp at h

theorem length_filterMap_of_isSome {α β : Type} (f : α → Option β) (l : List α) (h : ∀ x ∈ l, (f x).isSome = true) :
    (l.filterMap f).length = l.length := by
  induction l with
  | nil => rfl
  | cons a l ih =>
    have ha := h a List.mem_cons_self
    cases hf : f a with
    | none => simp [hf] at ha
    | some b =>
      simp only [List.filterMap_cons, hf, List.length_cons]
      rw [ih (fun x hx => h x (List.mem_cons_of_mem _ hx))]

/-- every table built from `Table.init` by successful class definitions is well formed -/
theorem TInv_foldlM (defs : List (List Nat)) (T0 T : Table) (h0 : TInv T0)
    (h : defs.foldlM (fun T b => T.define b) T0 = some T) : TInv T := by
  induction defs generalizing T0 with
  | nil => simp [List.foldlM] at h; subst h; exact h0
  | cons b defs ih =>
    simp only [List.foldlM_cons] at h
    cases hd : T0.define b with
    | none => simp [hd] at h
    | some T1 =>
      simp only [hd] at h
      exact ih T1 (TInv_define h0 hd) h

end Mesa.Steps
