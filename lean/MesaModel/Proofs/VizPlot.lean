import MesaModel.Model.VizPlot
/-!
Helper lemmas for the measure plots (`Model/VizPlot.lean`).
-/
namespace Mesa.Viz

/-- the line the table yields for one request -/
def lineOf (t : Table) (r : String × Option String × Option String) : Option PlotLine :=
  (t.lookup r.1).map fun ys => ⟨r.2.1, r.2.2, ys⟩

theorem plotLines_ok_iff (t : Table) : ∀ (rs : List (String × Option String × Option String)) (ls : List PlotLine),
    plotLines t rs = .ok ls ↔ rs.map (lineOf t) = ls.map some
  | [], ls => by cases ls <;> simp [plotLines]
  | (m, label, color) :: rest, ls => by
    unfold plotLines
    cases hl : t.lookup m with
    | none =>
      simp only [List.map_cons, lineOf, hl, Option.map_none]
      constructor
      · intro h; cases h
      · intro h; cases ls <;> simp at h
    | some ys =>
      simp only
      have ih := plotLines_ok_iff t rest
      cases hr : plotLines t rest with
      | error e =>
        simp only [List.map_cons, lineOf, hl, Option.map_some]
        constructor
        · intro h; cases h
        · intro h
          cases ls with
          | nil => simp at h
          | cons x xs =>
            simp only [List.map_cons, List.cons.injEq] at h
            have := (ih xs).mpr h.2
            rw [hr] at this; cases this
      | ok ls1 =>
        simp only [List.map_cons, lineOf, hl, Option.map_some]
        constructor
        · intro h
          injection h with h; subst h
          simp only [List.map_cons, List.cons.injEq, true_and]
          exact (ih ls1).mp hr
        · intro h
          cases ls with
          | nil => simp at h
          | cons x xs =>
            simp only [List.map_cons, List.cons.injEq, Option.some.injEq] at h
            have h2 := (ih xs).mpr h.2
            rw [hr] at h2
            injection h2 with h2
            rw [h.1, h2]

theorem plotLines_error_iff (t : Table) : ∀ (rs : List (String × Option String × Option String)) (m : String),
    plotLines t rs = .error m ↔
      ∃ before r after, rs = before ++ r :: after ∧ r.1 = m ∧ t.lookup m = none ∧ ∀ b ∈ before, (t.lookup b.1).isSome
  | [], m => by simp [plotLines]
  | (m0, label, color) :: rest, m => by
    unfold plotLines
    have ih := plotLines_error_iff t rest m
    cases hl : t.lookup m0 with
    | none =>
      simp only
      constructor
      · intro h
        injection h with h
        exact ⟨[], (m0, label, color), rest, rfl, h, by rw [← h]; exact hl, by simp⟩
      · rintro ⟨before, r, after, hsplit, hx, hnone, hb⟩
        cases before with
        | nil =>
          simp only [List.nil_append, List.cons.injEq] at hsplit
          rw [← hsplit.1] at hx
          rw [← hx]
        | cons b bs =>
          simp only [List.cons_append, List.cons.injEq] at hsplit
          have := hb b List.mem_cons_self
          rw [← hsplit.1] at this
          simp only at this
          rw [hl] at this
          cases this
    | some ys =>
      simp only
      cases hr : plotLines t rest with
      | ok ls1 =>
        rw [hr] at ih
        simp only
        constructor
        · intro h; cases h
        · rintro ⟨before, r, after, hsplit, hx, hnone, hb⟩
          cases before with
          | nil =>
            simp only [List.nil_append, List.cons.injEq] at hsplit
            rw [← hsplit.1] at hx
            simp only at hx
            rw [hx, hnone] at hl
            cases hl
          | cons b bs =>
            simp only [List.cons_append, List.cons.injEq] at hsplit
            have := ih.mpr ⟨bs, r, after, hsplit.2, hx, hnone, fun x hx => hb x (List.mem_cons_of_mem _ hx)⟩
            cases this
      | error e =>
        rw [hr] at ih
        simp only
        constructor
        · intro h
          injection h with h
          subst h
          obtain ⟨before, r, after, hsplit, hx, hnone, hb⟩ := ih.mp rfl
          refine ⟨(m0, label, color) :: before, r, after, by rw [hsplit]; rfl, hx, hnone, fun b hbm => ?_⟩
          rcases List.mem_cons.mp hbm with rfl | hbm
          · simp only; rw [hl]; rfl
          · exact hb b hbm
        · rintro ⟨before, r, after, hsplit, hx, hnone, hb⟩
          cases before with
          | nil =>
            simp only [List.nil_append, List.cons.injEq] at hsplit
            rw [← hsplit.1] at hx
            simp only at hx
            rw [hx, hnone] at hl
            cases hl
          | cons b bs =>
            simp only [List.cons_append, List.cons.injEq] at hsplit
            have := ih.mpr ⟨bs, r, after, hsplit.2, hx, hnone, fun x hx => hb x (List.mem_cons_of_mem _ hx)⟩
            rw [this]

end Mesa.Viz
