import MesaModel.Model.Signals
/-!
Helper lemmas about extended slices (`Slc`: open bounds, steps other than 1, negative steps).
-/
namespace Mesa.Signals

/-- the adjusted bounds: within `[0, len]` for a positive step, within `[-1, len - 1]` for a negative one -/
theorem Slc.adjust_bounds {s : Slc} {len : Nat} {start stop step : Int} (h : s.adjust len = some (start, stop, step)) :
    step ≠ 0 ∧ step = s.c.getD 1 ∧
    (0 < step → 0 ≤ start ∧ start ≤ len ∧ 0 ≤ stop ∧ stop ≤ len) ∧
    (step < 0 → -1 ≤ start ∧ start ≤ (len : Int) - 1 ∧ -1 ≤ stop ∧ stop ≤ (len : Int) - 1) := by
  unfold Slc.adjust at h
  simp only at h
  split at h
  · cases h
  · rename_i h0
    injection h with h
    injection h with h1 h2
    injection h2 with h2 h3
    subst h3
    refine ⟨h0, rfl, fun hp => ?_, fun hn => ?_⟩
    · have hnn : ¬ (s.c.getD 1 < 0) := by omega
      subst h1 h2
      simp only [hnn, if_false]
      refine ⟨?_, ?_, ?_, ?_⟩ <;> (split <;> (try split) <;> (try split) <;> omega)
    · subst h1 h2
      simp only [hn, if_true]
      refine ⟨?_, ?_, ?_, ?_⟩ <;> (split <;> (try split) <;> (try split) <;> omega)

/-- every position an extended slice selects exists -/
theorem sliceLen_in_range {start stop step : Int} {L : Int} {j : Nat}
    (hp : 0 < step → 0 ≤ start ∧ stop ≤ L) (hn : step < 0 → -1 ≤ stop ∧ start ≤ L - 1) (h0 : step ≠ 0)
    (hj : j < sliceLen start stop step) : 0 ≤ start + (j : Int) * step ∧ start + (j : Int) * step < L := by
  unfold sliceLen at hj
  by_cases hs : step < 0
  · simp only [hs, if_true] at hj
    obtain ⟨h1, h2⟩ := hn hs
    split at hj
    · rename_i hlt
      have hpos : 0 < -step := by omega
      have hq := Int.ediv_mul_le (start - stop - 1) (Int.ne_of_gt hpos)
      have hq0 : 0 ≤ (start - stop - 1) / (-step) := Int.ediv_nonneg (by omega) (by omega)
      have hjq : (j : Int) ≤ (start - stop - 1) / (-step) := by omega
      have : (j : Int) * (-step) ≤ (start - stop - 1) / (-step) * (-step) :=
        Int.mul_le_mul_of_nonneg_right hjq (by omega)
      have hj0 : 0 ≤ (j : Int) * (-step) := Int.mul_nonneg (by omega) (by omega)
      have e : (j : Int) * step = -((j : Int) * (-step)) := by rw [Int.mul_neg, Int.neg_neg]
      rw [e]
      omega
    · omega
  · have hs' : 0 < step := by omega
    simp only [hs, if_false] at hj
    obtain ⟨h1, h2⟩ := hp hs'
    split at hj
    · rename_i hlt
      have hq := Int.ediv_mul_le (stop - start - 1) (Int.ne_of_gt hs')
      have hq0 : 0 ≤ (stop - start - 1) / step := Int.ediv_nonneg (by omega) (by omega)
      have hjq : (j : Int) ≤ (stop - start - 1) / step := by omega
      have : (j : Int) * step ≤ (stop - start - 1) / step * step :=
        Int.mul_le_mul_of_nonneg_right hjq (by omega)
      have hj0 : 0 ≤ (j : Int) * step := Int.mul_nonneg (by omega) (by omega)
      omega
    · omega

theorem Slc.indices_in_range {s : Slc} {len : Nat} {idx : List Nat} (h : s.indices len = some idx) :
    ∀ k ∈ idx, k < len := by
  unfold Slc.indices at h
  cases ha : s.adjust len with
  | none => simp [ha] at h
  | some t =>
    obtain ⟨start, stop, step⟩ := t
    simp only [ha, Option.map_some, Option.some.injEq] at h
    subst h
    obtain ⟨h0, _, hp, hn⟩ := Slc.adjust_bounds ha
    intro k hk
    obtain ⟨j, hj, rfl⟩ := List.mem_map.mp hk
    have hj' : j < sliceLen start stop step := by simpa using hj
    obtain ⟨g1, g2⟩ := sliceLen_in_range (L := len) (fun h => ⟨(hp h).1, (hp h).2.2.2⟩)
      (fun h => ⟨(hn h).2.2.1, (hn h).2.1⟩) h0 hj'
    omega

theorem foldl_set_length (ps : List (Nat × Int)) (d : List Int) :
    (ps.foldl (fun d (p : Nat × Int) => d.set p.1 p.2) d).length = d.length := by
  induction ps generalizing d with
  | nil => rfl
  | cons p ps ih => simp [List.foldl_cons, ih]

theorem foldl_set_other (ps : List (Nat × Int)) (d : List Int) (k : Nat) (hk : ∀ p ∈ ps, p.1 ≠ k) :
    (ps.foldl (fun d (p : Nat × Int) => d.set p.1 p.2) d).getD k 0 = d.getD k 0 := by
  induction ps generalizing d with
  | nil => rfl
  | cons p ps ih =>
    rw [List.foldl_cons, ih _ (fun q hq => hk q (by simp [hq]))]
    have : p.1 ≠ k := hk p (by simp)
    simp [List.getD, this]

/-- the positions an extended slice selects are distinct -/
theorem Slc.indices_nodup {s : Slc} {len : Nat} {idx : List Nat} (h : s.indices len = some idx) : idx.Nodup := by
  unfold Slc.indices at h
  cases ha : s.adjust len with
  | none => simp [ha] at h
  | some t =>
    obtain ⟨start, stop, step⟩ := t
    simp only [ha, Option.map_some, Option.some.injEq] at h
    subst h
    obtain ⟨h0, _, hp, hn⟩ := Slc.adjust_bounds ha
    rw [List.Nodup, List.pairwise_map]
    refine List.Pairwise.imp_of_mem ?_ (List.nodup_range (n := sliceLen start stop step))
    intro a b ha' hb' hab e
    have ha'' : a < sliceLen start stop step := List.mem_range.mp ha'
    have hb'' : b < sliceLen start stop step := List.mem_range.mp hb'
    obtain ⟨g1, _⟩ := sliceLen_in_range (L := len) (fun h => ⟨(hp h).1, (hp h).2.2.2⟩)
      (fun h => ⟨(hn h).2.2.1, (hn h).2.1⟩) h0 ha''
    obtain ⟨g2, _⟩ := sliceLen_in_range (L := len) (fun h => ⟨(hp h).1, (hp h).2.2.2⟩)
      (fun h => ⟨(hn h).2.2.1, (hn h).2.1⟩) h0 hb''
    have e1 : (a : Int) * step = (b : Int) * step := by omega
    have e2 : (a : Int) = (b : Int) := Int.eq_of_mul_eq_mul_right h0 e1
    exact hab (by omega)

/-- setting distinct existing positions one after the other: reading them back gives the items written, in order -/
theorem foldl_set_zip_get (idx : List Nat) (vs : List Int) (d : List Int) (hl : vs.length = idx.length)
    (hnd : idx.Nodup) (hr : ∀ k ∈ idx, k < d.length) :
    idx.map (fun k => ((idx.zip vs).foldl (fun d (p : Nat × Int) => d.set p.1 p.2) d).getD k 0) = vs := by
  induction idx generalizing vs d with
  | nil =>
    cases vs with
    | nil => rfl
    | cons _ _ => simp at hl
  | cons k idx ih =>
    cases vs with
    | nil => simp at hl
    | cons v vs =>
      have hk : k ∉ idx := (List.nodup_cons.mp hnd).1
      have hnd' := (List.nodup_cons.mp hnd).2
      have hkd : k < d.length := hr k (by simp)
      have e1 : ((idx.zip vs).foldl (fun d (p : Nat × Int) => d.set p.1 p.2) (d.set k v)).getD k 0 = v := by
        rw [foldl_set_other _ _ k (fun p hp hpk => hk (hpk ▸ (List.of_mem_zip hp).1))]
        simp [List.getD, hkd]
      have e2 := ih vs (d.set k v) (by simpa using hl) hnd'
        (fun j hj => by simpa using hr j (by simp [hj]))
      simp only [List.zip_cons_cons, List.foldl_cons, List.map_cons]
      rw [e1, e2]

/-- `zipIdx`, filtered by position: the items at the kept positions, in order -/
theorem zipIdx_filter_map (p : Nat → Bool) : ∀ (d : List Int) (n : Nat),
    ((d.zipIdx n).filter (fun q => p q.2)).map (·.1) =
      ((List.range' n d.length).filter p).map (fun k => d.getD (k - n) 0) := by
  intro d
  induction d with
  | nil => intro n; rfl
  | cons x d ih =>
    intro n
    have htail : ((List.range' (n + 1) d.length).filter p).map (fun k => (x :: d).getD (k - n) 0) =
        ((List.range' (n + 1) d.length).filter p).map (fun k => d.getD (k - (n + 1)) 0) := by
      apply List.map_congr_left
      intro k hk
      have hk' := (List.mem_range'_1.mp (List.mem_filter.mp hk).1).1
      have e : k - n = (k - (n + 1)) + 1 := by omega
      rw [e]
      simp [List.getD]
    simp only [List.zipIdx_cons, List.length_cons, List.range'_succ, List.filter_cons]
    by_cases hpn : p n = true
    · simp only [hpn, if_true, List.map_cons, Nat.sub_self, ih (n + 1), htail]
      simp [List.getD]
    · rw [if_neg hpn, if_neg hpn, ih (n + 1), htail]

/-- distinct existing positions: as many positions of `0..len-1` are outside `idx` as `len - |idx|` -/
theorem length_filter_not_contains {idx : List Nat} {len : Nat} (hnd : idx.Nodup) (hr : ∀ k ∈ idx, k < len) :
    ((List.range len).filter (fun k => !idx.contains k)).length + idx.length = len := by
  have hp := (List.filter_append_perm (fun k => idx.contains k) (List.range len)).length_eq
  have hq : ((List.range len).filter (fun k => idx.contains k)).Perm idx := by
    rw [List.perm_ext_iff_of_nodup (List.Nodup.sublist List.filter_sublist List.nodup_range) hnd]
    intro a
    simp only [List.mem_filter, List.mem_range, List.contains_iff_mem]
    exact ⟨fun h => h.2, fun h => ⟨hr a h, h⟩⟩
  rw [List.length_append, hq.length_eq, List.length_range] at hp
  omega

/-! ### the derived list methods, stated by their signals (independently of the state machine) -/

/-- what `extend(vs)` signals on a list of length `len`: one `append` per item, with the item and the index at which
    it arrives -/
def specAppends (n : Nat) : Nat → List Int → List Sig
  | _, [] => []
  | len, v :: vs => ⟨n, .append, .none, .int v, .int len⟩ :: specAppends n (len + 1) vs

theorem mExtend_acc (n : Nat) (vs : List Int) : ∀ (d : List Int) (acc : List Sig),
    vs.foldl (fun (a : List Int × List Sig) v =>
      let (d', s) := pAppend n a.1 v
      (d', a.2 ++ [s])) (d, acc) = (d ++ vs, acc ++ specAppends n d.length vs) := by
  induction vs with
  | nil => intro d acc; simp [specAppends]
  | cons v vs ih =>
    intro d acc
    have h := ih (d ++ [v]) (acc ++ [⟨n, .append, .none, .int v, .int d.length⟩])
    simp only [pAppend] at h
    simp only [List.foldl_cons, pAppend]
    rw [h]
    simp [specAppends, List.append_assoc]

/-- what `clear()` signals: one `remove` per item, from the last item to the first, each with index `-1` -/
def specClears (n : Nat) (d : List Int) : List Sig :=
  d.reverse.map fun x => ⟨n, .remove, .int x, .none, .int (-1)⟩

theorem pDel_last (n : Nat) (d : List Int) (x : Int) :
    pDel n (d ++ [x]) (-1) = .ok (d, ⟨n, .remove, .int x, .none, .int (-1)⟩) := by
  have hn : normIdx (d ++ [x]).length (-1) = some d.length := by
    simp only [normIdx, List.length_append, List.length_singleton]
    have h1 : ((-1 : Int) < 0) := by decide
    simp only [h1, if_true]
    have h2 : (0 : Int) ≤ -1 + ((d.length + 1 : Nat) : Int) ∧
        -1 + ((d.length + 1 : Nat) : Int) < ((d.length + 1 : Nat) : Int) := by omega
    rw [if_pos h2]
    congr 1
    omega
  simp only [pDel, hn]
  congr 2
  · simp [List.eraseIdx_append_of_length_le]
  · simp [List.getD]

theorem mClear_rev (n : Nat) : ∀ (r : List Int) (fuel : Nat) (acc : List Sig), r.length < fuel →
    mClear n fuel r.reverse acc = ([], acc ++ r.map fun x => ⟨n, .remove, .int x, .none, .int (-1)⟩) := by
  intro r
  induction r with
  | nil =>
    intro fuel acc hf
    cases fuel with
    | zero => omega
    | succ f => simp [mClear, pDel, normIdx]
  | cons x r ih =>
    intro fuel acc hf
    cases fuel with
    | zero => omega
    | succ f =>
      simp only [List.reverse_cons, mClear, pDel_last]
      rw [ih f _ (by simp at hf; omega)]
      simp [List.append_assoc]

theorem mClear_spec (n : Nat) (d : List Int) : mClear n (d.length + 1) d [] = ([], specClears n d) := by
  have := mClear_rev n d.reverse (d.length + 1) [] (by simp)
  simpa [specClears] using this

end Mesa.Signals
