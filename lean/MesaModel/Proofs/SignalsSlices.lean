import MesaModel.Model.Signals
/-!
Helper lemmas about extended slices (`Slc`: open bounds, steps other than 1, negative steps).
-/
namespace Mesa.Signals

/-- the adjusted bounds: within `[0, len]` for a positive step, within `[-1, len - 1]` for a negative one -/
theorem Slc.adjust_bounds {s : Slc} {len : Nat} {start stop step : Int} (h : s.adjust len = some (start, stop, step)) :
    step ≠ 0 ∧ step = s.c.getD 1 ∧
    (0 < step → 0 ≤ start ∧ start ≤ len ∧ 0 ≤ stop ∧ stop ≤ len) ∧
    (step < 0 → -1 ≤ start ∧ start ≤ (len : Int) - 1 ∧ -1 ≤ stop ∧ stop ≤ (len : Int) - 1) := by
  unfold Slc.adjust at h
  simp only at h
  split at h
  · cases h
  · rename_i h0
    injection h with h
    injection h with h1 h2
    injection h2 with h2 h3
    subst h3
    refine ⟨h0, rfl, fun hp => ?_, fun hn => ?_⟩
    · have hnn : ¬ (s.c.getD 1 < 0) := by omega
      subst h1 h2
      simp only [hnn, if_false]
      refine ⟨?_, ?_, ?_, ?_⟩ <;> (split <;> (try split) <;> (try split) <;> omega)
    · subst h1 h2
      simp only [hn, if_true]
      refine ⟨?_, ?_, ?_, ?_⟩ <;> (split <;> (try split) <;> (try split) <;> omega)

/-- every position an extended slice selects exists -/
theorem sliceLen_in_range {start stop step : Int} {L : Int} {j : Nat}
    (hp : 0 < step → 0 ≤ start ∧ stop ≤ L) (hn : step < 0 → -1 ≤ stop ∧ start ≤ L - 1) (h0 : step ≠ 0)
    (hj : j < sliceLen start stop step) : 0 ≤ start + (j : Int) * step ∧ start + (j : Int) * step < L := by
  unfold sliceLen at hj
  by_cases hs : step < 0
  · simp only [hs, if_true] at hj
    obtain ⟨h1, h2⟩ := hn hs
    split at hj
    · rename_i hlt
      have hpos : 0 < -step := by omega
      have hq := Int.ediv_mul_le (start - stop - 1) (Int.ne_of_gt hpos)
      have hq0 : 0 ≤ (start - stop - 1) / (-step) := Int.ediv_nonneg (by omega) (by omega)
      have hjq : (j : Int) ≤ (start - stop - 1) / (-step) := by omega
      have : (j : Int) * (-step) ≤ (start - stop - 1) / (-step) * (-step) :=
        Int.mul_le_mul_of_nonneg_right hjq (by omega)
      have hj0 : 0 ≤ (j : Int) * (-step) := Int.mul_nonneg (by omega) (by omega)
      have e : (j : Int) * step = -((j : Int) * (-step)) := by rw [Int.mul_neg, Int.neg_neg]
      rw [e]
      omega
    · omega
  · have hs' : 0 < step := by omega
    simp only [hs, if_false] at hj
    obtain ⟨h1, h2⟩ := hp hs'
    split at hj
    · rename_i hlt
      have hq := Int.ediv_mul_le (stop - start - 1) (Int.ne_of_gt hs')
      have hq0 : 0 ≤ (stop - start - 1) / step := Int.ediv_nonneg (by omega) (by omega)
      have hjq : (j : Int) ≤ (stop - start - 1) / step := by omega
      have : (j : Int) * step ≤ (stop - start - 1) / step * step :=
        Int.mul_le_mul_of_nonneg_right hjq (by omega)
      have hj0 : 0 ≤ (j : Int) * step := Int.mul_nonneg (by omega) (by omega)
      omega
    · omega

theorem Slc.indices_in_range {s : Slc} {len : Nat} {idx : List Nat} (h : s.indices len = some idx) :
    ∀ k ∈ idx, k < len := by
  unfold Slc.indices at h
  cases ha : s.adjust len with
  | none => simp [ha] at h
  | some t =>
    obtain ⟨start, stop, step⟩ := t
    simp only [ha, Option.map_some, Option.some.injEq] at h
    subst h
    obtain ⟨h0, _, hp, hn⟩ := Slc.adjust_bounds ha
    intro k hk
    obtain ⟨j, hj, rfl⟩ := List.mem_map.mp hk
    have hj' : j < sliceLen start stop step := by simpa using hj
    obtain ⟨g1, g2⟩ := sliceLen_in_range (L := len) (fun h => ⟨(hp h).1, (hp h).2.2.2⟩)
      (fun h => ⟨(hn h).2.2.1, (hn h).2.1⟩) h0 hj'
    omega

theorem foldl_set_length (ps : List (Nat × Int)) (d : List Int) :
    (ps.foldl (fun d (p : Nat × Int) => d.set p.1 p.2) d).length = d.length := by
  induction ps generalizing d with
  | nil => rfl
  | cons p ps ih => simp [List.foldl_cons, ih]

theorem foldl_set_other (ps : List (Nat × Int)) (d : List Int) (k : Nat) (hk : ∀ p ∈ ps, p.1 ≠ k) :
    (ps.foldl (fun d (p : Nat × Int) => d.set p.1 p.2) d).getD k 0 = d.getD k 0 := by
  induction ps generalizing d with
  | nil => rfl
  | cons p ps ih =>
    rw [List.foldl_cons, ih _ (fun q hq => hk q (by simp [hq]))]
    have : p.1 ≠ k := hk p (by simp)
    simp [List.getD, this]

end Mesa.Signals
