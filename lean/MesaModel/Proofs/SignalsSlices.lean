import MesaModel.Model.Signals
/-!
Helper lemmas about extended slices (`Slc`: open bounds, steps other than 1, negative steps).
-/
namespace Mesa.Signals

/-- the adjusted bounds: within `[0, len]` for a positive step, within `[-1, len - 1]` for a negative one -/
theorem Slc.adjust_bounds {s : Slc} {len : Nat} {start stop step : Int} (h : s.adjust len = some (start, stop, step)) :
    step ≠ 0 ∧ step = s.c.getD 1 ∧
    (0 < step → 0 ≤ start ∧ start ≤ len ∧ 0 ≤ stop ∧ stop ≤ len) ∧
    (step < 0 → -1 ≤ start ∧ start ≤ (len : Int) - 1 ∧ -1 ≤ stop ∧ stop ≤ (len : Int) - 1) := by
  unfold Slc.adjust at h
  simp only at h
  split at h
  · cases h
  · rename_i h0
    injection h with h
    injection h with h1 h2
    injection h2 with h2 h3
    subst h3
    refine ⟨h0, rfl, fun hp => ?_, fun hn => ?_⟩
    · have hnn : ¬ (s.c.getD 1 < 0) := by omega
      subst h1 h2
      simp only [hnn, if_false]
      refine ⟨?_, ?_, ?_, ?_⟩ <;> (split <;> (try split) <;> (try split) <;> omega)
    · subst h1 h2
      simp only [hn, if_true]
      refine ⟨?_, ?_, ?_, ?_⟩ <;> (split <;> (try split) <;> (try split) <;> omega)

/-- every position an extended slice selects exists -/
theorem sliceLen_in_range {start stop step : Int} {L : Int} {j : Nat}
    (hp : 0 < step → 0 ≤ start ∧ stop ≤ L) (hn : step < 0 → -1 ≤ stop ∧ start ≤ L - 1) (h0 : step ≠ 0)
    (hj : j < sliceLen start stop step) : 0 ≤ start + (j : Int) * step ∧ start + (j : Int) * step < L := by
  unfold sliceLen at hj
  by_cases hs : step < 0
  · simp only [hs, if_true] at hj
    obtain ⟨h1, h2⟩ := hn hs
    split at hj
    · rename_i hlt
      have hpos : 0 < -step := by omega
      have hq := Int.ediv_mul_le (start - stop - 1) (Int.ne_of_gt hpos)
      have hq0 : 0 ≤ (start - stop - 1) / (-step) := Int.ediv_nonneg (by omega) (by omega)
      have hjq : (j : Int) ≤ (start - stop - 1) / (-step) := by omega
      have : (j : Int) * (-step) ≤ (start - stop - 1) / (-step) * (-step) :=
        Int.mul_le_mul_of_nonneg_right hjq (by omega)
      have hj0 : 0 ≤ (j : Int) * (-step) := Int.mul_nonneg (by omega) (by omega)
      have e : (j : Int) * step = -((j : Int) * (-step)) := by rw [Int.mul_neg, Int.neg_neg]
      rw [e]
      omega
    · omega
  · have hs' : 0 < step := by omega
    simp only [hs, if_false] at hj
    obtain ⟨h1, h2⟩ := hp hs'
    split at hj
    · rename_i hlt
      have hq := Int.ediv_mul_le (stop - start - 1) (Int.ne_of_gt hs')
      have hq0 : 0 ≤ (stop - start - 1) / step := Int.ediv_nonneg (by omega) (by omega)
      have hjq : (j : Int) ≤ (stop - start - 1) / step := by omega
      have : (j : Int) * step ≤ (stop - start - 1) / step * step :=
        Int.mul_le_mul_of_nonneg_right hjq (by omega)
      have hj0 : 0 ≤ (j : Int) * step := Int.mul_nonneg (by omega) (by omega)
      omega
    · omega

theorem Slc.indices_in_range {s : Slc} {len : Nat} {idx : List Nat} (h : s.indices len = some idx) :
    ∀ k ∈ idx, k < len := by
  unfold Slc.indices at h
  cases ha : s.adjust len with
  | none => simp [ha] at h
  | some t =>
    obtain ⟨start, stop, step⟩ := t
    simp only [ha, Option.map_some, Option.some.injEq] at h
    subst h
    obtain ⟨h0, _, hp, hn⟩ := Slc.adjust_bounds ha
    intro k hk
    obtain ⟨j, hj, rfl⟩ := List.mem_map.mp hk
    have hj' : j < sliceLen start stop step := by simpa using hj
    obtain ⟨g1, g2⟩ := sliceLen_in_range (L := len) (fun h => ⟨(hp h).1, (hp h).2.2.2⟩)
      (fun h => ⟨(hn h).2.2.1, (hn h).2.1⟩) h0 hj'
    omega

theorem foldl_set_length (ps : List (Nat × Int)) (d : List Int) :
    (ps.foldl (fun d (p : Nat × Int) => d.set p.1 p.2) d).length = d.length := by
  induction ps generalizing d with
  | nil => rfl
  | cons p ps ih => simp [List.foldl_cons, ih]

theorem foldl_set_other (ps : List (Nat × Int)) (d : List Int) (k : Nat) (hk : ∀ p ∈ ps, p.1 ≠ k) :
    (ps.foldl (fun d (p : Nat × Int) => d.set p.1 p.2) d).getD k 0 = d.getD k 0 := by
  induction ps generalizing d with
  | nil => rfl
  | cons p ps ih =>
    rw [List.foldl_cons, ih _ (fun q hq => hk q (by simp [hq]))]
    have : p.1 ≠ k := hk p (by simp)
    simp [List.getD, this]

/-! ### the derived list methods, stated by their signals (independently of the state machine) -/

/-- what `extend(vs)` signals on a list of length `len`: one `append` per item, with the item and the index at which
    it arrives -/
def specAppends (n : Nat) : Nat → List Int → List Sig
  | _, [] => []
  | len, v :: vs => ⟨n, .append, .none, .int v, .int len⟩ :: specAppends n (len + 1) vs

theorem mExtend_acc (n : Nat) (vs : List Int) : ∀ (d : List Int) (acc : List Sig),
    vs.foldl (fun (a : List Int × List Sig) v =>
      let (d', s) := pAppend n a.1 v
      (d', a.2 ++ [s])) (d, acc) = (d ++ vs, acc ++ specAppends n d.length vs) := by
  induction vs with
  | nil => intro d acc; simp [specAppends]
  | cons v vs ih =>
    intro d acc
    have h := ih (d ++ [v]) (acc ++ [⟨n, .append, .none, .int v, .int d.length⟩])
    simp only [pAppend] at h
    simp only [List.foldl_cons, pAppend]
    rw [h]
    simp [specAppends, List.append_assoc]

/-- what `clear()` signals: one `remove` per item, from the last item to the first, each with index `-1` -/
def specClears (n : Nat) (d : List Int) : List Sig :=
  d.reverse.map fun x => ⟨n, .remove, .int x, .none, .int (-1)⟩

theorem pDel_last (n : Nat) (d : List Int) (x : Int) :
    pDel n (d ++ [x]) (-1) = .ok (d, ⟨n, .remove, .int x, .none, .int (-1)⟩) := by
  have hn : normIdx (d ++ [x]).length (-1) = some d.length := by
    simp only [normIdx, List.length_append, List.length_singleton]
    have h1 : ((-1 : Int) < 0) := by decide
    simp only [h1, if_true]
    have h2 : (0 : Int) ≤ -1 + ((d.length + 1 : Nat) : Int) ∧
        -1 + ((d.length + 1 : Nat) : Int) < ((d.length + 1 : Nat) : Int) := by omega
    rw [if_pos h2]
    congr 1
    omega
  simp only [pDel, hn]
  congr 2
  · simp [List.eraseIdx_append_of_length_le]
  · simp [List.getD]

theorem mClear_rev (n : Nat) : ∀ (r : List Int) (fuel : Nat) (acc : List Sig), r.length < fuel →
    mClear n fuel r.reverse acc = ([], acc ++ r.map fun x => ⟨n, .remove, .int x, .none, .int (-1)⟩) := by
  intro r
  induction r with
  | nil =>
    intro fuel acc hf
    cases fuel with
    | zero => omega
    | succ f => simp [mClear, pDel, normIdx]
  | cons x r ih =>
    intro fuel acc hf
    cases fuel with
    | zero => omega
    | succ f =>
      simp only [List.reverse_cons, mClear, pDel_last]
      rw [ih f _ (by simp at hf; omega)]
      simp [List.append_assoc]

theorem mClear_spec (n : Nat) (d : List Int) : mClear n (d.length + 1) d [] = ([], specClears n d) := by
  have := mClear_rev n d.reverse (d.length + 1) [] (by simp)
  simpa [specClears] using this

end Mesa.Signals
