import MesaModel.Model.CellCollection
import MesaModel.Proofs.CellSpaces
/-!
Helper lemmas for C06: the `CellCollection` API — `select` is an order-preserving bounded filter, the random
selections draw once over the collection's population, the agent views of a collection of distinct cells are
duplicate-free and mirror `agent.cell`.
-/
namespace Mesa.Cells

/-! ### `select` -/

theorem selGen_none (f : Cid → Bool) (count : Nat) (cells : List Cid) : selGen f none count cells = cells.filter f := by
  induction cells generalizing count with
  | nil => rfl
  | cons c cs ih =>
    simp only [selGen, List.filter_cons]
    split
    · simp at *
    · split
      · rw [ih]
      · rw [ih]

theorem selGen_some (f : Cid → Bool) (l count : Nat) (cells : List Cid) :
    selGen f (some l) count cells = (cells.filter f).take (l - count) := by
  induction cells generalizing count with
  | nil => simp [selGen]
  | cons c cs ih =>
    simp only [selGen, List.filter_cons]
    by_cases hl : l ≤ count
    · have : l - count = 0 := by omega
      simp [hl, this]
    · simp only [hl, decide_false, Bool.false_eq_true, if_false]
      by_cases hf : f c = true
      · simp only [hf, if_true]
        rw [ih]
        have : l - count = (l - (count + 1)) + 1 := by omega
        rw [this, List.take_succ_cons]
      · simp only [hf, Bool.false_eq_true, if_false]
        exact ih count

/-- the filter `select` applies: everything passes when no filter function is given -/
def selFilter (f : Option (Cid → Bool)) : Cid → Bool := f.getD fun _ => true

/-- `select` is "filter, then keep the first `limit` matches" -/
theorem select_eq (f : Option (Cid → Bool)) (am : AtMost) (cells : Coll) :
    select f am cells =
      match am.limit cells.length with
      | none => cells.filter (selFilter f)
      | some l => (cells.filter (selFilter f)).take l := by
  unfold select selFilter
  cases f with
  | none =>
    cases am with
    | inf =>
      simp only [AtMost.limit]
      exact (List.filter_eq_self.mpr fun _ _ => rfl).symm
    | int n => simp only [AtMost.limit, selGen_some]; simp
    | frac a b =>
      simp only [AtMost.limit]
      split <;> (simp only [selGen_some]; simp)
  | some g =>
    cases am with
    | inf => simp only [AtMost.limit, selGen_none, Option.getD_some]
    | int n => simp only [AtMost.limit, selGen_some]; simp
    | frac a b =>
      simp only [AtMost.limit]
      split <;> (simp only [selGen_some]; simp)

theorem select_sublist (f : Option (Cid → Bool)) (am : AtMost) (cells : Coll) : (select f am cells).Sublist cells := by
  rw [select_eq]
  split
  · exact List.filter_sublist
  · exact (List.take_sublist _ _).trans List.filter_sublist

theorem select_mem_filter (f : Option (Cid → Bool)) (am : AtMost) (cells : Coll) {c : Cid}
    (h : c ∈ select f am cells) : c ∈ cells ∧ selFilter f c = true := by
  rw [select_eq] at h
  split at h
  · exact List.mem_filter.mp h
  · exact List.mem_filter.mp (List.mem_of_mem_take h)

theorem select_length_le (f : Option (Cid → Bool)) (am : AtMost) (cells : Coll) {l : Nat}
    (hl : am.limit cells.length = some l) : (select f am cells).length ≤ l := by
  rw [select_eq, hl]
  simp only [List.length_take]
  omega

/-! ### `random.choice` -/

theorem pick_nil {α : Type} (draws : List Nat) : pick ([] : List α) draws = .err .index := by simp [pick]

theorem pick_no_draw {α : Type} {seq : List α} (h : seq ≠ []) : pick seq [] = .err .script := by
  cases seq with
  | nil => exact absurd rfl h
  | cons x l => simp [pick]

theorem pick_cons {α : Type} {seq : List α} (h : seq ≠ []) (d : Nat) (ds : List Nat) :
    ∃ x, seq[d % seq.length]? = some x ∧ pick seq (d :: ds) = .ok x (d % seq.length) 1 := by
  have hlen : 0 < seq.length := List.length_pos_iff.mpr h
  have hlt : d % seq.length < seq.length := Nat.mod_lt _ hlen
  refine ⟨seq[d % seq.length], List.getElem?_eq_getElem hlt, ?_⟩
  cases seq with
  | nil => exact absurd rfl h
  | cons x l =>
    simp only [pick, List.isEmpty_cons, Bool.false_eq_true, if_false]
    rw [List.getElem?_eq_getElem hlt]

theorem pick_ok {α : Type} {seq : List α} {draws : List Nat} {x : α} {pos used : Nat}
    (h : pick seq draws = .ok x pos used) :
    used = 1 ∧ seq[pos]? = some x ∧ x ∈ seq ∧ ∃ d ds, draws = d :: ds ∧ pos = d % seq.length := by
  by_cases hs : seq = []
  · subst hs; simp [pick] at h
  · cases draws with
    | nil => rw [pick_no_draw hs] at h; cases h
    | cons d ds =>
      obtain ⟨y, hy, hp⟩ := pick_cons hs d ds
      rw [hp] at h
      cases h
      exact ⟨rfl, hy, List.mem_of_getElem? hy, d, ds, rfl, rfl⟩

theorem pick_err_index {α : Type} {seq : List α} {draws : List Nat} : pick seq draws = .err .index ↔ seq = [] := by
  constructor
  · intro h
    by_cases hs : seq = []
    · exact hs
    · cases draws with
      | nil => rw [pick_no_draw hs] at h; cases h
      | cons d ds => obtain ⟨y, _, hp⟩ := pick_cons hs d ds; rw [hp] at h; cases h
  · rintro rfl; exact pick_nil _

/-! ### agent views -/

theorem mem_collAgents (s : State) (cells : Coll) (a : Aid) : a ∈ collAgents s cells ↔ ∃ c ∈ cells, a ∈ s.occ c := by
  simp [collAgents, List.mem_flatMap]

/-- the chained agent lists of distinct cells have no duplicates -/
theorem collAgents_nodup {sp : Space} {s : State} (h : Inv sp s) {cells : Coll} (hnd : cells.Nodup) :
    (collAgents s cells).Nodup := by
  unfold collAgents List.Nodup
  rw [List.pairwise_flatMap]
  refine ⟨fun c _ => h.nodup c, ?_⟩
  refine List.Pairwise.imp ?_ hnd
  intro c c' hcc x hx y hy hxy
  subst hxy
  have h1 := h.mem_cell x c hx
  have h2 := h.mem_cell x c' hy
  rw [h1] at h2
  simp at h2
  exact hcc h2

end Mesa.Cells
