import MesaModel.Proofs.DevsOrder
import MesaModel.Proofs.DevsRaise
/-!
The order of execution over a whole history: any list of steps — top-level commands, `run_until` / `run_for` / `run_next_event`
calls (cut short by exceptions or not), catches — with the trace of everything executed on the way.

`Traced s s' tr`: going from `s` to `s'` executed `tr` (events paired with the id counter at their pop) such that
* every event pending at the end was pending at the start (up to flags) or was scheduled on the way (`origin`),
* so was every executed event (`born`),
* the trace is ordered: of two executed events the earlier has the smaller (time, priority, id) key unless the later one was
  scheduled after the earlier one had been popped (`ordered`),
* every executed event precedes, in that sense, everything still pending at the end (`ahead`) — which is what makes traces compose.
-/
namespace Mesa.Devs

structure Traced (s s' : Sim) (tr : List (Ev × Nat)) : Prop where
  origin : Origin s s'
  born : ∀ y ∈ tr, (∃ x₀ ∈ s.pending, SameKey x₀ y.1) ∨ s.nextId ≤ y.1.id
  ordered : tr.Pairwise (fun x y => x.1.lt y.1 = true ∨ x.2 ≤ y.1.id)
  ahead : ∀ x ∈ tr, (∀ z ∈ s'.pending, x.1.lt z = true ∨ x.2 ≤ z.id) ∧ x.2 ≤ s'.nextId

theorem Traced.of_origin {s s' : Sim} (h : Origin s s') : Traced s s' [] :=
  ⟨h, by simp, List.Pairwise.nil, by simp⟩

theorem Traced.trans {s s₁ s' : Sim} {tr₁ tr₂ : List (Ev × Nat)} (h₁ : Traced s s₁ tr₁) (h₂ : Traced s₁ s' tr₂) :
    Traced s s' (tr₁ ++ tr₂) := by
  refine ⟨h₁.origin.trans h₂.origin, ?_, ?_, ?_⟩
  · intro y hy
    rcases List.mem_append.mp hy with hy | hy
    · exact h₁.born y hy
    · rcases h₂.born y hy with ⟨x, hx, hk⟩ | hge
      · rcases h₁.origin.1 x hx with ⟨x₀, hx₀, hk₀⟩ | hge
        · exact Or.inl ⟨x₀, hx₀, hk₀.trans hk⟩
        · right; rw [hk.2.2]; exact hge
      · right; exact Nat.le_trans h₁.origin.2 hge
  · refine List.pairwise_append.mpr ⟨h₁.ordered, h₂.ordered, ?_⟩
    intro x hx y hy
    obtain ⟨hax, hnx⟩ := h₁.ahead x hx
    rcases h₂.born y hy with ⟨z, hz, hk⟩ | hge
    · rcases hax z hz with hlt | hle
      · left; rw [Ev.lt_congr (a := x.1) (a' := x.1) ⟨rfl, rfl, rfl⟩ hk]; exact hlt
      · right; rw [hk.2.2]; exact hle
    · right; exact Nat.le_trans hnx hge
  · intro x hx
    rcases List.mem_append.mp hx with hx | hx
    · obtain ⟨hax, hnx⟩ := h₁.ahead x hx
      refine ⟨?_, Nat.le_trans hnx h₂.origin.2⟩
      intro z hz
      rcases h₂.origin.1 z hz with ⟨z₀, hz₀, hk⟩ | hge
      · rcases hax z₀ hz₀ with hlt | hle
        · left; rw [Ev.lt_congr (a := x.1) (a' := x.1) ⟨rfl, rfl, rfl⟩ hk]; exact hlt
        · right; rw [hk.2.2]; exact hle
      · right; exact Nat.le_trans hnx hge
    · exact h₂.ahead x hx

/-- one pop-and-execute step -/
theorem traced_popExec {s : Sim} (hw : WF s) {e : Ev} {rest : List Ev} (hp : popLive s.pending = some (e, rest)) :
    Traced s (exec (popped s e rest) e) [(e, s.nextId)] := by
  obtain ⟨_, hlt, _⟩ := popLive_spec hw.sorted hp
  obtain ⟨hme, hmr⟩ := popLive_mem hp
  have hpo : Origin s (popped s e rest) := ⟨fun x hx => Or.inl ⟨x, hmr x hx, SameKey.refl x⟩, Nat.le_refl _⟩
  have heo := exec_origin (popped s e rest) e
  refine ⟨hpo.trans heo, ?_, List.pairwise_singleton _ _, ?_⟩
  · intro y hy
    simp only [List.mem_singleton] at hy; subst hy
    exact Or.inl ⟨e, hme, SameKey.refl e⟩
  · intro x hx
    simp only [List.mem_singleton] at hx; subst hx
    refine ⟨?_, heo.2⟩
    intro z hz
    rcases heo.1 z hz with ⟨z₀, hz₀, hk⟩ | hge
    · left
      rw [Ev.lt_congr (a := e) (a' := e) ⟨rfl, rfl, rfl⟩ hk]
      exact hlt z₀ hz₀
    · right; exact hge

theorem runUntilT_traced {f : Nat} {s s' : Sim} {T : Int} {tr : List (Ev × Nat)} (hw : WF s)
    (h : runUntilT f s T = some (s', tr)) : Traced s s' tr := by
  induction f generalizing s tr with
  | zero => simp [runUntilT] at h
  | succ f ih =>
    rcases runUntilT_cases h with ⟨hp, rfl⟩ | ⟨e, rest, hp, hT, rfl⟩ | ⟨e, rest, hp, hT, hx, rfl, rfl⟩ |
      ⟨e, rest, tr1, hp, hT, h1, rfl⟩
    · rw [runUntilT_none hp] at h
      simp only [Option.some.injEq, Prod.mk.injEq] at h
      rw [← h.1]
      exact Traced.of_origin ⟨by simp, Nat.le_refl _⟩
    · rw [runUntilT_late hp hT] at h
      simp only [Option.some.injEq, Prod.mk.injEq] at h
      rw [← h.1]
      refine Traced.of_origin ⟨?_, Nat.le_refl _⟩
      intro x hx
      rcases mem_insert.mp hx with rfl | hx
      · exact Or.inl ⟨x, (popLive_mem hp).1, SameKey.refl x⟩
      · exact Or.inl ⟨x, (popLive_mem hp).2 x hx, SameKey.refl x⟩
    · exact traced_popExec hw hp
    · have h2 := ih (exec_wf (popped_wf hw hp) e) h1
      exact (traced_popExec hw hp).trans h2

/-- `run_next_event` with its (one-event) trace -/
def runNextT (s : Sim) : Sim × List (Ev × Nat) :=
  match popLive s.pending with
  | none => (runNext s, [])
  | some (e, _) => (runNext s, [(e, s.nextId)])

theorem runNextT_traced {s : Sim} (hw : WF s) : Traced s (runNextT s).1 (runNextT s).2 := by
  unfold runNextT
  split
  · rename_i hp
    simp only [runNext, hp]
    exact Traced.of_origin ⟨by simp, Nat.le_refl _⟩
  · rename_i e rest hp
    simp only [runNext, hp]
    exact traced_popExec hw hp

theorem runNextT_log (s : Sim) : (runNextT s).1.log = s.log ++ (runNextT s).2.flatMap (fun y => logOf y.1) := by
  unfold runNextT
  split
  · rename_i hp; simp [runNext, hp]
  · rename_i e rest hp
    simp only [runNext, hp]
    rw [exec_log]
    simp [entryOf, logOf, popped]

/-- the steps of a history -/
inductive Step where
  | cmd (c : Cmd)
  | until (t : Int)
  | for (d : Int)
  | next
  | caught
deriving Repr

def runStepT (f : Nat) (s : Sim) : Step → Option (Sim × List (Ev × Nat))
  | .cmd c => some (doCmd s c, [])
  | .until t => runUntilT f s t
  | .for d => runUntilT f s (s.now + d)
  | .next => some (runNextT s)
  | .caught => some (caught s, [])

/-- a whole history with the trace of everything it executed -/
def runHistT (f : Nat) : Sim → List Step → Option (Sim × List (Ev × Nat))
  | s, [] => some (s, [])
  | s, st :: sts =>
    match runStepT f s st with
    | none => none
    | some (s₁, tr₁) =>
      match runHistT f s₁ sts with
      | none => none
      | some (s', tr₂) => some (s', tr₁ ++ tr₂)

theorem runStepT_spec {f : Nat} {s s' : Sim} {st : Step} {tr : List (Ev × Nat)} (hw : WF s)
    (h : runStepT f s st = some (s', tr)) :
    WF s' ∧ Traced s s' tr ∧ s'.log = s.log ++ tr.flatMap (fun y => logOf y.1) := by
  cases st with
  | cmd c =>
    simp only [runStepT, Option.some.injEq, Prod.mk.injEq] at h
    obtain ⟨rfl, rfl⟩ := h
    exact ⟨doCmd_wf hw c, Traced.of_origin (doCmd_origin s c), by simp [(doCmd_frame s c).2.1]⟩
  | «until» t =>
    simp only [runStepT] at h
    have hr : runUntil f s t = some s' := by rw [← runUntilT_erase, h]; rfl
    exact ⟨runUntil_wf hw hr, runUntilT_traced hw h, runUntilT_log h⟩
  | «for» d =>
    simp only [runStepT] at h
    have hr : runUntil f s (s.now + d) = some s' := by rw [← runUntilT_erase, h]; rfl
    exact ⟨runUntil_wf hw hr, runUntilT_traced hw h, runUntilT_log h⟩
  | next =>
    simp only [runStepT, Option.some.injEq] at h
    have h1 : s' = (runNextT s).1 := by rw [h]
    have h2 : tr = (runNextT s).2 := by rw [h]
    subst h1; subst h2
    refine ⟨?_, runNextT_traced hw, runNextT_log s⟩
    have : (runNextT s).1 = runNext s := by unfold runNextT; split <;> rfl
    rw [this]; exact runNext_wf hw
  | caught =>
    simp only [runStepT, Option.some.injEq, Prod.mk.injEq] at h
    obtain ⟨rfl, rfl⟩ := h
    exact ⟨caught_wf hw, Traced.of_origin ⟨fun x hx => Or.inl ⟨x, hx, SameKey.refl x⟩, Nat.le_refl _⟩, by simp [caught]⟩

theorem runHistT_spec {f : Nat} {s s' : Sim} {sts : List Step} {tr : List (Ev × Nat)} (hw : WF s)
    (h : runHistT f s sts = some (s', tr)) :
    WF s' ∧ Traced s s' tr ∧ s'.log = s.log ++ tr.flatMap (fun y => logOf y.1) := by
  induction sts generalizing s tr with
  | nil =>
    simp only [runHistT, Option.some.injEq, Prod.mk.injEq] at h
    obtain ⟨rfl, rfl⟩ := h
    exact ⟨hw, Traced.of_origin (Origin.refl s), by simp⟩
  | cons st sts ih =>
    simp only [runHistT] at h
    split at h
    · simp at h
    · rename_i s₁ tr₁ h₁
      split at h
      · simp at h
      · rename_i s₂ tr₂ h₂
        simp only [Option.some.injEq, Prod.mk.injEq] at h
        obtain ⟨rfl, rfl⟩ := h
        obtain ⟨hw₁, ht₁, hl₁⟩ := runStepT_spec hw h₁
        obtain ⟨hw₂, ht₂, hl₂⟩ := ih hw₁ h₂
        exact ⟨hw₂, ht₁.trans ht₂, by rw [hl₂, hl₁]; simp [List.append_assoc]⟩

/-! ### ids on the list are unique; a normal `run_until(T)` takes every entry with time `≤ T` off the list -/

theorem ids_nodup_inj {l : List Ev} (hnd : (ids l).Nodup) {a b : Ev} (ha : a ∈ l) (hb : b ∈ l) (hab : a.id = b.id) :
    a = b := by
  induction l with
  | nil => simp at ha
  | cons x xs ih =>
    simp only [ids, List.map_cons, List.nodup_cons, List.mem_map, not_exists, not_and] at hnd
    rcases List.mem_cons.mp ha with rfl | ha' <;> rcases List.mem_cons.mp hb with rfl | hb'
    · rfl
    · exact absurd hab.symm (hnd.1 b hb')
    · exact absurd hab (hnd.1 a ha')
    · exact ih hnd.2 ha' hb'

theorem acc_ids_nodup {s : Sim} (ha : Acc s) : (ids s.pending).Nodup := by
  rw [List.nodup_iff_count]
  intro i
  have hc := ha i
  simp only [List.count_nil, Nat.add_zero] at hc
  split at hc <;> omega

/-- every entry that is on the list with time `≤ T` — live, cancelled or dead — is off the list after a `run_until(T)` that
    returns normally (it was executed or discarded: by the accounting its id is in the log or among the discarded ids) -/
theorem runUntil_consumes_due {f : Nat} {s s' : Sim} {T : Int} (hw : WF s) (ha : Acc s) (hr : runUntil f s T = some s')
    (hn : s'.raised = none) {e : Ev} (he : e ∈ s.pending) (heT : e.time ≤ T) :
    e.id ∉ ids s'.pending ∧ s.nextId ≤ s'.nextId := by
  obtain ⟨tr, htr⟩ := runUntilT_of_runUntil hr
  have ho := (runUntilT_traced hw htr).origin
  refine ⟨?_, ho.2⟩
  intro hmem
  obtain ⟨y, hy, hyi⟩ := List.mem_map.mp hmem
  have hyi' : y.id = e.id := hyi
  have hlate := runUntil_nothing_due hw hr hn y hy
  rcases ho.1 y hy with ⟨x₀, hx₀, hk⟩ | hge
  · have hxe : x₀ = e := ids_nodup_inj (acc_ids_nodup ha) hx₀ he (by rw [← hk.2.2]; exact hyi')
    subst hxe
    have h1 : y.time = x₀.time := hk.1
    omega
  · have := hw.idlt e he; omega

/-! ### the recorded counters of a history's trace -/

theorem runStepT_born {f : Nat} {s s' : Sim} {st : Step} {tr : List (Ev × Nat)} (hw : WF s)
    (h : runStepT f s st = some (s', tr)) : ∀ y ∈ tr, y.1.id < y.2 ∧ y.1.cancelled = false := by
  cases st with
  | cmd c =>
    simp only [runStepT, Option.some.injEq, Prod.mk.injEq] at h
    obtain ⟨_, rfl⟩ := h; simp
  | «until» t =>
    simp only [runStepT] at h
    exact fun y hy => ⟨(runUntilT_born hw h y hy).1, (runUntilT_born hw h y hy).2.1⟩
  | «for» d =>
    simp only [runStepT] at h
    exact fun y hy => ⟨(runUntilT_born hw h y hy).1, (runUntilT_born hw h y hy).2.1⟩
  | next =>
    simp only [runStepT, Option.some.injEq] at h
    have h2 : tr = (runNextT s).2 := by rw [h]
    subst h2
    unfold runNextT
    split
    · simp
    · rename_i e rest hp
      intro y hy
      simp only [List.mem_singleton] at hy; subst hy
      exact ⟨hw.idlt e (popLive_mem hp).1, (popLive_decomp hp).2⟩
  | caught =>
    simp only [runStepT, Option.some.injEq, Prod.mk.injEq] at h
    obtain ⟨_, rfl⟩ := h; simp

/-- the number recorded with a traced event really is an id counter value at its pop: the event itself is older -/
theorem runHistT_born {f : Nat} {s s' : Sim} {sts : List Step} {tr : List (Ev × Nat)} (hw : WF s)
    (h : runHistT f s sts = some (s', tr)) : ∀ y ∈ tr, y.1.id < y.2 ∧ y.1.cancelled = false := by
  induction sts generalizing s tr with
  | nil =>
    simp only [runHistT, Option.some.injEq, Prod.mk.injEq] at h
    obtain ⟨_, rfl⟩ := h; simp
  | cons st sts ih =>
    simp only [runHistT] at h
    split at h
    · simp at h
    · rename_i s₁ tr₁ h₁
      split at h
      · simp at h
      · rename_i s₂ tr₂ h₂
        simp only [Option.some.injEq, Prod.mk.injEq] at h
        obtain ⟨rfl, rfl⟩ := h
        intro y hy
        rcases List.mem_append.mp hy with hy | hy
        · exact runStepT_born hw h₁ y hy
        · exact ih (runStepT_spec hw h₁).1 h₂ y hy

/-! ### the traced history erased is the plain history; every `ReachableFrom` history is one -/

def runStep (f : Nat) (s : Sim) : Step → Option Sim
  | .cmd c => some (doCmd s c)
  | .until t => runUntil f s t
  | .for d => runUntil f s (s.now + d)
  | .next => some (runNext s)
  | .caught => some (caught s)

/-- a history without trace: nothing but the model's own operations, one after the other -/
def runHist (f : Nat) : Sim → List Step → Option Sim
  | s, [] => some s
  | s, st :: sts =>
    match runStep f s st with
    | none => none
    | some s₁ => runHist f s₁ sts

theorem runNextT_fst (s : Sim) : (runNextT s).1 = runNext s := by unfold runNextT; split <;> rfl

theorem runStepT_erase (f : Nat) (s : Sim) (st : Step) : (runStepT f s st).map (·.1) = runStep f s st := by
  cases st with
  | cmd c => rfl
  | «until» t => exact runUntilT_erase f s t
  | «for» d => exact runUntilT_erase f s _
  | next => simp [runStepT, runStep, runNextT_fst]
  | caught => rfl

theorem runHistT_erase (f : Nat) (s : Sim) (sts : List Step) : (runHistT f s sts).map (·.1) = runHist f s sts := by
  induction sts generalizing s with
  | nil => rfl
  | cons st sts ih =>
    simp only [runHistT, runHist]
    rw [← runStepT_erase]
    cases h1 : runStepT f s st with
    | none => rfl
    | some q =>
      obtain ⟨s₁, tr₁⟩ := q
      simp only [Option.map_some]
      rw [← ih]
      cases runHistT f s₁ sts with
      | none => rfl
      | some q2 => rfl

theorem runHistT_of_runHist {f : Nat} {s s' : Sim} {sts : List Step} (h : runHist f s sts = some s') :
    ∃ tr, runHistT f s sts = some (s', tr) := by
  have := runHistT_erase f s sts
  rw [h] at this
  cases hT : runHistT f s sts with
  | none => simp [hT] at this
  | some p =>
    simp only [hT, Option.map_some, Option.some.injEq] at this
    exact ⟨p.2, by rw [← this]⟩

theorem runStep_fuel_le {f g : Nat} {s s' : Sim} {st : Step} (hfg : f ≤ g) (h : runStep f s st = some s') :
    runStep g s st = some s' := by
  cases st with
  | cmd c => exact h
  | «until» t => exact runUntil_fuel_le hfg h
  | «for» d => exact runUntil_fuel_le hfg h
  | next => exact h
  | caught => exact h

theorem runHist_fuel_le {f g : Nat} {s s' : Sim} {sts : List Step} (hfg : f ≤ g) (h : runHist f s sts = some s') :
    runHist g s sts = some s' := by
  induction sts generalizing s with
  | nil => exact h
  | cons st sts ih =>
    simp only [runHist] at h ⊢
    split at h
    · simp at h
    · rename_i s₁ h₁
      simp only [runStep_fuel_le hfg h₁]
      exact ih h

theorem runHist_snoc {f : Nat} {s s₁ s' : Sim} {sts : List Step} {st : Step} (h : runHist f s sts = some s₁)
    (h2 : runStep f s₁ st = some s') : runHist f s (sts ++ [st]) = some s' := by
  induction sts generalizing s with
  | nil =>
    simp only [runHist, Option.some.injEq] at h; subst h
    simp only [List.nil_append, runHist, h2]
  | cons a as ih =>
    simp only [runHist] at h
    split at h
    · simp at h
    · rename_i sa ha
      simp only [List.cons_append, runHist, ha]
      exact ih h

/-- every history `ReachableFrom` speaks about is a list of steps run by `runHist` (hence has a `runHistT` trace) -/
theorem reachableFrom_runHist {s s' : Sim} (hr : ReachableFrom s s') : ∃ f sts, runHist f s sts = some s' := by
  induction hr with
  | refl => exact ⟨0, [], rfl⟩
  | cmd c _ ih =>
    obtain ⟨f, sts, h⟩ := ih
    exact ⟨f, sts ++ [.cmd c], runHist_snoc h rfl⟩
  | @«until» s₁ s₂ g T _ _ hrun ih =>
    obtain ⟨f, sts, h⟩ := ih
    have h2 : runStep (max f g) s₁ (.until T) = some s₂ := runUntil_fuel_le (Nat.le_max_right f g) hrun
    exact ⟨max f g, sts ++ [.until T], runHist_snoc (runHist_fuel_le (Nat.le_max_left f g) h) h2⟩
  | next _ ih =>
    obtain ⟨f, sts, h⟩ := ih
    exact ⟨f, sts ++ [.next], runHist_snoc h rfl⟩
  | caught _ ih =>
    obtain ⟨f, sts, h⟩ := ih
    exact ⟨f, sts ++ [.caught], runHist_snoc h rfl⟩

end Mesa.Devs
