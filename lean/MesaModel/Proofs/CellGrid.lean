import MesaModel.Proofs.CellConnect
/-!
Helper lemmas for C07: the generated tables (what grid.py says *now*) are the generic offset tables;
hexagon tables = touching hexagons; `gridConn` = "offsets of the geometry × connect"; symmetry.
-/
namespace Mesa.Cells

def pairsToVecs (l : List (Int × Int)) : List (List Int) := l.map (fun p => [p.1, p.2])

/-! ### obligations about the generated constants (re-checked by the kernel on every run) -/

theorem gen_moore2d : pairsToVecs Gen.moore2d = mooreOffsets 2 := by decide
theorem gen_vn2d : (pairsToVecs Gen.vn2d).Perm (vnOffsets 2) := by decide
theorem gen_mooreProbe1 : Gen.mooreProbe1 = mooreOffsets 1 := by decide
theorem gen_mooreProbe2 : Gen.mooreProbe2 = pairsToVecs Gen.moore2d := by decide
theorem gen_mooreProbe3 : Gen.mooreProbe3 = mooreOffsets 3 := by decide
theorem gen_mooreProbe4 : Gen.mooreProbe4 = mooreOffsets 4 := by decide
theorem gen_vnProbe1 : Gen.vnProbe1 = vnOffsets 1 := by decide
theorem gen_vnProbe2 : Gen.vnProbe2 = pairsToVecs Gen.vn2d := by decide
theorem gen_vnProbe3 : Gen.vnProbe3 = vnOffsets 3 := by decide
theorem gen_vnProbe4 : Gen.vnProbe4 = vnOffsets 4 := by decide
theorem gen_ndLiterals : Gen.mooreNdBase = [-1, 0, 1] ∧ Gen.vnNdDeltas = [-1, 1] := by decide
theorem gen_hexProbes : Gen.hexProbeEven = pairsToVecs Gen.hexWhenEven ∧ Gen.hexProbeOdd = pairsToVecs Gen.hexWhenOdd ∧
    Gen.hexProbeOdd3 = pairsToVecs Gen.hexWhenOdd ∧ Gen.hexParityAxis = 1 := by decide
theorem gen_directions : Gen.directionMap = Gen.directionProbe ∧
    (∀ p ∈ Gen.directionMap, [p.2.1, p.2.2] ∈ mooreOffsets 2) := by decide

/-! ### hexagons -/

/-- axial row of the hexagon at grid coordinate (i, j): columns are `j`, odd columns are shifted up by
    half a cell (`q = j`, `r = i - (j + j mod 2)/2`) -/
def hexR (i j : Int) : Int := i - (j + j % 2) / 2

/-- distance in cube coordinates (q, r, -q-r) between the hexagons at (i, j) and (i', j') -/
def cubeDist (i j i' j' : Int) : Nat :=
  max (max (j' - j).natAbs (hexR i' j' - hexR i j).natAbs) ((j' - j) + (hexR i' j' - hexR i j)).natAbs

/-- the hexagons at (i, j) and (i+di, j+dj) share an edge -/
def hexTouch (i j di dj : Int) : Prop := cubeDist i j (i + di) (j + dj) = 1

theorem hexTable_touching (i j di dj : Int) : (di, dj) ∈ hexTable j ↔ hexTouch i j di dj := by
  unfold hexTable hexTouch cubeDist hexR
  constructor
  · intro h
    split at h
    · simp only [Gen.hexWhenOdd, List.mem_cons, Prod.mk.injEq, List.not_mem_nil, or_false] at h
      rcases h with h | h | h | h | h | h <;> obtain ⟨rfl, rfl⟩ := h <;> omega
    · simp only [Gen.hexWhenEven, List.mem_cons, Prod.mk.injEq, List.not_mem_nil, or_false] at h
      rcases h with h | h | h | h | h | h <;> obtain ⟨rfl, rfl⟩ := h <;> omega
  · intro h
    have hdj : dj = -1 ∨ dj = 0 ∨ dj = 1 := by omega
    split
    · simp only [Gen.hexWhenOdd, List.mem_cons, Prod.mk.injEq, List.not_mem_nil, or_false]
      rcases hdj with rfl | rfl | rfl <;> simp <;> omega
    · simp only [Gen.hexWhenEven, List.mem_cons, Prod.mk.injEq, List.not_mem_nil, or_false]
      rcases hdj with rfl | rfl | rfl <;> simp <;> omega

theorem cubeDist_symm (i j i' j' : Int) : cubeDist i j i' j' = cubeDist i' j' i j := by
  unfold cubeDist; omega

theorem hexTouch_symm (i j di dj : Int) : hexTouch i j di dj → hexTouch (i + di) (j + dj) (-di) (-dj) := by
  unfold hexTouch
  intro h
  rw [cubeDist_symm]
  have h1 : i + di + -di = i := by omega
  have h2 : j + dj + -dj = j := by omega
  rw [h1, h2]; exact h

/-- touching only depends on the parity of the column: wrapping a column by an even width keeps it -/
theorem hexTable_parity (j j' : Int) (h : j % 2 = j' % 2) : hexTable j = hexTable j' := by
  unfold hexTable; rw [h]

/-! ### which offsets a grid uses -/

/-- `d` is an offset of the geometry `k` at cell `c` of an `n`-dimensional grid -/
def IsOffset (k : GridKind) (n : Nat) (c d : List Int) : Prop :=
  match k with
  | .moore => d.length = n ∧ chebNorm d = 1
  | .vn => d.length = n ∧ manhNorm d = 1
  | .hex => n = 2 ∧ ∃ i j di dj, c = [i, j] ∧ d = [di, dj] ∧ hexTouch i j di dj

theorem mem_offsets2d (k : GridKind) (i j : Int) (d : List Int) :
    d ∈ pairsToVecs (offsets2d k j) ↔ IsOffset k 2 [i, j] d := by
  cases k with
  | moore =>
    simp only [offsets2d, IsOffset]
    rw [gen_moore2d, mem_mooreOffsets_norm]
  | vn =>
    simp only [offsets2d, IsOffset]
    rw [gen_vn2d.mem_iff, mem_vnOffsets_norm]
  | hex =>
    simp only [offsets2d, IsOffset, pairsToVecs, List.mem_map, true_and]
    constructor
    · rintro ⟨⟨di, dj⟩, hm, rfl⟩
      exact ⟨i, j, di, dj, rfl, rfl, (hexTable_touching i j di dj).mp hm⟩
    · rintro ⟨i', j', di, dj, hc, rfl, ht⟩
      simp at hc
      obtain ⟨rfl, rfl⟩ := hc
      exact ⟨(di, dj), (hexTable_touching i j di dj).mpr ht, rfl⟩

theorem mem_offsetsNd (k : GridKind) (n : Nat) (hk : k ≠ .hex) (c d : List Int) :
    d ∈ offsetsNd k n ↔ IsOffset k n c d := by
  cases k with
  | moore => simp only [offsetsNd, IsOffset]; exact mem_mooreOffsets_norm n d
  | vn => simp only [offsetsNd, IsOffset]; exact mem_vnOffsets_norm n d
  | hex => exact absurd rfl hk

theorem IsOffset.length_eq {k : GridKind} {n : Nat} {c d : List Int} (h : IsOffset k n c d) : d.length = n := by
  cases k with
  | moore => exact h.1
  | vn => exact h.1
  | hex =>
    obtain ⟨rfl, _, _, _, _, _, rfl, _⟩ := h
    rfl

/-- `Cell.connections` of a grid cell: exactly the offsets of the geometry, each leading to
    "add, wrap on a torus, keep iff in bounds" -/
theorem mem_gridConn (k : GridKind) (dims : List Nat) (torus : Bool) (c : List Int) (hc : InB c dims)
    (hk : k = .hex → dims.length = 2) (key c' : List Int) :
    (key, c') ∈ gridConn k dims torus c ↔
      IsOffset k dims.length c key ∧ connectNd dims torus c key = some c' := by
  have two : ∀ (h w : Nat) (i j : Int),
      ((key, c') ∈ gridConn k [h, w] torus [i, j] ↔
        IsOffset k 2 [i, j] key ∧ connectNd [h, w] torus [i, j] key = some c') := by
    intro h w i j
    simp only [gridConn, List.mem_filterMap, Option.map_eq_some_iff, Prod.mk.injEq, Prod.exists]
    rw [← mem_offsets2d]
    simp only [pairsToVecs, List.mem_map, Prod.exists]
    constructor
    · rintro ⟨di, dj, hm, ni, nj, hcn, rfl, rfl⟩
      refine ⟨⟨di, dj, hm, rfl⟩, ?_⟩
      rw [← connect2d_eq_nd, hcn]; rfl
    · rintro ⟨⟨di, dj, hm, rfl⟩, hcn⟩
      rw [← connect2d_eq_nd] at hcn
      simp only [Option.map_eq_some_iff, Prod.exists] at hcn
      obtain ⟨ni, nj, hcn, rfl⟩ := hcn
      exact ⟨di, dj, hm, ni, nj, hcn, rfl, rfl⟩
  have nd : dims.length ≠ 2 → ((key, c') ∈ (offsetsNd k dims.length).filterMap
      (fun d => (connectNd dims torus c d).map fun n => (d, n)) ↔
        IsOffset k dims.length c key ∧ connectNd dims torus c key = some c') := by
    intro hne
    have hk' : k ≠ .hex := fun h => hne (hk h)
    simp only [List.mem_filterMap, Option.map_eq_some_iff, Prod.mk.injEq]
    constructor
    · rintro ⟨d, hm, n, hcn, rfl, rfl⟩
      exact ⟨(mem_offsetsNd k _ hk' c d).mp hm, hcn⟩
    · rintro ⟨ho, hcn⟩
      exact ⟨key, (mem_offsetsNd k _ hk' c key).mpr ho, c', hcn, rfl, rfl⟩
  match dims, c, hc with
  | [], c, _ => exact nd (by simp)
  | [_], c, _ => exact nd (by simp)
  | [h, w], [i, j], _ => exact two h w i j
  | [h, w], [], hc => simp [InB] at hc
  | [h, w], [_], hc => simp [InB] at hc
  | [h, w], _ :: _ :: _ :: _, hc => simp [InB] at hc
  | _ :: _ :: _ :: _, c, _ => exact nd (by simp)

end Mesa.Cells
