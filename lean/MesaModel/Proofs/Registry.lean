import MesaModel.Model.Activation
import MesaModel.Proofs.ListOps
import MesaModel.Proofs.Activation
/-! Helper lemmas for C02: the registry invariant and its preservation by every operation. -/
namespace Mesa.Agents

/-- how a view may differ from its reference list: `Eq` (creation order) or `List.Perm` (after an
    explicit in-place reordering) — everything the preservation proofs need from either -/
structure OrdRel (R : List Aid → List Aid → Prop) : Prop where
  refl : ∀ l, R l l
  append : ∀ {l l'} (a : Aid), R l l' → R (l ++ [a]) (l' ++ [a])
  erase : ∀ {l l'} (a : Aid), R l l' → R (l.erase a) (l'.erase a)
  perm : ∀ {l l'}, R l l' → l.Perm l'

theorem OrdRel.eq : OrdRel Eq :=
  ⟨fun _ => rfl, fun _ h => by rw [h], fun _ h => by rw [h], fun h => by rw [h]⟩

theorem OrdRel.ofPerm : OrdRel List.Perm :=
  ⟨List.Perm.refl, fun _ h => h.append_right _, fun a h => h.erase a, id⟩

def modelOfI (info : List Info) (a : Aid) : Option Nat := (info[a]?).map (·.model)
def tyOfI (info : List Info) (a : Aid) : Ty := match info[a]? with | some i => i.ty | none => 0

theorem tyOf_eq (w : World) (a : Aid) : tyOf w a = tyOfI w.info a := rfl

/-- the agents created for model `m`, in creation order -/
def createdFor (info : List Info) (m : Nat) : List Aid :=
  (List.range info.length).filter (fun a => modelOfI info a == some m)

/-- … of which those no `remove()` call has named yet -/
def expectedHard (info : List Info) (rl : List Aid) (m : Nat) : List Aid :=
  (createdFor info m).filter (fun a => !rl.contains a)

theorem mem_createdFor {info : List Info} {m : Nat} {a : Aid} :
    a ∈ createdFor info m ↔ ∃ i, info[a]? = some i ∧ i.model = m := by
  simp only [createdFor, List.mem_filter, List.mem_range, modelOfI, beq_iff_eq, Option.map_eq_some_iff]
  constructor
  · rintro ⟨_, i, h1, h2⟩; exact ⟨i, h1, h2⟩
  · rintro ⟨i, h1, h2⟩; exact ⟨(List.getElem?_eq_some_iff.mp h1).1, i, h1, h2⟩

theorem createdFor_nodup (info : List Info) (m : Nat) : (createdFor info m).Nodup :=
  (List.nodup_range).sublist List.filter_sublist

theorem expectedHard_nodup (info : List Info) (rl : List Aid) (m : Nat) : (expectedHard info rl m).Nodup :=
  (createdFor_nodup info m).sublist List.filter_sublist

theorem mem_expectedHard {info : List Info} {rl : List Aid} {m : Nat} {a : Aid} :
    a ∈ expectedHard info rl m ↔ (∃ i, info[a]? = some i ∧ i.model = m) ∧ a ∉ rl := by
  simp [expectedHard, mem_createdFor]

theorem modelOfI_append_lt (info : List Info) (i : Info) {a : Aid} (h : a < info.length) :
    modelOfI (info ++ [i]) a = modelOfI info a := by
  simp [modelOfI, List.getElem?_append_left h]

theorem tyOfI_append_lt (info : List Info) (i : Info) {a : Aid} (h : a < info.length) :
    tyOfI (info ++ [i]) a = tyOfI info a := by
  simp [tyOfI, List.getElem?_append_left h]

theorem createdFor_append (info : List Info) (i : Info) (m : Nat) :
    createdFor (info ++ [i]) m = createdFor info m ++ (if i.model = m then [info.length] else []) := by
  simp only [createdFor, List.length_append, List.length_singleton, List.range_succ, List.filter_append]
  congr 1
  · apply List.filter_congr
    intro a ha
    rw [modelOfI_append_lt info i (List.mem_range.mp ha)]
  · simp only [List.filter_cons, List.filter_nil, modelOfI]
    by_cases h : i.model = m <;> simp [h]

theorem expectedHard_append (info : List Info) (i : Info) (rl : List Aid) (m : Nat)
    (hrl : ∀ a ∈ rl, a < info.length) :
    expectedHard (info ++ [i]) rl m = expectedHard info rl m ++ (if i.model = m then [info.length] else []) := by
  simp only [expectedHard, createdFor_append, List.filter_append]
  congr 1
  by_cases h : i.model = m
  · have : info.length ∉ rl := fun hm => Nat.lt_irrefl _ (hrl _ hm)
    simp [h, this]
  · simp [h]

theorem expectedHard_removed (info : List Info) (rl : List Aid) (m : Nat) (b : Aid) :
    expectedHard info (rl ++ [b]) m = (expectedHard info rl m).filter (· != b) := by
  simp only [expectedHard, List.filter_filter]
  apply List.filter_congr
  intro a _
  by_cases h1 : a ∈ rl <;> by_cases h2 : a = b <;> simp [h1, h2]

theorem filter_ne_of_not_mem {l : List Aid} {b : Aid} (h : b ∉ l) : l.filter (· != b) = l := by
  rw [List.filter_eq_self]
  intro a ha
  simp only [bne_iff_ne, ne_eq]
  intro hab; subst hab; exact h ha

theorem erase_filter_comm {l : List Aid} (hn : l.Nodup) (p : Aid → Bool) (b : Aid) :
    (l.erase b).filter p = (l.filter p).erase b := by
  rw [hn.erase_eq_filter, (hn.sublist List.filter_sublist).erase_eq_filter, List.filter_filter, List.filter_filter]
  apply List.filter_congr
  intro a _
  exact Bool.and_comm _ _

end Mesa.Agents

namespace Mesa.Agents

/-! ### the by-type dictionary -/

theorem byTypeAdd_keys (bt : List (Ty × List Aid)) (ty : Ty) (a : Aid) :
    (byTypeAdd bt ty a).map (·.1) = addKey (bt.map (·.1)) ty := by
  induction bt with
  | nil => simp [byTypeAdd, addKey]
  | cons p bt ih =>
    obtain ⟨t, s⟩ := p
    unfold byTypeAdd
    by_cases h : t = ty
    · subst h; simp [addKey]
    · have hne : ty ≠ t := fun e => h e.symm
      simp only [h, if_false, List.map_cons, ih]
      by_cases hm : ty ∈ bt.map (·.1)
      · rw [addKey_of_mem hm, addKey_of_mem (List.mem_cons_of_mem _ hm)]
      · have : ty ∉ t :: bt.map (·.1) := by
          intro hh; rcases List.mem_cons.mp hh with hh | hh
          · exact hne hh
          · exact hm hh
        rw [addKey_of_not_mem hm, addKey_of_not_mem this]; rfl

theorem byTypeErase_keys (bt : List (Ty × List Aid)) (ty : Ty) (b : Aid) :
    (byTypeErase bt ty b).map (·.1) = bt.map (·.1) := by
  induction bt with
  | nil => rfl
  | cons p bt ih =>
    obtain ⟨t, s⟩ := p
    unfold byTypeErase
    by_cases h : t = ty <;> simp [h, ih]

theorem byTypeSet_keys (bt : List (Ty × List Aid)) (ty : Ty) (l : List Aid) :
    (byTypeSet bt ty l).map (·.1) = bt.map (·.1) := by
  induction bt with
  | nil => rfl
  | cons p bt ih =>
    obtain ⟨t, s⟩ := p
    unfold byTypeSet
    by_cases h : t = ty <;> simp [h, ih]

/-- every group after `by_type[ty].add(a)` (or the creation of the group), given how the reference
    lists `F` change -/
theorem byTypeAdd_groups {R : List Aid → List Aid → Prop} (hR : OrdRel R) (F F' : Ty → List Aid) (ty : Ty) (a : Aid)
    (hF1 : F' ty = F ty ++ [a]) (hF2 : ∀ t, t ≠ ty → F' t = F t)
    (bt : List (Ty × List Aid)) (hk : (bt.map (·.1)).Nodup) (hg : ∀ ts ∈ bt, R ts.2 (F ts.1))
    (hfresh : ∀ ts ∈ bt, a ∉ ts.2) (hnew : ty ∉ bt.map (·.1) → F ty = []) :
    ∀ ts ∈ byTypeAdd bt ty a, R ts.2 (F' ts.1) := by
  induction bt with
  | nil =>
    intro ts hts
    simp only [byTypeAdd, List.mem_singleton] at hts
    subst hts
    simp only [hF1, hnew (by simp)]
    exact hR.refl _
  | cons p bt ih =>
    obtain ⟨t, s⟩ := p
    have hk' := (List.nodup_cons.mp hk)
    intro ts hts
    unfold byTypeAdd at hts
    by_cases h : t = ty
    · subst h
      simp only [if_true, List.mem_cons] at hts
      rcases hts with rfl | hts
      · simp only [hF1, addKey_of_not_mem (hfresh (t, s) List.mem_cons_self)]
        exact hR.append a (hg (t, s) List.mem_cons_self)
      · have : ts.1 ≠ t := by
          intro e; apply hk'.1; rw [← e]; exact List.mem_map.mpr ⟨ts, hts, rfl⟩
        rw [hF2 _ this]
        exact hg ts (List.mem_cons_of_mem _ hts)
    · simp only [h, if_false, List.mem_cons] at hts
      rcases hts with rfl | hts
      · simp only [hF2 _ h]; exact hg (t, s) List.mem_cons_self
      · apply ih hk'.2 (fun ts h => hg ts (List.mem_cons_of_mem _ h)) (fun ts h => hfresh ts (List.mem_cons_of_mem _ h)) _ ts hts
        intro hn
        apply hnew
        intro hm
        rcases List.mem_cons.mp hm with hm | hm
        · exact h hm.symm
        · exact hn hm

theorem byTypeErase_groups {R : List Aid → List Aid → Prop} (hR : OrdRel R) (F F' : Ty → List Aid) (ty : Ty) (b : Aid)
    (hF1 : F' ty = (F ty).erase b) (hF2 : ∀ t, t ≠ ty → F' t = F t)
    (bt : List (Ty × List Aid)) (hk : (bt.map (·.1)).Nodup) (hg : ∀ ts ∈ bt, R ts.2 (F ts.1)) :
    ∀ ts ∈ byTypeErase bt ty b, R ts.2 (F' ts.1) := by
  induction bt with
  | nil => intro ts hts; simp [byTypeErase] at hts
  | cons p bt ih =>
    obtain ⟨t, s⟩ := p
    have hk' := (List.nodup_cons.mp hk)
    intro ts hts
    unfold byTypeErase at hts
    by_cases h : t = ty
    · subst h
      simp only [if_true, List.mem_cons] at hts
      rcases hts with rfl | hts
      · simp only [hF1]; exact hR.erase b (hg (t, s) List.mem_cons_self)
      · have : ts.1 ≠ t := by
          intro e; apply hk'.1; rw [← e]; exact List.mem_map.mpr ⟨ts, hts, rfl⟩
        rw [hF2 _ this]
        exact hg ts (List.mem_cons_of_mem _ hts)
    · simp only [h, if_false, List.mem_cons] at hts
      rcases hts with rfl | hts
      · simp only [hF2 _ h]; exact hg (t, s) List.mem_cons_self
      · exact ih hk'.2 (fun ts h => hg ts (List.mem_cons_of_mem _ h)) ts hts

theorem byTypeSet_groups {R : List Aid → List Aid → Prop} (F : Ty → List Aid) (ty : Ty) (l : List Aid)
    (hl : R l (F ty)) (bt : List (Ty × List Aid)) (hg : ∀ ts ∈ bt, R ts.2 (F ts.1)) :
    ∀ ts ∈ byTypeSet bt ty l, R ts.2 (F ts.1) := by
  induction bt with
  | nil => intro ts hts; simp [byTypeSet] at hts
  | cons p bt ih =>
    obtain ⟨t, s⟩ := p
    intro ts hts
    unfold byTypeSet at hts
    by_cases h : t = ty
    · subst h
      simp only [if_true, List.mem_cons] at hts
      rcases hts with rfl | hts
      · exact hl
      · exact hg ts (List.mem_cons_of_mem _ hts)
    · simp only [h, if_false, List.mem_cons] at hts
      rcases hts with rfl | hts
      · exact hg (t, s) List.mem_cons_self
      · exact ih (fun ts h => hg ts (List.mem_cons_of_mem _ h)) ts hts

theorem lookup_of_mem_keys {bt : List (Ty × List Aid)} {ty : Ty} (h : ty ∈ bt.map (·.1)) :
    ∃ s, bt.lookup ty = some s ∧ (ty, s) ∈ bt := by
  induction bt with
  | nil => simp at h
  | cons p bt ih =>
    obtain ⟨t, s⟩ := p
    by_cases hts : ty = t
    · subst hts; exact ⟨s, by simp [List.lookup], List.mem_cons_self⟩
    · have hne : (ty == t) = false := by simpa using hts
      simp only [List.map_cons, List.mem_cons] at h
      rcases h with h | h
      · exact absurd h hts
      · obtain ⟨s', h1, h2⟩ := ih h
        exact ⟨s', by simp [List.lookup, hne, h1], List.mem_cons_of_mem _ h2⟩

theorem mem_of_lookup {bt : List (Ty × List Aid)} {ty : Ty} {s : List Aid} (h : bt.lookup ty = some s) :
    (ty, s) ∈ bt := by
  induction bt with
  | nil => simp [List.lookup] at h
  | cons p bt ih =>
    obtain ⟨t, s'⟩ := p
    by_cases hts : ty = t
    · subst hts; simp [List.lookup] at h; subst h; exact List.mem_cons_self
    · have hne : (ty == t) = false := by simpa using hts
      simp only [List.lookup, hne] at h
      exact List.mem_cons_of_mem _ (ih h)

/-- the by-type dictionary agrees with the hard references -/
structure ByTypeOK (R : List Aid → List Aid → Prop) (info : List Info) (hard : List Aid)
    (bt : List (Ty × List Aid)) : Prop where
  keys : (bt.map (·.1)).Nodup
  groups : ∀ ts ∈ bt, R ts.2 (hard.filter (fun a => tyOfI info a == ts.1))
  cover : ∀ a ∈ hard, tyOfI info a ∈ bt.map (·.1)

/-- the registry of model `m` agrees with the history (`info`: all agents created, `rl`: all removal calls) -/
structure RegInv (R : List Aid → List Aid → Prop) (info : List Info) (rl : List Aid) (m : Nat) (r : Reg) : Prop where
  hard : r.hard = expectedHard info rl m
  all : R r.all r.hard
  bt : ByTypeOK R info r.hard r.byType
  uid : (info.filter (fun i => i.model == m)).map (·.uid) = List.range' 1 (r.nextId - 1) ∧ 1 ≤ r.nextId

theorem RegInv.hard_lt {R info rl m r} (h : RegInv R info rl m r) : ∀ a ∈ r.hard, a < info.length := by
  intro a ha
  rw [h.hard, mem_expectedHard] at ha
  obtain ⟨⟨i, hi, _⟩, _⟩ := ha
  exact (List.getElem?_eq_some_iff.mp hi).1

theorem RegInv.hard_nodup {R info rl m r} (h : RegInv R info rl m r) : r.hard.Nodup := by
  rw [h.hard]; exact expectedHard_nodup _ _ _

end Mesa.Agents

namespace Mesa.Agents

/-! ### one registry under creation and removal -/

theorem tyOfI_new (info : List Info) (i : Info) : tyOfI (info ++ [i]) info.length = i.ty := by
  simp [tyOfI]

theorem filter_ty_append_lt (info : List Info) (i : Info) (l : List Aid) (hl : ∀ a ∈ l, a < info.length) (t : Ty) :
    l.filter (fun a => tyOfI (info ++ [i]) a == t) = l.filter (fun a => tyOfI info a == t) := by
  apply List.filter_congr
  intro a ha
  rw [tyOfI_append_lt info i (hl a ha)]

theorem RegInv.register {R : List Aid → List Aid → Prop} (hR : OrdRel R) {info : List Info} {rl : List Aid}
    {m : Nat} {r : Reg} (h : RegInv R info rl m r) (hrl : ∀ a ∈ rl, a < info.length)
    (i : Info) (him : i.model = m) (hiu : i.uid = r.nextId) :
    RegInv R (info ++ [i]) rl m { r.register info.length i.ty with nextId := r.nextId + 1 } := by
  have hlt := h.hard_lt
  have hn : info.length ∉ r.hard := fun hm => Nat.lt_irrefl _ (hlt _ hm)
  have hna : info.length ∉ r.all := fun hm => hn ((hR.perm h.all).mem_iff.mp hm)
  refine ⟨?_, ?_, ⟨?_, ?_, ?_⟩, ?_, ?_⟩
  · show addKey r.hard info.length = _
    rw [addKey_of_not_mem hn, expectedHard_append _ _ _ _ hrl, if_pos him, h.hard]
  · simp only [Reg.register, addKey_of_not_mem hn, addKey_of_not_mem hna]
    exact hR.append _ h.all
  · simp only [Reg.register, byTypeAdd_keys]
    exact nodup_addKey h.bt.keys
  · show ∀ ts ∈ byTypeAdd r.byType i.ty info.length,
      R ts.2 ((addKey r.hard info.length).filter (fun a => tyOfI (info ++ [i]) a == ts.1))
    rw [addKey_of_not_mem hn]
    refine byTypeAdd_groups hR (fun t => r.hard.filter (fun a => tyOfI info a == t))
      (fun t => (r.hard ++ [info.length]).filter (fun a => tyOfI (info ++ [i]) a == t)) i.ty info.length
      ?_ ?_ r.byType h.bt.keys h.bt.groups ?_ ?_
    · simp only [List.filter_append, filter_ty_append_lt info i r.hard hlt]
      simp [tyOfI_new]
    · intro t ht
      simp only [List.filter_append, filter_ty_append_lt info i r.hard hlt]
      have : (i.ty == t) = false := by simpa using fun e => ht e.symm
      simp [tyOfI_new, this]
    · intro ts hts hm
      have := (hR.perm (h.bt.groups ts hts)).mem_iff.mp hm
      exact hn (List.mem_filter.mp this).1
    · intro hnk
      rw [List.filter_eq_nil_iff]
      intro a ha hty
      apply hnk
      have := h.bt.cover a ha
      simp at hty; rw [hty] at this; exact this
  · intro a ha
    simp only [Reg.register, addKey_of_not_mem hn, byTypeAdd_keys] at ha ⊢
    rcases List.mem_append.mp ha with ha | ha
    · rw [tyOfI_append_lt info i (hlt a ha)]
      exact mem_addKey.mpr (Or.inl (h.bt.cover a ha))
    · simp at ha; subst ha
      rw [tyOfI_new]; exact mem_addKey.mpr (Or.inr rfl)
  · have h1 : 1 ≤ r.nextId := h.uid.2
    simp only [List.filter_append, List.map_append, h.uid.1]
    have : (i.model == m) = true := by simpa using him
    simp only [List.filter_cons, this, if_true, List.filter_nil, List.map_cons, List.map_nil, hiu]
    have e : r.nextId + 1 - 1 = (r.nextId - 1) + 1 := by omega
    rw [e, List.range'_1_concat]
    congr 2; omega
  · simp

theorem RegInv.info_append_other {R : List Aid → List Aid → Prop} {info : List Info} {rl : List Aid}
    {m : Nat} {r : Reg} (h : RegInv R info rl m r) (hrl : ∀ a ∈ rl, a < info.length)
    (i : Info) (him : i.model ≠ m) : RegInv R (info ++ [i]) rl m r := by
  have hlt := h.hard_lt
  refine ⟨?_, h.all, ⟨h.bt.keys, ?_, ?_⟩, ?_, h.uid.2⟩
  · rw [expectedHard_append _ _ _ _ hrl, if_neg him, List.append_nil, h.hard]
  · intro ts hts
    rw [filter_ty_append_lt info i r.hard hlt]
    exact h.bt.groups ts hts
  · intro a ha
    rw [tyOfI_append_lt info i (hlt a ha)]
    exact h.bt.cover a ha
  · have : (i.model == m) = false := by simpa using him
    simp [List.filter_append, this, h.uid.1]

theorem Reg.deregister_full {r : Reg} {b : Aid} {ty : Ty} {s : List Aid} (hb : b ∈ r.hard)
    (hl : r.byType.lookup ty = some s) (hs : b ∈ s) (ha : b ∈ r.all) :
    r.deregister b ty = { r with hard := r.hard.erase b, byType := byTypeErase r.byType ty b, all := r.all.erase b } := by
  simp [Reg.deregister, hb, hl, hs, ha]

theorem RegInv.deregister {R : List Aid → List Aid → Prop} (hR : OrdRel R) {info : List Info} {rl : List Aid}
    {m : Nat} {r : Reg} (h : RegInv R info rl m r) (b : Aid) (ib : Info) (hib : info[b]? = some ib) :
    RegInv R info (rl ++ [b]) m (r.deregister b ib.ty) := by
  have hnd := h.hard_nodup
  by_cases hb : b ∈ r.hard
  · have hty : tyOfI info b = ib.ty := by simp [tyOfI, hib]
    have hk : ib.ty ∈ r.byType.map (·.1) := by rw [← hty]; exact h.bt.cover b hb
    obtain ⟨s, hl, hmem⟩ := lookup_of_mem_keys hk
    have hbs : b ∈ s := by
      apply (hR.perm (h.bt.groups (ib.ty, s) hmem)).mem_iff.mpr
      simp [hb, hty]
    have hba : b ∈ r.all := (hR.perm h.all).mem_iff.mpr hb
    rw [Reg.deregister_full hb hl hbs hba]
    refine ⟨?_, hR.erase b h.all, ⟨?_, ?_, ?_⟩, h.uid⟩
    · simp only [expectedHard_removed, ← h.hard, hnd.erase_eq_filter]
    · simp only [byTypeErase_keys]; exact h.bt.keys
    · refine byTypeErase_groups hR (fun t => r.hard.filter (fun a => tyOfI info a == t))
        (fun t => (r.hard.erase b).filter (fun a => tyOfI info a == t)) ib.ty b ?_ ?_ r.byType h.bt.keys h.bt.groups
      · exact erase_filter_comm hnd _ b
      · intro t ht
        simp only [erase_filter_comm hnd _ b]
        apply List.erase_eq_self_iff.mpr
        intro hm
        have := (List.mem_filter.mp hm).2
        simp [hty] at this; exact ht this.symm
    · intro a ha
      simp only [byTypeErase_keys]
      exact h.bt.cover a (List.mem_of_mem_erase ha)
  · have : r.deregister b ib.ty = r := by simp [Reg.deregister, hb]
    rw [this]
    refine ⟨?_, h.all, h.bt, h.uid⟩
    rw [expectedHard_removed, ← h.hard, filter_ne_of_not_mem hb]

theorem RegInv.removed_other {R : List Aid → List Aid → Prop} {info : List Info} {rl : List Aid}
    {m : Nat} {r : Reg} (h : RegInv R info rl m r) (b : Aid) (ib : Info) (hib : info[b]? = some ib)
    (hm : ib.model ≠ m) : RegInv R info (rl ++ [b]) m r := by
  refine ⟨?_, h.all, h.bt, h.uid⟩
  have hb : b ∉ r.hard := by
    intro hb
    rw [h.hard, mem_expectedHard] at hb
    obtain ⟨⟨i, hi, him⟩, _⟩ := hb
    rw [hib] at hi; simp at hi; subst hi; exact hm him
  rw [expectedHard_removed, ← h.hard, filter_ne_of_not_mem hb]

end Mesa.Agents

namespace Mesa.Agents

/-! ### the world invariant -/

structure WInv (R : List Aid → List Aid → Prop) (w : World) : Prop where
  regs : ∀ m r, w.regs[m]? = some r → RegInv R w.info w.removedLog m r
  rl : ∀ a ∈ w.removedLog, a < w.info.length
  models : ∀ i ∈ w.info, i.model < w.regs.length
  sets : ∀ p ∈ w.sets, p.2.Nodup

theorem winv_empty (R : List Aid → List Aid → Prop) : WInv R World.empty :=
  ⟨by simp [World.empty], by simp [World.empty], by simp [World.empty], by simp [World.empty]⟩

theorem RegInv.congr {R info rl m} {r r' : Reg} (h : RegInv R info rl m r) (h1 : r'.hard = r.hard)
    (h2 : r'.all = r.all) (h3 : r'.byType = r.byType) (h4 : r'.nextId = r.nextId) : RegInv R info rl m r' :=
  ⟨by rw [h1]; exact h.hard, by rw [h1, h2]; exact h.all, by rw [h1, h3]; exact h.bt, by rw [h4]; exact h.uid⟩

theorem winv_newModel {R} (hR : OrdRel R) {w : World} (h : WInv R w) (g : Rng) : WInv R (newModel w g) := by
  refine ⟨?_, h.rl, ?_, h.sets⟩
  · intro m r hr
    simp only [newModel] at hr ⊢
    by_cases hm : m < w.regs.length
    · rw [List.getElem?_append_left hm] at hr
      exact h.regs m r hr
    · have hm' : m = w.regs.length := by
        have := (List.getElem?_eq_some_iff.mp hr).1
        simp at this; omega
      subst hm'
      simp at hr; subst hr
      have hnone : ∀ i ∈ w.info, (i.model == w.regs.length) = false := by
        intro i hi; have := h.models i hi; simp; omega
      refine ⟨?_, hR.refl _, ⟨by simp [Reg.new], by simp [Reg.new], by simp [Reg.new]⟩, ?_, by simp [Reg.new]⟩
      · simp only [Reg.new]
        symm
        rw [expectedHard, List.filter_eq_nil_iff]
        intro a ha
        obtain ⟨i, hi, him⟩ := mem_createdFor.mp ha
        have := hnone i (List.mem_of_getElem? hi)
        simp [him] at this
      · simp only [Reg.new]
        have : w.info.filter (fun i => i.model == w.regs.length) = [] := by
          rw [List.filter_eq_nil_iff]; intro i hi; simp [hnone i hi]
        simp [this]
  · intro i hi
    simp only [newModel, List.length_append, List.length_singleton]
    exact Nat.lt_succ_of_lt (h.models i hi)

theorem winv_createAgent {R} (hR : OrdRel R) {w : World} (h : WInv R w) (m : Nat) (ty : Ty) (hold : Bool) (x : Payload) :
    WInv R (createAgent w m ty hold x) := by
  unfold createAgent
  cases hr : w.regs[m]? with
  | none => exact h
  | some r =>
    have hm : m < w.regs.length := (List.getElem?_eq_some_iff.mp hr).1
    refine ⟨?_, ?_, ?_, h.sets⟩
    · intro m' r' hr'
      simp only at hr' ⊢
      rw [List.getElem?_set] at hr'
      by_cases hmm : m = m'
      · subst hmm
        simp only [hm, if_true, Option.some.injEq] at hr'
        subst hr'
        exact (h.regs m r hr).register hR h.rl ⟨m, ty, r.nextId, x⟩ rfl rfl
      · simp only [hmm, if_false] at hr'
        exact (h.regs m' r' hr').info_append_other h.rl _ (by simpa using hmm)
    · intro a ha
      simp only [List.length_append, List.length_singleton]
      exact Nat.lt_succ_of_lt (h.rl a ha)
    · intro i hi
      simp only [List.length_set]
      rcases List.mem_append.mp hi with hi | hi
      · exact h.models i hi
      · simp at hi; subst hi; exact hm

theorem winv_createN {R} (hR : OrdRel R) {w : World} (h : WInv R w) (m : Nat) (ty : Ty) (hold : Bool) (xs : List Payload) :
    WInv R (createN w m ty hold xs) := by
  unfold createN
  induction xs generalizing w with
  | nil => exact h
  | cons x xs ih => exact ih (winv_createAgent hR h m ty hold x)

theorem winv_removeAgent {R} (hR : OrdRel R) {w : World} (h : WInv R w) (b : Aid) : WInv R (removeAgent w b) := by
  cases hi : w.info[b]? with
  | none => rw [removeAgent_none hi]; exact h
  | some ib =>
    cases hr : w.regs[ib.model]? with
    | none => rw [removeAgent_noreg hi hr]; exact h
    | some r =>
      rw [removeAgent_some hi hr]
      have hm : ib.model < w.regs.length := (List.getElem?_eq_some_iff.mp hr).1
      refine ⟨?_, ?_, ?_, h.sets⟩
      · intro m' r' hr'
        simp only at hr' ⊢
        rw [List.getElem?_set] at hr'
        by_cases hmm : ib.model = m'
        · subst hmm
          simp only [hm, if_true, Option.some.injEq] at hr'
          subst hr'
          exact (h.regs _ r hr).deregister hR b ib hi
        · simp only [hmm, if_false] at hr'
          exact (h.regs m' r' hr').removed_other b ib hi hmm
      · intro a ha
        rcases List.mem_append.mp ha with ha | ha
        · exact h.rl a ha
        · simp at ha; subst ha; exact (List.getElem?_eq_some_iff.mp hi).1
      · intro i hi'
        simp only [List.length_set]
        exact h.models i hi'

theorem winv_foldl_removeAgent {R} (hR : OrdRel R) {w : World} (h : WInv R w) (l : List Aid) :
    WInv R (l.foldl removeAgent w) := by
  induction l generalizing w with
  | nil => exact h
  | cons a l ih => exact ih (winv_removeAgent hR h a)

theorem winv_removeAll {R} (hR : OrdRel R) {w : World} (h : WInv R w) (m : Nat) : WInv R (removeAll w m) := by
  unfold removeAll
  split
  · exact h
  · exact winv_foldl_removeAgent hR h _

theorem winv_unhold {R} {w : World} (h : WInv R w) (b : Aid) : WInv R (unhold w b) :=
  ⟨h.regs, h.rl, h.models, h.sets⟩

theorem winv_withLog {R} {w : World} (h : WInv R w) (l : List (Aid × Nat)) : WInv R { w with log := l } :=
  ⟨h.regs, h.rl, h.models, h.sets⟩

theorem winv_setRng {R} {w : World} (h : WInv R w) (m : Nat) (g : Rng) : WInv R (setRng w m g) := by
  refine ⟨?_, ?_, ?_, ?_⟩
  · intro m' r' hr'
    rw [setRng_regs] at hr'
    rw [setRng_info]
    have hrl : (setRng w m g).removedLog = w.removedLog := by unfold setRng; split <;> rfl
    rw [hrl]
    cases hr : w.regs[m']? with
    | none => simp [hr] at hr'
    | some r =>
      simp only [hr, Option.map_some, Option.some.injEq] at hr'
      subst hr'
      apply (h.regs m' r hr).congr <;> (split <;> rfl)
  · have hrl : (setRng w m g).removedLog = w.removedLog := by unfold setRng; split <;> rfl
    rw [hrl, setRng_info]; exact h.rl
  · rw [setRng_info]
    have : (setRng w m g).regs.length = w.regs.length := by
      unfold setRng; split <;> simp
    rw [this]; exact h.models
  · rw [setRng_sets]; exact h.sets

/-! ### activations preserve the invariant -/

/-- a callback that adds an agent to a program-made set: the registries are not concerned, the set stays duplicate-free -/
theorem winv_setAdd {R} {w : World} (h : WInv R w) (k : Nat) (b : Aid) : WInv R (setAdd w k b) := by
  obtain ⟨f1, f2, _, _, f5⟩ := setAdd_frame w k b
  refine ⟨by rw [f1, f2, f5]; exact h.regs, by rw [f1, f5]; exact h.rl, by rw [f1, f2]; exact h.models, ?_⟩
  unfold setAdd
  cases hs : w.sets[k]? with
  | none => exact h.sets
  | some p =>
    obtain ⟨m, l⟩ := p
    simp only
    split
    · intro q hq
      rcases List.mem_or_eq_of_mem_set hq with hq | rfl
      · exact h.sets q hq
      · exact nodup_addKey (h.sets (m, l) (List.mem_of_getElem? hs))
    · exact h.sets

theorem winv_setDiscard {R} {w : World} (h : WInv R w) (k : Nat) (b : Aid) : WInv R (setDiscard w k b) := by
  obtain ⟨f1, f2, _, _, f5⟩ := setDiscard_frame w k b
  refine ⟨by rw [f1, f2, f5]; exact h.regs, by rw [f1, f5]; exact h.rl, by rw [f1, f2]; exact h.models, ?_⟩
  unfold setDiscard
  cases hs : w.sets[k]? with
  | none => exact h.sets
  | some p =>
    obtain ⟨m, l⟩ := p
    simp only
    intro q hq
    rcases List.mem_or_eq_of_mem_set hq with hq | rfl
    · exact h.sets q hq
    · exact (h.sets (m, l) (List.mem_of_getElem? hs)).sublist List.erase_sublist

theorem winv_runAction {R} (hR : OrdRel R) {w : World} (h : WInv R w) (self : Aid) (act : Action) :
    WInv R (runAction self w act) := by
  cases act with
  | rmSelf => exact winv_removeAgent hR h self
  | rm b => exact winv_removeAgent hR h b
  | create m ty n hold => exact winv_createN hR h m ty hold _
  | unhold b => exact winv_unhold h b
  | addTo k b => exact winv_setAdd h k b
  | discardFrom k b => exact winv_setDiscard h k b

theorem winv_invoke {R} (hR : OrdRel R) {w : World} (h : WInv R w) (script : Aid → List Action) (arg : Nat) (a : Aid) :
    WInv R (invoke script arg w a) := by
  unfold invoke
  generalize script a = acts
  have h' := winv_withLog h (w.log ++ [(a, arg)])
  generalize ({ w with log := w.log ++ [(a, arg)] } : World) = w' at h'
  induction acts generalizing w' with
  | nil => exact h'
  | cons act acts ih => exact ih _ (winv_runAction hR h' a act)

theorem winv_walk {R} (hR : OrdRel R) {w : World} (h : WInv R w) (script : Aid → List Action) (arg : Nat)
    (refs : List Aid) : WInv R (walk script arg w refs) := by
  unfold walk
  induction refs generalizing w with
  | nil => exact h
  | cons a refs ih =>
    apply ih
    unfold turn; split
    · exact winv_invoke hR h script arg a
    · exact h

end Mesa.Agents

namespace Mesa.Agents

/-! ### the registry's sets show exactly their keys; reorderings; program-made sets -/

theorem alive_of_mem_hard {R} {w : World} (h : WInv R w) {m : Nat} {r : Reg} {a : Aid}
    (hr : w.regs[m]? = some r) (ha : a ∈ r.hard) : alive w a = true := by
  rw [(h.regs m r hr).hard, mem_expectedHard] at ha
  obtain ⟨⟨i, hi, him⟩, _⟩ := ha
  rw [alive_iff]
  refine ⟨(List.getElem?_eq_some_iff.mp hi).1, Or.inl ?_⟩
  rw [registered_iff]
  refine ⟨i, r, hi, by rw [him]; exact hr, ?_⟩
  rw [(h.regs m r hr).hard, mem_expectedHard]
  exact ⟨⟨i, hi, him⟩, by assumption⟩

theorem members_all_eq {R} (hR : OrdRel R) {w : World} (h : WInv R w) {m : Nat} {r : Reg}
    (hr : w.regs[m]? = some r) : members w (.all m) = r.all := by
  simp only [members, rawMembers, hr]
  rw [List.filter_eq_self]
  intro a ha
  exact alive_of_mem_hard h hr ((hR.perm (h.regs m r hr).all).mem_iff.mp ha)

theorem members_byType_eq {R} (hR : OrdRel R) {w : World} (h : WInv R w) {m : Nat} {r : Reg}
    (hr : w.regs[m]? = some r) (ty : Ty) : members w (.byType m ty) = (r.byType.lookup ty).getD [] := by
  simp only [members, rawMembers, hr]
  rw [List.filter_eq_self]
  intro a ha
  cases hl : r.byType.lookup ty with
  | none => simp [hl] at ha
  | some s =>
    simp only [hl, Option.getD_some] at ha
    have := (hR.perm ((h.regs m r hr).bt.groups (ty, s) (mem_of_lookup hl))).mem_iff.mp ha
    exact alive_of_mem_hard h hr (List.mem_filter.mp this).1

theorem byTypeSet_of_not_key (bt : List (Ty × List Aid)) (ty : Ty) (l : List Aid) (h : ty ∉ bt.map (·.1)) :
    byTypeSet bt ty l = bt := by
  induction bt with
  | nil => rfl
  | cons p bt ih =>
    obtain ⟨t, s⟩ := p
    simp only [List.map_cons, List.mem_cons, not_or] at h
    unfold byTypeSet
    rw [if_neg (fun e => h.1 e.symm), ih h.2]

theorem lookup_none_of_not_key {bt : List (Ty × List Aid)} {ty : Ty} (h : bt.lookup ty = none) : ty ∉ bt.map (·.1) := by
  intro hm
  obtain ⟨s, hs, _⟩ := lookup_of_mem_keys hm
  rw [h] at hs; simp at hs

/-- an in-place reordering (any permutation of what the set shows) keeps the invariant up to order -/
theorem winv_setRaw_perm {w : World} (h : WInv List.Perm w) (t : Target) (l : List Aid)
    (hl : l.Perm (members w t)) : WInv List.Perm (setRaw w t l) := by
  cases t with
  | all m =>
    simp only [setRaw]
    cases hr : w.regs[m]? with
    | none => exact h
    | some r =>
      have hm : m < w.regs.length := (List.getElem?_eq_some_iff.mp hr).1
      rw [members_all_eq OrdRel.ofPerm h hr] at hl
      refine ⟨?_, h.rl, ?_, h.sets⟩
      · intro m' r' hr'
        simp only at hr' ⊢
        rw [List.getElem?_set] at hr'
        by_cases hmm : m = m'
        · subst hmm
          simp only [hm, if_true, Option.some.injEq] at hr'
          subst hr'
          have hi := h.regs m r hr
          exact ⟨hi.hard, hl.trans hi.all, hi.bt, hi.uid⟩
        · simp only [hmm, if_false] at hr'
          exact h.regs m' r' hr'
      · intro i hi; simp only [List.length_set]; exact h.models i hi
  | byType m ty =>
    simp only [setRaw]
    cases hr : w.regs[m]? with
    | none => exact h
    | some r =>
      have hm : m < w.regs.length := (List.getElem?_eq_some_iff.mp hr).1
      rw [members_byType_eq OrdRel.ofPerm h hr] at hl
      refine ⟨?_, h.rl, ?_, h.sets⟩
      · intro m' r' hr'
        simp only at hr' ⊢
        rw [List.getElem?_set] at hr'
        by_cases hmm : m = m'
        · subst hmm
          simp only [hm, if_true, Option.some.injEq] at hr'
          subst hr'
          have hi := h.regs m r hr
          cases hlk : r.byType.lookup ty with
          | none =>
            rw [byTypeSet_of_not_key _ _ _ (lookup_none_of_not_key hlk)]
            exact ⟨hi.hard, hi.all, hi.bt, hi.uid⟩
          | some s =>
            rw [hlk] at hl
            refine ⟨hi.hard, hi.all, ⟨?_, ?_, ?_⟩, hi.uid⟩
            · simp only [byTypeSet_keys]; exact hi.bt.keys
            · exact byTypeSet_groups (fun t => r.hard.filter (fun a => tyOfI w.info a == t)) ty l
                (hl.trans (hi.bt.groups (ty, s) (mem_of_lookup hlk))) r.byType hi.bt.groups
            · intro a ha; simp only [byTypeSet_keys]; exact hi.bt.cover a ha
        · simp only [hmm, if_false] at hr'
          exact h.regs m' r' hr'
      · intro i hi; simp only [List.length_set]; exact h.models i hi
  | set k =>
    simp only [setRaw]
    cases hs : w.sets[k]? with
    | none => exact h
    | some p =>
      obtain ⟨m, l0⟩ := p
      refine ⟨h.regs, h.rl, h.models, ?_⟩
      intro q hq
      simp only at hq
      rcases List.mem_or_eq_of_mem_set hq with hq | rfl
      · exact h.sets q hq
      · simp only
        apply hl.nodup_iff.mpr
        have : (members w (.set k)).Sublist l0 := by
          simp only [members, rawMembers, hs]; exact List.filter_sublist
        exact (h.sets (m, l0) (List.mem_of_getElem? hs)).sublist this

theorem winv_shuffleInPlace {w : World} (h : WInv List.Perm w) (t : Target) : WInv List.Perm (shuffleInPlace w t) := by
  unfold shuffleInPlace
  exact winv_setRng (winv_setRaw_perm h t _ (Rng.shuffle_perm _ _)) _ _

theorem winv_sortInPlace {w : World} (h : WInv List.Perm w) (t : Target) (asc : Bool) :
    WInv List.Perm (sortInPlace w t asc) := by
  unfold sortInPlace
  exact winv_setRaw_perm h t _ (List.mergeSort_perm _ _)

/-- reordering a program-made set does not touch the registries at all -/
theorem winv_setRaw_set {R} {w : World} (h : WInv R w) (k : Nat) (l : List Aid) (hl : l.Perm (members w (.set k))) :
    WInv R (setRaw w (.set k) l) := by
  simp only [setRaw]
  cases hs : w.sets[k]? with
  | none => exact h
  | some p =>
    obtain ⟨m, l0⟩ := p
    refine ⟨h.regs, h.rl, h.models, ?_⟩
    intro q hq
    simp only at hq
    rcases List.mem_or_eq_of_mem_set hq with hq | rfl
    · exact h.sets q hq
    · simp only
      apply hl.nodup_iff.mpr
      have : (members w (.set k)).Sublist l0 := by
        simp only [members, rawMembers, hs]; exact List.filter_sublist
      exact (h.sets (m, l0) (List.mem_of_getElem? hs)).sublist this

theorem winv_mkSet {R} {w : World} (h : WInv R w) (m : Nat) (l : List Aid) : WInv R (mkSet w m l) := by
  refine ⟨h.regs, h.rl, h.models, ?_⟩
  intro p hp
  simp only [mkSet, List.mem_append, List.mem_singleton] at hp
  rcases hp with hp | rfl
  · exact h.sets p hp
  · exact nodup_dedup _

theorem groupMap_fst (script : Aid → List Action) (arg : Nat) (ret : Aid → Nat → Nat) (key : Aid → Nat)
    (w : World) (t : Target) : (groupMap script arg ret key w t).1 = groupDo script arg key w t := by
  unfold groupMap groupDo
  generalize groupBy key (members w t) = gs
  have : ∀ (acc : World × List (Nat × List Nat)),
      (gs.foldl (fun (acc : World × List (Nat × List Nat)) g =>
        let (w', rs) := walkMap script arg ret acc.1 (g.2.filter (alive acc.1))
        (w', acc.2 ++ [(g.1, rs)])) acc).1
      = gs.foldl (fun w g => walk script arg w (g.2.filter (alive w))) acc.1 := by
    induction gs with
    | nil => intro acc; rfl
    | cons g gs ih =>
      intro acc
      simp only [List.foldl_cons]
      rw [ih]
      simp only [(walkMap_spec script arg ret acc.1 _).1]
  exact this (w, [])

theorem winv_groupDo {R} (hR : OrdRel R) {w : World} (h : WInv R w) (script : Aid → List Action) (arg : Nat)
    (key : Aid → Nat) (t : Target) : WInv R (groupDo script arg key w t) := by
  unfold groupDo
  generalize groupBy key (members w t) = gs
  induction gs generalizing w with
  | nil => exact h
  | cons g gs ih => exact ih (winv_walk hR h script arg _)

/-- every operation that is not an in-place reordering of a registry set keeps the invariant for either
    reading of "agrees" (same order / same members) -/
theorem winv_step {R} (hR : OrdRel R) {w : World} (h : WInv R w) (op : Op) (hop : op.reordersRegistry = false) :
    WInv R (step w op) := by
  cases op with
  | newModel g => exact winv_newModel hR h g
  | create m ty hold x => exact winv_createAgent hR h m ty hold x
  | createN m ty hold xs => exact winv_createN hR h m ty hold xs
  | createAgents m ty hold n args => exact winv_createN hR h m ty hold _
  | remove a => exact winv_removeAgent hR h a
  | removeAll m => exact winv_removeAll hR h m
  | unhold a => exact winv_unhold h a
  | shuffle t =>
    cases t with
    | all m => simp [Op.reordersRegistry] at hop
    | byType m ty => simp [Op.reordersRegistry] at hop
    | set k =>
      simp only [step, shuffleInPlace]
      exact winv_setRng (winv_setRaw_set h k _ (Rng.shuffle_perm _ _)) _ _
  | sort t asc =>
    cases t with
    | all m => simp [Op.reordersRegistry] at hop
    | byType m ty => simp [Op.reordersRegistry] at hop
    | set k =>
      simp only [step, sortInPlace]
      exact winv_setRaw_set h k _ (List.mergeSort_perm _ _)
  | mkSet m l => exact winv_mkSet h m l
  | doSet script arg t => exact winv_walk hR h script arg _
  | shuffleDo script arg t =>
    simp only [step, shuffleDo]
    exact winv_walk hR (winv_setRng h _ _) script arg _
  | mapSet script arg t =>
    simp only [step, mapSet, (walkMap_spec script arg _ w _).1]
    exact winv_walk hR h script arg _
  | groupDo script arg key t => exact winv_groupDo hR h script arg _ t
  | groupMap script arg key t =>
    simp only [step, groupMap_fst]
    exact winv_groupDo hR h script arg _ t
  | doSetX script raises arg t =>
    obtain ⟨pre, _, hp⟩ := walkX_fst_walk script raises arg w (members w t)
    simp only [step, doSetX, hp]
    exact winv_walk hR h script arg _
  | shuffleDoX script raises arg t =>
    simp only [step, shuffleDoX]
    obtain ⟨pre, _, hp⟩ := walkX_fst_walk script raises arg
      (setRng w (t.model w) (Rng.shuffle (members w t) (rngOf w t)).2) (Rng.shuffle (members w t) (rngOf w t)).1
    rw [hp]
    exact winv_walk hR (winv_setRng h _ _) script arg _
  | mapSetX script raises arg t =>
    simp only [step, mapSetX, (walkMapX_spec script raises arg _ w _).1]
    obtain ⟨pre, _, hp⟩ := walkX_fst_walk script raises arg w (members w t)
    rw [hp]
    exact winv_walk hR h script arg _
  | groupDoX script raises arg key t =>
    simp only [step, groupDoX_eq]
    obtain ⟨pre, _, hp⟩ := walkX_fst_walk script raises arg w ((groupBy (key.eval w) (members w t)).map (·.2)).flatten
    rw [hp]
    exact winv_walk hR h script arg _
  | groupMapX script raises arg key t =>
    simp only [step, groupMapX, (groupsMapX_spec script raises arg _ w _).1]
    have := groupDoX_eq script raises arg (key.eval w) w t
    unfold groupDoX at this
    rw [this]
    obtain ⟨pre, _, hp⟩ := walkX_fst_walk script raises arg w ((groupBy (key.eval w) (members w t)).map (·.2)).flatten
    rw [hp]
    exact winv_walk hR h script arg _

theorem winv_step_perm {w : World} (h : WInv List.Perm w) (op : Op) : WInv List.Perm (step w op) := by
  by_cases hop : op.reordersRegistry = false
  · exact winv_step OrdRel.ofPerm h op hop
  · cases op with
    | shuffle t => exact winv_shuffleInPlace h t
    | sort t asc => exact winv_sortInPlace h t asc
    | _ => simp [Op.reordersRegistry] at hop

theorem winv_run_perm {w : World} (h : WInv List.Perm w) (ops : List Op) : WInv List.Perm (run w ops) := by
  unfold run
  induction ops generalizing w with
  | nil => exact h
  | cons op ops ih => exact ih (winv_step_perm h op)

theorem winv_run_eq {w : World} (h : WInv Eq w) (ops : List Op) (hops : ∀ op ∈ ops, op.reordersRegistry = false) :
    WInv Eq (run w ops) := by
  unfold run
  induction ops generalizing w with
  | nil => exact h
  | cons op ops ih =>
    exact ih (winv_step OrdRel.eq h op (hops op List.mem_cons_self)) (fun o ho => hops o (List.mem_cons_of_mem _ ho))

end Mesa.Agents

namespace Mesa.Agents

/-! ### frames, idempotence, permanence of ids -/

theorem eq_of_mem_nodup_keys {bt : List (Ty × List Aid)} (hk : (bt.map (·.1)).Nodup) {t : Ty} {s s' : List Aid}
    (h1 : (t, s) ∈ bt) (h2 : (t, s') ∈ bt) : s = s' := by
  induction bt with
  | nil => simp at h1
  | cons p bt ih =>
    have hk' := List.nodup_cons.mp hk
    rcases List.mem_cons.mp h1 with h1 | h1 <;> rcases List.mem_cons.mp h2 with h2 | h2
    · rw [← h1] at h2; exact (Prod.mk.inj h2).2.symm ▸ rfl
    · exfalso; apply hk'.1; rw [← h1]; exact List.mem_map.mpr ⟨(t, s'), h2, rfl⟩
    · exfalso; apply hk'.1; rw [← h2]; exact List.mem_map.mpr ⟨(t, s), h1, rfl⟩
    · exact ih hk'.2 h1 h2

theorem lookup_of_mem_nodup {bt : List (Ty × List Aid)} (hk : (bt.map (·.1)).Nodup) {ts : Ty × List Aid}
    (h : ts ∈ bt) : bt.lookup ts.1 = some ts.2 := by
  obtain ⟨s, hs, hmem⟩ := lookup_of_mem_keys (List.mem_map.mpr ⟨ts, h, rfl⟩)
  rw [hs, eq_of_mem_nodup_keys hk hmem (show (ts.1, ts.2) ∈ bt from h)]

theorem set_getElem?_self {α} {l : List α} {i : Nat} {x : α} (h : l[i]? = some x) : l.set i x = l := by
  apply List.ext_getElem?
  intro j
  rw [List.getElem?_set]
  split
  · subst_vars
    have := (List.getElem?_eq_some_iff.mp h).1
    rw [if_pos this, h]
  · rfl

theorem removeAgent_info (w : World) (b : Aid) : (removeAgent w b).info = w.info := by
  cases hi : w.info[b]? with
  | none => rw [removeAgent_none hi]
  | some i =>
    cases hr : w.regs[i.model]? with
    | none => rw [removeAgent_noreg hi hr]
    | some r => rw [removeAgent_some hi hr]

theorem createAgent_regs_other (w : World) (m m' : Nat) (hne : m' ≠ m) (ty : Ty) (hold : Bool) (x : Payload) :
    (createAgent w m ty hold x).regs[m']? = w.regs[m']? := by
  unfold createAgent
  cases w.regs[m]? with
  | none => rfl
  | some r => simp [Ne.symm hne]

theorem createN_regs_other (w : World) (m m' : Nat) (hne : m' ≠ m) (ty : Ty) (hold : Bool) (xs : List Payload) :
    (createN w m ty hold xs).regs[m']? = w.regs[m']? := by
  unfold createN
  induction xs generalizing w with
  | nil => rfl
  | cons x xs ih => simp only [List.foldl_cons]; rw [ih, createAgent_regs_other w m m' hne]

theorem removeAgent_regs_other (w : World) (a : Aid) (i : Info) (hi : w.info[a]? = some i) (m' : Nat)
    (hne : m' ≠ i.model) : (removeAgent w a).regs[m']? = w.regs[m']? := by
  cases hr : w.regs[i.model]? with
  | none => rw [removeAgent_noreg hi hr]
  | some r => rw [removeAgent_some hi hr]; simp [Ne.symm hne]

theorem foldl_removeAgent_regs_other (w : World) (m m' : Nat) (hne : m' ≠ m) (l : List Aid)
    (hl : ∀ a ∈ l, ∃ i, w.info[a]? = some i ∧ i.model = m) :
    (l.foldl removeAgent w).regs[m']? = w.regs[m']? := by
  induction l generalizing w with
  | nil => rfl
  | cons a l ih =>
    simp only [List.foldl_cons]
    obtain ⟨i, hi, him⟩ := hl a List.mem_cons_self
    rw [ih, removeAgent_regs_other w a i hi m' (by rw [him]; exact hne)]
    intro b hb
    rw [removeAgent_info]
    exact hl b (List.mem_cons_of_mem _ hb)

theorem setRaw_info (w : World) (t : Target) (l : List Aid) : (setRaw w t l).info = w.info := by
  cases t <;> simp only [setRaw] <;> split <;> rfl

/-- `info` (who was created, for which model, of which class, with which id) only ever grows at the end -/
theorem step_info_ext (w : World) (op : Op) : ∃ e, (step w op).info = w.info ++ e := by
  have hwalk : ∀ script arg w refs, ∃ e, (walk script arg w refs).info = w.info ++ e :=
    fun script arg w refs => (le_walk script arg w refs).ext
  have hgroup : ∀ script arg (w : World) (gs : List (Nat × List Aid)),
      ∃ e, (gs.foldl (fun w g => walk script arg w (g.2.filter (alive w))) w).info = w.info ++ e := by
    intro script arg w gs
    induction gs generalizing w with
    | nil => exact ⟨[], by simp⟩
    | cons g gs ih =>
      obtain ⟨e1, h1⟩ := hwalk script arg w (g.2.filter (alive w))
      obtain ⟨e2, h2⟩ := ih (walk script arg w (g.2.filter (alive w)))
      exact ⟨e1 ++ e2, by simp only [List.foldl_cons]; rw [h2, h1, List.append_assoc]⟩
  cases op with
  | newModel g => exact ⟨[], by simp [step, newModel]⟩
  | create m ty hold x => exact (le_createAgent w m ty hold x).ext
  | createN m ty hold xs => exact (le_createN w m ty hold xs).ext
  | createAgents m ty hold n args => exact (le_createN w m ty hold _).ext
  | remove a => exact (le_removeAgent w a).ext
  | removeAll m =>
    have hf : ∀ (l : List Aid) (w : World), (l.foldl removeAgent w).info = w.info := by
      intro l
      induction l with
      | nil => intro w; rfl
      | cons a l ih => intro w; simp only [List.foldl_cons]; rw [ih, removeAgent_info]
    simp only [step, removeAll]
    split
    · exact ⟨[], by simp⟩
    · exact ⟨[], by rw [hf]; simp⟩
  | unhold a => exact ⟨[], by simp [step, unhold]⟩
  | shuffle t => exact ⟨[], by simp [step, shuffleInPlace, setRng_info, setRaw_info]⟩
  | sort t asc => exact ⟨[], by simp [step, sortInPlace, setRaw_info]⟩
  | mkSet m l => exact ⟨[], by simp [step, mkSet]⟩
  | doSet script arg t => exact hwalk script arg w _
  | shuffleDo script arg t =>
    obtain ⟨e, he⟩ := hwalk script arg (setRng w (t.model w) (Rng.shuffle (members w t) (rngOf w t)).2)
      (Rng.shuffle (members w t) (rngOf w t)).1
    exact ⟨e, by simp only [step, shuffleDo]; rw [he, setRng_info]⟩
  | mapSet script arg t =>
    simp only [step, mapSet, (walkMap_spec script arg _ w _).1]; exact hwalk script arg w _
  | groupDo script arg key t => exact hgroup script arg w _
  | groupMap script arg key t => simp only [step, groupMap_fst]; exact hgroup script arg w _
  | doSetX script raises arg t => exact (le_walkX script raises arg w _).ext
  | shuffleDoX script raises arg t =>
    obtain ⟨e, he⟩ := (le_walkX script raises arg (setRng w (t.model w) (Rng.shuffle (members w t) (rngOf w t)).2)
      (Rng.shuffle (members w t) (rngOf w t)).1).ext
    exact ⟨e, by simp only [step, shuffleDoX]; rw [he, setRng_info]⟩
  | mapSetX script raises arg t =>
    simp only [step, mapSetX, (walkMapX_spec script raises arg _ w _).1]; exact (le_walkX script raises arg w _).ext
  | groupDoX script raises arg key t =>
    simp only [step, groupDoX_eq]; exact (le_walkX script raises arg w _).ext
  | groupMapX script raises arg key t =>
    simp only [step, groupMapX, (groupsMapX_spec script raises arg _ w _).1]
    have := groupDoX_eq script raises arg (key.eval w) w t
    unfold groupDoX at this
    rw [this]; exact (le_walkX script raises arg w _).ext

theorem run_info_ext (w : World) (ops : List Op) : ∃ e, (run w ops).info = w.info ++ e := by
  unfold run
  induction ops generalizing w with
  | nil => exact ⟨[], by simp⟩
  | cons op ops ih =>
    obtain ⟨e1, h1⟩ := step_info_ext w op
    obtain ⟨e2, h2⟩ := ih (step w op)
    exact ⟨e1 ++ e2, by simp only [List.foldl_cons]; rw [h2, h1, List.append_assoc]⟩

/-! ### what `create_agents` records about the agents it creates -/

theorem createAgent_spec (w : World) (m : Nat) (ty : Ty) (hold : Bool) (x : Payload) (r : Reg) (hr : w.regs[m]? = some r) :
    (createAgent w m ty hold x).info = w.info ++ [{ model := m, ty := ty, uid := r.nextId, x := x }] ∧
    ∃ r', (createAgent w m ty hold x).regs[m]? = some r' ∧ r'.nextId = r.nextId + 1 := by
  unfold createAgent
  simp only [hr]
  refine ⟨trivial, { r.register w.info.length ty with nextId := r.nextId + 1 }, ?_, rfl⟩
  simp [(List.getElem?_eq_some_iff.mp hr).1]

theorem createN_spec (m : Nat) (ty : Ty) (hold : Bool) (xs : List Payload) (w : World) (r : Reg) (hr : w.regs[m]? = some r) :
    (createN w m ty hold xs).info.length = w.info.length + xs.length ∧
    (∀ i, i < w.info.length → (createN w m ty hold xs).info[i]? = w.info[i]?) ∧
    (∀ i x, xs[i]? = some x →
      (createN w m ty hold xs).info[w.info.length + i]? = some { model := m, ty := ty, uid := r.nextId + i, x := x }) ∧
    ∃ r', (createN w m ty hold xs).regs[m]? = some r' ∧ r'.nextId = r.nextId + xs.length := by
  induction xs generalizing w r with
  | nil => exact ⟨rfl, fun _ _ => rfl, fun i x h => by simp at h, r, hr, rfl⟩
  | cons x0 rest ih =>
    obtain ⟨hinfo, r1, hr1, hn1⟩ := createAgent_spec w m ty hold x0 r hr
    obtain ⟨h1, h2, h3, r', hr', hn'⟩ := ih (createAgent w m ty hold x0) r1 hr1
    have hlen : (createAgent w m ty hold x0).info.length = w.info.length + 1 := by rw [hinfo]; simp
    have hcons : createN w m ty hold (x0 :: rest) = createN (createAgent w m ty hold x0) m ty hold rest := rfl
    rw [hcons]
    refine ⟨by rw [h1, hlen]; simp; omega, fun i hi => ?_, fun i x hx => ?_, r', hr', by rw [hn', hn1]; simp; omega⟩
    · rw [h2 i (by omega), hinfo, List.getElem?_append_left hi]
    · cases i with
      | zero =>
        simp only [List.getElem?_cons_zero, Option.some.injEq] at hx
        subst hx
        rw [h2 _ (by omega), hinfo]
        simp
      | succ i =>
        simp only [List.getElem?_cons_succ] at hx
        have := h3 i x hx
        rw [hlen, hn1] at this
        have e1 : w.info.length + (i + 1) = w.info.length + 1 + i := by omega
        have e2 : r.nextId + (i + 1) = r.nextId + 1 + i := by omega
        rw [e1, e2]; exact this

theorem splitArgs_length (n : Nat) (args : List Arg) : (splitArgs n args).length = n := by simp [splitArgs]

theorem splitArgs_getElem? (n : Nat) (args : List Arg) (i : Nat) (hi : i < n) :
    (splitArgs n args)[i]? = some (args.map (Arg.at n i)) := by
  simp [splitArgs, hi]

/-! ### `register_agent` called again on a registered agent -/

theorem byTypeAdd_noop (bt : List (Ty × List Aid)) (ty : Ty) (a : Aid) (s : List Aid) (h : bt.lookup ty = some s)
    (ha : a ∈ s) : byTypeAdd bt ty a = bt := by
  induction bt with
  | nil => simp [List.lookup] at h
  | cons p bt ih =>
    obtain ⟨t, s0⟩ := p
    unfold byTypeAdd
    by_cases hts : t = ty
    · subst hts
      simp only [List.lookup, beq_self_eq_true] at h
      simp only [if_true]
      have : s0 = s := by simpa using h
      subst this
      rw [addKey_of_mem ha]
    · have hne : (ty == t) = false := by simp; exact fun e => hts e.symm
      simp only [hts, if_false]
      rw [ih (by simpa [List.lookup, hne] using h)]

theorem registerAgain_noop {R} (hR : OrdRel R) {w : World} (h : WInv R w) (a : Aid) (hreg : registered w a = true) :
    registerAgain w a = w := by
  rw [registered_iff] at hreg
  obtain ⟨i, r, hi, hr, ha⟩ := hreg
  have hinv := h.regs i.model r hr
  have hall : a ∈ r.all := (hR.perm hinv.all).mem_iff.mpr ha
  have hty : tyOfI w.info a = i.ty := by simp [tyOfI, hi]
  obtain ⟨s, hs, hmem⟩ := lookup_of_mem_keys (hinv.bt.cover a ha)
  have has : a ∈ s := by
    have hg := hinv.bt.groups (tyOfI w.info a, s) hmem
    apply (hR.perm hg).mem_iff.mpr
    simp [ha]
  rw [hty] at hs
  have hreg' : r.register a i.ty = r := by
    simp only [Reg.register, addKey_of_mem ha, addKey_of_mem hall, byTypeAdd_noop _ _ _ _ hs has]
  simp only [registerAgain, hi, hr, hreg', set_getElem?_self hr]

end Mesa.Agents
