import MesaModel.Model.StepCounter
/-! Helper lemmas for C05 (model: `Model/StepCounter.lean`). -/
namespace Mesa.Steps

/-- depths (from `d` on) of the levels that define `step`, in MRO order -/
def overriding : Hier → Nat → List Nat
  | [], _ => []
  | L :: rest, d => if L.overrides then d :: overriding rest (d + 1) else overriding rest (d + 1)

theorem overriding_ge (h : Hier) (d : Nat) : ∀ x ∈ overriding h d, d ≤ x := by
  induction h generalizing d with
  | nil => simp [overriding]
  | cons L rest ih =>
    intro x hx
    unfold overriding at hx
    split at hx
    · rcases List.mem_cons.mp hx with rfl | hx
      · exact Nat.le_refl _
      · exact Nat.le_of_succ_le (ih _ x hx)
    · exact Nat.le_of_succ_le (ih _ x hx)

theorem overriding_sorted (h : Hier) (d : Nat) : (overriding h d).Pairwise (· < ·) := by
  induction h generalizing d with
  | nil => simp [overriding]
  | cons L rest ih =>
    unfold overriding
    split
    · exact List.pairwise_cons.mpr ⟨fun x hx => overriding_ge rest (d + 1) x hx, ih _⟩
    · exact ih _

theorem overriding_eq_nil {h : Hier} {d : Nat} : overriding h d = [] ↔ ∀ L ∈ h, L.overrides = false := by
  induction h generalizing d with
  | nil => simp [overriding]
  | cons L rest ih =>
    unfold overriding
    cases hL : L.overrides <;> simp [hL, ih]

theorem runChain_steps (h : Hier) (d : Nat) (args : List Int) (s : Nat) :
    ∀ e ∈ (runChain h d args s).1, e.steps = s := by
  induction h generalizing d args with
  | nil => simp [runChain]
  | cons L rest ih =>
    intro e he
    unfold runChain at he
    split at he
    · exact ih _ _ e he
    · split at he
      · simp at he
      · split at he
        · rcases List.mem_cons.mp he with rfl | he
          · rfl
          · exact ih _ _ e he
        · simp at he; subst he; rfl

/-- the bodies that ran are an initial segment of the overriding levels, in MRO order -/
theorem runChain_prefix (h : Hier) (d : Nat) (args : List Int) (s : Nat) :
    ((runChain h d args s).1.map (·.depth)) <+: overriding h d := by
  induction h generalizing d args with
  | nil => simp [runChain, overriding]
  | cons L rest ih =>
    unfold runChain overriding
    cases hL : L.overrides
    · simpa using ih (d + 1) args
    · simp only [Bool.not_true, Bool.false_eq_true, if_false, if_true]
      split
      · simp
      · split
        · simpa using ih (d + 1) _
        · simp

/-- a call without arguments never raises -/
theorem runChain_noargs_ok (h : Hier) (d : Nat) (s : Nat) : (runChain h d [] s).2 = true := by
  induction h generalizing d with
  | nil => simp [runChain]
  | cons L rest ih =>
    unfold runChain
    split
    · exact ih _
    · split
      · rename_i h1; simp at h1
      · split
        · have : (if L.takesArgs then ([] : List Int) else []) = [] := by split <;> rfl
          simp only [this]; exact ih _
        · rfl

/-- the most derived overriding body runs (when its signature accepts the arguments) -/
theorem runChain_noargs_nonempty (h : Hier) (d : Nat) (s : Nat) (hne : overriding h d ≠ []) :
    (runChain h d [] s).1 ≠ [] := by
  induction h generalizing d with
  | nil => simp [overriding] at hne
  | cons L rest ih =>
    unfold runChain
    unfold overriding at hne
    cases hL : L.overrides
    · simp [hL] at hne ⊢; exact ih _ hne
    · simp; split <;> simp

/-- `super()` links: every executed body but the last belongs to a level that calls super;
    if the call returned normally and the last executed level calls super, nothing is left to run -/
theorem runChain_links (h : Hier) (d : Nat) (args : List Int) (s : Nat) :
    ∀ (pre : List Entry) (e : Entry) (post : List Entry),
      (runChain h d args s).1 = pre ++ e :: post → post ≠ [] →
      ∃ L, h[e.depth - d]? = some L ∧ L.callsSuper = true ∧ d ≤ e.depth := by
  induction h generalizing d args with
  | nil => intro pre e post h1; simp [runChain] at h1
  | cons L rest ih =>
    intro pre e post h1 hpost
    unfold runChain at h1
    split at h1
    · obtain ⟨L', h2, h3, h4⟩ := ih _ _ pre e post h1 hpost
      refine ⟨L', ?_, h3, by omega⟩
      have : e.depth - d = (e.depth - (d + 1)) + 1 := by omega
      rw [this]; simpa using h2
    · split at h1
      · simp at h1
      · split at h1
        · rename_i hcs
          cases pre with
          | nil =>
            simp at h1
            refine ⟨L, ?_, hcs, by rw [← h1.1]; exact Nat.le_refl _⟩
            rw [← h1.1]; simp
          | cons p pre' =>
            simp at h1
            obtain ⟨L', h2, h3, h4⟩ := ih _ _ pre' e post h1.2 hpost
            refine ⟨L', ?_, h3, by omega⟩
            have : e.depth - d = (e.depth - (d + 1)) + 1 := by omega
            rw [this]; simpa using h2
        · cases pre with
          | nil => simp at h1; exact absurd h1.2 hpost
          | cons p pre' => simp at h1

/-- arguments reach the first body unchanged -/
theorem runChain_head_args (h : Hier) (d : Nat) (args : List Int) (s : Nat) :
    ∀ e ∈ (runChain h d args s).1.head?, e.args = args := by
  induction h generalizing d with
  | nil => simp [runChain]
  | cons L rest ih =>
    unfold runChain
    split
    · exact ih _
    · split
      · simp
      · split <;> simp

theorem callStep_steps (i : Inst) (args : List Int) : (callStep i args).1.steps = i.steps + 1 := rfl
theorem callStep_hier (i : Inst) (args : List Int) : (callStep i args).1.hier = i.hier := rfl
theorem callStep_stopAt (i : Inst) (args : List Int) : (callStep i args).1.stopAt = i.stopAt := rfl

/-- `k` calls of `step()` -/
def stepN : Nat → Inst → Inst
  | 0, i => i
  | k + 1, i => stepN k (callStep i []).1

theorem stepN_steps (k : Nat) (i : Inst) : (stepN k i).steps = i.steps + k := by
  induction k generalizing i with
  | zero => rfl
  | succ k ih => simp [stepN, ih, callStep_steps]; omega

theorem runModel_spec (f : Nat) (i i' : Inst) (es : List Entry) (h : runModel f i = some (i', es)) :
    ∃ k, i' = stepN k i ∧ i'.running = false ∧ ∀ j, j < k → (stepN j i).running = true := by
  induction f generalizing i i' es with
  | zero => simp [runModel] at h
  | succ f ih =>
    unfold runModel at h
    split at h
    · rename_i hr
      simp at h
      refine ⟨0, h.1.symm, ?_, fun j hj => absurd hj (Nat.not_lt_zero _)⟩
      rw [← h.1]; simpa using hr
    · rename_i hr
      dsimp only at h
      split at h
      · simp at h
      · rename_i i'' es' heq
        simp at h
        obtain ⟨k, h1, h2, h3⟩ := ih _ _ _ heq
        refine ⟨k + 1, ?_, ?_, ?_⟩
        · rw [← h.1, h1]; rfl
        · rw [← h.1]; exact h2
        · intro j hj
          cases j with
          | zero => simpa [stepN] using hr
          | succ j => exact h3 j (by omega)

theorem callStep_execs_lt (i : Inst) (hne : overriding i.hier 0 ≠ []) :
    i.execs < (callStep i []).1.execs := by
  have := runChain_noargs_nonempty i.hier 0 (i.steps + 1) hne
  have hl : 0 < (runChain i.hier 0 [] (i.steps + 1)).1.length := List.length_pos_iff.mpr this
  simp only [callStep]; omega

theorem callStep_running_of_reached (i : Inst) (hne : overriding i.hier 0 ≠ [])
    (hs : i.stopAt ≤ i.execs + 1) : (callStep i []).1.running = false := by
  have := runChain_noargs_nonempty i.hier 0 (i.steps + 1) hne
  have hl : 0 < (runChain i.hier 0 [] (i.steps + 1)).1.length := List.length_pos_iff.mpr this
  simp only [callStep]
  have h1 : ((runChain i.hier 0 [] (i.steps + 1)).1.length != 0) = true := by simp; omega
  have h2 : decide (i.stopAt ≤ i.execs + (runChain i.hier 0 [] (i.steps + 1)).1.length) = true := by
    simp; omega
  simp [h1, h2]

/-- with a body that counts towards the stop rule, `run_model` terminates -/
theorem runModel_terminates (i : Inst) (hne : overriding i.hier 0 ≠ []) :
    ∃ f, (runModel f i).isSome = true := by
  generalize hn : i.stopAt - i.execs = n
  induction n using Nat.strongRecOn generalizing i with
  | _ n ih =>
    by_cases hr : i.running = false
    · exact ⟨1, by simp [runModel, hr]⟩
    · by_cases hs : i.stopAt ≤ i.execs + 1
      · refine ⟨2, ?_⟩
        have := callStep_running_of_reached i hne hs
        simp [runModel, hr, this]
      · have hlt := callStep_execs_lt i hne
        obtain ⟨f, hf⟩ := ih ((callStep i []).1.stopAt - (callStep i []).1.execs)
          (by rw [callStep_stopAt]; omega) (callStep i []).1 (by rw [callStep_hier]; exact hne) rfl
        refine ⟨f + 1, ?_⟩
        unfold runModel
        simp only [hr]
        cases hrm : runModel f (callStep i []).1 with
        | none => simp [hrm] at hf
        | some p => simp

/-! ### several instances -/

theorem apply_length (w : List Inst) (op : Op) : (apply w op).length = w.length := by
  cases op <;> simp only [apply] <;> (repeat' split) <;> simp

def Op.target : Op → Nat
  | .step i _ => i | .run i _ => i | .rearm i _ => i | .halt i => i

/-- an operation on instance `i` leaves every other instance exactly as it was -/
theorem apply_frame (w : List Inst) (op : Op) (j : Nat) (h : op.target ≠ j) : (apply w op)[j]? = w[j]? := by
  cases op <;> simp only [apply, Op.target] at h ⊢ <;> (repeat' split) <;> simp [h]

def Op.isStepOn (j : Nat) : Op → Bool
  | .step i _ => i == j
  | _ => false

def Op.isRun : Op → Bool
  | .run _ _ => true
  | _ => false

theorem apply_steps (w : List Inst) (op : Op) (j : Nat) (x : Inst) (hx : w[j]? = some x) (hr : op.isRun = false) :
    ((apply w op)[j]?.map (·.steps)) = some (x.steps + if op.isStepOn j then 1 else 0) := by
  by_cases ht : op.target = j
  · cases op with
    | step i args =>
      simp only [Op.target] at ht; subst ht
      have hlt : i < w.length := by
        have := (List.getElem?_eq_some_iff.mp hx).1; exact this
      have hget : w[i] = x := by simpa [List.getElem?_eq_getElem hlt] using hx
      simp [apply, Op.isStepOn, hlt, callStep_steps, hget]
    | run i f => simp [Op.isRun] at hr
    | rearm i k =>
      simp only [Op.target] at ht; subst ht
      have hlt : i < w.length := (List.getElem?_eq_some_iff.mp hx).1
      have hget : w[i] = x := by simpa [List.getElem?_eq_getElem hlt] using hx
      simp [apply, Op.isStepOn, hlt, rearm, hget]
    | halt i =>
      simp only [Op.target] at ht; subst ht
      have hlt : i < w.length := (List.getElem?_eq_some_iff.mp hx).1
      have hget : w[i] = x := by simpa [List.getElem?_eq_getElem hlt] using hx
      simp [apply, Op.isStepOn, hlt, halt, hget]
  · rw [apply_frame w op j ht, hx]
    have : op.isStepOn j = false := by
      cases op <;> simp [Op.isStepOn, Op.target] at ht ⊢
      exact ht
    simp [this]

end Mesa.Steps

namespace Mesa.Steps

/-! ### the bodies one call runs, in closed form -/

/-- the levels that define `step`, with their depths, in MRO order -/
def ovLevels : Hier → Nat → List (Nat × Level)
  | [], _ => []
  | L :: rest, d => if L.overrides then (d, L) :: ovLevels rest (d + 1) else ovLevels rest (d + 1)

theorem ovLevels_depths (h : Hier) (d : Nat) : (ovLevels h d).map (·.1) = overriding h d := by
  induction h generalizing d with
  | nil => rfl
  | cons L rest ih => unfold ovLevels overriding; split <;> simp [ih]

theorem ovLevels_get (h : Hier) (d : Nat) : ∀ p ∈ ovLevels h d, d ≤ p.1 ∧ h[p.1 - d]? = some p.2 ∧ p.2.overrides = true := by
  induction h generalizing d with
  | nil => simp [ovLevels]
  | cons L rest ih =>
    intro p hp
    unfold ovLevels at hp
    split at hp
    · rename_i ho
      rcases List.mem_cons.mp hp with rfl | hp
      · simp [ho]
      · obtain ⟨h1, h2, h3⟩ := ih (d + 1) p hp
        refine ⟨by omega, ?_, h3⟩
        have : p.1 - d = (p.1 - (d + 1)) + 1 := by omega
        rw [this]; simpa using h2
    · obtain ⟨h1, h2, h3⟩ := ih (d + 1) p hp
      refine ⟨by omega, ?_, h3⟩
      have : p.1 - d = (p.1 - (d + 1)) + 1 := by omega
      rw [this]; simpa using h2

/-- Which bodies run, without recursion: of the levels that define `step` (MRO order) take those in front of the first
    one that cannot accept the arguments (`def step(self)` reached with arguments); the bodies that run are these up
    to and including the first that does not call `super().step(...)`; each sees the same counter and the caller's
    arguments; the call raises `TypeError` iff there are arguments and every body that ran called super. -/
def chainSpec (h : Hier) (d : Nat) (args : List Int) (s : Nat) : List Entry × Bool :=
  let good := (ovLevels h d).takeWhile (fun p => args.isEmpty || p.2.takesArgs)
  let n := (good.takeWhile (fun p => p.2.callsSuper)).length
  ((good.take (n + 1)).map (fun p => ⟨p.1, s, args⟩), args.isEmpty || decide (n < good.length))

theorem runChain_eq_chainSpec (h : Hier) (d : Nat) (args : List Int) (s : Nat) :
    runChain h d args s = chainSpec h d args s := by
  induction h generalizing d with
  | nil => simp [runChain, chainSpec, ovLevels]
  | cons L rest ih =>
    unfold runChain
    by_cases ho : L.overrides = true
    · simp only [ho, Bool.not_true, Bool.false_eq_true, if_false]
      by_cases hacc : (args.isEmpty || L.takesArgs) = true
      · have hfw : (if L.takesArgs = true then args else []) = args := by
          by_cases ht : L.takesArgs = true
          · simp [ht]
          · have : args.isEmpty = true := by simpa [ht] using hacc
            simp [ht, List.isEmpty_iff.mp this]
        have hguard : (!L.takesArgs && !args.isEmpty) = false := by
          cases hta : L.takesArgs <;> cases hae : args.isEmpty <;> simp_all
        simp only [hguard, Bool.false_eq_true, if_false]
        by_cases hcs : L.callsSuper = true
        · simp only [hcs, if_true, hfw, ih (d + 1)]
          simp only [chainSpec, ovLevels, ho, if_true, List.takeWhile_cons, hacc, hcs, List.length_cons,
            List.take_succ_cons, List.map_cons]
          simp
        · have hcs' : L.callsSuper = false := by simpa using hcs
          simp only [hcs', Bool.false_eq_true, if_false]
          simp [chainSpec, ovLevels, ho, hacc, hcs']
      · have hacc' : (args.isEmpty || L.takesArgs) = false := by simpa using hacc
        have hguard : (!L.takesArgs && !args.isEmpty) = true := by
          cases hta : L.takesArgs <;> cases hae : args.isEmpty <;> simp_all
        simp only [hguard, if_true]
        have hae : args.isEmpty = false := by
          cases hae : args.isEmpty <;> simp_all
        have hta : L.takesArgs = false := by
          cases hta : L.takesArgs <;> simp_all
        simp [chainSpec, ovLevels, ho, hae, hta]
    · have ho' : L.overrides = false := by simpa using ho
      simp only [ho', Bool.not_false, if_true, ih (d + 1)]
      simp [chainSpec, ovLevels, ho']

/-- the records of `k` successive `step()` calls -/
def entriesN : Nat → Inst → List Entry
  | 0, _ => []
  | k + 1, i => (callStep i []).2.1 ++ entriesN k (callStep i []).1

theorem runModel_entries (f : Nat) (i i' : Inst) (es : List Entry) (h : runModel f i = some (i', es)) :
    ∃ k, i' = stepN k i ∧ es = entriesN k i ∧ i'.running = false ∧ ∀ j, j < k → (stepN j i).running = true := by
  induction f generalizing i i' es with
  | zero => simp [runModel] at h
  | succ f ih =>
    unfold runModel at h
    split at h
    · rename_i hr
      simp at h
      refine ⟨0, h.1.symm, h.2.symm ▸ rfl, ?_, fun j hj => absurd hj (Nat.not_lt_zero _)⟩
      rw [← h.1]; simpa using hr
    · rename_i hr
      dsimp only at h
      split at h
      · simp at h
      · rename_i i'' es' heq
        simp at h
        obtain ⟨k, h1, h1e, h2, h3⟩ := ih _ _ _ heq
        refine ⟨k + 1, ?_, ?_, ?_, ?_⟩
        · rw [← h.1, h1]; rfl
        · rw [← h.2, h1e]; rfl
        · rw [← h.1]; exact h2
        · intro j hj
          cases j with
          | zero => simpa [stepN] using hr
          | succ j => exact h3 j (by omega)

theorem entriesN_steps (k : Nat) (i : Inst) : ∀ e ∈ entriesN k i, i.steps + 1 ≤ e.steps ∧ e.steps ≤ i.steps + k := by
  induction k generalizing i with
  | zero => simp [entriesN]
  | succ k ih =>
    intro e he
    simp only [entriesN, List.mem_append] at he
    rcases he with he | he
    · have := runChain_steps i.hier 0 [] (i.steps + 1) e he
      omega
    · have := ih (callStep i []).1 e he
      rw [callStep_steps] at this
      omega

/-- what an operation does to its own instance depends on that instance alone -/
theorem apply_local (w w' : List Inst) (op : Op) (h : w[op.target]? = w'[op.target]?) :
    (apply w op)[op.target]? = (apply w' op)[op.target]? := by
  cases op with
  | step i args =>
    simp only [Op.target] at h ⊢
    simp only [apply]
    rw [← h]
    cases hx : w[i]? with
    | none => simp [hx, ← h]
    | some x =>
      have h' : w'[i]? = some x := by rw [← h]; exact hx
      have hi := (List.getElem?_eq_some_iff.mp hx).1
      have hi' := (List.getElem?_eq_some_iff.mp h').1
      simp [hi, hi']
  | run i fuel =>
    simp only [Op.target] at h ⊢
    simp only [apply]
    rw [← h]
    cases hx : w[i]? with
    | none => simp [hx, ← h]
    | some x =>
      have h' : w'[i]? = some x := by rw [← h]; exact hx
      have hi := (List.getElem?_eq_some_iff.mp hx).1
      have hi' := (List.getElem?_eq_some_iff.mp h').1
      cases hr : runModel fuel x with
      | none => simp [hx, h', hr]
      | some p => simp [hr, hi, hi']
  | rearm i k =>
    simp only [Op.target] at h ⊢
    simp only [apply]
    rw [← h]
    cases hx : w[i]? with
    | none => simp [hx, ← h]
    | some x =>
      have h' : w'[i]? = some x := by rw [← h]; exact hx
      have hi := (List.getElem?_eq_some_iff.mp hx).1
      have hi' := (List.getElem?_eq_some_iff.mp h').1
      simp [hi, hi']
  | halt i =>
    simp only [Op.target] at h ⊢
    simp only [apply]
    rw [← h]
    cases hx : w[i]? with
    | none => simp [hx, ← h]
    | some x =>
      have h' : w'[i]? = some x := by rw [← h]; exact hx
      have hi := (List.getElem?_eq_some_iff.mp hx).1
      have hi' := (List.getElem?_eq_some_iff.mp h').1
      simp [hi, hi']

/-- the records of `k` successive calls, call by call -/
theorem entriesN_eq_flatMap (k : Nat) (i : Inst) :
    entriesN k i = (List.range k).flatMap (fun j => (callStep (stepN j i) []).2.1) := by
  induction k generalizing i with
  | zero => rfl
  | succ k ih =>
    rw [List.range_succ_eq_map, List.flatMap_cons, List.flatMap_map, entriesN, ih]
    rfl

/-- every body of the `j`-th of successive calls sees the counter after `j + 1` increments -/
theorem callStep_stepN_steps (j : Nat) (i : Inst) : ∀ e ∈ (callStep (stepN j i) []).2.1, e.steps = i.steps + j + 1 := by
  intro e he
  have := runChain_steps (stepN j i).hier 0 [] ((stepN j i).steps + 1) e he
  rw [this, stepN_steps]

/-- whether an operation returns depends on its own instance alone -/
theorem returns_local (w w' : List Inst) (op : Op) (h : w[op.target]? = w'[op.target]?) : op.returns w = op.returns w' := by
  cases op <;> simp only [Op.returns, Op.target] at h ⊢
  rw [h]

end Mesa.Steps
