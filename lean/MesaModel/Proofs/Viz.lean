import MesaModel.Model.Viz
/-!
Helper lemmas for the Viz model (property theorems: `Props/C20.lean`).
-/
deriving instance DecidableEq for Except

namespace Mesa.Viz

/-! ## lists -/

theorem flatMap_congr' {α β} {f g : α → List β} : ∀ {l : List α}, (∀ a ∈ l, f a = g a) → l.flatMap f = l.flatMap g
  | [], _ => rfl
  | a :: l, h => by
    simp only [List.flatMap_cons]
    rw [h a (by simp), flatMap_congr' (fun b hb => h b (by simp [hb]))]

/-- Splitting a list by a family of predicates that is exhaustive and exclusive on the list is a
    permutation of it. -/
theorem flatMap_filter_perm {α κ} (p : κ → α → Bool) :
    ∀ (ks : List κ) (l : List α), ks.Nodup →
      (∀ a ∈ l, ∃ k ∈ ks, p k a = true) →
      (∀ a k k', p k a = true → p k' a = true → k = k') →
      (ks.flatMap fun k => l.filter (p k)).Perm l
  | [], l, _, hex, _ => by
    cases l with
    | nil => simp
    | cons a l => obtain ⟨k, hk, _⟩ := hex a (by simp); cases hk
  | k :: ks, l, hnd, hex, hu => by
    have hnd' := List.nodup_cons.mp hnd
    simp only [List.flatMap_cons]
    have hrest : (ks.flatMap fun k' => l.filter (p k')) =
        ks.flatMap fun k' => (l.filter fun a => !p k a).filter (p k') := by
      apply flatMap_congr'
      intro k' hk'
      rw [List.filter_filter]
      apply List.filter_congr
      intro a _
      cases h : p k' a with
      | false => simp
      | true =>
        cases h2 : p k a with
        | false => simp
        | true => exact absurd (hu a k k' h2 h) (fun e => hnd'.1 (e ▸ hk'))
    rw [hrest]
    have ih := flatMap_filter_perm p ks (l.filter fun a => !p k a) hnd'.2
      (by
        intro a ha
        rw [List.mem_filter] at ha
        obtain ⟨k'', hk'', hp⟩ := hex a ha.1
        rcases List.mem_cons.mp hk'' with rfl | hm
        · simp [hp] at ha
        · exact ⟨k'', hm, hp⟩) hu
    exact (List.Perm.append_left _ ih).trans (List.filter_append_perm (p k) l)

theorem mem_distinct {a : Val} : ∀ {l : List Val}, a ∈ distinct l ↔ a ∈ l
  | [] => by simp [distinct]
  | x :: xs => by
    unfold distinct
    split
    · rename_i h
      have hx : x ∈ xs := mem_distinct.mp (List.contains_iff_mem.mp h)
      rw [mem_distinct (l := xs)]
      constructor
      · intro h; exact List.mem_cons_of_mem _ h
      · intro h; rcases List.mem_cons.mp h with rfl | h
        · exact hx
        · exact h
    · simp [mem_distinct (l := xs)]

theorem nodup_distinct : ∀ (l : List Val), (distinct l).Nodup
  | [] => by simp [distinct]
  | x :: xs => by
    unfold distinct
    split
    · exact nodup_distinct xs
    · rename_i h
      refine List.nodup_cons.mpr ⟨fun hm => h (List.contains_iff_mem.mpr hm), nodup_distinct xs⟩

theorem nodup_product {α β} {as : List α} {bs : List β} (ha : as.Nodup) (hb : bs.Nodup) :
    (as.flatMap fun a => bs.map fun b => (a, b)).Nodup := by
  unfold List.Nodup
  rw [List.pairwise_flatMap]
  refine ⟨fun a _ => ?_, ?_⟩
  · exact List.Pairwise.map _ (fun b b' hne he => hne (Prod.mk.inj he).2) hb
  · refine List.Pairwise.imp ?_ ha
    intro a a' hne x hx y hy he
    rw [List.mem_map] at hx hy
    obtain ⟨_, _, rfl⟩ := hx
    obtain ⟨_, _, rfl⟩ := hy
    exact hne (Prod.mk.inj he).1

/-! ## dicts and `collect_agent_data` -/

theorem get?_erase_ne {k k' : Key} (h : k' ≠ k) : ∀ (d : Dict), Dict.get? (Dict.erase d k) k' = Dict.get? d k'
  | [] => rfl
  | (a, b) :: d => by
    have ih := get?_erase_ne h d
    unfold Dict.get? Dict.erase at *
    by_cases hak : a = k
    · subst hak
      have : (k' == a) = false := by simpa using h
      simp [List.lookup_cons, this, ih]
    · have hne : (a != k) = true := by simpa using hak
      simp only [List.filter_cons, hne, if_true, List.lookup_cons]
      rw [ih]

/-- the keys `collect_agent_data` consumes -/
def supportedKeys : List Key := ["size", "color", "marker", "zorder", "alpha", "edgecolors", "linewidths"]

theorem keys_erase (d : Dict) (k : Key) : Dict.keys (Dict.erase d k) = (Dict.keys d).filter (· != k) := by
  unfold Dict.keys Dict.erase
  induction d with
  | nil => rfl
  | cons kv d ih =>
    simp only [List.filter_cons, List.map_cons]
    split <;> simp_all

/-- What `collect_agent_data` records for one agent: the location, and for every supported key the value
    the portrayal returned or the default. -/
theorem collectOne_spec (df : Defaults) (loc : Loc) (d : Dict) :
    (collectOne df loc d).loc = loc ∧
    (collectOne df loc d).s = (Dict.get? d "size").getD df.size ∧
    (collectOne df loc d).c = (Dict.get? d "color").getD df.color ∧
    (collectOne df loc d).marker = (Dict.get? d "marker").getD df.marker ∧
    (collectOne df loc d).zorder = (Dict.get? d "zorder").getD df.zorder ∧
    (collectOne df loc d).alpha = Dict.get? d "alpha" ∧
    (collectOne df loc d).edgecolors = Dict.get? d "edgecolors" ∧
    (collectOne df loc d).linewidths = Dict.get? d "linewidths" ∧
    (collectOne df loc d).ignored = (Dict.keys d).filter (fun k => !supportedKeys.contains k) := by
  refine ⟨rfl, rfl, ?_, ?_, ?_, ?_, ?_, ?_, ?_⟩ <;> simp only [collectOne, Dict.pop, Dict.pop?]
  · rw [get?_erase_ne (by decide)]
  · rw [get?_erase_ne (by decide), get?_erase_ne (by decide)]
  · rw [get?_erase_ne (by decide), get?_erase_ne (by decide), get?_erase_ne (by decide)]
  · rw [get?_erase_ne (by decide), get?_erase_ne (by decide), get?_erase_ne (by decide), get?_erase_ne (by decide)]
  · rw [get?_erase_ne (by decide), get?_erase_ne (by decide), get?_erase_ne (by decide), get?_erase_ne (by decide),
      get?_erase_ne (by decide)]
  · rw [get?_erase_ne (by decide), get?_erase_ne (by decide), get?_erase_ne (by decide), get?_erase_ne (by decide),
      get?_erase_ne (by decide), get?_erase_ne (by decide)]
  · simp only [keys_erase, List.filter_filter]
    apply List.filter_congr
    intro k _
    simp [supportedKeys, List.contains, List.elem]
    simp only [bne]
    generalize (k == "size") = b1
    generalize (k == "color") = b2
    generalize (k == "marker") = b3
    generalize (k == "zorder") = b4
    generalize (k == "alpha") = b5
    generalize (k == "edgecolors") = b6
    generalize (k == "linewidths") = b7
    cases b1 <;> cases b2 <;> cases b3 <;> cases b4 <;> cases b5 <;> cases b6 <;> cases b7 <;> rfl

/-! ## `d[k] = v` and Altair rows -/

theorem hasKey_iff {d : Dict} {k : Key} : Dict.hasKey d k = true ↔ ∃ v, (k, v) ∈ d := by
  unfold Dict.hasKey
  rw [List.any_eq_true]
  constructor
  · rintro ⟨⟨k', v⟩, hm, he⟩
    have : k' = k := by simpa using he
    exact ⟨v, this ▸ hm⟩
  · rintro ⟨v, hm⟩; exact ⟨(k, v), hm, by simp⟩

theorem get?_isSome_of_hasKey : ∀ {d : Dict} {k : Key}, Dict.hasKey d k = true → (Dict.get? d k).isSome
  | [], k, h => by simp [Dict.hasKey] at h
  | (a, b) :: d, k, h => by
    unfold Dict.get?
    rw [List.lookup_cons]
    cases hk : (k == a) with
    | true => simp
    | false =>
      have : Dict.hasKey d k = true := by
        unfold Dict.hasKey at h ⊢
        have hak : (a == k) = false := by
          have : k ≠ a := by simpa using hk
          simpa using fun e => this e.symm
        simpa [List.any_cons, hak] using h
      exact get?_isSome_of_hasKey this

theorem get?_none_of_not_hasKey : ∀ {d : Dict} {k : Key}, Dict.hasKey d k = false → Dict.get? d k = none
  | [], _, _ => rfl
  | (a, b) :: d, k, h => by
    unfold Dict.hasKey at h
    rw [List.any_cons, Bool.or_eq_false_iff] at h
    unfold Dict.get?
    rw [List.lookup_cons]
    have hak : (k == a) = false := by
      have : a ≠ k := by simpa using h.1
      simpa using fun e => this e.symm
    rw [hak]
    exact get?_none_of_not_hasKey (d := d) h.2

set_option linter.unusedSimpArgs false in
theorem lookup_map_set {k : Key} {v : Val} (k' : Key) : ∀ (d : Dict),
    List.lookup k' (d.map fun kv => if kv.1 == k then (k, v) else kv) =
      if k' == k then (List.lookup k' d).map (fun _ => v) else List.lookup k' d
  | [] => by simp
  | (a, b) :: d => by
    have ih := lookup_map_set (k := k) (v := v) k' d
    simp only [List.map_cons, List.lookup_cons]
    cases h1 : (a == k) <;> cases h2 : (k' == a) <;> cases h3 : (k' == k) <;>
      simp only [h1, h2, h3, if_true, if_false, List.lookup_cons, Bool.false_eq_true, Option.map_some] at ih ⊢ <;>
      simp_all

theorem lookup_append_single (k' k : Key) (v : Val) : ∀ (d : Dict),
    List.lookup k' (d ++ [(k, v)]) = (List.lookup k' d).or (if k' == k then some v else none)
  | [] => by cases h : (k' == k) <;> simp [List.lookup_cons, h]
  | (a, b) :: d => by
    simp only [List.cons_append, List.lookup_cons]
    cases (k' == a) with
    | true => rfl
    | false => exact lookup_append_single k' k v d

/-- `d[k] = v; d[k]` -/
theorem get?_set_self (d : Dict) (k : Key) (v : Val) : Dict.get? (Dict.set d k v) k = some v := by
  unfold Dict.set Dict.get?
  split
  · rename_i h
    rw [lookup_map_set]
    have := get?_isSome_of_hasKey h
    unfold Dict.get? at this
    simp only [beq_self_eq_true, if_true]
    cases hl : List.lookup k d with
    | none => simp [hl] at this
    | some _ => rfl
  · rename_i h
    have h' : Dict.hasKey d k = false := by simpa using h
    have := get?_none_of_not_hasKey h'
    unfold Dict.get? at this
    rw [lookup_append_single, this]
    simp

/-- `d[k] = v` leaves every other key alone -/
theorem get?_set_ne (d : Dict) {k k' : Key} (v : Val) (h : k' ≠ k) : Dict.get? (Dict.set d k v) k' = Dict.get? d k' := by
  have hk : (k' == k) = false := by simpa using h
  unfold Dict.set Dict.get?
  split
  · rw [lookup_map_set, hk]; rfl
  · rw [lookup_append_single, hk]; simp

/-- An Altair row carries the agent's coordinates under `x`, `y` and every other key of the portrayal. -/
theorem altairRow_spec (d : Dict) (l : Loc) :
    Dict.get? (altairRow d l) "x" = some (toString l.x) ∧
    Dict.get? (altairRow d l) "y" = some (toString l.y) ∧
    ∀ k, k ≠ "x" → k ≠ "y" → Dict.get? (altairRow d l) k = Dict.get? d k := by
  unfold altairRow
  refine ⟨?_, get?_set_self _ _ _, fun k hx hy => ?_⟩
  · rw [get?_set_ne _ _ (by decide), get?_set_self]
  · rw [get?_set_ne _ _ hy, get?_set_ne _ _ hx]



/-! ## spaces -/

/-- invariant of every space built by `Space.init?` and changed by `place` / `move` / `remove` -/
structure Space.WF (sp : Space) : Prop where
  cellsNodup : sp.cells.Nodup
  located : ∀ a ∈ sp.placed, ∃ l, a.location = some l ∧ (sp.fam.cellular = true → l ∈ sp.cells)
  idsNodup : (sp.placed.map (·.id)).Nodup

theorem mkAgent_location (fam : Family) (id : Nat) (l : Loc) : (mkAgent fam id l).location = some l := by
  cases h : fam.newStyle <;> simp [mkAgent, Agent.location, h]

theorem mkAgent_id (fam : Family) (id : Nat) (l : Loc) : (mkAgent fam id l).id = id := by
  unfold mkAgent; split <;> rfl

theorem init?_wf {fam w h extra sp} (hi : Space.init? fam w h extra = some sp) : sp.WF := by
  unfold Space.init? at hi
  split at hi
  · rename_i hnd
    injection hi with hi; subst hi
    exact ⟨hnd.2, by simp, by simp⟩
  · cases hi

theorem not_has_iff {sp : Space} {a : Nat} : sp.has a = false ↔ a ∉ sp.placed.map (·.id) := by
  unfold Space.has
  rw [← Bool.not_eq_true, List.any_eq_true]
  simp

theorem place_wf {sp sp' : Space} {a : Nat} {l : Loc} (hw : sp.WF) (hp : sp.place a l = some sp') : sp'.WF := by
  unfold Space.place at hp
  split at hp
  · cases hp
  · rename_i hc
    injection hp with hp; subst hp
    rw [Bool.or_eq_true, not_or] at hc
    have hhas : sp.has a = false := by simpa using hc.1
    have hval : sp.validLoc l = true := by simpa using hc.2
    refine ⟨hw.cellsNodup, ?_, ?_⟩
    · intro g hg
      simp only [List.mem_append, List.mem_singleton] at hg
      rcases hg with hg | rfl
      · exact hw.located g hg
      · refine ⟨l, mkAgent_location _ _ _, fun hcell => ?_⟩
        unfold Space.validLoc at hval
        rw [if_pos hcell] at hval
        simp only [Bool.and_eq_true, decide_eq_true_eq] at hval
        exact hval.1
    · simp only [List.map_append, List.map_cons, List.map_nil, mkAgent_id]
      rw [List.nodup_append]
      refine ⟨hw.idsNodup, by simp, ?_⟩
      intro x hx y hy
      simp only [List.mem_singleton] at hy
      subst hy
      intro e; subst e
      exact (not_has_iff.mp hhas) hx

theorem remove_wf {sp sp' : Space} {a : Nat} (hw : sp.WF) (hp : sp.remove a = some sp') : sp'.WF := by
  unfold Space.remove at hp
  split at hp
  · injection hp with hp; subst hp
    refine ⟨hw.cellsNodup, ?_, ?_⟩
    · intro g hg
      exact hw.located g (List.mem_filter.mp hg).1
    · exact (List.filter_sublist.map _).nodup hw.idsNodup
  · cases hp

theorem move_wf {sp sp' : Space} {a : Nat} {l : Loc} (hw : sp.WF) (hp : sp.move a l = some sp') : sp'.WF := by
  unfold Space.move at hp
  split at hp
  · split at hp
    · cases hp
    · rename_i sp1 h1
      exact place_wf (remove_wf hw h1) hp
  · rename_i hcell
    split at hp
    · rename_i hc
      injection hp with hp; subst hp
      refine ⟨hw.cellsNodup, ?_, ?_⟩
      · intro g hg
        rw [List.mem_map] at hg
        obtain ⟨g0, hg0, rfl⟩ := hg
        split
        · exact ⟨l, mkAgent_location _ _ _, fun h => absurd h hcell⟩
        · exact hw.located g0 hg0
      · have : (sp.placed.map fun g => if g.id == a then mkAgent sp.fam a l else g).map (·.id) = sp.placed.map (·.id) := by
          rw [List.map_map]
          apply List.map_congr_left
          intro g _
          simp only [Function.comp]
          split
          · rename_i h; rw [mkAgent_id]; exact (by simpa using h : g.id = a).symm
          · rfl
        simp only [this]
        exact hw.idsNodup
    · cases hp

inductive SpaceOp where
  | place (a : Nat) (l : Loc)
  | move (a : Nat) (l : Loc)
  | remove (a : Nat)

def Space.apply (sp : Space) : SpaceOp → Option Space
  | .place a l => sp.place a l
  | .move a l => sp.move a l
  | .remove a => sp.remove a

/-- every state of a space: freshly built, then any sequence of successful place / move / remove calls -/
inductive Reachable : Space → Prop where
  | init {fam w h extra sp} : Space.init? fam w h extra = some sp → Reachable sp
  | step {sp sp' op} : Reachable sp → sp.apply op = some sp' → Reachable sp'

theorem reachable_wf {sp : Space} (h : Reachable sp) : sp.WF := by
  induction h with
  | init hi => exact init?_wf hi
  | @step _ _ op _ ha ih =>
    cases op with
    | place a l => exact place_wf ih ha
    | move a l => exact move_wf ih ha
    | remove a => exact remove_wf ih ha

/-- `space.agents` lists exactly the agents in the space, each once. -/
theorem spaceAgents_perm {sp : Space} (hw : sp.WF) : (spaceAgents sp).Perm sp.placed := by
  unfold spaceAgents
  split
  · rename_i hc
    apply flatMap_filter_perm (fun c (a : Agent) => a.location == some c) sp.cells sp.placed hw.cellsNodup
    · intro a ha
      obtain ⟨l, hl, hm⟩ := hw.located a ha
      exact ⟨l, hm hc, by simp [hl]⟩
    · intro a k k' h1 h2
      have e1 : a.location = some k := by simpa using h1
      have e2 : a.location = some k' := by simpa using h2
      rw [e1] at e2; exact Option.some.inj e2
  · exact List.Perm.refl _



/-! ## collect_agent_data over a list of agents -/

/-- the entry `collect_agent_data` makes for agent `a` -/
def entryOf (df : Defaults) (heap : Heap) (p : Portrayal) (a : Agent) : Option Entry :=
  a.location.map fun l => collectOne df l (portrayed heap p a.id)

theorem collect_eq_filterMap (df : Defaults) (heap : Heap) (p : Portrayal) :
    ∀ (agents : List Agent), (∀ a ∈ agents, ∃ l, a.location = some l) →
      collectAgentData df heap p agents = some (agents.filterMap (entryOf df heap p))
  | [], _ => rfl
  | a :: as, h => by
    obtain ⟨l, hl⟩ := h a (by simp)
    have ih := collect_eq_filterMap df heap p as (fun b hb => h b (by simp [hb]))
    simp only [collectAgentData, hl, ih, Option.map_some, List.filterMap_cons, entryOf]

theorem collect_length (df : Defaults) (heap : Heap) (p : Portrayal) :
    ∀ (agents : List Agent) (es : List Entry), collectAgentData df heap p agents = some es → es.length = agents.length
  | [], es, h => by simp [collectAgentData] at h; simp [← h]
  | a :: as, es, h => by
    simp only [collectAgentData] at h
    split at h
    · cases h
    · cases h2 : collectAgentData df heap p as with
      | none => simp [h2] at h
      | some es' =>
        simp only [h2, Option.map_some, Option.some.injEq] at h
        subst h
        simp [collect_length df heap p as es' h2]

/-! ## _scatter -/

theorem filterMap_length_zero {α β} {f : α → Option β} {l : List α} :
    (l.filterMap f).length = 0 ↔ ∀ a ∈ l, f a = none := by
  rw [List.length_eq_zero_iff, List.filterMap_eq_nil_iff]

theorem filterMap_length_full {α β} {f : α → Option β} : ∀ {l : List α},
    (l.filterMap f).length = l.length ↔ ∀ a ∈ l, (f a).isSome
  | [] => by simp
  | a :: l => by
    have hle := List.length_filterMap_le f l
    cases h : f a with
    | none =>
      simp only [List.filterMap_cons, h, List.length_cons, List.mem_cons, forall_eq_or_imp, Option.isSome_none]
      constructor
      · intro e; omega
      · intro e; exact absurd e.1 (by simp)
    | some b =>
      simp only [List.filterMap_cons, h, List.length_cons, List.mem_cons, forall_eq_or_imp, Option.isSome_some,
        true_and, Nat.add_right_cancel_iff]
      exact filterMap_length_full

/-- the array of an optional key is empty exactly when no agent specifies the key -/
theorem optArray_isEmpty (f : Entry → Option Val) (es : List Entry) :
    (optArray f es).isEmpty = es.all (fun e => (f e).isNone) := by
  unfold optArray
  split
  · rename_i h; rw [h]; rfl
  · rename_i h
    cases es with
    | nil => simp at h
    | cons e es =>
      have : (List.all (e :: es) fun e => (f e).isNone) = false := by simpa using h
      rw [this]; rfl

theorem all_isNone_of_subset {f : Entry → Option Val} {es ms : List Entry} (h : ∀ e ∈ ms, e ∈ es)
    (ha : es.all (fun e => (f e).isNone) = true) : ms.all (fun e => (f e).isNone) = true := by
  rw [List.all_eq_true] at ha ⊢
  exact fun e he => ha e (h e he)

/-- popping the key when the array of the whole space is empty changes nothing: `_fill_unspecified` would
    not pass it for any call either -/
theorem passKey_eq_fillKey (f : Entry → Option Val) {es ms : List Entry} (h : ∀ e ∈ ms, e ∈ es) :
    passKey f es ms = fillKey f ms := by
  unfold passKey
  rw [optArray_isEmpty]
  split
  · rename_i ha
    unfold fillKey
    rw [all_isNone_of_subset h ha]
    rfl
  · rfl

theorem zipWith_map_self {α β} (g : α → β → α) (f : α → β) (h : ∀ a, g a (f a) = a) :
    ∀ (l : List α), List.zipWith g l (l.map f) = l
  | [] => rfl
  | a :: l => by simp [h a, zipWith_map_self g f h l]

/-- handing matplotlib the array `_fill_unspecified` built gives every marker of the call its own value -/
theorem withKey_fillKey (set : Entry → Option Val → Entry) (f : Entry → Option Val)
    (hset : ∀ e, set e (f e) = e) (ms : List Entry) : withKey set (fillKey f ms) ms = ms := by
  unfold fillKey
  split
  · rename_i ha
    rw [List.all_eq_true] at ha
    show ms.map (set · none) = ms
    conv => rhs; rw [← List.map_id ms]
    apply List.map_congr_left
    intro e he
    have : f e = none := by simpa using ha e he
    rw [← this, hset]; rfl
  · exact zipWith_map_self set f hset ms

def groupsOf (es : List Entry) : List Group :=
  ((distinct (es.map (·.marker))).flatMap fun m => (distinct (es.map (·.zorder))).map fun z => mkGroup es m z).filter
    fun g => !g.members.isEmpty

theorem scatter_eq (es : List Entry) : scatter es = groupsOf es := by
  unfold scatter
  cases es with
  | nil => rfl
  | cons e es => rfl

theorem mkGroup_members (es : List Entry) (m z : Val) :
    (mkGroup es m z).members = es.filter fun e => e.marker == m && e.zorder == z := rfl

/-- every marker of a scatter call is drawn with the values of the agent it stands for -/
theorem mkGroup_drawn (es : List Entry) (m z : Val) : (mkGroup es m z).drawn = (mkGroup es m z).members := by
  have hsub : ∀ e ∈ (es.filter fun e => e.marker == m && e.zorder == z), e ∈ es :=
    fun e he => (List.mem_filter.mp he).1
  unfold Group.drawn mkGroup
  simp only [passKey_eq_fillKey _ hsub]
  rw [withKey_fillKey _ (·.alpha) (fun _ => rfl), withKey_fillKey _ (·.edgecolors) (fun _ => rfl),
    withKey_fillKey _ (·.linewidths) (fun _ => rfl)]

theorem flatMap_members_filter : ∀ (gs : List Group),
    (gs.filter fun g => !g.members.isEmpty).flatMap (·.members) = gs.flatMap (·.members)
  | [] => rfl
  | g :: gs => by
    simp only [List.filter_cons]
    cases hm : g.members with
    | nil => simp [hm, flatMap_members_filter gs]
    | cons e es => simp [hm, flatMap_members_filter gs]

/-- The scatter calls partition the entries: every entry is handed to exactly one call. -/
theorem groupsOf_perm (es : List Entry) : ((groupsOf es).flatMap (·.members)).Perm es := by
  unfold groupsOf
  rw [flatMap_members_filter, List.flatMap_assoc]
  simp only [List.flatMap_map]
  have h := flatMap_filter_perm (fun (k : Val × Val) (e : Entry) => e.marker == k.1 && e.zorder == k.2)
    ((distinct (es.map (·.marker))).flatMap fun m => (distinct (es.map (·.zorder))).map fun z => (m, z)) es
    (nodup_product (nodup_distinct _) (nodup_distinct _))
    (by
      intro e he
      refine ⟨(e.marker, e.zorder), ?_, by simp⟩
      rw [List.mem_flatMap]
      refine ⟨e.marker, mem_distinct.mpr (List.mem_map_of_mem he), ?_⟩
      rw [List.mem_map]
      exact ⟨e.zorder, mem_distinct.mpr (List.mem_map_of_mem he), rfl⟩)
    (by
      intro e k k' h1 h2
      simp only [Bool.and_eq_true, beq_iff_eq] at h1 h2
      exact Prod.ext (h1.1.symm.trans h2.1) (h1.2.symm.trans h2.2))
  rw [List.flatMap_assoc] at h
  simpa only [List.flatMap_map, mkGroup_members] using h

theorem groupsOf_mem {es : List Entry} {g : Group} (hg : g ∈ groupsOf es) :
    g.members ≠ [] ∧ g = mkGroup es g.marker g.zorder := by
  unfold groupsOf at hg
  rw [List.mem_filter, List.mem_flatMap] at hg
  obtain ⟨⟨m, _, hz⟩, hne⟩ := hg
  rw [List.mem_map] at hz
  obtain ⟨z, _, rfl⟩ := hz
  exact ⟨by simpa using hne, rfl⟩

/-- no (marker, zorder) pair is scattered twice -/
theorem groupsOf_keys_nodup (es : List Entry) : ((groupsOf es).map fun g => (g.marker, g.zorder)).Nodup := by
  unfold groupsOf
  refine (List.Sublist.map _ List.filter_sublist).nodup ?_
  rw [List.map_flatMap]
  simp only [List.map_map, Function.comp_def]
  exact nodup_product (nodup_distinct _) (nodup_distinct _)



/-! ## draw_space -/

/-- the marker the property demands for agent `a`: at the drawing position of its location, with the
    values its portrayal returned or the defaults -/
def markerOf (fam : Family) (heap : Heap) (p : Portrayal) (a : Agent) : Option Entry :=
  a.location.map fun l => { collectOne drawDefaults l (portrayed heap p a.id) with loc := transform fam l }

/-- the entries `draw_space` hands to `_scatter` -/
def drawEntries (sp : Space) (heap : Heap) (p : Portrayal) : List Entry :=
  (spaceAgents sp).filterMap (markerOf sp.fam heap p)

theorem spaceAgents_located {sp : Space} (hw : sp.WF) : ∀ a ∈ spaceAgents sp, ∃ l, a.location = some l := by
  intro a ha
  obtain ⟨l, hl, _⟩ := hw.located a ((spaceAgents_perm hw).mem_iff.mp ha)
  exact ⟨l, hl⟩

theorem drawSpace_eq {sp : Space} (hw : sp.WF) (hr : drawRaises sp = none) (heap : Heap) (p : Portrayal) :
    drawSpace sp heap p = .ok (scatter (drawEntries sp heap p)) := by
  unfold drawSpace
  rw [hr]
  simp only
  unfold drawAgents
  rw [collect_eq_filterMap _ _ _ _ (spaceAgents_located hw)]
  simp only [drawEntries, List.map_filterMap]
  congr 3
  funext a
  unfold entryOf markerOf
  cases a.location <;> rfl

theorem drawEntries_perm {sp : Space} (hw : sp.WF) (heap : Heap) (p : Portrayal) :
    (drawEntries sp heap p).Perm (sp.placed.filterMap (markerOf sp.fam heap p)) :=
  (spaceAgents_perm hw).filterMap _

theorem markerOf_isSome {sp : Space} (hw : sp.WF) (heap : Heap) (p : Portrayal) :
    ∀ a ∈ sp.placed, (markerOf sp.fam heap p a).isSome := by
  intro a ha
  obtain ⟨l, hl, _⟩ := hw.located a ha
  simp [markerOf, hl]

theorem drawEntries_length {sp : Space} (hw : sp.WF) (heap : Heap) (p : Portrayal) :
    (drawEntries sp heap p).length = sp.placed.length := by
  rw [(drawEntries_perm hw heap p).length_eq]
  exact filterMap_length_full.mpr (markerOf_isSome hw heap p)

/-! ## Altair -/

def rowOf (heap : Heap) (p : Portrayal) (a : Agent) : Option Dict :=
  a.location.map fun l => altairRow (portrayed heap p a.id) l

theorem altairRowsOf_eq_filterMap (heap : Heap) (p : Portrayal) :
    ∀ (agents : List Agent), (∀ a ∈ agents, ∃ l, a.location = some l) →
      altairRowsOf heap p agents = some (agents.filterMap (rowOf heap p))
  | [], _ => rfl
  | a :: as, h => by
    obtain ⟨l, hl⟩ := h a (by simp)
    have ih := altairRowsOf_eq_filterMap heap p as (fun b hb => h b (by simp [hb]))
    simp only [altairRowsOf, hl, ih, Option.map_some, List.filterMap_cons, rowOf]



/-! ## the model-parameter check -/

/-- Python's rule for `init(instance, **{k: … for k in keys})` on a signature without `*args`, written
    out: the first parameter is positional and takes the instance; every keyword finds a taker — a
    parameter of that name that accepts keywords, or `**kw` — and is not the name of the slot the
    instance already fills; every other parameter without a default is filled, which a positional-only
    one never is. -/
def bindsByKeyword (sig : List Param) (keys : List String) : Prop :=
  ∃ inst rest, sig = inst :: rest ∧ inst.kind.isPositional = true ∧
    (∀ k ∈ keys, ¬(inst.kind = .posOrKw ∧ k = inst.name) ∧
      ((∃ p ∈ rest, p.name = k ∧ p.kind.takesKeyword = true) ∨ ∃ p ∈ rest, p.kind = .varKw)) ∧
    (∀ p ∈ rest, p.hasDefault = false → p.kind ≠ .varKw → p.kind ≠ .varPos →
      p.kind ≠ .posOnly ∧ p.name ∈ keys)

theorem checkRequired_ok_iff (keys : List String) : ∀ (ps : List Param),
    checkRequired keys ps = .ok () ↔
      ∀ p ∈ ps, p.hasDefault = false → p.kind ≠ .varKw → p.kind ≠ .posOnly ∧ p.name ∈ keys
  | [] => by simp [checkRequired]
  | p :: ps => by
    have ih := checkRequired_ok_iff keys ps
    unfold checkRequired
    simp only [List.mem_cons, forall_eq_or_imp]
    split
    · rename_i h
      rw [ih]
      constructor
      · intro h2
        refine ⟨fun hd hk => ?_, h2⟩
        rcases Bool.or_eq_true _ _ |>.mp h with h | h
        · exact absurd (by simpa using h) hk
        · rw [hd] at h; cases h
      · exact fun h2 => h2.2
    · rename_i h
      have hk : p.kind ≠ .varKw ∧ p.hasDefault = false := by
        rw [Bool.or_eq_true, not_or] at h
        exact ⟨by simpa using h.1, by simpa using h.2⟩
      split
      · rename_i hpo
        have : p.kind = .posOnly := by simpa using hpo
        constructor
        · intro e; cases e
        · intro e; exact absurd this (e.1 hk.2 hk.1).1
      · rename_i hpo
        have hnpo : p.kind ≠ .posOnly := by simpa using hpo
        split
        · rename_i hm
          have : p.name ∉ keys := by
            intro hin
            rw [List.contains_iff_mem.mpr hin] at hm
            cases hm
          constructor
          · intro e; cases e
          · intro e; exact absurd (e.1 hk.2 hk.1).2 this
        · rename_i hm
          have hin : p.name ∈ keys := by
            apply List.contains_iff_mem.mp
            simpa using hm
          rw [ih]
          exact ⟨fun h2 => ⟨fun _ _ => ⟨hnpo, hin⟩, h2⟩, fun h2 => h2.2⟩

theorem checkKeys_ok_iff (inst : Param) (kw : List String) (hv : Bool) : ∀ (keys : List String),
    checkKeys inst kw hv keys = .ok () ↔
      ∀ k ∈ keys, ¬(inst.kind = .posOrKw ∧ k = inst.name) ∧ (k ∈ kw ∨ hv = true)
  | [] => by simp [checkKeys]
  | k :: ks => by
    have ih := checkKeys_ok_iff inst kw hv ks
    unfold checkKeys
    simp only [List.mem_cons, forall_eq_or_imp]
    split
    · rename_i h
      constructor
      · intro e; cases e
      · intro e
        exfalso
        rcases Bool.or_eq_true _ _ |>.mp h with h | h
        · simp only [Bool.and_eq_true, beq_iff_eq] at h
          exact e.1.1 h
        · simp only [Bool.and_eq_true, Bool.not_eq_true'] at h
          rcases e.1.2 with h2 | h2
          · rw [List.contains_iff_mem.mpr h2] at h; cases h.1
          · rw [h2] at h; cases h.2
    · rename_i h
      rw [Bool.or_eq_true, not_or] at h
      rw [ih]
      refine ⟨fun h2 => ⟨⟨?_, ?_⟩, h2⟩, fun h2 => h2.2⟩
      · intro hc
        apply h.1
        simp only [Bool.and_eq_true, beq_iff_eq]
        exact hc
      · have h2 := h.2
        simp only [Bool.and_eq_true, Bool.not_eq_true', not_and, Bool.not_eq_false] at h2
        cases hc : kw.contains k with
        | true => exact Or.inl (List.contains_iff_mem.mp hc)
        | false => exact Or.inr (h2 hc)

theorem mem_kwNames {rest : List Param} {k : String} :
    k ∈ (rest.filter (·.kind.takesKeyword)).map (·.name) ↔ ∃ p ∈ rest, p.name = k ∧ p.kind.takesKeyword = true := by
  rw [List.mem_map]
  constructor
  · rintro ⟨p, hp, rfl⟩
    rw [List.mem_filter] at hp
    exact ⟨p, hp.1, rfl, hp.2⟩
  · rintro ⟨p, hp, rfl, ht⟩
    exact ⟨p, List.mem_filter.mpr ⟨hp, ht⟩, rfl⟩

theorem hasVarPositional_iff {sig : List Param} : hasVarPositional sig = true ↔ ∃ p ∈ sig, p.kind = .varPos := by
  unfold hasVarPositional
  rw [List.any_eq_true]
  simp

theorem checkModelParams_ok_iff (sig : List Param) (keys : List String) :
    checkModelParams sig keys = .ok () ↔ hasVarPositional sig = false ∧ bindsByKeyword sig keys := by
  unfold checkModelParams
  split
  · rename_i h
    constructor
    · intro e; cases e
    · intro e; rw [h] at e; cases e.1
  · rename_i h
    have hvp : hasVarPositional sig = false := by simpa using h
    cases sig with
    | nil =>
      constructor
      · intro e; cases e
      · rintro ⟨_, inst, rest, e, _⟩; cases e
    | cons inst rest =>
      simp only
      split
      · rename_i hpos
        constructor
        · intro e; cases e
        · rintro ⟨_, i2, r2, e, hp, _⟩
          injection e with e1 e2; subst e1
          rw [hp] at hpos; cases hpos
      · rename_i hpos
        have hp : inst.kind.isPositional = true := by simpa using hpos
        have hnovp : ∀ p ∈ rest, p.kind ≠ .varPos := by
          intro p hp e
          have : hasVarPositional (inst :: rest) = true :=
            hasVarPositional_iff.mpr ⟨p, List.mem_cons_of_mem _ hp, e⟩
          rw [hvp] at this; cases this
        have hvk : (rest.any (·.kind == .varKw)) = true ↔ ∃ p ∈ rest, p.kind = .varKw := by
          rw [List.any_eq_true]; simp
        cases hr : checkRequired keys rest with
        | error e =>
          simp only
          constructor
          · intro e; cases e
          · rintro ⟨_, i2, r2, e2, _, _, hreq⟩
            injection e2 with e1 e2; subst e1; subst e2
            have := (checkRequired_ok_iff keys rest).mpr (fun p hp hd hk => hreq p hp hd hk (hnovp p hp))
            rw [hr] at this; cases this
        | ok u =>
          cases u
          simp only
          rw [checkKeys_ok_iff]
          have hreq := (checkRequired_ok_iff keys rest).mp hr
          constructor
          · intro hk
            refine ⟨hvp, inst, rest, rfl, hp, fun k hkin => ?_, fun p hpin hd hnk _ => hreq p hpin hd hnk⟩
            obtain ⟨h1, h2⟩ := hk k hkin
            refine ⟨h1, ?_⟩
            rcases h2 with h2 | h2
            · exact Or.inl (mem_kwNames.mp h2)
            · exact Or.inr (hvk.mp h2)
          · rintro ⟨_, i2, r2, e2, _, hk, _⟩
            injection e2 with e1 e2; subst e1; subst e2
            intro k hkin
            obtain ⟨h1, h2⟩ := hk k hkin
            refine ⟨h1, ?_⟩
            rcases h2 with h2 | h2
            · exact Or.inl (mem_kwNames.mpr h2)
            · exact Or.inr (hvk.mpr h2)



theorem bindsByKeyword_congr {sig : List Param} {keys keys' : List String} (h : ∀ k, k ∈ keys ↔ k ∈ keys') :
    bindsByKeyword sig keys ↔ bindsByKeyword sig keys' := by
  unfold bindsByKeyword
  constructor
  · rintro ⟨inst, rest, e, hp, hk, hr⟩
    exact ⟨inst, rest, e, hp, fun k hkin => hk k ((h k).mpr hkin),
      fun p hpin hd h1 h2 => ⟨(hr p hpin hd h1 h2).1, (h _).mp (hr p hpin hd h1 h2).2⟩⟩
  · rintro ⟨inst, rest, e, hp, hk, hr⟩
    exact ⟨inst, rest, e, hp, fun k hkin => hk k ((h k).mp hkin),
      fun p hpin hd h1 h2 => ⟨(hr p hpin hd h1 h2).1, (h _).mpr (hr p hpin hd h1 h2).2⟩⟩

theorem split_perm (ps : List (String × PyVal)) :
    ((splitModelParams ps).1 ++ (splitModelParams ps).2).Perm ps := by
  unfold splitModelParams
  have := List.filter_append_perm (fun kv : String × PyVal => !isFixed kv.2) ps
  simpa using this

theorem checkModelParamsExtra_nil (sig : List Param) (keys : List String) :
    checkModelParamsExtra sig [] keys = checkModelParams sig keys := by
  simp [checkModelParamsExtra]

/-- with keywords the caller passes anyway: none of them is a parameter too, and the constructor binds them together
    with the parameters -/
theorem checkModelParamsExtra_ok_iff (sig : List Param) (extra keys : List String) :
    checkModelParamsExtra sig extra keys = .ok () ↔
      hasVarPositional sig = false ∧ (∀ k ∈ extra, k ∉ keys) ∧ bindsByKeyword sig (extra ++ keys) := by
  unfold checkModelParamsExtra
  cases hf : extra.find? (keys.contains ·) with
  | some k =>
    simp only
    have hk : keys.contains k = true := List.find?_some hf
    have hm : k ∈ extra := List.mem_of_find?_eq_some hf
    constructor
    · intro e; cases e
    · rintro ⟨_, h, _⟩
      exact absurd (List.contains_iff_mem.mp hk) (h k hm)
  | none =>
    simp only
    rw [checkModelParams_ok_iff]
    have hn := List.find?_eq_none.mp hf
    constructor
    · rintro ⟨a, b⟩
      exact ⟨a, fun k hk hin => hn k hk (List.contains_iff_mem.mpr hin), b⟩
    · rintro ⟨a, _, b⟩
      exact ⟨a, b⟩

theorem creatorCheck_ok_iff (sig : List Param) (ps : List (String × PyVal)) (extra : List String := []) :
    creatorCheck sig ps extra = .ok () ↔ checkModelParamsExtra sig extra (ps.map (·.1)) = .ok () := by
  unfold creatorCheck
  simp only
  rw [checkModelParamsExtra_ok_iff, checkModelParamsExtra_ok_iff]
  have hmem : ∀ k, k ∈ (splitModelParams ps).2.map (·.1) ++ (splitModelParams ps).1.map (·.1) ↔ k ∈ ps.map (·.1) := by
    intro k
    have hp := (split_perm ps).map (·.1)
    rw [← hp.mem_iff, List.map_append, List.mem_append, List.mem_append]
    exact Or.comm
  apply and_congr_right
  intro _
  apply and_congr
  · exact forall_congr' fun k => imp_congr_right fun _ => not_congr (hmem k)
  · apply bindsByKeyword_congr
    intro k
    rw [List.mem_append, List.mem_append (s := extra)]
    exact or_congr_right (hmem k)

/-! ## layers -/

theorem length_rows {β} (f : Nat → Nat → β) (w : Nat) : ∀ h,
    ((List.range h).flatMap fun r => (List.range w).map (f r)).length = h * w
  | 0 => by simp
  | h + 1 => by
    rw [List.range_succ, List.flatMap_append, List.length_append, length_rows f w h]
    simp [Nat.add_mul]

theorem getElem?_rows {β} (f : Nat → Nat → β) (w : Nat) : ∀ h r c, r < h → c < w →
    ((List.range h).flatMap fun r => (List.range w).map (f r))[r * w + c]? = some (f r c)
  | 0, _, _, hr, _ => by omega
  | h + 1, r, c, hr, hc => by
    rw [List.range_succ, List.flatMap_append]
    by_cases hlt : r < h
    · have hb : r * w + c < h * w := by
        have : (r + 1) * w ≤ h * w := Nat.mul_le_mul_right w hlt
        rw [Nat.add_mul] at this; omega
      rw [List.getElem?_append_left (by rw [length_rows]; exact hb)]
      exact getElem?_rows f w h r c hlt hc
    · have hrh : r = h := by omega
      subst hrh
      rw [List.getElem?_append_right (by rw [length_rows]; omega), length_rows]
      have : r * w + c - r * w = c := by omega
      rw [this]
      simp [List.getElem?_range hc]

theorem Layer.at_isSome {L : Layer} (hw : L.wellFormed = true) {x y : Nat} (hx : x < L.w) (hy : y < L.h) :
    ∃ v, L.at x y = some v := by
  unfold Layer.at
  rw [if_pos ⟨hx, hy⟩]
  have hlen : L.vals.length = L.w * L.h := by simpa [Layer.wellFormed] using hw
  have : x * L.h + y < L.vals.length := by
    rw [hlen]
    have : (x + 1) * L.h ≤ L.w * L.h := Nat.mul_le_mul_right _ hx
    rw [Nat.add_mul] at this; omega
  exact ⟨L.vals[x * L.h + y], List.getElem?_eq_getElem this⟩

theorem imshowRows_getElem (L : Layer) {r c : Nat} (hr : r < L.h) (hc : c < L.w) :
    ∃ row, (imshowRows L)[r]? = some row ∧ row[c]? = some (L.at c r) := by
  unfold imshowRows
  refine ⟨(List.range L.w).map fun c => L.at c r, ?_, ?_⟩
  · rw [List.getElem?_map, List.getElem?_range hr]; rfl
  · rw [List.getElem?_map, List.getElem?_range hc]; rfl

theorem hexColors_getElem (L : Layer) {r c : Nat} (hr : r < L.h) (hc : c < L.w) :
    (hexColors L)[r * L.w + c]? = some (L.at c r) :=
  getElem?_rows (fun r c => L.at c r) L.w L.h r c hr hc

theorem hexMesh_getElem (w h : Nat) {r c : Nat} (hr : r < h) (hc : c < w) :
    (hexMesh w h)[r * w + c]? = some (hexCenter c r) :=
  getElem?_rows (fun r c => hexCenter c r) w h r c hr hc

theorem hexMesh_length (w h : Nat) : (hexMesh w h).length = h * w := by
  unfold hexMesh
  induction h with
  | zero => simp
  | succ n ih =>
    rw [List.range_succ, List.flatMap_append, List.length_append, ih]
    simp [Nat.succ_mul]

theorem transform_hex_eq_hexCenter (fam : Family) (hf : fam.isHex = true) (col row : Nat) :
    transform fam ⟨col, row⟩ = hexCenter col row := by
  unfold transform hexCenter
  rw [if_pos hf]
  congr 1
  by_cases h : row % 2 = 0
  · have : ((row : Int) - 1) % 2 = 1 := by omega
    simp [h, this]
  · have : ((row : Int) - 1) % 2 = 0 := by omega
    simp [h, this]

theorem transform_injective (fam : Family) {a b : Loc} (h : transform fam a = transform fam b) : a = b := by
  unfold transform at h
  split at h
  · injection h with hx hy
    have hy' : a.y = b.y := by omega
    have hx' : a.x = b.x := by rw [hy'] at hx; omega
    cases a; cases b; simp_all
  · exact h


/-! ## the code before fix V3 (for the refutation witness and its boundary only) -/

/-- the loop of `collect_agent_data` before fix V3: the pops reach the dict object in the heap, which keeps
    only the keys the drawing code does not consume -/
def collectInPlace (df : Defaults) (p : Portrayal) : Heap → List Agent → Option (List Entry × Heap)
  | heap, [] => some ([], heap)
  | heap, a :: as =>
    match a.location with
    | none => none
    | some l =>
      let d := portrayed heap p a.id
      let heap' := match p a.id with
        | some r => heap.set r (d.filter fun kv => !supportedKeys.contains kv.1)
        | none => heap
      (collectInPlace df p heap' as).map fun r => (collectOne df l d :: r.1, r.2)

theorem collect_congr_heap (df : Defaults) (p : Portrayal) {heap heap' : Heap} : ∀ (as : List Agent),
    (∀ b ∈ as, portrayed heap' p b.id = portrayed heap p b.id) →
    collectAgentData df heap' p as = collectAgentData df heap p as
  | [], _ => rfl
  | a :: as, h => by
    simp only [collectAgentData]
    rw [h a (by simp), collect_congr_heap df p as (fun b hb => h b (by simp [hb]))]

/-- the references the portrayal hands out for these agents -/
def refsOf (p : Portrayal) (as : List Agent) : List Ref := as.filterMap fun a => p a.id

theorem collectInPlace_fst (df : Defaults) (p : Portrayal) : ∀ (as : List Agent) (heap : Heap),
    (refsOf p as).Nodup →
    (collectInPlace df p heap as).map (·.1) = collectAgentData df heap p as
  | [], _, _ => rfl
  | a :: as, heap, hnd => by
    simp only [collectInPlace, collectAgentData]
    cases hl : a.location with
    | none => rfl
    | some l =>
      simp only
      have hnd' : (refsOf p as).Nodup ∧ ∀ r, p a.id = some r → r ∉ refsOf p as := by
        unfold refsOf at hnd ⊢
        rw [List.filterMap_cons] at hnd
        cases hp : p a.id with
        | none => rw [hp] at hnd; exact ⟨hnd, fun r e => by cases e⟩
        | some r =>
          rw [hp] at hnd
          have := List.nodup_cons.mp hnd
          exact ⟨this.2, fun r' e => by cases e; exact this.1⟩
      have ih := collectInPlace_fst df p as
        (match p a.id with
          | some r => heap.set r ((portrayed heap p a.id).filter fun kv => !supportedKeys.contains kv.1)
          | none => heap) hnd'.1
      rw [Option.map_map]
      have hcongr : collectAgentData df
          (match p a.id with
            | some r => heap.set r ((portrayed heap p a.id).filter fun kv => !supportedKeys.contains kv.1)
            | none => heap) p as = collectAgentData df heap p as := by
        apply collect_congr_heap
        intro b hb
        cases hp : p a.id with
        | none => rfl
        | some r =>
          simp only
          unfold portrayed
          cases hpb : p b.id with
          | none => rfl
          | some rb =>
            simp only
            have hne : r ≠ rb := by
              intro e
              subst e
              apply hnd'.2 r hp
              unfold refsOf
              rw [List.mem_filterMap]
              exact ⟨b, hb, hpb⟩
            simp [List.getD_eq_getElem?_getD, List.getElem?_set_ne hne]
      rw [← hcongr, ← ih, Option.map_map]
      rfl


end Mesa.Viz
