import MesaModel.Model.Heap
/-! `heapq` is a correct priority queue for every strict weak order: `heappush` / `heappop` keep the heap
invariant and the multiset of elements, and `heappop` hands out a minimum. -/
namespace Mesa.Heap

variable {α : Type}

/-- strict weak order, as `SimulationEvent.__lt__` is -/
structure SWO (lt : α → α → Bool) : Prop where
  asymm : ∀ a b, lt a b = true → lt b a = false
  negtrans : ∀ a b c, lt a b = false → lt b c = false → lt a c = false

theorem SWO.mixed {lt : α → α → Bool} (w : SWO lt) {c p item : α} (h1 : lt c p = false) (h2 : lt item p = true) :
    lt c item = false := by
  cases h : lt c item
  · rfl
  · have h3 : lt p item = false := w.asymm _ _ h2
    have := w.negtrans c p item h1 h3
    rw [h] at this; cases this

/-- every element is not smaller than its parent -/
def IsHeap (lt : α → α → Bool) (l : List α) : Prop :=
  ∀ i x p, 0 < i → l[i]? = some x → l[(i - 1) / 2]? = some p → lt x p = false

/-- the heap with a hole at `pos` that is about to receive `item` (moving towards the root) -/
structure InvSD (lt : α → α → Bool) (l : List α) (pos : Nat) (item : α) : Prop where
  /-- relations that do not involve the hole -/
  other : ∀ i x p, 0 < i → i ≠ pos → (i - 1) / 2 ≠ pos → l[i]? = some x → l[(i - 1) / 2]? = some p → lt x p = false
  /-- children of the hole are not smaller than the hole's parent -/
  grand : ∀ c x g, 0 < pos → 0 < c → (c - 1) / 2 = pos → l[c]? = some x → l[(pos - 1) / 2]? = some g → lt x g = false
  /-- children of the hole are not smaller than the item -/
  child : ∀ c x, 0 < c → (c - 1) / 2 = pos → l[c]? = some x → lt x item = false

theorem siftDown_heap {lt : α → α → Bool} (w : SWO lt) (item : α) :
    ∀ (pos : Nat) (l : List α), pos < l.length → InvSD lt l pos item → IsHeap lt (siftDown lt l pos item) := by
  intro pos
  induction pos using Nat.strongRecOn with
  | ind pos ih =>
    intro l hlen inv
    -- placing the item at `pos` gives a heap as soon as the item is not smaller than the parent of `pos`
    have place : (∀ p, 0 < pos → l[(pos - 1) / 2]? = some p → lt item p = false) → IsHeap lt (l.set pos item) := by
      intro hp i x p hi hx hpar
      rw [List.getElem?_set] at hx hpar
      by_cases h1 : pos = i
      · subst h1
        have hne : ¬ pos = (pos - 1) / 2 := by omega
        simp only [hne, if_false] at hpar
        simp only [if_true, hlen] at hx
        cases hx
        exact hp p hi hpar
      · simp only [h1, if_false] at hx
        by_cases h2 : pos = (i - 1) / 2
        · simp only [h2, if_true] at hpar
          split at hpar
          · cases hpar; exact inv.child i x hi h2.symm hx
          · cases hpar
        · simp only [h2, if_false] at hpar
          exact inv.other i x p hi (Ne.symm h1) (Ne.symm h2) hx hpar
    rw [siftDown]
    split
    · rename_i hpos
      split
      · rename_i parent hparent
        split
        · rename_i hlt
          -- the parent moves down into the hole, the hole moves to the parent's place
          have hpp : (pos - 1) / 2 < pos := by omega
          apply ih _ hpp _ (by simp only [List.length_set]; omega)
          refine ⟨?_, ?_, ?_⟩
          · intro i x p hi hne1 hne2 hx hp
            rw [List.getElem?_set] at hx hp
            by_cases h1 : pos = i
            · exact absurd (by rw [← h1]) hne2
            · simp only [h1, if_false] at hx
              by_cases h2 : pos = (i - 1) / 2
              · simp only [h2, if_true] at hp
                split at hp
                · cases hp
                  exact inv.grand i x _ hpos hi h2.symm hx hparent
                · cases hp
              · simp only [h2, if_false] at hp
                exact inv.other i x p hi (Ne.symm h1) (Ne.symm h2) hx hp
          · intro c x g hpp0 hc hcp hx hg
            rw [List.getElem?_set] at hx hg
            have hne : ¬ pos = ((pos - 1) / 2 - 1) / 2 := by omega
            simp only [hne, if_false] at hg
            -- the old parent is not smaller than its own parent
            have hpg : lt parent g = false :=
              inv.other ((pos - 1) / 2) parent g hpp0 (by omega) (by omega) hparent hg
            by_cases h1 : pos = c
            · simp only [h1, if_true] at hx
              split at hx
              · cases hx; exact hpg
              · cases hx
            · simp only [h1, if_false] at hx
              have hxp : lt x parent = false :=
                inv.other c x parent hc (Ne.symm h1) (by omega) hx (by rw [hcp]; exact hparent)
              exact w.negtrans _ _ _ hxp hpg
          · intro c x hc hcp hx
            rw [List.getElem?_set] at hx
            by_cases h1 : pos = c
            · simp only [h1, if_true] at hx
              split at hx
              · cases hx; exact w.asymm _ _ hlt
              · cases hx
            · simp only [h1, if_false] at hx
              have hxp : lt x parent = false :=
                inv.other c x parent hc (Ne.symm h1) (by omega) hx (by rw [hcp]; exact hparent)
              exact w.mixed hxp hlt
        · rename_i hnlt
          apply place
          intro p _ hp
          rw [hparent] at hp; cases hp
          simpa using hnlt
      · rename_i hnone
        apply place
        intro p _ hp
        rw [hnone] at hp; cases hp
    · rename_i hpos
      apply place
      intro p h0 _
      exact absurd h0 hpos

/-! ### heappush -/

theorem heappush_heap {lt : α → α → Bool} (w : SWO lt) {l : List α} (h : IsHeap lt l) (x : α) :
    IsHeap lt (heappush lt l x) := by
  unfold heappush
  apply siftDown_heap w x l.length (l ++ [x]) (by simp)
  refine ⟨?_, ?_, ?_⟩
  · intro i y p hi hne1 hne2 hy hp
    have hil : i < l.length := by
      have := (List.getElem?_eq_some_iff.mp hy).1
      simp only [List.length_append, List.length_cons, List.length_nil] at this
      omega
    rw [List.getElem?_append_left hil] at hy
    rw [List.getElem?_append_left (by omega)] at hp
    exact h i y p hi hy hp
  · intro c y g _ hc hcp hy _
    have := (List.getElem?_eq_some_iff.mp hy).1
    simp only [List.length_append, List.length_cons, List.length_nil] at this
    omega
  · intro c y hc hcp hy
    have := (List.getElem?_eq_some_iff.mp hy).1
    simp only [List.length_append, List.length_cons, List.length_nil] at this
    omega

/-! ### heappop: the bubbling phase -/

/-- the heap with a hole at `pos` whose content no longer matters (moving towards the leaves) -/
structure InvB (lt : α → α → Bool) (l : List α) (pos : Nat) : Prop where
  other : ∀ i x p, 0 < i → i ≠ pos → (i - 1) / 2 ≠ pos → l[i]? = some x → l[(i - 1) / 2]? = some p → lt x p = false
  grand : ∀ c x g, 0 < pos → 0 < c → (c - 1) / 2 = pos → l[c]? = some x → l[(pos - 1) / 2]? = some g → lt x g = false

theorem smallerChild_range (lt : α → α → Bool) (l : List α) (pos : Nat) (h : 2 * pos + 1 < l.length) :
    (smallerChild lt l pos = 2 * pos + 1 ∨ smallerChild lt l pos = 2 * pos + 2) ∧ smallerChild lt l pos < l.length := by
  unfold smallerChild
  cases ha : l[2 * pos + 1]? with
  | none => exact ⟨Or.inl rfl, h⟩
  | some a =>
    cases hb : l[2 * pos + 2]? with
    | none => exact ⟨Or.inl rfl, h⟩
    | some b =>
      have := (List.getElem?_eq_some_iff.mp hb).1
      cases hlt : lt a b
      · exact ⟨Or.inr (by simp [hlt]), by simp [hlt]; omega⟩
      · exact ⟨Or.inl (by simp [hlt]), by simp [hlt]; omega⟩

theorem smallerChild_cases (lt : α → α → Bool) (l : List α) (pos : Nat) :
    (∃ a b, l[2 * pos + 1]? = some a ∧ l[2 * pos + 2]? = some b ∧ lt a b = true ∧ smallerChild lt l pos = 2 * pos + 1) ∨
    (∃ a b, l[2 * pos + 1]? = some a ∧ l[2 * pos + 2]? = some b ∧ lt a b = false ∧ smallerChild lt l pos = 2 * pos + 2) ∨
    ((l[2 * pos + 1]? = none ∨ l[2 * pos + 2]? = none) ∧ smallerChild lt l pos = 2 * pos + 1) := by
  unfold smallerChild
  cases ha : l[2 * pos + 1]? with
  | none => exact Or.inr (Or.inr ⟨Or.inl rfl, rfl⟩)
  | some a =>
    cases hb : l[2 * pos + 2]? with
    | none => exact Or.inr (Or.inr ⟨Or.inr rfl, rfl⟩)
    | some b =>
      cases hlt : lt a b
      · exact Or.inr (Or.inl ⟨a, b, rfl, rfl, hlt, by simp [hlt]⟩)
      · exact Or.inl ⟨a, b, rfl, rfl, hlt, by simp [hlt]⟩

/-- the sibling of the chosen child is not smaller than the chosen child -/
theorem smallerChild_le {lt : α → α → Bool} (w : SWO lt) (l : List α) (pos c : Nat) (x v : α)
    (hc : 0 < c) (hcp : (c - 1) / 2 = pos) (hne : c ≠ smallerChild lt l pos)
    (hx : l[c]? = some x) (hv : l[smallerChild lt l pos]? = some v) : lt x v = false := by
  have hcc : c = 2 * pos + 1 ∨ c = 2 * pos + 2 := by omega
  rcases smallerChild_cases lt l pos with ⟨a, b, ha, hb, hlt, hs⟩ | ⟨a, b, ha, hb, hlt, hs⟩ | ⟨hnone, hs⟩
  · rw [hs] at hne hv
    have : c = 2 * pos + 2 := by omega
    subst this
    rw [ha] at hv; cases hv
    rw [hb] at hx; cases hx
    exact w.asymm _ _ hlt
  · rw [hs] at hne hv
    have : c = 2 * pos + 1 := by omega
    subst this
    rw [hb] at hv; cases hv
    rw [ha] at hx; cases hx
    exact hlt
  · rw [hs] at hne hv
    have : c = 2 * pos + 2 := by omega
    subst this
    rcases hnone with h | h
    · rw [h] at hv; cases hv
    · rw [h] at hx; cases hx

theorem bubble_inv {lt : α → α → Bool} (w : SWO lt) :
    ∀ (n : Nat) (l : List α) (pos : Nat), l.length - pos = n → pos < l.length → InvB lt l pos →
      InvB lt (bubble lt l pos).1 (bubble lt l pos).2 ∧ (bubble lt l pos).2 < (bubble lt l pos).1.length ∧
      (bubble lt l pos).1.length = l.length ∧ ¬ (2 * (bubble lt l pos).2 + 1 < (bubble lt l pos).1.length) := by
  intro n
  induction n using Nat.strongRecOn with
  | ind n ih =>
    intro l pos hn hlen inv
    rw [bubble]
    split
    · rename_i hchild
      obtain ⟨hcases, hclen⟩ := smallerChild_range lt l pos hchild
      split
      · rename_i v hv
        have hcpar : (smallerChild lt l pos - 1) / 2 = pos := by omega
        have hcpos : 0 < smallerChild lt l pos := by omega
        have hcne : smallerChild lt l pos ≠ pos := by omega
        have := ih (l.length - smallerChild lt l pos) (by omega) (l.set pos v) (smallerChild lt l pos)
          (by simp) (by simpa using hclen) ?_
        · simpa using this
        · refine ⟨?_, ?_⟩
          · intro i x p hi hne1 hne2 hx hp
            rw [List.getElem?_set] at hx hp
            by_cases h1 : pos = i
            · -- the hole's old place now holds the chosen child: not smaller than the hole's parent
              subst h1
              have hne : ¬ pos = (pos - 1) / 2 := by omega
              simp only [hne, if_false] at hp
              simp only [if_true, hlen] at hx
              cases hx
              exact inv.grand _ v p hi hcpos hcpar hv hp
            · simp only [h1, if_false] at hx
              by_cases h2 : pos = (i - 1) / 2
              · -- the sibling of the chosen child, below the chosen child's value
                simp only [h2, if_true] at hp
                split at hp
                · cases hp
                  exact smallerChild_le w l pos i x v hi h2.symm hne1 hx hv
                · cases hp
              · simp only [h2, if_false] at hp
                exact inv.other i x p hi (Ne.symm h1) (Ne.symm h2) hx hp
          · intro c x g _ hc hcp hx hg
            rw [List.getElem?_set] at hx hg
            have h1 : ¬ pos = c := by omega
            simp only [h1, if_false] at hx
            rw [hcpar] at hg
            simp only [if_true, hlen] at hg
            cases hg
            exact inv.other c x v hc (Ne.symm h1) (by omega) hx (by rw [hcp]; exact hv)
      · rename_i hnone
        have := List.getElem?_eq_none_iff.mp hnone
        omega
    · rename_i hleaf
      exact ⟨inv, hlen, rfl, hleaf⟩

/-! ### the multiset of elements is preserved -/

section Count
variable [DecidableEq α]

/-- counting in `l` with position `i` overwritten -/
theorem count_set' {l : List α} {i : Nat} (h : i < l.length) (a y : α) :
    (l.set i a).count y + (if l[i] = y then 1 else 0) = l.count y + (if a = y then 1 else 0) := by
  rw [List.count_set h]
  have hpos : l[i] = y → 0 < l.count y := fun e => List.count_pos_iff.mpr (e ▸ List.getElem_mem h)
  by_cases h1 : l[i] = y
  · have := hpos h1
    by_cases h2 : a = y <;> simp [h1, h2] <;> omega
  · by_cases h2 : a = y <;> simp [h1, h2]

theorem siftDown_count (lt : α → α → Bool) (item : α) :
    ∀ (pos : Nat) (l : List α), pos < l.length → ∀ y, (siftDown lt l pos item).count y = (l.set pos item).count y := by
  intro pos
  induction pos using Nat.strongRecOn with
  | ind pos ih =>
    intro l hlen y
    rw [siftDown]
    split
    · rename_i hpos
      split
      · rename_i parent hparent
        split
        · have hpp : (pos - 1) / 2 < pos := by omega
          rw [ih _ hpp (l.set pos parent) (by simp only [List.length_set]; omega) y]
          obtain ⟨hppl, hpv⟩ := List.getElem?_eq_some_iff.mp hparent
          have e1 := count_set' (l := l.set pos parent) (i := (pos - 1) / 2) (by simp only [List.length_set]; omega) item y
          have e2 := count_set' (l := l) (i := pos) hlen parent y
          have e3 := count_set' (l := l) (i := pos) hlen item y
          have hget : (l.set pos parent)[(pos - 1) / 2]'(by simp only [List.length_set]; omega) = parent := by
            rw [List.getElem_set_ne (by omega)]; exact hpv
          rw [hget] at e1
          omega
        · rfl
      · rfl
    · rfl

/-- after bubbling, filling the final hole with `item` gives the same multiset as filling the original hole -/
theorem bubble_count (lt : α → α → Bool) (item : α) :
    ∀ (n : Nat) (l : List α) (pos : Nat), l.length - pos = n → pos < l.length → ∀ y,
      ((bubble lt l pos).1.set (bubble lt l pos).2 item).count y = (l.set pos item).count y := by
  intro n
  induction n using Nat.strongRecOn with
  | ind n ih =>
    intro l pos hn hlen y
    rw [bubble]
    split
    · rename_i hchild
      obtain ⟨hcases, hclen⟩ := smallerChild_range lt l pos hchild
      split
      · rename_i v hv
        have hcne : smallerChild lt l pos ≠ pos := by omega
        rw [ih (l.length - smallerChild lt l pos) (by omega) (l.set pos v) (smallerChild lt l pos) (by simp)
          (by simpa using hclen) y]
        obtain ⟨_, hvv⟩ := List.getElem?_eq_some_iff.mp hv
        have e1 := count_set' (l := l.set pos v) (i := smallerChild lt l pos) (by simpa using hclen) item y
        have e2 := count_set' (l := l) (i := pos) hlen v y
        have e3 := count_set' (l := l) (i := pos) hlen item y
        have hget : (l.set pos v)[smallerChild lt l pos]'(by simpa using hclen) = v := by
          rw [List.getElem_set_ne (Ne.symm hcne)]; exact hvv
        rw [hget] at e1
        omega
      · rfl
    · rfl

end Count

/-! ### the root is a minimum; specification of push and pop -/

theorem root_min {lt : α → α → Bool} (w : SWO lt) {l : List α} (h : IsHeap lt l) :
    ∀ (i : Nat) (x r : α), l[i]? = some x → l[0]? = some r → lt x r = false := by
  intro i
  induction i using Nat.strongRecOn with
  | ind i ih =>
    intro x r hx hr
    by_cases hi : i = 0
    · subst hi
      rw [hx] at hr; cases hr
      cases hxx : lt x x
      · rfl
      · have := w.asymm x x hxx; rw [hxx] at this; cases this
    · have hlen := (List.getElem?_eq_some_iff.mp hx).1
      have hp : (i - 1) / 2 < l.length := by omega
      have h1 := h i x l[(i - 1) / 2] (by omega) hx (List.getElem?_eq_getElem hp)
      have h2 := ih ((i - 1) / 2) (by omega) l[(i - 1) / 2] r (List.getElem?_eq_getElem hp) hr
      exact w.negtrans _ _ _ h1 h2

section Spec
variable [DecidableEq α]

theorem heappush_perm (lt : α → α → Bool) (l : List α) (x : α) : (heappush lt l x).Perm (x :: l) := by
  rw [List.perm_iff_count]
  intro y
  unfold heappush
  rw [siftDown_count lt x l.length (l ++ [x]) (by simp) y]
  have : (l ++ [x]).set l.length x = l ++ [x] := by
    rw [List.set_append_right _ _ (Nat.le_refl _)]; simp
  rw [this, List.count_append, List.count_cons, List.count_cons, List.count_nil]
  omega

/-- `heappop` on a heap: hands out a minimum, keeps the rest (as a multiset) and the heap invariant -/
theorem heappop_spec {lt : α → α → Bool} (w : SWO lt) {l l' : List α} {m : α} (h : IsHeap lt l)
    (hp : heappop lt l = some (m, l')) :
    l.Perm (m :: l') ∧ IsHeap lt l' ∧ (∀ y ∈ l', lt y m = false) ∧ l[0]? = some m := by
  unfold heappop at hp
  split at hp
  · cases hp
  · rename_i last hlast
    have hl : l = l.dropLast ++ [last] := by
      have hne : l ≠ [] := by intro e; rw [e] at hlast; cases hlast
      have h1 := List.dropLast_concat_getLast hne
      have h2 : l.getLast hne = last := by
        rw [List.getLast?_eq_getLast hne] at hlast; cases hlast; rfl
      rw [h2] at h1; exact h1.symm
    split at hp
    · rename_i hd
      simp only [Option.some.injEq, Prod.mk.injEq] at hp
      obtain ⟨rfl, rfl⟩ := hp
      rw [hd] at hl
      subst hl
      exact ⟨List.Perm.refl _, fun i x p _ hx _ => by simp at hx, by simp, by simp⟩
    · rename_i ret rest hd
      rw [hd] at hl
      have hinvB : InvB lt (last :: rest) 0 := by
        refine ⟨?_, fun c x g h0 => absurd h0 (by omega)⟩
        intro i x p hi _ hne hx hpar
        have hil : i < (ret :: rest).length := by
          have := (List.getElem?_eq_some_iff.mp hx).1; simpa using this
        have e1 : l[i]? = some x := by
          rw [hl, List.getElem?_append_left hil]
          cases i with
          | zero => omega
          | succ k => simpa using hx
        have e2 : l[(i - 1) / 2]? = some p := by
          rw [hl, List.getElem?_append_left (by omega)]
          cases hk : (i - 1) / 2 with
          | zero => omega
          | succ k => rw [hk] at hpar; simpa using hpar
        exact h i x p hi e1 e2
      obtain ⟨hb1, hb2, hb3, hb4⟩ := bubble_inv w _ (last :: rest) 0 rfl (by simp) hinvB
      have hres : (ret, siftDown lt (bubble lt (last :: rest) 0).1 (bubble lt (last :: rest) 0).2 last) = (m, l') := by
        simpa using hp
      simp only [Prod.mk.injEq] at hres
      obtain ⟨rfl, rfl⟩ := hres
      have hheap : IsHeap lt (siftDown lt (bubble lt (last :: rest) 0).1 (bubble lt (last :: rest) 0).2 last) := by
        apply siftDown_heap w last _ _ hb2
        refine ⟨hb1.other, hb1.grand, ?_⟩
        intro c x hc hcp hx
        have := (List.getElem?_eq_some_iff.mp hx).1
        omega
      have hperm : l.Perm (ret :: siftDown lt (bubble lt (last :: rest) 0).1 (bubble lt (last :: rest) 0).2 last) := by
        rw [List.perm_iff_count]
        intro y
        rw [List.count_cons, siftDown_count lt last _ _ hb2 y,
          bubble_count lt last _ (last :: rest) 0 rfl (by simp) y]
        conv => lhs; rw [hl]
        simp only [List.set_cons_zero, List.count_append, List.count_cons, List.count_nil]
        omega
      have h0 : l[0]? = some ret := by rw [hl]; simp
      refine ⟨hperm, hheap, ?_, h0⟩
      intro y hy
      have hyl : y ∈ l := hperm.symm.subset (List.mem_cons_of_mem _ hy)
      obtain ⟨i, hi, rfl⟩ := List.getElem_of_mem hyl
      exact root_min w h i _ ret (List.getElem?_eq_getElem hi) h0

end Spec

end Mesa.Heap
