import MesaModel.Proofs.Legacy
/-! Rejected calls can be deleted from a history (C18, legacy grids). -/
namespace Mesa.Legacy

open Grid

/-- the grid without its private `_empties` set -/
def forget (g : Grid) : Grid := { g with empties := none }

theorem obsEq_iff_forget (g g' : Grid) : ObsEq g g' ↔ forget g' = forget g := by
  unfold ObsEq forget
  cases g; cases g'
  simp only [Grid.mk.injEq]
  constructor
  · rintro ⟨h1, h2, h3, h4, h5, h6, h7, h8⟩; exact ⟨h1, h2, h3, h4, h5, h6, h7, trivial, h8⟩
  · rintro ⟨h1, h2, h3, h4, h5, h6, h7, _, h8⟩; exact ⟨h1, h2, h3, h4, h5, h6, h7, h8⟩

theorem forget_forget (g : Grid) : forget (forget g) = forget g := rfl

theorem inv_forget (g : Grid) (hi : Inv g) : Inv (forget g) :=
  ⟨hi.pos_content, hi.in_grid, hi.nodup, hi.single, hi.mask, by intro e h; cases h⟩

/-- a call whose result and observable effect do not depend on `_empties` -/
def Cong (f : Grid → Grid × Res) : Prop :=
  ∀ g g', forget g' = forget g → (f g').2 = (f g).2 ∧ forget (f g').1 = forget (f g).1

theorem cong_of_forget (f : Grid → Grid × Res)
    (h : ∀ g, (f (forget g)).2 = (f g).2 ∧ forget (f (forget g)).1 = forget (f g).1) : Cong f := by
  intro g g' hgg
  have h1 := h g
  have h2 := h g'
  rw [hgg] at h2
  exact ⟨h2.1.symm.trans h1.1, h2.2.symm.trans h1.2⟩

theorem place_cong (a : Aid) (p : Coord) : Cong (fun g => g.place a p) := by
  apply cong_of_forget
  intro g
  unfold Grid.place forget Grid.isCellEmpty
  simp only []
  split
  · split <;> simp
  · split <;> simp

theorem remove_cong (a : Aid) : Cong (fun g => g.remove a) := by
  apply cong_of_forget
  intro g
  unfold Grid.remove forget
  simp only []
  split
  · split <;> simp
  · split
    · split
      · split <;> simp
      · simp
    · simp

/-- sequencing as the movers do it: go on only if the first call did not raise -/
def andThen (f : Grid → Grid × Res) (k : Grid → Grid × Res) (g : Grid) : Grid × Res :=
  match f g with
  | (g1, .err e) => (g1, .err e)
  | (g1, .ok) => k g1

theorem andThen_cong (f k : Grid → Grid × Res) (hf : Cong f) (hk : Cong k) : Cong (andThen f k) := by
  intro g g' hgg
  obtain ⟨h1, h2⟩ := hf g g' hgg
  unfold andThen
  rcases hr : f g with ⟨g1, r⟩
  rcases hr' : f g' with ⟨g1', r'⟩
  rw [hr, hr'] at h1 h2
  simp only [] at h1 h2
  subst h1
  cases r' with
  | err e => exact ⟨rfl, h2⟩
  | ok => exact hk g1 g1' h2

theorem const_cong (r : Res) : Cong (fun g => (g, r)) := fun _ _ h => ⟨rfl, h⟩

theorem forget_fields {g g' : Grid} (h : forget g' = forget g) :
    g'.w = g.w ∧ g'.h = g.h ∧ g'.torus = g.torus ∧ g'.multi = g.multi ∧ g'.cutoff = g.cutoff ∧
    g'.content = g.content ∧ g'.pos = g.pos ∧ g'.mask = g.mask := by
  have := (obsEq_iff_forget g g').mpr h
  exact this

theorem torusAdj_forget {g g' : Grid} (h : forget g' = forget g) (p : Coord) : g'.torusAdj p = g.torusAdj p := by
  obtain ⟨h1, h2, h3, _⟩ := forget_fields h
  unfold Grid.torusAdj Grid.oob
  rw [h1, h2, h3]

theorem moveBase_cong (a : Aid) (p : Coord) : Cong (fun g => g.moveBase a p) := by
  intro g g' hgg
  have ht := torusAdj_forget hgg p
  show ((g'.moveBase a p).2 = (g.moveBase a p).2 ∧ forget (g'.moveBase a p).1 = forget (g.moveBase a p).1)
  rw [moveBase_eq, moveBase_eq, ht]
  cases g.torusAdj p with
  | error e => exact ⟨rfl, hgg⟩
  | ok q => exact andThen_cong _ _ (remove_cong a) (place_cong a q) g g' hgg

theorem move_cong (a : Aid) (p : Coord) : Cong (fun g => g.move a p) := by
  intro g g' hgg
  have ht := torusAdj_forget hgg p
  obtain ⟨_, _, _, hm, _, hc, _, _⟩ := forget_fields hgg
  show ((g'.move a p).2 = (g.move a p).2 ∧ forget (g'.move a p).1 = forget (g.move a p).1)
  unfold Grid.move
  rw [hm, ht]
  split
  · exact moveBase_cong a p g g' hgg
  · cases g.torusAdj p with
    | error e => exact ⟨rfl, hgg⟩
    | ok q =>
      have e1 : g'.isCellEmpty q = g.isCellEmpty q := by unfold Grid.isCellEmpty; rw [hc]
      simp only [e1, hc]
      by_cases hb : (!g.isCellEmpty q && g.content q != [a]) = true
      · simp only [hb, ↓reduceIte]; exact ⟨trivial, hgg⟩
      · simp only [hb]; exact moveBase_cong a q g g' hgg

theorem swap_cong (a b : Aid) : Cong (fun g => g.swap a b) := by
  intro g g' hgg
  obtain ⟨_, _, _, _, _, _, hp, _⟩ := forget_fields hgg
  show ((g'.swap a b).2 = (g.swap a b).2 ∧ forget (g'.swap a b).1 = forget (g.swap a b).1)
  unfold Grid.swap
  rw [hp]
  cases g.pos a with
  | none => exact ⟨rfl, hgg⟩
  | some pa =>
    cases g.pos b with
    | none => exact ⟨rfl, hgg⟩
    | some pb =>
      simp only []
      split
      · exact ⟨rfl, hgg⟩
      · exact andThen_cong _ _ (remove_cong a) (andThen_cong _ _ (remove_cong b)
          (andThen_cong _ _ (place_cong a pb) (place_cong b pa))) g g' hgg

theorem chooseOneOf_forget {g g' : Grid} (h : forget g' = forget g) (a : Aid) (ps : List Coord) (sel : Selection) (s : Script) :
    g'.chooseOneOf a ps sel s = g.chooseOneOf a ps sel s := by
  obtain ⟨h1, h2, h3, _, _, _, hp, _⟩ := forget_fields h
  have hd : g'.distSq = g.distSq := by funext p q; unfold Grid.distSq; rw [h1, h2, h3]
  have hs : ∀ cur ps m acc, g'.closestScan cur ps m acc = g.closestScan cur ps m acc := by
    intro cur ps
    induction ps with
    | nil => intro m acc; rfl
    | cons p ps ih => intro m acc; simp only [Grid.closestScan, hd, ih]
  unfold Grid.chooseOneOf
  rw [hp]
  simp only [hs]

theorem moveToOneOf_cong (a : Aid) (ps : List Coord) (sel : Selection) (he : HandleEmpty) (s : Script) :
    Cong (fun g => g.moveToOneOf a ps sel he s) := by
  intro g g' hgg
  show ((g'.moveToOneOf a ps sel he s).2 = (g.moveToOneOf a ps sel he s).2 ∧
    forget (g'.moveToOneOf a ps sel he s).1 = forget (g.moveToOneOf a ps sel he s).1)
  unfold Grid.moveToOneOf
  rw [chooseOneOf_forget hgg]
  split
  · split <;> exact ⟨rfl, hgg⟩
  · cases g.chooseOneOf a ps sel s with
    | error e => exact ⟨rfl, hgg⟩
    | ok q => exact move_cong a q g g' hgg

theorem buildEmpties_forget {g g' : Grid} (h : forget g' = forget g) : g'.buildEmpties = g.buildEmpties := by
  obtain ⟨h1, h2, _, _, _, hc, _, _⟩ := forget_fields h
  unfold Grid.buildEmpties Grid.allCells Grid.isCellEmpty
  rw [h1, h2, hc]

theorem readEmpties_eq_build (g : Grid) (hi : Inv g) : g.readEmpties.2 = g.buildEmpties := by
  have hs := readEmpties_spec g hi
  exact SortedSet.ext hs.1 (sorted_buildEmpties g) (fun c => by rw [hs.2 c, mem_buildEmpties])

theorem forget_readEmpties (g : Grid) : forget g.readEmpties.1 = forget g :=
  (obsEq_iff_forget g _).mp (readEmpties_obs g)

theorem pickLoop_forget {g g' : Grid} (h : forget g' = forget g) (s : Script) : g'.pickLoop s = g.pickLoop s := by
  obtain ⟨h1, h2, _, _, _, hc, _, _⟩ := forget_fields h
  induction s using Grid.pickLoop.induct g with
  | case1 x y rest p hp =>
    have hp' : g'.isCellEmpty (((x : Int) % g'.w, (y : Int) % g'.h)) = true := by
      unfold Grid.isCellEmpty at hp ⊢; rw [h1, h2, hc]; exact hp
    rw [Grid.pickLoop, Grid.pickLoop, if_pos hp, if_pos hp', h1, h2]
  | case2 x y rest p hp ih =>
    have hp' : ¬ g'.isCellEmpty (((x : Int) % g'.w, (y : Int) % g'.h)) = true := by
      unfold Grid.isCellEmpty at hp ⊢; rw [h1, h2, hc]; exact hp
    rw [Grid.pickLoop, Grid.pickLoop, if_neg hp, if_neg hp', ih]
  | case3 s hs =>
    unfold Grid.pickLoop
    split
    · exact absurd rfl (hs _ _ _)
    · rfl

/-- `move_to_empty` reads `_empties`: on states whose views agree it gets the same set either way -/
theorem moveToEmpty_cong (a : Aid) (s : Script) (g g' : Grid) (hi : Inv g) (hi' : Inv g') (hgg : forget g' = forget g) :
    (g'.moveToEmpty a s).2 = (g.moveToEmpty a s).2 ∧ forget (g'.moveToEmpty a s).1 = forget (g.moveToEmpty a s).1 := by
  have e1 := readEmpties_eq_build g hi
  have e2 := readEmpties_eq_build g' hi'
  have f1 := forget_readEmpties g
  have f2 := forget_readEmpties g'
  have hb := buildEmpties_forget hgg
  unfold Grid.moveToEmpty
  rcases hr : g.readEmpties with ⟨g0, es⟩
  rcases hr' : g'.readEmpties with ⟨g0', es'⟩
  rw [hr] at e1 f1; rw [hr'] at e2 f2
  simp only [] at e1 e2 f1 f2 ⊢
  have hes : es' = es := by rw [e1, e2, hb]
  have h00 : forget g0' = forget g0 := by rw [f1, f2, hgg]
  subst hes
  have hcut : g0'.cutoff = g0.cutoff := (forget_fields h00).2.2.2.2.1
  rw [hcut, pickLoop_forget h00]
  split
  · exact ⟨rfl, h00⟩
  · split
    · exact ⟨rfl, h00⟩
    · rename_i q _
      exact andThen_cong _ _ (remove_cong a) (place_cong a q) g0 g0' h00

theorem step_cong (op : Op) (g g' : Grid) (hi : Inv g) (hi' : Inv g') (hgg : forget g' = forget g) :
    (step g' op).2 = (step g op).2 ∧ forget (step g' op).1 = forget (step g op).1 := by
  cases op with
  | place a p => exact place_cong a p g g' hgg
  | remove a => exact remove_cong a g g' hgg
  | move a p => exact move_cong a p g g' hgg
  | swap a b => exact swap_cong a b g g' hgg
  | moveToEmpty a s => exact moveToEmpty_cong a s g g' hi hi' hgg
  | moveToOneOf a ps sel he s => exact moveToOneOf_cong a ps sel he s g g' hgg
  | readEmpties =>
    exact ⟨rfl, by show forget g'.readEmpties.1 = forget g.readEmpties.1; rw [forget_readEmpties, forget_readEmpties, hgg]⟩

/-- the calls of a history that did not raise -/
def accepted (g : Grid) : List Op → List Op
  | [] => []
  | op :: ops =>
    match (step g op).2 with
    | .ok => op :: accepted (step g op).1 ops
    | .err _ => accepted (step g op).1 ops

theorem opOk_forget {g g' : Grid} (h : forget g' = forget g) (op : Op) (hok : OpOk g op) : OpOk g' op := by
  obtain ⟨h1, h2, _, _, _, _, hp, _⟩ := forget_fields h
  cases op with
  | place a p => exact ⟨by rw [hp]; exact hok.1, by unfold Grid.inGrid; rw [h1, h2]; exact hok.2⟩
  | _ => trivial

theorem run_accepted (ops : List Op) : ∀ (g g' : Grid), 0 < g.w → 0 < g.h → Inv g → Inv g' → forget g' = forget g →
    HistOk g ops → forget (run g' (accepted g ops)) = forget (run g ops) ∧ HistOk g' (accepted g ops) := by
  induction ops with
  | nil => intro g g' _ _ _ _ hgg _; exact ⟨hgg, trivial⟩
  | cons op ops ih =>
    intro g g' hw hh hi hi' hgg hok
    obtain ⟨hok1, hok2⟩ := hok
    obtain ⟨i1, c1⟩ := step_inv_cfg g op hw hh hi hok1
    have hw1 : 0 < (step g op).1.w := by rw [c1.1]; exact hw
    have hh1 : 0 < (step g op).1.h := by rw [c1.2.1]; exact hh
    simp only [run, accepted]
    cases hr : (step g op).2 with
    | err e =>
      simp only []
      have hun := (obsEq_iff_forget _ _).mp
        (show ObsEq g (step g op).1 from by
          have refl : ∀ g : Grid, ObsEq g g := fun g => ⟨rfl, rfl, rfl, rfl, rfl, rfl, rfl, rfl⟩
          cases op with
          | place a p => simp only [step] at hr ⊢; rw [place_err g a p e hr]; exact refl g
          | remove a => simp only [step] at hr ⊢; rw [remove_err g a e hr]; exact refl g
          | move a p => simp only [step] at hr ⊢; rw [move_err g a p hw hh hi e hr]; exact refl g
          | swap a b => simp only [step] at hr ⊢; rw [swap_err g a b hi e hr]; exact refl g
          | moveToEmpty a s => simp only [step] at hr ⊢; rw [moveToEmpty_err g a s hw hh hi e hr]; exact readEmpties_obs g
          | moveToOneOf a ps sel he s =>
            simp only [step] at hr ⊢; rw [moveToOneOf_err g a ps sel he s hw hh hi e hr]; exact refl g
          | readEmpties => simp [step] at hr)
      exact ih (step g op).1 g' hw1 hh1 i1 hi' (by rw [hgg, hun]) hok2
    | ok =>
      simp only [run]
      have hok1' := opOk_forget hgg op hok1
      have hw' : 0 < g'.w := by rw [(forget_fields hgg).1]; exact hw
      have hh' : 0 < g'.h := by rw [(forget_fields hgg).2.1]; exact hh
      obtain ⟨i1', _⟩ := step_inv_cfg g' op hw' hh' hi' hok1'
      obtain ⟨_, hst⟩ := step_cong op g g' hi hi' hgg
      have := ih (step g op).1 (step g' op).1 hw1 hh1 i1 i1' hst hok2
      exact ⟨this.1, hok1', this.2⟩

end Mesa.Legacy
