import MesaModel.Proofs.LegacySelect
import MesaModel.Proofs.LegacyHist
/-! The round-3 reads (`coord_iter`, `select_cells`) see only the observable part of a grid: they answer the same after a history
and after the same history without its rejected calls (C18-legacy). -/
namespace Mesa.Legacy

open Grid

theorem allCells_obs {g g' : Grid} (h : ObsEq g g') : g'.allCells = g.allCells := by
  obtain ⟨h1, h2, _⟩ := h
  simp only [allCells, h1, h2]

theorem applyExtremes_obs {g g' : Grid} (h : ObsEq g g') (ls : Layers) (exts : List Extreme) (m : CMask) :
    g'.applyExtremes ls exts m = g.applyExtremes ls exts m := by
  induction exts generalizing m with
  | nil => rfl
  | cons e es ih => simp only [applyExtremes, allCells_obs h, ih]

theorem new_reads_obs {g g' : Grid} (h : ObsEq g g') :
    g'.coordIter = g.coordIter ∧
    ∀ ls masks oe conds exts, g'.selectCells ls masks oe conds exts = g.selectCells ls masks oe conds exts ∧
      g'.selectMask ls masks oe conds exts = g.selectMask ls masks oe conds exts := by
  have ha := allCells_obs h
  obtain ⟨_, _, _, _, _, hc, _, hm⟩ := h
  refine ⟨by simp only [coordIter, ha, hc], fun ls masks oe conds exts => ?_⟩
  have hmask : g'.selectMask ls masks oe conds exts = g.selectMask ls masks oe conds exts := by
    simp only [selectMask, hm, applyExtremes_obs ⟨‹_›, ‹_›, ‹_›, ‹_›, ‹_›, hc, ‹_›, hm⟩]
  exact ⟨by simp only [selectCells, hmask, ha], hmask⟩

end Mesa.Legacy
