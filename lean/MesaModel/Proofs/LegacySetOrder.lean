import MesaModel.Model.LegacySetOrder
import MesaModel.Proofs.LegacyDraws
import MesaModel.Proofs.LegacyHex
/-! The iteration order of a Python set never reaches an observable of the legacy grids (C01-legacy). -/
namespace Mesa.Legacy

open Grid

theorem mem_sortedOf (l : List Coord) (x : Coord) : x ∈ sortedOf l ↔ x ∈ l := by
  induction l with
  | nil => simp [sortedOf]
  | cons p l ih =>
    have : sortedOf (p :: l) = sadd p (sortedOf l) := rfl
    rw [this, mem_sadd, ih, List.mem_cons]

theorem sorted_sortedOf (l : List Coord) : SortedSet (sortedOf l) := by
  induction l with
  | nil => exact List.Pairwise.nil
  | cons p l ih => exact sorted_sadd p _ ih

theorem sortedOf_congr (l l' : List Coord) (h : ∀ x, x ∈ l ↔ x ∈ l') : sortedOf l = sortedOf l' :=
  SortedSet.ext (sorted_sortedOf l) (sorted_sortedOf l') (fun c => by rw [mem_sortedOf, mem_sortedOf, h c])

theorem sortedOf_perm (l l' : List Coord) (h : l.Perm l') : sortedOf l = sortedOf l' :=
  sortedOf_congr l l' (fun _ => h.mem_iff)

theorem sortedOf_of_sorted (l : List Coord) (h : SortedSet l) : sortedOf l = l :=
  SortedSet.ext (sorted_sortedOf l) h (mem_sortedOf l)

theorem sortedOf_perm_self (l : List Coord) (hnd : l.Nodup) : (sortedOf l).Perm l :=
  (List.perm_ext_iff_of_nodup (sorted_sortedOf l).nodup hnd).mpr (mem_sortedOf l)

theorem pickLoopS_fst (g : Grid) (s : Script) : (g.pickLoopS s).map (·.1) = g.pickLoop s := by
  induction s using pickLoop.induct g with
  | case1 x y rest p hp => rw [pickLoopS, pickLoop, if_pos hp, if_pos hp]; rfl
  | case2 x y rest p hp ih => rw [pickLoopS, pickLoop, if_neg hp, if_neg hp]; exact ih
  | case3 s hs =>
    match s, hs with
    | [], _ => rfl
    | [_], _ => rfl
    | x :: y :: rest, hs => exact absurd rfl (hs x y rest)

theorem pickEmpty_perm (g : Grid) (es es' : List Coord) (h : es.Perm es') (s : Script) : g.pickEmpty es s = g.pickEmpty es' s := by
  simp only [pickEmpty, h.length_eq, sortedOf_perm es es' h]

theorem choice_fst {α : Type} (l : List α) (s : Script) :
    (choice l s).map (·.1) = match below s l.length with
      | none => none
      | some (i, _) => l[i]? := by
  unfold choice
  cases below s l.length with
  | none => rfl
  | some r =>
    obtain ⟨i, s'⟩ := r
    simp only []
    cases l[i]? <;> rfl

/-- the model's `move_to_empty` (which keeps `_empties` in canonical form) is the pick from the set in any iteration order -/
theorem moveToEmpty_pickEmpty (g : Grid) (hi : Inv g) (a : Aid) (s : Script) (es : List Coord) (hnd : es.Nodup)
    (hes : ∀ p, p ∈ es ↔ g.inGrid p ∧ g.content p = []) :
    g.moveToEmpty a s =
      if es = [] then (g.readEmpties.1, .err .noEmpty)
      else match g.pickEmpty es s with
        | none => (g.readEmpties.1, .err .script)
        | some (q, _) => removePlace g.readEmpties.1 a q := by
  have hsorted : sortedOf es = g.buildEmpties :=
    SortedSet.ext (sorted_sortedOf es) (sorted_buildEmpties g) (fun c => by rw [mem_sortedOf, hes c, mem_buildEmpties])
  have hlen : g.buildEmpties.length = es.length := by rw [← hsorted]; exact (sortedOf_perm_self es hnd).length_eq
  rw [moveToEmpty_unfold g hi a s, hlen]
  by_cases hnil : es = []
  · simp [hnil]
  · have hl0 : es.length ≠ 0 := fun h => hnil (List.eq_nil_of_length_eq_zero h)
    rw [if_neg hl0, if_neg hnil]
    unfold pickEmpty
    by_cases hgt : es.length > g.cutoff
    · rw [if_pos hgt, if_pos hgt, ← pickLoopS_fst]
      cases g.pickLoopS s with
      | none => rfl
      | some r => rfl
    · rw [if_neg hgt, if_neg hgt, hsorted]
      unfold choice
      rw [hlen]
      cases below s es.length with
      | none => rfl
      | some r =>
        obtain ⟨i, s'⟩ := r
        simp only []
        cases g.buildEmpties[i]? <;> rfl

/-! ### hex neighbourhoods: any representation of `coordinates` -/

/-- `ins` adds the member (the only thing the code relies on) -/
def SetIns (ins : Coord → List Coord → List Coord) : Prop := ∀ c v x, x ∈ ins c v ↔ x = c ∨ x ∈ v

theorem setIns_sadd : SetIns (fun c v => sadd c v) := fun c v x => mem_sadd c x v

theorem hexFilter_congr (d : Dim) (v v' adj : List Coord) (h : ∀ c, c ∈ v ↔ c ∈ v') : hexFilter d v adj = hexFilter d v' adj := by
  unfold hexFilter
  split
  · exact List.filter_congr fun c _ => by simp only [h c]
  · exact List.filter_congr fun c _ => by simp only [h c]

theorem mem_foldl_ins (ins : Coord → List Coord → List Coord) (hins : SetIns ins) (adj v : List Coord) (x : Coord) :
    x ∈ adj.foldl (fun v c => ins c v) v ↔ x ∈ adj ∨ x ∈ v := by
  induction adj generalizing v with
  | nil => simp
  | cons c adj ih =>
    simp only [List.foldl_cons, ih, hins c v x, List.mem_cons]
    constructor
    · rintro (h | h | h)
      · exact Or.inl (Or.inr h)
      · exact Or.inl (Or.inl h)
      · exact Or.inr h
    · rintro ((h | h) | h)
      · exact Or.inr (Or.inl h)
      · exact Or.inl h
      · exact Or.inr (Or.inr h)

theorem hexStepW_congr (ins : Coord → List Coord → List Coord) (hins : SetIns ins) (d : Dim) (more : Bool)
    (st st' : List Coord × List Coord) (x : Coord) (hq : st.1 = st'.1) (hv : ∀ c, c ∈ st.2 ↔ c ∈ st'.2) :
    (hexStepW ins d more st x).1 = (hexStep d more st' x).1 ∧
    ∀ c, c ∈ (hexStepW ins d more st x).2 ↔ c ∈ (hexStep d more st' x).2 := by
  have hf := hexFilter_congr d st.2 st'.2 (hexAdjacent x) hv
  refine ⟨by simp only [hexStepW, hexStep, hq, hf], fun c => ?_⟩
  simp only [hexStepW, hexStep, hf]
  rw [mem_foldl_ins ins hins, mem_foldl_ins _ setIns_sadd, hv c]

theorem foldl_hexStepW_congr (ins : Coord → List Coord → List Coord) (hins : SetIns ins) (d : Dim) (more : Bool)
    (q : List Coord) : ∀ (st st' : List Coord × List Coord), st.1 = st'.1 → (∀ c, c ∈ st.2 ↔ c ∈ st'.2) →
    (q.foldl (hexStepW ins d more) st).1 = (q.foldl (hexStep d more) st').1 ∧
    ∀ c, c ∈ (q.foldl (hexStepW ins d more) st).2 ↔ c ∈ (q.foldl (hexStep d more) st').2 := by
  induction q with
  | nil => intro st st' hq hv; exact ⟨hq, hv⟩
  | cons x q ih =>
    intro st st' hq hv
    obtain ⟨h1, h2⟩ := hexStepW_congr ins hins d more st st' x hq hv
    exact ih _ _ h1 h2

theorem hexLevelsW_congr (ins : Coord → List Coord → List Coord) (hins : SetIns ins) (d : Dim) (r : Nat) :
    ∀ (q v v' : List Coord), (∀ c, c ∈ v ↔ c ∈ v') → ∀ c, c ∈ hexLevelsW ins d r q v ↔ c ∈ hexLevels d r q v' := by
  induction r with
  | zero => intro q v v' hv; exact hv
  | succ r ih =>
    intro q v v' hv
    obtain ⟨h1, h2⟩ := foldl_hexStepW_congr ins hins d (decide (r > 0)) q ([], v) ([], v') rfl hv
    simp only [hexLevelsW, hexLevels, h1]
    exact ih _ _ _ h2

/-- whatever order the set `coordinates` keeps its members in, the neighbourhood returned is the model's -/
theorem hexComputeW_eq (ins : Coord → List Coord → List Coord) (hins : SetIns ins) (d : Dim) (pos : Coord) (ic : Bool) (r : Nat) :
    hexComputeW ins d pos ic r = hexCompute d pos ic r := by
  have hv := hexLevelsW_congr ins hins d r [pos] [] [] (fun _ => Iff.rfl)
  refine SortedSet.ext (sorted_sortedOf _) (hex_spec d pos ic r).1 (fun c => ?_)
  simp only [hexComputeW, hexCompute]
  rw [mem_sortedOf]
  cases ic with
  | true => simp only [if_true]; rw [hins pos _ c, mem_sadd, hv c]
  | false =>
    simp only [Bool.false_eq_true, if_false]
    rw [List.mem_filter, mem_sdiscard, hv c]
    simp

end Mesa.Legacy
