import MesaModel.Proofs.CellNbhd
/-!
Helper lemmas for C07 / C06: connections edited after construction (`Cell.connect`, `Cell.disconnect`) —
dict assignment / deletion on an item list, and transparency of the memo tables when every edit drops them
(`Cell._forget_neighborhoods`, repair SC2).  Core Lean only.
-/
namespace Mesa.Cells

section Generic
variable {α : Type} [DecidableEq α]

/-! ### `d[k] = v` and `del d[k]` on item lists -/

theorem assocGet_dictSet {β : Type} (m : List (α × β)) (k : α) (v : β) (k' : α) :
    assocGet (dictSet m k v) k' = if k = k' then some v else assocGet m k' := by
  induction m with
  | nil => simp [dictSet, assocGet]
  | cons p m ih =>
    obtain ⟨k0, v0⟩ := p
    simp only [dictSet]
    by_cases h0 : k0 = k
    · subst h0
      simp only [if_true, assocGet]
      by_cases h1 : k0 = k' <;> simp [h1]
    · simp only [h0, if_false, assocGet, ih]
      by_cases h1 : k0 = k'
      · subst h1
        have : ¬ k = k0 := fun e => h0 e.symm
        simp [this]
      · simp [h1]

theorem keys_dictSet {β : Type} (m : List (α × β)) (k : α) (v : β) :
    (dictSet m k v).map (·.1) = if k ∈ m.map (·.1) then m.map (·.1) else m.map (·.1) ++ [k] := by
  induction m with
  | nil => simp [dictSet]
  | cons p m ih =>
    obtain ⟨k0, v0⟩ := p
    simp only [dictSet]
    by_cases h0 : k0 = k
    · subst h0; simp
    · have h0' : ¬ k = k0 := fun e => h0 e.symm
      simp only [h0, if_false, List.map_cons, ih, List.mem_cons, h0', false_or]
      split <;> simp

/-- a dict: no key twice -/
def KeysNodup {β : Type} (m : List (α × β)) : Prop := (m.map (·.1)).Nodup

theorem keysNodup_dictSet {β : Type} {m : List (α × β)} (h : KeysNodup m) (k : α) (v : β) :
    KeysNodup (dictSet m k v) := by
  unfold KeysNodup at *
  rw [keys_dictSet]
  split
  · exact h
  · rename_i hk
    rw [List.nodup_append]
    refine ⟨h, by simp, ?_⟩
    intro a ha b hb
    simp at hb
    rintro rfl
    exact hk (hb ▸ ha)

theorem mem_dictSet {β : Type} {m : List (α × β)} (h : KeysNodup m) (k : α) (v : β) (k' : α) (v' : β) :
    (k', v') ∈ dictSet m k v ↔ (k' = k ∧ v' = v) ∨ (k' ≠ k ∧ (k', v') ∈ m) := by
  induction m with
  | nil =>
    simp only [dictSet, List.mem_singleton, Prod.mk.injEq, List.not_mem_nil, and_false, or_false]
  | cons p m ih =>
    obtain ⟨k0, v0⟩ := p
    have hk0 : k0 ∉ m.map (·.1) := by
      unfold KeysNodup at h; simp only [List.map_cons, List.nodup_cons] at h; exact h.1
    have hm : KeysNodup m := by
      unfold KeysNodup at h ⊢; simp only [List.map_cons, List.nodup_cons] at h; exact h.2
    simp only [dictSet]
    by_cases h0 : k0 = k
    · subst h0
      simp only [if_true, List.mem_cons, Prod.mk.injEq]
      constructor
      · rintro (⟨rfl, rfl⟩ | hmem)
        · exact Or.inl ⟨rfl, rfl⟩
        · refine Or.inr ⟨?_, Or.inr hmem⟩
          rintro rfl
          exact hk0 (List.mem_map.mpr ⟨(k', v'), hmem, rfl⟩)
      · rintro (⟨rfl, rfl⟩ | ⟨hne, (⟨rfl, _⟩ | hmem)⟩)
        · exact Or.inl ⟨rfl, rfl⟩
        · exact absurd rfl hne
        · exact Or.inr hmem
    · simp only [h0, if_false, List.mem_cons, Prod.mk.injEq, ih hm]
      constructor
      · rintro (⟨rfl, rfl⟩ | h1 | ⟨hne, hmem⟩)
        · exact Or.inr ⟨h0, Or.inl ⟨rfl, rfl⟩⟩
        · exact Or.inl h1
        · exact Or.inr ⟨hne, Or.inr hmem⟩
      · rintro (h1 | ⟨hne, (⟨rfl, rfl⟩ | hmem)⟩)
        · exact Or.inr (Or.inl h1)
        · exact Or.inl ⟨rfl, rfl⟩
        · exact Or.inr (Or.inr ⟨hne, hmem⟩)

theorem assocGet_none_of_not_mem {β : Type} {m : List (α × β)} {k : α} (h : k ∉ m.map (·.1)) :
    assocGet m k = none := by
  induction m with
  | nil => rfl
  | cons q m ih =>
    obtain ⟨k1, v1⟩ := q
    simp only [List.map_cons, List.mem_cons, not_or] at h
    have hne : ¬ k1 = k := fun e => h.1 e.symm
    simp only [assocGet, hne, if_false]
    exact ih h.2

theorem mem_dictDropValue {κ : Type} (m : List (κ × α)) (x : α) (p : κ × α) :
    p ∈ dictDropValue m x ↔ p ∈ m ∧ p.2 ≠ x := by
  simp [dictDropValue]

theorem keysNodup_dictDropValue {κ : Type} [DecidableEq κ] {m : List (κ × α)} (h : KeysNodup m) (x : α) :
    KeysNodup (dictDropValue m x) := by
  unfold KeysNodup dictDropValue at *
  exact (List.filter_sublist.map _).nodup h

theorem assocGet_dictDropValue {κ : Type} [DecidableEq κ] {m : List (κ × α)} (h : KeysNodup m) (x : α) (k : κ) :
    assocGet (dictDropValue m x) k = (assocGet m k).bind fun v => if v = x then none else some v := by
  induction m with
  | nil => simp [dictDropValue, assocGet]
  | cons p m ih =>
    obtain ⟨k0, v0⟩ := p
    have hk0 : k0 ∉ m.map (·.1) := by
      unfold KeysNodup at h; simp only [List.map_cons, List.nodup_cons] at h; exact h.1
    have hm : KeysNodup m := by
      unfold KeysNodup at h ⊢; simp only [List.map_cons, List.nodup_cons] at h; exact h.2
    have ih := ih hm
    unfold dictDropValue at ih ⊢
    by_cases hv : v0 = x
    · subst hv
      simp only [List.filter_cons, ne_eq, not_true_eq_false, decide_false, Bool.false_eq_true, if_false, ih, assocGet]
      by_cases hk : k0 = k
      · subst hk
        simp only [if_true, Option.bind_some]
        have : assocGet m k0 = none := assocGet_none_of_not_mem hk0
        simp [this]
      · simp [hk]
    · simp only [List.filter_cons, ne_eq, hv, not_false_eq_true, decide_true, if_true, assocGet, ih]
      by_cases hk : k0 = k
      · simp [hk, hv]
      · simp [hk]

/-! ### the edits leave every other cell alone -/

theorem connectConn_same {κ : Type} [DecidableEq κ] (conn : α → List (κ × α)) (c other : α) (key : κ) :
    connectConn conn c other key c = dictSet (conn c) key other := by simp [connectConn]

theorem connectConn_other {κ : Type} [DecidableEq κ] (conn : α → List (κ × α)) (c other : α) (key : κ) {x : α}
    (h : x ≠ c) : connectConn conn c other key x = conn x := by simp [connectConn, h]

theorem disconnectConn_same {κ : Type} (conn : α → List (κ × α)) (c other : α) :
    disconnectConn conn c other c = dictDropValue (conn c) other := by simp [disconnectConn]

theorem disconnectConn_other {κ : Type} (conn : α → List (κ × α)) (c other : α) {x : α} (h : x ≠ c) :
    disconnectConn conn c other x = conn x := by simp [disconnectConn, h]

/-! ### memo tables under edits -/

/-- `c.connections.values()` -/
def nbOfConn {κ : Type} (conn : α → List (κ × α)) (c : α) : List α := (conn c).map (·.2)

theorem assocGet_filter_ne {β : Type} (m : List (α × β)) (c k : α) :
    assocGet (m.filter fun p => p.1 ≠ c) k = if k = c then none else assocGet m k := by
  induction m with
  | nil => simp [assocGet]
  | cons p m ih =>
    obtain ⟨k0, v0⟩ := p
    by_cases h0 : k0 = c
    · subst h0
      simp only [List.filter_cons, ne_eq, not_true_eq_false, decide_false, Bool.false_eq_true, if_false, ih, assocGet]
      by_cases hk : k = k0
      · subst hk; simp
      · have : ¬ k0 = k := fun e => hk e.symm
        simp [hk, this]
    · simp only [List.filter_cons, ne_eq, h0, not_false_eq_true, decide_true, if_true, assocGet, ih]
      by_cases hk : k0 = k
      · subst hk; simp [h0]
      · simp [hk]

/-- After `_forget_neighborhoods` of cell `c` the memo tables are sound for any connection structure that
    differs from the old one at most at `c`. -/
theorem cachesOK_forget {nb nb' : α → List α} {cs : Caches α} (h : CachesOK nb cs) (c : α)
    (hsame : ∀ x, x ≠ c → nb' x = nb x) : CachesOK nb' (cs.forget c) := by
  refine ⟨memoOK_nil nb', memoOK_nil nb', ?_⟩
  intro x v hv
  simp only [Caches.forget] at hv
  rw [assocGet_filter_ne] at hv
  split at hv
  · simp at hv
  · rename_i hx
    have := h.2.2 x v hv
    rw [this, nbhd_one, nbhd_one, hsame x hx]

/-- what a program does to the neighbourhood machinery: ask, or edit the connections of one cell -/
inductive Act (α κ : Type) where
  | ask (q : Query α)
  | connect (c other : α) (key : κ)     -- `c.connect(other, key)`
  | disconnect (c other : α)            -- `c.disconnect(other)`

/-- the answers the code gives to the `ask`s of a history, memo tables threaded through, every edit followed
    by `_forget_neighborhoods` -/
def runActs {κ : Type} [DecidableEq κ] (conn : α → List (κ × α)) (cs : Caches α) : List (Act α κ) → List (List α)
  | [] => []
  | .ask q :: rest => (q.run (nbOfConn conn) cs).1 :: runActs conn (q.run (nbOfConn conn) cs).2 rest
  | .connect c o k :: rest => runActs (connectConn conn c o k) (cs.forget c) rest
  | .disconnect c o :: rest => runActs (disconnectConn conn c o) (cs.forget c) rest

/-- the specification: each `ask` is answered by the uncached function on the connections as they are then -/
def specActs {κ : Type} [DecidableEq κ] (conn : α → List (κ × α)) : List (Act α κ) → List (List α)
  | [] => []
  | .ask q :: rest => q.answer (nbOfConn conn) :: specActs conn rest
  | .connect c o k :: rest => specActs (connectConn conn c o k) rest
  | .disconnect c o :: rest => specActs (disconnectConn conn c o) rest

theorem runActs_spec {κ : Type} [DecidableEq κ] (conn : α → List (κ × α)) (cs : Caches α)
    (h : CachesOK (nbOfConn conn) cs) (acts : List (Act α κ)) : runActs conn cs acts = specActs conn acts := by
  induction acts generalizing conn cs with
  | nil => rfl
  | cons a rest ih =>
    cases a with
    | ask q =>
      have hq : (q.run (nbOfConn conn) cs).1 = q.answer (nbOfConn conn) ∧ CachesOK (nbOfConn conn) (q.run (nbOfConn conn) cs).2 := by
        cases q with
        | get c r ic => exact getNbhd_spec _ r ic c cs h
        | prop c => exact nbProp_spec _ c cs h
      simp only [runActs, specActs]
      rw [hq.1, ih _ _ hq.2]
    | connect c o k =>
      simp only [runActs, specActs]
      exact ih _ _ (cachesOK_forget h c (fun x hx => by simp [nbOfConn, connectConn_other conn c o k hx]))
    | disconnect c o =>
      simp only [runActs, specActs]
      exact ih _ _ (cachesOK_forget h c (fun x hx => by simp [nbOfConn, disconnectConn_other conn c o hx]))

end Generic
end Mesa.Cells
