import MesaModel.Proofs.Signals
/-!
Helper lemmas for the re-entrancy part of C16: handlers that call `observe` / `unobserve` /
`clear_all_subscriptions` while they are being notified (`roundLoop`, `Reg.deliverR`, `stepR`).
-/
namespace Mesa.Signals

theorem Reg.acts_append (r : Reg Nat) (alive : Nat → Bool) (as bs : List Act) :
    r.acts alive (as ++ bs) = (r.acts alive as).acts alive bs := by
  simp [Reg.acts, List.foldl_append]

theorem Reg.acts_nil (r : Reg Nat) (alive : Nat → Bool) : r.acts alive [] = r := rfl

/-- one round of `_mesa_notify`: who is called (`new`), and what the registry is afterwards -/
theorem roundLoop_spec (progs : Nat → List Act) (alive : Nat → Bool) (n : Nat) (t : SigType) :
    ∀ (l : List Nat) (r : Reg Nat) (called : List Nat),
    ∃ new, (roundLoop progs alive n t l r called).2 = called ++ new ∧
      (roundLoop progs alive n t l r called).1 = r.acts alive (new.flatMap progs) ∧
      new.Sublist (l.filter alive) ∧
      ∀ pre h post, new = pre ++ h :: post →
        alive h = true ∧ h ∈ (r.acts alive (pre.flatMap progs)).subs n t := by
  intro l
  induction l with
  | nil => intro r called; exact ⟨[], by simp [roundLoop], rfl, by simp, fun pre h post e => by simp at e⟩
  | cons g rest ih =>
    intro r called
    by_cases hg : (alive g && (r.subs n t).contains g) = true
    · obtain ⟨new, h1, h2, h3, h4⟩ := ih (r.acts alive (progs g)) (called ++ [g])
      have hal : alive g = true := by simp only [Bool.and_eq_true] at hg; exact hg.1
      have hmem : g ∈ r.subs n t := by simp only [Bool.and_eq_true, List.contains_iff_mem] at hg; exact hg.2
      refine ⟨g :: new, ?_, ?_, ?_, ?_⟩
      · simp only [roundLoop, hg, if_true]; rw [h1]; simp
      · simp only [roundLoop, hg, if_true]; rw [h2, List.flatMap_cons, Reg.acts_append]
      · simp only [List.filter_cons, hal, if_true]; exact h3.cons_cons g
      · intro pre h post e
        cases pre with
        | nil =>
          simp only [List.nil_append, List.cons.injEq] at e
          obtain ⟨rfl, _⟩ := e
          exact ⟨hal, hmem⟩
        | cons p pre' =>
          simp only [List.cons_append, List.cons.injEq] at e
          obtain ⟨rfl, e⟩ := e
          obtain ⟨i1, i2⟩ := h4 pre' h post e
          exact ⟨i1, by rw [List.flatMap_cons, Reg.acts_append]; exact i2⟩
    · obtain ⟨new, h1, h2, h3, h4⟩ := ih r called
      refine ⟨new, ?_, ?_, ?_, h4⟩
      · simp only [roundLoop, hg]; exact h1
      · simp only [roundLoop, hg]; exact h2
      · rw [List.filter_cons]
        split
        · exact h3.cons g
        · exact h3

/-- with passive handlers the round is the old `_mesa_notify` -/
theorem roundLoop_passive {progs : Nat → List Act} (hp : ∀ h, progs h = []) (alive : Nat → Bool) (n : Nat) (t : SigType) :
    ∀ (l : List Nat) (r : Reg Nat) (called : List Nat),
    roundLoop progs alive n t l r called =
      (r, called ++ l.filter fun h => alive h && (r.subs n t).contains h) := by
  intro l
  induction l with
  | nil => intro r called; simp [roundLoop]
  | cons g rest ih =>
    intro r called
    by_cases hg : (alive g && (r.subs n t).contains g) = true
    · simp only [roundLoop, hg, if_true, hp g, Reg.acts_nil, List.filter_cons]
      rw [ih]; simp
    · have hg' : (alive g && (r.subs n t).contains g) = false := by
        cases h : (alive g && (r.subs n t).contains g) <;> simp_all
      simp only [roundLoop, hg', Bool.false_eq_true, if_false, List.filter_cons]
      exact ih r called

theorem deliverR_passive {progs : Nat → List Act} (hp : ∀ h, progs h = []) (r : Reg Nat) (alive : Nat → Bool)
    (n : Nat) (t : SigType) : r.deliverR progs alive n t = r.deliver alive n t := by
  unfold Reg.deliverR Reg.deliver
  rw [roundLoop_passive hp]
  have : ((r.subs n t).filter fun h => alive h && (r.subs n t).contains h) = (r.subs n t).filter alive := by
    apply List.filter_congr
    intro x hx
    simp [hx]
  simp only [List.nil_append, this]

theorem notifyR_passive {progs : Nat → List Act} (hp : ∀ h, progs h = []) (s : St) (sig : Sig) :
    notifyR progs s sig = notify s sig := by
  unfold notifyR notify
  rw [deliverR_passive hp]

theorem notifyAllR_passive {progs : Nat → List Act} (hp : ∀ h, progs h = []) (s : St) (sigs : List Sig) :
    notifyAllR progs s sigs = notifyAll s sigs := by
  unfold notifyAllR notifyAll
  simp only [notifyR_passive hp]

theorem stepR_passive {progs : Nat → List Act} (hp : ∀ h, progs h = []) (s : St) (op : Op) :
    stepR progs s op = step s op := by
  cases op <;> simp only [stepR, step, notifyR_passive hp, notifyAllR_passive hp]

theorem runR_passive {progs : Nat → List Act} (hp : ∀ h, progs h = []) (s : St) (ops : List Op) :
    runR progs s ops = run s ops := by
  induction ops generalizing s with
  | nil => rfl
  | cons op ops ih => simp only [runR, run, stepR_passive hp, ih]

/-! ### a handler nobody unsubscribes during the round is called once per subscription -/

theorem Reg.act_decls {r : Reg Nat} (w : r.WF) (alive : Nat → Bool) (a : Act) : (r.act alive a).decls = r.decls := by
  cases a with
  | observe n t h =>
    simp only [Reg.act]
    rcases Reg.observe_spec w n t h with ⟨_, r', ho, hd, _⟩ | ⟨_, ho⟩ <;> rw [ho]
    exact hd
  | unobserve n t h =>
    simp only [Reg.act]
    rcases Reg.unobserve_spec w alive n t h with ⟨_, ho⟩ | ⟨_, r', ho, hd, _⟩ <;> rw [ho]
    exact hd
  | clear n => cases n <;> rfl

theorem Reg.act_wf {r : Reg Nat} (w : r.WF) (alive : Nat → Bool) (a : Act) : (r.act alive a).WF :=
  Reg.wf_of_decls (Reg.act_decls w alive a) w

theorem Reg.acts_wf {r : Reg Nat} (w : r.WF) (alive : Nat → Bool) (as : List Act) : (r.acts alive as).WF := by
  induction as generalizing r with
  | nil => exact w
  | cons a as ih => exact ih (Reg.act_wf w alive a)

/-- the call `a` does not take `h` out of the subscriber list of (`n`, `t`), whatever the registry -/
def Act.keeps (alive : Nat → Bool) (a : Act) (h n : Nat) (t : SigType) : Prop :=
  ∀ r : Reg Nat, r.WF → h ∈ r.subs n t → h ∈ (r.act alive a).subs n t

theorem Reg.acts_keeps {alive : Nat → Bool} {h n : Nat} {t : SigType} (as : List Act)
    (hk : ∀ a ∈ as, a.keeps alive h n t) (r : Reg Nat) (w : r.WF) (hm : h ∈ r.subs n t) :
    h ∈ (r.acts alive as).subs n t := by
  induction as generalizing r with
  | nil => exact hm
  | cons a as ih =>
    show h ∈ ((r.act alive a).acts alive as).subs n t
    exact ih (fun b hb => hk b (by simp [hb])) _ (Reg.act_wf w alive a) (hk a (by simp) r w hm)

theorem roundLoop_complete (progs : Nat → List Act) (alive : Nat → Bool) (n : Nat) (t : SigType) (h : Nat)
    (hal : alive h = true) :
    ∀ (l : List Nat) (r : Reg Nat) (called : List Nat), r.WF →
    (∀ g ∈ l, ∀ a ∈ progs g, a.keeps alive h n t) → (h ∈ l → h ∈ r.subs n t) →
    (roundLoop progs alive n t l r called).2.count h = called.count h + l.count h := by
  intro l
  induction l with
  | nil => intro r called _ _ _; simp [roundLoop]
  | cons g rest ih =>
    intro r called w hk hm
    have hk' : ∀ g' ∈ rest, ∀ a ∈ progs g', a.keeps alive h n t := fun g' hg' => hk g' (by simp [hg'])
    by_cases hg : (alive g && (r.subs n t).contains g) = true
    · simp only [roundLoop, hg, if_true]
      rw [ih _ _ (Reg.acts_wf w alive _) hk'
        (fun hr => Reg.acts_keeps _ (hk g (by simp)) r w (hm (by simp [hr])))]
      by_cases hgh : g = h
      · subst hgh; simp; omega
      · have : ¬ (g == h) = true := by simpa using hgh
        simp [List.count_cons, this, List.count_append]
    · have hg' : (alive g && (r.subs n t).contains g) = false := by
        cases hh : (alive g && (r.subs n t).contains g) <;> simp_all
      have hgh : g ≠ h := by
        intro e; subst e
        have := hm (by simp)
        simp [hal, this] at hg'
      simp only [roundLoop, hg', Bool.false_eq_true, if_false]
      rw [ih _ _ w hk' (fun hr => hm (by simp [hr]))]
      have : ¬ (g == h) = true := by simpa using hgh
      simp [List.count_cons, this]

/-- `observe` never removes anybody -/
theorem Act.keeps_observe (alive : Nat → Bool) (a : Sel Nat) (ty : Sel SigType) (g h n : Nat) (t : SigType) :
    (Act.observe a ty g).keeps alive h n t := by
  intro r w hm
  simp only [Reg.act]
  rcases Reg.observe_spec w a ty g with ⟨_, r', ho, _, hs⟩ | ⟨_, ho⟩ <;> rw [ho]
  · show h ∈ r'.subs n t
    rw [hs n t]
    split
    · exact List.mem_append_left _ hm
    · exact hm
  · exact hm

/-- `unobserve` of another handler does not remove a live one -/
theorem Act.keeps_unobserve_other (alive : Nat → Bool) (a : Sel Nat) (ty : Sel SigType) {g h : Nat} (n : Nat)
    (t : SigType) (hne : h ≠ g) (hal : alive h = true) : (Act.unobserve a ty g).keeps alive h n t := by
  intro r w hm
  simp only [Reg.act]
  rcases Reg.unobserve_spec w alive a ty g with ⟨_, ho⟩ | ⟨_, r', ho, _, hs⟩ <;> rw [ho]
  · exact hm
  · show h ∈ r'.subs n t
    rw [hs n t]
    split
    · simp [Reg.keep, hm, hal, hne]
    · exact hm

/-- `clear_all_subscriptions` of another observable does not either -/
theorem Act.keeps_clear_other (alive : Nat → Bool) {b : Nat} (h n : Nat) (t : SigType) (hne : n ≠ b) :
    (Act.clear (.one b)).keeps alive h n t := by
  intro r _ hm
  simp [Reg.act, Reg.clearAll, hne, hm]

/-! ### the registry is the history of all registry calls, those made by handlers included -/

def Act.toOp : Act → Op
  | .observe n t h => .observe n t h
  | .unobserve n t h => .unobserve n t h
  | .clear n => .clear n

theorem act_eq_step (s : St) (a : Act) : ({ s with reg := s.reg.act s.alive a } : St) = (step s a.toOp).1 := by
  cases a with
  | observe n t h =>
    simp only [Reg.act, Act.toOp, step]
    cases s.reg.observe n t h <;> rfl
  | unobserve n t h =>
    simp only [Reg.act, Act.toOp, step]
    cases s.reg.unobserve s.alive n t h <;> rfl
  | clear n => rfl

theorem acts_eq_run (s : St) (as : List Act) :
    ({ s with reg := s.reg.acts s.alive as } : St) = (run s (as.map Act.toOp)).1 := by
  induction as generalizing s with
  | nil => rfl
  | cons a as ih =>
    rw [List.map_cons, run_cons]
    show _ = (run (step s a.toOp).1 (as.map Act.toOp)).1
    rw [← act_eq_step, ← ih]
    rfl

/-- the registry calls the handlers reached by `ds` made, in the order they made them -/
def calledOps (progs : Nat → List Act) (ds : List (Nat × Sig)) : List Op :=
  ds.flatMap fun d => (progs d.1).map Act.toOp

theorem calledOps_append (progs : Nat → List Act) (a b : List (Nat × Sig)) :
    calledOps progs (a ++ b) = calledOps progs a ++ calledOps progs b := by
  simp [calledOps]

theorem calledOps_map (progs : Nat → List Act) (sig : Sig) (new : List Nat) :
    calledOps progs (new.map fun h => (h, sig)) = (new.flatMap progs).map Act.toOp := by
  induction new with
  | nil => rfl
  | cons g new ih =>
    simp only [calledOps] at ih ⊢
    simp only [List.map_cons, List.flatMap_cons, List.map_append, ih]

theorem notifyR_refines {r0 : Reg Nat} (w : r0.WF) {s : St} (hd : s.reg.decls = r0.decls) {σ : Table}
    (hr : Refines s σ) (progs : Nat → List Act) (sig : Sig) :
    (notifyR progs s sig).1.reg.decls = r0.decls ∧ (notifyR progs s sig).1.dead = s.dead ∧
    (notifyR progs s sig).1.obsv = s.obsv ∧ (notifyR progs s sig).1.lists = s.lists ∧
    Refines (notifyR progs s sig).1 ((calledOps progs (notifyR progs s sig).2).foldl (specSubsStep r0) σ) := by
  obtain ⟨new, h1, h2, _, _⟩ := roundLoop_spec progs s.alive sig.name sig.type (s.reg.subs sig.name sig.type) s.reg []
  have hops : calledOps progs (notifyR progs s sig).2 = (new.flatMap progs).map Act.toOp := by
    simp only [notifyR, Reg.deliverR, h1, List.nil_append]
    exact calledOps_map progs sig new
  obtain ⟨g1, g2⟩ := run_refines w ((new.flatMap progs).map Act.toOp) hd hr
  rw [← acts_eq_run] at g1 g2
  rw [hops]
  refine ⟨?_, rfl, rfl, rfl, ?_⟩
  · simp only [notifyR, Reg.deliverR, h2, Reg.setSubs]; exact g1
  · intro a ty
    have := g2 a ty
    simp only [notifyR, Reg.deliverR, h2, Reg.setSubs] at this ⊢
    show List.filter s.alive (if a = sig.name ∧ ty = sig.type then _ else _) = _
    split
    · rename_i hc
      obtain ⟨rfl, rfl⟩ := hc
      rw [List.filter_filter]
      simp only [Bool.and_self]
      exact this
    · exact this

theorem notifyAllR_aux {r0 : Reg Nat} (w : r0.WF) (progs : Nat → List Act) (sigs : List Sig) :
    ∀ (s : St) (σ : Table) (acc : List (Nat × Sig)), s.reg.decls = r0.decls → Refines s σ →
    ∃ new,
      (sigs.foldl (fun (acc : St × List (Nat × Sig)) sig =>
          ((notifyR progs acc.1 sig).1, acc.2 ++ (notifyR progs acc.1 sig).2)) (s, acc)).2 = acc ++ new ∧
      (sigs.foldl (fun (acc : St × List (Nat × Sig)) sig =>
          ((notifyR progs acc.1 sig).1, acc.2 ++ (notifyR progs acc.1 sig).2)) (s, acc)).1.reg.decls = r0.decls ∧
      (sigs.foldl (fun (acc : St × List (Nat × Sig)) sig =>
          ((notifyR progs acc.1 sig).1, acc.2 ++ (notifyR progs acc.1 sig).2)) (s, acc)).1.dead = s.dead ∧
      Refines (sigs.foldl (fun (acc : St × List (Nat × Sig)) sig =>
          ((notifyR progs acc.1 sig).1, acc.2 ++ (notifyR progs acc.1 sig).2)) (s, acc)).1
        ((calledOps progs new).foldl (specSubsStep r0) σ) := by
  induction sigs with
  | nil => intro s σ acc hd hr; exact ⟨[], by simp, hd, rfl, hr⟩
  | cons sig sigs ih =>
    intro s σ acc hd hr
    obtain ⟨h1, h2, _, _, h5⟩ := notifyR_refines w hd hr progs sig
    obtain ⟨new, i1, i2, i3, i4⟩ := ih (notifyR progs s sig).1 _ (acc ++ (notifyR progs s sig).2) h1 h5
    refine ⟨(notifyR progs s sig).2 ++ new, ?_, ?_, ?_, ?_⟩
    · rw [List.foldl_cons, i1, List.append_assoc]
    · rw [List.foldl_cons]; exact i2
    · rw [List.foldl_cons, i3, h2]
    · rw [List.foldl_cons, calledOps_append, List.foldl_append]; exact i4

/-- the registry calls made by the handlers an operation reached -/
def outOps (progs : Nat → List Act) : Out → List Op
  | .ok ds => calledOps progs ds
  | .err _ => []

theorem stepR_refines {r0 : Reg Nat} (w : r0.WF) {s : St} (hd : s.reg.decls = r0.decls) {σ : Table}
    (hr : Refines s σ) (progs : Nat → List Act) (op : Op) :
    (stepR progs s op).1.reg.decls = r0.decls ∧
    Refines (stepR progs s op).1
      ((outOps progs (stepR progs s op).2).foldl (specSubsStep r0) (specSubsStep r0 σ op)) := by
  have reg_case : ∀ op', op'.isRegistryOp = true ∨ (∃ x, op' = .drop x) → stepR progs s op' = step s op' →
      (stepR progs s op').1.reg.decls = r0.decls ∧
      Refines (stepR progs s op').1
        ((outOps progs (stepR progs s op').2).foldl (specSubsStep r0) (specSubsStep r0 σ op')) := by
    intro op' hk he
    rw [he]
    obtain ⟨g1, g2⟩ := step_refines w hd hr op'
    refine ⟨g1, ?_⟩
    have : outOps progs (step s op').2 = [] := by
      rcases hk with hk | ⟨x, rfl⟩
      · cases op' <;> simp [Op.isRegistryOp] at hk
        · simp only [step]; split <;> rfl
        · simp only [step]; split <;> rfl
        · rfl
      · rfl
    rw [this]; exact g2
  cases op with
  | observe n t h => exact reg_case _ (Or.inl rfl) rfl
  | unobserve n t h => exact reg_case _ (Or.inl rfl) rfl
  | clear n => exact reg_case _ (Or.inl rfl) rfl
  | drop x => exact reg_case _ (Or.inr ⟨x, rfl⟩) rfl
  | assign n v =>
    obtain ⟨h1, _, _, _, h5⟩ := notifyR_refines w hd hr progs ⟨n, .change, s.obsv n, .int v, .none⟩
    exact ⟨h1, h5⟩
  | lassign n vs =>
    obtain ⟨h1, _, _, _, h5⟩ := notifyR_refines w hd hr progs ⟨n, .change, .list ((s.lists n).getD []), .list vs, .none⟩
    exact ⟨h1, h5⟩
  | _ =>
    all_goals
      simp only [stepR, Op.listName, specSubsStep]
      cases hl : s.lists _ with
      | none => exact ⟨hd, hr⟩
      | some d =>
        simp only
        split
        · exact ⟨hd, hr⟩
        · rename_i d' sigs _
          obtain ⟨new, i1, i2, _, i4⟩ := notifyAllR_aux w progs sigs s σ [] hd hr
          simp only [List.nil_append] at i1
          refine ⟨i2, ?_⟩
          show Refines _ ((calledOps progs (notifyAllR progs s sigs).2).foldl (specSubsStep r0) σ)
          have e2 : (notifyAllR progs s sigs).2 = new := i1
          rw [e2]
          exact i4

/-- the history as the registry saw it: each operation, followed by the registry calls of the handlers it reached -/
def flatOps (progs : Nat → List Act) : List Op → List Out → List Op
  | op :: ops, o :: os => op :: (outOps progs o ++ flatOps progs ops os)
  | _, _ => []

theorem runR_cons (progs : Nat → List Act) (s : St) (op : Op) (ops : List Op) :
    runR progs s (op :: ops) =
      ((runR progs (stepR progs s op).1 ops).1, (stepR progs s op).2 :: (runR progs (stepR progs s op).1 ops).2) := rfl

theorem runR_refines {r0 : Reg Nat} (w : r0.WF) (progs : Nat → List Act) (ops : List Op) {s : St}
    (hd : s.reg.decls = r0.decls) {σ : Table} (hr : Refines s σ) :
    (runR progs s ops).1.reg.decls = r0.decls ∧
    Refines (runR progs s ops).1 ((flatOps progs ops (runR progs s ops).2).foldl (specSubsStep r0) σ) := by
  induction ops generalizing s σ with
  | nil => exact ⟨hd, hr⟩
  | cons op ops ih =>
    obtain ⟨h1, h2⟩ := stepR_refines w hd hr progs op
    rw [runR_cons]
    simp only [flatOps, List.foldl_cons, List.foldl_append]
    exact ih h1 h2

end Mesa.Signals
