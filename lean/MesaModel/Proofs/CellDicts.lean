import MesaModel.Proofs.CellSymm
import MesaModel.Proofs.CellEdit
/-!
Helper lemmas for C07: `Cell.connections` as the model builds it is a dict — no key occurs twice — for every
grid, `Network` and `VoronoiGrid`; `connect` / `disconnect` keep it one.  Core Lean only.
-/
namespace Mesa.Cells

theorem keys_filterMap_sublist {γ κ β : Type} (l : List γ) (key : γ → κ) (g : γ → Option β) :
    ((l.filterMap fun x => (g x).map fun n => (key x, n)).map (·.1)).Sublist (l.map key) := by
  induction l with
  | nil => simp
  | cons x l ih =>
    simp only [List.filterMap_cons, List.map_cons]
    cases g x with
    | none => exact ih.cons _
    | some n => simp only [Option.map_some, List.map_cons]; exact ih.cons_cons _

/-! ### von Neumann offsets are pairwise different -/

theorem unitVec_inj (n : Nat) : ∀ (i j : Nat) (a b : Int), i < n → j < n → a ≠ 0 → b ≠ 0 →
    unitVec n i a = unitVec n j b → i = j ∧ a = b := by
  induction n with
  | zero => intro i j a b hi; omega
  | succ n ih =>
    intro i j a b hi hj ha hb h
    cases i with
    | zero =>
      cases j with
      | zero => rw [unitVec_zero, unitVec_zero] at h; simp at h; exact ⟨rfl, h⟩
      | succ j => rw [unitVec_zero, unitVec_succ] at h; simp at h; exact absurd h.1 ha
    | succ i =>
      cases j with
      | zero => rw [unitVec_succ, unitVec_zero] at h; simp at h; exact absurd h.1.symm hb
      | succ j =>
        rw [unitVec_succ, unitVec_succ] at h
        simp at h
        obtain ⟨h1, h2⟩ := ih i j a b (by omega) (by omega) ha hb h
        exact ⟨by omega, h2⟩

theorem vnOffsets_nodup (n : Nat) : (vnOffsets n).Nodup := by
  unfold vnOffsets List.Nodup
  rw [List.pairwise_flatMap]
  constructor
  · intro d hd
    have hd : d < n := List.mem_range.mp hd
    simp only [List.pairwise_cons, List.mem_singleton, forall_eq, List.not_mem_nil, false_imp_iff, implies_true,
      List.Pairwise.nil, and_true]
    intro h
    have := (unitVec_inj n d d (-1) 1 hd hd (by decide) (by decide) h).2
    exact absurd this (by decide)
  · refine List.Pairwise.imp_of_mem ?_ (List.pairwise_lt_range (n := n))
    intro a b ha hb hab x hx y hy hxy
    have ha : a < n := List.mem_range.mp ha
    have hb : b < n := List.mem_range.mp hb
    simp only [List.mem_cons, List.not_mem_nil, or_false] at hx hy
    subst hxy
    rcases hx with rfl | rfl <;> rcases hy with h | h
    all_goals
      have := (unitVec_inj n _ _ _ _ ha hb (by decide) (by decide) h).1
      omega

/-! ### the connection dicts of the model's spaces -/

theorem offsets2d_keys_nodup (k : GridKind) (j : Int) :
    ((offsets2d k j).map fun (p : Int × Int) => [p.1, p.2]).Nodup := by
  cases k with
  | moore => simp only [offsets2d]; decide
  | vn => simp only [offsets2d]; decide
  | hex =>
    simp only [offsets2d, hexTable]
    split <;> decide

theorem gridConn_keysNodup (k : GridKind) (dims : List Nat) (torus : Bool) (c : Coord) :
    KeysNodup (gridConn k dims torus c) := by
  unfold KeysNodup
  have nd : ∀ (ds : List Nat),
      (((offsetsNd k ds.length).filterMap fun d => (connectNd ds torus c d).map fun n => (d, n)).map (·.1)).Nodup := by
    intro ds
    have hs := keys_filterMap_sublist (offsetsNd k ds.length) (fun d => d) (fun d => connectNd ds torus c d)
    rw [List.map_id'] at hs
    refine hs.nodup ?_
    cases k with
    | moore => exact mooreOffsets_nodup _
    | vn => exact vnOffsets_nodup _
    | hex => simp [offsetsNd]
  match dims with
  | [] => exact nd []
  | [a] => exact nd [a]
  | a :: b :: e :: rest => exact nd (a :: b :: e :: rest)
  | [h, w] =>
    match c with
    | [i, j] =>
      simp only [gridConn]
      have hfun : (fun (x : Int × Int) =>
            match x with
            | (di, dj) => (connect2d h w torus i j di dj).map fun x => match x with | (ni, nj) => (([di, dj] : Key), ([ni, nj] : Coord)))
          = fun x => ((connect2d h w torus i j x.1 x.2).map fun p => ([p.1, p.2] : Coord)).map fun n => (([x.1, x.2] : Key), n) := by
        funext x
        obtain ⟨di, dj⟩ := x
        cases hcn : connect2d h w torus i j di dj with
        | none => simp [hcn]
        | some p => obtain ⟨ni, nj⟩ := p; simp [hcn]
      rw [hfun]
      exact (keys_filterMap_sublist (offsets2d k j) (fun x => ([x.1, x.2] : Key)) _).nodup (offsets2d_keys_nodup k j)
    | [] => simp [gridConn]
    | [_] => simp [gridConn]
    | _ :: _ :: _ :: _ => simp [gridConn]

theorem netConn_keysNodup (directed : Bool) (edges : List (Nat × Nat)) (c : Coord) :
    KeysNodup (netConn directed edges c) := by
  unfold KeysNodup netConn
  split
  · split
    · rw [List.map_map]
      refine List.Pairwise.map _ (fun a b hab => ?_) (netAdj_nodup directed edges _)
      intro h
      apply hab
      have h : (a : Int) = (b : Int) := by simpa using h
      exact Int.ofNat_inj.mp h
    · simp
  · simp

theorem vorConn_keysNodup (tris : List (Nat × Nat × Nat)) (c : Coord) : KeysNodup (vorConn tris c) := by
  unfold KeysNodup vorConn
  split
  · split
    · rw [List.map_map]
      refine List.Pairwise.map _ (fun a b hab => ?_) (nodup_dictUpdate List.nodup_nil)
      intro h
      apply hab
      have h : (a : Int) = (b : Int) := by simpa using h
      exact Int.ofNat_inj.mp h
    · simp
  · simp

theorem dictSet_mem_self {α β : Type} [DecidableEq α] (m : List (α × β)) (k : α) (v : β) : (k, v) ∈ dictSet m k v := by
  induction m with
  | nil => simp [dictSet]
  | cons p m ih =>
    obtain ⟨k0, v0⟩ := p
    simp only [dictSet]
    split
    · simp
    · exact List.mem_cons_of_mem _ ih

end Mesa.Cells
