import MesaModel.Model.VizCtrl
import MesaModel.Proofs.VizInputs
/-!
Helper lemmas for the controls of `SolaraViz` (`Model/VizCtrl.lean`): what the inner loop of `do_step` leaves
alone, how far it steps, the order "this model or a later one" on controller states, the invariants of the play loop.
-/
namespace Mesa.Viz

/-! ## the inner loop of `do_step` -/

/-- the parts of the state a `do_step` never touches -/
def Ctrl.sameSetup (c c' : Ctrl) : Prop :=
  c'.params = c.params ∧ c'.inputs = c.inputs ∧ c'.kwargs = c.kwargs ∧ c'.gen = c.gen ∧ c'.render = c.render ∧
  c'.threads = c.threads ∧ c'.updates = c.updates

theorem Ctrl.sameSetup_refl (c : Ctrl) : c.sameSetup c := ⟨rfl, rfl, rfl, rfl, rfl, rfl, rfl⟩

theorem Ctrl.sameSetup_trans {a b c : Ctrl} (h1 : a.sameSetup b) (h2 : b.sameSetup c) : a.sameSetup c := by
  obtain ⟨a1, a2, a3, a4, a5, a6, a7⟩ := h1
  obtain ⟨b1, b2, b3, b4, b5, b6, b7⟩ := h2
  exact ⟨b1.trans a1, b2.trans a2, b3.trans a3, b4.trans a4, b5.trans a5, b6.trans a6, b7.trans a7⟩

theorem clickPlay_getD_sameSetup (c : Ctrl) : c.sameSetup (c.clickPlay.getD c) := by
  unfold Ctrl.clickPlay
  split <;> exact ⟨rfl, rfl, rfl, rfl, rfl, rfl, rfl⟩

theorem clickPlay_getD_fields (c : Ctrl) :
    (c.clickPlay.getD c).steps = c.steps ∧ (c.clickPlay.getD c).mrunning = c.mrunning ∧
    (c.clickPlay.getD c).running = c.running := by
  unfold Ctrl.clickPlay
  split <;> exact ⟨rfl, rfl, rfl⟩

/-- one iteration of the loop: the model steps once, the flag follows the model -/
theorem stepOnce_spec (beh : Behaviour) (hook : Option Nat) (i : Nat) (c : Ctrl) :
    c.sameSetup (stepOnce beh hook i c) ∧ (stepOnce beh hook i c).steps = c.steps + 1 ∧
    (stepOnce beh hook i c).mrunning = beh c.kwargs (c.steps + 1) ∧
    (stepOnce beh hook i c).running = (stepOnce beh hook i c).mrunning := by
  unfold stepOnce
  simp only
  split
  · have h1 := clickPlay_getD_sameSetup (c.modelStep beh)
    have h2 := clickPlay_getD_fields (c.modelStep beh)
    obtain ⟨a1, a2, a3, a4, a5, a6, a7⟩ := h1
    exact ⟨⟨a1, a2, a3, a4, a5, a6, a7⟩, h2.1, h2.2.1, trivial⟩
  · exact ⟨⟨rfl, rfl, rfl, rfl, rfl, rfl, rfl⟩, rfl, rfl, trivial⟩

theorem stepLoop_spec (beh : Behaviour) (breakable : Bool) (hook : Option Nat) :
    ∀ (n i : Nat) (c : Ctrl),
      c.sameSetup (stepLoop beh breakable hook n i c) ∧ c.steps ≤ (stepLoop beh breakable hook n i c).steps ∧
      (stepLoop beh breakable hook n i c).steps ≤ c.steps + n ∧
      (c.running = c.mrunning → (stepLoop beh breakable hook n i c).running = (stepLoop beh breakable hook n i c).mrunning) ∧
      (0 < n → (stepLoop beh breakable hook n i c).running = (stepLoop beh breakable hook n i c).mrunning ∧
        (stepLoop beh breakable hook n i c).mrunning = beh c.kwargs (stepLoop beh breakable hook n i c).steps ∧
        c.steps < (stepLoop beh breakable hook n i c).steps)
  | 0, _, c => by
    simp only [stepLoop]
    exact ⟨c.sameSetup_refl, Nat.le_refl _, Nat.le_refl _, id, fun h => absurd h (Nat.lt_irrefl _)⟩
  | n + 1, i, c => by
    simp only [stepLoop]
    obtain ⟨hs, hst, hmr, hrun⟩ := stepOnce_spec beh hook i c
    generalize stepOnce beh hook i c = c3 at *
    split
    · refine ⟨hs, by omega, by omega, fun _ => hrun, fun _ => ⟨hrun, ?_, by omega⟩⟩
      rw [hmr, hst]
    · obtain ⟨i1, i2, i3, i4, i5⟩ := stepLoop_spec beh breakable hook n (i + 1) c3
      refine ⟨Ctrl.sameSetup_trans hs i1, by omega, by omega, fun _ => i4 hrun, fun _ => ?_⟩
      cases n with
      | zero =>
        simp only [stepLoop]
        exact ⟨hrun, by rw [hmr, hst], by omega⟩
      | succ m =>
        obtain ⟨j1, j2, j3⟩ := i5 (Nat.succ_pos m)
        rw [hs.2.2.1] at j2
        exact ⟨j1, j2, by omega⟩

/-- without a click during the steps and with `playing` as it is, the loop makes all its iterations -/
theorem stepLoop_all (beh : Behaviour) (breakable : Bool) :
    ∀ (n i : Nat) (c : Ctrl), (breakable = true → c.playing = true) →
      (stepLoop beh breakable none n i c).steps = c.steps + n ∧ (stepLoop beh breakable none n i c).playing = c.playing
  | 0, _, c, _ => by simp [stepLoop]
  | n + 1, i, c, hp => by
    simp only [stepLoop]
    have hpl : (stepOnce beh none i c).playing = c.playing := by simp [stepOnce, Ctrl.modelStep]
    have hst := (stepOnce_spec beh none i c).2.1
    have hcond : (breakable && !(stepOnce beh none i c).playing) = false := by
      cases breakable with
      | false => rfl
      | true => simp [hpl, hp rfl]
    rw [hcond]
    simp only [Bool.false_eq_true, if_false]
    have ih := stepLoop_all beh breakable n (i + 1) (stepOnce beh none i c) (by intro hb; rw [hpl]; exact hp hb)
    exact ⟨by rw [ih.1, hst]; omega, by rw [ih.2, hpl]⟩

/-! ## `do_step` -/

theorem doStep_spec (beh : Behaviour) (hook : Option Nat) (c : Ctrl) :
    let c' := doStep beh hook c
    c'.params = c.params ∧ c'.inputs = c.inputs ∧ c'.kwargs = c.kwargs ∧ c'.gen = c.gen ∧ c'.render = c.render ∧
    c'.threads = c.threads ∧ c.updates ≤ c'.updates ∧ c.steps ≤ c'.steps ∧ c'.steps ≤ c.steps + c.render ∧
    (c.running = c.mrunning → c'.running = c'.mrunning) := by
  simp only [doStep]
  split
  · have h := stepLoop_spec beh true hook c.render 1 c
    obtain ⟨⟨a1, a2, a3, a4, a5, a6, a7⟩, b, d, e, _⟩ := h
    split
    · exact ⟨a1, a2, a3, a4, a5, a6, by omega, b, d, e⟩
    · exact ⟨a1, a2, a3, a4, a5, a6, by simp only; omega, b, d, e⟩
  · have h := stepLoop_spec beh false hook c.render 1 c
    obtain ⟨⟨a1, a2, a3, a4, a5, a6, a7⟩, b, d, e, _⟩ := h
    exact ⟨a1, a2, a3, a4, a5, a6, by simp only; omega, b, d, e⟩

/-! ## "this model, not stepped back — or a later model" -/

/-- `c'` comes after `c`: a later model, or the same model with at least as many steps and the same arguments -/
def Ctrl.before (c c' : Ctrl) : Prop :=
  c.gen ≤ c'.gen ∧ (c'.gen = c.gen → c.steps ≤ c'.steps ∧ c'.kwargs = c.kwargs)

theorem Ctrl.before_refl (c : Ctrl) : c.before c := ⟨Nat.le_refl _, fun _ => ⟨Nat.le_refl _, rfl⟩⟩

theorem Ctrl.before_trans {a b c : Ctrl} (h1 : a.before b) (h2 : b.before c) : a.before c := by
  refine ⟨Nat.le_trans h1.1 h2.1, fun h => ?_⟩
  have hb : b.gen = a.gen := by have := h1.1; have := h2.1; omega
  have hc : c.gen = b.gen := by omega
  obtain ⟨s1, k1⟩ := h1.2 hb
  obtain ⟨s2, k2⟩ := h2.2 hc
  exact ⟨Nat.le_trans s1 s2, k2.trans k1⟩

theorem doStep_before (beh : Behaviour) (hook : Option Nat) (c : Ctrl) : c.before (doStep beh hook c) := by
  have h := doStep_spec beh hook c
  simp only at h
  exact ⟨Nat.le_of_eq h.2.2.2.1.symm, fun _ => ⟨h.2.2.2.2.2.2.2.1, h.2.2.1⟩⟩

theorem clickPlay_before (c c' : Ctrl) (h : c.clickPlay = some c') : c.before c' := by
  unfold Ctrl.clickPlay at h
  split at h
  · injection h with h; subst h; exact ⟨Nat.le_refl _, fun _ => ⟨Nat.le_refl _, rfl⟩⟩
  · exact absurd h (by simp)

theorem change_before (c c' : Ctrl) (name : String) (v : Val) (h : c.change name v = some c') : c.before c' := by
  unfold Ctrl.change at h
  split at h
  · injection h with h; subst h; exact ⟨Nat.le_refl _, fun _ => ⟨Nat.le_refl _, rfl⟩⟩
  · exact absurd h (by simp)

theorem doReset_before (beh : Behaviour) (c : Ctrl) : c.before (doReset beh c) :=
  ⟨Nat.le_succ _, fun h => absurd h (by simp [doReset])⟩

theorem applyEv_before (beh : Behaviour) (c : Ctrl) (ev : Ev) : c.before (applyEv beh c ev) := by
  cases ev with
  | idle => exact c.before_refl
  | pause =>
    simp only [applyEv]
    cases h : c.clickPlay with
    | none => exact c.before_refl
    | some c' => exact clickPlay_before c c' h
  | reset => exact doReset_before beh c
  | render n => exact ⟨Nat.le_refl _, fun _ => ⟨Nat.le_refl _, rfl⟩⟩
  | set name v =>
    simp only [applyEv]
    cases h : c.change name v with
    | none => exact c.before_refl
    | some c' => exact change_before c c' name v h

theorem playLoop_before (beh : Behaviour) : ∀ (evs : List (Ev × Option Nat)) (c : Ctrl), c.before (playLoop beh evs c)
  | [], c => by
    simp only [playLoop]
    split
    · exact Ctrl.before_trans (applyEv_before beh c .pause) (doStep_before beh none _)
    · exact c.before_refl
  | (ev, hook) :: rest, c => by
    simp only [playLoop]
    split
    · exact Ctrl.before_trans (Ctrl.before_trans (applyEv_before beh c ev) (doStep_before beh hook _)) (playLoop_before beh rest _)
    · exact c.before_refl

theorem apply_before (beh : Behaviour) (c c' : Ctrl) (op : CtrlOp) (h : c.apply beh op = some c') : c.before c' := by
  cases op with
  | step =>
    simp only [Ctrl.apply] at h
    split at h
    · exact absurd h (by simp)
    · injection h with h; subst h; exact doStep_before beh none c
  | play => exact clickPlay_before c c' h
  | reset => simp only [Ctrl.apply] at h; injection h with h; subst h; exact doReset_before beh c
  | render n => simp only [Ctrl.apply] at h; injection h with h; subst h; exact ⟨Nat.le_refl _, fun _ => ⟨Nat.le_refl _, rfl⟩⟩
  | threads b =>
    simp only [Ctrl.apply] at h
    split at h <;> (injection h with h; subst h; exact ⟨Nat.le_refl _, fun _ => ⟨Nat.le_refl _, rfl⟩⟩)
  | change name v => exact change_before c c' name v h
  | loop evs => simp only [Ctrl.apply] at h; injection h with h; subst h; exact playLoop_before beh evs c

theorem run_before (beh : Behaviour) : ∀ (ops : List CtrlOp) (c : Ctrl), c.before (c.run beh ops)
  | [], c => c.before_refl
  | op :: ops, c => by
    simp only [Ctrl.run]
    cases h : c.apply beh op with
    | none => exact run_before beh ops c
    | some c' => exact Ctrl.before_trans (apply_before beh c c' op h) (run_before beh ops c')

/-! ## the parameter set: its names never change; a model is created with the set as it then is -/

/-- the names of the parameter set are `names`, every input is one of them, and a model created by a reset got them all -/
def Ctrl.paramsInv (names : List String) (c : Ctrl) : Prop :=
  c.params.map (·.1) = names ∧ (∀ n ∈ c.inputs, n ∈ names) ∧ (0 < c.gen → c.kwargs.map (·.1) = names)

theorem change_paramsInv (names : List String) (c c' : Ctrl) (name : String) (v : Val)
    (hi : c.paramsInv names) (h : c.change name v = some c') : c'.paramsInv names := by
  unfold Ctrl.change at h
  split at h
  · rename_i hc
    injection h with h; subst h
    have hmem : name ∈ c.params.map (·.1) := by rw [hi.1]; exact hi.2.1 name (by simpa using hc)
    exact ⟨(onChange_keys c.params name v hmem).trans hi.1, hi.2.1, hi.2.2⟩
  · exact absurd h (by simp)

theorem doStep_paramsInv (beh : Behaviour) (hook : Option Nat) (names : List String) (c : Ctrl) (hi : c.paramsInv names) :
    (doStep beh hook c).paramsInv names := by
  have h := doStep_spec beh hook c
  simp only at h
  obtain ⟨a1, a2, a3, a4, _⟩ := h
  exact ⟨a1 ▸ hi.1, a2 ▸ hi.2.1, fun hg => a3 ▸ hi.2.2 (a4 ▸ hg)⟩

theorem clickPlay_paramsInv (names : List String) (c c' : Ctrl) (hi : c.paramsInv names) (h : c.clickPlay = some c') :
    c'.paramsInv names := by
  unfold Ctrl.clickPlay at h
  split at h
  · injection h with h; subst h; exact hi
  · exact absurd h (by simp)

theorem doReset_paramsInv (beh : Behaviour) (names : List String) (c : Ctrl) (hi : c.paramsInv names) : (doReset beh c).paramsInv names :=
  ⟨hi.1, hi.2.1, fun _ => hi.1⟩

theorem applyEv_paramsInv (beh : Behaviour) (names : List String) (c : Ctrl) (ev : Ev) (hi : c.paramsInv names) :
    (applyEv beh c ev).paramsInv names := by
  cases ev with
  | idle => exact hi
  | pause =>
    simp only [applyEv]
    cases h : c.clickPlay with
    | none => exact hi
    | some c' => exact clickPlay_paramsInv names c c' hi h
  | reset => exact doReset_paramsInv beh names c hi
  | render n => exact hi
  | set name v =>
    simp only [applyEv]
    cases h : c.change name v with
    | none => exact hi
    | some c' => exact change_paramsInv names c c' name v hi h

theorem playLoop_paramsInv (beh : Behaviour) (names : List String) :
    ∀ (evs : List (Ev × Option Nat)) (c : Ctrl), c.paramsInv names → (playLoop beh evs c).paramsInv names
  | [], c, hi => by
    simp only [playLoop]
    split
    · exact doStep_paramsInv beh none names _ (applyEv_paramsInv beh names c .pause hi)
    · exact hi
  | (ev, hook) :: rest, c, hi => by
    simp only [playLoop]
    split
    · exact playLoop_paramsInv beh names rest _ (doStep_paramsInv beh hook names _ (applyEv_paramsInv beh names c ev hi))
    · exact hi

theorem apply_paramsInv (beh : Behaviour) (names : List String) (c c' : Ctrl) (op : CtrlOp) (hi : c.paramsInv names)
    (h : c.apply beh op = some c') : c'.paramsInv names := by
  cases op with
  | step =>
    simp only [Ctrl.apply] at h
    split at h
    · exact absurd h (by simp)
    · injection h with h; subst h; exact doStep_paramsInv beh none names c hi
  | play => exact clickPlay_paramsInv names c c' hi h
  | reset => simp only [Ctrl.apply] at h; injection h with h; subst h; exact doReset_paramsInv beh names c hi
  | render n => simp only [Ctrl.apply] at h; injection h with h; subst h; exact hi
  | threads b =>
    simp only [Ctrl.apply] at h
    split at h <;> (injection h with h; subst h; exact hi)
  | change name v => exact change_paramsInv names c c' name v hi h
  | loop evs => simp only [Ctrl.apply] at h; injection h with h; subst h; exact playLoop_paramsInv beh names evs c hi

theorem run_paramsInv (beh : Behaviour) (names : List String) :
    ∀ (ops : List CtrlOp) (c : Ctrl), c.paramsInv names → (c.run beh ops).paramsInv names
  | [], _, hi => hi
  | op :: ops, c, hi => by
    simp only [Ctrl.run]
    cases h : c.apply beh op with
    | none => exact run_paramsInv beh names ops c hi
    | some c' => exact run_paramsInv beh names ops c' (apply_paramsInv beh names c c' op hi h)

/-! ## the flag `running` is the model's, as long as the threads checkbox is left alone — except right after a reset -/

def CtrlOp.isThreads : CtrlOp → Bool
  | .threads _ => true
  | _ => false

/-- `mrunning` is what the model class says of this model after this many steps; the flag the buttons are drawn from is
    the model's — or the model has not been stepped yet and the flag is on (a reset, like the first render, sets the flag
    without looking at the model) -/
def Ctrl.flagInv (beh : Behaviour) (c : Ctrl) : Prop :=
  c.mrunning = beh c.kwargs c.steps ∧ (c.running = c.mrunning ∨ (c.steps = 0 ∧ c.running = true))

theorem stepLoop_flagInv (beh : Behaviour) (breakable : Bool) (hook : Option Nat) (n i : Nat) (c : Ctrl)
    (h : c.flagInv beh) : (stepLoop beh breakable hook n i c).flagInv beh := by
  cases n with
  | zero => simpa [stepLoop] using h
  | succ m =>
    obtain ⟨hs, _, _, _, h5⟩ := stepLoop_spec beh breakable hook (m + 1) i c
    obtain ⟨j1, j2, _⟩ := h5 (Nat.succ_pos m)
    exact ⟨by rw [j2, hs.2.2.1], Or.inl j1⟩

theorem doStep_flagInv (beh : Behaviour) (hook : Option Nat) (c : Ctrl) (h : c.flagInv beh) :
    (doStep beh hook c).flagInv beh := by
  simp only [doStep]
  split
  · split
    · exact stepLoop_flagInv beh true hook c.render 1 c h
    · exact stepLoop_flagInv beh true hook c.render 1 c h
  · exact stepLoop_flagInv beh false hook c.render 1 c h

theorem doReset_flagInv (beh : Behaviour) (c : Ctrl) : (doReset beh c).flagInv beh :=
  ⟨rfl, Or.inr ⟨rfl, rfl⟩⟩

theorem clickPlay_getD_flagInv (beh : Behaviour) (c : Ctrl) (h : c.flagInv beh) : (c.clickPlay.getD c).flagInv beh := by
  unfold Ctrl.clickPlay
  split <;> exact h

theorem applyEv_flagInv (beh : Behaviour) (c : Ctrl) (ev : Ev) (h : c.flagInv beh) : (applyEv beh c ev).flagInv beh := by
  cases ev with
  | idle => exact h
  | pause => exact clickPlay_getD_flagInv beh c h
  | reset => exact doReset_flagInv beh c
  | render n => exact h
  | set name v =>
    simp only [applyEv, Ctrl.change]
    split <;> exact h

theorem playLoop_flagInv (beh : Behaviour) : ∀ (evs : List (Ev × Option Nat)) (c : Ctrl), c.flagInv beh →
    (playLoop beh evs c).flagInv beh
  | [], c, h => by
    simp only [playLoop]
    split
    · exact doStep_flagInv beh none _ (applyEv_flagInv beh c .pause h)
    · exact h
  | (ev, hook) :: rest, c, h => by
    simp only [playLoop]
    split
    · exact playLoop_flagInv beh rest _ (doStep_flagInv beh hook _ (applyEv_flagInv beh c ev h))
    · exact h

theorem apply_flagInv (beh : Behaviour) (c c' : Ctrl) (op : CtrlOp) (hop : op.isThreads = false) (hf : c.flagInv beh)
    (h : c.apply beh op = some c') : c'.flagInv beh := by
  cases op with
  | step =>
    simp only [Ctrl.apply] at h
    split at h
    · exact absurd h (by simp)
    · injection h with h; subst h; exact doStep_flagInv beh none c hf
  | play =>
    simp only [Ctrl.apply, Ctrl.clickPlay] at h
    split at h
    · injection h with h; subst h; exact hf
    · exact absurd h (by simp)
  | reset => simp only [Ctrl.apply] at h; injection h with h; subst h; exact doReset_flagInv beh c
  | render n => simp only [Ctrl.apply] at h; injection h with h; subst h; exact hf
  | threads b => simp [CtrlOp.isThreads] at hop
  | change name v =>
    simp only [Ctrl.apply, Ctrl.change] at h
    split at h
    · injection h with h; subst h; exact hf
    · exact absurd h (by simp)
  | loop evs => simp only [Ctrl.apply] at h; injection h with h; subst h; exact playLoop_flagInv beh evs c hf

theorem run_flagInv (beh : Behaviour) : ∀ (ops : List CtrlOp) (c : Ctrl), (∀ op ∈ ops, op.isThreads = false) →
    c.flagInv beh → (c.run beh ops).flagInv beh
  | [], _, _, hf => hf
  | op :: ops, c, hops, hf => by
    simp only [Ctrl.run]
    have hrest : ∀ o ∈ ops, o.isThreads = false := fun o ho => hops o (List.mem_cons_of_mem _ ho)
    cases h : c.apply beh op with
    | none => exact run_flagInv beh ops c hrest hf
    | some c' => exact run_flagInv beh ops c' hrest (apply_flagInv beh c c' op (hops op List.mem_cons_self) hf h)

/-- the controller's own setting (which controller it is) never changes -/
theorem run_sim (beh : Behaviour) : ∀ (ops : List CtrlOp) (c : Ctrl), (c.run beh ops).sim = c.sim := by
  have hclick : ∀ c c' : Ctrl, c.clickPlay = some c' → c'.sim = c.sim := by
    intro c c' h
    unfold Ctrl.clickPlay at h
    split at h
    · injection h with h; subst h; rfl
    · exact absurd h (by simp)
  have hchange : ∀ (c c' : Ctrl) n v, c.change n v = some c' → c'.sim = c.sim := by
    intro c c' n v h
    unfold Ctrl.change at h
    split at h
    · injection h with h; subst h; rfl
    · exact absurd h (by simp)
  have hstepOnce : ∀ hook i (c : Ctrl), (stepOnce beh hook i c).sim = c.sim := by
    intro hook i c
    have hgetD : ∀ c : Ctrl, (c.clickPlay.getD c).sim = c.sim := by
      intro c
      unfold Ctrl.clickPlay
      split <;> rfl
    simp only [stepOnce]
    split
    · exact hgetD (c.modelStep beh)
    · rfl
  have hstepLoop : ∀ br hook n i (c : Ctrl), (stepLoop beh br hook n i c).sim = c.sim := by
    intro br hook n
    induction n with
    | zero => intro i c; rfl
    | succ n ih =>
      intro i c
      simp only [stepLoop]
      split
      · exact hstepOnce hook i c
      · exact (ih (i + 1) _).trans (hstepOnce hook i c)
  have hdoStep : ∀ hook (c : Ctrl), (doStep beh hook c).sim = c.sim := by
    intro hook c
    simp only [doStep]
    split
    · split <;> exact hstepLoop true hook c.render 1 c
    · exact hstepLoop false hook c.render 1 c
  have hev : ∀ (c : Ctrl) ev, (applyEv beh c ev).sim = c.sim := by
    intro c ev
    cases ev with
    | idle => rfl
    | pause =>
      simp only [applyEv]
      cases h : c.clickPlay with
      | none => rfl
      | some c' => exact hclick c c' h
    | reset => rfl
    | render n => rfl
    | set name v =>
      simp only [applyEv]
      cases h : c.change name v with
      | none => rfl
      | some c' => exact hchange c c' name v h
  have hloop : ∀ evs (c : Ctrl), (playLoop beh evs c).sim = c.sim := by
    intro evs
    induction evs with
    | nil =>
      intro c
      simp only [playLoop]
      split
      · exact (hdoStep none _).trans (hev c .pause)
      · rfl
    | cons e rest ih =>
      intro c
      obtain ⟨ev, hook⟩ := e
      simp only [playLoop]
      split
      · exact (ih _).trans ((hdoStep hook _).trans (hev c ev))
      · rfl
  have happly : ∀ (c c' : Ctrl) op, c.apply beh op = some c' → c'.sim = c.sim := by
    intro c c' op h
    cases op with
    | step =>
      simp only [Ctrl.apply] at h
      split at h
      · exact absurd h (by simp)
      · injection h with h; subst h; exact hdoStep none c
    | play => exact hclick c c' h
    | reset => simp only [Ctrl.apply] at h; injection h with h; subst h; rfl
    | render n => simp only [Ctrl.apply] at h; injection h with h; subst h; rfl
    | threads b =>
      simp only [Ctrl.apply] at h
      split at h <;> (injection h with h; subst h; rfl)
    | change name v => exact hchange c c' name v h
    | loop evs => simp only [Ctrl.apply] at h; injection h with h; subst h; exact hloop evs c
  intro ops
  induction ops with
  | nil => intro c; rfl
  | cons op ops ih =>
    intro c
    simp only [Ctrl.run]
    cases h : c.apply beh op with
    | none => exact ih c
    | some c' => exact (ih c').trans (happly c c' op h)

/-! ## the play loop on a model that stops; a pause during a step -/

theorem playLoop_not_running (beh : Behaviour) (evs : List (Ev × Option Nat)) (c : Ctrl) (h : (c.running && c.playing) = false) :
    playLoop beh evs c = c := by
  cases evs with
  | nil => simp [playLoop, h]
  | cons e rest => obtain ⟨ev, hook⟩ := e; simp [playLoop, h]

/-- one undisturbed tick while playing: `render` steps, the flag read off the model, one update unless threads are on -/
theorem doStep_playing_tick (beh : Behaviour) (c : Ctrl) (hp : c.playing = true) (hr : 0 < c.render) :
    (doStep beh none c).steps = c.steps + c.render ∧ (doStep beh none c).playing = true ∧
    (doStep beh none c).running = beh c.kwargs (c.steps + c.render) ∧
    (doStep beh none c).mrunning = beh c.kwargs (c.steps + c.render) ∧
    (doStep beh none c).kwargs = c.kwargs ∧ (doStep beh none c).render = c.render ∧ (doStep beh none c).gen = c.gen ∧
    (doStep beh none c).threads = c.threads ∧
    (doStep beh none c).updates = (if c.threads then c.updates else c.updates + 1) := by
  obtain ⟨⟨_, _, a3, a4, a5, a6, a7⟩, _, _, _, e5⟩ := stepLoop_spec beh true none c.render 1 c
  obtain ⟨f1, f2, _⟩ := e5 hr
  obtain ⟨g1, g2⟩ := stepLoop_all beh true c.render 1 c (fun _ => hp)
  rw [g1] at f2
  simp only [doStep, hp, if_true]
  split
  · rename_i ht
    rw [a6] at ht
    refine ⟨g1, g2.trans hp, f1.trans f2, f2, a3, a5, a4, a6, ?_⟩
    rw [a7]; simp [ht]
  · rename_i ht
    rw [a6] at ht
    refine ⟨g1, g2.trans hp, f1.trans f2, f2, a3, a5, a4, a6, ?_⟩
    simp only [a7]; simp [ht]

theorem playLoop_idle_run (beh : Behaviour) (S : Nat) :
    ∀ (k n : Nat) (c : Ctrl), (∀ j, beh c.kwargs j = decide (j < S)) → c.playing = true → c.running = true →
      k + 1 ≤ n → c.steps + c.render * k < S → S ≤ c.steps + c.render * (k + 1) →
      let c' := playLoop beh (List.replicate n (Ev.idle, none)) c
      c'.steps = c.steps + c.render * (k + 1) ∧ c'.running = false ∧ c'.mrunning = false ∧ c'.playing = true ∧
      c'.gen = c.gen ∧ c'.kwargs = c.kwargs ∧ c'.updates = (if c.threads then c.updates else c.updates + (k + 1))
  | k, 0, _, _, _, _, hn, _, _ => absurd hn (by omega)
  | k, n + 1, c, hbeh, hp, hr, hn, hlo, hhi => by
    have hr0 : 0 < c.render := by
      cases hc : c.render with
      | zero => rw [hc] at hlo hhi; simp at hlo hhi; omega
      | succ r => omega
    obtain ⟨t1, t2, t3, t4, t5, t6, t7, t8, t9⟩ := doStep_playing_tick beh c hp hr0
    simp only [List.replicate_succ, playLoop, hp, hr, Bool.and_self, if_true, applyEv]
    cases k with
    | zero =>
      have hstop : (doStep beh none c).running = false := by
        rw [t3, hbeh]; simp at hhi ⊢; omega
      rw [playLoop_not_running beh _ _ (by simp [hstop])]
      refine ⟨by rw [t1]; simp, hstop, ?_, t2, t7, t5, ?_⟩
      · rw [t4, ← t3]; exact hstop
      · rw [t9]
    | succ k =>
      have hm1 : c.render * (k + 1) = c.render * k + c.render := Nat.mul_succ _ _
      have hm2 : c.render * (k + 1 + 1) = c.render * (k + 1) + c.render := Nat.mul_succ _ _
      have hgo : (doStep beh none c).running = true := by
        rw [t3, hbeh]
        have : 0 ≤ c.render * k := Nat.zero_le _
        simp; omega
      have ih := playLoop_idle_run beh S k n (doStep beh none c) (by rw [t5]; exact hbeh) t2 hgo (by omega)
        (by rw [t1, t6]; omega) (by rw [t1, t6]; omega)
      simp only at ih
      obtain ⟨i1, i2, i3, i4, i5, i6, i7⟩ := ih
      refine ⟨by rw [i1, t1, t6]; omega, i2, i3, i4, i5.trans t7, i6.trans t5, ?_⟩
      rw [i7, t8, t9]
      cases c.threads with
      | true => rfl
      | false => simp only [Bool.false_eq_true, if_false]; omega

/-- a click on ❚❚ during the `j`-th step of a tick: the tick ends after that step -/
theorem stepLoop_hook (beh : Behaviour) (j : Nat) :
    ∀ (d n i : Nat) (c : Ctrl), i + d = j → c.playing = true → c.running = true → d < n →
      (∀ k, 1 ≤ k → k ≤ d → beh c.kwargs (c.steps + k) = true) →
      (stepLoop beh true (some j) n i c).steps = c.steps + d + 1 ∧ (stepLoop beh true (some j) n i c).playing = false
  | _, 0, _, _, _, _, _, hn, _ => absurd hn (by omega)
  | 0, n + 1, i, c, hij, hp, hr, _, _ => by
    have hi : i = j := by omega
    subst hi
    have h3 : (stepOnce beh (some i) i c).playing = false ∧ (stepOnce beh (some i) i c).steps = c.steps + 1 := by
      simp [stepOnce, Ctrl.modelStep, Ctrl.clickPlay, hr, hp]
    simp only [stepLoop, h3.1, Bool.not_false, Bool.and_self, if_true]
    exact ⟨by rw [h3.2], trivial⟩
  | d + 1, n + 1, i, c, hij, hp, hr, hn, hb => by
    have hne : ¬ (some j = some i) := by intro h; injection h with h; omega
    have h3 : (stepOnce beh (some j) i c).playing = true ∧ (stepOnce beh (some j) i c).steps = c.steps + 1 ∧
        (stepOnce beh (some j) i c).running = beh c.kwargs (c.steps + 1) ∧ (stepOnce beh (some j) i c).kwargs = c.kwargs := by
      simp [stepOnce, Ctrl.modelStep, hne, hp]
    obtain ⟨p3, s3, r3, k3⟩ := h3
    simp only [stepLoop, p3, Bool.not_true, Bool.and_false, Bool.false_eq_true, if_false]
    have ih := stepLoop_hook beh j d n (i + 1) (stepOnce beh (some j) i c) (by omega) p3
      (by rw [r3]; exact hb 1 (Nat.le_refl _) (by omega)) (by omega)
      (by intro k h1 h2; rw [k3, s3]; have := hb (k + 1) (by omega) (by omega); rwa [Nat.add_assoc, Nat.add_comm 1 k])
    exact ⟨by rw [ih.1, s3]; omega, ih.2⟩

/-! ## the arguments of the model a reset creates: the parameter set with the values last reported -/

theorem lookup_map_replace (v : Val) (n name : String) : ∀ (p : Params),
    (p.map fun kv => if kv.1 == n then (n, some v) else kv).lookup name =
      if name = n then (p.lookup n).map (fun _ => some v) else p.lookup name
  | [] => by simp [List.lookup]
  | kv :: rest => by
    have ih := lookup_map_replace v n name rest
    obtain ⟨k, x⟩ := kv
    by_cases hk : k = n
    · subst hk
      by_cases hn : name = k
      · subst hn; simp
      · have h1 : (name == k) = false := by simpa using hn
        simp only [List.map_cons, beq_self_eq_true, if_true, List.lookup_cons, h1, hn, if_false]
        rw [ih, if_neg hn]
    · have hk' : (k == n) = false := by simpa using hk
      by_cases hn : name = n
      · subst hn
        have h1 : (name == k) = false := by simpa using (Ne.symm hk)
        simp only [List.map_cons, hk', Bool.false_eq_true, if_false, List.lookup_cons, h1, if_true]
        rw [ih, if_pos rfl]
      · simp only [List.map_cons, hk', Bool.false_eq_true, if_false, List.lookup_cons, hn]
        rw [ih, if_neg hn]

theorem lookup_isSome_of_mem (n : String) : ∀ (p : Params), n ∈ p.map (·.1) → ∃ x, p.lookup n = some x
  | [], h => by simp at h
  | (k, x) :: rest, h => by
    simp only [List.lookup_cons]
    by_cases hk : n = k
    · subst hk; exact ⟨x, by simp⟩
    · have : (n == k) = false := by simpa using hk
      simp only [this]
      simp only [List.map_cons, List.mem_cons] at h
      rcases h with h | h
      · exact absurd h hk
      · exact lookup_isSome_of_mem n rest h

theorem lookup_onChange (p : Params) (n : String) (v : Val) (h : n ∈ p.map (·.1)) (name : String) :
    (onChange p n v).lookup name = if name = n then some (some v) else p.lookup name := by
  unfold onChange
  have hany : p.any (·.1 == n) = true := by
    rw [List.any_eq_true]
    obtain ⟨kv, hm, he⟩ := List.mem_map.mp h
    exact ⟨kv, hm, by simp [he]⟩
  rw [if_pos hany, lookup_map_replace]
  obtain ⟨x, hx⟩ := lookup_isSome_of_mem n p h
  rw [hx]; rfl

/-- what the last of the `changes` that names `name` reported, if any does -/
def lastChange (changes : List (String × Val)) (name : String) : Option Val :=
  (changes.reverse.find? (·.1 == name)).map (·.2)

theorem lastChange_cons (ch : String × Val) (rest : List (String × Val)) (name : String) :
    lastChange (ch :: rest) name = match lastChange rest name with
      | some v => some v
      | none => if ch.1 == name then some ch.2 else none := by
  unfold lastChange
  rw [List.reverse_cons, List.find?_append]
  cases h : rest.reverse.find? (·.1 == name) with
  | some x => simp
  | none =>
    simp only [Option.none_or, Option.map_none, List.find?_cons, List.find?_nil]
    split <;> simp_all

theorem run_changes_reset (beh : Behaviour) (names : List String) :
    ∀ (changes : List (String × Val)) (c : Ctrl), c.paramsInv names → (∀ ch ∈ changes, ch.1 ∈ c.inputs) →
      let c' := c.run beh (changes.map (fun ch => CtrlOp.change ch.1 ch.2) ++ [.reset])
      c'.gen = c.gen + 1 ∧ c'.steps = 0 ∧ c'.playing = false ∧ c'.running = true ∧ c'.mrunning = beh c'.kwargs 0 ∧
      c'.kwargs.map (·.1) = names ∧
      ∀ name, c'.kwargs.lookup name = match lastChange changes name with
        | some v => some (some v)
        | none => c.params.lookup name
  | [], c, hi, _ => by
    simp only [List.map_nil, List.nil_append, Ctrl.run, Ctrl.apply, Option.getD_some, doReset]
    refine ⟨trivial, trivial, trivial, trivial, trivial, hi.1, fun name => ?_⟩
    simp [lastChange]
  | ch :: rest, c, hi, hin => by
    have hmem : ch.1 ∈ c.inputs := hin ch List.mem_cons_self
    have happ : c.apply beh (.change ch.1 ch.2) = some { c with params := onChange c.params ch.1 ch.2 } := by
      simp [Ctrl.apply, Ctrl.change, hmem]
    have hi' := apply_paramsInv beh names c _ _ hi happ
    have ih := run_changes_reset beh names rest { c with params := onChange c.params ch.1 ch.2 } hi'
      (fun x hx => hin x (List.mem_cons_of_mem _ hx))
    simp only [List.map_cons, List.cons_append, Ctrl.run, happ, Option.getD_some]
    simp only at ih
    obtain ⟨i1, i2, i3, i4, i5, i6, i7⟩ := ih
    refine ⟨i1, i2, i3, i4, i5, i6, fun name => ?_⟩
    rw [i7 name, lastChange_cons]
    cases lastChange rest name with
    | some v => rfl
    | none =>
      have hpm : ch.1 ∈ c.params.map (·.1) := by rw [hi.1]; exact hi.2.1 _ hmem
      simp only [lookup_onChange c.params ch.1 ch.2 hpm name]
      by_cases hn : name = ch.1
      · subst hn; simp
      · have : (ch.1 == name) = false := by simpa using (Ne.symm hn)
        simp [hn, this]

end Mesa.Viz
