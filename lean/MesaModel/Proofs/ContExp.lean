import MesaModel.Proofs.ContLegacy
/-! Helper lemmas for the experimental `ContinuousSpace` model (growth, compaction, queries). -/
namespace Mesa.Cont

/-- the index map and the agent list describe the same bijection between the agents in the space
    and the rows `0 … n-1`, and the rows exist -/
structure EInv (s : ESpace) : Prop where
  len : s.n = s.active.length
  cap : s.n ≤ s.cap
  idx : ∀ a i, s.a2i a = some i ↔ s.active[i]? = some a
  gone : ∀ a, s.gone a = true → s.a2i a = none

theorem einv_init (c : ECfg) (cap : Nat) : EInv (einit c cap) :=
  ⟨rfl, Nat.zero_le _, by simp [einit], by simp [einit]⟩

/-- an agent that has a row has not been removed -/
theorem EInv.not_gone {s : ESpace} (h : EInv s) {a : Aid} {i : Nat} (hi : s.a2i a = some i) :
    s.gone a = false := by
  cases hg : s.gone a with
  | false => rfl
  | true => rw [h.gone a hg] at hi; cases hi

theorem EInv.view {s : ESpace} (h : EInv s) : s.view = s.n := by
  unfold ESpace.view; have := h.cap; omega

theorem EInv.lt {s : ESpace} (h : EInv s) {a : Aid} {i : Nat} (hi : s.a2i a = some i) : i < s.n := by
  rw [h.len]; exact (List.getElem?_eq_some_iff.mp ((h.idx a i).mp hi)).1

theorem EInv.nodup {s : ESpace} (h : EInv s) : s.active.Nodup := by
  rw [List.Nodup, List.pairwise_iff_getElem]
  intro i j hi hj hij heq
  have h1 : s.a2i s.active[i] = some i := (h.idx _ _).mpr (by simp [hi])
  have h2 : s.a2i s.active[i] = some j := (h.idx _ _).mpr (by rw [heq]; simp [hj])
  rw [h1] at h2; simp at h2; omega

theorem EInv.mem_iff {s : ESpace} (h : EInv s) (a : Aid) : a ∈ s.active ↔ ∃ i, s.a2i a = some i := by
  rw [List.mem_iff_getElem?]
  constructor
  · rintro ⟨i, hi⟩; exact ⟨i, (h.idx a i).mpr hi⟩
  · rintro ⟨i, hi⟩; exact ⟨i, (h.idx a i).mp hi⟩

theorem EInv.not_mem_iff {s : ESpace} (h : EInv s) (a : Aid) : a ∉ s.active ↔ s.a2i a = none := by
  rw [h.mem_iff]
  cases s.a2i a <;> simp

theorem EInv.inj {s : ESpace} (h : EInv s) {a b : Aid} {i : Nat} (ha : s.a2i a = some i)
    (hb : s.a2i b = some i) : a = b := by
  have h1 := (h.idx a i).mp ha
  have h2 := (h.idx b i).mp hb
  rw [h1] at h2; simpa using h2

theorem getPos_of_idx {s : ESpace} (h : EInv s) {a : Aid} {i : Nat} (hi : s.a2i a = some i) :
    getPos s a = .ok (s.buf i) := by
  simp [getPos, hi, h.view, h.lt hi]

theorem getPos_of_not_mem {s : ESpace} (h : EInv s) {a : Aid} (ha : a ∉ s.active) :
    getPos s a = .error .key := by
  simp [getPos, (h.not_mem_iff a).mp ha]

/-! ### `_add_agent` (growth) -/

theorem einv_add {s : ESpace} (h : EInv s) {a : Aid} (hf : s.a2i a = none) (hg : s.gone a = false) :
    EInv (addAgent s a) := by
  refine ⟨by simp [addAgent, h.len], ?_, ?_, ?_⟩
  rotate_left 2
  · intro b hb
    simp only [addAgent] at hb ⊢
    by_cases hba : b = a
    · subst hba; rw [hg] at hb; cases hb
    · simp only [upd, hba, if_false]; exact h.gone b hb
  · have := h.cap; have := growBy_pos (s.n + 1)
    simp only [addAgent]; split <;> omega
  · intro b i
    simp only [addAgent, upd, List.getElem?_append]
    by_cases hba : b = a
    · subst hba
      simp only [if_true]
      by_cases hi : i < s.active.length
      · simp only [hi, if_true]
        constructor
        · intro e; have : s.n = i := by simpa using e
          rw [h.len] at this; omega
        · intro e; rw [(h.idx b i).mpr e] at hf; cases hf
      · simp only [hi, if_false]
        rw [h.len]
        constructor
        · intro e; have : s.active.length = i := by simpa using e
          simp [← this]
        · intro e
          have : i - s.active.length = 0 := by
            rcases Nat.eq_zero_or_pos (i - s.active.length) with h0 | h0
            · exact h0
            · rw [List.getElem?_eq_none (by simp; omega)] at e; cases e
          congr 1; omega
    · simp only [hba, if_false]
      by_cases hi : i < s.active.length
      · simp only [hi, if_true]; exact h.idx b i
      · simp only [hi, if_false]
        constructor
        · intro e; have := h.lt e; rw [h.len] at this; omega
        · intro e
          have := List.mem_of_getElem? e
          simp at this; exact absurd this hba

theorem getPos_add {s : ESpace} (h : EInv s) {a b : Aid} (hf : s.a2i a = none) (hg : s.gone a = false)
    (hb : b ∈ s.active) : getPos (addAgent s a) b = getPos s b := by
  obtain ⟨i, hi⟩ := (h.mem_iff b).mp hb
  have hba : b ≠ a := by rintro rfl; rw [hf] at hi; cases hi
  have hi' : (addAgent s a).a2i b = some i := by simp [addAgent, upd, hba, hi]
  rw [getPos_of_idx (einv_add h hf hg) hi', getPos_of_idx h hi]; rfl

/-! ### the position setter -/

/-- the value an assignment stores; `none` = rejected -/
def eassign (c : ECfg) (p : Pos) : Option Pos :=
  if inBounds c.dims p then some p else if c.torus then some (torusCorrect c.dims p) else none

theorem setPos_spec {s : ESpace} (h : EInv s) (a : Aid) (p : Pos) :
    (a ∉ s.active ∧ ∃ e, setPos s a p = .error e) ∨
    (a ∈ s.active ∧ eassign s.cfg p = none ∧ setPos s a p = .error .oob) ∨
    (∃ p' i, a ∈ s.active ∧ eassign s.cfg p = some p' ∧ s.a2i a = some i ∧
      setPos s a p = .ok { s with buf := upd s.buf i p' }) := by
  by_cases ha : a ∈ s.active
  · obtain ⟨i, hi⟩ := (h.mem_iff a).mp ha
    have hlt := h.lt hi
    right
    unfold eassign
    by_cases hb : inBounds s.cfg.dims p = true
    · right; exact ⟨p, i, ha, by simp [hb], hi, by simp [setPos, hb, hi, h.view, hlt]⟩
    · by_cases ht : s.cfg.torus = true
      · right; exact ⟨torusCorrect s.cfg.dims p, i, ha, by simp [hb, ht], hi, by simp [setPos, hb, ht, hi, h.view, hlt]⟩
      · left; exact ⟨ha, by simp [hb, ht], by simp [setPos, hb, ht]⟩
  · left
    refine ⟨ha, ?_⟩
    have hn := (h.not_mem_iff a).mp ha
    unfold setPos
    simp only [hn]
    split <;> simp
    all_goals split <;> simp

theorem einv_set {s : ESpace} (h : EInv s) (i : Nat) (p : Pos) : EInv { s with buf := upd s.buf i p } :=
  ⟨h.len, h.cap, h.idx, h.gone⟩

theorem getPos_set {s : ESpace} (h : EInv s) {a : Aid} {i : Nat} (hi : s.a2i a = some i) (p : Pos) (b : Aid) :
    getPos { s with buf := upd s.buf i p } b = if b = a then .ok p else getPos s b := by
  by_cases hba : b = a
  · subst hba
    rw [getPos_of_idx (einv_set h i p) (by exact hi)]; simp [upd]
  · simp only [hba, if_false]
    cases hb : s.a2i b with
    | none => simp [getPos, hb]
    | some j =>
      have hji : j ≠ i := by rintro rfl; exact hba (h.inj hb hi)
      rw [getPos_of_idx (einv_set h i p) (by exact hb), getPos_of_idx h hb]; simp [upd, hji]

/-! ### `_remove_agent` (compaction and re-indexing) -/

theorem reindex_spec (as : List Aid) (m : Aid → Option Nat) (r : Nat → Option Aid)
    (hn : as.Nodup) (hs : ∀ b ∈ as, ∃ j, m b = some j) :
    ∃ m' r', reindex as m r = .ok (m', r') ∧
      ∀ b, m' b = if b ∈ as then (m b).map (· - 1) else m b := by
  induction as generalizing m r with
  | nil => exact ⟨m, r, rfl, by simp⟩
  | cons a as ih =>
    obtain ⟨j, hj⟩ := hs a (by simp)
    have hna : a ∉ as := (List.nodup_cons.mp hn).1
    have hs' : ∀ b ∈ as, ∃ j', upd m a (some (j - 1)) b = some j' := by
      intro b hb
      have hba : b ≠ a := by rintro rfl; exact hna hb
      simpa [upd, hba] using hs b (by simp [hb])
    obtain ⟨m', r', h1, h2⟩ := ih (upd m a (some (j - 1))) (upd r (j - 1) (some a)) (List.nodup_cons.mp hn).2 hs'
    refine ⟨m', r', by simp [reindex, hj, h1], ?_⟩
    intro b
    rw [h2 b]
    by_cases hba : b = a
    · subst hba; simp [hna, upd, hj]
    · simp [upd, hba]

theorem mem_drop_eraseIdx {s : ESpace} (h : EInv s) (index : Nat) (b : Aid) :
    b ∈ (s.active.eraseIdx index).drop index ↔ ∃ i, index < i ∧ s.a2i b = some i := by
  rw [List.mem_iff_getElem?]
  constructor
  · rintro ⟨j, hj⟩
    rw [List.getElem?_drop, List.getElem?_eraseIdx] at hj
    simp only [show ¬ (index + j < index) by omega, if_false] at hj
    exact ⟨index + j + 1, by omega, (h.idx _ _).mpr hj⟩
  · rintro ⟨i, hi, hb⟩
    refine ⟨i - 1 - index, ?_⟩
    rw [List.getElem?_drop, List.getElem?_eraseIdx]
    simp only [show ¬ (index + (i - 1 - index) < index) by omega, if_false]
    rw [show index + (i - 1 - index) + 1 = i by omega]
    exact (h.idx _ _).mp hb

theorem removeAgent_spec {s : ESpace} (h : EInv s) {a : Aid} {index : Nat} (ha : s.a2i a = some index) :
    ∃ s', removeAgent s a = .ok s' ∧ s'.cfg = s.cfg ∧ s'.cap = s.cap ∧ s'.n = s.n - 1 ∧
      s'.active = s.active.eraseIdx index ∧
      s'.buf = (fun i => if index ≤ i ∧ i + 1 < s.n then s.buf (i + 1) else s.buf i) ∧
      (∀ b, s'.a2i b = if b = a then none else
        match s.a2i b with
        | none => none
        | some i => if index < i then some (i - 1) else some i) ∧ s'.gone = s.gone := by
  have hlt : index < s.active.length := by rw [← h.len]; exact h.lt ha
  have hnd : ((s.active.eraseIdx index).drop index).Nodup :=
    (h.nodup.sublist (List.eraseIdx_sublist _ _)).sublist (List.drop_sublist _ _)
  have hs : ∀ b ∈ (s.active.eraseIdx index).drop index, ∃ j, upd s.a2i a none b = some j := by
    intro b hb
    obtain ⟨i, hi, hbi⟩ := (mem_drop_eraseIdx h index b).mp hb
    have hba : b ≠ a := by rintro rfl; rw [ha] at hbi; simp at hbi; omega
    exact ⟨i, by simp [upd, hba, hbi]⟩
  obtain ⟨m', r', h1, h2⟩ := reindex_spec _ (upd s.a2i a none) (upd s.i2a index none) hnd hs
  refine ⟨{ s with active := s.active.eraseIdx index, a2i := m', i2a := r', n := s.n - 1,
                   buf := fun i => if index ≤ i ∧ i + 1 < s.n then s.buf (i + 1) else s.buf i },
    by simp [removeAgent, ha, Nat.not_le.mpr hlt, h1], rfl, rfl, rfl, rfl, rfl, ?_, rfl⟩
  intro b
  show m' b = _
  rw [h2 b]
  by_cases hba : b = a
  · subst hba
    have : b ∉ (s.active.eraseIdx index).drop index := by
      rw [mem_drop_eraseIdx h]; rintro ⟨i, hi, hbi⟩; rw [ha] at hbi; simp at hbi; omega
    simp [this, upd]
  · simp only [hba, if_false, upd]
    cases hb : s.a2i b with
    | none =>
      have : b ∉ (s.active.eraseIdx index).drop index := by
        rw [mem_drop_eraseIdx h]; rintro ⟨i, _, hbi⟩; rw [hb] at hbi; cases hbi
      simp [this]
    | some i =>
      by_cases hi : index < i
      · have : b ∈ (s.active.eraseIdx index).drop index := (mem_drop_eraseIdx h index b).mpr ⟨i, hi, hb⟩
        simp [this, hi]
      · have : b ∉ (s.active.eraseIdx index).drop index := by
          rw [mem_drop_eraseIdx h]; rintro ⟨i', hi', hbi⟩; rw [hb] at hbi; simp at hbi; omega
        simp [this, hi]

theorem einv_remove {s s' : ESpace} (h : EInv s) {a : Aid} {index : Nat} (ha : s.a2i a = some index)
    (hn : s'.n = s.n - 1) (hc : s'.cap = s.cap) (hact : s'.active = s.active.eraseIdx index)
    (hm : ∀ b, s'.a2i b = if b = a then none else
        match s.a2i b with
        | none => none
        | some i => if index < i then some (i - 1) else some i)
    (hg : ∀ b, s'.gone b = true → s.gone b = true ∨ b = a) : EInv s' := by
  have hlt : index < s.active.length := by rw [← h.len]; exact h.lt ha
  refine ⟨?_, ?_, ?_, ?_⟩
  rotate_left 3
  · intro b hb
    rw [hm b]
    rcases hg b hb with h1 | h1
    · by_cases hba : b = a
      · simp [hba]
      · simp [hba, h.gone b h1]
    · simp [h1]
  · rw [hn, hact, List.length_eraseIdx, h.len]; simp [hlt]
  · rw [hn, hc]; have := h.cap; omega
  · intro b i
    rw [hm b, hact, List.getElem?_eraseIdx]
    by_cases hba : b = a
    · subst hba
      simp only [if_true]
      constructor
      · intro e; cases e
      · intro e
        split at e
        · have := (h.idx _ _).mpr e; rw [ha] at this; simp at this; omega
        · have := (h.idx _ _).mpr e; rw [ha] at this; simp at this; omega
    · simp only [hba, if_false]
      cases hb : s.a2i b with
      | none =>
        simp only
        constructor
        · intro e; cases e
        · intro e
          split at e
          · have := (h.idx _ _).mpr e; rw [hb] at this; cases this
          · have := (h.idx _ _).mpr e; rw [hb] at this; cases this
      | some i0 =>
        have hne : i0 ≠ index := by rintro rfl; exact hba (h.inj hb ha)
        simp only
        by_cases hi : index < i0
        · simp only [hi, if_true]
          constructor
          · intro e
            have : i0 - 1 = i := by simpa using e
            have hii : ¬ i < index := by omega
            simp only [hii, if_false]
            rw [show i + 1 = i0 by omega]; exact (h.idx _ _).mp hb
          · intro e
            split at e
            · have := (h.idx _ _).mpr e; rw [hb] at this; simp at this; omega
            · have := (h.idx _ _).mpr e; rw [hb] at this; simp at this; congr 1; omega
        · simp only [hi, if_false]
          constructor
          · intro e
            have : i0 = i := by simpa using e
            have hii : i < index := by omega
            simp only [hii, if_true]
            rw [← this]; exact (h.idx _ _).mp hb
          · intro e
            split at e
            · have := (h.idx _ _).mpr e; rw [hb] at this; exact this
            · have := (h.idx _ _).mpr e; rw [hb] at this; simp at this; omega

theorem getPos_remove {s s' : ESpace} (h : EInv s) (h' : EInv s') {a b : Aid} {index : Nat}
    (ha : s.a2i a = some index)
    (hbuf : s'.buf = (fun i => if index ≤ i ∧ i + 1 < s.n then s.buf (i + 1) else s.buf i))
    (hm : ∀ b, s'.a2i b = if b = a then none else
        match s.a2i b with
        | none => none
        | some i => if index < i then some (i - 1) else some i)
    (hba : b ≠ a) : getPos s' b = getPos s b := by
  cases hb : s.a2i b with
  | none =>
    have : s'.a2i b = none := by rw [hm b]; simp [hba, hb]
    simp [getPos, hb, this]
  | some i =>
    have hne : i ≠ index := by rintro rfl; exact hba (h.inj hb ha)
    have hlt := h.lt hb
    by_cases hi : index < i
    · have e : s'.a2i b = some (i - 1) := by rw [hm b]; simp [hba, hb, hi]
      rw [getPos_of_idx h' e, getPos_of_idx h hb, hbuf]
      have : index ≤ i - 1 ∧ i - 1 + 1 < s.n := by omega
      simp only [this, and_self, if_true]
      rw [show i - 1 + 1 = i by omega]
    · have e : s'.a2i b = some i := by rw [hm b]; simp [hba, hb, hi]
      rw [getPos_of_idx h' e, getPos_of_idx h hb, hbuf]
      have : ¬ (index ≤ i ∧ i + 1 < s.n) := by omega
      simp only [this, if_false]

/-! ### histories: the model refines the property's own description -/

theorem nodup_eraseIdx_eq_filter (l : List Aid) (i : Nat) (a : Aid) (hn : l.Nodup) (hi : l[i]? = some a) :
    l.eraseIdx i = l.filter (fun k => k ≠ a) := by
  induction l generalizing i with
  | nil => simp at hi
  | cons x xs ih =>
    obtain ⟨hx, hxs⟩ := List.nodup_cons.mp hn
    cases i with
    | zero =>
      have hxa : x = a := by simpa using hi
      subst hxa
      simp only [List.eraseIdx_cons_zero, List.filter_cons, ne_eq, not_true_eq_false, decide_false,
        Bool.false_eq_true, if_false]
      symm; rw [List.filter_eq_self]
      intro b hb; have : b ≠ x := by rintro rfl; exact hx hb
      simpa using this
    | succ i =>
      have hi' : xs[i]? = some a := by simpa using hi
      have hxa : x ≠ a := by rintro rfl; exact hx (List.mem_of_getElem? hi')
      simp [hxa, ih i hxs hi']

/-! the agent-level wrappers on a coherent state -/

theorem agentRemove_spec {s : ESpace} (h : EInv s) {a : Aid} {index : Nat} (ha : s.a2i a = some index) :
    ∃ s', agentRemove s a = .ok s' ∧ EInv s' ∧ s'.cfg = s.cfg ∧ s'.cap = s.cap ∧ s'.n = s.n - 1 ∧
      s'.active = s.active.eraseIdx index ∧ s'.gone = upd s.gone a true ∧ s'.a2i a = none ∧
      ∀ b, b ≠ a → getPos s' b = getPos s b := by
  obtain ⟨s0, h1, h2, h3, h4, h5, h6, h7, h8⟩ := removeAgent_spec h ha
  have hi' : EInv { s0 with gone := upd s0.gone a true } :=
    einv_remove (s' := { s0 with gone := upd s0.gone a true }) h ha h4 h3 h5 h7 (by
      intro b hb
      by_cases hba : b = a
      · exact Or.inr hba
      · left; simpa [upd, hba, h8] using hb)
  refine ⟨{ s0 with gone := upd s0.gone a true }, by simp [agentRemove, h.not_gone ha, h1], hi', h2, h3, h4, h5,
    by simp [h8], by simp [h7 a], ?_⟩
  intro b hba
  exact getPos_remove (s' := { s0 with gone := upd s0.gone a true }) h hi' ha h6 h7 hba

theorem agentRemove_of_not_mem {s : ESpace} (h : EInv s) {a : Aid} (ha : a ∉ s.active) :
    agentRemove s a = .error (if s.gone a then .attr else .key) := by
  have hn := (h.not_mem_iff a).mp ha
  cases hg : s.gone a <;> simp [agentRemove, removeAgent, hg, hn]

theorem agentGet_of_mem {s : ESpace} (h : EInv s) {a : Aid} (ha : a ∈ s.active) : agentGet s a = getPos s a := by
  obtain ⟨i, hi⟩ := (h.mem_iff a).mp ha
  simp [agentGet, h.not_gone hi]

theorem agentSet_of_mem {s : ESpace} (h : EInv s) {a : Aid} (ha : a ∈ s.active) (p : Pos) :
    agentSet s a p = setPos s a p := by
  obtain ⟨i, hi⟩ := (h.mem_iff a).mp ha
  simp [agentSet, h.not_gone hi]

theorem agentGet_of_not_mem {s : ESpace} (h : EInv s) {a : Aid} (ha : a ∉ s.active) :
    agentGet s a = .error (if s.gone a then .attr else .key) := by
  cases hg : s.gone a <;> simp [agentGet, hg, getPos_of_not_mem h ha]

theorem agentSet_of_not_mem {s : ESpace} (h : EInv s) {a : Aid} (ha : a ∉ s.active) (p : Pos) :
    ∃ e, agentSet s a p = .error e := by
  cases hg : s.gone a
  · rcases setPos_spec h a p with ⟨_, e, he⟩ | ⟨hm, _⟩ | ⟨_, _, hm, _⟩
    · exact ⟨e, by simp [agentSet, hg, he]⟩
    · exact absurd hm ha
    · exact absurd hm ha
  · exact ⟨.attr, by simp [agentSet, hg]⟩

theorem agentIadd_of_not_mem {s : ESpace} (h : EInv s) {a : Aid} (ha : a ∉ s.active) (v : Pos) :
    ∃ e, agentIadd s a v = .error e := by
  rw [agentIadd, agentGet_of_not_mem h ha]; exact ⟨_, rfl⟩

theorem agentIadd_of_idx {s : ESpace} (h : EInv s) {a : Aid} {i : Nat} (hi : s.a2i a = some i) (v : Pos) :
    agentIadd s a v = setPos s a (vadd (s.buf i) v) := by
  have ha : a ∈ s.active := (h.mem_iff a).mpr ⟨i, hi⟩
  rw [agentIadd, agentGet_of_mem h ha, getPos_of_idx h hi]
  exact agentSet_of_mem h ha _

/-! ### histories: the model refines the property's own description -/

/-- The property's own bookkeeping of a history of the experimental API: who is in the space (in order of
    creation), the position last assigned to each agent (`none` until the first assignment), and which
    agent objects have been removed. -/
structure ESpec where
  members : List Aid
  pos : Aid → Option Pos
  removed : Aid → Bool

/-- One call.  `agent.position += v` is an assignment of (last assigned value) + v; for an agent that was never
    assigned a position (its row is uninitialised memory) nothing is recorded. -/
def especStep (c : ECfg) (st : ESpec) : EOp → ESpec
  | .new a =>
    if a ∈ st.members ∨ st.removed a = true then st
    else { st with members := st.members ++ [a], pos := upd st.pos a none }
  | .set a p =>
    if a ∈ st.members then
      match eassign c p with
      | some p' => { st with pos := upd st.pos a (some p') }
      | none => st
    else st
  | .remove a =>
    if a ∈ st.members then
      { members := st.members.filter (fun k => k ≠ a), pos := upd st.pos a none, removed := upd st.removed a true }
    else st
  | .iadd a v =>
    if a ∈ st.members then
      match st.pos a with
      | some q =>
        match eassign c (vadd q v) with
        | some p' => { st with pos := upd st.pos a (some p') }
        | none => st
      | none => st
    else st
  | .raw i p =>
    -- a write through the `agent_positions` view: no validation, the value as it is becomes the position of the
    -- i-th agent of the space
    match st.members[i]? with
    | some a => { st with pos := upd st.pos a (some p) }
    | none => st

def espec (c : ECfg) (ops : List EOp) : ESpec :=
  ops.foldl (especStep c) ⟨[], fun _ => none, fun _ => false⟩

structure ERef (c : ECfg) (s : ESpace) (st : ESpec) : Prop where
  inv : EInv s
  cfg : s.cfg = c
  active : s.active = st.members
  pos : ∀ a p, st.pos a = some p → getPos s a = .ok p
  out : ∀ a, a ∉ st.members → st.pos a = none
  gone : s.gone = st.removed

/-- an assignment (by the setter or by `+=`) to a member -/
theorem eref_assign {c : ECfg} {s : ESpace} {st : ESpec} (h : ERef c s st) {a : Aid} (ha : a ∈ st.members)
    (p : Pos) :
    ERef c (match setPos s a p with | .ok s' => s' | .error _ => s)
      (match eassign c p with | some p' => { st with pos := upd st.pos a (some p') } | none => st) := by
  obtain ⟨hi, hc, hact, hpos, hout, hgone⟩ := h
  rcases setPos_spec hi a p with ⟨hn, e, he⟩ | ⟨_, hr, he⟩ | ⟨p', i, _, hr, hidx, he⟩
  · rw [hact] at hn; exact absurd ha hn
  · rw [hc] at hr
    simp only [he, hr]
    exact ⟨hi, hc, hact, hpos, hout, hgone⟩
  · rw [hc] at hr
    simp only [he, hr]
    refine ⟨einv_set hi i p', hc, hact, ?_, ?_, hgone⟩
    · intro b q hb
      rw [getPos_set hi hidx]
      by_cases hba : b = a
      · simp [upd, hba] at hb; simp [hba, hb]
      · simp only [upd, hba, if_false] at hb ⊢; exact hpos b q hb
    · intro b hb
      have hba : b ≠ a := by rintro rfl; exact hb ha
      simp only [upd, hba, if_false]; exact hout b hb

theorem estep_refines {c : ECfg} {s : ESpace} {st : ESpec} (h : ERef c s st)
    (op : EOp) : ERef c (estep s op) (especStep c st op) := by
  have h0 := h
  obtain ⟨hi, hc, hact, hpos, hout, hgone⟩ := h
  cases op with
  | new a =>
    simp only [estep, especStep]
    by_cases ha : a ∈ st.members
    · have : (s.a2i a).isSome = true := by
        rw [← hact, hi.mem_iff] at ha; obtain ⟨i, hi'⟩ := ha; simp [hi']
      simp only [this, Bool.true_or, if_true, ha, true_or]
      exact h0
    · have hf : s.a2i a = none := by rw [← hact] at ha; exact (hi.not_mem_iff a).mp ha
      by_cases hr : st.removed a = true
      · have : s.gone a = true := by rw [hgone]; exact hr
        simp only [this, Bool.or_true, if_true, hr, or_true]
        exact h0
      · have hg : s.gone a = false := by rw [hgone]; simpa using hr
        simp only [hf, hg, Option.isSome_none, Bool.or_self, Bool.false_eq_true, if_false, ha, hr, or_self]
        refine ⟨einv_add hi hf hg, hc, by simp [addAgent, hact], ?_, ?_, by simp [addAgent, hgone]⟩
        · intro b p hb
          by_cases hba : b = a
          · simp [upd, hba] at hb
          · simp only [upd, hba, if_false] at hb
            have hbm : b ∈ s.active := by
              rw [hact]; exact Classical.byContradiction fun hn => by rw [hout b hn] at hb; cases hb
            rw [getPos_add hi hf hg hbm]; exact hpos b p hb
        · intro b hb
          have hba : b ≠ a := by rintro rfl; simp at hb
          simp only [upd, hba, if_false]
          exact hout b (by intro hm; exact hb (by simp [hm]))
  | set a p =>
    simp only [estep, especStep]
    by_cases ha : a ∈ st.members
    · rw [agentSet_of_mem hi (hact ▸ ha), if_pos ha]
      exact eref_assign h0 ha p
    · obtain ⟨e, he⟩ := agentSet_of_not_mem hi (a := a) (by rw [hact]; exact ha) p
      simp only [he, ha, if_false]
      exact h0
  | remove a =>
    simp only [estep, especStep]
    by_cases ha : a ∈ st.members
    · simp only [ha, if_true]
      obtain ⟨index, hidx⟩ := (hi.mem_iff a).mp (hact ▸ ha)
      obtain ⟨s', h1, hi', h2, _, _, h5, h6, _, h8⟩ := agentRemove_spec hi hidx
      simp only [h1]
      refine ⟨hi', h2.trans hc, ?_, ?_, ?_, by rw [h6, hgone]⟩
      · rw [h5, ← hact]; exact nodup_eraseIdx_eq_filter _ _ _ hi.nodup ((hi.idx _ _).mp hidx)
      · intro b q hb
        by_cases hba : b = a
        · simp [upd, hba] at hb
        · simp only [upd, hba, if_false] at hb
          rw [h8 b hba]; exact hpos b q hb
      · intro b hb
        by_cases hba : b = a
        · simp [upd, hba]
        · simp only [upd, hba, if_false]
          apply hout b
          intro hm; exact hb (List.mem_filter.mpr ⟨hm, by simpa using hba⟩)
    · rw [agentRemove_of_not_mem hi (by rw [hact]; exact ha)]
      simp only [ha, if_false]
      exact h0
  | iadd a v =>
    simp only [estep, especStep]
    by_cases ha : a ∈ st.members
    · obtain ⟨i, hidx⟩ := (hi.mem_iff a).mp (hact ▸ ha)
      rw [agentIadd_of_idx hi hidx, if_pos ha]
      cases hq : st.pos a with
      | some q =>
        have : s.buf i = q := by
          have := hpos a q hq; rw [getPos_of_idx hi hidx] at this; simpa using this
        rw [this]
        exact eref_assign h0 ha (vadd q v)
      | none =>
        simp only
        rcases setPos_spec hi a (vadd (s.buf i) v) with ⟨_, e, he⟩ | ⟨_, _, he⟩ | ⟨p', j, _, _, hj, he⟩
        · simp only [he]; exact h0
        · simp only [he]; exact h0
        · simp only [he]
          refine ⟨einv_set hi j p', hc, hact, ?_, hout, hgone⟩
          intro b q hb
          have hba : b ≠ a := by rintro rfl; rw [hq] at hb; cases hb
          rw [getPos_set hi hj]; simp only [hba, if_false]; exact hpos b q hb
    · obtain ⟨e, he⟩ := agentIadd_of_not_mem hi (a := a) (by rw [hact]; exact ha) v
      simp only [he, ha, if_false]
      exact h0
  | raw i p =>
    simp only [estep, especStep, rawWrite]
    cases hm : st.members[i]? with
    | none =>
      have : ¬ i < s.view := by
        rw [hi.view, hi.len, hact]; exact Nat.not_lt.mpr (List.getElem?_eq_none_iff.mp hm)
      simp only [this, if_false]
      exact h0
    | some a =>
      have hidx : s.a2i a = some i := (hi.idx a i).mpr (by rw [hact]; exact hm)
      have hlt : i < s.view := by rw [hi.view]; exact hi.lt hidx
      simp only [hlt, if_true]
      refine ⟨einv_set hi i p, hc, hact, ?_, ?_, hgone⟩
      · intro b q hb
        rw [getPos_set hi hidx]
        by_cases hba : b = a
        · simp [upd, hba] at hb; simp [hba, hb]
        · simp only [upd, hba, if_false] at hb ⊢; exact hpos b q hb
      · intro b hb
        have hba : b ≠ a := by rintro rfl; exact hb (List.mem_of_getElem? hm)
        simp only [upd, hba, if_false]; exact hout b hb

theorem efold_refines {c : ECfg} (ops : List EOp) {s : ESpace} {st : ESpec}
    (h : ERef c s st) : ERef c (ops.foldl estep s) (ops.foldl (especStep c) st) := by
  induction ops generalizing s st with
  | nil => exact h
  | cons op ops ih => exact ih (estep_refines h op)

theorem erun_refines (c : ECfg) (cap : Nat) (ops : List EOp) : ERef c (erun c cap ops) (espec c ops) :=
  efold_refines ops ⟨einv_init c cap, rfl, rfl, by simp, by simp, rfl⟩

/-! ### queries -/

theorem rows_getElem? {s : ESpace} (h : EInv s) (i : Nat) :
    (rows s)[i]? = if i < s.n then some (s.buf i) else none := by
  simp only [rows, h.view, List.getElem?_map]
  by_cases hi : i < s.n
  · simp [hi]
  · simp [hi]

/-- pairing the agent list with the rows of `agent_positions` pairs every agent with its position -/
theorem mem_zip_rows {s : ESpace} (h : EInv s) (a : Aid) (q : Pos) :
    (a, q) ∈ s.active.zip (rows s) ↔ a ∈ s.active ∧ getPos s a = .ok q := by
  rw [List.mem_iff_getElem?]
  constructor
  · rintro ⟨i, hi⟩
    obtain ⟨h1, h2⟩ := List.getElem?_zip_eq_some.mp hi
    simp only at h1 h2
    have hidx := (h.idx a i).mpr h1
    rw [rows_getElem? h, if_pos (h.lt hidx)] at h2
    exact ⟨List.mem_of_getElem? h1, by rw [getPos_of_idx h hidx]; simpa using h2⟩
  · rintro ⟨ha, hq⟩
    obtain ⟨i, hidx⟩ := (h.mem_iff a).mp ha
    rw [getPos_of_idx h hidx] at hq
    refine ⟨i, List.getElem?_zip_eq_some.mpr ⟨(h.idx a i).mp hidx, ?_⟩⟩
    rw [rows_getElem? h, if_pos (h.lt hidx)]; simpa using hq

theorem mem_zip_calcD2 {s : ESpace} (h : EInv s) (pt : Pos) (a : Aid) (d : Int) :
    (a, d) ∈ s.active.zip (calcD2 s pt) ↔
      ∃ q, a ∈ s.active ∧ getPos s a = .ok q ∧ d = edist2 s.cfg pt q := by
  unfold calcD2
  rw [List.zip_map_right, List.mem_map]
  constructor
  · rintro ⟨⟨b, q⟩, hm, he⟩
    simp only [Prod.map, id, Prod.mk.injEq] at he
    obtain ⟨rfl, rfl⟩ := he
    obtain ⟨h1, h2⟩ := (mem_zip_rows h b q).mp hm
    exact ⟨q, h1, h2, rfl⟩
  · rintro ⟨q, h1, h2, rfl⟩
    exact ⟨(a, q), (mem_zip_rows h a q).mpr ⟨h1, h2⟩, rfl⟩

theorem zip_calcD2_fst {s : ESpace} (h : EInv s) (pt : Pos) :
    (s.active.zip (calcD2 s pt)).map (·.1) = s.active := by
  rw [List.map_fst_zip]
  simp [calcD2, rows, h.view, h.len]

theorem calcD2_length {s : ESpace} (h : EInv s) (pt : Pos) : (calcD2 s pt).length = s.n := by
  simp [calcD2, rows, h.view]

/-! ### k nearest -/

theorem knnPick_some {s : ESpace} {d : List Int} {i : Nat} {ad : Aid × Int} (h : knnPick s d i = some ad) :
    s.active[i]? = some ad.1 ∧ d[i]? = some ad.2 := by
  unfold knnPick at h
  split at h
  · rename_i a x ha hx; cases h; exact ⟨ha, hx⟩
  · cases h

theorem knnPick_of_lt {s : ESpace} {d : List Int} {i : Nat} (h1 : i < s.active.length) (h2 : i < d.length) :
    knnPick s d i = some (s.active[i], d[i]) := by
  simp [knnPick, List.getElem?_eq_getElem h1, List.getElem?_eq_getElem h2]

theorem map_some_getElem? {α β : Type} {l : List α} {F : α → Option β} {r : List β}
    (hm : l.map F = r.map some) (u : Nat) (y : β) :
    r[u]? = some y ↔ ∃ x, l[u]? = some x ∧ F x = some y := by
  have := congrArg (fun z => z[u]?) hm
  simp only [List.getElem?_map] at this
  constructor
  · intro hy
    rw [hy] at this
    cases hx : l[u]? with
    | none => rw [hx] at this; cases this
    | some x => rw [hx] at this; exact ⟨x, rfl, by simpa using this⟩
  · rintro ⟨x, hx, hF⟩
    rw [hx] at this
    cases hr : r[u]? with
    | none => rw [hr] at this; simp at this
    | some y' => rw [hr] at this; simp at this; rw [hF] at this; simpa using this.symm

theorem kNearest_spec {argpart : List Int → Nat → List Nat} (hap : ArgPartSpec argpart)
    {s : ESpace} (h : EInv s) (pt : Pos) {k : Nat} (hk : 1 ≤ k) (hkn : k ≤ s.n) :
    ∃ res, kNearest argpart s pt k = .ok res ∧ res.length = k ∧ (res.map (·.1)).Nodup ∧
      (∀ ad ∈ res, ad ∈ s.active.zip (calcD2 s pt)) ∧
      (∀ ad ∈ res, ∀ be ∈ s.active.zip (calcD2 s pt), be.1 ∉ res.map (·.1) → ad.2 ≤ be.2) := by
  have hd : (calcD2 s pt).length = s.n := calcD2_length h pt
  generalize hdd : calcD2 s pt = d at hd
  obtain ⟨hperm, hpiv⟩ := hap d (k - 1) (by omega)
  generalize hL : argpart d (k - 1) = L at hperm hpiv
  have hLlen : L.length = s.n := by rw [hperm.length_eq, List.length_range, hd]
  have hLnd : L.Nodup := hperm.nodup_iff.mpr List.nodup_range
  have hLmem : ∀ x ∈ L, x < s.n := fun x hx => by
    have := hperm.mem_iff.mp hx; rw [hd] at this; simpa using this
  have hidxnd : (L.take k).Nodup := hLnd.sublist (List.take_sublist _ _)
  have hall : ∀ i ∈ L.take k, ∃ y, knnPick s d i = some y := by
    intro i hi
    have := hLmem i (List.mem_of_mem_take hi)
    exact ⟨_, knnPick_of_lt (by rw [← h.len]; exact this) (by rw [hd]; exact this)⟩
  obtain ⟨r, hc, hm⟩ := collect_map_of_all_some (L.take k) (knnPick s d) hall
  have hkn0 : k ≠ 0 := by omega
  have hnot : ¬ d.length < k := by omega
  have hres : kNearest argpart s pt k = .ok r := by
    simp only [kNearest, hdd, hkn0, if_false, hnot, hL, hc]
  have hget := fun u y => map_some_getElem? hm u y
  have hrlen : r.length = k := by
    have := congrArg List.length hm
    simp only [List.length_map, List.length_take] at this
    omega
  -- every returned pair sits at an index of the first k entries of L
  have helem : ∀ u ad, r[u]? = some ad → u < k ∧ ∃ i, L[u]? = some i ∧ s.active[i]? = some ad.1 ∧ d[i]? = some ad.2 := by
    intro u ad hu
    obtain ⟨i, hi, hF⟩ := (hget u ad).mp hu
    rw [List.getElem?_take] at hi
    split at hi
    · rename_i huk; exact ⟨huk, i, hi, knnPick_some hF⟩
    · cases hi
  refine ⟨r, hres, hrlen, ?_, ?_, ?_⟩
  · rw [List.Nodup, List.pairwise_iff_getElem]
    intro u v hu hv huv heq
    simp only [List.length_map] at hu hv
    simp only [List.getElem_map] at heq
    obtain ⟨_, i, hi1, hi2, _⟩ := helem u r[u] (List.getElem?_eq_getElem hu)
    obtain ⟨_, j, hj1, hj2, _⟩ := helem v r[v] (List.getElem?_eq_getElem hv)
    rw [heq] at hi2
    have hij : i = j := nodup_idx_inj h.nodup hi2 hj2
    subst hij
    have := nodup_idx_inj hLnd hi1 hj1
    omega
  · intro ad had
    obtain ⟨u, hu⟩ := List.mem_iff_getElem?.mp had
    obtain ⟨_, i, _, hi2, hi3⟩ := helem u ad hu
    exact List.mem_iff_getElem?.mpr ⟨i, List.getElem?_zip_eq_some.mpr ⟨hi2, hi3⟩⟩
  · intro ad had be hbe hout
    obtain ⟨u, hu⟩ := List.mem_iff_getElem?.mp had
    obtain ⟨huk, i, hi1, _, hi3⟩ := helem u ad hu
    obtain ⟨j, hj⟩ := List.mem_iff_getElem?.mp hbe
    obtain ⟨hj1, hj2⟩ := List.getElem?_zip_eq_some.mp hj
    have hjn : j < s.n := by rw [h.len]; exact (List.getElem?_eq_some_iff.mp hj1).1
    have hjL : j ∈ L := hperm.mem_iff.mpr (by rw [hd]; simpa using hjn)
    obtain ⟨t, ht⟩ := List.mem_iff_getElem?.mp hjL
    have htk : k ≤ t := by
      rcases Nat.lt_or_ge t k with htk | htk
      · exfalso
        apply hout
        have h1 : (L.take k)[t]? = some j := by rw [List.getElem?_take, if_pos htk]; exact ht
        have h2 : knnPick s d j = some be := by
          unfold knnPick; rw [hj1, hj2]
        have := (hget t be).mpr ⟨j, h1, h2⟩
        exact List.mem_map.mpr ⟨be, List.mem_of_getElem? this, rfl⟩
      · exact htk
    have hpl : k - 1 < L.length := by omega
    obtain ⟨hlo, hhi⟩ := hpiv L[k - 1] (List.getElem?_eq_getElem hpl)
    have e1 : d.getD i 0 = ad.2 := by simp [List.getD, hi3]
    have e2 : d.getD j 0 = be.2 := by simp [List.getD, hj2]
    have hup := hhi t j (by omega) ht
    rw [e2] at hup
    rcases Nat.lt_or_ge u (k - 1) with hu1 | hu1
    · have := hlo u i hu1 hi1; rw [e1] at this; omega
    · have hueq : u = k - 1 := by omega
      subst hueq
      rw [List.getElem?_eq_getElem hpl] at hi1
      have : L[k - 1] = i := by simpa using hi1
      rw [this, e1] at hup; exact hup

/-- the complete stable sort the driver uses satisfies the `argpartition` post-condition -/
theorem argsortPart_spec : ArgPartSpec argsortPart := by
  intro d kth _
  have hsorted := List.pairwise_mergeSort (le := fun i j => decide (d.getD i 0 ≤ d.getD j 0))
    (fun a b c h1 h2 => by simp only [decide_eq_true_eq] at *; omega)
    (fun a b => by simp only [Bool.or_eq_true, decide_eq_true_eq]; omega) (List.range d.length)
  refine ⟨List.mergeSort_perm _ _, ?_⟩
  intro p hp
  rw [List.pairwise_iff_getElem] at hsorted
  have key : ∀ (i j x y : Nat), i < j → (argsortPart d kth)[i]? = some x → (argsortPart d kth)[j]? = some y →
      d.getD x 0 ≤ d.getD y 0 := by
    intro i j x y hij hx hy
    obtain ⟨hi, ex⟩ := List.getElem?_eq_some_iff.mp hx
    obtain ⟨hj, ey⟩ := List.getElem?_eq_some_iff.mp hy
    have := hsorted i j hi hj hij
    unfold argsortPart at ex ey
    rw [ex, ey] at this
    simpa using this
  exact ⟨fun i x hi hx => key i kth x p hi hx hp, fun j y hj hy => key kth j p y hj hp hy⟩

/-! ### distances -/

theorem dist2Aux_comm (t : Bool) (ds : List (Int × Int)) (p q : Pos) :
    dist2Aux t ds p q = dist2Aux t ds q p := by
  induction ds generalizing p q with
  | nil => simp [dist2Aux]
  | cons d ds ih =>
    cases p with
    | nil => cases q <;> simp [dist2Aux]
    | cons a p =>
      cases q with
      | nil => simp [dist2Aux]
      | cons b q => simp [dist2Aux, axisDist_comm t _ a b, ih p q]

theorem dist2Aux_self (t : Bool) (ds : List (Int × Int)) (p : Pos) (hw : ∀ d ∈ ds, d.1 ≤ d.2) :
    dist2Aux t ds p p = 0 := by
  induction ds generalizing p with
  | nil => simp [dist2Aux]
  | cons d ds ih =>
    cases p with
    | nil => simp [dist2Aux]
    | cons a p =>
      have h1 : axisDist t (d.2 - d.1) a a = 0 := axisDist_self t _ a (by have := hw d (by simp); omega)
      simp [dist2Aux, h1, sq, ih p (fun d' hd' => hw d' (by simp [hd']))]

theorem dist2Aux_nonneg (t : Bool) (ds : List (Int × Int)) (p q : Pos) : 0 ≤ dist2Aux t ds p q := by
  induction ds generalizing p q with
  | nil => simp [dist2Aux]
  | cons d ds ih =>
    cases p with
    | nil => cases q <;> simp [dist2Aux]
    | cons a p =>
      cases q with
      | nil => simp [dist2Aux]
      | cons b q =>
        simp only [dist2Aux]
        have := sq_nonneg (axisDist t (d.2 - d.1) a b)
        have := ih p q
        omega

/-- squared Euclidean length of a vector -/
def norm2 : Pos → Int
  | [] => 0
  | x :: xs => sq x + norm2 xs

theorem diffAux_norm2 (t : Bool) (ds : List (Int × Int)) (p q : Pos) (hw : ∀ d ∈ ds, d.1 < d.2) :
    norm2 (diffAux t ds p q) = dist2Aux t ds p q := by
  induction ds generalizing p q with
  | nil => simp [diffAux, dist2Aux, norm2]
  | cons d ds ih =>
    cases p with
    | nil => cases q <;> simp [diffAux, dist2Aux, norm2]
    | cons a p =>
      cases q with
      | nil => simp [diffAux, dist2Aux, norm2]
      | cons b q =>
        simp only [diffAux, dist2Aux, norm2]
        rw [axisHeading_sq t _ a b (by have := hw d (by simp); omega),
          ih p q (fun d' hd' => hw d' (by simp [hd']))]

/-! ### bounds of the experimental space -/

def ECfg.WF (c : ECfg) : Prop := ∀ d ∈ c.dims, d.1 < d.2

theorem torusCorrect_inBounds (ds : List (Int × Int)) (p : Pos) (hw : ∀ d ∈ ds, d.1 < d.2) :
    inBounds ds (torusCorrect ds p) = true := by
  induction ds generalizing p with
  | nil => simp [inBounds]
  | cons d ds ih =>
    cases p with
    | nil => simp [torusCorrect, inBounds]
    | cons x p =>
      have hb := wrap_bounds d.1 (d.2 - d.1) x (by have := hw d (by simp); omega)
      simp only [torusCorrect, inBounds, Bool.and_eq_true, decide_eq_true_eq]
      exact ⟨⟨hb.1, by omega⟩, ih p (fun d' hd' => hw d' (by simp [hd']))⟩

theorem eassign_inBounds (c : ECfg) (hw : c.WF) {p p' : Pos} (h : eassign c p = some p') :
    inBounds c.dims p' = true := by
  unfold eassign at h
  split at h
  · cases h; assumption
  · split at h
    · cases h; exact torusCorrect_inBounds _ _ hw
    · cases h

/-! ### frame, agent-centred queries, agent subsets -/

/-- the agent a call is about (for a write through the view: the agent whose row it is, if any) -/
def EOp.target (s : ESpace) : EOp → Option Aid
  | .new a => some a
  | .set a _ => some a
  | .remove a => some a
  | .iadd a _ => some a
  | .raw i _ => s.active[i]?

theorem getPos_assign_frame {s : ESpace} (h : EInv s) (b : Aid) (p : Pos) {a : Aid} (hba : a ≠ b) :
    getPos (match setPos s b p with | .ok s' => s' | .error _ => s) a = getPos s a := by
  rcases setPos_spec h b p with ⟨_, e, he⟩ | ⟨_, _, he⟩ | ⟨p', i, _, _, hidx, he⟩
  · simp [he]
  · simp [he]
  · simp only [he]; rw [getPos_set h hidx]; simp [hba]

theorem getPos_estep_frame {s : ESpace} (h : EInv s) (op : EOp) {a : Aid} (ha : a ∈ s.active)
    (hne : op.target s ≠ some a) : getPos (estep s op) a = getPos s a := by
  cases op with
  | new b =>
    simp only [estep]
    cases hb : s.a2i b with
    | some i => simp
    | none =>
      cases hg : s.gone b with
      | true => simp
      | false =>
        simp only [Option.isSome_none, Bool.or_self, Bool.false_eq_true, if_false]
        exact getPos_add h hb hg ha
  | set b p =>
    have hba : a ≠ b := fun e => hne (by simp [EOp.target, e])
    simp only [estep, agentSet]
    cases hg : s.gone b with
    | true => simp
    | false => simp only [Bool.false_eq_true, if_false]; exact getPos_assign_frame h b p hba
  | remove b =>
    have hba : a ≠ b := fun e => hne (by simp [EOp.target, e])
    simp only [estep]
    cases hb : s.a2i b with
    | none =>
      rw [agentRemove_of_not_mem h ((h.not_mem_iff b).mpr hb)]
    | some index =>
      obtain ⟨s', h1, _, _, _, _, _, _, _, h8⟩ := agentRemove_spec h hb
      simp only [h1]
      exact h8 a hba
  | iadd b v =>
    have hba : a ≠ b := fun e => hne (by simp [EOp.target, e])
    simp only [estep]
    cases hb : s.a2i b with
    | none =>
      obtain ⟨e, he⟩ := agentIadd_of_not_mem h ((h.not_mem_iff b).mpr hb) v
      simp [he]
    | some i =>
      rw [agentIadd_of_idx h hb]
      exact getPos_assign_frame h b _ hba
  | raw i p =>
    simp only [estep, rawWrite]
    by_cases hlt : i < s.view
    · simp only [hlt, if_true]
      have hl : i < s.active.length := by rw [← h.len, ← h.view]; exact hlt
      have hb : s.active[i]? = some s.active[i] := List.getElem?_eq_getElem hl
      have hidx : s.a2i s.active[i] = some i := (h.idx _ i).mpr hb
      have hba : a ≠ s.active[i] := fun e => hne (by simp [EOp.target, e])
      rw [getPos_set h hidx]; simp [hba]
    · simp [hlt]

theorem length_filter_ne_of_nodup (l : List (Aid × Int)) (a : Aid) (hn : (l.map (·.1)).Nodup)
    (ha : a ∈ l.map (·.1)) : (l.filter (fun ad => ad.1 ≠ a)).length + 1 = l.length := by
  induction l with
  | nil => simp at ha
  | cons x xs ih =>
    simp only [List.map_cons, List.nodup_cons] at hn
    by_cases hx : x.1 = a
    · have hnot : a ∉ xs.map (·.1) := by rw [← hx]; exact hn.1
      have : xs.filter (fun ad => ad.1 ≠ a) = xs := by
        rw [List.filter_eq_self]
        intro y hy
        have : y.1 ≠ a := by rintro rfl; exact hnot (List.mem_map.mpr ⟨y, hy, rfl⟩)
        simpa using this
      rw [List.filter_cons_of_neg (by simp [hx]), this]; simp
    · have ha' : a ∈ xs.map (·.1) := by
        simp only [List.map_cons, List.mem_cons] at ha
        rcases ha with e | e
        · exact absurd e.symm hx
        · exact e
      have := ih hn.2 ha'
      rw [List.filter_cons_of_pos (by simp [hx])]; simp only [List.length_cons]; omega

theorem rowsOf_spec {s : ESpace} (h : EInv s) (sub : List Aid) (hsub : ∀ a ∈ sub, a ∈ s.active) :
    ∃ l, rowsOf s sub = .ok l ∧ l.map (·.1) = sub ∧ ∀ aq ∈ l, getPos s aq.1 = .ok aq.2 := by
  have hall : ∀ a ∈ sub, ∃ y, (s.a2i a).map (fun i => (a, i)) = some y := by
    intro a ha
    obtain ⟨i, hi⟩ := (h.mem_iff a).mp (hsub a ha)
    exact ⟨(a, i), by simp [hi]⟩
  obtain ⟨ais, hc, hm⟩ := collect_map_of_all_some sub _ hall
  have hget := fun u y => map_some_getElem? hm u y
  have hok : ∀ ai ∈ ais, s.a2i ai.1 = some ai.2 := by
    intro ai hai
    obtain ⟨u, hu⟩ := List.mem_iff_getElem?.mp hai
    obtain ⟨a, _, hF⟩ := (hget u ai).mp hu
    cases hi : s.a2i a with
    | none => simp [hi] at hF
    | some i => simp [hi] at hF; subst hF; exact hi
  have hlt : ais.all (fun ai => decide (ai.2 < s.cap)) = true := by
    rw [List.all_eq_true]
    intro ai hai
    have := h.lt (hok ai hai); have := h.cap
    simp; omega
  refine ⟨ais.map fun ai => (ai.1, s.buf ai.2), by simp [rowsOf, hc, hlt], ?_, ?_⟩
  · rw [List.map_map]
    apply List.ext_getElem?
    intro u
    simp only [List.getElem?_map]
    cases hu : ais[u]? with
    | none =>
      have : sub[u]? = none := by
        have := congrArg (fun z => z[u]?) hm
        simp only [List.getElem?_map, hu, Option.map_none] at this
        cases hs : sub[u]? with
        | none => rfl
        | some a => rw [hs] at this; simp at this
      simp [this]
    | some ai =>
      obtain ⟨a, ha, hF⟩ := (hget u ai).mp hu
      cases hi : s.a2i a with
      | none => simp [hi] at hF
      | some i => simp [hi] at hF; subst hF; simp [ha]
  · intro aq haq
    obtain ⟨ai, hai, rfl⟩ := List.mem_map.mp haq
    exact getPos_of_idx h (hok ai hai)

/-! ### the capacity along a history, and references to `agent_positions` kept by the user -/

theorem setPos_cap {s s' : ESpace} {a : Aid} {p : Pos} (h : setPos s a p = .ok s') : s'.cap = s.cap := by
  simp only [setPos] at h
  repeat' split at h
  all_goals first | (cases h; rfl) | cases h

theorem removeAgent_cap {s s' : ESpace} {a : Aid} (h : removeAgent s a = .ok s') : s'.cap = s.cap := by
  simp only [removeAgent] at h
  repeat' split at h
  all_goals first | (cases h; rfl) | cases h

/-- one call: the capacity stays, or it grows — only in `_add_agent`, only when the array is full -/
theorem estep_cap (s : ESpace) (op : EOp) :
    (estep s op).cap = s.cap ∨ (s.cap < (estep s op).cap ∧ (∃ a, op = .new a) ∧ s.cap ≤ s.n) := by
  cases op with
  | new a =>
    simp only [estep]
    split
    · exact Or.inl rfl
    · simp only [addAgent]
      by_cases hc : s.cap ≤ s.n
      · right; rw [if_pos hc]; exact ⟨by have := growBy_pos (s.n + 1); omega, ⟨a, rfl⟩, hc⟩
      · left; simp [hc]
  | set a p =>
    left; simp only [estep]
    cases h : agentSet s a p with
    | error e => rfl
    | ok s' =>
      simp only [agentSet] at h
      split at h
      · cases h
      · exact setPos_cap h
  | remove a =>
    left; simp only [estep, agentRemove]
    by_cases hg : s.gone a = true
    · simp [hg]
    · simp only [hg, Bool.false_eq_true, if_false]
      cases hr : removeAgent s a with
      | error e => rfl
      | ok s'' => show s''.cap = s.cap; exact removeAgent_cap hr
  | iadd a v =>
    left; simp only [estep]
    cases h : agentIadd s a v with
    | error e => rfl
    | ok s' =>
      simp only [agentIadd] at h
      split at h
      · cases h
      · simp only [agentSet] at h
        split at h
        · cases h
        · exact setPos_cap h
  | raw i p =>
    left; simp only [estep, rawWrite]
    by_cases hlt : i < s.view <;> simp [hlt]

theorem efold_cap_mono (ops : List EOp) (s : ESpace) : s.cap ≤ (ops.foldl estep s).cap := by
  induction ops generalizing s with
  | nil => exact Nat.le_refl _
  | cons op ops ih =>
    have h1 : s.cap ≤ (estep s op).cap := by rcases estep_cap s op with h | h <;> omega
    exact Nat.le_trans h1 (ih _)

theorem hfold_sp (ops : List EOp) (h : HSpace) : (ops.foldl hstep h).sp = ops.foldl estep h.sp := by
  induction ops generalizing h with
  | nil => rfl
  | cons op ops ih => simp only [List.foldl_cons]; rw [ih]; rfl

/-- an array the space has dropped is never touched by the space again -/
theorem hfold_orph_frozen (ops : List EOp) (h : HSpace) (k : Nat) (hk : k < h.sp.cap) :
    (ops.foldl hstep h).orph k = h.orph k := by
  induction ops generalizing h with
  | nil => rfl
  | cons op ops ih =>
    simp only [List.foldl_cons]
    have hm : h.sp.cap ≤ (estep h.sp op).cap := efold_cap_mono [op] h.sp
    rw [ih (hstep h op) (by show k < (estep h.sp op).cap; omega)]
    simp only [hstep, HSpace.advance]
    split
    · rfl
    · have : k ≠ h.sp.cap := by omega
      simp [upd, this]

end Mesa.Cont
