import MesaModel.Proofs.ContLegacy
/-! Helper lemmas for the experimental `ContinuousSpace` model (growth, compaction, queries). -/
namespace Mesa.Cont

/-- the index map and the agent list describe the same bijection between the agents in the space
    and the rows `0 … n-1`, and the rows exist -/
structure EInv (s : ESpace) : Prop where
  len : s.n = s.active.length
  cap : s.n ≤ s.cap
  idx : ∀ a i, s.a2i a = some i ↔ s.active[i]? = some a

theorem einv_init (c : ECfg) (cap : Nat) : EInv (einit c cap) :=
  ⟨rfl, Nat.zero_le _, by simp [einit]⟩

theorem EInv.view {s : ESpace} (h : EInv s) : s.view = s.n := by
  unfold ESpace.view; have := h.cap; omega

theorem EInv.lt {s : ESpace} (h : EInv s) {a : Aid} {i : Nat} (hi : s.a2i a = some i) : i < s.n := by
  rw [h.len]; exact (List.getElem?_eq_some_iff.mp ((h.idx a i).mp hi)).1

theorem EInv.nodup {s : ESpace} (h : EInv s) : s.active.Nodup := by
  rw [List.Nodup, List.pairwise_iff_getElem]
  intro i j hi hj hij heq
  have h1 : s.a2i s.active[i] = some i := (h.idx _ _).mpr (by simp [hi])
  have h2 : s.a2i s.active[i] = some j := (h.idx _ _).mpr (by rw [heq]; simp [hj])
  rw [h1] at h2; simp at h2; omega

theorem EInv.mem_iff {s : ESpace} (h : EInv s) (a : Aid) : a ∈ s.active ↔ ∃ i, s.a2i a = some i := by
  rw [List.mem_iff_getElem?]
  constructor
  · rintro ⟨i, hi⟩; exact ⟨i, (h.idx a i).mpr hi⟩
  · rintro ⟨i, hi⟩; exact ⟨i, (h.idx a i).mp hi⟩

theorem EInv.not_mem_iff {s : ESpace} (h : EInv s) (a : Aid) : a ∉ s.active ↔ s.a2i a = none := by
  rw [h.mem_iff]
  cases s.a2i a <;> simp

theorem EInv.inj {s : ESpace} (h : EInv s) {a b : Aid} {i : Nat} (ha : s.a2i a = some i)
    (hb : s.a2i b = some i) : a = b := by
  have h1 := (h.idx a i).mp ha
  have h2 := (h.idx b i).mp hb
  rw [h1] at h2; simpa using h2

theorem getPos_of_idx {s : ESpace} (h : EInv s) {a : Aid} {i : Nat} (hi : s.a2i a = some i) :
    getPos s a = .ok (s.buf i) := by
  simp [getPos, hi, h.view, h.lt hi]

theorem getPos_of_not_mem {s : ESpace} (h : EInv s) {a : Aid} (ha : a ∉ s.active) :
    getPos s a = .error .key := by
  simp [getPos, (h.not_mem_iff a).mp ha]

/-! ### `_add_agent` (growth) -/

theorem einv_add {s : ESpace} (h : EInv s) {a : Aid} (hf : s.a2i a = none) : EInv (addAgent s a) := by
  refine ⟨by simp [addAgent, h.len], ?_, ?_⟩
  · have := h.cap; have := growBy_pos (s.n + 1)
    simp only [addAgent]; split <;> omega
  · intro b i
    simp only [addAgent, upd, List.getElem?_append]
    by_cases hba : b = a
    · subst hba
      simp only [if_true]
      by_cases hi : i < s.active.length
      · simp only [hi, if_true]
        constructor
        · intro e; have : s.n = i := by simpa using e
          rw [h.len] at this; omega
        · intro e; rw [(h.idx b i).mpr e] at hf; cases hf
      · simp only [hi, if_false]
        rw [h.len]
        constructor
        · intro e; have : s.active.length = i := by simpa using e
          simp [← this]
        · intro e
          have : i - s.active.length = 0 := by
            rcases Nat.eq_zero_or_pos (i - s.active.length) with h0 | h0
            · exact h0
            · rw [List.getElem?_eq_none (by simp; omega)] at e; cases e
          congr 1; omega
    · simp only [hba, if_false]
      by_cases hi : i < s.active.length
      · simp only [hi, if_true]; exact h.idx b i
      · simp only [hi, if_false]
        constructor
        · intro e; have := h.lt e; rw [h.len] at this; omega
        · intro e
          have := List.mem_of_getElem? e
          simp at this; exact absurd this hba

theorem getPos_add {s : ESpace} (h : EInv s) {a b : Aid} (hf : s.a2i a = none) (hb : b ∈ s.active) :
    getPos (addAgent s a) b = getPos s b := by
  obtain ⟨i, hi⟩ := (h.mem_iff b).mp hb
  have hba : b ≠ a := by rintro rfl; rw [hf] at hi; cases hi
  have hi' : (addAgent s a).a2i b = some i := by simp [addAgent, upd, hba, hi]
  rw [getPos_of_idx (einv_add h hf) hi', getPos_of_idx h hi]; rfl

/-! ### the position setter -/

/-- the value an assignment stores; `none` = rejected -/
def eassign (c : ECfg) (p : Pos) : Option Pos :=
  if inBounds c.dims p then some p else if c.torus then some (torusCorrect c.dims p) else none

theorem setPos_spec {s : ESpace} (h : EInv s) (a : Aid) (p : Pos) :
    (a ∉ s.active ∧ ∃ e, setPos s a p = .error e) ∨
    (a ∈ s.active ∧ eassign s.cfg p = none ∧ setPos s a p = .error .oob) ∨
    (∃ p' i, a ∈ s.active ∧ eassign s.cfg p = some p' ∧ s.a2i a = some i ∧
      setPos s a p = .ok { s with buf := upd s.buf i p' }) := by
  by_cases ha : a ∈ s.active
  · obtain ⟨i, hi⟩ := (h.mem_iff a).mp ha
    have hlt := h.lt hi
    right
    unfold eassign
    by_cases hb : inBounds s.cfg.dims p = true
    · right; exact ⟨p, i, ha, by simp [hb], hi, by simp [setPos, hb, hi, h.view, hlt]⟩
    · by_cases ht : s.cfg.torus = true
      · right; exact ⟨torusCorrect s.cfg.dims p, i, ha, by simp [hb, ht], hi, by simp [setPos, hb, ht, hi, h.view, hlt]⟩
      · left; exact ⟨ha, by simp [hb, ht], by simp [setPos, hb, ht]⟩
  · left
    refine ⟨ha, ?_⟩
    have hn := (h.not_mem_iff a).mp ha
    unfold setPos
    simp only [hn]
    split <;> simp
    all_goals split <;> simp

theorem einv_set {s : ESpace} (h : EInv s) (i : Nat) (p : Pos) : EInv { s with buf := upd s.buf i p } :=
  ⟨h.len, h.cap, h.idx⟩

theorem getPos_set {s : ESpace} (h : EInv s) {a : Aid} {i : Nat} (hi : s.a2i a = some i) (p : Pos) (b : Aid) :
    getPos { s with buf := upd s.buf i p } b = if b = a then .ok p else getPos s b := by
  by_cases hba : b = a
  · subst hba
    rw [getPos_of_idx (einv_set h i p) (by exact hi)]; simp [upd]
  · simp only [hba, if_false]
    cases hb : s.a2i b with
    | none => simp [getPos, hb]
    | some j =>
      have hji : j ≠ i := by rintro rfl; exact hba (h.inj hb hi)
      rw [getPos_of_idx (einv_set h i p) (by exact hb), getPos_of_idx h hb]; simp [upd, hji]

/-! ### `_remove_agent` (compaction and re-indexing) -/

theorem reindex_spec (as : List Aid) (m : Aid → Option Nat) (r : Nat → Option Aid)
    (hn : as.Nodup) (hs : ∀ b ∈ as, ∃ j, m b = some j) :
    ∃ m' r', reindex as m r = .ok (m', r') ∧
      ∀ b, m' b = if b ∈ as then (m b).map (· - 1) else m b := by
  induction as generalizing m r with
  | nil => exact ⟨m, r, rfl, by simp⟩
  | cons a as ih =>
    obtain ⟨j, hj⟩ := hs a (by simp)
    have hna : a ∉ as := (List.nodup_cons.mp hn).1
    have hs' : ∀ b ∈ as, ∃ j', upd m a (some (j - 1)) b = some j' := by
      intro b hb
      have hba : b ≠ a := by rintro rfl; exact hna hb
      simpa [upd, hba] using hs b (by simp [hb])
    obtain ⟨m', r', h1, h2⟩ := ih (upd m a (some (j - 1))) (upd r (j - 1) (some a)) (List.nodup_cons.mp hn).2 hs'
    refine ⟨m', r', by simp [reindex, hj, h1], ?_⟩
    intro b
    rw [h2 b]
    by_cases hba : b = a
    · subst hba; simp [hna, upd, hj]
    · simp [upd, hba]

theorem mem_drop_eraseIdx {s : ESpace} (h : EInv s) (index : Nat) (b : Aid) :
    b ∈ (s.active.eraseIdx index).drop index ↔ ∃ i, index < i ∧ s.a2i b = some i := by
  rw [List.mem_iff_getElem?]
  constructor
  · rintro ⟨j, hj⟩
    rw [List.getElem?_drop, List.getElem?_eraseIdx] at hj
    simp only [show ¬ (index + j < index) by omega, if_false] at hj
    exact ⟨index + j + 1, by omega, (h.idx _ _).mpr hj⟩
  · rintro ⟨i, hi, hb⟩
    refine ⟨i - 1 - index, ?_⟩
    rw [List.getElem?_drop, List.getElem?_eraseIdx]
    simp only [show ¬ (index + (i - 1 - index) < index) by omega, if_false]
    rw [show index + (i - 1 - index) + 1 = i by omega]
    exact (h.idx _ _).mp hb

theorem removeAgent_spec {s : ESpace} (h : EInv s) {a : Aid} {index : Nat} (ha : s.a2i a = some index) :
    ∃ s', removeAgent s a = .ok s' ∧ s'.cfg = s.cfg ∧ s'.cap = s.cap ∧ s'.n = s.n - 1 ∧
      s'.active = s.active.eraseIdx index ∧
      s'.buf = (fun i => if index ≤ i ∧ i + 1 < s.n then s.buf (i + 1) else s.buf i) ∧
      (∀ b, s'.a2i b = if b = a then none else
        match s.a2i b with
        | none => none
        | some i => if index < i then some (i - 1) else some i) := by
  have hlt : index < s.active.length := by rw [← h.len]; exact h.lt ha
  have hnd : ((s.active.eraseIdx index).drop index).Nodup :=
    (h.nodup.sublist (List.eraseIdx_sublist _ _)).sublist (List.drop_sublist _ _)
  have hs : ∀ b ∈ (s.active.eraseIdx index).drop index, ∃ j, upd s.a2i a none b = some j := by
    intro b hb
    obtain ⟨i, hi, hbi⟩ := (mem_drop_eraseIdx h index b).mp hb
    have hba : b ≠ a := by rintro rfl; rw [ha] at hbi; simp at hbi; omega
    exact ⟨i, by simp [upd, hba, hbi]⟩
  obtain ⟨m', r', h1, h2⟩ := reindex_spec _ (upd s.a2i a none) (upd s.i2a index none) hnd hs
  refine ⟨{ s with active := s.active.eraseIdx index, a2i := m', i2a := r', n := s.n - 1,
                   buf := fun i => if index ≤ i ∧ i + 1 < s.n then s.buf (i + 1) else s.buf i },
    by simp [removeAgent, ha, Nat.not_le.mpr hlt, h1], rfl, rfl, rfl, rfl, rfl, ?_⟩
  intro b
  show m' b = _
  rw [h2 b]
  by_cases hba : b = a
  · subst hba
    have : b ∉ (s.active.eraseIdx index).drop index := by
      rw [mem_drop_eraseIdx h]; rintro ⟨i, hi, hbi⟩; rw [ha] at hbi; simp at hbi; omega
    simp [this, upd]
  · simp only [hba, if_false, upd]
    cases hb : s.a2i b with
    | none =>
      have : b ∉ (s.active.eraseIdx index).drop index := by
        rw [mem_drop_eraseIdx h]; rintro ⟨i, _, hbi⟩; rw [hb] at hbi; cases hbi
      simp [this]
    | some i =>
      by_cases hi : index < i
      · have : b ∈ (s.active.eraseIdx index).drop index := (mem_drop_eraseIdx h index b).mpr ⟨i, hi, hb⟩
        simp [this, hi]
      · have : b ∉ (s.active.eraseIdx index).drop index := by
          rw [mem_drop_eraseIdx h]; rintro ⟨i', hi', hbi⟩; rw [hb] at hbi; simp at hbi; omega
        simp [this, hi]

theorem einv_remove {s s' : ESpace} (h : EInv s) {a : Aid} {index : Nat} (ha : s.a2i a = some index)
    (hn : s'.n = s.n - 1) (hc : s'.cap = s.cap) (hact : s'.active = s.active.eraseIdx index)
    (hm : ∀ b, s'.a2i b = if b = a then none else
        match s.a2i b with
        | none => none
        | some i => if index < i then some (i - 1) else some i) : EInv s' := by
  have hlt : index < s.active.length := by rw [← h.len]; exact h.lt ha
  refine ⟨?_, ?_, ?_⟩
  · rw [hn, hact, List.length_eraseIdx, h.len]; simp [hlt]
  · rw [hn, hc]; have := h.cap; omega
  · intro b i
    rw [hm b, hact, List.getElem?_eraseIdx]
    by_cases hba : b = a
    · subst hba
      simp only [if_true]
      constructor
      · intro e; cases e
      · intro e
        split at e
        · have := (h.idx _ _).mpr e; rw [ha] at this; simp at this; omega
        · have := (h.idx _ _).mpr e; rw [ha] at this; simp at this; omega
    · simp only [hba, if_false]
      cases hb : s.a2i b with
      | none =>
        simp only
        constructor
        · intro e; cases e
        · intro e
          split at e
          · have := (h.idx _ _).mpr e; rw [hb] at this; cases this
          · have := (h.idx _ _).mpr e; rw [hb] at this; cases this
      | some i0 =>
        have hne : i0 ≠ index := by rintro rfl; exact hba (h.inj hb ha)
        simp only
        by_cases hi : index < i0
        · simp only [hi, if_true]
          constructor
          · intro e
            have : i0 - 1 = i := by simpa using e
            have hii : ¬ i < index := by omega
            simp only [hii, if_false]
            rw [show i + 1 = i0 by omega]; exact (h.idx _ _).mp hb
          · intro e
            split at e
            · have := (h.idx _ _).mpr e; rw [hb] at this; simp at this; omega
            · have := (h.idx _ _).mpr e; rw [hb] at this; simp at this; congr 1; omega
        · simp only [hi, if_false]
          constructor
          · intro e
            have : i0 = i := by simpa using e
            have hii : i < index := by omega
            simp only [hii, if_true]
            rw [← this]; exact (h.idx _ _).mp hb
          · intro e
            split at e
            · have := (h.idx _ _).mpr e; rw [hb] at this; exact this
            · have := (h.idx _ _).mpr e; rw [hb] at this; simp at this; omega

theorem getPos_remove {s s' : ESpace} (h : EInv s) (h' : EInv s') {a b : Aid} {index : Nat}
    (ha : s.a2i a = some index)
    (hbuf : s'.buf = (fun i => if index ≤ i ∧ i + 1 < s.n then s.buf (i + 1) else s.buf i))
    (hm : ∀ b, s'.a2i b = if b = a then none else
        match s.a2i b with
        | none => none
        | some i => if index < i then some (i - 1) else some i)
    (hba : b ≠ a) : getPos s' b = getPos s b := by
  cases hb : s.a2i b with
  | none =>
    have : s'.a2i b = none := by rw [hm b]; simp [hba, hb]
    simp [getPos, hb, this]
  | some i =>
    have hne : i ≠ index := by rintro rfl; exact hba (h.inj hb ha)
    have hlt := h.lt hb
    by_cases hi : index < i
    · have e : s'.a2i b = some (i - 1) := by rw [hm b]; simp [hba, hb, hi]
      rw [getPos_of_idx h' e, getPos_of_idx h hb, hbuf]
      have : index ≤ i - 1 ∧ i - 1 + 1 < s.n := by omega
      simp only [this, and_self, if_true]
      rw [show i - 1 + 1 = i by omega]
    · have e : s'.a2i b = some i := by rw [hm b]; simp [hba, hb, hi]
      rw [getPos_of_idx h' e, getPos_of_idx h hb, hbuf]
      have : ¬ (index ≤ i ∧ i + 1 < s.n) := by omega
      simp only [this, if_false]

/-! ### histories: the model refines the property's own description -/

theorem nodup_eraseIdx_eq_filter (l : List Aid) (i : Nat) (a : Aid) (hn : l.Nodup) (hi : l[i]? = some a) :
    l.eraseIdx i = l.filter (fun k => k ≠ a) := by
  induction l generalizing i with
  | nil => simp at hi
  | cons x xs ih =>
    obtain ⟨hx, hxs⟩ := List.nodup_cons.mp hn
    cases i with
    | zero =>
      have hxa : x = a := by simpa using hi
      subst hxa
      simp only [List.eraseIdx_cons_zero, List.filter_cons, ne_eq, not_true_eq_false, decide_false,
        Bool.false_eq_true, if_false]
      symm; rw [List.filter_eq_self]
      intro b hb; have : b ≠ x := by rintro rfl; exact hx hb
      simpa using this
    | succ i =>
      have hi' : xs[i]? = some a := by simpa using hi
      have hxa : x ≠ a := by rintro rfl; exact hx (List.mem_of_getElem? hi')
      simp [List.filter_cons, hxa, ih i hxs hi']

/-- The property's description of one call of the experimental API: who is in the space (in order of
    creation) and the position last assigned to each agent (`none` until the first assignment). -/
def especStep (c : ECfg) (st : List Aid × (Aid → Option Pos)) : EOp → List Aid × (Aid → Option Pos)
  | .new a => if a ∈ st.1 then st else (st.1 ++ [a], upd st.2 a none)
  | .set a p =>
    if a ∈ st.1 then
      match eassign c p with
      | some p' => (st.1, upd st.2 a (some p'))
      | none => st
    else st
  | .remove a => if a ∈ st.1 then (st.1.filter (fun k => k ≠ a), upd st.2 a none) else st

def espec (c : ECfg) (ops : List EOp) : List Aid × (Aid → Option Pos) :=
  ops.foldl (especStep c) ([], fun _ => none)

structure ERef (c : ECfg) (s : ESpace) (st : List Aid × (Aid → Option Pos)) : Prop where
  inv : EInv s
  cfg : s.cfg = c
  active : s.active = st.1
  pos : ∀ a p, st.2 a = some p → getPos s a = .ok p
  out : ∀ a, a ∉ st.1 → st.2 a = none

theorem estep_refines {c : ECfg} {s : ESpace} {st : List Aid × (Aid → Option Pos)} (h : ERef c s st)
    (op : EOp) : ERef c (estep s op) (especStep c st op) := by
  obtain ⟨hi, hc, hact, hpos, hout⟩ := h
  cases op with
  | new a =>
    simp only [estep, especStep]
    by_cases ha : a ∈ st.1
    · have : (s.a2i a).isSome = true := by
        rw [← hact, hi.mem_iff] at ha; obtain ⟨i, hi'⟩ := ha; simp [hi']
      simp only [this, if_true, ha]
      exact ⟨hi, hc, hact, hpos, hout⟩
    · have hf : s.a2i a = none := by rw [← hact] at ha; exact (hi.not_mem_iff a).mp ha
      simp only [hf, Option.isSome_none, Bool.false_eq_true, if_false, ha]
      refine ⟨einv_add hi hf, hc, by simp [addAgent, hact], ?_, ?_⟩
      · intro b p hb
        by_cases hba : b = a
        · simp [upd, hba] at hb
        · simp only [upd, hba, if_false] at hb
          have hbm : b ∈ s.active := by
            rw [hact]; exact Classical.byContradiction fun hn => by rw [hout b hn] at hb; cases hb
          rw [getPos_add hi hf hbm]; exact hpos b p hb
      · intro b hb
        have hba : b ≠ a := by rintro rfl; simp at hb
        simp only [upd, hba, if_false]
        exact hout b (by intro hm; exact hb (by simp [hm]))
  | set a p =>
    simp only [estep, especStep]
    rcases setPos_spec hi a p with ⟨ha, e, he⟩ | ⟨ha, hr, he⟩ | ⟨p', i, ha, hr, hidx, he⟩
    · rw [hact] at ha
      simp only [he, ha, if_false]
      exact ⟨hi, hc, hact, hpos, hout⟩
    · rw [hact] at ha; rw [hc] at hr
      simp only [he, ha, if_true, hr]
      exact ⟨hi, hc, hact, hpos, hout⟩
    · rw [hact] at ha; rw [hc] at hr
      simp only [he, ha, if_true, hr]
      refine ⟨einv_set hi i p', hc, hact, ?_, ?_⟩
      · intro b q hb
        rw [getPos_set hi hidx]
        by_cases hba : b = a
        · simp [upd, hba] at hb; simp [hba, hb]
        · simp only [upd, hba, if_false] at hb ⊢; exact hpos b q hb
      · intro b hb
        have hba : b ≠ a := by rintro rfl; exact hb ha
        simp only [upd, hba, if_false]; exact hout b hb
  | remove a =>
    simp only [estep, especStep]
    by_cases ha : a ∈ st.1
    · simp only [ha, if_true]
      obtain ⟨index, hidx⟩ := (hi.mem_iff a).mp (hact ▸ ha)
      obtain ⟨s', h1, h2, h3, h4, h5, h6, h7⟩ := removeAgent_spec hi hidx
      have hi' := einv_remove hi hidx h4 h3 h5 h7
      simp only [h1]
      refine ⟨hi', h2.trans hc, ?_, ?_, ?_⟩
      · rw [h5, ← hact]; exact nodup_eraseIdx_eq_filter _ _ _ hi.nodup ((hi.idx _ _).mp hidx)
      · intro b q hb
        by_cases hba : b = a
        · simp [upd, hba] at hb
        · simp only [upd, hba, if_false] at hb
          rw [getPos_remove hi hi' hidx h6 h7 hba]; exact hpos b q hb
      · intro b hb
        by_cases hba : b = a
        · simp [upd, hba]
        · simp only [upd, hba, if_false]
          apply hout b
          intro hm; exact hb (List.mem_filter.mpr ⟨hm, by simpa using hba⟩)
    · have hn : s.a2i a = none := (hi.not_mem_iff a).mp (hact ▸ ha)
      simp only [removeAgent, hn, ha, if_false]
      exact ⟨hi, hc, hact, hpos, hout⟩

theorem efold_refines {c : ECfg} (ops : List EOp) {s : ESpace} {st : List Aid × (Aid → Option Pos)}
    (h : ERef c s st) : ERef c (ops.foldl estep s) (ops.foldl (especStep c) st) := by
  induction ops generalizing s st with
  | nil => exact h
  | cons op ops ih => exact ih (estep_refines h op)

theorem erun_refines (c : ECfg) (cap : Nat) (ops : List EOp) : ERef c (erun c cap ops) (espec c ops) :=
  efold_refines ops ⟨einv_init c cap, rfl, rfl, by simp, by simp⟩

end Mesa.Cont
