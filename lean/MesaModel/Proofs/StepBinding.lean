import MesaModel.Model.StepBinding
/-! Helper lemmas for C05: the binding of `step` on the instance (model: `Model/StepBinding.lean`). -/
namespace Mesa.Steps

theorem runChain_entry_steps (h : Hier) (d : Nat) (args : List Int) (s : Nat) :
    ∀ e ∈ (runChain h d args s).1, e.steps = s := by
  induction h generalizing d args with
  | nil => simp [runChain]
  | cons L rest ih =>
    unfold runChain
    split
    · exact ih _ _
    · split
      · simp
      · split
        · intro e he
          simp only [List.mem_cons] at he
          rcases he with rfl | he
          · rfl
          · exact ih _ _ e he
        · simp

theorem construct_wrapped (h : Hier) (stopAt : Nat) (pre : Option Nat) (rz : Option Nat := none) :
    (Obj.construct h stopAt pre rz).dictStep = some .wrapper ∧ (Obj.construct h stopAt pre rz).inst.steps = 0 ∧
    (Obj.construct h stopAt pre rz).userStep = (match pre with | some f => .fn f | none => .chain) ∧
    (Obj.construct h stopAt pre rz).raiser = rz := by
  cases pre <;> simp [Obj.construct, Obj.init, Obj.alloc]

theorem takeThrough_prefix (r : Nat) (l : List Entry) : takeThrough r l <+: l := by
  induction l with
  | nil => exact List.prefix_refl _
  | cons e es ih =>
    unfold takeThrough
    split
    · exact ⟨es, rfl⟩
    · exact (List.prefix_cons_inj e).mpr ih

/-- cutting keeps a prefix: every record that remains was made by the uncut chain -/
theorem cutAt_prefix (r : Option Nat) (res : List Entry × Bool) : (cutAt r res).1 <+: res.1 := by
  unfold cutAt
  cases r with
  | none => exact List.prefix_refl _
  | some r =>
    simp only
    split
    · exact takeThrough_prefix r _
    · exact List.prefix_refl _

theorem call_wrapped_steps (o : Obj) (hw : o.dictStep = some .wrapper) (args : List Int) :
    (o.call args).obj.inst.steps = o.inst.steps + 1 ∧ (o.call args).obj.dictStep = some .wrapper ∧
    (o.call args).obj.userStep = o.userStep ∧
    (∀ e ∈ (o.call args).entries, e.steps = o.inst.steps + 1) ∧ (∀ c ∈ (o.call args).fns, c.steps = o.inst.steps + 1) := by
  obtain ⟨i, d, u, rz⟩ := o
  simp only at hw
  subst hw
  cases u with
  | chain =>
    refine ⟨rfl, rfl, rfl, ?_, by simp [Obj.call]⟩
    intro e he
    exact runChain_entry_steps _ _ _ _ e ((cutAt_prefix _ _).subset he)
  | fn f => exact ⟨rfl, rfl, rfl, by simp [Obj.call], by simp [Obj.call]⟩

theorem call_wrapped_chain (o : Obj) (hw : o.dictStep = some .wrapper) (hu : o.userStep = .chain) (args : List Int) :
    (o.call args).entries = (callStepR o.inst o.raiser args).2.1 ∧ (o.call args).ok = (callStepR o.inst o.raiser args).2.2 ∧
    (o.call args).obj.inst = (callStepR o.inst o.raiser args).1 ∧ (o.call args).fns = [] := by
  obtain ⟨i, d, u, rz⟩ := o
  simp only at hw hu
  subst hw; subst hu
  exact ⟨rfl, rfl, rfl, rfl⟩

theorem call_wrapped_fn (o : Obj) (hw : o.dictStep = some .wrapper) (f : Nat) (hu : o.userStep = .fn f) (args : List Int) :
    (o.call args).entries = [] ∧ (o.call args).fns = [⟨f, o.inst.steps + 1, args⟩] ∧ (o.call args).ok = !raisesFn f := by
  obtain ⟨i, d, u, rz⟩ := o
  simp only at hw hu
  subst hw; subst hu
  exact ⟨rfl, rfl, rfl⟩

theorem apply_keeps_wrapper (o : Obj) (hw : o.dictStep = some .wrapper) (op : BOp) (hop : op.rebindsStep = false) :
    (o.apply op).dictStep = some .wrapper ∧
    (o.apply op).inst.steps = o.inst.steps + (if op.isCall then 1 else 0) := by
  cases op with
  | call args => exact ⟨(call_wrapped_steps o hw args).2.1, by simpa [Obj.apply, BOp.isCall] using (call_wrapped_steps o hw args).1⟩
  | assign f => simp [BOp.rebindsStep] at hop
  | del => simp [BOp.rebindsStep] at hop
  | setUser f => exact ⟨hw, by simp [Obj.apply, BOp.isCall]⟩

theorem run_keeps_wrapper (o : Obj) (hw : o.dictStep = some .wrapper) (ops : List BOp)
    (hops : ∀ op ∈ ops, op.rebindsStep = false) :
    (o.run ops).dictStep = some .wrapper ∧ (o.run ops).inst.steps = o.inst.steps + (ops.filter (·.isCall)).length := by
  induction ops generalizing o with
  | nil => exact ⟨hw, by simp [Obj.run]⟩
  | cons op ops ih =>
    obtain ⟨h1, h2⟩ := apply_keeps_wrapper o hw op (hops op List.mem_cons_self)
    obtain ⟨i1, i2⟩ := ih (o.apply op) h1 (fun x hx => hops x (List.mem_cons_of_mem _ hx))
    refine ⟨by simpa [Obj.run] using i1, ?_⟩
    have : (o.run (op :: ops)) = (o.apply op).run ops := rfl
    rw [this, i2, h2]
    cases hc : op.isCall <;> simp [hc] <;> omega

theorem apply_userStep_of_no_setUser (o : Obj) (hw : o.dictStep = some .wrapper) (op : BOp)
    (h1 : op.rebindsStep = false) (h2 : ∀ f, op ≠ .setUser f) : (o.apply op).userStep = o.userStep := by
  cases op with
  | call args => exact (call_wrapped_steps o hw args).2.2.1
  | assign f => simp [BOp.rebindsStep] at h1
  | del => simp [BOp.rebindsStep] at h1
  | setUser f => exact absurd rfl (h2 f)

theorem run_userStep_of_no_setUser (o : Obj) (hw : o.dictStep = some .wrapper) (ops : List BOp)
    (h1 : ∀ op ∈ ops, op.rebindsStep = false) (h2 : ∀ op ∈ ops, ∀ f, op ≠ .setUser f) :
    (o.run ops).userStep = o.userStep := by
  induction ops generalizing o with
  | nil => rfl
  | cons op ops ih =>
    have hk := (apply_keeps_wrapper o hw op (h1 op List.mem_cons_self)).1
    have := ih (o.apply op) hk (fun x hx => h1 x (List.mem_cons_of_mem _ hx)) (fun x hx => h2 x (List.mem_cons_of_mem _ hx))
    have e : (o.run (op :: ops)) = (o.apply op).run ops := rfl
    rw [e, this, apply_userStep_of_no_setUser o hw op (h1 op List.mem_cons_self) (h2 op List.mem_cons_self)]

/-- once the wrapper is gone from the instance `__dict__`, nothing brings it back and the counter stands still -/
theorem apply_unwrapped (o : Obj) (hw : o.dictStep ≠ some .wrapper) (op : BOp) :
    (o.apply op).dictStep ≠ some .wrapper ∧ (o.apply op).inst.steps = o.inst.steps := by
  cases op with
  | call args =>
    simp only [Obj.apply, Obj.call]
    cases hd : o.dictStep with
    | none => simp [tick]
    | some s =>
      cases s with
      | wrapper => exact absurd hd hw
      | fn f => simp [hd]
  | assign f => simp [Obj.apply]
  | del => simp [Obj.apply]
  | setUser f => exact ⟨hw, rfl⟩

theorem run_unwrapped (o : Obj) (hw : o.dictStep ≠ some .wrapper) (ops : List BOp) :
    (o.run ops).dictStep ≠ some .wrapper ∧ (o.run ops).inst.steps = o.inst.steps := by
  induction ops generalizing o with
  | nil => exact ⟨hw, rfl⟩
  | cons op ops ih =>
    obtain ⟨h1, h2⟩ := apply_unwrapped o hw op
    obtain ⟨i1, i2⟩ := ih (o.apply op) h1
    exact ⟨i1, by rw [← h2]; exact i2⟩

theorem Obj.run_append (o : Obj) (l1 l2 : List BOp) : o.run (l1 ++ l2) = (o.run l1).run l2 := by
  simp [Obj.run, List.foldl_append]

theorem apply_raiser (o : Obj) (op : BOp) : (o.apply op).raiser = o.raiser := by
  cases op with
  | call args =>
    simp only [Obj.apply, Obj.call]
    cases o.dictStep with
    | none => rfl
    | some sl =>
      cases sl with
      | wrapper => cases o.userStep <;> rfl
      | fn f => rfl
  | assign f => rfl
  | del => rfl
  | setUser f => rfl

theorem run_raiser (o : Obj) (ops : List BOp) : (o.run ops).raiser = o.raiser := by
  induction ops generalizing o with
  | nil => rfl
  | cons op ops ih =>
    have e : (o.run (op :: ops)) = (o.apply op).run ops := rfl
    rw [e, ih, apply_raiser]

theorem takeThrough_split (r : Nat) (pre : List Entry) (e : Entry) (post : List Entry) (he : e.depth = r)
    (hpre : ∀ x ∈ pre, x.depth ≠ r) : takeThrough r (pre ++ e :: post) = pre ++ [e] := by
  induction pre with
  | nil => simp [takeThrough, he]
  | cons p pre ih =>
    have hp : (p.depth == r) = false := by simpa using hpre p List.mem_cons_self
    simp only [List.cons_append, takeThrough, hp]
    rw [ih (fun x hx => hpre x (List.mem_cons_of_mem _ hx))]
    rfl

end Mesa.Steps
