import MesaModel.Model.VizKwargs
import MesaModel.Proofs.Viz
/-!
Helper lemmas for the plotting-keyword part of C20 (`Model/VizKwargs.lean`).
-/
namespace Mesa.Viz

/-- some entry specifies the key / the key is among the plotting keywords -/
def clashes (es : List Entry) (kw : List (Key × Val)) (kf : Key × (Entry → Option Val)) : Prop :=
  (∃ e ∈ es, kf.2 e ≠ none) ∧ kf.1 ∈ kw.map (·.1)

theorem clash_iff (es : List Entry) (kw : List (Key × Val)) (kf : Key × (Entry → Option Val)) :
    (!(optArray kf.2 es).isEmpty && kw.any (·.1 == kf.1)) = true ↔ clashes es kw kf := by
  unfold clashes
  rw [Bool.and_eq_true, optArray_isEmpty]
  constructor
  · rintro ⟨h1, h2⟩
    constructor
    · have : ¬ (es.all fun e => (kf.2 e).isNone) = true := by simpa using h1
      rw [List.all_eq_true] at this
      have : ∃ e ∈ es, ¬ (kf.2 e).isNone = true := by
        apply Classical.byContradiction
        intro hc
        exact this fun e he => Classical.byContradiction fun hn => hc ⟨e, he, hn⟩
      obtain ⟨e, he, hn⟩ := this
      exact ⟨e, he, fun h => hn (by rw [h]; rfl)⟩
    · obtain ⟨kv, hm, he⟩ := List.any_eq_true.mp h2
      exact List.mem_map.mpr ⟨kv, hm, beq_iff_eq.mp he⟩
  · rintro ⟨⟨e, he, hn⟩, h2⟩
    constructor
    · have : ¬ (es.all fun e => (kf.2 e).isNone) = true := by
        rw [List.all_eq_true]
        intro hall
        have := hall e he
        cases hk : kf.2 e with
        | none => exact hn hk
        | some v => rw [hk] at this; cases this
      simpa using this
    · obtain ⟨kv, hm, he⟩ := List.mem_map.mp h2
      exact List.any_eq_true.mpr ⟨kv, hm, by simp [he]⟩

/-- `kwConflict` reports the first keyword — in the order edgecolors, linewidths, alpha — that clashes -/
theorem kwConflict_none_iff (es : List Entry) (kw : List (Key × Val)) :
    kwConflict es kw = none ↔ ∀ kf ∈ optKeys, ¬ clashes es kw kf := by
  unfold kwConflict
  rw [Option.map_eq_none_iff, List.find?_eq_none]
  constructor
  · intro h kf hm hc
    exact h kf hm ((clash_iff es kw kf).mpr hc)
  · intro h kf hm hc
    exact h kf hm ((clash_iff es kw kf).mp hc)

theorem kwConflict_some {es : List Entry} {kw : List (Key × Val)} {k : Key} (h : kwConflict es kw = some k) :
    ∃ kf ∈ optKeys, kf.1 = k ∧ clashes es kw kf := by
  unfold kwConflict at h
  obtain ⟨kf, hf, rfl⟩ := Option.map_eq_some_iff.mp h
  have hp : (!(optArray kf.2 es).isEmpty && kw.any (·.1 == kf.1)) = true :=
    List.find?_some (p := fun (kf : Key × (Entry → Option Val)) => !(optArray kf.2 es).isEmpty && kw.any (·.1 == kf.1)) hf
  exact ⟨kf, List.mem_of_find?_eq_some hf, rfl, (clash_iff es kw kf).mp hp⟩

/-- the keyword `kwConflict` names clashes, and no keyword before it in `optKeys` does -/
theorem kwConflict_first {es : List Entry} {kw : List (Key × Val)} {k : Key} (h : kwConflict es kw = some k) :
    ∃ kf before after, optKeys = before ++ kf :: after ∧ kf.1 = k ∧ clashes es kw kf ∧ ∀ kf' ∈ before, ¬ clashes es kw kf' := by
  unfold kwConflict at h
  obtain ⟨kf, hf, rfl⟩ := Option.map_eq_some_iff.mp h
  obtain ⟨hp, before, after, hsplit, hbefore⟩ := List.find?_eq_some_iff_append.mp hf
  refine ⟨kf, before, after, hsplit, rfl, (clash_iff es kw kf).mp hp, fun kf' hm hc => ?_⟩
  have := hbefore kf' hm
  rw [(clash_iff es kw kf').mpr hc] at this
  cases this

theorem applyKw_nil (e : Entry) : applyKw [] e = e := rfl

theorem drawSpaceKw_eq {sp : Space} (hw : sp.WF) (hr : drawRaises sp = none) (heap : Heap) (p : Portrayal) (kw : List (Key × Val)) :
    drawSpaceKw sp heap p kw = scatterKw (drawEntries sp heap p) (if forwardsKwargs sp.fam then kw else []) := by
  unfold drawSpaceKw
  rw [hr]
  simp only
  rw [collect_eq_filterMap _ _ _ _ (spaceAgents_located hw)]
  simp only [drawEntries, List.map_filterMap]
  congr 2
  congr 1
  funext a
  unfold entryOf markerOf
  cases a.location <;> rfl

end Mesa.Viz
